/-
  Model/Device.lean — a request and its reply through a chain of `mangos.Device`s (REQ/REP; SURVEYOR/RESPONDENT is
  the same byte-level story with xsurveyor / xrespondent).

  A device is two raw sockets and the forwarder loop of device.go, which passes (Header, Body) from one socket's
  RecvMsg to the other's SendMsg untouched.  What changes a message on its way is only:

    request direction, at the device's XREP (XRESPONDENT) side: the receiver of `Hop.recv` with the 4-byte id of the
      arrival pipe put in the header first (`Rep.parse`, flavour xrep) — the routing words are moved from the body to
      the header, subject to the hop limit —, and the transport of the outgoing XREQ side writing Header then Body
      (`Wire.encode`);
    reply direction, at the device's XREQ (XSURVEYOR) side: the first four bytes of the body become the header
      (`Parse.recv .hdr4`); the XREP side's SendMsg takes the first header word as the id of the pipe to send on and
      writes the rest (`rawRoute`, the raw `send` of `Rep.step`).

  The theorems say that, for any number of devices, any pipe ids, any request id and any payloads, the request reaches
  the server iff every hop limit on the way allows it, with the payload unchanged and the path recorded; and that the
  reply to it retraces exactly that path — at every device it leaves on the pipe the request came in on — and reaches
  the client as (request id, reply payload).
-/
import Model.HopLemmas
import Model.Parse
import Model.Proto.Rep
namespace Model
namespace Device
open Hop

/-- the word a pipe id is written as -/
def pw (p : Nat) : Word :=
  ⟨UInt8.ofNat (p / 16777216 % 256), UInt8.ofNat (p / 65536 % 256), UInt8.ofNat (p / 256 % 256), UInt8.ofNat (p % 256)⟩

theorem pw_bytes (p : Nat) : (pw p).bytes = beEnc 4 p := by
  simp [pw, Word.bytes, beEnc, Nat.div_div_eq_div_mul]

theorem small_top : ∀ x : Fin 128, (UInt8.ofNat x.val &&& 0x80 != 0) = false := by decide

/-- pipe ids are 31-bit (the allocator masks with 0x7fffffff): their word never looks like a request id -/
theorem pw_top (p : Nat) (h : p < 2147483648) : (pw p).top = false := by
  have h1 : p / 16777216 < 128 := by omega
  have h2 : p / 16777216 % 256 = p / 16777216 := Nat.mod_eq_of_lt (by omega)
  have := small_top ⟨p / 16777216, h1⟩
  simpa [pw, Word.top, h2] using this

/-- what a transport writes for a message: header, then body -/
def wire (m : Bytes × Bytes) : Bytes := m.1 ++ m.2

/-- one device, request direction: the bytes `w` arrive on pipe `p` of the XREP side (hop limit `ttl`); what the XREQ
    side writes to the next connection -/
def devReq (P : HopSite) (ttl p : Nat) (w : Bytes) : Option Bytes := (Hop.recv P ttl (beEnc 4 p) w).map wire

/-- a chain of devices, client side first: (hop limit, arrival pipe) of each -/
def chainReq (P : HopSite) : List (Nat × Nat) → Bytes → Option Bytes
 | [], w => some w
 | (ttl, p) :: ds, w => (devReq P ttl p w).bind (chainReq P ds)

/-- the raw XREP / XRESPONDENT SendMsg: the first header word names the pipe, the rest of the header goes out -/
def rawRoute (hdr : Bytes) : Option (Nat × Bytes) :=
  if hdr.length < 4 then none else some (beDec (hdr.take 4), hdr.drop 4)

/-- one device, reply direction: the bytes `w` arrive at the XREQ side; the pipe the XREP side sends on, and what it
    writes there -/
def devRep (w : Bytes) : Option (Nat × Bytes) :=
  match Parse.recv .hdr4 0 w with
  | none => none
  | some (h, b) => match rawRoute h with
    | none => none
    | some (p, h') => some (p, wire (h', b))

/-- the reply through n devices, server side first: the pipes chosen on the way, and what reaches the client's socket -/
def chainRep : Nat → Bytes → Option (List Nat × Bytes)
 | 0, w => some ([], w)
 | n + 1, w => match devRep w with
   | none => none
   | some (p, w') => (chainRep n w').map (fun r => (p :: r.1, r.2))

/-- every hop limit on the way allows the request: device i (counting from the client, from 0) sees k + i + 1 routing
    words -/
def allows : List (Nat × Nat) → Nat → Bool
 | [], _ => true
 | (ttl, _) :: ds, k => decide (k + 1 ≤ ttl) && allows ds (k + 1)

/-- the recorded path, most recent hop first -/
def path (ds : List (Nat × Nat)) : List Word := (ds.map (fun d => pw d.2)).reverse

theorem devReq_words (P : HopSite) (hwf : WellFormed P) (ttl p : Nat) (ws : List Word) (idw : Word)
    (payload : Bytes) (hws : ∀ w ∈ ws, w.top = false) (hid : idw.top = true) :
    devReq P ttl p (flat ws ++ idw.bytes ++ payload) =
      if ws.length + 1 ≤ ttl then some (flat (pw p :: ws) ++ idw.bytes ++ payload) else none := by
  unfold devReq
  rw [recv_words P hwf ttl (beEnc 4 p) ws idw payload hws hid]
  split
  · simp [wire, flat, pw_bytes, List.append_assoc]
  · rfl

theorem chainReq_words (P : HopSite) (hwf : WellFormed P) (idw : Word) (payload : Bytes) (hid : idw.top = true) :
    ∀ (ds : List (Nat × Nat)) (ws : List Word), (∀ d ∈ ds, d.2 < 2147483648) → (∀ w ∈ ws, w.top = false) →
    chainReq P ds (flat ws ++ idw.bytes ++ payload) =
      if allows ds ws.length then some (flat (path ds ++ ws) ++ idw.bytes ++ payload) else none := by
  intro ds
  induction ds with
  | nil => intro ws _ _; simp [chainReq, allows, path]
  | cons d ds ih =>
    intro ws hds hws
    obtain ⟨ttl, p⟩ := d
    have hp : p < 2147483648 := hds (ttl, p) (by simp)
    simp only [chainReq, allows]
    rw [devReq_words P hwf ttl p ws idw payload hws hid]
    by_cases h : ws.length + 1 ≤ ttl
    · simp only [h, if_true, Option.bind_some, decide_true, Bool.true_and]
      have hws' : ∀ w ∈ pw p :: ws, w.top = false := by
        intro w hw
        rcases List.mem_cons.mp hw with rfl | hw
        · exact pw_top p hp
        · exact hws w hw
      rw [ih (pw p :: ws) (fun d hd => hds d (by simp [hd])) hws']
      simp only [List.length_cons]
      have : path ((ttl, p) :: ds) ++ ws = path ds ++ pw p :: ws := by
        simp [path, List.append_assoc]
      rw [this]
    · simp [h]

theorem devRep_word (p : Nat) (hp : p < 2147483648) (rest : Bytes) :
    devRep ((pw p).bytes ++ rest) = some (p, rest) := by
  have hlt : p < 256 ^ 4 := by omega
  have hl : (beEnc 4 p).length = 4 := beEnc_length 4 p
  have h1 : ¬ ((beEnc 4 p ++ rest).length < 4) := by simp [hl]
  have ht : (beEnc 4 p ++ rest).take 4 = beEnc 4 p := by
    rw [List.take_append_of_le_length (by omega)]; exact List.take_of_length_le (by omega)
  have hd : (beEnc 4 p ++ rest).drop 4 = rest := by
    rw [List.drop_append_of_le_length (by omega)]; simp [List.drop_of_length_le (Nat.le_of_eq hl)]
  rw [pw_bytes]
  simp only [devRep, Parse.recv, h1, if_false, ht, hd, rawRoute]
  have h2 : ¬ ((beEnc 4 p).length < 4) := by omega
  simp only [h2, if_false, List.take_of_length_le (Nat.le_of_eq hl), List.drop_of_length_le (Nat.le_of_eq hl),
    beDec_beEnc_of_lt 4 p hlt, wire, List.nil_append]

theorem chainRep_path (idw : Word) (payload : Bytes) :
    ∀ (ps : List Nat), (∀ p ∈ ps, p < 2147483648) →
    chainRep ps.length (flat (ps.map pw) ++ idw.bytes ++ payload) = some (ps, idw.bytes ++ payload) := by
  intro ps
  induction ps with
  | nil => intro _; simp [chainRep, flat]
  | cons p ps ih =>
    intro hps
    have hp : p < 2147483648 := hps p (by simp)
    simp only [List.length_cons, chainRep, List.map_cons, flat, List.flatMap_cons, List.append_assoc]
    rw [devRep_word p hp]
    have := ih (fun q hq => hps q (by simp [hq]))
    simp only [flat, List.append_assoc] at this
    simp [this]

/-- the client's REQ (or raw XREQ) socket splits what arrives into request id and payload -/
theorem client_sees_reply (idw : Word) (payload : Bytes) :
    Parse.recv .hdr4 0 (idw.bytes ++ payload) = some (idw.bytes, payload) := by
  simp [Parse.recv, Word.bytes]

/-- `rawRoute` is what the raw flavours of the reply-side machine do with a Send: the message goes to `sendTo` for the
    pipe named by the first header word, with the rest of the header -/
theorem rep_machine_routes_by_rawRoute (s : Proto.Rep.State) (hraw : s.flavor.cooked = false) (hopen : s.closed = false)
    (call ctx h b : String) (p : Nat) (h' : Bytes) (hr : rawRoute (Proto.bytesOf h) = some (p, h')) :
    Proto.Rep.step s ["send", call, ctx, h, b] =
      Proto.Rep.sendTo s (Proto.natOf call) 0 p (h', Proto.bytesOf b) (Proto.bytesOf h) p h' := by
  unfold rawRoute at hr
  split at hr
  · simp at hr
  · rename_i hlen
    simp only [Option.some.injEq, Prod.mk.injEq] at hr
    obtain ⟨rfl, rfl⟩ := hr
    simp [Proto.Rep.step, hraw, hopen, hlen]

end Device
end Model
