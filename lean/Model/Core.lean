/-
  Model/Core.lean — internal/core: the process-wide pipe id allocator, the pipe lifecycle
  (Attaching → protocol AddPipe → Attached → … → RemovePipe → Detached → id released), listeners, dialers
  (redial with back-off), socket close.  Pipes are named by canonical numbers k = order of creation.
  Time: operation lines carry the harness clock (ms); redial timers may fire once due and must have fired once overdue.
-/
import Model.Proto.Common
namespace Model
namespace Core

def slack : Nat := 250

/-! ### the id allocator (pipe.go: pipeIDAllocator) -/

/-- `Get`: scan from `next`, skipping 0 and ids in use, all arithmetic modulo 2^31 on the masked value -/
def allocScan (used : List Nat) : Nat → Nat → Option (Nat × Nat)
  | 0, _ => none
  | fuel+1, next =>
    let id := next % 0x80000000
    if id = 0 ∨ used.contains id then allocScan used fuel (next + 1) else some (id, next + 1)

/-! ### events specific to the core machine -/

inductive CEv where
  | hook (ev : String) (k : Nat)        -- attaching | attached | detached
  | proto (what : String) (k : Nat)     -- add-ok | add-refused | remove
  | res (e : String)
  | ret (call : Nat) (e : String)       -- a parked Dial returned
  | attempt (d : Nat)                   -- the transport dialer was asked to connect
deriving Repr, DecidableEq, BEq

def CEv.render : CEv → String
  | .hook ev k => s!"hk:{ev}:{k}"
  | .proto w k => s!"pr:{w}:{k}"
  | .res e => s!"res:{e}"
  | .ret c e => s!"ret:{c}:{e}"
  | .attempt d => s!"att:{d}"

structure PipeSt where
  k : Nat
  dialer : Option Nat      -- created by this dialer (else by a listener)
  added : Bool             -- the protocol accepted it (Attached is / was reported)
  closed : Bool
deriving Repr, BEq

structure Timer where
  tmin : Nat
  tmax : Nat
  delay : Nat
deriving Repr, BEq

structure DialerSt where
  d : Nat
  asynch : Bool
  closed : Bool := false
  active : Bool := false
  minT : Nat              -- reconnect time, ms
  maxT : Nat              -- max reconnect time, ms (0 = constant delay)
  cur : Nat := 0          -- current delay; after a failure it lies in an interval because of the random factor
  curHi : Nat := 0
  dialing : Option Nat := none   -- an attempt is inside the transport (parked sync call id, or 0 for a background attempt)
  timer : Option Timer := none   -- redial timer
deriving Repr, BEq

structure ListenerSt where
  l : Nat
  active : Bool := false
  closed : Bool := false
deriving Repr, BEq

structure State where
  pipes : List PipeSt := []          -- live (listed) pipes
  used : List Nat := []              -- canonical ids reserved in the allocator
  npipes : Nat := 0                  -- pipes created so far
  listeners : List ListenerSt := []
  dialers : List DialerSt := []
  closed : Bool := false
  hookHold : Bool := false           -- the application's hook is parked inside a Detached callback
  heldDetached : List Nat := []      -- pipes whose Detached callback has not returned yet
  attaching : List Nat := []         -- listed, id reserved, hook parked inside the Attaching callback (at most one)
  attachClosed : Bool := false       -- … and closed meanwhile (by the application or by socket close)
  tprev : Nat := 0
  -- ghost: per pipe the hook events seen so far, in order
  hooklog : List (Nat × String) := []
deriving Repr, BEq

def init : State := {}

def getDialer (s : State) (d : Nat) : Option DialerSt := s.dialers.find? (fun x => x.d = d)
def setDialer (s : State) (d : Nat) (f : DialerSt → DialerSt) : State := { s with dialers := s.dialers.map (fun x => if x.d = d then f x else x) }
def getListener (s : State) (l : Nat) : Option ListenerSt := s.listeners.find? (fun x => x.l = l)
def setListener (s : State) (l : Nat) (f : ListenerSt → ListenerSt) : State := { s with listeners := s.listeners.map (fun x => if x.l = l then f x else x) }

/-- socket.addPipe for a freshly connected transport pipe; `mode`: plain | hookclose | refuse -/
def addPipe (s : State) (dialer : Option Nat) (mode : String) : State × List CEv :=
  let k := s.npipes + 1
  let s1 := { s with npipes := k, used := s.used ++ [k], hooklog := s.hooklog ++ [(k, "attaching")] }
  match mode with
  | "hookclose" =>
    -- the hook closes the pipe during Attaching: it never reaches the protocol; its id and list entry are released
    ({ s1 with used := s1.used.erase k }, [.hook "attaching" k])
  | "refuse" =>
    ({ s1 with used := s1.used.erase k }, [.hook "attaching" k, .proto "add-refused" k])
  | _ =>
    if s.closed then
      -- the protocol is closed: it refuses
      ({ s1 with used := s1.used.erase k }, [.hook "attaching" k, .proto "add-closed" k])
    else
    ({ s1 with pipes := s1.pipes ++ [{ k := k, dialer := dialer, added := true, closed := false }],
               hooklog := s1.hooklog ++ [(k, "attached")] },
     [.hook "attaching" k, .proto "add-ok" k, .hook "attached" k])

/-- pipe.Close of an attached pipe: the protocol is told, Detached runs, then the id is released -/
def closePipe (s : State) (k : Nat) : State × List CEv :=
  match s.pipes.find? (fun p => p.k = k) with
  | none => (s, [])
  | some _ =>
    let s1 := { s with pipes := s.pipes.filter (fun p => p.k != k), hooklog := s.hooklog ++ [(k, "detached")] }
    if s.hookHold then ({ s1 with heldDetached := s1.heldDetached ++ [k] }, [.proto "remove" k, .hook "detached" k])
    else ({ s1 with used := s1.used.erase k }, [.proto "remove" k, .hook "detached" k])

end Core
end Model

namespace Model
namespace Core

def natOf (s : String) : Nat := s.toNat?.getD 0

/-- a dialer's pipe went away (or never got attached): dialer.pipeClosed arms a timer with the current delay -/
def pipeGone (s : State) (d : Option Nat) (now : Nat) : State :=
  match d with
  | none => s
  | some dd => setDialer s dd (fun x => { x with timer := some { tmin := s.tprev + x.cur, tmax := now + x.curHi, delay := 0 } })

/-- the redial timer of dialer d fires: dialer.dial(true) -/
def redial (s : State) (d : Nat) : State × List CEv :=
  match getDialer s d with
  | none => (s, [])
  | some x =>
    if x.closed then (setDialer s d (fun y => { y with timer := none }), [])
    else if x.dialing.isSome then (setDialer s d (fun y => { y with timer := none }), [])   -- modelled as one attempt at a time
    else (setDialer s d (fun y => { y with timer := none, dialing := some 0 }), [.attempt d])

/-- timers at time `now`: `tmin` is the earliest and `tmax` the latest moment the timer can be due -/
def timerOutcomes (s : State) (now : Nat) : List (State × List CEv) :=
  s.dialers.foldl (fun (acc : List (State × List CEv)) d0 =>
    acc.flatMap (fun (st : State × List CEv) =>
      match getDialer st.1 d0.d with
      | none => [st]
      | some x =>
        match x.timer with
        | none => [st]
        | some t =>
          let mayFire := decide (t.tmin ≤ now)
          let mustFire := decide (t.tmax + slack ≤ now)
          let fired := let r := redial st.1 x.d; (r.1, st.2 ++ r.2)
          if mustFire then [fired] else if mayFire then [st, fired] else [st])) [(s, [])]

def opTime (op : List String) : Nat :=
  match op.getLast? with
  | some t => if t.startsWith "@" then natOf (t.drop 1).toString else 0
  | none => 0

def stripTime (op : List String) : List String :=
  match op.getLast? with
  | some t => if t.startsWith "@" then op.dropLast else op
  | none => op

/-- back-off after a failed attempt: the armed delay is the current one; the next one grows by a factor in [1.1, 1.5], capped -/
def backoff (x : DialerSt) : DialerSt :=
  if x.maxT = 0 then x
  else { x with cur := min x.maxT (x.cur * 11 / 10), curHi := min x.maxT (x.curHi * 15 / 10 + 1) }

def closeAllPipes (s : State) : State × List CEv :=
  s.pipes.foldl (fun (acc : State × List CEv) p => let r := closePipe acc.1 p.k; (r.1, acc.2 ++ r.2)) (s, [])

def core (s : State) (now : Nat) (op : List String) : List (State × List CEv) :=
  match op with
  | ["newlistener", l] => [({ s with listeners := s.listeners ++ [{ l := natOf l }] }, [.res (if s.closed then "closed" else "ok")])]
  | ["listen", l, how] =>
    match getListener s (natOf l) with
    | none => []
    | some x =>
      if x.closed then [(s, [.res "closed"])]
      else if x.active then [(s, [.res "addrinuse"])]
      else if how == "fail" then [(s, [.res "other"])]              -- the transport refuses; the listener stays usable
      else [(setListener s x.l (fun y => { y with active := true }), [.res "ok"])]
  | ["conn", l, mode] =>
    match getListener s (natOf l) with
    | none => []
    | some x =>
      if !x.active || x.closed then [(s, [])] else
      if mode == "hookpark" then
        -- the application's hook does not return from Attaching yet: the pipe is listed and holds its id, nothing else
        if s.attaching != [] then [] else
        let k := s.npipes + 1
        [({ s with npipes := k, used := s.used ++ [k], hooklog := s.hooklog ++ [(k, "attaching")], attaching := [k], attachClosed := false },
          [.hook "attaching" k])]
      else
      if mode == "deadpeer" then
        -- the peer is gone by the time the pipe is attached: the protocol's first receive fails and closes it
        let (s1, evs) := addPipe s none "plain"
        let (s2, evs2) := closePipe s1 (s.npipes + 1)
        [(s2, evs ++ evs2)]
      else
      let (s1, evs) := addPipe s none mode
      [(s1, evs)]
  | ["newdialer", d, asynch, minT, maxT] =>
    [({ s with dialers := s.dialers ++ [{ d := natOf d, asynch := asynch == "1", minT := natOf minT, maxT := natOf maxT }] }, [.res (if s.closed then "closed" else "ok")])]
  | ["dial", d, call] =>
    match getDialer s (natOf d) with
    | none => []
    | some x =>
      if x.active then [(s, [.ret (natOf call) "addrinuse"])]
      else if x.closed then [(s, [.ret (natOf call) "closed"])]
      else if x.asynch then
        [(setDialer s x.d (fun y => { y with active := true, cur := y.minT, curHi := y.minT, dialing := some 0 }), [.ret (natOf call) "ok", .attempt x.d])]
      else [(setDialer s x.d (fun y => { y with active := true, cur := y.minT, curHi := y.minT, dialing := some (natOf call) }), [.attempt x.d])]
  | ["dialres", d, "ok", mode] =>
    match getDialer s (natOf d) with
    | none => []
    | some x =>
      match x.dialing with
      | none => []
      | some c =>
        let (s1, evs) := addPipe s (some x.d) mode
        let attached := mode != "hookclose" && mode != "refuse" && !s.closed
        let s2 := setDialer s1 x.d (fun y => { y with dialing := none, cur := if attached then y.minT else y.cur, curHi := if attached then y.minT else y.curHi })
        let s3 := if attached then s2 else pipeGone s2 (some x.d) now
        [(s3, evs ++ (if c != 0 then [.ret c "ok"] else []))]
  | ["dialres", d, "fail"] =>
    match getDialer s (natOf d) with
    | none => []
    | some x =>
      match x.dialing with
      | none => []
      | some c =>
        if c != 0 && !x.asynch then
          -- the first, synchronous attempt: Dial returns the error and the dialer can be dialled again
          [(setDialer s x.d (fun y => { y with dialing := none, active := false }), [.ret c "connrefused"])]
        else
          let t : Timer := { tmin := s.tprev + x.cur, tmax := now + x.curHi, delay := 0 }
          [(setDialer s x.d (fun y => { backoff y with dialing := none, timer := some t }), if c != 0 then [.ret c "connrefused"] else [])]
  | ["attachrelease"] =>
    -- the Attaching callback returns: a pipe closed meanwhile is dropped without ever reaching the protocol
    match s.attaching with
    | [k] =>
      if s.attachClosed || s.closed then [({ s with used := s.used.erase k, attaching := [], attachClosed := false }, [])]
      else [({ s with pipes := s.pipes ++ [{ k := k, dialer := none, added := true, closed := false }],
                      hooklog := s.hooklog ++ [(k, "attached")], attaching := [] },
             [.proto "add-ok" k, .hook "attached" k])]
    | _ => [(s, [])]
  | ["drop", k] | ["pclose", k] =>
    if s.attaching.contains (natOf k) then [({ s with attachClosed := true }, [])] else
    match s.pipes.find? (fun p => p.k = natOf k) with
    | none => [(s, [])]
    | some p =>
      let (s1, evs) := closePipe s p.k
      [(pipeGone s1 p.dialer now, evs)]
  | ["closedialer", d] =>
    match getDialer s (natOf d) with
    | none => []
    | some x =>
      if x.closed then [(s, [.res "closed"])]
      else [(setDialer s x.d (fun y => { y with closed := true }), [.res "ok"])]
  | ["closelistener", l] =>
    match getListener s (natOf l) with
    | none => []
    | some x =>
      if x.closed then [(s, [.res "closed"])]
      else [(setListener s x.l (fun y => { y with closed := true }), [.res "ok"])]
  | ["hookhold", v] => [({ s with hookHold := v == "1" }, [])]
  | ["hookrelease"] => [({ s with used := s.used.filter (fun k => !s.heldDetached.contains k), heldDetached := [], hookHold := false }, [])]
  | ["sleep", _] => [(s, [])]
  | ["sockclose"] =>
    let s1 := { s with closed := true, attachClosed := true, listeners := s.listeners.map (fun x => { x with closed := true }),
                       dialers := s.dialers.map (fun x => { x with closed := true }) }
    let (s2, evs) := closeAllPipes s1
    -- pipes of dialers arm redial timers that will find the dialer closed
    [(s2, .res "ok" :: evs)]
  | _ => []

/-- canonical rendering: result/returns first, then per-pipe events ordered by pipe, attempts last;
    events of one pipe keep their order -/
def rank : CEv → Nat
  | .res _ => 0
  | .ret c _ => 1000 + c
  | .hook _ k => 1000000 + k * 10
  | .proto _ k => 1000000 + k * 10
  | .attempt d => 100000000 + d

def insertSorted (x : Nat × CEv) : List (Nat × CEv) → List (Nat × CEv)
  | [] => [x]
  | y :: ys => if x.1 < y.1 then x :: y :: ys else y :: insertSorted x ys

def canon (evs : List CEv) : List CEv :=
  ((evs.map (fun e => (rank e, e))).foldl (fun acc x => insertSorted x acc) []).map (·.2)

def insNat (x : Nat) : List Nat → List Nat
  | [] => [x]
  | y :: ys => if x < y then x :: y :: ys else y :: insNat x ys

def sortNat (l : List Nat) : List Nat := l.foldl (fun acc x => insNat x acc) []

def render (evs : List CEv) (s : State) : String :=
  let body := (canon evs).map CEv.render
  let ids := "ids:" ++ ",".intercalate ((s.used.map toString))
  let ks := s.pipes.map (·.k)
  let all := sortNat (ks ++ s.attaching)
  let listed := "listed:" ++ ",".intercalate (all.map toString)
  " ".intercalate (body ++ [ids, listed])

def step (s : State) (op : List String) : List (State × String) :=
  let now := opTime op
  let op' := stripTime op
  (timerOutcomes s now).flatMap (fun (st : State × List CEv) =>
    (core st.1 now op').flatMap (fun (r : State × List CEv) =>
      -- a timer armed by this very operation can already be due if the operation (or the harness) was slow
      (timerOutcomes r.1 now).map (fun (r2 : State × List CEv) =>
        let s' := { r2.1 with tprev := now }
        (s', render (st.2 ++ r.2 ++ r2.2) s'))))

end Core
end Model
