/-
  C05 — REP/RESPONDENT replies go back along the path of their request.  Property theorems only.
  Model: Model/Proto/Rep.lean (rep, respondent, xrep, xrespondent), with the ghost record `replies`:
  (pipe written, routing header written, pipe the answered request arrived on, routing header it carried).
-/
import Model.Proto.RepLemmas
import Model.HopLemmas
namespace Props.C05
open Model Model.Proto

/-- in every reachable state — any interleaving of requests from any pipes, Recv/Send on any contexts,
    slow or failing reply pipes, the requesting pipe closing at any moment, contexts opened and closed —
    every reply handed to a pipe went to the pipe on which the request it answers arrived and carries exactly
    the routing header that request carried (raw sockets: the header after the routing word) -/
theorem reply_to_origin (f : Rep.Flavor) (site : HopSite) (s : Rep.State) (h : Rep.Reach f site s) :
    ∀ r ∈ s.replies, r.1 = r.2.2.1 ∧ r.2.1 = r.2.2.2 :=
  (Rep.reach_inv f site s h).2

/-- each context's reply answers that context's own last received request: whenever a context holds a
    backtrace, it is the one delivered by its own last Recv, with that request's pipe -/
theorem ctx_holds_own_request (f : Rep.Flavor) (site : HopSite) (s : Rep.State) (h : Rep.Reach f site s)
    (c : Rep.Ctx) (hc : c ∈ s.ctxs) (bt : Bytes) (p : Nat) (hb : c.backtrace = some bt) (hp : c.recvPipe = some p) :
    c.req = some (p, bt) :=
  (Rep.reach_inv f site s h).1 c hc bt p hb hp

/-- sending with no request pending fails with a protocol-state error and changes nothing -/
theorem send_without_request (s : Rep.State) (hf : s.flavor.cooked = true) (call ctx hd b : String) (c : Rep.Ctx)
    (hget : Rep.getCtx s (natOf ctx) = some c) (hopen : s.closed = false ∧ c.closed = false) (hnone : c.backtrace = none) :
    Rep.step s ["send", call, ctx, hd, b] = [(s, [Ev.retErr (natOf call) "protostate"])] := by
  simp [Rep.step, hf, hget, hopen.1, hopen.2, hnone]

/-- a reply whose requesting connection has gone is discarded: Send returns without any transmission -/
theorem discard_if_gone (s : Rep.State) (call ctx p : Nat) (m : Msg) (orig : Bytes) (rp : Nat) (rh : Bytes)
    (hgone : (findPipe s.pipes p).isNone = true) :
    Rep.sendTo s call ctx p m orig rp rh = [(s, [Ev.retErr call "ok"])] := by
  simp [Rep.sendTo, hgone]

/-- raw sockets route by the first header word and transmit the rest of the header unchanged -/
theorem raw_route_by_first_word (s : Rep.State) (hf : s.flavor.cooked = false) (hopen : s.closed = false)
    (call ctx hd b : String) (h4 : 4 ≤ (bytesOf hd).length) :
    Rep.step s ["send", call, ctx, hd, b] =
      Rep.sendTo s (natOf call) 0 (beDec ((bytesOf hd).take 4)) ((bytesOf hd).drop 4, bytesOf b) (bytesOf hd)
        (beDec ((bytesOf hd).take 4)) ((bytesOf hd).drop 4) := by
  have : ¬ (bytesOf hd).length < 4 := by omega
  simp [Rep.step, hf, hopen, this]

/-- raw receive prepends the id of the arrival pipe (so that the reply can be routed back) -/
theorem raw_recv_prepends_pipe_id (s : Rep.State) (p : Nat) (body : Bytes) (h b : Bytes)
    (hx : s.flavor = .xrep) (hp : Rep.parse s p body = some (h, b)) : h ++ b = beEnc 4 p ++ body := by
  simp only [Rep.parse, hx] at hp
  exact Hop.parseBT_conserves s.site s.ttl body s.site.init (beEnc 4 p) h b hp

example : Rep.Inv (Rep.init .rep ⟨0, .ge (.var "hops") (.var "ttl"), []⟩) := Rep.init_inv _ _

end Props.C05
