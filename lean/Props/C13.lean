/-
  C13 — every pipe gets a consistent lifecycle and a unique id.  Property theorems only.
  Model: Model/Core.lean (allocator, addPipe / Close / remPipe, listeners, dialers, socket close), with the ghost
  `hooklog` (the PipeEventHook calls in order).
-/
import Model.CoreLemmas
import Model.AllocTotal
import Model.PipeFacts
namespace Props.C13
open Model Model.Core

/-- the allocator returns a non-zero 31-bit id that is not in use, for every counter value (including the
    wrap-around from 0x7fffffff / 0xffffffff) and every set of ids in use -/
theorem ids_fresh (used : List Nat) (fuel next id next' : Nat) (h : allocScan used fuel next = some (id, next')) :
    id ≠ 0 ∧ id < 2 ^ 31 ∧ id ∉ used := by
  have := allocScan_fresh used fuel next id next' h
  exact ⟨this.1, by simpa using this.2.1, this.2.2⟩

/-- … and it always returns one: the real allocator loops until it finds a free id; that loop terminates within
    |ids in use| + 2 iterations for every counter value, because consecutive counter values give distinct candidates and
    only zero and the ids in use are refused (so the fuel the model is run with never runs out, and the `none` branch of
    the model — which the code does not have — is unreachable while fewer than 2^31 − 4 pipes are open) -/
theorem ids_always_found (used : List Nat) (next : Nat) (h : used.length + 4 ≤ 0x80000000) :
    ∃ id next', allocScan used (used.length + 4) next = some (id, next') ∧ id ≠ 0 ∧ id < 2 ^ 31 ∧ id ∉ used := by
  have := allocScan_total' used next h
  cases hr : allocScan used (used.length + 4) next with
  | none => rw [hr] at this; simp at this
  | some r => exact ⟨r.1, r.2, rfl, ids_fresh used _ next r.1 r.2 hr⟩

example : (allocScan [1, 2, 3] 7 0x80000000) = some (4, 0x80000005) := by decide

/-- in every reachable state — any sequence of connects on listener and dialer sides, peer drops, application closes,
    hook closes during Attaching, protocol refusals, socket close, timer firings — the hook has seen, for every pipe,
    Attaching first and exactly once, then Attached at most once, then Detached at most once and only after Attached -/
theorem hook_order (s : State) (h : Reach s) (k : Nat) :
    hookOf s k = [] ∨ hookOf s k = ["attaching"] ∨ hookOf s k = ["attaching", "attached"] ∨
    hookOf s k = ["attaching", "attached", "detached"] :=
  (reach_inv s h).shape k

/-- a pipe closed or refused during Attaching, or refused by the protocol, gets neither Attached nor Detached, and
    leaves nothing reserved (direct from the step, for every state satisfying the invariant) -/
theorem rejected_gets_neither (s : State) (h : Inv s) (d : Option Nat) (mode : String) (hm : mode = "hookclose" ∨ mode = "refuse") :
    hookOf (addPipe s d mode).1 (s.npipes + 1) = ["attaching"] ∧ (addPipe s d mode).1.used = s.used ∧ (addPipe s d mode).1.pipes = s.pipes := by
  have hk0 : hookOf s (s.npipes + 1) = [] := hookOf_fresh s h.bound _ (by omega)
  have hfresh := fresh_not_used s h
  rcases hm with rfl | rfl
  · refine ⟨?_, ?_, rfl⟩
    · have := hookOf_ext s (addPipe s d "hookclose").1 [(s.npipes + 1, "attaching")] (by simp [addPipe]) (s.npipes + 1)
      rw [this, hk0]; simp [List.filter]
    · simp [addPipe, erase_append_self _ _ hfresh]
  · refine ⟨?_, ?_, rfl⟩
    · have := hookOf_ext s (addPipe s d "refuse").1 [(s.npipes + 1, "attaching")] (by simp [addPipe]) (s.npipes + 1)
      rw [this, hk0]; simp [List.filter]
    · simp [addPipe, erase_append_self _ _ hfresh]

/-- a listed (live, attached) pipe has been reported Attached and not Detached, its id is reserved, and no two
    live pipes share an id; ids of pipes whose Detached callback has not returned yet are still reserved -/
theorem id_live_until_detached_returns (s : State) (h : Reach s) :
    (∀ p ∈ s.pipes, hookOf s p.k = ["attaching", "attached"] ∧ p.k ∈ s.used) ∧ (s.pipes.map (·.k)).Nodup ∧ s.used.Nodup ∧
    (∀ k ∈ s.heldDetached, k ∈ s.used) := by
  have i := reach_inv s h
  exact ⟨i.listed, i.distinct, i.usedNodup, fun k hk => (i.held k hk).1⟩

/-- the protocol is told of a departure exactly when the pipe had been accepted: closing a listed pipe produces
    RemovePipe then Detached; closing anything else produces nothing -/
theorem proto_once (s : State) (k : Nat) :
    (closePipe s k).2 = (if (s.pipes.find? (fun p => p.k = k)).isSome then [CEv.proto "remove" k, CEv.hook "detached" k] else []) := by
  unfold closePipe
  split
  · rename_i hf; simp [hf]
  · rename_i p hf
    simp only [hf, Option.isSome_some, if_true]
    split <;> rfl

/-- after the socket is closed no pipe remains listed, and (with no callback parked) no id of this socket's pipes
    remains reserved beyond those already held before -/
theorem close_releases_listed (l : List PipeSt) : ∀ (acc : State × List CEv), (∀ p ∈ l, p ∈ acc.1.pipes → True) →
    ∀ q ∈ (l.foldl (fun (acc : State × List CEv) p => let r := closePipe acc.1 p.k; (r.1, acc.2 ++ r.2)) acc).1.pipes, q ∈ acc.1.pipes ∧ q.k ∉ l.map (·.k) := by
  induction l with
  | nil => intro acc _ q hq; exact ⟨hq, by simp⟩
  | cons p ps ih =>
    intro acc _ q hq
    simp only [List.foldl_cons] at hq
    have := ih _ (fun _ _ _ => trivial) q hq
    obtain ⟨h1, h2⟩ := this
    have hsub : q ∈ acc.1.pipes ∧ q.k ≠ p.k := by
      unfold closePipe at h1
      split at h1
      · rename_i hnone
        refine ⟨h1, ?_⟩
        intro e
        have := List.find?_eq_none.mp hnone q h1
        simp [e] at this
      · split at h1 <;> (simp only [List.mem_filter, bne_iff_ne, ne_eq] at h1; exact ⟨h1.1, h1.2⟩)
    refine ⟨hsub.1, ?_⟩
    simp only [List.map_cons, List.mem_cons, not_or]
    exact ⟨hsub.2, h2⟩

theorem sockclose_lists_nothing (s : State) (now : Nat) : ∀ r ∈ core s now ["sockclose"], r.1.pipes = [] := by
  intro r hr
  simp only [core, List.mem_singleton] at hr
  subst hr
  apply List.eq_nil_iff_forall_not_mem.mpr
  intro q hq
  have := close_releases_listed s.pipes _ (fun _ _ _ => trivial) q hq
  exact this.2 (List.mem_map.mpr ⟨q, this.1, rfl⟩)

example : Inv init := init_inv

/-- the two pipes of one connection are mirror images (what the accepted end calls local the connecting end calls
    remote), the endpoint facts are demanded alike on both ends, a completed TLS state is demanded exactly on the TLS
    transports (and the pre-handshake state an accepted tls+tcp connection used to report — D18 — is never admitted),
    and every fact has one admissible value: the table the real transports are compared with leaves nothing open -/
theorem pipe_facts_describe_the_connection (c : PipeFacts.Conn) (t f : String) :
    ((PipeFacts.view c .listener).1 = (PipeFacts.view c .dialer).2 ∧ (PipeFacts.view c .listener).2 = (PipeFacts.view c .dialer).1) ∧
    (PipeFacts.allowed t "tls-l" = PipeFacts.allowed t "tls-d" ∧ PipeFacts.allowed t "cred-l" = PipeFacts.allowed t "cred-d") ∧
    (("complete" ∈ PipeFacts.allowed t "tls-l" ↔ PipeFacts.tlsTransport t = true) ∧ "?tls.ConnectionState" ∉ PipeFacts.allowed t "tls-l") ∧
    (PipeFacts.allowed t f).length ≤ 1 := by
  refine ⟨PipeFacts.views_mirror c, ⟨(PipeFacts.sides_agree t).1, (PipeFacts.sides_agree t).2.1⟩, ⟨(PipeFacts.tls_state_exact t).1, ?_⟩, PipeFacts.deterministic t f⟩
  unfold PipeFacts.allowed
  cases h : PipeFacts.tlsTransport t <;> simp

end Props.C13
