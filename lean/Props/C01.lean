/-
  C01 — messages arrive byte-identical and whole over every transport.
  Property theorems only.  Model: Model/Wire.lean, Model/Pool.lean, Model/Hdr.lean.
-/
import Model.WireLemmas
import Model.Pool
import Model.InprocPipe
namespace Props.C01
open Model Model.Wire

/-- one send, one receive: whatever follows on the stream, the frame written for `m`
    decodes to exactly header ++ body and leaves the rest untouched (tcp/tls: ipc=false; ipc: ipc=true) -/
theorem decode_encode (g : GExpr) (hg : GuardOK g) (ipc : Bool) (maxrx : Nat) (m : Msg) (rest : Bytes)
    (hlen : m.payload.length < 2 ^ 63) (hfit : maxrx = 0 ∨ m.payload.length ≤ maxrx) :
    decode g ipc maxrx (encode ipc m ++ rest) = .msg m.payload rest := by
  rw [encode_eq]
  exact decode_encode_aux g hg ipc maxrx m.payload rest hlen hfit

/-- any sequence of messages of any sizes written back to back on one connection is received
    as exactly that sequence: never split, merged, truncated, padded or mixed -/
theorem stream_roundtrip (g : GExpr) (hg : GuardOK g) (ipc : Bool) (maxrx : Nat) (ms : List Msg)
    (hlen : ∀ m ∈ ms, m.payload.length < 2 ^ 63) (hfit : ∀ m ∈ ms, maxrx = 0 ∨ m.payload.length ≤ maxrx)
    (fuel : Nat) (hf : ms.length < fuel) :
    decodeAll g ipc maxrx fuel (ms.flatMap (encode ipc)) = (ms.map Msg.payload, .clean) := by
  induction ms generalizing fuel with
  | nil =>
    cases fuel with
    | zero => omega
    | succ f => simp [decodeAll]
  | cons m ms ih =>
    cases fuel with
    | zero => omega
    | succ f =>
      have hne : (encode ipc m ++ ms.flatMap (encode ipc)).isEmpty = false := by
        cases h : encode ipc m with
        | nil => exact absurd h (encode_ne_nil ipc m)
        | cons x xs => rfl
      simp only [List.flatMap_cons, decodeAll, hne]
      rw [decode_encode g hg ipc maxrx m _ (hlen m (by simp)) (hfit m (by simp))]
      have := ih (fun x hx => hlen x (by simp [hx])) (fun x hx => hfit x (by simp [hx])) f (by simp at hf; omega)
      simp [this]

/-- a message whose total size equals the receive limit is still delivered … -/
theorem limit_boundary_delivered (g : GExpr) (hg : GuardOK g) (ipc : Bool) (maxrx : Nat) (m : Msg) (rest : Bytes)
    (h : m.payload.length = maxrx) (h63 : maxrx < 2 ^ 63) :
    decode g ipc maxrx (encode ipc m ++ rest) = .msg m.payload rest :=
  decode_encode g hg ipc maxrx m rest (by omega) (by omega)

/-- … and one byte more is refused (C16 shares this) -/
theorem limit_boundary_refused (g : GExpr) (hg : GuardOK g) (ipc : Bool) (maxrx : Nat) (m : Msg) (rest : Bytes)
    (h0 : 0 < maxrx) (h : m.payload.length = maxrx + 1) (h63 : maxrx + 1 < 2 ^ 63) :
    decode g ipc maxrx (encode ipc m ++ rest) = .tooLong := by
  rw [encode_eq]
  have h64 : m.payload.length < 256 ^ 8 := by
    have : (2:Nat) ^ 63 < 256 ^ 8 := by decide
    omega
  have hdec : beDec (beEnc 8 m.payload.length) = m.payload.length := beDec_beEnc_of_lt 8 _ h64
  have hrej : rejects g (m.payload.length : Int) (maxrx : Int) = true := by
    rw [hg]; exact rejectSpec_true_of_exceeds h0 (by omega)
  unfold decode
  cases ipc
  · have ht : (beEnc 8 m.payload.length ++ m.payload ++ rest).take 8 = beEnc 8 m.payload.length := by
      rw [List.append_assoc, List.take_left' (by simp)]
    simp [hdec, asInt64_of_lt (show m.payload.length < 2^63 by omega), hrej]
  · have ht : (beEnc 8 m.payload.length ++ (m.payload ++ rest)).take 8 = beEnc 8 m.payload.length := by
      rw [List.take_left' (by simp)]
    simp [ht, hdec, asInt64_of_lt (show m.payload.length < 2^63 by omega), hrej]

/-- NewMessage: for every reachable pool state and every size, the buffer returned has
    capacity ≥ sz (and the source's `make([]byte, 0, …)` gives it length 0) -/
theorem new_cap_ge (P : Pool.Params) (wf : Pool.WellFormed P) (s : Pool.State) (hinv : Pool.Inv P s)
    (sz : Nat) (b : Pool.Buf) (hb : Pool.NewResult P s sz b) : sz ≤ b.cap := by
  unfold Pool.NewResult at hb
  cases hidx : Pool.classIdx P sz with
  | none =>
    simp only [hidx] at hb
    subst hb
    rw [(wf.cap_eq _).1]
    exact wf.fallback_ge sz
  | some i =>
    simp only [hidx] at hb
    unfold Pool.classIdx at hidx
    have hi := List.findIdx?_eq_some_iff_getElem.mp hidx
    obtain ⟨hlt, hpick, _⟩ := hi
    have hmem : P.classes[i] ∈ P.classes := List.getElem_mem hlt
    have hle := wf.pick_le _ hmem sz hpick
    have hgd : P.classes.getD i (0,0) = P.classes[i] := by simp [List.getD, hlt]
    rcases hb with hb | hb
    · obtain ⟨h1, h2, _⟩ := hinv i b hb
      rw [h1, h2, hgd]; exact hle.1
    · subst hb
      rw [(wf.cap_eq _).1, hgd]; exact hle.2

/-- the pool invariant is preserved by Free (so `new_cap_ge` holds in every reachable state) -/
theorem free_inv (P : Pool.Params) (wf : Pool.WellFormed P) (s : Pool.State) (hinv : Pool.Inv P s)
    (b : Pool.Buf) (hb : b.cap = b.bsize) : Pool.Inv P (Pool.free P s b) := by
  unfold Pool.free
  cases hidx : Pool.freeIdx P b with
  | none => simpa using hinv
  | some j =>
    simp only
    unfold Pool.freeIdx at hidx
    obtain ⟨hlt, hfree, _⟩ := List.findIdx?_eq_some_iff_getElem.mp hidx
    have hmem : P.classes[j] ∈ P.classes := List.getElem_mem hlt
    have heq := wf.free_eq _ hmem b.bsize hfree
    intro i x hx
    by_cases hij : i = j
    · subst hij
      by_cases hjs : i < s.length
      · have : (s.modify i (fun l => b :: l)).getD i [] = b :: s.getD i [] := by
          simp [List.getD, hjs]
        rw [this] at hx
        rcases List.mem_cons.mp hx with rfl | hx
        · exact ⟨hb, by simp [List.getD, hlt, heq], hlt⟩
        · exact hinv i x hx
      · have : (s.modify i (fun l => b :: l)).getD i [] = [] := by
          have : s[i]? = none := List.getElem?_eq_none (by omega)
          simp [List.getD, this]
        rw [this] at hx; simp at hx
    · have : (s.modify j (fun l => b :: l)).getD i [] = s.getD i [] := by
        simp [List.getD, Ne.symm hij]
      rw [this] at hx
      exact hinv i x hx

/-- non-vacuity: the premises are satisfiable at the pool-class and limit boundaries -/
example : decode (.or (.lt (.var "sz") (.lit 0)) (.and (.gt (.var "maxrx") (.lit 0)) (.gt (.var "sz") (.var "maxrx"))))
    false 64 (encode false ⟨[1,2,3,4], List.replicate 60 7⟩ ++ [9]) = .msg ([1,2,3,4] ++ List.replicate 60 7) [9] := by
  decide

/-! ### inproc: no bytes on a wire, two channels (`Model/InprocPipe.lean`, machine `m.ipipe`) -/

/-- over an inproc connection, in every state reachable by any history of Sends, Recvs and Closes at either end,
    whichever parked call the runtime lets meet a newcomer: the messages Recv returned are exactly the messages whose
    Send returned nil — in each direction, once each, in that order, as header followed by body -/
theorem inproc_pipe_delivers_what_was_sent (s : InprocPipe.State) (hr : InprocPipe.Reach s) : s.recvd = s.sent :=
  (InprocPipe.reach_inv hr).same

/-- … and nothing that could be delivered is left waiting: a parked Send and a parked Recv never face each other -/
theorem inproc_pipe_never_sits_on_a_message (s : InprocPipe.State) (hr : InprocPipe.Reach s) :
    ∀ x ∈ s.parkedSend, ∀ r ∈ s.parkedRecv, x.1 ≠ r.1 := (InprocPipe.reach_inv hr).quiet

/-- non-vacuity: a Recv waits, the Send meets it; a second Send waits and is failed by the other end's Close -/
example :
    let run := fun (s : InprocPipe.State) (o : InprocPipe.Op) => ((InprocPipe.step s o).headD (s, [])).1
    let s := [InprocPipe.Op.recv 0 1, .send 0 2 [0x80, 0, 0, 1] [7, 8], .send 1 3 [] [9]].foldl run InprocPipe.init
    s.recvd = [(0, [0x80, 0, 0, 1, 7, 8])] ∧ s.sent = s.recvd ∧ s.parkedSend = [(1, 3, [9])] ∧
    ((InprocPipe.step s (.close 0)).headD (s, [])).2 = ["res:ok", "ret:3:closed"] := by decide

end Props.C01
