/-
  C10 — Close unblocks everything, fails later calls and releases all resources.
  Property theorems only.  Models: the protocol machines (Model/Proto/*.lean) and the core machine
  (Model/Core.lean), each compared step by step with the implementation by the correspondence harness
  (cmd/corr: machine scenarios with Close issued against parked calls; c10.go for real sockets over real transports,
  where goroutines, timers, listening addresses and the allocator are observed after Close).
-/
import Model.CoreClose
import Model.Handshaker
import Model.AcceptQ
import Model.Inproc
import Model.InprocPipe
import Model.Proto.ReqClose
import Model.Proto.RepClose
import Model.Proto.RepPipes
import Model.Proto.CommonLemmas
import Model.Proto.Pair
import Model.Proto.Push
import Model.Proto.Pull
import Model.Proto.Mesh
import Model.Proto.Sub
import Model.Proto.Surveyor
namespace Props.C10
open Model Model.Proto

/-! ### protocol level: Close wakes every parked call with `closed`; later calls do not park -/

theorem pair_close_wakes_all (s : Pair.State) (hc : s.closed = false) : ∀ o ∈ Pair.step s ["close"],
    o.1.closed = true ∧ o.1.parkedSend = [] ∧ o.1.parkedRecv = [] ∧
    (∀ c ∈ s.parkedSend, Ev.retErr c.1 "closed" ∈ o.2) ∧ (∀ c ∈ s.parkedRecv, Ev.retErr c "closed" ∈ o.2) := by
  intro o ho
  simp only [Pair.step, hc, Bool.false_eq_true, if_false, List.mem_singleton] at ho
  subst ho
  refine ⟨rfl, rfl, rfl, ?_, ?_⟩
  · intro c hcm
    apply List.mem_cons_of_mem
    rw [mem_sortByKey]
    exact ⟨c.1, List.mem_append_left _ (List.mem_map.mpr ⟨c, hcm, rfl⟩)⟩
  · intro c hcm
    apply List.mem_cons_of_mem
    rw [mem_sortByKey]
    exact ⟨c, List.mem_append_right _ (List.mem_map.mpr ⟨c, hcm, rfl⟩)⟩

theorem pair_send_after_close (s : Pair.State) (hc : s.closed = true) (call ctx h b : String) :
    Pair.step s ["send", call, ctx, h, b] = [(s, [Ev.retErr (natOf call) "closed"])] := by
  simp [Pair.step, hc]

/-- a Recv on a closed PAIR socket returns at once: closed, or a message that was already queued (or that the
    receiver goroutine was still offering to the queue) -/
theorem pair_recv_after_close (s : Pair.State) (hc : s.closed = true) (call ctx : String) :
    ∀ o ∈ Pair.step s ["recv", call, ctx], Ev.retErr (natOf call) "closed" ∈ o.2 ∨
      ∃ m ∈ s.recvQ ++ s.inhand.toList, Ev.retMsg (natOf call) m.1 m.2 ∈ o.2 := by
  intro o ho
  simp only [Pair.step, hc, if_true] at ho
  split at ho
  · split at ho
    · simp at ho; subst ho; left; simp
    · rename_i m hm
      simp only [List.mem_cons, List.not_mem_nil, or_false] at ho
      rcases ho with rfl | rfl
      · left; simp
      · right
        refine ⟨m, by simp [hm], ?_⟩
        simp only [Pair.settled, List.nil_append]
        rw [mem_sortByKey]
        exact ⟨natOf call, List.mem_append_left _ (by simp)⟩
  · rename_i m q hq
    simp only [List.mem_cons, List.not_mem_nil, or_false] at ho
    rcases ho with rfl | rfl
    · left; simp
    · right
      refine ⟨m, by simp [hq], ?_⟩
      simp only [Pair.settled, List.nil_append]
      rw [mem_sortByKey]
      exact ⟨natOf call, List.mem_append_left _ (by simp)⟩

theorem push_close_wakes_all (s : Push.State) (hc : s.closed = false) : ∀ o ∈ Push.step s ["close"],
    o.1.closed = true ∧ o.1.parkedSend = [] ∧ (∀ c ∈ s.parkedSend, Ev.retErr c.1 "closed" ∈ o.2) := by
  intro o ho
  simp only [Push.step, hc, Bool.false_eq_true, if_false, List.mem_singleton] at ho
  subst ho
  refine ⟨rfl, rfl, ?_⟩
  intro c hcm
  apply List.mem_cons_of_mem
  rw [mem_sortByKey]
  exact ⟨c.1, List.mem_map.mpr ⟨c, hcm, rfl⟩⟩

theorem push_send_after_close (s : Push.State) (hc : s.closed = true) (call ctx h b : String) :
    Push.step s ["send", call, ctx, h, b] = [(s, [Ev.retErr (natOf call) "closed"])] := by
  simp [Push.step, hc]

theorem pull_close_wakes_all (s : Pull.State) (hc : s.closed = false) : ∀ o ∈ Pull.step s ["close"],
    o.1.closed = true ∧ o.1.parkedRecv = [] ∧ (∀ c ∈ s.parkedRecv, Ev.retErr c "closed" ∈ o.2) := by
  intro o ho
  simp only [Pull.step, hc, Bool.false_eq_true, if_false, List.mem_singleton] at ho
  subst ho
  refine ⟨rfl, rfl, ?_⟩
  intro c hcm
  apply List.mem_cons_of_mem
  rw [mem_sortByKey]
  exact ⟨c, List.mem_map.mpr ⟨c, hcm, rfl⟩⟩

theorem pull_recv_after_close (s : Pull.State) (hc : s.closed = true) (call ctx : String) :
    ∀ o ∈ Pull.step s ["recv", call, ctx], Ev.retErr (natOf call) "closed" ∈ o.2 ∨ ∃ m ∈ s.recvQ, Ev.retMsg (natOf call) m.2.1 m.2.2 ∈ o.2 := by
  intro o ho
  simp only [Pull.step, hc, if_true] at ho
  split at ho
  · simp at ho; subst ho; left; simp
  · rename_i m q hq
    simp only [List.mem_cons, List.not_mem_nil, or_false] at ho
    rcases ho with rfl | rfl
    · left; simp
    · right
      refine ⟨m, by simp [hq], ?_⟩
      simp only [Pull.settled, List.nil_append]
      rw [mem_sortByKey]
      exact ⟨natOf call, List.mem_append_left _ (by simp)⟩

/-- BUS and STAR, cooked and raw -/
theorem mesh_close_wakes_all (s : Mesh.State) (hc : s.closed = false) : ∀ o ∈ Mesh.step s ["close"],
    o.1.closed = true ∧ o.1.waiting = [] ∧ (∀ c ∈ s.waiting, Ev.retErr c "closed" ∈ o.2) := by
  intro o ho
  simp only [Mesh.step, hc, Bool.false_eq_true, if_false, List.mem_singleton] at ho
  subst ho
  refine ⟨rfl, rfl, ?_⟩
  intro c hcm
  apply List.mem_cons_of_mem
  rw [mem_sortByKey]
  exact ⟨c, List.mem_append_left _ (List.mem_map.mpr ⟨c, hcm, rfl⟩)⟩

theorem mesh_send_after_close (s : Mesh.State) (hc : s.closed = true) (call ctx h b : String) :
    Mesh.step s ["send", call, ctx, h, b] = [(s, [Ev.retErr (natOf call) "closed"])] := by
  simp [Mesh.step, hc]

/-- SUB: closing the socket wakes the parked Recv calls of every open context; closing one context wakes exactly
    its own and leaves every other context as it was -/
theorem sub_close_wakes_all (s : Sub.State) (hc : s.closed = false) : ∀ o ∈ Sub.step s ["close"],
    o.1.closed = true ∧ (∀ c ∈ o.1.ctxs, c.closed = true ∧ c.parked = []) ∧
    (∀ c ∈ s.ctxs, c.closed = false → ∀ call ∈ c.parked, Ev.retErr call "closed" ∈ o.2) := by
  intro o ho
  simp only [Sub.step, hc, Bool.false_eq_true, if_false, List.mem_singleton] at ho
  subst ho
  refine ⟨rfl, ?_, ?_⟩
  · intro c hcm
    simp only [List.mem_map] at hcm
    obtain ⟨c0, _, rfl⟩ := hcm
    exact ⟨rfl, rfl⟩
  · intro c hcm hcc call hcall
    apply List.mem_cons_of_mem
    rw [mem_sortByKey]
    refine ⟨call, ?_⟩
    simp only [List.mem_flatMap]
    refine ⟨c, hcm, ?_⟩
    simp only [hcc, Bool.false_eq_true, if_false, Sub.wake, List.mem_map]
    exact ⟨call, hcall, rfl⟩

theorem sub_closectx_local (s : Sub.State) (id : String) (c : Sub.Ctx) (hg : Sub.getCtx s (natOf id) = some c) (hc : c.closed = false) :
    ∀ o ∈ Sub.step s ["closectx", id],
      (∀ call ∈ c.parked, Ev.retErr call "closed" ∈ o.2) ∧
      o.1.ctxs = s.ctxs.map (fun x => if x.id = c.id then { x with closed := true, parked := [] } else x) ∧ o.1.closed = s.closed := by
  intro o ho
  simp only [Sub.step, hg, hc, Bool.false_eq_true, if_false, List.mem_singleton] at ho
  subst ho
  refine ⟨?_, rfl, rfl⟩
  intro call hcall
  apply List.mem_cons_of_mem
  rw [mem_sortByKey]
  exact ⟨call, by simp only [Sub.wake, List.mem_map]; exact ⟨call, hcall, rfl⟩⟩

/-- SURVEYOR: Close wakes every parked Recv with `closed`, discards every outstanding survey and closes every context -/
theorem surveyor_close_wakes_all (s : Surveyor.State) (now : Nat) (hc : s.closed = false) : ∀ o ∈ Surveyor.core s now ["close"],
    o.1.closed = true ∧ o.1.parked = [] ∧ o.1.surveys = [] ∧ (∀ c ∈ o.1.ctxs, c.closed = true) ∧
    (∀ p ∈ s.parked, (p.1, Ev.retErr p.1 "closed") ∈ o.2.2) := by
  intro o ho
  simp only [Surveyor.core, hc, Bool.false_eq_true, if_false, List.mem_singleton] at ho
  subst ho
  refine ⟨rfl, rfl, rfl, ?_, ?_⟩
  · intro c hcm
    simp only [List.mem_map] at hcm
    obtain ⟨c0, _, rfl⟩ := hcm
    rfl
  · intro p hp
    exact List.mem_map.mpr ⟨p, hp, rfl⟩

theorem surveyor_recv_after_close (s : Surveyor.State) (now : Nat) (hc : s.closed = true) (call ctx : String) :
    Surveyor.core s now ["recv", call, ctx] = [(s, [], [(natOf call, Ev.retErr (natOf call) "closed")])] := by
  simp [Surveyor.core, hc]

/-! ### core level: what Socket.Close leaves behind -/

open Model.Core

/-- the fields socket close and the release of parked callbacks are about are not touched by redial timers -/
def Frame (a b : State) : Prop :=
  b.pipes = a.pipes ∧ b.used = a.used ∧ b.heldDetached = a.heldDetached ∧ b.attaching = a.attaching ∧
  b.closed = a.closed ∧ b.attachClosed = a.attachClosed ∧ b.listeners = a.listeners ∧ (b.dialers.map (·.closed)) = (a.dialers.map (·.closed))

theorem frame_refl (a : State) : Frame a a := ⟨rfl, rfl, rfl, rfl, rfl, rfl, rfl, rfl⟩

theorem frame_trans {a b c : State} (h1 : Frame a b) (h2 : Frame b c) : Frame a c := by
  obtain ⟨a1, a2, a3, a4, a5, a6, a7, a8⟩ := h1
  obtain ⟨b1, b2, b3, b4, b5, b6, b7, b8⟩ := h2
  exact ⟨b1.trans a1, b2.trans a2, b3.trans a3, b4.trans a4, b5.trans a5, b6.trans a6, b7.trans a7, b8.trans a8⟩

theorem setDialer_frame (s : State) (d : Nat) (f : DialerSt → DialerSt) (hf : ∀ y, (f y).closed = y.closed) : Frame s (setDialer s d f) := by
  refine ⟨rfl, rfl, rfl, rfl, rfl, rfl, rfl, ?_⟩
  simp only [setDialer, List.map_map]
  apply List.map_congr_left
  intro x _
  simp only [Function.comp]
  split
  · exact hf x
  · rfl

theorem redial_frame (s : State) (d : Nat) : Frame s (redial s d).1 := by
  unfold redial
  split
  · exact frame_refl s
  · split
    · exact setDialer_frame _ _ _ (fun _ => rfl)
    · split <;> exact setDialer_frame _ _ _ (fun _ => rfl)

theorem timers_frame (s : State) (now : Nat) : ∀ st ∈ timerOutcomes s now, Frame s st.1 :=
  timer_pres (Frame s) (fun t d h => frame_trans h (redial_frame t d)) s now (frame_refl s)

/-- decomposition of one trace step -/
theorem step_parts (s : State) (op : List String) (o : State × String) (ho : o ∈ step s op) :
    ∃ st ∈ timerOutcomes s (opTime op), ∃ r ∈ core st.1 (opTime op) (stripTime op), ∃ r2 ∈ timerOutcomes r.1 (opTime op),
      o.1 = { r2.1 with tprev := opTime op } := by
  simp only [step, List.mem_flatMap, List.mem_map] at ho
  obtain ⟨st, hst, r, hr, r2, hr2, rfl⟩ := ho
  exact ⟨st, hst, r, hr, r2, hr2, rfl⟩

theorem closePipe_pipes (s : State) (k : Nat) : (closePipe s k).1.pipes = s.pipes.filter (fun p => p.k != k) := by
  unfold closePipe
  split
  · rename_i h
    symm
    rw [List.filter_eq_self]
    intro p hp
    have := List.find?_eq_none.mp h p hp
    simpa using this
  · split <;> rfl

theorem closeAll_pipes (l : List PipeSt) (acc : State × List CEv) :
    (l.foldl (fun (acc : State × List CEv) p => let r := closePipe acc.1 p.k; (r.1, acc.2 ++ r.2)) acc).1.pipes =
      acc.1.pipes.filter (fun p => !(l.map (·.k)).contains p.k) := by
  induction l generalizing acc with
  | nil => exact (List.filter_eq_self.mpr (by intros; rfl)).symm
  | cons q qs ih =>
    simp only [List.foldl_cons]
    rw [ih, closePipe_pipes, List.filter_filter]
    congr 1
    funext p
    simp only [List.map_cons, List.contains_cons]
    cases h1 : (p.k == q.k) <;> cases h2 : (List.map (fun x => x.k) qs).contains p.k <;> simp [h1, h2, bne]

theorem closePipe_other (s : State) (k : Nat) :
    (closePipe s k).1.attaching = s.attaching ∧ (closePipe s k).1.closed = s.closed ∧ (closePipe s k).1.attachClosed = s.attachClosed ∧
    (closePipe s k).1.listeners = s.listeners ∧ (closePipe s k).1.dialers = s.dialers := by
  unfold closePipe
  split
  · exact ⟨rfl, rfl, rfl, rfl, rfl⟩
  · split <;> exact ⟨rfl, rfl, rfl, rfl, rfl⟩

theorem closeAll_other (l : List PipeSt) (acc : State × List CEv) :
    let r := (l.foldl (fun (acc : State × List CEv) p => let r := closePipe acc.1 p.k; (r.1, acc.2 ++ r.2)) acc).1
    r.attaching = acc.1.attaching ∧ r.closed = acc.1.closed ∧ r.attachClosed = acc.1.attachClosed ∧
    r.listeners = acc.1.listeners ∧ r.dialers = acc.1.dialers := by
  induction l generalizing acc with
  | nil => exact ⟨rfl, rfl, rfl, rfl, rfl⟩
  | cons q qs ih =>
    simp only [List.foldl_cons]
    obtain ⟨a1, a2, a3, a4, a5⟩ := ih (let r := closePipe acc.1 q.k; (r.1, acc.2 ++ r.2))
    obtain ⟨b1, b2, b3, b4, b5⟩ := closePipe_other acc.1 q.k
    exact ⟨a1.trans b1, a2.trans b2, a3.trans b3, a4.trans b4, a5.trans b5⟩

/-- Socket.Close: every listed pipe is closed (none stays listed), every listener and dialer is closed, and a pipe
    still inside its Attaching callback is marked so that it is dropped when the callback returns -/
theorem sockclose_core (s : State) (now : Nat) : ∀ r ∈ core s now ["sockclose"],
    r.1.pipes = [] ∧ r.1.closed = true ∧ r.1.attachClosed = true ∧ r.1.attaching = s.attaching ∧
    (∀ l ∈ r.1.listeners, l.closed = true) ∧ (∀ d ∈ r.1.dialers, d.closed = true) := by
  intro r hr
  simp only [core, closeAllPipes, List.mem_singleton] at hr
  subst hr
  simp only []
  obtain ⟨a1, a2, a3, a4, a5⟩ := closeAll_other s.pipes
    ({ s with closed := true, attachClosed := true, listeners := s.listeners.map (fun x => { x with closed := true }),
              dialers := s.dialers.map (fun x => { x with closed := true }) }, [])
  refine ⟨?_, a2, a3, a1, ?_, ?_⟩
  · rw [closeAll_pipes]
    apply List.filter_eq_nil_iff.mpr
    intro p hp
    have : (List.map (fun x => x.k) s.pipes).contains p.k = true := by
      simp only [List.contains_iff_mem, List.mem_map]
      exact ⟨p, hp, rfl⟩
    rw [this]; simp
  · rw [a4]; intro l hl; simp only [List.mem_map] at hl; obtain ⟨l0, _, rfl⟩ := hl; rfl
  · rw [a5]; intro d hd; simp only [List.mem_map] at hd; obtain ⟨d0, _, rfl⟩ := hd; rfl

/-- after all sockets are closed nothing belonging to them remains in the core: for every reachable state (any history
    of connects, drops, refusals, dials, redials, parked callbacks), once Close has been issued and the application's
    parked callbacks have returned, no pipe is listed and no pipe id is reserved, and every listener and dialer is
    closed (so that redial timers still pending attempt nothing: Props.C14.no_attempt_after_close) -/
theorem nothing_remains_after_close (s : State) (hs : Reach s) (op1 op2 op3 : List String)
    (h1 : stripTime op1 = ["sockclose"]) (h2 : stripTime op2 = ["hookrelease"]) (h3 : stripTime op3 = ["attachrelease"])
    (o1 : State × String) (ho1 : o1 ∈ step s op1) (o2 : State × String) (ho2 : o2 ∈ step o1.1 op2)
    (o3 : State × String) (ho3 : o3 ∈ step o2.1 op3) :
    o3.1.pipes = [] ∧ o3.1.used = [] ∧ o3.1.heldDetached = [] ∧ o3.1.attaching = [] ∧
    (∀ l ∈ o3.1.listeners, l.closed = true) ∧ (∀ d ∈ o3.1.dialers, d.closed = true) := by
  have r3 : Reach o3.1 := Reach.step _ op3 o3 (Reach.step _ op2 o2 (Reach.step _ op1 o1 hs ho1) ho2) ho3
  have i2 : Inv o2.1 := reach_inv _ (Reach.step _ op2 o2 (Reach.step _ op1 o1 hs ho1) ho2)
  have nl := reach_noLeak _ r3
  -- step 1
  obtain ⟨st1, hst1, r1, hr1, q1, hq1, e1⟩ := step_parts s op1 o1 ho1
  rw [h1] at hr1
  obtain ⟨c1, c2, c3, _, c5, c6⟩ := sockclose_core st1.1 _ r1 hr1
  obtain ⟨f1, _, _, _, f5, f6, f7, f8⟩ := timers_frame r1.1 _ q1 hq1
  have p1 : o1.1.pipes = [] := by rw [e1]; exact f1.trans c1
  have cl1 : o1.1.closed = true := by rw [e1]; exact f5.trans c2
  have ac1 : o1.1.attachClosed = true := by rw [e1]; exact f6.trans c3
  have l1 : ∀ l ∈ o1.1.listeners, l.closed = true := by rw [e1]; show ∀ l ∈ q1.1.listeners, _; rw [f7]; exact c5
  have d1 : ∀ b ∈ o1.1.dialers.map (·.closed), b = true := by
    rw [e1]; show ∀ b ∈ q1.1.dialers.map (·.closed), _; rw [f8]
    intro b hb; simp only [List.mem_map] at hb; obtain ⟨d, hd, rfl⟩ := hb; exact c6 d hd
  -- step 2
  obtain ⟨st2, hst2, r2, hr2, q2, hq2, e2⟩ := step_parts o1.1 op2 o2 ho2
  rw [h2] at hr2
  obtain ⟨g1, _, _, g4, g5, g6, g7, g8⟩ := timers_frame o1.1 _ st2 hst2
  simp only [core, List.mem_singleton] at hr2
  obtain ⟨k1, _, k3, k4, k5, k6, k7, k8⟩ := timers_frame r2.1 _ q2 hq2
  subst hr2
  have p2 : o2.1.pipes = [] := by rw [e2]; exact k1.trans (g1.trans p1)
  have hd2 : o2.1.heldDetached = [] := by rw [e2]; exact k3
  have cl2 : o2.1.closed = true := by rw [e2]; exact k5.trans (g5.trans cl1)
  have ac2 : o2.1.attachClosed = true := by rw [e2]; exact k6.trans (g6.trans ac1)
  have l2 : ∀ l ∈ o2.1.listeners, l.closed = true := by rw [e2]; show ∀ l ∈ q2.1.listeners, _; rw [k7]; show ∀ l ∈ st2.1.listeners, _; rw [g7]; exact l1
  have d2 : ∀ b ∈ o2.1.dialers.map (·.closed), b = true := by
    rw [e2]; show ∀ b ∈ q2.1.dialers.map (·.closed), _; rw [k8]; show ∀ b ∈ st2.1.dialers.map (·.closed), _; rw [g8]; exact d1
  -- step 3
  obtain ⟨st3, hst3, r3', hr3, q3, hq3, e3⟩ := step_parts o2.1 op3 o3 ho3
  rw [h3] at hr3
  obtain ⟨m1, _, m3, m4, m5, m6, m7, m8⟩ := timers_frame o2.1 _ st3 hst3
  obtain ⟨n1, _, n3, n4, _, _, n7, n8⟩ := timers_frame r3'.1 _ q3 hq3
  have core3 : r3'.1.pipes = st3.1.pipes ∧ r3'.1.heldDetached = st3.1.heldDetached ∧ r3'.1.attaching = [] ∧
      r3'.1.listeners = st3.1.listeners ∧ r3'.1.dialers = st3.1.dialers := by
    simp only [core] at hr3
    split at hr3
    · rename_i k hk
      have hcl : (st3.1.attachClosed || st3.1.closed) = true := by rw [m6, ac2]; rfl
      simp only [hcl, if_true, List.mem_singleton] at hr3
      subst hr3
      exact ⟨rfl, rfl, rfl, rfl, rfl⟩
    · rename_i hne
      simp only [List.mem_singleton] at hr3
      subst hr3
      have hone := i2.attOne
      rw [← m4] at hone
      refine ⟨rfl, rfl, ?_, rfl, rfl⟩
      match hatt : st3.1.attaching with
      | [] => rfl
      | [k] => exact absurd hatt (hne k)
      | _ :: _ :: _ => rw [hatt] at hone; simp at hone
  obtain ⟨u1, u2, u3, u4, u5⟩ := core3
  have p3 : o3.1.pipes = [] := by rw [e3]; exact n1.trans (u1.trans (m1.trans p2))
  have hd3 : o3.1.heldDetached = [] := by rw [e3]; exact n3.trans (u2.trans (m3.trans hd2))
  have at3 : o3.1.attaching = [] := by rw [e3]; exact n4.trans u3
  refine ⟨p3, ?_, hd3, at3, ?_, ?_⟩
  · cases hu : o3.1.used with
    | nil => rfl
    | cons k ks =>
      have := nl k (by rw [hu]; simp)
      rw [p3, hd3, at3] at this
      simp at this
  · rw [e3]; show ∀ l ∈ q3.1.listeners, _; rw [n7, u4, m7]; exact l2
  · have : ∀ b ∈ o3.1.dialers.map (·.closed), b = true := by
      rw [e3]; show ∀ b ∈ q3.1.dialers.map (·.closed), _; rw [n8, u5, m8]; exact d2
    intro d hd
    exact this _ (List.mem_map.mpr ⟨d, hd, rfl⟩)

/-- closing a dialer, a listener or a pipe affects only that object -/
theorem closedialer_local (s : State) (now : Nat) (d : String) : ∀ r ∈ core s now ["closedialer", d],
    r.1.pipes = s.pipes ∧ r.1.used = s.used ∧ r.1.listeners = s.listeners ∧ r.1.closed = s.closed ∧
    (∀ x ∈ s.dialers, x.d ≠ Core.natOf d → x ∈ r.1.dialers) := by
  intro r hr
  simp only [core] at hr
  split at hr
  · simp at hr
  · rename_i x hx
    split at hr <;> (simp only [List.mem_singleton] at hr; subst hr)
    · exact ⟨rfl, rfl, rfl, rfl, fun y hy _ => hy⟩
    · refine ⟨rfl, rfl, rfl, rfl, ?_⟩
      intro y hy hne
      simp only [setDialer, List.mem_map]
      refine ⟨y, hy, ?_⟩
      have hxd : x.d = Core.natOf d := getDialer_d s _ x hx
      simp [hxd, hne]

theorem closelistener_local (s : State) (now : Nat) (l : String) : ∀ r ∈ core s now ["closelistener", l],
    r.1.pipes = s.pipes ∧ r.1.used = s.used ∧ r.1.dialers = s.dialers ∧ r.1.closed = s.closed := by
  intro r hr
  simp only [core] at hr
  split at hr
  · simp at hr
  · split at hr <;> (simp only [List.mem_singleton] at hr; subst hr) <;> exact ⟨rfl, rfl, rfl, rfl⟩

theorem pclose_local (s : State) (now : Nat) (k : String) : ∀ r ∈ core s now ["pclose", k],
    (∀ p ∈ s.pipes, p.k ≠ Core.natOf k → p ∈ r.1.pipes) ∧ r.1.listeners = s.listeners ∧ r.1.closed = s.closed ∧
    (r.1.dialers.map (·.closed)) = (s.dialers.map (·.closed)) := by
  intro r hr
  simp only [core] at hr
  split at hr
  · simp only [List.mem_singleton] at hr; subst hr
    exact ⟨fun p hp _ => hp, rfl, rfl, rfl⟩
  · split at hr
    · simp only [List.mem_singleton] at hr; subst hr
      exact ⟨fun p hp _ => hp, rfl, rfl, rfl⟩
    · rename_i p hp
      simp only [List.mem_singleton] at hr; subst hr
      have hpk : p.k = Core.natOf k := by simpa using List.find?_some hp
      obtain ⟨_, b2, _, b4, b5⟩ := closePipe_other s p.k
      have fr : Frame (closePipe s p.k).1 (pipeGone (closePipe s p.k).1 p.dialer now) := by
        unfold pipeGone
        split
        · exact frame_refl _
        · exact setDialer_frame _ _ _ (fun _ => rfl)
      obtain ⟨f1, _, _, _, f5, _, f7, f8⟩ := fr
      refine ⟨?_, f7.trans b4, f5.trans b2, by rw [f8, b5]⟩
      intro q hq hne
      show q ∈ (pipeGone (closePipe s p.k).1 p.dialer now).pipes
      rw [f1, closePipe_pipes, List.mem_filter]
      exact ⟨hq, by simpa [hpk] using hne⟩

/-- non-vacuity: the hypotheses are met by the initial state, and the accounting invariant by a state with a listed
    pipe, a pipe parked in Attaching and one whose Detached callback is still running -/
example : Reach init := Reach.init
example : NoLeak { init with pipes := [{ k := 1, dialer := none, added := true, closed := false }], used := [1, 2, 3], npipes := 3,
                             heldDetached := [2], attaching := [3] } := by
  intro k hk
  simp only [List.mem_cons, List.not_mem_nil, or_false] at hk
  rcases hk with rfl | rfl | rfl <;> simp

/-- REQ: in every reachable state of an open socket — any number of contexts, Sends waiting for a pipe, Recvs waiting
    for replies, retries and deadlines pending — Close leaves no Send and no Recv parked and marks the socket closed.
    (From the invariant `Req.K`, proved over all histories in Model/Proto/ReqClose.lean: every parked call belongs to
    an open context, at most one Recv is parked per context and it waits for a real request.) -/
theorem req_close_wakes_all (s : Req.State) (hs : Req.Reach s) (hopen : s.closed = false) (now : Nat) :
    ∀ r ∈ Req.core s now ["close"], r.1.closed = true ∧ r.1.parkedSend = [] ∧ r.1.parkedRecv = [] :=
  Req.close_wakes_all s hs hopen now

/-- REQ: closing a context wakes exactly what is parked on it: afterwards no call is parked on that context -/
theorem req_closectx_wakes_its_waiters (s : Req.State) (hs : Req.Reach s) (now : Nat) (id : String) (c : Req.Ctx)
    (hc : Req.getCtx s (Proto.natOf id) = some c) (hopen : c.closed = false) :
    ∀ r ∈ Req.core s now ["closectx", id], (∀ q ∈ r.1.parkedSend, q.ctx ≠ c.id) ∧ (∀ q ∈ r.1.parkedRecv, q.ctx ≠ c.id) :=
  Req.closectx_wakes_its_waiters s hs now id c hc hopen

/-- … and in every reachable REQ state every parked call belongs to an open context (none outlives its context) -/
theorem req_parked_calls_have_open_contexts (s : Req.State) (hs : Req.Reach s) :
    (∀ p ∈ s.parkedSend, ∃ x ∈ s.ctxs, x.id = p.ctx ∧ x.closed = false) ∧
    (∀ p ∈ s.parkedRecv, ∃ x ∈ s.ctxs, x.id = p.ctx ∧ x.closed = false ∧ x.receiveWait = true) :=
  ⟨fun p hp => (Req.reach_K s hs).slive p hp (by simp), fun p hp => (Req.reach_K s hs).rlive p hp (by simp)⟩

/-- cooked REP / RESPONDENT: in every reachable state of an open socket, Close leaves no Recv and no Send parked on
    any context and marks the socket closed (from the invariant `Rep.L` over all histories: every parked call belongs
    to an open context) -/
theorem rep_close_wakes_all (f : Rep.Flavor) (site : HopSite) (s : Rep.State) (hs : Rep.Reach f site s)
    (hk : s.flavor.cooked = true) (hopen : s.closed = false) :
    ∀ o ∈ Rep.step s ["close"], o.1.closed = true ∧ o.1.waiting = [] ∧ o.1.parkedSend = [] :=
  Rep.close_wakes_all f site s hs hk hopen

/-- … and closing one context leaves nothing parked on it -/
theorem rep_closectx_clears (s : Rep.State) (c : Nat) :
    (∀ w ∈ (Rep.closeCtx s c).1.waiting, w.1 ≠ c) ∧ (∀ p ∈ (Rep.closeCtx s c).1.parkedSend, p.ctx ≠ c) :=
  Rep.closeCtx_clears s c

example : Req.Reach Req.init ∧ Req.init.closed = false := ⟨.init, rfl⟩

/-! ### The connection handshaker of the stream transports (tcp, tls+tcp, ipc) -/

/-- *Whatever was in progress at the time.*  In every state the handshaker can reach — any order of connections
    arriving, handshakes completing or failing, Wait calls and Close, including connections that arrive after Close —
    a closed handshaker holds nothing open: every connection it was ever given has either been handed to a caller of
    Wait or has been closed. -/
theorem closed_handshaker_holds_nothing_open (s : Handshaker.State) (hr : Handshaker.Reach s) (hc : s.closed = true) :
    ∀ c ∈ s.started, c ∈ s.handed ∨ c ∈ s.shut := by
  intro c hcs
  have inv := Handshaker.reach_inv s hr
  rcases inv.accounted c hcs with h | h | h | h
  · exact Or.inr (inv.closedShut hc c (Or.inl h))
  · exact Or.inr (inv.closedShut hc c (Or.inr h))
  · exact Or.inl h
  · exact Or.inr h

/-- … and nobody is left waiting on it -/
theorem closed_handshaker_has_no_waiters (s : Handshaker.State) (hr : Handshaker.Reach s) (hc : s.closed = true) :
    s.waiters = [] := (Handshaker.reach_inv s hr).noWaiters hc

/-- Close is for good, and a Wait on a closed handshaker returns at once with the closed error -/
theorem handshaker_close_is_final (s : Handshaker.State) (hc : s.closed = true) (o : Handshaker.Op) :
    (Handshaker.step s o).1.closed = true := by
  cases o with
  | start c => simp only [Handshaker.step]; split; exact hc; simp [hc]
  | finish c ok =>
    simp only [Handshaker.step]
    split
    · exact hc
    · split
      · rw [Handshaker.pump_closed]; exact hc
      · simp [hc]
  | wait call => simp [Handshaker.step, hc]
  | close => simp [Handshaker.step]

theorem handshaker_wait_after_close (s : Handshaker.State) (hc : s.closed = true) (call : Nat) :
    Handshaker.step s (.wait call) = (s, [s!"ret:{call}:closed"]) := by
  simp [Handshaker.step, hc]

/-- what Wait hands out is a connection the handshaker has not closed (in particular never one whose handshake
    failed), and never the same connection twice -/
theorem handshaker_hands_out_live_connections_once (s : Handshaker.State) (hr : Handshaker.Reach s) :
    s.handed.Nodup ∧ ∀ c ∈ s.handed, c ∉ s.shut :=
  ⟨(Handshaker.reach_inv s hr).handedNodup, (Handshaker.reach_inv s hr).handedOpen⟩

/-- the handshaker never sits on a finished handshake: while it is open, no Wait is parked when a result is queued -/
theorem handshaker_never_sits_on_a_result (s : Handshaker.State) (hr : Handshaker.Reach s) (ho : s.closed = false) :
    s.waiters = [] ∨ s.done = [] := Handshaker.reach_quiet s hr ho

/-- non-vacuity: one connection handed out, one failed, one still shaking hands at Close, one arriving after Close -/
example :
    let s := Handshaker.run Handshaker.init [.start 1, .start 2, .start 3, .finish 1 true, .wait 7, .finish 2 false, .close, .start 4]
    s.closed = true ∧ s.started = [1, 2, 3, 4] ∧ s.handed = [1] ∧ s.shut = [2, 3, 4] := by decide

/-- a connection attempt of a stream-transport dialer is `Start c` followed by `Wait` on the dialer's own handshaker
    (`Obl.Core.close_paths`: the core dialer's Close closes the transport dialer, whose Close is the handshaker's): when the
    dialer is closed while the peer is still silent, the connection is closed and the Dial waiting for it returns (D23) -/
example :
    let r := Handshaker.step (Handshaker.run Handshaker.init [.start 1, .wait 5]) .close
    r.1.shut = [1] ∧ r.1.waiters = [] ∧ r.2 = ["ret:5:closed", "shut:1"] := by decide

/-! ### The accept queue of the WebSocket listener (ws, wss) -/

/-- In every state the listener can reach — connections beginning and finishing their upgrade in any order relative to
    Accept calls and Close, also finishing after Close — a closed listener keeps nothing: nothing is queued, nobody is
    left waiting in Accept, and every connection that ever began is still being upgraded, was handed to a caller of
    Accept, or is closed. -/
theorem closed_listener_keeps_nothing (s : AcceptQ.State) (hr : AcceptQ.Reach s) (hc : s.closed = true) :
    s.pending = [] ∧ s.waiters = [] ∧ ∀ c ∈ s.started, c ∈ s.upgrading ∨ c ∈ s.handed ∨ c ∈ s.shut := by
  have inv := AcceptQ.reach_inv s hr
  refine ⟨(inv.closedEmpty hc).1, (inv.closedEmpty hc).2, ?_⟩
  intro c hcs
  rcases inv.accounted c hcs with h | h | h | h
  · exact Or.inl h
  · rw [(inv.closedEmpty hc).1] at h; simp at h
  · exact Or.inr (Or.inl h)
  · exact Or.inr (Or.inr h)

/-- … so once the upgrades that were in flight at Close have finished, every connection not handed out is closed -/
theorem closed_listener_all_settled (s : AcceptQ.State) (hr : AcceptQ.Reach s) (hc : s.closed = true) (hu : s.upgrading = []) :
    ∀ c ∈ s.started, c ∈ s.handed ∨ c ∈ s.shut := by
  intro c hcs
  rcases (closed_listener_keeps_nothing s hr hc).2.2 c hcs with h | h | h
  · rw [hu] at h; simp at h
  · exact Or.inl h
  · exact Or.inr h

/-- an upgrade that finishes after Close closes its connection (the step D22 was about) -/
theorem finish_after_close_shuts (s : AcceptQ.State) (hr : AcceptQ.Reach s) (hc : s.closed = true) (c : Nat) (hu : c ∈ s.upgrading) :
    c ∈ (AcceptQ.step s (.finish c)).1.shut ∧ (AcceptQ.step s (.finish c)).1.pending = [] := by
  have hcu : s.upgrading.contains c = true := by simpa using hu
  have hp := ((AcceptQ.reach_inv s hr).closedEmpty hc).1
  simp only [AcceptQ.step, hcu, hc]
  exact ⟨(AcceptQ.mem_addShut _ _ _).mpr (Or.inr rfl), hp⟩

/-- Accept hands out live connections, each once; while the listener is open no Accept is parked with a connection queued -/
theorem listener_hands_out_live_connections_once (s : AcceptQ.State) (hr : AcceptQ.Reach s) :
    s.handed.Nodup ∧ (∀ c ∈ s.handed, c ∉ s.shut) ∧ (s.waiters = [] ∨ s.pending = []) :=
  ⟨(AcceptQ.reach_inv s hr).handedNodup, (AcceptQ.reach_inv s hr).handedOpen, (AcceptQ.reach_inv s hr).quiet⟩

/-- non-vacuity: one connection accepted, one queued at Close, one upgraded across Close, one arriving after Close -/
example :
    let s := AcceptQ.run AcceptQ.init [.begin 1, .finish 1, .accept 7, .begin 2, .finish 2, .begin 3, .close, .finish 3, .begin 4]
    s.closed = true ∧ s.started = [1, 2, 3, 4] ∧ s.handed = [1] ∧ s.shut = [2, 3, 4] ∧ s.upgrading = [] := by decide

/-! ### The inproc transport's rendezvous (`Model/Inproc.lean`, machine `m.inproc`): all histories of Listen, Accept,
Dial, listener Close and dialer Close on any number of listeners, dialers and addresses. -/

/-- a closed inproc listener is bound at no address and none of its Accepts is still waiting: Close released the
    address and woke everyone -/
theorem inproc_closed_listener_keeps_nothing (s : Inproc.State) (hr : Inproc.Reach s) (lid : Nat) (hc : lid ∈ s.closedL) :
    (∀ b ∈ s.bound, b.lid ≠ lid) ∧ (∀ a ∈ s.accepters, a.1 ≠ lid) := by
  have inv := Inproc.reach_inv hr
  exact ⟨fun b hb he => (inv.boundLive b hb).2 (he ▸ hc), fun a ha he => (inv.accLive a ha).2 (he ▸ hc)⟩

/-- no Dial waits for nothing: a Dial that is parked belongs to a dialer that is still open, and at its address a
    listener of the matching protocol is bound that is not closed and has no Accept on offer — the only thing the Dial
    is waiting for is that listener's next Accept (or either side's Close, which wakes it) -/
theorem inproc_parked_dial_has_a_live_listener (s : Inproc.State) (hr : Inproc.Reach s) (p : Inproc.Park) (hp : p ∈ s.parked) :
    p.did ∉ s.closedD ∧ ∃ b ∈ s.bound, b.addr = p.addr ∧ p.self = b.peer ∧ p.peer = b.self ∧ b.lid ∉ s.closedL ∧
      ∀ a ∈ s.accepters, a.1 ≠ b.lid := by
  have inv := Inproc.reach_inv hr
  obtain ⟨h1, b, hb1, hb2, hb3, hb4, hb5⟩ := inv.parkedOK p hp
  exact ⟨h1, b, hb1, hb2, hb3, hb4, (inv.boundLive b hb1).2, hb5⟩

/-- an address has at most one listener -/
theorem inproc_address_has_one_listener (s : Inproc.State) (hr : Inproc.Reach s) : (s.bound.map (·.addr)).Nodup :=
  (Inproc.reach_inv hr).boundNodup

/-- every call is in one place: the Accepts on offer, the parked Dials and the two ends of the connections made are
    pairwise distinct calls — an Accept is paired with exactly one Dial, a connection is made once -/
theorem inproc_calls_are_in_one_place (s : Inproc.State) (hr : Inproc.Reach s) : (Inproc.allCalls s).Nodup := by
  have inv := Inproc.reach_inv hr
  unfold Inproc.allCalls
  rw [List.nodup_append]
  refine ⟨?_, inv.connNodup, ?_⟩
  · rw [List.nodup_append]
    exact ⟨inv.accNodup, inv.parkNodup, fun a ha b hb he => inv.accPark a ha (he ▸ hb)⟩
  · intro a ha b hb he
    subst he
    rcases List.mem_append.1 ha with h | h
    · exact inv.accConn a h hb
    · exact inv.parkConn a h hb

/-- Close of the listener bound at an address frees the address: in the state after it nothing is bound there, so the
    next Listen there succeeds -/
theorem inproc_close_releases_the_address (s : Inproc.State) (hr : Inproc.Reach s) (b : Inproc.Bind) (hb : b ∈ s.bound) :
    ∀ b' ∈ (Inproc.closeLState s b.lid).bound, b'.addr ≠ b.addr := by
  have inv := Inproc.reach_inv hr
  intro b' hb' he
  simp only [Inproc.closeLState, List.mem_filter] at hb'
  obtain ⟨h1, h2⟩ := hb'
  have hne : b'.lid ≠ b.lid := by simpa using h2
  have : b' = b := by
    have hnd := inv.boundNodup
    exact Inproc.nodup_map_inj _ _ hnd b' h1 b hb he
  exact hne (this ▸ rfl)

/-- closing a dialer wakes every Dial of that dialer that is parked (D25), and nobody else's -/
theorem inproc_dialer_close_wakes_its_dials (s : Inproc.State) (did : Nat) :
    (∀ p ∈ (Inproc.closeDState s did).parked, p.did ≠ did) ∧
    (∀ p ∈ s.parked, p.did ≠ did → p ∈ (Inproc.closeDState s did).parked) := by
  constructor
  · intro p hp
    simp only [Inproc.closeDState, List.mem_filter] at hp
    simpa using hp.2
  · intro p hp hne
    simp only [Inproc.closeDState, List.mem_filter]
    exact ⟨hp, by simpa using hne⟩

/-- non-vacuity: two listeners compete for one address, a dial parks, is paired by the next Accept, the loser of the
    address closes without disturbing the binding, the owner's Close refuses the second parked dial and fails the
    waiting Accept of nobody (none left) -/
example :
    let run := fun (s : Inproc.State) (o : Inproc.Op) => ((Inproc.step s o).headD (s, [])).1
    let s := [Inproc.Op.listen 1 5 16 17, .listen 2 5 16 17, .dial 1 100 5 17 16, .accept 1 101, .closeL 2,
              .dial 1 102 5 17 16, .dial 2 103 6 17 16].foldl run Inproc.init
    s.bound.map (·.lid) = [1] ∧ s.conns = [(101, 100)] ∧ s.parked.map (·.call) = [102] ∧ s.closedL = [2] ∧
    ((Inproc.step s (.closeL 1)).headD (s, [])).2 = ["res:ok", "ret:102:refused"] := by decide

/-- an inproc connection of which either end has been closed has nobody parked in Send or Recv at either end, in every
    reachable state; and every later Send or Recv fails at once with the closed error -/
theorem closed_inproc_pipe_parks_nobody (s : InprocPipe.State) (hr : InprocPipe.Reach s) (hc : InprocPipe.anyClosed s = true) :
    s.parkedSend = [] ∧ s.parkedRecv = [] ∧
    (∀ d c h b, InprocPipe.step s (.send d c h b) = [(s, InprocPipe.render none [(c, "closed")])]) ∧
    (∀ d c, InprocPipe.step s (.recv d c) = [(s, InprocPipe.render none [(c, "closed")])]) := by
  have inv := InprocPipe.reach_inv hr
  refine ⟨(inv.closedEmpty hc).1, (inv.closedEmpty hc).2, ?_, ?_⟩
  · intro d c h b
    simp [InprocPipe.step, hc]
  · intro d c
    simp [InprocPipe.step, hc]

/-! ### Blocked Sends of REP / RESPONDENT / XREP / XRESPONDENT and their pipes (`Model/Proto/RepPipes.lean`) -/

/-- in every state any of the four flavours can reach, a Send that is blocked waits on a pipe that is still connected … -/
theorem blocked_reply_waits_on_a_connected_pipe (f : Proto.Rep.Flavor) (site : HopSite) (s : Proto.Rep.State)
    (hr : Proto.Rep.Reach f site s) : ∀ x ∈ s.parkedSend, ∃ p ∈ s.pipes, p.id = x.pipe :=
  Proto.Rep.reach_M f site s hr

/-- … the removal of a pipe releases every Send blocked on it: none is left, and each gets its result … -/
theorem pipe_removal_releases_its_blocked_sends (s : Proto.Rep.State) (p : Nat) :
    (∀ x ∈ (Proto.Rep.dropPipe s p).1.parkedSend, x.pipe ≠ p) ∧
    (Proto.Rep.dropPipe s p).2.map (·.1) = (s.parkedSend.filter (fun x => x.pipe == p)).map (·.call) := by
  refine ⟨Proto.Rep.dropPipe_releases s p, ?_⟩
  unfold Proto.Rep.dropPipe
  simp only []
  split <;> simp [List.map_map, Function.comp_def]

/-- … so once every pipe has gone — which is what Socket.Close does (`nothing_remains_after_close`) — no Send is blocked,
    on the raw flavours too, whose SendMsg has no close case besides the pipe's -/
theorem no_pipes_no_blocked_send (f : Proto.Rep.Flavor) (site : HopSite) (s : Proto.Rep.State)
    (hr : Proto.Rep.Reach f site s) (hp : s.pipes = []) : s.parkedSend = [] := by
  cases hps : s.parkedSend with
  | nil => rfl
  | cons x xs =>
    obtain ⟨p, hp1, _⟩ := Proto.Rep.reach_M f site s hr x (by rw [hps]; exact List.mem_cons_self)
    rw [hp] at hp1
    cases hp1

/-- non-vacuity: a raw REP socket with a reply blocked on its connected pipe 7 meets the invariant; dropping the pipe
    releases exactly that Send -/
example :
    let s : Proto.Rep.State := { (Proto.Rep.init .xrep ⟨1, .gt (.var "hops") (.var "ttl"), []⟩) with
      pipes := [{ id := 7, cap := 1 }], parkedSend := [{ call := 1, ctx := 0, pipe := 7, msg := ([], [1]), orig := [] }] }
    Proto.Rep.M s ∧ (Proto.Rep.dropPipe s 7).1.parkedSend = [] ∧ (Proto.Rep.dropPipe s 7).2.map (·.1) = [1] := by
  refine ⟨?_, by decide, by decide⟩
  intro x hx
  simp at hx
  subst hx
  exact ⟨{ id := 7, cap := 1 }, by simp, rfl⟩

end Props.C10
