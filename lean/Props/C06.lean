/-
  C06 — SUB delivers exactly the matching messages; PUB reaches every subscriber.
  Property theorems only.  Models: Model/Proto/Sub.lean, Model/Proto/Pub.lean (validated step by step
  against protocol/sub, protocol/pub, protocol/xpub by the correspondence harness).
-/
import Model.Proto.SubLemmas
import Model.Proto.SubOrder
import Model.Proto.PubOrder
import Model.Proto.Pub
namespace Props.C06
open Model Model.Proto

/-- a message matches iff its body starts with at least one current subscription -/
theorem matches_iff (c : Sub.Ctx) (body : Bytes) : c.matches body = true ↔ ∃ s ∈ c.subs, s <+: body := by
  unfold Sub.Ctx.matches
  simp only [List.any_eq_true, Sub.isPrefix_iff]

/-- the empty subscription matches everything; no subscription matches nothing -/
theorem empty_topic_matches_all (c : Sub.Ctx) (h : [] ∈ c.subs) (body : Bytes) : c.matches body = true :=
  (matches_iff c body).mpr ⟨[], h, List.nil_prefix⟩
theorem no_subscription_matches_nothing (c : Sub.Ctx) (h : c.subs = []) (body : Bytes) : c.matches body = false := by
  unfold Sub.Ctx.matches; simp [h]

/-- in every reachable state (any history of subscribe / unsubscribe / publish / receive / resize /
    open / close, any interleaving, any number of contexts and publishers), whatever Recv returns on a
    context matches that context's *current* subscriptions — so once Unsubscribe has returned no queued
    message that no longer matches is delivered -/
theorem recv_matches_current (s : Sub.State) (hr : Sub.Reach s) (call ctx : String) (o : Sub.State × List Ev)
    (ho : o ∈ Sub.step s ["recv", call, ctx]) (c : Sub.Ctx) (hc : Sub.getCtx s (natOf ctx) = some c)
    (k : Nat) (h m : Bytes) (hm : Ev.retMsg k h m ∈ o.2) : c.matches m = true := by
  have hinv := Sub.reach_inv s hr
  have hcm := (Sub.getCtx_mem s _ c hc).1
  have hq : ∀ x ∈ c.q, c.matches x = true := hinv c hcm
  simp only [Sub.step, hc] at ho
  split at ho
  · split at ho
    · simp at ho; subst ho; simp at hm
    · rename_i m0 rest hq0
      simp at ho
      rcases ho with rfl | rfl
      · simp at hm
      · simp at hm; obtain ⟨_, _, hmm⟩ := hm
        rw [hmm]; exact hq m0 (by simp [hq0])
  · split at ho
    · rename_i m0 rest hq0
      simp at ho; subst ho
      simp at hm; obtain ⟨_, _, hmm⟩ := hm
      rw [hmm]; exact hq m0 (by simp [hq0])
    · simp at ho; subst ho; simp at hm

/-- a published message handed directly to a parked Recv (or queued) on arrival matched on arrival;
    a context whose subscriptions do not match is left exactly as it was and produces no event -/
theorem offer_iff_matches (c : Sub.Ctx) (body : Bytes) :
    (c.matches body = false → c.offer body = (c, [])) ∧
    (c.matches body = true → c.closed = false → c.parked = [] → c.q.length < c.cap → (c.offer body).1.q = c.q ++ [body]) ∧
    (∀ k h m rest, c.parked = k :: rest → Ev.retMsg k h m ∈ (c.offer body).2.map (·.2) → m = body ∧ c.matches body = true) := by
  refine ⟨?_, ?_, ?_⟩
  · intro h; simp [Sub.Ctx.offer, h]
  · intro h hc hp hl; simp [Sub.Ctx.offer, h, hc, hp, hl]
  · intro k h m rest hp hm
    unfold Sub.Ctx.offer at hm
    split at hm
    · simp at hm
    · rename_i hcm
      simp only [hp] at hm
      simp at hm
      refine ⟨hm.2, ?_⟩
      cases hh : c.matches body <;> simp_all

/-- contexts do not affect one another: what a published message does to a context is a function of
    that context alone -/
theorem ctx_noninterference (s : Sub.State) (body : Bytes) :
    (Sub.deliver s body).1.ctxs = s.ctxs.map (fun c => (c.offer body).1) := by
  simp [Sub.deliver, List.map_map, Function.comp]

/-- overflow drops the oldest queued message, never the new one, and the queue never exceeds its capacity -/
theorem overflow_drops_oldest (c : Sub.Ctx) (body : Bytes) (hm : c.matches body = true) (hc : c.closed = false)
    (hp : c.parked = []) (hfull : ¬ c.q.length < c.cap) (hcap : c.cap ≠ 0) : (c.offer body).1.q = c.q.tail ++ [body] := by
  simp [Sub.Ctx.offer, hm, hc, hp, hfull, hcap]

/-- PUB: a Send reaches every connected subscriber whose sender is idle, with exactly the bytes sent -/
theorem pub_reaches_all (ps : List OutPipe) (m : Msg) (hidle : ∀ p ∈ ps, p.inflight = none ∧ p.hold = false) :
    ∀ p ∈ ps, (p.id, Ev.tx p.id m.1 m.2) ∈ (fanout ps (fun _ => true) m).2 := by
  intro p hp
  simp only [fanout, List.mem_flatMap, List.mem_map]
  refine ⟨_, ⟨p, hp, rfl⟩, ?_⟩
  obtain ⟨h1, h2⟩ := hidle p hp
  simp [OutPipe.offer, h1, h2]

/-- PUB: a slow subscriber (held pipe) accepts up to its queue capacity and only then loses messages;
    other subscribers are unaffected (each pipe's outcome is a function of that pipe alone) -/
theorem pub_pipe_independent (ps : List OutPipe) (m : Msg) :
    (fanout ps (fun _ => true) m).1 = ps.map (fun p => (p.offer m).1) := by
  simp [fanout, List.map_map, Function.comp]

theorem pub_queue_room (p : OutPipe) (m : Msg) (x : Msg) (hi : p.inflight = some x) (hroom : p.q.length < p.cap) :
    (p.offer m).1.q = p.q ++ [m] ∧ (p.offer m).2.2 = true := by
  simp [OutPipe.offer, hi, hroom]

/-- **at most once and in order**, in every reachable state — any history of publications, subscribe / unsubscribe,
    receives (blocked or not), queue re-creations, contexts opened and closed: for every context, what its Recvs have
    returned (`got`) followed by what is queued for it is, in order, part of the matching messages offered to it
    (`seen`), which are, in order, part of the messages that reached the socket (`arrived`).  So no message is
    returned twice, none out of arrival order, none that did not arrive (ghost lists; `offer_logs_what_it_hands` ties
    `got` to the emitted "Recv returned" events) -/
theorem recv_in_order_at_most_once (s : Sub.State) (hr : Sub.Reach s) :
    ∀ c ∈ s.ctxs, (c.got ++ c.q).Sublist c.seen ∧ c.seen.Sublist s.arrived :=
  Sub.recv_in_order_at_most_once s hr

/-- PUB side, over every history of a PUB socket (publications, subscribers attaching and leaving, slow and failing
    subscribers, queue-length changes): for every subscriber pipe, the copies its SendMsg completed, then the one in
    progress, then the queued ones are, in order, part of what was offered to it — each published message reaches a
    subscriber at most once and in the publisher's order; a copy is lost only by the queue-full drop (ghost histories
    `offered` / `sent` of the pipe) -/
theorem pub_per_subscriber_order (s : Pub.State) (h : Pub.Reach s) :
    ∀ p ∈ s.pipes, (p.sent ++ p.inflight.toList ++ p.q).Sublist p.offered :=
  Pub.per_subscriber_order s h

/-- non-vacuity -/
example : ({ id := 0, subs := [[1]], q := [[1, 2]], cap := 2, parked := [], closed := false } : Sub.Ctx).Inv := by
  intro m hm; simp at hm; subst hm; decide

end Props.C06
