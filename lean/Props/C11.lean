/-
  C11 — sockets are safe for concurrent use.  Property theorems only.
  What is proved here is about the lock IR of Model/IR.lean and about traces of mutex operations; Obl/IR.lean,
  Obl/Lockset.lean and Obl/LockOrder.lean apply it on every run to the IR regenerated from every function of the
  library.  The race-detector stress run (cmd/racer, cmd/corr/c11.go) is the search for concrete failing inputs and
  the cross-check of the static verdicts, not part of the proof.
-/
import Model.Lockset
import Model.LockOrder
namespace Props.C11
open Model.IR

/-- (1) never a self-deadlock, never an unlock of an unheld mutex, nothing held at return: see Props.C12 / Model.IR -/
theorem no_self_deadlock (f : Fn) (hb : f.okKeeping = true) (o : Out) (hex : Exec f.body { held := f.entry, deferred := [] } o) :
    o ≠ .bad := by
  obtain ⟨σ, e, heq, _⟩ := okKeeping_sound f hb o hex
  rw [heq]; simp

/-- (2) the mutexes the analysis says are held at an access are the ones actually held: every access performed by any
    execution of an accepted body (any branch, any number of loop iterations) is in the computed list, with exactly the
    held set of that moment -/
theorem held_sets_are_exact {s : Stmt} {σ σ' : St} {t : List TEv} {e : Exit} (h : ExecT s σ t σ' e)
    (outs : List (St × Exit)) (hc : check s σ = some outs) : ∀ a, TEv.acc a ∈ t → a ∈ accs s σ :=
  accs_sound h outs hc

/-- (2') … and every acquisition of a mutex m while holding h, in any execution, is one of the edges (h, m) the
    rank obligation is about -/
theorem acquisition_edges_are_complete {s : Stmt} {σ σ' : St} {t : List TEv} {e : Exit} (h : ExecT s σ t σ' e)
    (outs : List (St × Exit)) (hc : check s σ = some outs) : ∀ m H, TEv.acq m H ∈ t → ∀ x ∈ H, (x, m) ∈ edges s σ :=
  edges_sound h outs hc

/-- (3) why one common mutex is enough: in any interleaving that respects mutual exclusion (`holder` defined), two
    accesses by different threads, each made while its thread holds m, have between them a release of m by the first
    thread followed by an acquisition by the second — they are ordered by happens-before, hence not a data race -/
theorem common_mutex_orders_accesses (m : LockId) (t1 t2 f1 f2 : Nat) (w1 w2 : Bool) (hne : t2 ≠ t1)
    (earlier mid : List Ev)
    (h1 : holder m (Ev.access t1 f1 w1 :: earlier) = some (some t1))
    (h2 : holder m (Ev.access t2 f2 w2 :: (mid ++ Ev.access t1 f1 w1 :: earlier)) = some (some t2)) :
    ∃ l1 l2 l3, mid = l3 ++ [Ev.acq t2 m] ++ l2 ++ [Ev.rel t1 m] ++ l1 :=
  ordered_by_common_lock m t1 t2 f1 f2 w1 w2 hne earlier mid h1 h2

/-- (4) no lock-order deadlock: if every "acquire b while holding a" edge goes up in one ranking, no chain of
    goroutines each holding a mutex the next waits for can close into a cycle -/
theorem ranked_locks_cannot_deadlock (r : List (LockId × Nat)) (es : List (LockId × LockId)) (hok : rankOK r es = true)
    (e0 : LockId × LockId) (c : List (LockId × LockId)) (hmem : ∀ e ∈ e0 :: c, e ∈ es) (hch : Chain (e0 :: c))
    (hclose : ((e0 :: c).getLast (by simp)).2 = e0.1) : False :=
  no_wait_cycle r es hok e0 c hmem hch hclose

/-- the discipline is not vacuous: a field written under a mutex and read without it is reported; read-only fields
    and fields always accessed under one mutex are not -/
example : unsafeFields [{ name := "w", entry := [], body := .seq (.lock 1) (.seq (.acc 7 true) (.unlock 1)) },
                        { name := "r", entry := [], body := .acc 7 false }] [] = [7] := by decide
example : unsafeFields [{ name := "w", entry := [], body := .seq (.lock 1) (.seq (.acc 7 true) (.unlock 1)) },
                        { name := "r", entry := [], body := .seq (.lock 1) (.seq (.acc 7 false) (.unlock 1)) },
                        { name := "c", entry := [], body := .acc 8 false }] [] = [] := by decide
/-- … and an opposite acquisition order has no ranking -/
example : rankOK (topo [1, 2] [(1, 2), (2, 1)]) [(1, 2), (2, 1)] = false := by decide
example : rankOK (topo [1, 2, 3] [(1, 2), (2, 3), (1, 3)]) [(1, 2), (2, 3), (1, 3)] = true := by decide

end Props.C11
