/-
  C18 — deadlines, best-effort and fail-no-peers never block or fire early.
  Property theorems only.  Model: Model/Wait.lean (one blocking call against an arbitrary timeline), whose `Site`
  parameters are read from every protocol's SendMsg / RecvMsg by cmd/extract (Generated.waitSites; per-run
  obligations in Obl/Wait.lean) and whose outcomes and times are compared with the real calls by the correspondence
  harness (cmd/corr/c18.go).  REQ's own timers are also part of the Req machine (Props/C03, C04).
-/
import Model.Wait
import Model.Proto.ReqWake
import Model.Proto.ReqDue
namespace Props.C18
open Model Model.Wait

theorem wait_timeout_ge (site : Site) (cfg : Cfg) (armed : Nat) (evs : List (Nat × WEv)) (t : Nat)
    (h : wait site cfg armed evs = some (.timeout, t)) : 0 < cfg.expire ∧ cfg.expire ≤ t := by
  induction evs generalizing armed with
  | nil =>
    simp only [wait] at h
    split at h
    · simp at h; omega
    · simp at h
  | cons e rest ih =>
    obtain ⟨te, e⟩ := e
    simp only [wait] at h
    split at h
    · simp at h; omega
    · cases e <;> simp only [] at h
      · simp at h
      · simp at h
      · exact ih _ h
      · split at h
        · simp at h
        · exact ih _ h

/-- a timeout is never reported before the deadline has elapsed, for every site (re-arming or not), configuration,
    starting state and timeline; and only when a positive deadline is set and best-effort does not apply -/
theorem timeout_never_early (site : Site) (cfg : Cfg) (st : Start) (evs : List (Nat × WEv)) (t : Nat)
    (h : run site cfg st evs = some (.timeout, t)) :
    0 < cfg.expire ∧ cfg.expire ≤ t ∧ ¬ (site.hasBE = true ∧ cfg.bestEffort = true) ∧ st.ready = false := by
  unfold run at h
  split at h
  · simp at h
  · split at h
    · simp at h
    · split at h
      · simp at h
      · rename_i _ hr hb
        have := wait_timeout_ge site cfg 0 evs t h
        refine ⟨this.1, this.2, ?_, by simpa using hr⟩
        intro ⟨h1, h2⟩; simp [h1, h2] at hb

theorem wait_bounded (site : Site) (cfg : Cfg) (armed : Nat) (evs : List (Nat × WEv)) (hr : site.rearm = false)
    (hd : 0 < cfg.expire) : ∃ o t, wait site cfg armed evs = some (o, t) ∧ t ≤ armed + cfg.expire ∧
      (o = .timeout → t = armed + cfg.expire) := by
  induction evs with
  | nil => exact ⟨.timeout, armed + cfg.expire, by simp [wait, hd], Nat.le_refl _, fun _ => rfl⟩
  | cons e rest ih =>
    obtain ⟨te, e⟩ := e
    simp only [wait]
    split
    · exact ⟨.timeout, _, rfl, Nat.le_refl _, fun _ => rfl⟩
    · rename_i hlt
      have hle : te ≤ armed + cfg.expire := by
        by_cases h : armed + cfg.expire < te
        · exact absurd ⟨hd, h⟩ hlt
        · omega
      cases e <;> simp only []
      · exact ⟨.ok, te, rfl, hle, by simp⟩
      · exact ⟨.closed, te, rfl, hle, by simp⟩
      · simpa [hr] using ih
      · split
        · exact ⟨.nopeers, te, rfl, hle, by simp⟩
        · exact ih

/-- with a positive deadline, a call at a site that arms its timer once never hangs beyond the deadline: whatever
    the world does (including any number of queue resizes), it has returned by `expire`, and a timeout is reported
    exactly then -/
theorem never_hangs_beyond (site : Site) (cfg : Cfg) (st : Start) (evs : List (Nat × WEv)) (hr : site.rearm = false)
    (hd : 0 < cfg.expire) : ∃ o t, run site cfg st evs = some (o, t) ∧ t ≤ cfg.expire ∧ (o = .timeout → t = cfg.expire) := by
  unfold run
  split
  · exact ⟨.nopeers, 0, rfl, Nat.zero_le _, by simp⟩
  · split
    · exact ⟨.ok, 0, rfl, Nat.zero_le _, by simp⟩
    · split
      · exact ⟨.ok, 0, rfl, Nat.zero_le _, by simp⟩
      · simpa using wait_bounded site cfg 0 evs hr hd

/-- the hypothesis `rearm = false` is necessary: a site that re-arms on resize is kept waiting past the deadline by
    a resize (here: deadline 100, resize at 80, reported at 180) — and by repeated resizes indefinitely -/
theorem rearm_hangs_beyond :
    run { rearm := true, hasBE := false, hasFNP := false } { expire := 100, bestEffort := false, failNoPeers := false }
      { ready := false, peers := true } [(80, .resize)] = some (.timeout, 180) := by decide

theorem rearm_unbounded (n : Nat) (evs : List (Nat × WEv)) :
    wait { rearm := true, hasBE := false, hasFNP := false } { expire := 100, bestEffort := false, failNoPeers := false }
      n ((n + 50, .resize) :: evs) =
    wait { rearm := true, hasBE := false, hasFNP := false } { expire := 100, bestEffort := false, failNoPeers := false }
      (n + 50) evs := by
  simp [wait]

/-- a call that can complete at once is not failed by any deadline -/
theorem immediate_success (site : Site) (cfg : Cfg) (st : Start) (evs : List (Nat × WEv)) (hready : st.ready = true)
    (hp : ¬ (site.hasFNP = true ∧ cfg.failNoPeers = true ∧ st.peers = false)) : run site cfg st evs = some (.ok, 0) := by
  unfold run
  split
  · rename_i h; simp at h; exact absurd ⟨h.1.1, h.1.2, h.2⟩ hp
  · simp [hready]

/-- it completes when it becomes satisfiable before the deadline -/
theorem ready_before_deadline (site : Site) (cfg : Cfg) (armed te : Nat) (rest : List (Nat × WEv))
    (h : te ≤ armed + cfg.expire) : wait site cfg armed ((te, .ready) :: rest) = some (.ok, te) := by
  simp only [wait]
  split
  · rename_i h'; omega
  · rfl

theorem wait_no_deadline (site : Site) (cfg : Cfg) (armed : Nat) (evs : List (Nat × WEv)) (hd : cfg.expire = 0)
    (o : Out) (t : Nat) (h : wait site cfg armed evs = some (o, t)) : o ≠ .timeout ∧ ∃ e, (t, e) ∈ evs ∧ e ≠ .resize := by
  induction evs generalizing armed with
  | nil => simp [wait, hd] at h
  | cons e rest ih =>
    obtain ⟨te, e⟩ := e
    simp only [wait, hd, Nat.lt_irrefl, false_and, if_false] at h
    cases e <;> simp only [] at h
    · simp at h; obtain ⟨rfl, rfl⟩ := h; exact ⟨by simp, .ready, by simp, by simp⟩
    · simp at h; obtain ⟨rfl, rfl⟩ := h; exact ⟨by simp, .closed, by simp, by simp⟩
    · obtain ⟨h1, e, he, hne⟩ := ih _ h
      exact ⟨h1, e, List.mem_cons_of_mem _ he, hne⟩
    · split at h
      · simp at h; obtain ⟨rfl, rfl⟩ := h; exact ⟨by simp, .nopeers, by simp, by simp⟩
      · obtain ⟨h1, e, he, hne⟩ := ih _ h
        exact ⟨h1, e, List.mem_cons_of_mem _ he, hne⟩

/-- with no deadline the call never times out: it returns only when something happens, and waits otherwise -/
theorem no_deadline_waits (site : Site) (cfg : Cfg) (st : Start) (evs : List (Nat × WEv)) (hd : cfg.expire = 0) :
    (∀ t, run site cfg st evs ≠ some (.timeout, t)) ∧
    (st.ready = false → ¬ (site.hasBE = true ∧ cfg.bestEffort = true) → ¬ (site.hasFNP = true ∧ cfg.failNoPeers = true) →
      (∀ x ∈ evs, x.2 = .resize ∨ x.2 = .nopeers) → run site cfg st evs = none) := by
  refine ⟨?_, ?_⟩
  · intro t h
    have := timeout_never_early site cfg st evs t h
    omega
  · intro hr hb hf hev
    have h1 : (site.hasFNP && cfg.failNoPeers) = false := by
      cases h1 : site.hasFNP <;> cases h2 : cfg.failNoPeers <;> simp_all
    have h2 : (site.hasBE && cfg.bestEffort) = false := by
      cases h1 : site.hasBE <;> cases h2 : cfg.bestEffort <;> simp_all
    simp only [run, h1, h2, hr, Bool.false_and]
    simp only [Bool.false_eq_true, if_false]
    generalize 0 = armed
    induction evs generalizing armed with
    | nil => simp [wait, hd]
    | cons e rest ih =>
      obtain ⟨te, e⟩ := e
      have hrest : ∀ x ∈ rest, x.2 = .resize ∨ x.2 = .nopeers := fun x hx => hev x (List.mem_cons_of_mem _ hx)
      have he := hev (te, e) (by simp)
      simp only [wait, hd, Nat.lt_irrefl, false_and, if_false]
      rcases he with he | he <;> simp only [] at he <;> subst he <;> simp only []
      · exact ih hrest _
      · simp only [h1, Bool.false_eq_true, if_false]; exact ih hrest _

/-- a best-effort send never blocks: it returns at once, with success (queued or silently dropped) or no-peers -/
theorem best_effort_never_blocks (site : Site) (cfg : Cfg) (st : Start) (evs : List (Nat × WEv))
    (hb : site.hasBE = true) (hc : cfg.bestEffort = true) :
    run site cfg st evs = some (.ok, 0) ∨ run site cfg st evs = some (.nopeers, 0) := by
  unfold run
  split
  · right; rfl
  · split
    · left; rfl
    · left; simp [hb, hc]

/-- fail-no-peers: immediate failure when no peer is connected, and failure at the moment the last peer leaves
    during the wait — in both cases regardless of deadline and best-effort -/
theorem no_peers_immediate (site : Site) (cfg : Cfg) (st : Start) (evs : List (Nat × WEv))
    (hs : site.hasFNP = true) (hc : cfg.failNoPeers = true) (hp : st.peers = false) : run site cfg st evs = some (.nopeers, 0) := by
  simp [run, hs, hc, hp]

theorem no_peers_during_wait (site : Site) (cfg : Cfg) (armed te : Nat) (rest : List (Nat × WEv))
    (hs : site.hasFNP = true) (hc : cfg.failNoPeers = true) (h : te ≤ armed + cfg.expire) :
    wait site cfg armed ((te, .nopeers) :: rest) = some (.nopeers, te) := by
  simp only [wait]
  split
  · rename_i h'; omega
  · simp [hs, hc]

/-- without fail-no-peers a departing peer does not end the wait -/
theorem peers_leaving_ignored (site : Site) (cfg : Cfg) (armed te : Nat) (rest : List (Nat × WEv))
    (hc : cfg.failNoPeers = false) (h : te ≤ armed + cfg.expire) :
    wait site cfg armed ((te, .nopeers) :: rest) = wait site cfg armed rest := by
  simp only [wait]
  split
  · rename_i h'; omega
  · simp [hc]

/-- the admission relation used by the correspondence check never accepts an early timeout -/
theorem admits_not_early (site : Site) (cfg : Cfg) (st : Start) (evs : List (Nat × WEv)) (t' g : Nat)
    (h : admits (run site cfg st evs) (some (.timeout, t')) g = true) : cfg.expire ≤ t' := by
  cases hrun : run site cfg st evs with
  | none => simp [admits, hrun] at h
  | some r =>
    obtain ⟨o, t⟩ := r
    simp only [admits, hrun, Bool.and_eq_true, beq_iff_eq, decide_eq_true_eq] at h
    obtain ⟨⟨rfl, h1⟩, _⟩ := h
    have := (timeout_never_early site cfg st evs t hrun).2.1
    omega

/-- non-vacuity: a once-armed site with a deadline, resized twice while blocked, times out exactly at the deadline;
    with a message arriving first it succeeds; with no deadline it is still waiting -/
example : run { rearm := false, hasBE := false, hasFNP := false } { expire := 100, bestEffort := false, failNoPeers := false }
    { ready := false, peers := true } [(30, .resize), (80, .resize)] = some (.timeout, 100) := by decide
example : run { rearm := false, hasBE := false, hasFNP := false } { expire := 100, bestEffort := false, failNoPeers := false }
    { ready := false, peers := true } [(30, .resize), (60, .ready)] = some (.ok, 60) := by decide
example : run { rearm := false, hasBE := true, hasFNP := true } { expire := 0, bestEffort := false, failNoPeers := false }
    { ready := false, peers := true } [(30, .resize), (60, .nopeers)] = none := by decide

/-- REQ is the one protocol whose blocked calls share state (the context's request).  Whatever cancels that request —
    a receive deadline, a send deadline, a lost connection with retries disabled, the last peer leaving, Close — no Send
    on that context stays parked once the waiters have re-evaluated their conditions: a Send whose timer `cancel` has
    stopped and whose queue entry it has removed gives up (D17: it used to sleep on, with nothing left to wake it) -/
theorem req_cancel_never_leaves_a_send_asleep (s : Proto.Req.State) (c : Nat) (h : (Proto.Req.getCtx s c).isSome = true) :
    ∀ q ∈ (Proto.Req.wake (Proto.Req.cancel s c) c).1.parkedSend, q.ctx ≠ c :=
  Proto.Req.cancel_wakes_every_send s c h

/-- … in particular when a Recv deadline fires while the request it waits for is still current -/
theorem req_recv_deadline_wakes_pending_send (s : Proto.Req.State) (evs : List (Nat × Proto.Ev)) (p : Proto.Req.Parked) (x : Proto.Req.Ctx)
    (hx : Proto.Req.getCtx s p.ctx = some x) (hstill : (x.reqID == p.rid) = true) :
    ∀ q ∈ (Proto.Req.deadlineFired (s, evs) true p).1.parkedSend, q.ctx ≠ p.ctx := by
  unfold Proto.Req.deadlineFired
  simp only [hx, hstill, if_true]
  apply Proto.Req.cancel_wakes_every_send
  show (Proto.Req.getCtx { s with parkedRecv := _ } p.ctx).isSome = true
  have : Proto.Req.getCtx { s with parkedRecv := s.parkedRecv.map (fun q => if q.call == p.call then { q with expired := true, deadline := none } else q) } p.ctx = Proto.Req.getCtx s p.ctx := rfl
  rw [this, hx]; rfl

/-- REQ, over all histories: a Send that is still parked is still wanted — it is the call whose message its context is
    trying to transmit (pending, carrying this call's request number, not abandoned by a cancel), on an open context,
    not expired.  No reachable state has a Send asleep that no event will wake (D17 was such a state). -/
theorem req_parked_send_is_still_wanted (s : Proto.Req.State) (hs : Proto.Req.Reach s) :
    ∀ p ∈ s.parkedSend, ∃ x, Proto.Req.getCtx s p.ctx = some x ∧ x.sendMsg.isSome = true ∧ x.sendFor = p.rid ∧
      x.sendAbort = false ∧ x.closed = false ∧ p.expired = false :=
  fun p hp => (Proto.Req.reach_N s hs).ok p hp (by simp)

/-- REQ, over all histories and all timings: a Send deadline overdue by more than the slack has been delivered — the
    call is parked in no outcome of the timer processing, whichever Recv deadlines and retry timers fire in the same
    instant and in whatever order ("never hanging beyond it", for the one protocol whose blocked calls share state) -/
theorem req_overdue_send_deadline_is_delivered (s : Proto.Req.State) (hs : Proto.Req.Reach s) (now : Nat)
    (p : Proto.Req.Parked) (hp : p ∈ s.parkedSend) (t : Proto.Req.Timer) (hd : p.deadline = some t)
    (hdue : t.tmax + t.period + Proto.Req.slack ≤ now) :
    ∀ st ∈ Proto.Req.timerOutcomes s now, ∀ q ∈ st.1.parkedSend, q.call ≠ p.call :=
  Proto.Req.overdue_send_is_woken s hs now p hp t hd hdue

end Props.C18
