/-
  C04 — REQ re-sends an unanswered request until a peer answers.  Property theorems only.
  Model: Model/Proto/Req.lean (retry timers constrained by the harness clock).
-/
import Model.Proto.ReqLemmas
import Model.Proto.ReqDead
import Model.Proto.ReqReady
import Model.Proto.ReqLive
namespace Props.C04
open Model Model.Proto

/-- a retransmission made by the scheduler carries the context's request id and exactly the retained request
    (byte-identical), and is handed to exactly one pipe: the head of the ready queue -/
theorem retransmission_is_retained_request (fuel : Nat) (arm : Nat × Nat) (s : Req.State) (c p : Nat) (sq rq : List Nat)
    (x : Req.Ctx) (pp : Req.Pipe) (hs : s.sendQ = c :: sq) (hr : s.readyQ = p :: rq)
    (hx : Req.getCtx s c = some x) (hp : Req.getPipe s p = some pp) (hidle : pp.hold = false)
    (hre : x.sendMsg = none) (body : Bytes) (hb : x.reqMsg = some body) :
    (p, Ev.tx p (Req.idBytes x.reqID) body) ∈ (Req.pump (fuel + 1) arm s).2 := by
  simp [Req.pump, Req.pumpStep, hs, hr, hx, hp, hidle, hre, hb]

/-- the retry timer never fires early: in one round, a context whose timer is not yet due is left untouched -/
theorem retry_not_early (now : Nat) (s : Req.State) (c : Req.Ctx) (t : Req.Timer)
    (hget : Req.getCtx s c.id = some c) (ht : c.timer = some t) (hearly : now < t.tmin + t.period) (hmono : t.tmin ≤ t.tmax) :
    Req.timerRound now [(s, [])] [c.id] = [(s, [])] := by
  have h1 : ¬ (t.tmin + t.period ≤ now) := by omega
  have h2 : ¬ (t.tmax + t.period + Req.slack ≤ now) := by omega
  simp [Req.timerRound, hget, ht, h1, h2]

/-- … and once overdue it has fired (the outcomes differ only in the order in which the pipes that transmitted
    re-entered the ready queue, see `ready_variants_differ_only_in_ready_order`) -/
theorem retry_when_overdue (now : Nat) (s : Req.State) (c : Req.Ctx) (t : Req.Timer)
    (hget : Req.getCtx s c.id = some c) (ht : c.timer = some t) (hdue : t.tmax + t.period + Req.slack ≤ now) :
    Req.timerRound now [(s, [])] [c.id] =
      Req.readyVariants ((Req.resend (Req.setCtx s c.id (fun y => { y with timer := none })) (t.tmin + t.period, now) c.id t.id).1,
        (Req.resend (Req.setCtx s c.id (fun y => { y with timer := none })) (t.tmin + t.period, now) c.id t.id).2) := by
  simp [Req.timerRound, hget, ht, hdue]

/-- the concurrency of the per-pipe sender goroutines is visible only in the order of the ready queue: every variant
    has the same events, the same transmission log, the same contexts and registrations, and the same ready pipes -/
theorem ready_variants_differ_only_in_ready_order (st : Req.State × List (Nat × Ev)) :
    ∀ r ∈ Req.readyVariants st, r.2 = st.2 ∧ r.1.txlog = st.1.txlog ∧ r.1.ctxs = st.1.ctxs ∧ r.1.ctxByID = st.1.ctxByID ∧
      r.1.sendQ = st.1.sendQ ∧ r.1.pipes = st.1.pipes ∧ r.1.readyQ.length = st.1.readyQ.length := by
  intro r hr
  unfold Req.readyVariants at hr
  simp only [] at hr
  split at hr
  · simp at hr; subst hr; simp
  · rename_i hc
    simp only [List.mem_map] at hr
    obtain ⟨m, hm, rfl⟩ := hr
    refine ⟨rfl, rfl, rfl, rfl, rfl, rfl, ?_⟩
    simp only [Bool.or_eq_true, decide_eq_true_eq, not_or, bne_iff_ne, ne_eq, Decidable.not_not] at hc
    have hl := Req.perms_length _ m hm
    conv => rhs; rw [hc.2]
    simp [hl]

/-- once answered, cancelled or closed a request is never transmitted again: a stale timer (or a stale loss
    notification) finds a different id, or no retained request, and does nothing -/
theorem stale_resend_is_noop (s : Req.State) (arm : Nat × Nat) (c id : Nat) (x : Req.Ctx)
    (hget : Req.getCtx s c = some x) (hstale : x.reqID ≠ id ∨ x.reqMsg = none) :
    Req.resend s arm c id = (s, []) := by
  unfold Req.resend
  simp only [hget]
  rcases hstale with h | h
  · have : (x.reqID == id) = false := by simpa using h
    simp [this]
  · simp [h]

/-- after a reply is stored the retained request is dropped and the timer disarmed (so `stale_resend_is_noop` applies),
    and cancel does the same -/
theorem cancel_drops_request (s : Req.State) (c : Nat) (x : Req.Ctx) (hget : Req.getCtx (Req.cancelSend s c) c = some x) :
    ∀ y, Req.getCtx (Req.cancel s c) c = some y → y.reqMsg = none ∧ y.timer = none ∧ y.reqID = 0 := by
  intro y hy
  unfold Req.cancel at hy
  simp only [hget] at hy
  rw [Req.getCtx_setCtx] at hy
  case hf => intro y; rfl
  have hx : Req.getCtx { Req.cancelSend s c with ctxByID := (Req.cancelSend s c).ctxByID.filter (fun e => !(e.1 == x.reqID && x.reqID != 0) && e.2 != c) } c = some x := hget
  rw [hx] at hy
  have hid := Req.getCtx_id _ _ _ hget
  simp only [Option.map_some, hid, if_true, Option.some.injEq] at hy
  subst hy
  exact ⟨rfl, rfl, rfl⟩

/-! ### over every history -/

/-- "byte-identical": in every reachable state, any two transmissions logged under one request number — the first one
    and every retry, on whichever pipes, after whatever timers, pipe losses, cancellations and replies — carried the
    same bytes (ghost log `txlog`: every hand-off of `socket.send` appends (pipe, number, body)) -/
theorem retransmissions_are_byte_identical (s : Req.State) (hs : Req.Reach s) :
    ∀ e1 ∈ s.txlog, ∀ e2 ∈ s.txlog, e1.2.1 = e2.2.1 → e1.2.2 = e2.2.2 :=
  Req.retransmissions_identical s hs

/-- … and they are the bytes the application gave to the Send call that was given that number (ghost log `sent`: every
    accepted Send appends (number, body); a number is given out once) -/
theorem transmissions_are_what_was_sent (s : Req.State) (hs : Req.Reach s) :
    (∀ e ∈ s.txlog, (e.2.1, e.2.2) ∈ s.sent) ∧ (∀ e1 ∈ s.sent, ∀ e2 ∈ s.sent, e1.1 = e2.1 → e1.2 = e2.2) :=
  Req.transmissions_are_what_was_sent s hs

/-- "once answered, cancelled or closed it is never transmitted again", over every continuation of every history: if no
    context is still working on request number k in state s (none has k as its current number without a stored reply),
    then in every state reachable from s the transmissions logged under k are exactly those logged in s -/
theorem retired_request_is_never_transmitted_again (s : Req.State) (hs : Req.Reach s) (k : Nat) (hnz : k ≠ 0) (hle : k ≤ s.nsent)
    (hdead : ∀ d x, Req.getCtx s d = some x → x.reqID = k → x.repMsg.isSome = true) :
    ∀ t, Req.ReachFrom s t → Req.txOf k t = Req.txOf k s :=
  Req.retired_request_is_never_transmitted_again s hs k hnz hle hdead

/-- the hypothesis of the previous theorem is what cancel establishes (a new Send on the context, a Send or Recv deadline,
    a lost pipe with retries disabled, closing the context or the socket all go through it): afterwards no context has
    the cancelled request's number as its current one -/
theorem cancel_retires_the_request (s : Req.State) (hs : Req.Reach s) (c : Nat) (x : Req.Ctx) (hx : Req.getCtx s c = some x)
    (hnz : x.reqID ≠ 0) :
    ∀ d y, Req.getCtx (Req.cancel s c) d = some y → y.reqID = x.reqID → y.repMsg.isSome = true :=
  Req.cancel_retires s (Req.reach_T s hs) c x hx hnz

/-- "to a ready peer as soon as …", in every reachable state: whenever an operation and the timers around it have been
    processed, no context is left waiting to transmit while a connected pipe is ready to take a message — the send queue
    or the ready queue is empty — and every pipe in the ready queue is connected (so a waiting request is handed over the
    moment a pipe becomes ready, and a ready pipe gets the next request the moment one is queued) -/
theorem no_request_waits_while_a_pipe_is_ready (s : Req.State) (hs : Req.Reach s) :
    (s.sendQ = [] ∨ s.readyQ = []) ∧ ∀ p ∈ s.readyQ, (Req.getPipe s p).isSome = true :=
  Req.no_request_waits_while_a_pipe_is_ready s hs

/-- "survives any sequence of peer failures", in every reachable state: a context that retains a request (transmitted,
    not yet answered, cancelled or closed) is never stranded — it is waiting in the send queue for a ready pipe
    (and by `no_request_waits_while_a_pipe_is_ready` no pipe is ready then), or the pipe that last carried the request
    is still connected, or its retry timer is running for this very request.  Whatever sequence of pipe losses, with
    retries enabled or disabled, timer firings, late replies, requests on other contexts and closes led here: there is
    always something that is still carrying the request or will transmit it again -/
theorem outstanding_request_is_never_stranded (s : Req.State) (hs : Req.Reach s) :
    ∀ d x, Req.getCtx s d = some x → x.reqMsg.isSome = true →
      d ∈ s.sendQ ∨ (∃ p, x.lastPipe = some p ∧ (Req.getPipe s p).isSome = true) ∨ (∃ t, x.timer = some t ∧ t.id = x.reqID) :=
  Req.outstanding_request_is_never_stranded s hs

example : Req.slack = 250 := rfl

end Props.C04
