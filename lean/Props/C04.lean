/-
  C04 — REQ re-sends an unanswered request until a peer answers.  Property theorems only.
  Model: Model/Proto/Req.lean (retry timers constrained by the harness clock).
-/
import Model.Proto.ReqLemmas
namespace Props.C04
open Model Model.Proto

/-- a retransmission made by the scheduler carries the context's request id and exactly the retained request
    (byte-identical), and is handed to exactly one pipe: the head of the ready queue -/
theorem retransmission_is_retained_request (fuel : Nat) (arm : Nat × Nat) (s : Req.State) (c p : Nat) (sq rq : List Nat)
    (x : Req.Ctx) (pp : Req.Pipe) (hs : s.sendQ = c :: sq) (hr : s.readyQ = p :: rq)
    (hx : Req.getCtx s c = some x) (hp : Req.getPipe s p = some pp) (hidle : pp.hold = false)
    (hre : x.sendMsg = none) (body : Bytes) (hb : x.reqMsg = some body) :
    (p, Ev.tx p (Req.idBytes x.reqID) body) ∈ (Req.pump (fuel + 1) arm s).2 := by
  simp [Req.pump, Req.pumpStep, hs, hr, hx, hp, hidle, hre, hb]

/-- the retry timer never fires early: in one round, a context whose timer is not yet due is left untouched -/
theorem retry_not_early (now : Nat) (s : Req.State) (c : Req.Ctx) (t : Req.Timer)
    (hget : Req.getCtx s c.id = some c) (ht : c.timer = some t) (hearly : now < t.tmin + t.period) (hmono : t.tmin ≤ t.tmax) :
    Req.timerRound now [(s, [])] [c.id] = [(s, [])] := by
  have h1 : ¬ (t.tmin + t.period ≤ now) := by omega
  have h2 : ¬ (t.tmax + t.period + Req.slack ≤ now) := by omega
  simp [Req.timerRound, hget, ht, h1, h2]

/-- … and once overdue it has fired (the outcomes differ only in the order in which the pipes that transmitted
    re-entered the ready queue, see `ready_variants_differ_only_in_ready_order`) -/
theorem retry_when_overdue (now : Nat) (s : Req.State) (c : Req.Ctx) (t : Req.Timer)
    (hget : Req.getCtx s c.id = some c) (ht : c.timer = some t) (hdue : t.tmax + t.period + Req.slack ≤ now) :
    Req.timerRound now [(s, [])] [c.id] =
      Req.readyVariants ((Req.resend (Req.setCtx s c.id (fun y => { y with timer := none })) (t.tmin + t.period, now) c.id t.id).1,
        (Req.resend (Req.setCtx s c.id (fun y => { y with timer := none })) (t.tmin + t.period, now) c.id t.id).2) := by
  simp [Req.timerRound, hget, ht, hdue]

/-- the concurrency of the per-pipe sender goroutines is visible only in the order of the ready queue: every variant
    has the same events, the same transmission log, the same contexts and registrations, and the same ready pipes -/
theorem ready_variants_differ_only_in_ready_order (st : Req.State × List (Nat × Ev)) :
    ∀ r ∈ Req.readyVariants st, r.2 = st.2 ∧ r.1.txlog = st.1.txlog ∧ r.1.ctxs = st.1.ctxs ∧ r.1.ctxByID = st.1.ctxByID ∧
      r.1.sendQ = st.1.sendQ ∧ r.1.pipes = st.1.pipes ∧ r.1.readyQ.length = st.1.readyQ.length := by
  intro r hr
  unfold Req.readyVariants at hr
  simp only [] at hr
  split at hr
  · simp at hr; subst hr; simp
  · rename_i hc
    simp only [List.mem_map] at hr
    obtain ⟨m, hm, rfl⟩ := hr
    refine ⟨rfl, rfl, rfl, rfl, rfl, rfl, ?_⟩
    simp only [Bool.or_eq_true, decide_eq_true_eq, not_or, bne_iff_ne, ne_eq, Decidable.not_not] at hc
    have hl := Req.perms_length _ m hm
    conv => rhs; rw [hc.2]
    simp [hl]

/-- once answered, cancelled or closed a request is never transmitted again: a stale timer (or a stale loss
    notification) finds a different id, or no retained request, and does nothing -/
theorem stale_resend_is_noop (s : Req.State) (arm : Nat × Nat) (c id : Nat) (x : Req.Ctx)
    (hget : Req.getCtx s c = some x) (hstale : x.reqID ≠ id ∨ x.reqMsg = none) :
    Req.resend s arm c id = (s, []) := by
  unfold Req.resend
  simp only [hget]
  rcases hstale with h | h
  · have : (x.reqID == id) = false := by simpa using h
    simp [this]
  · simp [h]

/-- after a reply is stored the retained request is dropped and the timer disarmed (so `stale_resend_is_noop` applies),
    and cancel does the same -/
theorem cancel_drops_request (s : Req.State) (c : Nat) (x : Req.Ctx) (hget : Req.getCtx (Req.cancelSend s c) c = some x) :
    ∀ y, Req.getCtx (Req.cancel s c) c = some y → y.reqMsg = none ∧ y.timer = none ∧ y.reqID = 0 := by
  intro y hy
  unfold Req.cancel at hy
  simp only [hget] at hy
  rw [Req.getCtx_setCtx] at hy
  case hf => intro y; rfl
  have hx : Req.getCtx { Req.cancelSend s c with ctxByID := (Req.cancelSend s c).ctxByID.filter (fun e => !(e.1 == x.reqID && x.reqID != 0) && e.2 != c) } c = some x := hget
  rw [hx] at hy
  have hid := Req.getCtx_id _ _ _ hget
  simp only [Option.map_some, hid, if_true, Option.some.injEq] at hy
  subst hy
  exact ⟨rfl, rfl, rfl⟩

example : Req.slack = 250 := rfl

end Props.C04
