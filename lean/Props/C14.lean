/-
  C14 — dialers reconnect after loss, back off as configured, stop when closed.  Property theorems only.
  Model: the dialer part of Model/Core.lean (delays tracked as the interval [cur, curHi] that the random factor allows).
-/
import Model.CoreLemmas
import Model.CoreDial
import Model.CoreLive
namespace Props.C14
open Model Model.Core

/-- back-off bounds: with no maximum the delay is constant; with a maximum ≥ the current delay the new delay
    stays within [current, max] (non-decreasing, capped) -/
theorem backoff_constant (x : DialerSt) (h : x.maxT = 0) : backoff x = x := by simp [backoff, h]

theorem backoff_bounds (x : DialerSt) (hmax : x.maxT ≠ 0) (hle : x.cur ≤ x.maxT) (hhi : x.cur ≤ x.curHi) :
    x.cur ≤ (backoff x).cur ∧ (backoff x).cur ≤ x.maxT ∧ (backoff x).curHi ≤ x.maxT ∧ (backoff x).cur ≤ (backoff x).curHi := by
  simp only [backoff, hmax, if_false]
  refine ⟨?_, Nat.min_le_left _ _, Nat.min_le_left _ _, ?_⟩
  · simp only [Nat.le_min]; exact ⟨hle, by omega⟩
  · simp only [Nat.le_min]
    refine ⟨Nat.min_le_left _ _, ?_⟩
    have : min x.maxT (x.cur * 11 / 10) ≤ x.cur * 11 / 10 := Nat.min_le_right _ _
    omega

/-- the delay returns to the initial value after a successful attach -/
theorem reset_on_attach (s : State) (mode : String) (x : DialerSt) (hget : getDialer s x.d = some x) :
    ∀ y, getDialer (setDialer (addPipe s (some x.d) mode).1 x.d (fun y => { y with dialing := none, cur := y.minT, curHi := y.minT })) x.d = some y →
      y.cur = y.minT ∧ y.curHi = y.minT := by
  intro y hy
  rw [getDialer_setDialer] at hy
  case hf => intro z; rfl
  have hsame : getDialer (addPipe s (some x.d) mode).1 x.d = getDialer s x.d := by
    apply getDialer_of_fields
    unfold addPipe
    simp only []
    split
    · rfl
    · rfl
    · split <;> rfl
  rw [hsame, hget] at hy
  simp only [Option.map_some, if_true, Option.some.injEq] at hy
  subst hy
  exact ⟨rfl, rfl⟩

/-- no attempt is started for a closed dialer: its redial timer finds it closed and does nothing -/
theorem no_attempt_after_close (s : State) (d : Nat) (x : DialerSt) (hget : getDialer s d = some x) (hc : x.closed = true) :
    (redial s d).2 = [] := by
  simp [redial, hget, hc]

/-- a redial timer never fires before it is due (the delay armed after a failure or a lost connection is at least
    the current reconnect time, because it is due no earlier than `tprev + cur`) -/
theorem redial_not_early (s : State) (now : Nat) (x : DialerSt) (t : Timer) (hone : s.dialers = [x])
    (ht : x.timer = some t) (hearly : now < t.tmin) (hmono : t.tmin ≤ t.tmax) :
    timerOutcomes s now = [(s, [])] := by
  have hg : getDialer s x.d = some x := by simp [getDialer, hone]
  have h1 : ¬ (t.tmin ≤ now) := by omega
  have h2 : ¬ (t.tmax + Core.slack ≤ now) := by omega
  simp [timerOutcomes, hone, hg, ht, h1, h2]

/-- a started, open dialer keeps trying: a failed attempt (in redial mode) and a lost connection both leave a
    redial timer armed -/
theorem keeps_trying_after_loss (s : State) (now : Nat) (x : DialerSt) (hget : getDialer s x.d = some x) :
    ∀ y, getDialer (pipeGone s (some x.d) now) x.d = some y → y.timer.isSome = true := by
  intro y hy
  simp only [pipeGone] at hy
  rw [getDialer_setDialer] at hy
  case hf => intro z; rfl
  rw [hget] at hy
  simp only [Option.map_some, if_true, Option.some.injEq] at hy
  subst hy
  rfl

/-! ### over every history -/

/-- "back off as configured", in every reachable state — any interleaving of Dial calls, attempt results, lost and
    refused connections, timers and closes: the reconnect delay of every active dialer lies inside the configured
    window.  With no maximum it is the reconnect time; with a maximum it lies between the smaller and the larger of the
    reconnect time and the maximum (`cur ≤ curHi` are the ends of the interval the random factor leaves the delay in) -/
theorem delay_always_within_window (s : State) (hs : Reach s) :
    ∀ x ∈ s.dialers, x.active = true → lo x ≤ x.cur ∧ x.cur ≤ x.curHi ∧ x.curHi ≤ hi x :=
  fun x hx => reach_dialOK s hs x hx

/-- "stop when closed", over every continuation of every history: a dialer closed in state s (by Dialer.Close or by
    closing the socket) is, in every state reachable from s, still closed — so every redial timer that fires later
    starts no attempt and every later Dial is refused -/
theorem closed_dialer_never_attempts_again (s : State) (hs : Reach s) (d : Nat) (hc : ClosedAt d s) :
    ∀ t, ReachFrom s t → ClosedAt d t ∧ (redial t d).2 = [] ∧
      (∀ now ds call r, Core.natOf ds = d → r ∈ core t now ["dial", ds, call] → ∀ e ∈ r.2, ∀ k, e ≠ CEv.attempt k) := by
  intro t ht
  have hcl := closed_stays_closed s hs d hc t ht
  obtain ⟨x, hx, hxc⟩ := hcl
  refine ⟨⟨x, hx, hxc⟩, no_attempt_after_close t d x hx hxc, ?_⟩
  intro now ds call r hn hr e he k
  simp only [core, hn, hx] at hr
  split at hr
  · simp at hr; subst hr; simp at he; subst he; intro h; cases h
  · simp [hxc] at hr; subst hr; simp at he; subst he; intro h; cases h

/-- "reconnect after loss", in every reachable state: a started dialer is never stranded — an active, open dialer has
    an attempt in progress, or its redial timer armed, or a connection of its own attached.  Whatever sequence of failed
    attempts, refused or rejected connections, hooks closing pipes during Attaching, lost connections and timers led
    here, something will dial again or the connection exists (what is left to the runtime: timers do fire) -/
theorem started_dialer_is_never_stranded (s : State) (hs : Reach s) :
    ∀ d x, getDialer s d = some x → x.active = true → x.closed = false →
      x.dialing.isSome = true ∨ x.timer.isSome = true ∨ ∃ p ∈ s.pipes, p.dialer = some d :=
  fun d x hx ha hc => reach_DL s hs d x hx (by intro e; cases e) ha hc

example : ∃ x : DialerSt, x.active = true ∧ Core.lo x = 20 ∧ Core.hi x = 60 :=
  ⟨{ d := 1, asynch := true, active := true, minT := 20, maxT := 60 }, rfl, by decide, by decide⟩

example : (backoff { d := 1, asynch := true, minT := 20, maxT := 60, cur := 20, curHi := 20 }).cur = 22 := by decide

end Props.C14
