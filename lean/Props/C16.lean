/-
  C16 — a hostile or broken peer cannot crash, stall or pollute a socket (byte-level part).
  Property theorems only.
-/
import Model.WireLemmas
import Model.HopLemmas
namespace Props.C16
open Model Model.Wire

/-- decode is total, and a delivered payload with the unread remainder is a suffix of what
    the peer sent after the 8 (9 on IPC) framing bytes: nothing is invented -/
theorem decode_nothing_invented (g : GExpr) (ipc : Bool) (maxrx : Nat) (s p rest : Bytes)
    (h : decode g ipc maxrx s = .msg p rest) :
    ∃ pre, s = pre ++ p ++ rest ∧ pre.length = (if ipc then 9 else 8) := by
  cases ipc
  · simp only [decode, Bool.false_eq_true, if_false, Bool.false_and, Bool.false_or] at h
    split at h
    · simp at h
    · rename_i hshort
      split at h
      · simp at h
      · split at h
        · simp at h
        · simp only [Dec.msg.injEq] at h
          obtain ⟨rfl, rfl⟩ := h
          refine ⟨s.take 8, ?_, ?_⟩
          · rw [List.append_assoc, List.take_append_drop, List.take_append_drop]
          · simp at hshort ⊢; omega
  · simp only [decode, if_true, Bool.true_and] at h
    split at h
    · simp at h
    · rename_i hshort
      split at h
      · simp at h
      · split at h
        · simp at h
        · simp only [Dec.msg.injEq] at h
          obtain ⟨rfl, rfl⟩ := h
          refine ⟨s.take 9, ?_, ?_⟩
          · have : s.drop 9 = (s.drop 1).drop 8 := by simp
            rw [List.append_assoc, List.take_append_drop]
            rw [← this, List.take_append_drop]
          · simp at hshort ⊢; omega

/-- delivered ⇔ the announced size is non-negative and within the limit (limit exactness):
    with a well-formed guard, an announced size that is negative or above the limit is
    refused whatever follows, i.e. before reading or allocating the announced amount -/
theorem limit_exact_refuse (g : GExpr) (hg : GuardOK g) (maxrx : Nat) (lenBytes rest : Bytes)
    (hl : lenBytes.length = 8)
    (hbad : asInt64 (beDec lenBytes) < 0 ∨ (0 < maxrx ∧ (maxrx : Int) < asInt64 (beDec lenBytes))) :
    decode g false maxrx (lenBytes ++ rest) = .tooLong := by
  unfold decode
  have ht : (lenBytes ++ rest).take 8 = lenBytes := by rw [List.take_left' hl]
  have hrej : rejects g (asInt64 (beDec lenBytes)) maxrx = true := by
    rw [hg]; unfold rejectSpec; simp only [decide_eq_true_eq]; omega
  simp [ht, hrej, hl]

/-- a length field with the top bit set is a negative int64 -/
theorem top_bit_negative (lenBytes : Bytes) (hl : lenBytes.length = 8) (h : 2 ^ 63 ≤ beDec lenBytes) :
    asInt64 (beDec lenBytes) < 0 := by
  have := beDec_lt lenBytes
  rw [hl] at this
  exact asInt64_neg_of_ge h (by simpa using this)

/-- pattern level: whatever body arrives, the routing-header parser either drops it or splits
    it without inventing or losing a byte (all indices in bounds by construction) -/
theorem parse_total (P : HopSite) (ttl : Nat) (hdr0 body h b : Bytes)
    (hp : Hop.recv P ttl hdr0 body = some (h, b)) : h ++ b = hdr0 ++ body :=
  Hop.parseBT_conserves P ttl body P.init hdr0 h b hp

example : decode (.lt (.var "sz") (.lit 0)) false 0 ([0xff,0,0,0,0,0,0,0] ++ [1,2,3]) = .tooLong := by decide

end Props.C16
