/-
  C03 — REQ returns only the reply to its current request.  Property theorems only.
  Model: Model/Proto/Req.lean; the history invariant is proved in Model/Proto/ReqInv.lean.
-/
import Model.Proto.ReqInv
import Model.Proto.ReqOnce
import Model.Proto.ReqGone
namespace Props.C03
open Model Model.Proto

/-- a reply whose id is not registered — a reply to an earlier, cancelled, timed-out or already answered request,
    another socket's id, an id without the request bit — or whose body is too short to carry an id, is dropped:
    no context changes, nothing is delivered, no call returns (only the ready-queue order may change) -/
theorem stale_foreign_malformed_dropped (s : Req.State) (now : Nat) (p b : String)
    (hp : (Req.getPipe s (natOf p)).isSome = true)
    (h : (bytesOf b).length < 4 ∨ s.ctxByID.find? (fun e => Req.enc e.1 == beDec ((bytesOf b).take 4)) = none) :
    ∃ q, Req.core s now ["inject", p, b] = [({ s with readyQ := q }, [], [])] := by
  have hp' : (Req.getPipe s (natOf p)).isNone = false := by
    cases hh : Req.getPipe s (natOf p) <;> simp_all
  rcases h with h | h
  · exact ⟨s.readyQ, by simp [Req.core, hp', h]⟩
  · by_cases hl : (bytesOf b).length < 4
    · exact ⟨s.readyQ, by simp [Req.core, hp', hl]⟩
    · exact ⟨Req.swapFront s.readyQ (natOf p), by simp [Req.core, hp', hl, h]⟩

/-- an id without the request bit never matches a registered request -/
theorem no_request_bit_never_matches (rid id : Nat) (h : id < 0x80000000) : (Req.enc rid == id) = false := by
  simp only [Req.enc, beq_eq_false_iff_ne, ne_eq]; omega

/-- each request yields at most one delivered reply: storing a reply unregisters the id, so a duplicate
    (or any later reply with that id) finds nothing registered -/
theorem at_most_one_reply (s : Req.State) (now : Nat) (p b : String) (rid c : Nat)
    (hp : (Req.getPipe s (natOf p)).isSome = true) (hl : ¬ (bytesOf b).length < 4)
    (hfind : ({ s with readyQ := Req.swapFront s.readyQ (natOf p) } : Req.State).ctxByID.find?
        (fun e => Req.enc e.1 == beDec ((bytesOf b).take 4)) = some (rid, c)) :
    ∀ r ∈ Req.core s now ["inject", p, b], ∀ e ∈ r.1.ctxByID, e.1 ≠ rid := by
  have hp' : (Req.getPipe s (natOf p)).isNone = false := by
    cases hh : Req.getPipe s (natOf p) <;> simp_all
  intro r hr e he
  simp only [Req.core, hp', hl] at hr
  simp only [Bool.false_eq_true, if_false] at hr
  rw [hfind] at hr
  simp only [List.mem_singleton] at hr
  subst hr
  have he' := Req.wake_ctxByID _ _ e he
  simp only [Req.setCtx_ctxByID, Req.cancelSend_ctxByID, List.mem_filter, bne_iff_ne, ne_eq] at he'
  exact he'.2

/-- Recv with no request outstanding fails with a protocol-state error, at once and without any effect -/
theorem recv_without_request (s : Req.State) (now : Nat) (call ctx : String) (c : Req.Ctx)
    (hget : Req.getCtx s (natOf ctx) = some c) (hopen : s.closed = false ∧ c.closed = false)
    (hpeers : ¬ (c.failNoPeers = true ∧ s.pipes.isEmpty = true)) (hnone : c.reqID = 0) :
    Req.core s now ["recv", call, ctx] = [(s, [], [(natOf call, Ev.retErr (natOf call) "protostate")])] := by
  have : (c.failNoPeers && s.pipes.isEmpty) = false := by
    cases h1 : c.failNoPeers <;> cases h2 : s.pipes.isEmpty <;> simp_all
  simp [Req.core, hget, hopen.1, hopen.2, this, hnone]

/-- **recv_is_current** — in every reachable state (any history of Sends and Recvs on any number of contexts, replies
    of any content arriving on any pipe — current, stale, cancelled, answered, another context's, never issued, without
    the request bit, too short, duplicated —, pipes added, lost, slow or failing, retry and deadline timers firing at any
    admissible time, contexts and the socket closed at any point) every reply that Recv has returned carried the id of
    the context's request at that moment: the ghost record `delivered` holds only entries (context, id carried by the
    reply, id of the context's request) with equal ids -/
theorem recv_is_current (s : Req.State) (h : Req.Reach s) : ∀ d ∈ s.delivered, d.2.1 = d.2.2 :=
  (Req.reach_J s h).deliv

/-- … and, in every reachable state, a reply stored for a context carries the id of that context's current request, and
    every registered id is the current request of the context it is registered for -/
theorem stored_and_registered_are_current (s : Req.State) (h : Req.Reach s) :
    (∀ y ∈ s.ctxs, ∀ m, y.repMsg = some m → beDec m.1 = Req.enc y.reqID) ∧
    (∀ e ∈ s.ctxByID, ∀ y ∈ s.ctxs, y.id = e.2 → y.reqID = e.1) :=
  ⟨(Req.reach_J s h).rep, (Req.reach_J s h).reg⟩

/-- the id carried by a reply that gets stored is the registered one -/
theorem reply_stored_only_for_registered (s : Req.State) (now : Nat) (p b : String) (rid c : Nat)
    (hp : (Req.getPipe s (natOf p)).isSome = true) (hl : ¬ (bytesOf b).length < 4)
    (hfind : ({ s with readyQ := Req.swapFront s.readyQ (natOf p) } : Req.State).ctxByID.find?
        (fun e => Req.enc e.1 == beDec ((bytesOf b).take 4)) = some (rid, c)) :
    beDec ((bytesOf b).take 4) = Req.enc rid := by
  have := List.find?_some hfind
  simp only [beq_iff_eq] at this
  exact this.symm

example : Req.init.ctxByID = [] := rfl

/-- **each request yields at most one delivered reply**, in every reachable state — any history of Sends and Recvs on any
    contexts, any number of duplicate, late, retried, stale or foreign replies on any pipes, pipes lost and added, timers,
    closes: the list of the requests (by number) that the replies returned by Recv were delivered for has no duplicates,
    and every entry is a request that was really made (ghost list `deliveredFor`, appended at the one place of the model
    where Recv returns a message: `wakeRecv_logs_what_it_returns`) -/
theorem at_most_one_reply_per_request (s : Req.State) (h : Req.Reach s) :
    s.deliveredFor.Nodup ∧ ∀ k ∈ s.deliveredFor, k ≠ 0 ∧ k ≤ s.nsent :=
  Req.at_most_one_reply_per_request s h

/-- … and once a reply has been returned for a request, no context is working on that request any more (so the retry
    timer, a lost pipe or a late reply cannot revive it: `Props.C04.retired_request_is_never_transmitted_again`) -/
theorem delivered_request_is_finished (s : Req.State) (h : Req.Reach s) :
    ∀ k ∈ s.deliveredFor, ∀ d x, Req.getCtx s d = some x → x.reqID ≠ k :=
  (Req.reach_A s h).done

/-- **replies to earlier, cancelled, timed-out or answered requests are never delivered**, over every continuation of every
    history: once request number k is no context's current request (a newer Send replaced it, a deadline expired, its
    pipe was lost with retries disabled, its context or the socket was closed, or its reply was returned), the replies
    returned for k are, in every state reachable from there, exactly what they were — whatever replies carrying its id
    arrive later, on whichever pipes, however often -/
theorem abandoned_request_never_delivers (s : Req.State) (k : Nat) (hnz : k ≠ 0) (hle : k ≤ s.nsent)
    (hgone : ∀ d x, Req.getCtx s d = some x → x.reqID ≠ k) :
    ∀ t, Req.ReachFrom s t → Req.repliesFor k t = Req.repliesFor k s :=
  Req.abandoned_request_never_delivers s k hnz hle hgone

/-- … and cancel (the common path of all those events) puts the context's request into that condition -/
theorem cancel_abandons_the_request (s : Req.State) (hs : Req.Reach s) (c : Nat) (x : Req.Ctx) (hx : Req.getCtx s c = some x)
    (hnz : x.reqID ≠ 0) : ∀ d y, Req.getCtx (Req.cancel s c) d = some y → y.reqID ≠ x.reqID :=
  Req.cancel_abandons s (Req.reach_T s hs) c x hx hnz

end Props.C03
