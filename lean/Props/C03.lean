/-
  C03 — REQ returns only the reply to its current request.  Property theorems only.
  Model: Model/Proto/Req.lean.  (The full history invariant `recv_is_current` is kept below as stated and as
  proved so far; see the note at `recv_is_current_partial`.)
-/
import Model.Proto.ReqLemmas
namespace Props.C03
open Model Model.Proto

/-- a reply whose id is not registered — a reply to an earlier, cancelled, timed-out or already answered request,
    another socket's id, an id without the request bit — or whose body is too short to carry an id, is dropped:
    no context changes, nothing is delivered, no call returns (only the ready-queue order may change) -/
theorem stale_foreign_malformed_dropped (s : Req.State) (now : Nat) (p b : String)
    (hp : (Req.getPipe s (natOf p)).isSome = true)
    (h : (bytesOf b).length < 4 ∨ s.ctxByID.find? (fun e => Req.enc e.1 == beDec ((bytesOf b).take 4)) = none) :
    ∃ q, Req.core s now ["inject", p, b] = [({ s with readyQ := q }, [], [])] := by
  have hp' : (Req.getPipe s (natOf p)).isNone = false := by
    cases hh : Req.getPipe s (natOf p) <;> simp_all
  rcases h with h | h
  · exact ⟨s.readyQ, by simp [Req.core, hp', h]⟩
  · by_cases hl : (bytesOf b).length < 4
    · exact ⟨s.readyQ, by simp [Req.core, hp', hl]⟩
    · exact ⟨Req.swapFront s.readyQ (natOf p), by simp [Req.core, hp', hl, h]⟩

/-- an id without the request bit never matches a registered request -/
theorem no_request_bit_never_matches (rid id : Nat) (h : id < 0x80000000) : (Req.enc rid == id) = false := by
  simp only [Req.enc, beq_eq_false_iff_ne, ne_eq]; omega

/-- each request yields at most one delivered reply: storing a reply unregisters the id, so a duplicate
    (or any later reply with that id) finds nothing registered -/
theorem at_most_one_reply (s : Req.State) (now : Nat) (p b : String) (rid c : Nat)
    (hp : (Req.getPipe s (natOf p)).isSome = true) (hl : ¬ (bytesOf b).length < 4)
    (hfind : ({ s with readyQ := Req.swapFront s.readyQ (natOf p) } : Req.State).ctxByID.find?
        (fun e => Req.enc e.1 == beDec ((bytesOf b).take 4)) = some (rid, c)) :
    ∀ r ∈ Req.core s now ["inject", p, b], ∀ e ∈ r.1.ctxByID, e.1 ≠ rid := by
  have hp' : (Req.getPipe s (natOf p)).isNone = false := by
    cases hh : Req.getPipe s (natOf p) <;> simp_all
  intro r hr e he
  simp only [Req.core, hp', hl] at hr
  simp only [Bool.false_eq_true, if_false] at hr
  rw [hfind] at hr
  simp only [List.mem_singleton] at hr
  subst hr
  simp only [Req.wake_ctxByID, Req.setCtx_ctxByID, Req.cancelSend_ctxByID, List.mem_filter, bne_iff_ne, ne_eq] at he
  exact he.2

/-- Recv with no request outstanding fails with a protocol-state error, at once and without any effect -/
theorem recv_without_request (s : Req.State) (now : Nat) (call ctx : String) (c : Req.Ctx)
    (hget : Req.getCtx s (natOf ctx) = some c) (hopen : s.closed = false ∧ c.closed = false)
    (hpeers : ¬ (c.failNoPeers = true ∧ s.pipes.isEmpty = true)) (hnone : c.reqID = 0) :
    Req.core s now ["recv", call, ctx] = [(s, [], [(natOf call, Ev.retErr (natOf call) "protostate")])] := by
  have : (c.failNoPeers && s.pipes.isEmpty) = false := by
    cases h1 : c.failNoPeers <;> cases h2 : s.pipes.isEmpty <;> simp_all
  simp [Req.core, hget, hopen.1, hopen.2, this, hnone]

/-- `recv_is_current` (full statement, NOT yet proved as an invariant over all histories): in every reachable state
    every entry (ctx, id of the delivered reply, id of the context's request at that moment) of the ghost record
    `delivered` has equal ids.  What is proved is the step-level content (`stale_foreign_malformed_dropped`,
    `at_most_one_reply`, `reply_stored_only_for_registered`); the history-level statement is validated on every driven
    history by the correspondence runs (the driver replays `delivered`) and by the independent oracle. -/
theorem reply_stored_only_for_registered (s : Req.State) (now : Nat) (p b : String) (rid c : Nat)
    (hp : (Req.getPipe s (natOf p)).isSome = true) (hl : ¬ (bytesOf b).length < 4)
    (hfind : ({ s with readyQ := Req.swapFront s.readyQ (natOf p) } : Req.State).ctxByID.find?
        (fun e => Req.enc e.1 == beDec ((bytesOf b).take 4)) = some (rid, c)) :
    beDec ((bytesOf b).take 4) = Req.enc rid := by
  have := List.find?_some hfind
  simp only [beq_iff_eq] at this
  exact this.symm

example : Req.init.ctxByID = [] := rfl

end Props.C03
