/-
  C07 — SURVEYOR delivers only responses to its current, unexpired survey.  Property theorems only.
  Model: Model/Proto/Surveyor.lean (timers: never early, fired once overdue), with the ghost record `delivered`:
  (context, 32-bit id carried by the delivered response, 32-bit id of the context's survey when that Recv began).
-/
import Model.Proto.SurveyorLemmas
import Model.Proto.SurveyorGone
import Model.Proto.SurveyorOrder
import Model.Proto.MeshLemmas
namespace Props.C07
open Model Model.Proto

/-- in every reachable state — any history of surveys, receives, closes on any contexts, any arrival order of
    current / stale / foreign / malformed responses from any respondents, any timer firings allowed by the clock —
    every response handed to the application answered the survey that was its context's current one when that
    Recv began -/
theorem recv_only_current (s : Surveyor.State) (h : Surveyor.Reach s) : ∀ d ∈ s.delivered, d.2.1 = d.2.2 :=
  (Surveyor.reach_inv s h).2

/-- a response whose id names no registered survey (earlier, expired, cancelled, never issued, or without
    the request bit) or that is too short to carry an id changes nothing and produces no event -/
theorem stale_foreign_malformed_dropped (s : Surveyor.State) (now : Nat) (p b : String)
    (h : (bytesOf b).length < 4 ∨ s.surveys.find? (fun v => Surveyor.enc v.id == beDec ((bytesOf b).take 4)) = none) :
    Surveyor.core s now ["inject", p, b] = [(s, [], [])] := by
  rcases h with h | h
  · simp [Surveyor.core, h]
  · by_cases hl : (bytesOf b).length < 4
    · simp [Surveyor.core, hl]
    · simp [Surveyor.core, hl, h]

/-- an id without the request bit never names a survey -/
theorem no_request_bit_never_matches (v : Surveyor.Survey) (id : Nat) (h : id < 0x80000000) : (Surveyor.enc v.id == id) = false := by
  simp only [Surveyor.enc, beq_eq_false_iff_ne, ne_eq]
  omega

/-- Recv with no survey in progress (never started, expired, or abandoned) fails at once with a
    protocol-state error and does not block -/
theorem no_survey_protostate (s : Surveyor.State) (now : Nat) (call ctx : String) (c : Surveyor.Ctx)
    (hc : s.closed = false) (hget : Surveyor.getCtx s (natOf ctx) = some c) (hs : c.surv = none) :
    Surveyor.core s now ["recv", call, ctx] = [(s, [], [(natOf call, Ev.retErr (natOf call) "protostate")])] := by
  simp [Surveyor.core, hc, hget, hs]

/-- starting a new survey abandons the previous one: it is no longer registered afterwards -/
theorem cancel_unregisters (s : Surveyor.State) (id : Nat) (e : String) :
    ∀ v ∈ (Surveyor.cancel s id e).1.surveys, v.id ≠ id := by
  intro v hv
  simp only [Surveyor.cancel, List.mem_filter, bne_iff_ne, ne_eq] at hv
  exact hv.2

/-- every connected respondent whose sender is idle is sent the survey, with the survey's id as header -/
theorem broadcast_all (ps : List OutPipe) (n : Nat) (body : Bytes) (p : OutPipe) (hp : p ∈ ps)
    (hi : p.inflight = none) (hh : p.hold = false) :
    (p.id, Ev.tx p.id (Surveyor.idBytes n) body) ∈ (fanout ps (fun _ => true) (Surveyor.idBytes n, body)).2 :=
  fanout_idle ps _ _ p hp rfl hi hh

/-- the expiry timer never fires early, and a survey time of zero (no limit) never fires:
    if a state after the timers were processed lacks a survey that was registered, the survey was due -/
theorem expire_not_early (s : Surveyor.State) (now : Nat) (v : Surveyor.Survey)
    (hnot : v.expire = 0 ∨ now < v.tmin + v.expire) (hmono : v.tmin ≤ v.tmax) (hone : s.surveys = [v]) :
    Surveyor.expireOutcomes s now = [(s, [])] := by
  simp only [Surveyor.expireOutcomes, hone, List.foldl_cons, List.foldl_nil, List.flatMap_cons, List.flatMap_nil, List.append_nil]
  rcases hnot with h0 | hlt
  · simp [h0]
  · have h1 : ¬ (v.tmin + v.expire ≤ now) := by omega
    have h2 : ¬ (v.tmax + v.expire + Surveyor.slack ≤ now) := by omega
    simp [h1, h2]

/-- … and once it is overdue it has fired: the survey is gone and a Recv blocked on it was released -/
theorem expire_when_overdue (s : Surveyor.State) (now : Nat) (v : Surveyor.Survey)
    (hpos : v.expire ≠ 0) (hdue : v.tmax + v.expire + Surveyor.slack ≤ now) (hone : s.surveys = [v]) :
    Surveyor.expireOutcomes s now = [((Surveyor.cancel s v.id "protostate").1, (Surveyor.cancel s v.id "protostate").2)] := by
  simp only [Surveyor.expireOutcomes, hone, List.foldl_cons, List.foldl_nil, List.flatMap_cons, List.flatMap_nil, List.append_nil]
  simp [hpos, hdue]

/-! ### over every continuation of every history -/

/-- "unexpired": once survey number k is no longer registered in state s — it expired, a newer survey on its context
    replaced it, its context or the socket was closed — and no Recv is blocked on it, then in every state reachable from
    s the responses delivered for k are exactly those delivered in s: however late its responses arrive, whichever
    surveys are started meanwhile, nothing more is delivered for it (ghost list `deliveredFor`: the survey number each
    delivered response was delivered for) -/
theorem gone_survey_never_delivers (s : Surveyor.State) (k : Nat) (hle : k ≤ s.nsent) (hunreg : ∀ v ∈ s.surveys, v.id ≠ k)
    (hunparked : ∀ p ∈ s.parked, p.2.2 ≠ k) :
    ∀ t, Surveyor.ReachFrom s t → Surveyor.forSurvey k t = Surveyor.forSurvey k s :=
  Surveyor.gone_survey_never_delivers s k hle hunreg hunparked

/-- … and that is the condition cancel leaves survey `id` in (expiry, replacement and context close all go through it) -/
theorem cancel_makes_gone (s : Surveyor.State) (id : Nat) (e : String) :
    (∀ v ∈ (Surveyor.cancel s id e).1.surveys, v.id ≠ id) ∧ (∀ p ∈ (Surveyor.cancel s id e).1.parked, p.2.2 ≠ id) :=
  Surveyor.cancel_makes_gone s id e

/-- the ghost list is tied to the one `recv_only_current` speaks about: entry by entry it names the survey whose 32-bit
    id the delivered response was checked against -/
theorem delivered_for_names_the_survey (s : Surveyor.State) (h : Surveyor.Reach s) :
    s.delivered.map (·.2.2) = s.deliveredFor.map Surveyor.enc :=
  Surveyor.reach_tied s h

/-- the sending side, over every history: for every respondent, the surveys handed to its pipe — completed, in progress,
    queued — are, in order, part of what was offered to that pipe: each survey goes to a respondent at most once -/
theorem per_respondent_order (s : Surveyor.State) (h : Surveyor.Reach s) :
    ∀ p ∈ s.pipes, (p.sent ++ p.inflight.toList ++ p.q).Sublist p.offered :=
  Surveyor.per_respondent_order s h

example : Surveyor.Inv Surveyor.init := by simp [Surveyor.Inv, Surveyor.init]

end Props.C07
