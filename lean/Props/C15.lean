/-
  C15 — bytes on the wire follow the SP stream mapping.  Property theorems only.
-/
import Model.WireLemmas
namespace Props.C15
open Model Model.Wire

theorem beDec_pair_eq (a b : UInt8) (n : Nat) (hn : n < 65536) :
    beDec [a, b] = n ↔ [a, b] = beEnc 2 n := by
  constructor
  · intro h
    have ha := UInt8.toNat_lt a
    have hb := UInt8.toNat_lt b
    simp [beDec] at h
    simp [beEnc]
    constructor
    · apply UInt8.toNat_inj.mp; simp; omega
    · apply UInt8.toNat_inj.mp; simp; omega
  · intro h; rw [h]; exact beDec_beEnc_of_lt 2 n (by simpa using hn)

/-- a peer's 8-byte header is accepted if and only if it is exactly 00 'S' 'P' 00 <peer, big-endian> 00 00:
    every single-byte (and every other) deviation is rejected -/
theorem accept_iff_exact (cs : List (GExpr × String)) (hcs : HsChecksOK cs) (peer : Nat) (hp : peer < 65536) (h : Bytes) :
    checkHeaderGen cs peer h = "ok" ↔ h = header peer := by
  unfold checkHeaderGen header
  match h with
  | [z, s, p, v, p1, p0, r1, r0] =>
    simp only
    rw [hcs]
    unfold hsSpec
    have hz := UInt8.toNat_lt z
    have hr : beDec [r1, r0] = 0 ↔ [r1, r0] = beEnc 2 0 := beDec_pair_eq r1 r0 0 (by omega)
    have hpp : beDec [p1, p0] = peer ↔ [p1, p0] = beEnc 2 peer := beDec_pair_eq p1 p0 peer hp
    constructor
    · intro hh
      split at hh
      · simp at hh
      · rename_i h1
        split at hh
        · simp at hh
        · rename_i h2
          split at hh
          · simp at hh
          · rename_i h3
            simp only [not_or, Decidable.not_not] at h1 h2 h3
            obtain ⟨hz0, hs0, hp0, hr0⟩ := h1
            have e1 : z = 0 := by apply UInt8.toNat_inj.mp; simp; omega
            have e2 : s = 0x53 := by apply UInt8.toNat_inj.mp; simp; omega
            have e3 : p = 0x50 := by apply UInt8.toNat_inj.mp; simp; omega
            have e4 : v = 0 := by apply UInt8.toNat_inj.mp; simp; omega
            have e5 := hpp.mp (by omega)
            have e6 := hr.mp (by omega)
            subst e1 e2 e3 e4
            simp [beEnc] at e5 e6 ⊢
            exact ⟨e5.1, e5.2, e6.1, e6.2⟩
    · intro hh
      simp [beEnc] at hh
      obtain ⟨rfl, rfl, rfl, rfl, rfl, rfl, rfl, rfl⟩ := hh
      simp [beDec]
      omega
  | [] | [_] | [_,_] | [_,_,_] | [_,_,_,_] | [_,_,_,_,_] | [_,_,_,_,_,_] | [_,_,_,_,_,_,_] => simp [beEnc]
  | _ :: _ :: _ :: _ :: _ :: _ :: _ :: _ :: _ :: _ => simp [beEnc]

/-- every frame is an 8-byte big-endian length then exactly that many bytes (header then body),
    preceded on IPC by one byte 0x01 -/
theorem frame_layout (ipc : Bool) (m : Msg) :
    encode ipc m = (if ipc then [1] else []) ++ beEnc 8 (m.hdr.length + m.body.length) ++ m.hdr ++ m.body ∧
    (encode ipc m).length = (if ipc then 1 else 0) + 8 + (m.hdr.length + m.body.length) := by
  refine ⟨rfl, ?_⟩
  rw [encode_length]; simp [Msg.payload]

/-- the header this side writes for protocol number `self` -/
theorem header_layout (self : Nat) :
    header self = [0, 0x53, 0x50, 0, UInt8.ofNat (self / 256 % 256), UInt8.ofNat (self % 256), 0, 0] := by
  simp [header, beEnc]

example : checkHeaderGen [] 49 (header 49) = "ok" := by decide

end Props.C15
