/-
  C12 — a failed operation leaves the object usable; nothing stays locked.
  Property theorems only.
  (1) Static: Model/IR.lean's checker with its soundness theorem, applied by Obl/IR.lean to the IR regenerated from
      every function of the library on every run.
  (2) Retry: the core machine (Model/Core.lean) — a failed Listen or synchronous Dial leaves the object as it was, so
      the same call can be issued again; rejected or lost connections leave listeners accepting and dialers redialling.
  (3) Executed: the error-injection catalogue of cmd/corr/c12.go against Model/Retry.lean.
-/
import Model.IR
import Model.CoreLemmas
import Model.Retry
import Model.Inproc
namespace Props.C12
open Model

/-- what `balanced` establishes (restated from Model/IR.lean): no execution of an accepted body — any branch, any
    number of loop iterations — locks a held mutex or unlocks an unheld one, and each ends by return or fall-through
    holding, after its deferred unlocks, exactly the mutexes it was entered with -/
theorem accepted_functions_release_their_locks (f : IR.Fn) (hb : f.okKeeping = true) (o : IR.Out)
    (hex : IR.Exec f.body { held := f.entry, deferred := [] } o) :
    ∃ σ e, o = .ok σ e ∧ (e = .normal ∨ e = .ret) ∧ IR.runDefers σ.held σ.deferred = some f.entry :=
  IR.okKeeping_sound f hb o hex

/-- the checker is not vacuous: it rejects the two shapes found in the pinned tree (a second Lock of a held mutex on
    the closing path of addPipe; an early return of tlstcp's Listen with the listener's lock held) and accepts their
    repairs, deferred unlocks, and a `break` out of a switch inside a loop under a lock -/
theorem checker_rejects_known_shapes :
    IR.balanced IR.addPipeBug = false ∧ IR.balanced IR.tlsListenBug = false ∧
    IR.balanced IR.addPipeFixed = true ∧ IR.balanced IR.deferShape = true ∧ IR.balanced IR.switchBreak = true := by decide

open Model.Core

/-- a Listen that the transport refuses leaves the listener exactly as it was: the same call can be issued again
    (and then succeeds if the transport accepts) -/
theorem listen_failure_is_retryable (s : State) (now : Nat) (l : String) (x : ListenerSt)
    (hg : getListener s (natOf l) = some x) (hc : x.closed = false) (ha : x.active = false) :
    core s now ["listen", l, "fail"] = [(s, [.res "other"])] ∧
    core s now ["listen", l, "ok"] = [(setListener s x.l (fun y => { y with active := true }), [.res "ok"])] := by
  constructor <;> simp [core, hg, hc, ha]

/-- a failed synchronous Dial clears `active` again, so that a later Dial on the same dialer is attempted rather than
    refused with address-in-use -/
theorem dial_failure_is_retryable (s : State) (now : Nat) (d call : String) (x : DialerSt) (c : Nat)
    (hg : getDialer s (natOf d) = some x) (hs : x.asynch = false) (hdial : x.dialing = some c) (hc : c ≠ 0) :
    ∀ r ∈ core s now ["dialres", d, "fail"], ∀ y, getDialer r.1 (natOf d) = some y → y.active = false ∧ y.dialing = none := by
  intro r hr y hy
  have hxd : x.d = natOf d := getDialer_d s _ x hg
  simp only [core, hg, hdial] at hr
  have h1 : (c != 0 && !x.asynch) = true := by simp [hs, hc]
  simp only [h1, if_true, List.mem_singleton] at hr
  subst hr
  rw [← hxd] at hy
  simp only [] at hy
  rw [getDialer_setDialer] at hy
  case hf => intro z; rfl
  rw [hxd, hg] at hy
  simp only [Option.map_some, hxd, if_true, Option.some.injEq] at hy
  subst hy
  exact ⟨rfl, rfl⟩

/-- a connection rejected during attachment (closed by the hook, or refused by the protocol) changes nothing about the
    listener it came through: the listener is still active and open, so the serve loop accepts the next one -/
theorem rejection_leaves_listener_accepting (s : State) (now : Nat) (l mode : String) (x : ListenerSt)
    (hg : getListener s (natOf l) = some x) (hm : mode = "hookclose" ∨ mode = "refuse") :
    ∀ r ∈ core s now ["conn", l, mode], r.1.listeners = s.listeners := by
  intro r hr
  simp only [core, hg] at hr
  split at hr
  · simp at hr; subst hr; rfl
  · have h1 : (mode == "hookpark") = false := by rcases hm with rfl | rfl <;> decide
    have h2 : (mode == "deadpeer") = false := by rcases hm with rfl | rfl <;> decide
    simp only [h1, h2, Bool.false_eq_true, if_false, List.mem_singleton] at hr
    subst hr
    rcases hm with rfl | rfl <;> simp [addPipe]

/-- a dialer whose connection is rejected or lost has a redial timer armed (it keeps trying) -/
theorem rejection_leaves_dialer_redialling (s : State) (now : Nat) (d : Nat) (x : DialerSt) (hg : getDialer s d = some x) :
    ∀ y, getDialer (pipeGone s (some d) now) d = some y → y.timer.isSome = true := by
  intro y hy
  have hxd : x.d = d := getDialer_d s _ x hg
  simp only [pipeGone] at hy
  rw [getDialer_setDialer] at hy
  case hf => intro z; rfl
  rw [hg] at hy
  simp only [Option.map_some, hxd, if_true, Option.some.injEq] at hy
  subst hy
  rfl

/-- the comparison table never admits a hang or a panic, and demands success once the cause is removed -/
theorem follow_up_never_hangs (kind : String) : Retry.admits kind "hang" = false ∧ Retry.admits kind "panic" = false :=
  ⟨Retry.never_hang kind, Retry.never_panic kind⟩

/-! ### inproc: a failed Listen or Dial leaves everything as it was and can be retried (`Model/Inproc.lean`) -/

/-- a Listen refused because the address is taken, and a Dial refused because nobody listens, change nothing -/
theorem inproc_failed_calls_change_nothing (s : Inproc.State) (lid addr sf pr : Nat) (hc : lid ∉ s.closedL)
    (hb : ∃ b ∈ s.bound, b.addr = addr) :
    Inproc.step s (.listen lid addr sf pr) = [(s, Inproc.render (some "addrinuse") [])] := by
  have h1 : s.closedL.contains lid = false := by simpa using hc
  have h2 : (s.bound.any (fun b => b.addr = addr)) = true := by
    obtain ⟨b, hb1, hb2⟩ := hb
    simp only [List.any_eq_true]
    exact ⟨b, hb1, by simpa using hb2⟩
  simp only [Inproc.step, h1, h2]
  simp

/-- … and the Listen that failed succeeds as soon as the listener that owns the address has been closed: in the state
    right after that Close (any reachable state before it) the same call binds the address -/
theorem inproc_listen_succeeds_once_the_owner_closed (s : Inproc.State) (hr : Inproc.Reach s) (b : Inproc.Bind)
    (hb : b ∈ s.bound) (lid sf pr : Nat) (hne : lid ≠ b.lid) (hc : lid ∉ s.closedL) :
    ∃ s' out, Inproc.step (Inproc.closeLState s b.lid) (.listen lid b.addr sf pr) = [(s', out)] ∧
      (∃ b' ∈ s'.bound, b'.addr = b.addr ∧ b'.lid = lid) ∧ out.head? = some "res:ok" := by
  have inv := Inproc.reach_inv hr
  have hfree : ∀ b' ∈ (Inproc.closeLState s b.lid).bound, b'.addr ≠ b.addr := by
    intro b' hb' he
    simp only [Inproc.closeLState, List.mem_filter] at hb'
    obtain ⟨h1, h2⟩ := hb'
    have hne' : b'.lid ≠ b.lid := by simpa using h2
    have : b' = b := Inproc.nodup_map_inj _ _ inv.boundNodup b' h1 b hb he
    exact hne' (this ▸ rfl)
  have h1 : (Inproc.closeLState s b.lid).closedL.contains lid = false := by
    have : lid ∉ (Inproc.closeLState s b.lid).closedL := by
      simp only [Inproc.closeLState, Inproc.mem_addNew]
      exact fun hx => hx.elim hc hne
    simpa using this
  have h2 : ((Inproc.closeLState s b.lid).bound.any (fun x => x.addr = b.addr)) = false := by
    cases hany : ((Inproc.closeLState s b.lid).bound.any (fun x => x.addr = b.addr))
    · rfl
    · simp only [List.any_eq_true] at hany
      obtain ⟨x, hx1, hx2⟩ := hany
      exact absurd (by simpa using hx2) (hfree x hx1)
  refine ⟨Inproc.listenOk (Inproc.closeLState s b.lid) lid b.addr sf pr,
    Inproc.render (some "ok") (((Inproc.closeLState s b.lid).parked.filter
      (fun p => p.addr = b.addr ∧ ¬ (p.self = pr ∧ p.peer = sf))).map (fun p => (p.call, "badproto"))), ?_, ?_, ?_⟩
  · simp only [Inproc.step, h1, h2]
    simp
  · refine ⟨Inproc.Bind.mk b.addr lid sf pr, ?_, rfl, rfl⟩
    simp [Inproc.listenOk]
  · simp only [Inproc.render, List.cons_append, List.nil_append, List.head?_cons]
    rfl

end Props.C12
