/-
  C08 — BUS and STAR reach every other member once and never echo to the sender.  Property theorems only.
  Model: Model/Proto/Mesh.lean (bus, xbus, star, xstar); loop-free topologies: Model/Proto/MeshLemmas.lean (Forest).
-/
import Model.Proto.MeshLemmas
import Model.Proto.MeshQuiet
import Model.Proto.MeshOrder
import Model.Proto.CommonLemmas
namespace Props.C08
open Model Model.Proto

/-- BUS: a Send (raw: with a 4-byte header naming the pipe it came from) is transmitted only to pipes other
    than the source, each transmission carrying exactly the bytes sent with the raw header stripped -/
theorem bus_send_never_echoes (s : Mesh.State) (hf : s.flavor = .xbus) (hc : s.closed = false) (call ctx h b : String)
    (h4 : (bytesOf h).length = 4) (o : Mesh.State × List Ev) (ho : o ∈ Mesh.step s ["send", call, ctx, h, b])
    (pipe : Nat) (hd bd : Bytes) (hev : Ev.tx pipe hd bd ∈ o.2) :
    pipe ≠ beDec (bytesOf h) ∧ hd = [] ∧ bd = bytesOf b := by
  simp only [Mesh.step, hc, Mesh.sendPlan, hf, h4] at ho
  simp at ho
  subst ho
  simp only [List.mem_cons] at hev
  rcases hev with hev | hev
  · cases hev
  · have : ∃ k, (k, Ev.tx pipe hd bd) ∈ (fanout s.pipes (fun p => Mesh.Flavor.xbus.isStar || Mesh.others (beDec (bytesOf h)) p) ([], bytesOf b)).2 :=
      (mem_sortByKey _ _).mp hev
    obtain ⟨k, hk⟩ := this
    obtain ⟨p, _, hsel, heq⟩ := fanout_events _ _ _ _ hk
    simp only [Prod.mk.injEq, Ev.tx.injEq] at heq
    obtain ⟨_, rfl, rfl, rfl⟩ := heq
    simp only [Mesh.Flavor.isStar, Bool.false_or, Mesh.others, bne_iff_ne, ne_eq] at hsel
    exact ⟨hsel, rfl, rfl⟩

/-- BUS: every directly connected, idle peer other than the source is sent one copy -/
theorem bus_send_reaches_all_others (ps : List OutPipe) (src : Nat) (m : Msg) (p : OutPipe) (hp : p ∈ ps)
    (hne : p.id ≠ src) (hi : p.inflight = none) (hh : p.hold = false) :
    (p.id, Ev.tx p.id m.1 m.2) ∈ (fanout ps (Mesh.others src) m).2 :=
  fanout_idle ps _ m p hp (by simp [Mesh.others, hne]) hi hh

/-- a BUS socket (cooked or raw) does not pass received messages on: receiving transmits nothing and leaves
    every peer's queue untouched -/
theorem bus_receive_does_not_forward (s s' : Mesh.State) (evs) (hf : s.flavor.isStar = false)
    (h : Mesh.progress.nextBacklog s = some (s', evs)) : evs = [] ∧ s'.pipes = s.pipes := by
  unfold Mesh.progress.nextBacklog at h
  split at h
  · simp only [hf] at h
    simp at h
    obtain ⟨rfl, rfl⟩ := h
    exact ⟨rfl, rfl⟩
  · simp at h

/-- STAR: what arrives on pipe p is forwarded only to the other peers (never back to p), with the hop byte
    bumped and the payload unchanged, and every other idle peer gets it -/
theorem star_forwards_to_others_only (ps : List OutPipe) (src : Nat) (m : Msg) :
    (∀ e ∈ (fanout ps (Mesh.others src) m).2, e.1 ≠ src ∧ e.2 = Ev.tx e.1 m.1 m.2) ∧
    (∀ p ∈ ps, p.id ≠ src → p.inflight = none → p.hold = false → (p.id, Ev.tx p.id m.1 m.2) ∈ (fanout ps (Mesh.others src) m).2) := by
  refine ⟨?_, ?_⟩
  · intro e he
    obtain ⟨p, _, hsel, rfl⟩ := fanout_events _ _ _ _ he
    simp only [Mesh.others, bne_iff_ne, ne_eq] at hsel
    exact ⟨hsel, rfl⟩
  · intro p hp hne hi hh
    exact fanout_idle ps _ m p hp (by simp [Mesh.others, hne]) hi hh

/-- STAR in a loop-free topology (every finite tree, re-rooted at the sender; member ids pairwise distinct):
    every member other than the sender receives every message exactly once and the sender never receives its own -/
theorem star_tree_exactly_once (f : Forest) (sender : Nat) (h : (sender :: Forest.ids f).Nodup) :
    (Forest.flood (Forest.roots f) sender f).Nodup ∧ sender ∉ Forest.flood (Forest.roots f) sender f ∧
    ∀ m ∈ Forest.ids f, m ∈ Forest.flood (Forest.roots f) sender f :=
  Forest.flood_exactly_once f sender h

/-- the forwarding rule used by the tree theorem is the one of the machine: all neighbours except the source -/
theorem fwd_is_others (ps : List OutPipe) (src : Nat) :
    (ps.filter (Mesh.others src)).map (·.id) = Forest.fwd (ps.map (·.id)) src := by
  unfold Forest.fwd
  rw [List.filter_map]
  rfl

example : Forest.flood [2, 3] 1 (.cons 2 (.cons 4 .nil .nil) (.cons 3 .nil .nil)) = [2, 4, 3] := by decide

/-- over every history of a BUS or STAR socket (cooked or raw; any interleaving of sends, arrivals from any peers, slow
    and failing peers, queue re-creations, Close): nothing is left to do in any reachable state — a Recv is blocked only
    when no message is queued, none is held by a receiver and none is waiting to be read from any peer ("delivered …
    queue space permitting": what has arrived is handed to a waiting Recv at once) -/
theorem recv_blocks_only_when_nothing_is_there (f : Mesh.Flavor) (g : GExpr) (s : Mesh.State) (h : Mesh.Reach f g s)
    (hne : s.waiting ≠ []) : s.recvQ = [] ∧ s.blocked = [] ∧ s.backlog = [] :=
  Mesh.recv_blocks_only_when_nothing_is_there f g s h hne

/-- "delivered once to each directly connected peer": over every history of a BUS or STAR socket, for every peer, the
    copies handed to its pipe — completed, in progress, queued — are, in order, part of what was offered to that pipe
    (by Sends and, for STAR, by forwarding): never duplicated, never reordered (ghost histories `offered` / `sent`) -/
theorem per_peer_order (f : Mesh.Flavor) (g : GExpr) (s : Mesh.State) (h : Mesh.Reach f g s) :
    ∀ p ∈ s.pipes, (p.sent ++ p.inflight.toList ++ p.q).Sublist p.offered :=
  Mesh.per_peer_order f g s h

end Props.C08
