/-
  C20 — macat prints and sends exactly what crossed the socket.  Property theorems only.
  Model: Model/Macat.lean (formatters of printMsg, decoders written for the theorems, the duration rule).
-/
import Model.MacatLemmas
namespace Props.C20
open Model Model.Macat

/-- raw: the bytes unchanged -/
theorem raw_identity (body : Bytes) : fmtRaw body = body := rfl

/-- quoted: decoding the escapes of a record gives back exactly the message bytes, for every byte string -/
theorem unquote_quoted (body : Bytes) : unquote (body.flatMap (quoteByte refParams)) = some body := by
  induction body with
  | nil => simp [unquote]
  | cons b bs ih =>
    simp only [List.flatMap_cons]
    rw [unquote_quoteByte, ih]; rfl

/-- ascii: same length plus the newline, printable bytes kept, all others shown as a dot -/
theorem ascii_spec (body : Bytes) :
    (fmtAscii body).length = body.length + 1 ∧
    (∀ i (h : i < body.length), (fmtAscii body)[i]'(by simp [fmtAscii]; omega) = if isPrint body[i] then body[i] else 0x2e) ∧
    (fmtAscii body).getLast? = some 0x0a := by
  refine ⟨by simp [fmtAscii], ?_, by simp [fmtAscii]⟩
  intro i h
  simp [fmtAscii, List.getElem_append_left, h]

/-- one message per record: a newline never occurs inside an ascii or quoted record -/
theorem ascii_record_has_no_newline (body : Bytes) : ∀ x ∈ body.map (fun b => if isPrint b then b else 0x2e), x ≠ 0x0a := by
  intro x hx
  simp only [List.mem_map] at hx
  obtain ⟨b, _, rfl⟩ := hx
  split
  · rename_i hp
    intro e; subst e; exact absurd hp (by decide)
  · decide

theorem quoteByte_no_newline_fin : ∀ n : Fin 256, (quoteByte refParams (UInt8.ofNat n.val)).all (fun x => x != 0x0a) = true := by
  decide +kernel

theorem quoteByte_no_newline (b : UInt8) : ∀ x ∈ quoteByte refParams b, x ≠ 0x0a := by
  have h := quoteByte_no_newline_fin ⟨b.toNat, UInt8.toNat_lt b⟩
  simp only [UInt8.ofNat_toNat] at h
  intro x hx
  have := List.all_eq_true.mp h x hx
  simpa using this

theorem quoted_record_has_no_newline (body : Bytes) : ∀ x ∈ body.flatMap (quoteByte refParams), x ≠ 0x0a := by
  intro x hx
  simp only [List.mem_flatMap] at hx
  obtain ⟨b, _, hb⟩ := hx
  exact quoteByte_no_newline b x hb

/-- msgpack: a bin object whose length field and payload equal the message, self-delimiting whatever follows,
    for every length below 2^32 (in particular across 255/256 and 65535/65536) -/
theorem msgpack_roundtrip (body rest : Bytes) (h : body.length < 2 ^ 32) :
    msgpackDecode (fmtMsgpack refParams body ++ rest) = some (body, rest) := by
  unfold fmtMsgpack
  simp only [refParams, GExpr.holds, GExpr.evalI, lenEnv]
  by_cases h8 : body.length < 256
  · have : (UInt8.ofNat (body.length % 256)).toNat = body.length := by simp; omega
    have h8i : ((body.length : Nat) : Int) < 256 := by omega
    simp [h8i, msgpackDecode, this]
  · have h8i : ¬ ((body.length : Nat) : Int) < 256 := by omega
    by_cases h16 : body.length < 65536
    · have h16i : ((body.length : Nat) : Int) < 65536 := by omega
      have hd : beDec (beEnc 2 body.length) = body.length := beDec_beEnc_of_lt 2 _ (by simpa using h16)
      have he : beEnc 2 body.length = [UInt8.ofNat (body.length / 256 % 256), UInt8.ofNat (body.length % 256)] := by simp [beEnc]
      rw [he] at hd
      simp [h8i, h16i, msgpackDecode, he, hd]
    · have h16i : ¬ ((body.length : Nat) : Int) < 65536 := by omega
      have hd : beDec (beEnc 4 body.length) = body.length := beDec_beEnc_of_lt 4 _ (by simpa using h)
      have he : beEnc 4 body.length = [UInt8.ofNat (body.length / 256 / 256 / 256 % 256), UInt8.ofNat (body.length / 256 / 256 % 256),
          UInt8.ofNat (body.length / 256 % 256), UInt8.ofNat (body.length % 256)] := by simp [beEnc]
      rw [he] at hd
      simp [h8i, h16i, msgpackDecode, he, hd]

/-- durations given as bare integers mean seconds -/
theorem bare_integer_seconds (n : Int) : bareSeconds n = n * 1000000000 := rfl

example : fmtQuoted refParams [0x41, 0x0a, 0x00, 0x5c] = [0x41, 0x5c, 0x6e, 0x5c, 0x78, 0x30, 0x30, 0x5c, 0x5c, 0x0a] := by decide
example : (fmtMsgpack refParams (List.replicate 256 7)).take 3 = [0xc5, 1, 0] := by decide +kernel
example : fmtMsgpack refParams [1, 2, 3] = [0xc4, 3, 1, 2, 3] := by decide

end Props.C20
