/-
  C02 — PAIR and PUSH/PULL deliver each message exactly once, in order.  Property theorems only.
  Models: Model/Proto/Pair.lean, Push.lean, Pull.lean, each carrying a ghost history
  (enq = accepted into the send queue, txd/handed = given to a peer, rin = read from a peer, rout = returned by Recv).
-/
import Model.Proto.PairLemmas
import Model.Proto.PairQuiet
import Model.Proto.PushLemmas
import Model.Proto.PushQuiet
import Model.Proto.PullLemmas
import Model.Proto.PullQuiet
namespace Props.C02
open Model Model.Proto

/-- PAIR, send direction: in every reachable state — any interleaving of Send / slow peer / send failure /
    peer drop / reconnect / resize — what the peer was handed is, in order, part of what was accepted:
    never duplicated, reordered or invented -/
theorem pair_tx_in_order (s : Pair.State) (h : Pair.Reach s) : s.txd.Sublist s.enq := by
  have := (Pair.reach_inv s h).1
  exact Pair.sublist_drop_last _ _ _ (Pair.sublist_drop_last _ _ _ this)

/-- PAIR, receive direction: what Recv returned is, in order, part of what the peer sent -/
theorem pair_rx_in_order (s : Pair.State) (h : Pair.Reach s) : s.rout.Sublist s.rin := by
  have := (Pair.reach_inv s h).2
  exact Pair.sublist_drop_last _ _ _ (Pair.sublist_drop_last _ _ _ this)

/-- exactly once: if the accepted messages are pairwise distinct, so are the transmitted ones -/
theorem pair_no_duplicates (s : Pair.State) (h : Pair.Reach s) (hd : s.enq.Nodup) : s.txd.Nodup :=
  (pair_tx_in_order s h).nodup hd

/-- a PAIR socket has at most one peer: a further connection attempt is refused with a protocol-state
    error and leaves the socket (and the established conversation) exactly as it was -/
theorem pair_single_peer (s : Pair.State) (q : Nat) (p : String) (hp : s.peer = some q) (hc : s.closed = false) :
    Pair.step s ["addpipe", p] = [(s, [Ev.res "protostate"])] := by
  simp [Pair.step, hp, hc]

/-- … and once the first peer has gone a new one is admitted -/
theorem pair_readmit (s : Pair.State) (p : String) (hp : s.peer = none) (hc : s.closed = false) :
    ∃ s', Pair.step s ["addpipe", p] = [(s', Ev.res "ok" :: sortByKey (Pair.settle (Pair.fuelOf { s with peer := some (natOf p), hold := false }) { s with peer := some (natOf p), hold := false }).2)] := by
  simp [Pair.step, hp, hc, Pair.settled]

theorem pair_drop_clears_peer (s : Pair.State) : (Pair.dropPeer s).peer = none := rfl

/-- PAIR over every history: nothing is left to do in any reachable state — an accepted message waits in the send queue
    only while there is no peer or the peer's send is still in progress; a Send is blocked only while the queue has no
    room for its message; a Recv is blocked only when nothing is queued, nothing is in the receiver's hand and nothing is
    waiting to be read ("Send completes whenever a connected peer is able to take the message") -/
theorem pair_nothing_left_to_do (s : Pair.State) (h : Pair.Reach s) :
    (s.sendQ ≠ [] → s.peer = none ∨ s.inflight.isSome = true) ∧
    (s.parkedSend ≠ [] → Pair.sendRoom s = false) ∧
    (s.parkedRecv ≠ [] → s.recvQ = [] ∧ s.inhand = none ∧ (s.peer = none ∨ s.backlog = [])) :=
  Pair.nothing_left_to_do s h

/-- PUSH: messages handed to pipes (in hand-off order) followed by the queued ones are, in order, part of
    what was accepted; hence each accepted message goes to at most one pipe, and messages sharing a pipe
    are in send order -/
theorem push_one_pipe_per_message (s : Push.State) (h : Push.Reach s) : (s.handed.map (·.2)).Sublist s.enq :=
  Pair.sublist_drop_last _ _ _ (Push.reach_inv s h)

theorem push_per_pipe_order (s : Push.State) (h : Push.Reach s) (p : Nat) :
    ((s.handed.filter (fun x => x.1 == p)).map (·.2)).Sublist s.enq := by
  refine List.Sublist.trans ?_ (push_one_pipe_per_message s h)
  exact List.Sublist.map _ List.filter_sublist

theorem push_no_duplicates (s : Push.State) (h : Push.Reach s) (hd : s.enq.Nodup) : (s.handed.map (·.2)).Nodup :=
  (push_one_pipe_per_message s h).nodup hd

/-- PUSH progress, partial: with a queued message and a ready pipe the scheduler step is enabled.
    (For write-queue length 0 a message can never be queued in the current implementation — the
    scheduler tests len(sendQ) — so Send never completes: see the known finding D7; the full statement
    "for every accepted queue length" is false of the code and is witnessed by the harness.) -/
theorem push_progress_partial (s : Push.State) (p : Nat) (ready : List Nat) (m : Msg) (q : List Msg)
    (hr : s.readyQ = p :: ready) (hq : s.sendQ = m :: q) : (Push.progress s).isSome = true :=
  Push.progress_enabled s p ready m q hr hq

/-- PUSH progress over every history: in every reachable state no accepted message waits while a connected pipe is
    ready, and a Send is blocked only while the send queue is full — with a positive queue length a blocked Send means
    that no pipe is able to take a message, which is "Send completes whenever a connected peer is able to take the
    message" for every positive queue length (queue length 0: `push_qlen0_send_parks`, finding D7) -/
theorem push_send_blocks_only_when_nobody_can_take (s : Push.State) (h : Push.Reach s) :
    (s.readyQ = [] ∨ s.sendQ = []) ∧ (s.parkedSend ≠ [] → s.sendCap ≤ s.sendQ.length ∧ (0 < s.sendCap → s.readyQ = [])) :=
  Push.send_blocks_only_when_nobody_can_take s h

/-- the witness: with capacity 0 a blocking Send parks although a pipe is ready (model of the current code) -/
theorem push_qlen0_send_parks (s : Push.State) (hc : s.closed = false) (hcap : s.sendCap = 0) (hb : s.bestEffort = false)
    (hp : s.pipes ≠ []) (call c h b : String) :
    ∀ o ∈ Push.step s ["send", call, c, h, b], o.2 = [] := by
  intro o ho
  have : ¬ (s.failNoPeers && s.pipes.isEmpty) = true := by
    cases hpp : s.pipes with
    | nil => exact absurd hpp hp
    | cons x xs => simp
  simp [Push.step, hc, hcap, hb, this] at ho
  subst ho; rfl

/-- PULL: what Recv returned is, in order, part of what the receivers read; per connection this is
    the sender's order, exactly once -/
theorem pull_in_order (s : Pull.State) (h : Pull.Reach s) : s.rout.Sublist s.rin :=
  Pair.sublist_drop_last _ _ _ (Pair.sublist_drop_last _ _ _ (Pull.reach_inv s h))

theorem pull_per_connection_order (s : Pull.State) (h : Pull.Reach s) (p : Nat) :
    (s.rout.filter (fun x => x.1 == p)).Sublist (s.rin.filter (fun x => x.1 == p)) :=
  (pull_in_order s h).filter _

/-- PULL over every history: a Recv is blocked only when nothing is there for it — no message queued, none held by a
    receiver, none waiting to be read from any connection (the model's internal steps always run to exhaustion) -/
theorem pull_recv_blocks_only_when_nothing_is_there (s : Pull.State) (h : Pull.Reach s) (hne : s.parkedRecv ≠ []) :
    s.recvQ = [] ∧ s.blocked = [] ∧ s.backlog = [] :=
  Pull.recv_blocks_only_when_nothing_is_there s h hne

/-- non-vacuity: the invariant is satisfiable by states with traffic in every position -/
example : Pair.Inv { txd := [([], [1])], inflight := some ([], [2]), sendQ := [([], [3])], enq := [([], [1]), ([], [2]), ([], [3])],
                     rout := [([], [4])], recvQ := [([], [5])], inhand := some ([], [6]), rin := [([], [4]), ([], [5]), ([], [6])] } := by
  constructor <;> simp [Option.toList]
example : Pair.Reach Pair.init := Pair.Reach.init

end Props.C02
