/-
  C17 — a message belongs to exactly one owner at a time.  Property theorems only.
  Model: Model/Ledger.lean (reference counts with the owners as ghost state), tied to message.go by the statement
  lists of Free / Clone / MakeUnique / Dup / NewMessage regenerated on every run (Obl/Msg.lean) and by the `m.ledger`
  correspondence (random operation sequences on real messages, cmd/corr/c17.go).  What the library's own code does
  with messages is observed by the verif-tag ledger in message.go and by application-side checks (not proved).
-/
import Model.LedgerLemmas
namespace Props.C17
open Model Model.Ledger

/-- in every state reachable by any sequence of operations (by any number of holders, well-behaved or not) the
    reference count of every message equals the number of references held, a buffer is in its pool exactly when nobody
    holds it, and message identities are unique -/
theorem ledger_invariant (ops : List Op) : Inv (run {} ops) := run_inv {} ops init_inv

/-- the count never goes below zero -/
theorem count_never_negative (ops : List Op) : ∀ x ∈ (run {} ops).msgs, 0 ≤ x.refcnt := by
  intro x hx
  rw [(ledger_invariant ops).count x hx]
  exact Int.natCast_nonneg _

/-- a released buffer belongs to nobody: once pooled, no holder has a reference left (so nothing may touch it) -/
theorem released_has_no_owner (ops : List Op) : ∀ x ∈ (run {} ops).msgs, x.pooled = true → x.owners = [] :=
  fun x hx hp => ((ledger_invariant ops).pooled x hx).mp hp

/-- releasing a message one does not hold a reference to — in particular releasing it twice — is flagged, and changes
    nothing -/
theorem double_free_is_flagged (s : State) (o : Owner) (m : MsgId) (x : Msg) (hg : Ledger.get s m = some x)
    (hno : x.owners.contains o = false) :
    (step s (.free o m)).1.msgs = s.msgs ∧ (step s (.free o m)).1.bad ≠ s.bad := by
  simp only [step, hg, hno, Bool.not_false, Bool.or_true, if_true]
  refine ⟨trivial, ?_⟩
  intro h
  have := congrArg List.length h
  simp at this

/-- NewMessage hands its caller a message nobody else holds, empty, with count 1 — whether the buffer is new or one
    that had been released before -/
theorem new_message_is_exclusive (s : State) (o : Owner) (reuse : Option MsgId) (id : MsgId)
    (h : (step s (.new o reuse)).2 = some id) :
    ∃ x ∈ (step s (.new o reuse)).1.msgs, x.id = id ∧ x.owners = [o] ∧ x.refcnt = 1 ∧ x.body = [] ∧ x.pooled = false := by
  simp only [step] at h ⊢
  split at h
  · rename_i x hx
    split at h
    · rename_i hpool
      simp only [Option.some.injEq] at h
      cases hr : reuse with
      | none => simp [hr] at hx
      | some r =>
        simp only [hr, Option.bind_some] at hx
        obtain ⟨hxm, _⟩ := get_mem s r x hx
        simp only [hr, Option.bind_some, hx, hpool, if_true]
        refine ⟨{ x with refcnt := 1, owners := [o], body := [], pooled := false }, ?_, h, rfl, rfl, rfl, rfl⟩
        simp only [Ledger.set, List.mem_map]
        exact ⟨x, hxm, by simp⟩
    · simp at h
  · rename_i hnone
    simp only [Option.some.injEq] at h
    simp only [hnone]
    refine ⟨{ id := s.next, refcnt := 1, owners := [o], body := [], pooled := false }, by simp, h, rfl, rfl, rfl, rfl⟩

/-- a holder with the only reference owns the message alone: whoever else holds messages holds other ones, so a write
    through that reference is invisible to every other holder (this is what MakeUnique before handing a message to the
    application buys) -/
theorem exclusive_means_alone (s : State) (hi : Inv s) (x : Msg) (hx : x ∈ s.msgs) (o : Owner)
    (ho : x.owners.contains o = true) (h1 : x.refcnt = 1) : x.owners = [o] := by
  have hl : x.owners.length = 1 := by
    have := hi.count x hx
    rw [h1] at this
    exact_mod_cast this.symm
  match hown : x.owners with
  | [a] =>
    rw [hown] at ho
    simp at ho
    rw [ho]
  | [] => rw [hown] at hl; simp at hl
  | _ :: _ :: _ => rw [hown] at hl; simp at hl

/-- a write is only accepted from the sole holder, and it changes that one message only -/
theorem write_changes_only_own (s : State) (o : Owner) (m : MsgId) (b : List Nat) (y : Msg)
    (hy : y ∈ (step s (.write o m b)).1.msgs) (hne : y.id ≠ m) : y ∈ s.msgs := by
  simp only [step] at hy
  split at hy
  · rename_i x hx
    obtain ⟨_, hxid⟩ := get_mem s m x hx
    split at hy
    · exact hy
    · split at hy
      · exact hy
      · simp only [Ledger.set, List.mem_map] at hy
        obtain ⟨z, hz, hzy⟩ := hy
        by_cases hzid : z.id = x.id
        · simp only [hzid, if_true] at hzy
          rw [← hzy] at hne
          exact absurd hxid hne
        · simp only [hzid, if_false] at hzy
          rw [← hzy]; exact hz
  · exact hy

/-- MakeUnique gives its caller a message it holds alone: the same one if it was the only holder, otherwise a copy
    with the same contents in a buffer nobody else holds (new, or one the pool had), the caller's reference to the
    shared original being dropped -/
theorem make_unique_gives_exclusive (s : State) (o : Owner) (m id : MsgId) (reuse : Option MsgId) (x : Msg)
    (hg : Ledger.get s m = some x) (h : (step s (.makeUnique o m reuse)).2 = some id) :
    (x.refcnt = 1 → id = m ∧ (step s (.makeUnique o m reuse)).1 = s) ∧
    (x.refcnt ≠ 1 → id ≠ m → ∃ y ∈ (step s (.makeUnique o m reuse)).1.msgs, y.id = id ∧ y.owners = [o] ∧ y.refcnt = 1 ∧ y.body = x.body) := by
  obtain ⟨hxm, hxid⟩ := get_mem s m x hg
  simp only [step, hg] at h ⊢
  split at h
  · simp at h
  · rename_i hown
    simp only [hown, if_false]
    constructor
    · intro h1
      simp only [h1, if_true, Option.some.injEq] at h ⊢
      exact ⟨h.symm, by simp⟩
    · intro hne hidm
      simp only [hne, if_false] at h ⊢
      split at h
      · rename_i r hr
        split at h
        · rename_i hrp
          simp only [Option.some.injEq] at h
          simp only [hr, hrp, if_true]
          refine ⟨{ r with refcnt := 1, owners := [o], body := x.body, pooled := false }, ?_, h, rfl, rfl, rfl⟩
          have hne' : r.id ≠ x.id := by rw [h, hxid]; exact hidm
          cases hre : reuse with
          | none => simp [hre] at hr
          | some rid =>
            simp only [hre, Option.bind_some] at hr
            obtain ⟨hrm, _⟩ := get_mem s rid r hr
            show _ ∈ (Ledger.set (Ledger.set s _) _).msgs
            simp only [Ledger.set]
            apply List.mem_map.mpr
            refine ⟨{ r with refcnt := 1, owners := [o], body := x.body, pooled := false }, List.mem_map.mpr ⟨r, hrm, by simp⟩, ?_⟩
            simp [hne']
        · simp at h
      · rename_i hnone
        simp only [Option.some.injEq] at h
        refine ⟨{ id := s.next, refcnt := 1, owners := [o], body := x.body, pooled := false }, ?_, h, rfl, rfl, rfl⟩
        have hne' : s.next ≠ x.id := by rw [h, hxid]; exact hidm
        show _ ∈ (Ledger.set _ _).msgs
        simp only [Ledger.set]
        apply List.mem_map.mpr
        refine ⟨{ id := s.next, refcnt := 1, owners := [o], body := x.body, pooled := false }, by simp, ?_⟩
        simp [hne']

/-- non-vacuity: a publication shared by two receivers; the first makes it unique and scribbles, the second still sees
    the original -/
example :
    let s := run {} [.new 0 none, .clone 0 1 1, .clone 0 2 1, .free 0 1, .write 9 1 [7]]   -- (the write by a stranger is refused)
    let s1 := (step s (.makeUnique 1 1 none)).1
    let s2 := (step s1 (.write 1 2 [42])).1
    (Ledger.get s2 1).map (·.body) = some [] ∧ (Ledger.get s2 2).map (·.body) = some [42] ∧ (Ledger.get s2 1).map (·.owners) = some [2] := by decide

end Props.C17
