/-
  C17 — a message belongs to exactly one owner at a time.  Property theorems only.
  Model: Model/Ledger.lean (reference counts with the owners as ghost state), tied to message.go by the statement
  lists of Free / Clone / MakeUnique / Dup / NewMessage regenerated on every run (Obl/Msg.lean) and by the `m.ledger`
  correspondence (random operation sequences on real messages, cmd/corr/c17.go).  What the library's own code does
  with the messages it holds in local variables is decided function by function: Model/Own.lean (ownership IR, verified
  reference-balance checker) over the IR regenerated from every function on every run (cmd/owngen, Obl/Own.lean).  The
  messages REQ / REP / SURVEYOR keep in struct fields are followed by their machines and observed by the verif-tag
  ledger in message.go and by application-side checks.
-/
import Model.LedgerLemmas
import Model.Own
namespace Props.C17
open Model Model.Ledger

/-- in every state reachable by any sequence of operations (by any number of holders, well-behaved or not) the
    reference count of every message equals the number of references held, a buffer is in its pool exactly when nobody
    holds it, and message identities are unique -/
theorem ledger_invariant (ops : List Op) : Inv (run {} ops) := run_inv {} ops init_inv

/-- the count never goes below zero -/
theorem count_never_negative (ops : List Op) : ∀ x ∈ (run {} ops).msgs, 0 ≤ x.refcnt := by
  intro x hx
  rw [(ledger_invariant ops).count x hx]
  exact Int.natCast_nonneg _

/-- a released buffer belongs to nobody: once pooled, no holder has a reference left (so nothing may touch it) -/
theorem released_has_no_owner (ops : List Op) : ∀ x ∈ (run {} ops).msgs, x.pooled = true → x.owners = [] :=
  fun x hx hp => ((ledger_invariant ops).pooled x hx).mp hp

/-- releasing a message one does not hold a reference to — in particular releasing it twice — is flagged, and changes
    nothing -/
theorem double_free_is_flagged (s : State) (o : Owner) (m : MsgId) (x : Msg) (hg : Ledger.get s m = some x)
    (hno : x.owners.contains o = false) :
    (step s (.free o m)).1.msgs = s.msgs ∧ (step s (.free o m)).1.bad ≠ s.bad := by
  simp only [step, hg, hno, Bool.not_false, Bool.or_true, if_true]
  refine ⟨trivial, ?_⟩
  intro h
  have := congrArg List.length h
  simp at this

/-- NewMessage hands its caller a message nobody else holds, empty, with count 1 — whether the buffer is new or one
    that had been released before -/
theorem new_message_is_exclusive (s : State) (o : Owner) (reuse : Option MsgId) (id : MsgId)
    (h : (step s (.new o reuse)).2 = some id) :
    ∃ x ∈ (step s (.new o reuse)).1.msgs, x.id = id ∧ x.owners = [o] ∧ x.refcnt = 1 ∧ x.body = [] ∧ x.pooled = false := by
  simp only [step] at h ⊢
  split at h
  · rename_i x hx
    split at h
    · rename_i hpool
      simp only [Option.some.injEq] at h
      cases hr : reuse with
      | none => simp [hr] at hx
      | some r =>
        simp only [hr, Option.bind_some] at hx
        obtain ⟨hxm, _⟩ := get_mem s r x hx
        simp only [hr, Option.bind_some, hx, hpool, if_true]
        refine ⟨{ x with refcnt := 1, owners := [o], body := [], pooled := false }, ?_, h, rfl, rfl, rfl, rfl⟩
        simp only [Ledger.set, List.mem_map]
        exact ⟨x, hxm, by simp⟩
    · simp at h
  · rename_i hnone
    simp only [Option.some.injEq] at h
    simp only [hnone]
    refine ⟨{ id := s.next, refcnt := 1, owners := [o], body := [], pooled := false }, by simp, h, rfl, rfl, rfl, rfl⟩

/-- a holder with the only reference owns the message alone: whoever else holds messages holds other ones, so a write
    through that reference is invisible to every other holder (this is what MakeUnique before handing a message to the
    application buys) -/
theorem exclusive_means_alone (s : State) (hi : Inv s) (x : Msg) (hx : x ∈ s.msgs) (o : Owner)
    (ho : x.owners.contains o = true) (h1 : x.refcnt = 1) : x.owners = [o] := by
  have hl : x.owners.length = 1 := by
    have := hi.count x hx
    rw [h1] at this
    exact_mod_cast this.symm
  match hown : x.owners with
  | [a] =>
    rw [hown] at ho
    simp at ho
    rw [ho]
  | [] => rw [hown] at hl; simp at hl
  | _ :: _ :: _ => rw [hown] at hl; simp at hl

/-- a write is only accepted from the sole holder, and it changes that one message only -/
theorem write_changes_only_own (s : State) (o : Owner) (m : MsgId) (b : List Nat) (y : Msg)
    (hy : y ∈ (step s (.write o m b)).1.msgs) (hne : y.id ≠ m) : y ∈ s.msgs := by
  simp only [step] at hy
  split at hy
  · rename_i x hx
    obtain ⟨_, hxid⟩ := get_mem s m x hx
    split at hy
    · exact hy
    · split at hy
      · exact hy
      · simp only [Ledger.set, List.mem_map] at hy
        obtain ⟨z, hz, hzy⟩ := hy
        by_cases hzid : z.id = x.id
        · simp only [hzid, if_true] at hzy
          rw [← hzy] at hne
          exact absurd hxid hne
        · simp only [hzid, if_false] at hzy
          rw [← hzy]; exact hz
  · exact hy

/-- MakeUnique gives its caller a message it holds alone: the same one if it was the only holder, otherwise a copy
    with the same contents in a buffer nobody else holds (new, or one the pool had), the caller's reference to the
    shared original being dropped -/
theorem make_unique_gives_exclusive (s : State) (o : Owner) (m id : MsgId) (reuse : Option MsgId) (x : Msg)
    (hg : Ledger.get s m = some x) (h : (step s (.makeUnique o m reuse)).2 = some id) :
    (x.refcnt = 1 → id = m ∧ (step s (.makeUnique o m reuse)).1 = s) ∧
    (x.refcnt ≠ 1 → id ≠ m → ∃ y ∈ (step s (.makeUnique o m reuse)).1.msgs, y.id = id ∧ y.owners = [o] ∧ y.refcnt = 1 ∧ y.body = x.body) := by
  obtain ⟨hxm, hxid⟩ := get_mem s m x hg
  simp only [step, hg] at h ⊢
  split at h
  · simp at h
  · rename_i hown
    simp only [hown, if_false]
    constructor
    · intro h1
      simp only [h1, if_true, Option.some.injEq] at h ⊢
      exact ⟨h.symm, by simp⟩
    · intro hne hidm
      simp only [hne, if_false] at h ⊢
      split at h
      · rename_i r hr
        split at h
        · rename_i hrp
          simp only [Option.some.injEq] at h
          simp only [hr, hrp, if_true]
          refine ⟨{ r with refcnt := 1, owners := [o], body := x.body, pooled := false }, ?_, h, rfl, rfl, rfl⟩
          have hne' : r.id ≠ x.id := by rw [h, hxid]; exact hidm
          cases hre : reuse with
          | none => simp [hre] at hr
          | some rid =>
            simp only [hre, Option.bind_some] at hr
            obtain ⟨hrm, _⟩ := get_mem s rid r hr
            show _ ∈ (Ledger.set (Ledger.set s _) _).msgs
            simp only [Ledger.set]
            apply List.mem_map.mpr
            refine ⟨{ r with refcnt := 1, owners := [o], body := x.body, pooled := false }, List.mem_map.mpr ⟨r, hrm, by simp⟩, ?_⟩
            simp [hne']
        · simp at h
      · rename_i hnone
        simp only [Option.some.injEq] at h
        refine ⟨{ id := s.next, refcnt := 1, owners := [o], body := x.body, pooled := false }, ?_, h, rfl, rfl, rfl⟩
        have hne' : s.next ≠ x.id := by rw [h, hxid]; exact hidm
        show _ ∈ (Ledger.set _ _).msgs
        simp only [Ledger.set]
        apply List.mem_map.mpr
        refine ⟨{ id := s.next, refcnt := 1, owners := [o], body := x.body, pooled := false }, by simp, ?_⟩
        simp [hne']

/-- non-vacuity: a publication shared by two receivers; the first makes it unique and scribbles, the second still sees
    the original -/
example :
    let s := run {} [.new 0 none, .clone 0 1 1, .clone 0 2 1, .free 0 1, .write 9 1 [7]]   -- (the write by a stranger is refused)
    let s1 := (step s (.makeUnique 1 1 none)).1
    let s2 := (step s1 (.write 1 2 [42])).1
    (Ledger.get s2 1).map (·.body) = some [] ∧ (Ledger.get s2 2).map (·.body) = some [42] ∧ (Ledger.get s2 1).map (·.owners) = some [2] := by decide

/-- the library's side of the discipline, function by function: a function whose ownership IR the checker accepts
    never, in any execution (any branch, any number of loop iterations, any outcome of the calls that can fail),
    releases a reference it does not hold through that variable, nor touches a message through a variable that is
    nil or whose last reference it has given up; it ends by return or fall-through, and a return of a kind for which
    the contract names a variable (the error return of every Send: the caller's message) leaves that variable non-nil
    and still standing for its reference.  `Obl.Own.all_meet` evaluates the checker on the IR of every function of the
    library that handles a message, regenerated from the source on every run. -/
theorem accepted_function_keeps_the_discipline (f : Own.Fn) (hb : f.meets = true) (o : Own.Out)
    (hex : Own.Exec f.body f.entry o) :
    ∃ σ e, o = .ok σ e ∧ Own.Leaves f.exits σ e :=
  Own.meets_sound f hb o hex

/-- "Send … on failure leaves the message with the caller", for an accepted Send-shaped function (parameter 0 is the
    message, contract `[[], [(0, 1)]]`): an execution that ends in an error return still holds the caller's reference -/
theorem failed_send_leaves_the_message (f : Own.Fn) (hb : f.meets = true) (hx : f.exits = [[], [(0, 1)]])
    (σ : Own.St) (hex : Own.Exec f.body f.entry (.ok σ (.ret 1))) :
    σ.isNil 0 = false ∧ 1 ≤ σ.count 0 := by
  obtain ⟨σ', e, heq, k, req, hk, hreq, hall⟩ := Own.meets_sound f hb _ hex
  cases heq
  rcases hk with ⟨h, _⟩ | h
  · cases h
  · cases h
    rw [hx] at hreq
    simp at hreq
    subst hreq
    exact hall (0, 1) (by simp)

/-- non-vacuity: the fan-out Send shape (PUB / BUS / STAR / SURVEYOR: clone per peer, queue or free, free the caller's
    reference, `return nil`; `return ErrClosed` first) is accepted, and has an execution that ends in the error return -/
example : (Own.Fn.meets { name := "", vars := ["m", "err"], entry := Own.st1 1 false, exits := [[], [(0, 1)]], body := Own.fanoutOK }) = true ∧
    Own.Exec Own.fanoutOK (Own.st1 1 false) (.ok (Own.st1 1 false) (.ret 1)) := by
  refine ⟨by decide, ?_⟩
  unfold Own.fanoutOK
  exact .seqE _ _ _ _ _ (by simp) (.iteL _ _ _ _ (.ret 1 _))
/-- the same shape with the message freed on the error path too is refused -/
example : (Own.Fn.meets { name := "", vars := ["m", "err"], entry := Own.st1 1 false, exits := [[], [(0, 1)]], body := Own.fanoutErrFree }) = false := by decide

end Props.C17
