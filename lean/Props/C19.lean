/-
  C19 — options and unsupported operations follow one uniform contract.  Property theorems only.
  Model: Model/Opt.lean over the regenerated table Generated.optTable.
-/
import Model.Opt
import Model.Tactics
namespace Props.C19
open Model Model.Opt

/-- an option no handler of the object's chain knows is refused as a bad option, whatever the value -/
theorem unknown_option_is_bad_option (table : List OptRow) (chain : List (String × String)) (opt : String) (v : Val)
    (h : ∀ hd ∈ chain, table.find? (fun r => r.pkg == hd.1 && r.recv == hd.2 && r.opt == opt) = none) :
    resolve table chain opt v = "badoption" := by
  unfold resolve
  have : chain.findSome? (fun hd => table.find? (fun r => r.pkg == hd.1 && r.recv == hd.2 && r.opt == opt)) = none := by
    rw [List.findSome?_eq_none_iff]
    exact h
  simp [this]

/-- a value of the wrong dynamic type is a bad value; a value of the right type is accepted iff the guard holds -/
theorem wrong_type_is_bad_value (r : OptRow) (v : Val) (hs : r.ty ≠ "special") (hr : r.guard.recognised = true) (ht : v.goType ≠ r.ty) :
    rowResult r v = "badvalue" := by
  unfold rowResult
  simp [hs, hr, ht]

theorem right_type_iff_guard (r : OptRow) (v : Val) (hs : r.ty ≠ "special") (hr : r.guard.recognised = true) (ht : v.goType = r.ty) :
    rowResult r v = (if r.guard.holds (valEnv v) then "ok" else "badvalue") := by
  unfold rowResult
  simp [hs, hr, ht]

/-- the result is always one of the three classes (or the two bookkeeping classes of rows the model does not cover):
    no option call has any other outcome — in particular none is a panic -/
theorem resolve_total (table : List OptRow) (chain : List (String × String)) (opt : String) (v : Val) :
    resolve table chain opt v ∈ ["ok", "badvalue", "badoption", "special", "unknown"] := by
  unfold resolve
  split
  · unfold rowResult
    split
    · simp
    · split
      · simp
      · split
        · simp
        · split <;> simp
  · simp

/-- TTL: accepted iff 1 ≤ v ≤ 255 (instance of `right_type_iff_guard` for the guard shape of the six sockets) -/
theorem ttl_range (v : Int) :
    (GExpr.and (.and .tt (.gt (.var "v") (.lit 0))) (.lt (.var "v") (.lit 256))).holds (valEnv (.int v)) = decide (1 ≤ v ∧ v ≤ 255) := by
  simp only [GExpr.holds, GExpr.evalI, valEnv]
  bool_omega

example : rowResult ⟨"protocol/xrep", "socket", "OptionTTL", "int", .and (.and .tt (.gt (.var "v") (.lit 0))) (.lt (.var "v") (.lit 256))⟩ (.int 256) = "badvalue" := by decide

end Props.C19
