/-
  C09 — devices forward transparently and the hop limit is exact.  Property theorems only.
-/
import Model.HopLemmas
namespace Props.C09
open Model Model.Hop

/-- REP / XREP / RESPONDENT / XRESPONDENT: a request that has crossed k connections carries k routing
    words (k-1 pipe ids with bit 31 clear, then the request id with bit 31 set).  With a well-formed
    hop site it is delivered iff k ≤ TTL, with exactly those k words moved to the header (after whatever
    the receiver put there first) and the payload unchanged — for every TTL, k, ids and payload. -/
theorem deliver_iff (P : HopSite) (hwf : WellFormed P) (ttl : Nat) (hdr0 : Bytes) (ws : List Word) (idw : Word)
    (payload : Bytes) (hws : ∀ w ∈ ws, w.top = false) (hid : idw.top = true) :
    recv P ttl hdr0 (flat ws ++ idw.bytes ++ payload) =
      if ws.length + 1 ≤ ttl then some (hdr0 ++ flat ws ++ idw.bytes, payload) else none :=
  recv_words P hwf ttl hdr0 ws idw payload hws hid

theorem delivered_iff_le (P : HopSite) (hwf : WellFormed P) (ttl : Nat) (hdr0 : Bytes) (ws : List Word) (idw : Word)
    (payload : Bytes) (hws : ∀ w ∈ ws, w.top = false) (hid : idw.top = true) :
    (recv P ttl hdr0 (flat ws ++ idw.bytes ++ payload)).isSome ↔ ws.length + 1 ≤ ttl := by
  rw [deliver_iff P hwf ttl hdr0 ws idw payload hws hid]
  split <;> simp_all

/-- PAIR1 (xpair1 receiver): the hop word counts forwarders f; delivered iff f ≤ ttl and f < 255,
    and the count passed on is f+1 -/
def Pair1DropOK (g : GExpr) : Prop := ∀ hops ttl : Nat, g.holds (pair1Env hops ttl) = decide (hops ≥ 255 ∨ hops > ttl)

theorem pair1_iff (g : GExpr) (hg : Pair1DropOK g) (ttl f : Nat) (hf : f < 256) (payload : Bytes) :
    pair1Recv g ttl ([0, 0, 0, UInt8.ofNat f] ++ payload) =
      if f ≤ ttl ∧ f < 255 then some ([0, 0, 0, UInt8.ofNat (f + 1)], payload) else none := by
  have hd : beDec [0, 0, 0, UInt8.ofNat f] = f := by
    simp [beDec, Nat.mod_eq_of_lt hf]
  simp only [pair1Recv, List.cons_append, List.nil_append, hd]
  rw [hg]
  by_cases h : f ≤ ttl ∧ f < 255
  · have : ¬ (f ≥ 255 ∨ f > ttl) := by omega
    have hm : (f + 1) % 256 = f + 1 := by omega
    simp [h, this, hm]
  · have : (f ≥ 255 ∨ f > ttl) := by omega
    simp [h, this]

/-- STAR (xstar receiver): the hop byte counts forwarders f; delivered iff f < ttl (k = f+1 ≤ ttl) -/
def StarDropOK (g : GExpr) : Prop :=
  ∀ (blen : Nat) (b0 b1 b2 b3 : UInt8) (ttl : Nat),
    g.holds (starEnv blen b0 b1 b2 b3 ttl) = decide (blen < 4 ∨ b0 ≠ 0 ∨ b1 ≠ 0 ∨ b2 ≠ 0 ∨ b3.toNat ≥ ttl)

theorem star_iff (g : GExpr) (hg : StarDropOK g) (ttl : Nat) (f : UInt8) (payload : Bytes) :
    starRecv g ttl ([0, 0, 0, f] ++ payload) =
      if f.toNat + 1 ≤ ttl then some ([0, 0, 0, f + 1], payload) else none := by
  have hh := hg (0 :: 0 :: 0 :: f :: payload).length 0 0 0 f ttl
  simp only [starRecv, List.cons_append, List.nil_append, hh]
  by_cases h : f.toNat + 1 ≤ ttl
  · have : ¬ (f.toNat ≥ ttl) := by omega
    simp [h, this]
  · have : f.toNat ≥ ttl := by omega
    simp [h, this]

/-- forwarding loops die out: each crossing adds one word, so after ttl+1 crossings it is dropped -/
theorem loop_dies (P : HopSite) (hwf : WellFormed P) (ttl : Nat) (hdr0 : Bytes) (ws : List Word) (idw : Word)
    (payload : Bytes) (hws : ∀ w ∈ ws, w.top = false) (hid : idw.top = true) (hlong : ttl < ws.length + 1) :
    recv P ttl hdr0 (flat ws ++ idw.bytes ++ payload) = none := by
  rw [deliver_iff P hwf ttl hdr0 ws idw payload hws hid]
  simp; omega

/-- TTL option: accepted iff 1 ≤ v ≤ 255 -/
def TtlGuardOK (g : GExpr) : Prop := ∀ v : Int, g.holds (fun n => if n = "v" then v else 0) = decide (1 ≤ v ∧ v ≤ 255)

example : (recv ⟨1, .gt (.var "hops") (.var "ttl"), []⟩ 2 [] (flat [⟨0,0,0,1⟩] ++ (Word.bytes ⟨0x80,0,0,1⟩) ++ [7])).isSome = true := by decide
example : (recv ⟨1, .ge (.var "hops") (.var "ttl"), []⟩ 2 [] (flat [⟨0,0,0,1⟩] ++ (Word.bytes ⟨0x80,0,0,1⟩) ++ [7])).isSome = false := by decide

end Props.C09
