/-
  C09 — devices forward transparently and the hop limit is exact.  Property theorems only.
-/
import Model.HopLemmas
import Model.Device
import Model.Proto.Xreq
import Model.Proto.RawRecv
import Model.Proto.RawRecvQuiet
import Model.DevicePlumb
namespace Props.C09
open Model Model.Hop

/-- REP / XREP / RESPONDENT / XRESPONDENT: a request that has crossed k connections carries k routing
    words (k-1 pipe ids with bit 31 clear, then the request id with bit 31 set).  With a well-formed
    hop site it is delivered iff k ≤ TTL, with exactly those k words moved to the header (after whatever
    the receiver put there first) and the payload unchanged — for every TTL, k, ids and payload. -/
theorem deliver_iff (P : HopSite) (hwf : WellFormed P) (ttl : Nat) (hdr0 : Bytes) (ws : List Word) (idw : Word)
    (payload : Bytes) (hws : ∀ w ∈ ws, w.top = false) (hid : idw.top = true) :
    recv P ttl hdr0 (flat ws ++ idw.bytes ++ payload) =
      if ws.length + 1 ≤ ttl then some (hdr0 ++ flat ws ++ idw.bytes, payload) else none :=
  recv_words P hwf ttl hdr0 ws idw payload hws hid

theorem delivered_iff_le (P : HopSite) (hwf : WellFormed P) (ttl : Nat) (hdr0 : Bytes) (ws : List Word) (idw : Word)
    (payload : Bytes) (hws : ∀ w ∈ ws, w.top = false) (hid : idw.top = true) :
    (recv P ttl hdr0 (flat ws ++ idw.bytes ++ payload)).isSome ↔ ws.length + 1 ≤ ttl := by
  rw [deliver_iff P hwf ttl hdr0 ws idw payload hws hid]
  split <;> simp_all

/-- PAIR1 (xpair1 receiver): the hop word counts forwarders f; delivered iff f ≤ ttl and f < 255,
    and the count passed on is f+1 -/
def Pair1DropOK (g : GExpr) : Prop := ∀ hops ttl : Nat, g.holds (pair1Env hops ttl) = decide (hops ≥ 255 ∨ hops > ttl)

theorem pair1_iff (g : GExpr) (hg : Pair1DropOK g) (ttl f : Nat) (hf : f < 256) (payload : Bytes) :
    pair1Recv g ttl ([0, 0, 0, UInt8.ofNat f] ++ payload) =
      if f ≤ ttl ∧ f < 255 then some ([0, 0, 0, UInt8.ofNat (f + 1)], payload) else none := by
  have hd : beDec [0, 0, 0, UInt8.ofNat f] = f := by
    simp [beDec, Nat.mod_eq_of_lt hf]
  simp only [pair1Recv, List.cons_append, List.nil_append, hd]
  rw [hg]
  by_cases h : f ≤ ttl ∧ f < 255
  · have : ¬ (f ≥ 255 ∨ f > ttl) := by omega
    have hm : (f + 1) % 256 = f + 1 := by omega
    simp [h, this, hm]
  · have : (f ≥ 255 ∨ f > ttl) := by omega
    simp [h, this]

/-- STAR (xstar receiver): the hop byte counts forwarders f; delivered iff f < ttl (k = f+1 ≤ ttl) -/
def StarDropOK (g : GExpr) : Prop :=
  ∀ (blen : Nat) (b0 b1 b2 b3 : UInt8) (ttl : Nat),
    g.holds (starEnv blen b0 b1 b2 b3 ttl) = decide (blen < 4 ∨ b0 ≠ 0 ∨ b1 ≠ 0 ∨ b2 ≠ 0 ∨ b3.toNat ≥ ttl)

theorem star_iff (g : GExpr) (hg : StarDropOK g) (ttl : Nat) (f : UInt8) (payload : Bytes) :
    starRecv g ttl ([0, 0, 0, f] ++ payload) =
      if f.toNat + 1 ≤ ttl then some ([0, 0, 0, f + 1], payload) else none := by
  have hh := hg (0 :: 0 :: 0 :: f :: payload).length 0 0 0 f ttl
  simp only [starRecv, List.cons_append, List.nil_append, hh]
  by_cases h : f.toNat + 1 ≤ ttl
  · have : ¬ (f.toNat ≥ ttl) := by omega
    simp [h, this]
  · have : f.toNat ≥ ttl := by omega
    simp [h, this]

/-- *Devices forward transparently.*  A request (request id `idw`, any payload) sent by a client through any chain of
    devices — device i with hop limit `ds[i].1`, the request arriving on its pipe `ds[i].2` — reaches the far end iff
    every hop limit on the way allows it (device i sees i + 1 routing words), and then as: the path (one word per
    device, most recent first), the request id, the payload — unchanged. -/
theorem request_through_devices (P : HopSite) (hwf : WellFormed P) (ds : List (Nat × Nat)) (idw : Word) (payload : Bytes)
    (hid : idw.top = true) (hds : ∀ d ∈ ds, d.2 < 2147483648) :
    Device.chainReq P ds (idw.bytes ++ payload) =
      if Device.allows ds 0 then some (flat (Device.path ds) ++ idw.bytes ++ payload) else none := by
  have := Device.chainReq_words P hwf idw payload hid ds [] hds (by simp)
  simpa [flat] using this

/-- … and the server at the end of the chain (hop limit `ttl`, cooked REP / RESPONDENT: nothing in the header before the
    loop) is handed exactly the payload, with the path and the request id as the backtrace its reply will carry, iff the
    request crossed at most `ttl` connections (number of devices + 1) -/
theorem server_behind_devices (P Ps : HopSite) (hwf : WellFormed P) (hwfs : WellFormed Ps) (ds : List (Nat × Nat)) (ttl : Nat)
    (idw : Word) (payload : Bytes) (hid : idw.top = true) (hds : ∀ d ∈ ds, d.2 < 2147483648) :
    (Device.chainReq P ds (idw.bytes ++ payload)).bind (recv Ps ttl []) =
      if Device.allows ds 0 ∧ ds.length + 1 ≤ ttl then some (flat (Device.path ds) ++ idw.bytes, payload) else none := by
  rw [request_through_devices P hwf ds idw payload hid hds]
  by_cases ha : Device.allows ds 0 = true
  · simp only [ha, if_true, Option.bind_some, true_and]
    have hp : ∀ w ∈ Device.path ds, w.top = false := by
      intro w hw
      simp only [Device.path, List.mem_reverse, List.mem_map] at hw
      obtain ⟨d, hd, rfl⟩ := hw
      exact Device.pw_top d.2 (hds d hd)
    rw [recv_words Ps hwfs ttl [] (Device.path ds) idw payload hp hid]
    simp [Device.path]
  · simp [ha]

/-- the reply retraces the request: sent by the server with the backtrace of the request (path, request id) and any
    payload, it leaves every device on the pipe the request had come in on — the pipes chosen, server side first, are
    the arrival pipes in reverse — and what reaches the client's socket splits into the request id and the reply payload,
    unchanged.  For every number of devices, all pipe ids, every request id and payload. -/
theorem reply_retraces_request (ds : List (Nat × Nat)) (idw : Word) (reply : Bytes) (hds : ∀ d ∈ ds, d.2 < 2147483648) :
    Device.chainRep ds.length (Device.wire (flat (Device.path ds) ++ idw.bytes, reply)) =
        some ((ds.map (·.2)).reverse, idw.bytes ++ reply) ∧
      Parse.recv .hdr4 0 (idw.bytes ++ reply) = some (idw.bytes, reply) := by
  refine ⟨?_, Device.client_sees_reply idw reply⟩
  have hps : ∀ p ∈ (ds.map (·.2)).reverse, p < 2147483648 := by
    intro p hp
    simp only [List.mem_reverse, List.mem_map] at hp
    obtain ⟨d, hd, rfl⟩ := hp
    exact hds d hd
  have := Device.chainRep_path idw reply (ds.map (·.2)).reverse hps
  have hpath : Device.path ds = ((ds.map (·.2)).reverse).map Device.pw := by
    simp [Device.path, List.map_reverse]
  simp only [List.length_reverse, List.length_map] at this
  simp only [Device.wire, hpath, List.append_assoc] at this ⊢
  exact this

/-- non-vacuity: two devices (pipes 0x11 and 0x22 at hop limits 8), request id 0x80000001 -/
example :
    Device.chainReq ⟨1, .gt (.var "hops") (.var "ttl"), []⟩ [(8, 0x11), (8, 0x22)] ((Word.bytes ⟨0x80,0,0,1⟩) ++ [7, 7]) =
      some ([0,0,0,0x22, 0,0,0,0x11, 0x80,0,0,1, 7, 7]) ∧
    Device.chainRep 2 [0,0,0,0x22, 0,0,0,0x11, 0x80,0,0,1, 9] = some ([0x22, 0x11], [0x80,0,0,1, 9]) := by decide

/-- a PAIRv1 message through a chain of forwarding hops (devices between raw PAIRv1 sockets), each with its own hop
    limit: what the last receiver hands on -/
def pair1Chain (g : GExpr) : List Nat → Bytes → Option (Bytes × Bytes)
 | [], _ => none
 | [ttl], w => pair1Recv g ttl w
 | ttl :: rest, w => match pair1Recv g ttl w with
   | none => none
   | some (h, b) => pair1Chain g rest (h ++ b)

/-- the hop word counts the receivers passed: a message that starts with hop count 0 and passes the receivers with hop
    limits `ttls` (in order) arrives iff receiver i (from 0) has hop limit at least i and i < 255; it then carries the
    count `ttls.length` and the unchanged payload -/
theorem pair1_chain (g : GExpr) (hg : Pair1DropOK g) (payload : Bytes) :
    ∀ (ttls : List Nat) (f : Nat), ttls ≠ [] → f + ttls.length < 256 →
    pair1Chain g ttls ([0, 0, 0, UInt8.ofNat f] ++ payload) =
      if (∀ i, (h : i < ttls.length) → f + i ≤ ttls[i] ∧ f + i < 255) then some ([0, 0, 0, UInt8.ofNat (f + ttls.length)], payload) else none := by
  intro ttls
  induction ttls with
  | nil => intro f h; exact absurd rfl h
  | cons t rest ih =>
    intro f _ hlen
    have hf : f < 256 := by simp at hlen; omega
    cases rest with
    | nil =>
      simp only [pair1Chain, List.length_singleton]
      rw [pair1_iff g hg t f hf payload]
      have : (∀ i, (h : i < 1) → f + i ≤ [t][i] ∧ f + i < 255) ↔ (f ≤ t ∧ f < 255) := by
        constructor
        · intro h; simpa using h 0 (by omega)
        · intro h i hi
          have : i = 0 := by omega
          subst this; simpa using h
      by_cases hc : f ≤ t ∧ f < 255
      · simp [hc]
      · have hn : ¬ (∀ i, (h : i < 1) → f + i ≤ [t][i] ∧ f + i < 255) := fun h => hc (this.mp h)
        simp [hc]
    | cons t2 rest2 =>
      simp only [pair1Chain]
      rw [pair1_iff g hg t f hf payload]
      by_cases hc : f ≤ t ∧ f < 255
      · simp only [hc, and_self, if_true]
        have hlen' : (f + 1) + (t2 :: rest2).length < 256 := by simp at hlen ⊢; omega
        have := ih (f + 1) (by simp) hlen'
        simp only [List.cons_append, List.nil_append] at this ⊢
        rw [this]
        have hiff : (∀ i, (h : i < (t2 :: rest2).length) → f + 1 + i ≤ (t2 :: rest2)[i] ∧ f + 1 + i < 255) ↔
            (∀ i, (h : i < (t :: t2 :: rest2).length) → f + i ≤ (t :: t2 :: rest2)[i] ∧ f + i < 255) := by
          constructor
          · intro h i hi
            cases i with
            | zero => simpa using hc
            | succ j =>
              have := h j (by simp at hi ⊢; omega)
              simp only [List.getElem_cons_succ]
              constructor
              · have := this.1; omega
              · have := this.2; omega
          · intro h i hi
            have := h (i + 1) (by simp at hi ⊢; omega)
            simp only [List.getElem_cons_succ] at this
            constructor
            · have := this.1; omega
            · have := this.2; omega
        have hl : f + 1 + (t2 :: rest2).length = f + (t :: t2 :: rest2).length := by simp; omega
        by_cases hall : (∀ i, (h : i < (t2 :: rest2).length) → f + 1 + i ≤ (t2 :: rest2)[i] ∧ f + 1 + i < 255)
        · rw [if_pos hall, if_pos (hiff.mp hall), hl]
        · have hn := fun h => hall (hiff.mpr h)
          rw [if_neg hall, if_neg hn]
      · have hn : ¬ (∀ i, (h : i < (t :: t2 :: rest2).length) → f + i ≤ (t :: t2 :: rest2)[i] ∧ f + i < 255) := by
          intro h
          have h0 := h 0 (by simp)
          simp only [List.getElem_cons_zero, Nat.add_zero] at h0
          exact hc h0
        rw [if_neg hc, if_neg hn]


/-- a STAR message relayed through a chain of hubs, each with its own hop limit: what the last one hands on -/
def starChain (g : GExpr) : List Nat → Bytes → Option (Bytes × Bytes)
 | [], _ => none
 | [ttl], w => starRecv g ttl w
 | ttl :: rest, w => match starRecv g ttl w with
   | none => none
   | some (h, b) => starChain g rest (h ++ b)

theorem u8_succ (f : Nat) (hf : f < 255) : (UInt8.ofNat f) + 1 = UInt8.ofNat (f + 1) := by
  apply UInt8.toNat_inj.mp
  simp [UInt8.toNat_add, UInt8.toNat_ofNat']

theorem u8_toNat (f : Nat) (hf : f < 256) : (UInt8.ofNat f).toNat = f := by
  simp [UInt8.toNat_ofNat']; omega

/-- the hop byte counts the hubs passed: a message that leaves its sender with hop byte f and passes hubs with hop limits
    `ttls` (in order) is relayed by all of them iff hub i (from 0) has hop limit greater than f + i; it then carries the
    hop byte f + `ttls.length` and the unchanged payload -/
theorem star_chain (g : GExpr) (hg : StarDropOK g) (payload : Bytes) :
    ∀ (ttls : List Nat) (f : Nat), ttls ≠ [] → f + ttls.length < 256 →
    starChain g ttls ([0, 0, 0, UInt8.ofNat f] ++ payload) =
      if (∀ i, (h : i < ttls.length) → f + i + 1 ≤ ttls[i]) then some ([0, 0, 0, UInt8.ofNat (f + ttls.length)], payload) else none := by
  intro ttls
  induction ttls with
  | nil => intro f h; exact absurd rfl h
  | cons t rest ih =>
    intro f _ hlen
    have hf : f < 255 := by simp at hlen; omega
    have hone := star_iff g hg t (UInt8.ofNat f) payload
    rw [u8_toNat f (by omega), u8_succ f hf] at hone
    cases rest with
    | nil =>
      simp only [starChain, List.length_singleton]
      rw [hone]
      have : (∀ i, (h : i < 1) → f + i + 1 ≤ [t][i]) ↔ f + 1 ≤ t := by
        constructor
        · intro h; simpa using h 0 (by omega)
        · intro h i hi
          have : i = 0 := by omega
          subst this; simpa using h
      by_cases hc : f + 1 ≤ t
      · rw [if_pos hc, if_pos (this.mpr hc)]
      · rw [if_neg hc, if_neg (fun h => hc (this.mp h))]
    | cons t2 rest2 =>
      simp only [starChain]
      rw [hone]
      by_cases hc : f + 1 ≤ t
      · simp only [hc, if_true]
        have hlen' : (f + 1) + (t2 :: rest2).length < 256 := by simp at hlen ⊢; omega
        have := ih (f + 1) (by simp) hlen'
        simp only [List.cons_append, List.nil_append] at this ⊢
        rw [this]
        have hiff : (∀ i, (h : i < (t2 :: rest2).length) → f + 1 + i + 1 ≤ (t2 :: rest2)[i]) ↔
            (∀ i, (h : i < (t :: t2 :: rest2).length) → f + i + 1 ≤ (t :: t2 :: rest2)[i]) := by
          constructor
          · intro h i hi
            cases i with
            | zero => simpa using hc
            | succ j =>
              have := h j (by simp at hi ⊢; omega)
              simp only [List.getElem_cons_succ]
              omega
          · intro h i hi
            have := h (i + 1) (by simp at hi ⊢; omega)
            simp only [List.getElem_cons_succ] at this
            omega
        have hl : f + 1 + (t2 :: rest2).length = f + (t :: t2 :: rest2).length := by simp; omega
        by_cases hall : (∀ i, (h : i < (t2 :: rest2).length) → f + 1 + i + 1 ≤ (t2 :: rest2)[i])
        · rw [if_pos hall, if_pos (hiff.mp hall), hl]
        · rw [if_neg hall, if_neg (fun h => hall (hiff.mpr h))]
      · have hn : ¬ (∀ i, (h : i < (t :: t2 :: rest2).length) → f + i + 1 ≤ (t :: t2 :: rest2)[i]) := by
          intro h
          have h0 := h 0 (by simp)
          simp only [List.getElem_cons_zero, Nat.add_zero] at h0
          exact hc h0
        rw [if_neg hc, if_neg hn]


/-- the raw REQ socket a device forwards requests through (XREQ send side, `Model/Proto/Xreq.lean`): in every state the
    socket can reach — any order of Sends, pipes coming, going, stalling and completing, whichever waiting sender goroutine
    the runtime lets take each message — the messages taken by pipes so far, then the queue, then the messages of blocked
    Sends are exactly the messages the socket accepted (or is still asked to accept), in call order: each is handed to one
    pipe, once, in order; nothing is invented and nothing overtakes -/
theorem xreq_forwards_each_message_once_in_order (s : Proto.Xreq.State) (hr : Proto.Xreq.Reach s) :
    Proto.Xreq.line s = s.asked ∧ (s.handed.map (·.2)) <+: s.asked :=
  ⟨Proto.Xreq.line_is_what_was_asked s hr, Proto.Xreq.taken_is_a_prefix_of_asked s hr⟩


/-- the receive side of the raw request-id sockets a device reads replies and responses from (XREQ, XSURVEYOR;
    `Model/Proto/RawRecv.lean`): in every state the socket can reach — any order of arrivals on any pipes, Recvs, pipe
    removals, queue-length changes and Close — what Recv returned so far, then the queue, then what the receivers hold
    is, with header and body glued together again, in order part of what was read from the pipes: every message is
    delivered at most once, in arrival order (per connection: the peer's send order), and nothing is invented -/
theorem rawrecv_delivers_in_order_at_most_once (s : Proto.RawRecv.State) (hr : Proto.RawRecv.Reach s) :
    ((Proto.RawRecv.line s).map Proto.RawRecv.glue).Sublist s.rin :=
  (Proto.RawRecv.reach_inv s hr).order

/-- … restricted to one connection: what was delivered, queued or is held from pipe `p` is, in order, part of what that
    peer sent — the peer's send order is kept on every connection, whatever the other connections do -/
theorem rawrecv_per_connection_order (s : Proto.RawRecv.State) (hr : Proto.RawRecv.Reach s) (p : Nat) :
    (((Proto.RawRecv.line s).map Proto.RawRecv.glue).filter (fun x => x.1 = p)).Sublist (s.rin.filter (fun x => x.1 = p)) :=
  (Proto.RawRecv.reach_inv s hr).order.filter _

/-- … and what Recv returns on XREQ / XSURVEYOR is split exactly at byte four: the header is the four-byte id the
    message arrived with (the socket's kind never changes along a history: `reachFrom_kind`) -/
theorem rawrecv_header_is_the_first_four_bytes (s : Proto.RawRecv.State) (hr : Proto.RawRecv.ReachFrom Proto.RawRecv.init s) :
    ∀ x ∈ s.rout, x.2.1.length = 4 := by
  intro x hx
  have hk := (Proto.RawRecv.reachFrom_kind _ s hr).1
  have hi := (Proto.RawRecv.reach_inv s (Proto.RawRecv.reachFrom_reach _ s Proto.RawRecv.Reach.init hr)).hdr4 x
    (by simp [Proto.RawRecv.line, hx])
  rw [hk] at hi
  exact hi

/-- XSUB (the raw subscriber a device reads publications from) hands every message over whole, with an empty header -/
theorem xsub_hands_messages_over_whole (s : Proto.RawRecv.State) (hr : Proto.RawRecv.ReachFrom Proto.RawRecv.initSub s) :
    (∀ x ∈ s.rout, x.2.1 = []) ∧ ((Proto.RawRecv.line s).map Proto.RawRecv.glue).Sublist s.rin := by
  have hk := (Proto.RawRecv.reachFrom_kind _ s hr).1
  have inv := Proto.RawRecv.reach_inv s (Proto.RawRecv.reachFrom_reach _ s Proto.RawRecv.Reach.initSub hr)
  refine ⟨?_, inv.order⟩
  intro x hx
  have hi := inv.hdr4 x (by simp [Proto.RawRecv.line, hx])
  rw [hk] at hi
  exact List.eq_nil_of_length_eq_zero hi

/-- the progress side, as far as a safety invariant carries it: over every history of XREQ / XSURVEYOR / XSUB a Recv is
    blocked only when nothing is there for it — no message queued, none held by a receiver, none waiting to be read on
    any connection (the receivers' internal steps always run to exhaustion, a decreasing measure below the model's fuel) -/
theorem rawrecv_recv_blocks_only_when_nothing_is_there (s : Proto.RawRecv.State) (hr : Proto.RawRecv.Reach s)
    (hne : s.parkedRecv ≠ []) : s.recvQ = [] ∧ s.held = [] ∧ s.backlog = [] :=
  Proto.RawRecv.recv_blocks_only_when_nothing_is_there s hr hne

/-- a body too short to carry an id is read and dropped: it is never queued, held or returned -/
theorem rawrecv_drops_short_bodies (s : Proto.RawRecv.State) (p : Nat) (b : Bytes) (hs : b.length < s.idLen)
    (hf : s.backlog.find? (fun pb => !(s.held.any (fun x => x.1 == pb.1))) = some (p, b)) :
    ∃ s', Proto.RawRecv.nextBacklog s = some (s', []) ∧ Proto.RawRecv.line s' = Proto.RawRecv.line s ∧ s'.rin = s.rin ++ [(p, b)] := by
  refine ⟨{ s with backlog := s.backlog.erase (p, b), rin := s.rin ++ [(p, b)] }, ?_, rfl, rfl⟩
  unfold Proto.RawRecv.nextBacklog
  rw [hf]
  simp only [hs, if_true]

/-- non-vacuity: the invariant is satisfiable with traffic in every position (a returned message, a queued one, a held
    one, and a short body that was read and dropped in between) -/
example : Proto.RawRecv.Inv { rout := [(1, ([0x80, 0, 0, 1], [0xaa]))], recvQ := [(2, ([0x80, 0, 0, 2], []))],
                              held := [(1, ([0x80, 0, 0, 3], [7]))],
                              rin := [(1, [0x80, 0, 0, 1, 0xaa]), (1, [0x80]), (2, [0x80, 0, 0, 2]), (1, [0x80, 0, 0, 3, 7])] } :=
  ⟨by decide, by decide⟩
example : Proto.RawRecv.Reach Proto.RawRecv.init := Proto.RawRecv.Reach.init

/-! ### `mangos.Device` itself (device.go, `Model/DevicePlumb.lean`): which sockets it joins -/

/-- Device succeeds exactly for two raw sockets naming each other as peer protocol; in either order; never with a
    cooked socket; one forwarder per direction -/
theorem device_joins_exactly_raw_peers (x y : DevicePlumb.Sock) (same : Bool) :
    ((DevicePlumb.plumb (some x) (some y) same).isOk = true ↔
      x.self = y.peer ∧ y.self = x.peer ∧ x.raw = some true ∧ y.raw = some true) ∧
    (DevicePlumb.plumb (some x) (some y) same).isOk = (DevicePlumb.plumb (some y) (some x) same).isOk :=
  ⟨DevicePlumb.plumb_ok_iff x y same, DevicePlumb.plumb_ok_symm x y same⟩

/-- forwarding loops die out: each crossing adds one word, so after ttl+1 crossings it is dropped -/
theorem loop_dies (P : HopSite) (hwf : WellFormed P) (ttl : Nat) (hdr0 : Bytes) (ws : List Word) (idw : Word)
    (payload : Bytes) (hws : ∀ w ∈ ws, w.top = false) (hid : idw.top = true) (hlong : ttl < ws.length + 1) :
    recv P ttl hdr0 (flat ws ++ idw.bytes ++ payload) = none := by
  rw [deliver_iff P hwf ttl hdr0 ws idw payload hws hid]
  simp; omega

/-- TTL option: accepted iff 1 ≤ v ≤ 255 -/
def TtlGuardOK (g : GExpr) : Prop := ∀ v : Int, g.holds (fun n => if n = "v" then v else 0) = decide (1 ≤ v ∧ v ≤ 255)

example : (recv ⟨1, .gt (.var "hops") (.var "ttl"), []⟩ 2 [] (flat [⟨0,0,0,1⟩] ++ (Word.bytes ⟨0x80,0,0,1⟩) ++ [7])).isSome = true := by decide
example : (recv ⟨1, .ge (.var "hops") (.var "ttl"), []⟩ 2 [] (flat [⟨0,0,0,1⟩] ++ (Word.bytes ⟨0x80,0,0,1⟩) ++ [7])).isSome = false := by decide

end Props.C09
