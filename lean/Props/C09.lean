/-
  C09 — devices forward transparently and the hop limit is exact.  Property theorems only.
-/
import Model.HopLemmas
import Model.Device
namespace Props.C09
open Model Model.Hop

/-- REP / XREP / RESPONDENT / XRESPONDENT: a request that has crossed k connections carries k routing
    words (k-1 pipe ids with bit 31 clear, then the request id with bit 31 set).  With a well-formed
    hop site it is delivered iff k ≤ TTL, with exactly those k words moved to the header (after whatever
    the receiver put there first) and the payload unchanged — for every TTL, k, ids and payload. -/
theorem deliver_iff (P : HopSite) (hwf : WellFormed P) (ttl : Nat) (hdr0 : Bytes) (ws : List Word) (idw : Word)
    (payload : Bytes) (hws : ∀ w ∈ ws, w.top = false) (hid : idw.top = true) :
    recv P ttl hdr0 (flat ws ++ idw.bytes ++ payload) =
      if ws.length + 1 ≤ ttl then some (hdr0 ++ flat ws ++ idw.bytes, payload) else none :=
  recv_words P hwf ttl hdr0 ws idw payload hws hid

theorem delivered_iff_le (P : HopSite) (hwf : WellFormed P) (ttl : Nat) (hdr0 : Bytes) (ws : List Word) (idw : Word)
    (payload : Bytes) (hws : ∀ w ∈ ws, w.top = false) (hid : idw.top = true) :
    (recv P ttl hdr0 (flat ws ++ idw.bytes ++ payload)).isSome ↔ ws.length + 1 ≤ ttl := by
  rw [deliver_iff P hwf ttl hdr0 ws idw payload hws hid]
  split <;> simp_all

/-- PAIR1 (xpair1 receiver): the hop word counts forwarders f; delivered iff f ≤ ttl and f < 255,
    and the count passed on is f+1 -/
def Pair1DropOK (g : GExpr) : Prop := ∀ hops ttl : Nat, g.holds (pair1Env hops ttl) = decide (hops ≥ 255 ∨ hops > ttl)

theorem pair1_iff (g : GExpr) (hg : Pair1DropOK g) (ttl f : Nat) (hf : f < 256) (payload : Bytes) :
    pair1Recv g ttl ([0, 0, 0, UInt8.ofNat f] ++ payload) =
      if f ≤ ttl ∧ f < 255 then some ([0, 0, 0, UInt8.ofNat (f + 1)], payload) else none := by
  have hd : beDec [0, 0, 0, UInt8.ofNat f] = f := by
    simp [beDec, Nat.mod_eq_of_lt hf]
  simp only [pair1Recv, List.cons_append, List.nil_append, hd]
  rw [hg]
  by_cases h : f ≤ ttl ∧ f < 255
  · have : ¬ (f ≥ 255 ∨ f > ttl) := by omega
    have hm : (f + 1) % 256 = f + 1 := by omega
    simp [h, this, hm]
  · have : (f ≥ 255 ∨ f > ttl) := by omega
    simp [h, this]

/-- STAR (xstar receiver): the hop byte counts forwarders f; delivered iff f < ttl (k = f+1 ≤ ttl) -/
def StarDropOK (g : GExpr) : Prop :=
  ∀ (blen : Nat) (b0 b1 b2 b3 : UInt8) (ttl : Nat),
    g.holds (starEnv blen b0 b1 b2 b3 ttl) = decide (blen < 4 ∨ b0 ≠ 0 ∨ b1 ≠ 0 ∨ b2 ≠ 0 ∨ b3.toNat ≥ ttl)

theorem star_iff (g : GExpr) (hg : StarDropOK g) (ttl : Nat) (f : UInt8) (payload : Bytes) :
    starRecv g ttl ([0, 0, 0, f] ++ payload) =
      if f.toNat + 1 ≤ ttl then some ([0, 0, 0, f + 1], payload) else none := by
  have hh := hg (0 :: 0 :: 0 :: f :: payload).length 0 0 0 f ttl
  simp only [starRecv, List.cons_append, List.nil_append, hh]
  by_cases h : f.toNat + 1 ≤ ttl
  · have : ¬ (f.toNat ≥ ttl) := by omega
    simp [h, this]
  · have : f.toNat ≥ ttl := by omega
    simp [h, this]

/-- *Devices forward transparently.*  A request (request id `idw`, any payload) sent by a client through any chain of
    devices — device i with hop limit `ds[i].1`, the request arriving on its pipe `ds[i].2` — reaches the far end iff
    every hop limit on the way allows it (device i sees i + 1 routing words), and then as: the path (one word per
    device, most recent first), the request id, the payload — unchanged. -/
theorem request_through_devices (P : HopSite) (hwf : WellFormed P) (ds : List (Nat × Nat)) (idw : Word) (payload : Bytes)
    (hid : idw.top = true) (hds : ∀ d ∈ ds, d.2 < 2147483648) :
    Device.chainReq P ds (idw.bytes ++ payload) =
      if Device.allows ds 0 then some (flat (Device.path ds) ++ idw.bytes ++ payload) else none := by
  have := Device.chainReq_words P hwf idw payload hid ds [] hds (by simp)
  simpa [flat] using this

/-- … and the server at the end of the chain (hop limit `ttl`, cooked REP / RESPONDENT: nothing in the header before the
    loop) is handed exactly the payload, with the path and the request id as the backtrace its reply will carry, iff the
    request crossed at most `ttl` connections (number of devices + 1) -/
theorem server_behind_devices (P Ps : HopSite) (hwf : WellFormed P) (hwfs : WellFormed Ps) (ds : List (Nat × Nat)) (ttl : Nat)
    (idw : Word) (payload : Bytes) (hid : idw.top = true) (hds : ∀ d ∈ ds, d.2 < 2147483648) :
    (Device.chainReq P ds (idw.bytes ++ payload)).bind (recv Ps ttl []) =
      if Device.allows ds 0 ∧ ds.length + 1 ≤ ttl then some (flat (Device.path ds) ++ idw.bytes, payload) else none := by
  rw [request_through_devices P hwf ds idw payload hid hds]
  by_cases ha : Device.allows ds 0 = true
  · simp only [ha, if_true, Option.bind_some, true_and]
    have hp : ∀ w ∈ Device.path ds, w.top = false := by
      intro w hw
      simp only [Device.path, List.mem_reverse, List.mem_map] at hw
      obtain ⟨d, hd, rfl⟩ := hw
      exact Device.pw_top d.2 (hds d hd)
    rw [recv_words Ps hwfs ttl [] (Device.path ds) idw payload hp hid]
    simp [Device.path]
  · simp [ha]

/-- the reply retraces the request: sent by the server with the backtrace of the request (path, request id) and any
    payload, it leaves every device on the pipe the request had come in on — the pipes chosen, server side first, are
    the arrival pipes in reverse — and what reaches the client's socket splits into the request id and the reply payload,
    unchanged.  For every number of devices, all pipe ids, every request id and payload. -/
theorem reply_retraces_request (ds : List (Nat × Nat)) (idw : Word) (reply : Bytes) (hds : ∀ d ∈ ds, d.2 < 2147483648) :
    Device.chainRep ds.length (Device.wire (flat (Device.path ds) ++ idw.bytes, reply)) =
        some ((ds.map (·.2)).reverse, idw.bytes ++ reply) ∧
      Parse.recv .hdr4 0 (idw.bytes ++ reply) = some (idw.bytes, reply) := by
  refine ⟨?_, Device.client_sees_reply idw reply⟩
  have hps : ∀ p ∈ (ds.map (·.2)).reverse, p < 2147483648 := by
    intro p hp
    simp only [List.mem_reverse, List.mem_map] at hp
    obtain ⟨d, hd, rfl⟩ := hp
    exact hds d hd
  have := Device.chainRep_path idw reply (ds.map (·.2)).reverse hps
  have hpath : Device.path ds = ((ds.map (·.2)).reverse).map Device.pw := by
    simp [Device.path, List.map_reverse]
  simp only [List.length_reverse, List.length_map] at this
  simp only [Device.wire, hpath, List.append_assoc] at this ⊢
  exact this

/-- non-vacuity: two devices (pipes 0x11 and 0x22 at hop limits 8), request id 0x80000001 -/
example :
    Device.chainReq ⟨1, .gt (.var "hops") (.var "ttl"), []⟩ [(8, 0x11), (8, 0x22)] ((Word.bytes ⟨0x80,0,0,1⟩) ++ [7, 7]) =
      some ([0,0,0,0x22, 0,0,0,0x11, 0x80,0,0,1, 7, 7]) ∧
    Device.chainRep 2 [0,0,0,0x22, 0,0,0,0x11, 0x80,0,0,1, 9] = some ([0x22, 0x11], [0x80,0,0,1, 9]) := by decide

/-- forwarding loops die out: each crossing adds one word, so after ttl+1 crossings it is dropped -/
theorem loop_dies (P : HopSite) (hwf : WellFormed P) (ttl : Nat) (hdr0 : Bytes) (ws : List Word) (idw : Word)
    (payload : Bytes) (hws : ∀ w ∈ ws, w.top = false) (hid : idw.top = true) (hlong : ttl < ws.length + 1) :
    recv P ttl hdr0 (flat ws ++ idw.bytes ++ payload) = none := by
  rw [deliver_iff P hwf ttl hdr0 ws idw payload hws hid]
  simp; omega

/-- TTL option: accepted iff 1 ≤ v ≤ 255 -/
def TtlGuardOK (g : GExpr) : Prop := ∀ v : Int, g.holds (fun n => if n = "v" then v else 0) = decide (1 ≤ v ∧ v ≤ 255)

example : (recv ⟨1, .gt (.var "hops") (.var "ttl"), []⟩ 2 [] (flat [⟨0,0,0,1⟩] ++ (Word.bytes ⟨0x80,0,0,1⟩) ++ [7])).isSome = true := by decide
example : (recv ⟨1, .ge (.var "hops") (.var "ttl"), []⟩ 2 [] (flat [⟨0,0,0,1⟩] ++ (Word.bytes ⟨0x80,0,0,1⟩) ++ [7])).isSome = false := by decide

end Props.C09
