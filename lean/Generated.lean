import Generated.Facts
