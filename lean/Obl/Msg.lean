/-
  Obl/Msg.lean — per-run obligation: message.go's reference-count operations are the ones Model/Ledger.lean models.
-/
import Generated.Facts
namespace Obl.Msg

/-- Free decrements atomically and returns the buffer to the pool of its size class exactly when the count reaches
    zero; Clone increments atomically; MakeUnique returns the message itself iff the count is 1, else a Dup followed by
    Free of the original; Dup is a deep copy into a NewMessage; NewMessage resets Body / Header to the empty buffers
    and stores count 1 (calls to the verif-tag ledger are not part of the shapes) -/
theorem refcount_operations : Generated.msgShapes = [
    ("Free", ["if m!=nil", ">n:=atomic.AddInt32(&m.refcnt,-1)", ">if n==0", ">>range messageCache", ">>>if m.bsize==messageCache[i].maxbody", ">>>>messageCache[i].pool.Put(m)", ">>>>return "]),
    ("Clone", ["atomic.AddInt32(&m.refcnt,1)"]),
    ("MakeUnique", ["if atomic.LoadInt32(&m.refcnt)==1", ">return m", "d:=m.Dup()", "m.Free()", "return d"]),
    ("Dup", ["dup:=NewMessage(len(m.Body))", "dup.Body=append(dup.Body,m.Body)", "dup.Header=append(dup.Header,m.Header)", "dup.Pipe=m.Pipe", "return dup"]),
    ("NewMessage", ["<*ast.DeclStmt>", "range messageCache", ">if sz<messageCache[i].maxbody", ">>m=messageCache[i].pool.Get().(*Message)", ">>break", "if m==nil", ">m=newMsg(sz)", "m.Body=m.bbuf", "m.Header=m.hbuf", "atomic.StoreInt32(&m.refcnt,1)", "return m"])] := by decide

/-- the places where a protocol changes a message it was handed first make it their own (`Message.MakeUnique`): SUB's
    RecvMsg (the application gets a private copy of a fan-out message), SURVEYOR's Send, XBUS's Send (which strips the
    origin header of a forwarded message) and XPAIR1's receiver (which bumps the hop count) -/
theorem private_copy_before_change :
    Generated.makeUniqueSites = ["protocol/sub:context.RecvMsg", "protocol/surveyor:context.SendMsg",
      "protocol/xbus:socket.SendMsg", "protocol/xpair1:pipe.receiver"] := by decide

end Obl.Msg
