/-
  Obl/Ids.lean — per-run obligations on request / survey ids and the short-body guards of the receivers.
-/
import Generated.Facts
import Model.Tactics
namespace Obl.Ids
open Model

/-- REQ request ids and SURVEYOR survey ids carry the request bit 0x80000000 -/
theorem id_masks : Generated.idMask_req = 0x80000000 ∧ Generated.idMask_surveyor = 0x80000000 := by decide

/-- every receiver that splits a 4-byte id / routing word first refuses bodies shorter than 4 bytes -/
theorem short_body_guards :
    Generated.shortBodyGuards.map (·.1) = ["rep", "req", "respondent", "surveyor", "xpair1", "xrep", "xreq", "xrespondent", "xrespondent", "xsurveyor"]
    ∧ Generated.shortBodyGuards.all (fun g => g.2 == .lt (.var "blen") (.lit 4)) = true := by decide

end Obl.Ids
