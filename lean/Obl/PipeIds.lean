/-
  Obl/PipeIds.lean — raw protocols (XREP, XRESPONDENT, XBUS) route by pipe id: a reply for a connection that has gone
  is discarded because its id names no pipe.  That rests on the allocator not handing a released id to the next
  connection: the counter only moves forward.  Regenerated from internal/core/pipe.go on every run.
-/
import Generated.Facts
namespace Obl.PipeIds

/-- the allocator's counter is seeded once and otherwise only incremented, by `Get`; releasing an id does not touch it -/
theorem counter_only_moves_forward :
    Generated.allocCounterWrites = ["Get: p.next=binary.BigEndian.Uint32(b)", "Get: p.next++"] := by decide

end Obl.PipeIds
