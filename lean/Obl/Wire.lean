/-
  Obl/Wire.lean — per-run obligations on the facts regenerated from transport/conn.go,
  transport/connipc_posix.go, transport/ws/ws.go, message.go, protocol.go.
-/
import Model.WireLemmas
import Model.Tactics
import Model.Pool
import Generated.Facts
namespace Obl.Wire
open Model Model.Wire

theorem conn_guard_ok : GuardOK Generated.connRecvGuard := by
  intro sz maxrx
  simp only [Generated.connRecvGuard, rejects, rejectSpec, GExpr.holds, GExpr.evalI, guardEnv]
  simp
theorem ipc_guard_ok : GuardOK Generated.ipcRecvGuard := by
  intro sz maxrx
  simp only [Generated.ipcRecvGuard, rejects, rejectSpec, GExpr.holds, GExpr.evalI, guardEnv]
  simp

theorem hs_checks_ok : HsChecksOK Generated.hsChecks := by
  intro zero s p ver proto res peer
  simp only [Generated.hsChecks, firstFail, hsSpec, GExpr.holds, GExpr.evalI, hsEnv]
  simp
  close_guard

end Obl.Wire

namespace Obl.Wire
open Model Model.Wire

/-- the length prefix is 8 bytes big-endian of len(Header)+len(Body); header then body follow -/
theorem conn_send_shape :
    Generated.connSendLenBytes = 8 ∧ Generated.connSendPut = "binary.BigEndian.PutUint64(lbyte,l)"
    ∧ Generated.connSendOrder = ["lbyte", "msg.Header", "msg.Body"] ∧ Generated.connSendPrefix = -1 := by decide
theorem ipc_send_shape :
    Generated.ipcSendLenBytes = 9 ∧ Generated.ipcSendPut = "binary.BigEndian.PutUint64(lbyte[1:],l)"
    ∧ Generated.ipcSendOrder = ["lbyte", "msg.Header", "msg.Body"] ∧ Generated.ipcSendPrefix = 1 := by decide
theorem conn_send_len : ∀ h b : Int, Generated.connSendLen.evalI (Pool.env2 "hlen" h "blen" b) = h + b := by
  intro h b; simp [Generated.connSendLen, GExpr.evalI, Pool.env2]
theorem ipc_send_len : ∀ h b : Int, Generated.ipcSendLen.evalI (Pool.env2 "hlen" h "blen" b) = h + b := by
  intro h b; simp [Generated.ipcSendLen, GExpr.evalI, Pool.env2]
/-- the receive side reads an int64 big-endian length (after one prefix byte on IPC), allocates exactly
    `sz`, slices Body[0:sz] and fills it with ReadFull; the size guard precedes the allocation -/
theorem conn_recv_shape :
    Generated.connRecvReads = ["binary.Read(p.c,binary.BigEndian,&sz)", "io.ReadFull(p.c,msg.Body)", "var sz int64"]
    ∧ Generated.connRecvAlloc = .var "sz" ∧ Generated.connRecvSlice = .var "sz" ∧ Generated.connGuardBeforeAlloc = true := by decide
theorem ipc_recv_shape :
    Generated.ipcRecvReads = ["p.c.Read(one[:])", "binary.Read(p.c,binary.BigEndian,&sz)", "io.ReadFull(p.c,msg.Body)", "var sz int64", "var one []byte"]
    ∧ Generated.ipcRecvAlloc = .var "sz" ∧ Generated.ipcRecvSlice = .var "sz" ∧ Generated.ipcGuardBeforeAlloc = true := by decide
/-- websocket: one binary message = header then body; read limit = configured maximum -/
theorem ws_shape :
    Generated.wsSendShape = ["append(buf,m.Header)", "append(buf,m.Body)", "w.ws.WriteMessage(w.dtype,buf)"]
    ∧ Generated.wsReadLimits = ["int64(maxrx)", "int64(maxrx)"] := by decide
/-- handshake header layout and what this side writes -/
theorem hs_layout :
    Generated.hsLayout = ["Zero:byte", "S:byte", "P:byte", "Version:byte", "Proto:uint16", "Reserved:uint16"]
    ∧ Generated.hsInit = [("S", .lit 83), ("P", .lit 80), ("Proto", .var "self")]
    ∧ Generated.hsIO = ["binary.Write(p.c,binary.BigEndian,&h)", "binary.Read(p.c,binary.BigEndian,&h)"] := by decide

def poolParams : Pool.Params :=
  { classes := Generated.poolClasses, pick := Generated.poolPick, free := Generated.poolFree,
    fallback := Generated.poolFallbackSize, bodyLen := Generated.newMsgBodyLen,
    bodyCap := Generated.newMsgBodyCap, bsize := Generated.newMsgBsize }

theorem pool_wf : Pool.WellFormed poolParams := by
  constructor
  · intro c hc sz hp
    simp only [poolParams, Generated.poolClasses] at hc
    simp only [Pool.picks, poolParams, Generated.poolPick, GExpr.holds, GExpr.evalI, Pool.env2] at hp
    simp at hp hc
    rcases hc with rfl | rfl | rfl | rfl | rfl | rfl | rfl | rfl <;> simp at hp ⊢ <;> omega
  · intro c hc bs hf
    simp only [Pool.frees, poolParams, Generated.poolFree, GExpr.holds, GExpr.evalI, Pool.env2] at hf
    simp at hf
    omega
  · intro sz
    simp [poolParams, Generated.poolFallbackSize, GExpr.evalI, Pool.env2]
  · intro sz
    simp [Pool.newMsg, poolParams, Generated.newMsgBodyCap, Generated.newMsgBsize, GExpr.evalI, Pool.env2]
  · intro sz
    simp [poolParams, Generated.newMsgBodyLen, GExpr.evalI]

theorem new_message_resets : Generated.newMessageResets = ["m.Body=m.bbuf", "m.Header=m.hbuf"] := by decide

/-- the byte-level code of the transports, statement by statement, is the code the wire model was written against:
    `conn.Recv` reads the 64-bit length, refuses before allocating, allocates exactly `sz`, fills the body with one
    ReadFull and frees the message when that fails; `conn.Send` writes length, header, body with one gathered write and
    releases the message only after the write succeeded (on failure it stays with the caller); the handshake writes
    then reads one header and checks zero / 'S' / 'P' / reserved, version, protocol in that order, closing the
    connection on every failure; the ipc variants differ by the leading type byte only; the WebSocket pipe sends header
    and body as one binary message and frees only after a successful write; inproc copies header and body into a new
    message for the receiver; the core pipe closes itself on a transport error and stamps received messages with
    their pipe.  Any edit to these functions re-opens this obligation. -/
theorem transport_shapes : Generated.transportShapes = [
  ("transport:conn.Recv", ["var sz int64", "var err error", "var msg *Message", "if err=binary.Read(p.c,binary.BigEndian,&sz); err!=nil", ">return nil,err", "if sz<0||(p.maxrx>0&&sz>int64(p.maxrx))", ">return nil,mangos.ErrTooLong", "msg=mangos.NewMessage(int(sz))", "msg.Body=msg.Body[0:sz]", "if _,err=io.ReadFull(p.c,msg.Body); err!=nil", ">msg.Free()", ">return nil,err", "return msg,nil"]),
  ("transport:conn.Send", ["var buff=net.Buffers{…}", "l:=uint64(len(msg.Header)+len(msg.Body))", "lbyte:=make([]byte,8)", "binary.BigEndian.PutUint64(lbyte,l)", "buff=append(buff,lbyte,msg.Header,msg.Body)", "if _,err:=buff.WriteTo(p.c); err!=nil", ">return err", "msg.Free()", "return nil"]),
  ("transport:conn.handshake", ["var err error", "h:=connHeader{…}", "if err=binary.Write(p.c,binary.BigEndian,&h); err!=nil", ">return err", "if err=binary.Read(p.c,binary.BigEndian,&h); err!=nil", ">_=p.c.Close()", ">return err", "if h.Zero!=0||h.S!='S'||h.P!='P'||h.Reserved!=0", ">_=p.c.Close()", ">return mangos.ErrBadHeader", "if h.Version!=0", ">_=p.c.Close()", ">return mangos.ErrBadVersion", "if h.Proto!=p.proto.Peer", ">_=p.c.Close()", ">return mangos.ErrBadProto", "if tc,ok:=p.c.(*tls.Conn); ok", ">p.options[mangos.OptionTLSConnState]=tc.ConnectionState()", "return nil"]),
  ("transport:connipc.Recv", ["var sz int64", "var err error", "var msg *Message", "var one []byte", "if _,err=p.c.Read(one[:]); err!=nil", ">return nil,err", "if err=binary.Read(p.c,binary.BigEndian,&sz); err!=nil", ">return nil,err", "if sz<0||(p.maxrx>0&&sz>int64(p.maxrx))", ">return nil,mangos.ErrTooLong", "msg=mangos.NewMessage(int(sz))", "msg.Body=msg.Body[0:sz]", "if _,err=io.ReadFull(p.c,msg.Body); err!=nil", ">msg.Free()", ">return nil,err", "return msg,nil"]),
  ("transport:connipc.Send", ["var buff=net.Buffers{…}", "l:=uint64(len(msg.Header)+len(msg.Body))", "lbyte:=make([]byte,9)", "lbyte[0]=1", "binary.BigEndian.PutUint64(lbyte[1:],l)", "buff=append(buff,lbyte,msg.Header,msg.Body)", "if _,err:=buff.WriteTo(p.c); err!=nil", ">return err", "msg.Free()", "return nil"]),
  ("transport/ws:wsPipe.Recv", ["_,body,err:=w.ws.ReadMessage()", "if err!=nil", ">return nil,err", "msg:=mangos.NewMessage(0)", "msg.Body=body", "return msg,nil"]),
  ("transport/ws:wsPipe.Send", ["var buf []byte", "if len(m.Header)>0", ">buf=make([]byte,0,len(m.Header)+len(m.Body))", ">buf=append(buf,m.Header)", ">buf=append(buf,m.Body)", "else", ">buf=m.Body", "if err:=w.ws.WriteMessage(w.dtype,buf); err!=nil", ">return err", "m.Free()", "return nil"]),
  ("transport/inproc:inproc.Recv", ["select", ">case m:=<-p.rq", ">>return m,nil", ">case <-p.closeq", ">>return nil,mangos.ErrClosed", ">case <-p.peer.closeq", ">>return nil,mangos.ErrClosed"]),
  ("transport/inproc:inproc.Send", ["nmsg:=mangos.NewMessage(len(m.Header)+len(m.Body))", "nmsg.Body=append(nmsg.Body,m.Header)", "nmsg.Body=append(nmsg.Body,m.Body)", "select", ">case p.wq<-nmsg", ">>return nil", ">case <-p.closeq", ">>nmsg.Free()", ">>return mangos.ErrClosed", ">case <-p.peer.closeq", ">>nmsg.Free()", ">>return mangos.ErrClosed"]),
  ("internal/core:pipe.SendMsg", ["if err:=p.p.Send(msg); err!=nil", ">_=p.Close()", ">return err", "return nil"]),
  ("internal/core:pipe.RecvMsg", ["msg,err:=p.p.Recv()", "if err!=nil", ">_=p.Close()", ">return nil", "msg.Pipe=p", "return msg"])
] := by decide

end Obl.Wire
