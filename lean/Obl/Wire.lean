/-
  Obl/Wire.lean — per-run obligations on the facts regenerated from transport/conn.go,
  transport/connipc_posix.go, transport/ws/ws.go, message.go, protocol.go.
-/
import Model.WireLemmas
import Model.Tactics
import Model.Pool
import Generated.Facts
namespace Obl.Wire
open Model Model.Wire

theorem conn_guard_ok : GuardOK Generated.connRecvGuard := by
  intro sz maxrx
  simp only [Generated.connRecvGuard, rejects, rejectSpec, GExpr.holds, GExpr.evalI, guardEnv]
  simp
theorem ipc_guard_ok : GuardOK Generated.ipcRecvGuard := by
  intro sz maxrx
  simp only [Generated.ipcRecvGuard, rejects, rejectSpec, GExpr.holds, GExpr.evalI, guardEnv]
  simp

theorem hs_checks_ok : HsChecksOK Generated.hsChecks := by
  intro zero s p ver proto res peer
  simp only [Generated.hsChecks, firstFail, hsSpec, GExpr.holds, GExpr.evalI, hsEnv]
  simp
  close_guard

end Obl.Wire

namespace Obl.Wire
open Model Model.Wire

/-- the length prefix is 8 bytes big-endian of len(Header)+len(Body); header then body follow -/
theorem conn_send_shape :
    Generated.connSendLenBytes = 8 ∧ Generated.connSendPut = "binary.BigEndian.PutUint64(lbyte,l)"
    ∧ Generated.connSendOrder = ["lbyte", "msg.Header", "msg.Body"] ∧ Generated.connSendPrefix = -1 := by decide
theorem ipc_send_shape :
    Generated.ipcSendLenBytes = 9 ∧ Generated.ipcSendPut = "binary.BigEndian.PutUint64(lbyte[1:],l)"
    ∧ Generated.ipcSendOrder = ["lbyte", "msg.Header", "msg.Body"] ∧ Generated.ipcSendPrefix = 1 := by decide
theorem conn_send_len : ∀ h b : Int, Generated.connSendLen.evalI (Pool.env2 "hlen" h "blen" b) = h + b := by
  intro h b; simp [Generated.connSendLen, GExpr.evalI, Pool.env2]
theorem ipc_send_len : ∀ h b : Int, Generated.ipcSendLen.evalI (Pool.env2 "hlen" h "blen" b) = h + b := by
  intro h b; simp [Generated.ipcSendLen, GExpr.evalI, Pool.env2]
/-- the receive side reads an int64 big-endian length (after one prefix byte on IPC), allocates exactly
    `sz`, slices Body[0:sz] and fills it with ReadFull; the size guard precedes the allocation -/
theorem conn_recv_shape :
    Generated.connRecvReads = ["binary.Read(p.c,binary.BigEndian,&sz)", "io.ReadFull(p.c,msg.Body)", "var sz int64"]
    ∧ Generated.connRecvAlloc = .var "sz" ∧ Generated.connRecvSlice = .var "sz" ∧ Generated.connGuardBeforeAlloc = true := by decide
theorem ipc_recv_shape :
    Generated.ipcRecvReads = ["p.c.Read(one[:])", "binary.Read(p.c,binary.BigEndian,&sz)", "io.ReadFull(p.c,msg.Body)", "var sz int64", "var one []byte"]
    ∧ Generated.ipcRecvAlloc = .var "sz" ∧ Generated.ipcRecvSlice = .var "sz" ∧ Generated.ipcGuardBeforeAlloc = true := by decide
/-- websocket: one binary message = header then body; read limit = configured maximum -/
theorem ws_shape :
    Generated.wsSendShape = ["append(buf,m.Header)", "append(buf,m.Body)", "w.ws.WriteMessage(w.dtype,buf)"]
    ∧ Generated.wsReadLimits = ["int64(maxrx)", "int64(maxrx)"] := by decide
/-- handshake header layout and what this side writes -/
theorem hs_layout :
    Generated.hsLayout = ["Zero:byte", "S:byte", "P:byte", "Version:byte", "Proto:uint16", "Reserved:uint16"]
    ∧ Generated.hsInit = [("S", .lit 83), ("P", .lit 80), ("Proto", .var "self")]
    ∧ Generated.hsIO = ["binary.Write(p.c,binary.BigEndian,&h)", "binary.Read(p.c,binary.BigEndian,&h)"] := by decide

def poolParams : Pool.Params :=
  { classes := Generated.poolClasses, pick := Generated.poolPick, free := Generated.poolFree,
    fallback := Generated.poolFallbackSize, bodyLen := Generated.newMsgBodyLen,
    bodyCap := Generated.newMsgBodyCap, bsize := Generated.newMsgBsize }

theorem pool_wf : Pool.WellFormed poolParams := by
  constructor
  · intro c hc sz hp
    simp only [poolParams, Generated.poolClasses] at hc
    simp only [Pool.picks, poolParams, Generated.poolPick, GExpr.holds, GExpr.evalI, Pool.env2] at hp
    simp at hp hc
    rcases hc with rfl | rfl | rfl | rfl | rfl | rfl | rfl | rfl <;> simp at hp ⊢ <;> omega
  · intro c hc bs hf
    simp only [Pool.frees, poolParams, Generated.poolFree, GExpr.holds, GExpr.evalI, Pool.env2] at hf
    simp at hf
    omega
  · intro sz
    simp [poolParams, Generated.poolFallbackSize, GExpr.evalI, Pool.env2]
  · intro sz
    simp [Pool.newMsg, poolParams, Generated.newMsgBodyCap, Generated.newMsgBsize, GExpr.evalI, Pool.env2]
  · intro sz
    simp [poolParams, Generated.newMsgBodyLen, GExpr.evalI]

theorem new_message_resets : Generated.newMessageResets = ["m.Body=m.bbuf", "m.Header=m.hbuf"] := by decide

end Obl.Wire
