/-
  Obl/Sub.lean — per-run obligations on protocol/sub's byte comparisons.
-/
import Generated.Facts
namespace Obl.Sub

/-- a message matches when its *body* has the *subscription* as prefix (operand order matters) -/
theorem matches_is_prefix_of_body : Generated.subMatches = ["bytes.HasPrefix(m.Body,sub)"] := by decide
/-- duplicate detection on subscribe is exact equality -/
theorem subscribe_dedup_is_equal : Generated.subSubscribe = ["bytes.Equal(sub,topic)"] := by decide
/-- unsubscribe removes the entry that is exactly equal -/
theorem unsubscribe_is_equal : Generated.subUnsubscribe = ["!", "bytes.Equal(sub,topic)"] := by decide

end Obl.Sub
