/-
  Obl/RawRecv.lean — per-run obligation behind Model/Proto/RawRecv.lean: the statement lists of the receiver goroutine
  and RecvMsg of XREQ, XSURVEYOR and XSUB are the ones the machine was written against (bodies shorter than the id are
  dropped, the first four bytes become the header, a queue-length change drops what a receiver holds; XSUB never
  holds).  Any edit to these functions re-opens the obligation; the correspondence (`m.rawq`) then decides.
-/
import Generated.Facts
namespace Obl.RawRecv

theorem raw_receive_shapes : Generated.rawRecvShapes = [
  ("protocol/xreq:pipe.receiver", ["s:=p.s", "outer:", "for", ">m:=p.p.RecvMsg()", ">if m==nil", ">>break", ">if len(m.Body)<4", ">>m.Free()", ">>continue", ">m.Header=m.Body[:4]", ">m.Body=m.Body[4:]", ">s.Lock()", ">recvQ:=s.recvQ", ">sizeQ:=s.sizeQ", ">s.Unlock()", ">select", ">>case recvQ<-m", ">>>continue", ">>case <-sizeQ", ">>>m.Free()", ">>>continue", ">>case <-p.closeQ", ">>>m.Free()", ">>>break outer", "p.close()"]),
  ("protocol/xreq:socket.RecvMsg", ["timeQ:=nilQ", "s.Lock()", "if s.recvExpire>0", ">timeQ=time.After(s.recvExpire)", "s.Unlock()", "for", ">s.Lock()", ">sizeQ:=s.sizeQ", ">recvQ:=s.recvQ", ">closeQ:=s.closeQ", ">s.Unlock()", ">select", ">>case <-closeQ", ">>>return nil,protocol.ErrClosed", ">>case <-timeQ", ">>>return nil,protocol.ErrRecvTimeout", ">>case m:=<-recvQ", ">>>return m,nil", ">>case <-sizeQ", ">>>continue"]),
  ("protocol/xsurveyor:pipe.receiver", ["s:=p.s", "outer:", "for", ">m:=p.p.RecvMsg()", ">if m==nil", ">>break", ">if len(m.Body)<4", ">>m.Free()", ">>continue", ">m.Header=m.Body[:4]", ">m.Body=m.Body[4:]", ">s.Lock()", ">recvQ:=s.recvQ", ">sizeQ:=s.sizeQ", ">s.Unlock()", ">select", ">>case recvQ<-m", ">>case <-p.closeQ", ">>>m.Free()", ">>>break outer", ">>case <-sizeQ", ">>>m.Free()", "p.close()"]),
  ("protocol/xsurveyor:socket.RecvMsg", ["timeQ:=nilQ", "s.Lock()", "if s.recvExpire>0", ">timeQ=time.After(s.recvExpire)", "s.Unlock()", "for", ">s.Lock()", ">recvQ:=s.recvQ", ">sizeQ:=s.sizeQ", ">closeQ:=s.closeQ", ">s.Unlock()", ">select", ">>case m:=<-recvQ", ">>>return m,nil", ">>case <-closeQ", ">>>return nil,protocol.ErrClosed", ">>case <-timeQ", ">>>return nil,protocol.ErrRecvTimeout", ">>case <-sizeQ", ">>>continue"]),
  ("protocol/xsub:pipe.receiver", ["s:=p.s", "for", ">m:=p.p.RecvMsg()", ">if m==nil", ">>break", ">s.Lock()", ">recvQ:=s.recvQ", ">s.Unlock()", ">select", ">>case recvQ<-m", ">>default", ">>>m.Free()", "p.close()"]),
  ("protocol/xsub:socket.RecvMsg", ["timeQ:=nilQ", "s.Lock()", "if s.recvExpire>0", ">timeQ=time.After(s.recvExpire)", "s.Unlock()", "for", ">s.Lock()", ">closeQ:=s.closeQ", ">sizeQ:=s.sizeQ", ">recvQ:=s.recvQ", ">s.Unlock()", ">select", ">>case <-closeQ", ">>>return nil,protocol.ErrClosed", ">>case <-timeQ", ">>>return nil,protocol.ErrRecvTimeout", ">>case <-sizeQ", ">>>continue", ">>case m:=<-recvQ", ">>>return m,nil"])
] := by decide

end Obl.RawRecv
