/-
  Obl/LockOrder.lean — per-run obligation: the "acquire b while holding a" relation over every function of the
  library (calls into locking functions expanded, also through library interfaces) admits a strict rank.
-/
import Generated.IR
import Model.LockOrder
namespace Obl.LockOrder
open Model.IR

def allFns : List Fn := Generated.IR.groups.flatMap (·.2)
def allEdges : List (LockId × LockId) := (allFns.flatMap fnEdges).eraseDups
def ranks : List (LockId × Nat) := topo (Generated.IR.lockNames.map (·.1)) allEdges

set_option maxRecDepth 1000000 in
/-- mutexes are always acquired in an order consistent with one strict ranking: no cycle of goroutines each holding a
    mutex the next one waits for (Model.IR.no_wait_cycle) -/
theorem lock_order_acyclic : rankOK ranks allEdges = true := by decide +kernel

/-- in that ranking no edge closes a cycle (instantiation of the theorem) -/
theorem no_deadlock_cycle (e0 : LockId × LockId) (c : List (LockId × LockId)) (hmem : ∀ e ∈ e0 :: c, e ∈ allEdges)
    (hch : Chain (e0 :: c)) (hclose : ((e0 :: c).getLast (by simp)).2 = e0.1) : False :=
  no_wait_cycle ranks allEdges lock_order_acyclic e0 c hmem hch hclose

end Obl.LockOrder
