/-
  Obl/Core.lean — per-run obligations on internal/core facts.
-/
import Generated.Facts
namespace Obl.Core

/-- the allocator masks the counter to 31 bits, advances it, skips 0 and ids in use (tested on the masked value) -/
theorem alloc_shape : Generated.allocShape =
    ["id:=p.next&0x7fffffff", "p.next++", "if id==0 continue", "if p.used[id];ok continue", "p.used[id]=<*ast.StructType>{…}", "return id"] := by decide

end Obl.Core
