/-
  Obl/Core.lean — per-run obligations on internal/core facts.
-/
import Generated.Facts
namespace Obl.Core

/-- the allocator masks the counter to 31 bits, advances it, skips 0 and ids in use (tested on the masked value) -/
theorem alloc_shape : Generated.allocShape =
    ["id:=p.next&0x7fffffff", "p.next++", "if id==0 continue", "if p.used[id];ok continue", "p.used[id]=<*ast.StructType>{…}", "return id"] := by decide

end Obl.Core

namespace Obl.Core

/-- dialer: the first Dial marks it active and starts from the minimum; a failed synchronous Dial clears `active`;
    after a failed attempt the timer is armed with the *current* delay and the delay then grows by a factor in
    [1.1, 1.5] only when a maximum is set, capped at it; a lost pipe re-arms with the current delay; a successful
    attach resets it to the minimum; Close stops the timer and marks the dialer closed; dial() checks `closed` first -/
theorem dialer_facts : Generated.dialerFacts =
    ["dial: if d.closed", "dial: if !redial", "dial: d.active=false", "dial: minfact:=float64(1.1)", "dial: maxfact:=float64(1.5)",
     "dial: actfact:=rand.Float64()*(maxfact-minfact)+minfact", "dial: rtime:=d.reconnTime", "dial: if d.reconnMaxTime!=0",
     "dial: d.reconnTime=time.Duration(actfact*float64(d.reconnTime))", "dial: if d.reconnTime>d.reconnMaxTime",
     "dial: d.reconnTime=d.reconnMaxTime", "dial: d.redialer=time.AfterFunc(rtime,d.redial)",
     "pipeClosed: time.AfterFunc(d.reconnTime,d.redial)", "pipeConnected: d.reconnTime=d.reconnMinTime",
     "Close: if d.closed", "Close: if d.redialer!=nil", "Close: d.redialer.Stop()", "Close: d.closed=true",
     "Dial: if d.active", "Dial: if d.closed", "Dial: d.active=true", "Dial: d.reconnTime=d.reconnMinTime"] := by decide

end Obl.Core
