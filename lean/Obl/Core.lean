/-
  Obl/Core.lean — per-run obligations on internal/core facts.
-/
import Generated.Facts
namespace Obl.Core

/-- the allocator masks the counter to 31 bits, advances it, skips 0 and ids in use (tested on the masked value) -/
theorem alloc_shape : Generated.allocShape =
    ["id:=p.next&0x7fffffff", "p.next++", "if id==0 continue", "if p.used[id];ok continue", "p.used[id]=<*ast.StructType>{…}", "return id"] := by decide

end Obl.Core

namespace Obl.Core

/-- dialer: the first Dial marks it active and starts from the minimum; a failed synchronous Dial clears `active`;
    after a failed attempt the timer is armed with the *current* delay and the delay then grows by a factor in
    [1.1, 1.5] only when a maximum is set, capped at it; a lost pipe re-arms with the current delay; a successful
    attach resets it to the minimum; Close stops the timer and marks the dialer closed; dial() checks `closed` first -/
theorem dialer_facts : Generated.dialerFacts =
    ["dial: if d.closed", "dial: if !redial", "dial: d.active=false", "dial: minfact:=float64(1.1)", "dial: maxfact:=float64(1.5)",
     "dial: actfact:=rand.Float64()*(maxfact-minfact)+minfact", "dial: rtime:=d.reconnTime", "dial: if d.reconnMaxTime!=0",
     "dial: d.reconnTime=time.Duration(actfact*float64(d.reconnTime))", "dial: if d.reconnTime>d.reconnMaxTime",
     "dial: d.reconnTime=d.reconnMaxTime", "dial: d.redialer=time.AfterFunc(rtime,d.redial)",
     "pipeClosed: time.AfterFunc(d.reconnTime,d.redial)", "pipeConnected: d.reconnTime=d.reconnMinTime",
     "Close: if d.closed", "Close: if d.redialer!=nil", "Close: d.redialer.Stop()", "Close: d.closed=true",
     "Dial: if d.active", "Dial: if d.closed", "Dial: d.active=true", "Dial: d.reconnTime=d.reconnMinTime"] := by decide

/-- who closes what, statement by statement — the code facts that connect the machines of `Props.C10` to the objects a
    socket owns: the core dialer, once closed, closes its transport dialer (when that has a Close); the stream transports'
    dialers close their connection handshaker (so `closed_handshaker_holds_nothing_open` and
    `closed_handshaker_has_no_waiters` apply to a connection attempt still shaking hands: its connection is closed and the
    Dial waiting for it returns); the handshaker's Start closes a connection given to a closed handshaker, Close closes
    every connection at work or queued, the worker closes a connection whose handshake failed or finished after Close;
    `conn.Close` closes whenever not yet closed; the ws listener's Close wakes Accept and closes what is queued, Accept
    fails once the listener is not running, `ServeHTTP` refuses when not running and `handler` closes a connection that
    was upgraded across Close; the ws dialer remembers the connection whose upgrade is in progress (`netDial`) and its Close
    closes it; the inproc dialer's Close ends a Dial waiting for an accepter, the inproc listener's Close fails the parked
    accepters and wakes the waiting dials.  Any edit to these functions re-opens this obligation. -/
theorem close_paths : Generated.closeShapes = [
  ("internal/core:dialer.Close", ["d.Lock()", "defer d.Unlock()", "if d.closed", ">return mangos.ErrClosed", "if d.redialer!=nil", ">d.redialer.Stop()", "d.closed=true", "if c,ok:=d.d.(interface{}); ok", ">_=c.Close()", "return nil"]),
  ("internal/core:listener.Close", ["l.Lock()", "defer l.Unlock()", "if l.closed", ">return mangos.ErrClosed", "l.closed=true", "return l.l.Close()"]),
  ("transport:connHandshaker.Start", ["conn:=p.(connHandshakerPipe)", "h.Lock()", "if h.closed", ">h.Unlock()", ">_=conn.Close()", ">return ", "h.workq[conn]=true", "h.Unlock()", "go h.worker(conn)"]),
  ("transport:connHandshaker.Close", ["h.Lock()", "h.closed=true", "h.cv.Broadcast()", "range h.workq", ">_=conn.Close()", "for len(h.doneq)!=0", ">item:=h.doneq[0]", ">h.doneq=h.doneq[1:]", ">if item.c!=nil", ">>_=item.c.Close()", "h.Unlock()"]),
  ("transport:connHandshaker.worker", ["item:=&connHandshakerItem{…}", "item.e=conn.handshake()", "h.Lock()", "defer h.Unlock()", "delete(h.workq,conn)", "if item.e!=nil", ">_=item.c.Close()", ">item.c=nil", "else", ">if h.closed", ">>item.e=mangos.ErrClosed", ">>_=item.c.Close()", "h.doneq=append(h.doneq,item)", "h.cv.Broadcast()"]),
  ("transport:connHandshaker.Wait", ["h.Lock()", "defer h.Unlock()", "for len(h.doneq)==0&&!h.closed", ">h.cv.Wait()", "if h.closed", ">return nil,mangos.ErrClosed", "item:=h.doneq[0]", "h.doneq=h.doneq[1:]", "return item.c,item.e"]),
  ("transport:conn.Close", ["p.Lock()", "defer p.Unlock()", "if !p.closed", ">p.closed=true", ">return p.c.Close()", "return nil"]),
  ("transport/tcp:dialer.Close", ["d.hs.Close()", "return nil"]),
  ("transport/tcp:listener.Close", ["l.once.Do(func{…})", "return nil"]),
  ("transport/tlstcp:dialer.Close", ["d.hs.Close()", "return nil"]),
  ("transport/tlstcp:listener.Close", ["l.once.Do(func{…})", "return nil"]),
  ("transport/ipc:dialer.Close", ["d.hs.Close()", "return nil"]),
  ("transport/ipc:listener.Close", ["l.once.Do(func{…})", "return nil"]),
  ("transport/ws:listener.Close", ["l.lock.Lock()", "defer l.lock.Unlock()", "if l.closed", ">return mangos.ErrClosed", "if l.listener!=nil", ">_=l.listener.Close()", "l.closed=true", "l.running=false", "l.cv.Broadcast()", "range l.pending", ">_=ws.Close()", "l.pending=nil", "return nil"]),
  ("transport/ws:listener.Accept", ["var w *wsPipe", "l.lock.Lock()", "defer l.lock.Unlock()", "for", ">if !l.running", ">>return nil,mangos.ErrClosed", ">if len(l.pending)==0", ">>l.cv.Wait()", ">>continue", ">w=l.pending[len(l.pending)-1]", ">l.pending=l.pending[:len(l.pending)-1]", ">break", "return w,nil"]),
  ("transport/ws:listener.ServeHTTP", ["matched:=false", "range websocket.Subprotocols(r)", ">if subProto==l.proto.SelfName+\".sp.nanomsg.org\"", ">>matched=true", "if !matched", ">http.Error(w,\"SP protocol mis-match\",http.StatusBadRequest)", ">return ", "l.lock.Lock()", "if !l.running", ">l.lock.Unlock()", ">http.Error(w,\"No handler at that address\",http.StatusNotFound)", ">return ", "ug:=l.ug", "l.lock.Unlock()", "ws,err:=ug.Upgrade(w,r,nil)", "if err!=nil", ">return ", "verifUpgraded(ws)", "l.handler(ws,r)"]),
  ("transport/ws:dialer.Close", ["d.lock.Lock()", "d.closed=true", "range d.conns", ">_=c.Close()", "d.lock.Unlock()", "d.cancel()", "return nil"]),
  ("transport/ws:dialer.netDial", ["var nd net.Dialer", "c,err:=nd.DialContext(ctx,network,addr)", "if err!=nil", ">return nil,err", "d.lock.Lock()", "defer d.lock.Unlock()", "if d.closed", ">_=c.Close()", ">return nil,mangos.ErrClosed", "d.conns[c]=<*ast.StructType>{…}", "return c,nil"]),
  ("transport/inproc:dialer.Close", ["listeners.mx.Lock()", "d.closed=true", "listeners.cv.Broadcast()", "listeners.mx.Unlock()", "return nil"]),
  ("transport/inproc:listener.Close", ["listeners.mx.Lock()", "if listeners.byAddr[l.addr]==l", ">delete(listeners.byAddr,l.addr)", "servers:=l.accepters", "l.accepters=nil", "listeners.cv.Broadcast()", "l.closed=true", "listeners.mx.Unlock()", "range servers", ">close(s.closeq)", "return nil"]),
  ("transport/ws:listener.handler (head)", ["l.lock.Lock()", "if !l.running", ">l.lock.Unlock()", ">_=ws.Close()", ">return "])
] := by decide

end Obl.Core
