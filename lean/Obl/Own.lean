/-
  Obl/Own.lean — per-run obligations on the ownership IR regenerated from every function of the library that handles
  a message through a parameter or a local variable (Generated/Own.lean, written by cmd/owngen): the verified checker
  of Model/Own.lean accepts every function against the contract its call sites assume.
-/
import Generated.Own
import Model.Own
namespace Obl.Own
open Model.Own

/-- the translator met no construct it cannot express (a message handed to a function outside the library, a defer
    that mentions a tracked message, goto / fallthrough, named message results with a bare return …) -/
theorem nothing_unsupported : Generated.Own.unsupported = [] := by decide

/-- the message variables that are *not* followed locally, and why: REQ keeps its request and reply in struct fields of
    the context (`sendMsg`, `reqMsg`, `repMsg`) and compares them by pointer, cooked REP takes the message out of a
    queue entry, and the surveyor's cancel drains its queue inside a function literal.  What happens to these messages
    is the business of the REQ / REP / SURVEYOR machines and of the reference-count ledger the scenarios run under.
    Any other variable that stops being followable (loaded from a field, captured, compared by pointer) fails here. -/
theorem untracked_pinned : Generated.Own.untracked = [
    "protocol/rep.context.RecvMsg:m (assigned from entry.m)",
    "protocol/req.context.RecvMsg:m (assigned from c.repMsg)",
    "protocol/req.context.SendMsg:m (compared by pointer)",
    "protocol/req.socket.send:m (assigned from c.reqMsg)",
    "protocol/surveyor.survey.cancel:m (captured by a function literal)"] := by decide

/-- the three library functions that take a message and return no error: two consume it on every path, one only
    looks at it; every other message parameter (SendMsg / Send of every socket, context, pipe and transport) is
    "taken iff the result is nil" -/
theorem helper_classes : Generated.Own.helperClasses = [
    "protocol/req.pipe.sendCtx#1:m: consumed",
    "protocol/sub.context.matches#0:m: borrowed",
    "protocol/xpush.pipe.send#0:m: consumed"] := by decide

/-- the checker accepts every function -/
theorem all_meet : Generated.Own.fns.all Fn.meets = true := by decide +kernel

theorem fn_meets (f : Fn) (hf : f ∈ Generated.Own.fns) : f.meets = true :=
  List.all_eq_true.mp all_meet f hf

/-- lifted through the checker's soundness theorem: for every generated function, every execution of its body — any
    branch, any number of loop iterations, any outcome of every call that can fail — never gives up a reference it does
    not hold through that variable (no double release), never reads or writes a message through a variable that is nil
    or whose last reference it has given up (no touch after release), leaves by return or fall-through, and when it
    returns an error still holds the reference to the caller's message ("on failure the message stays with the
    caller") -/
theorem every_function_keeps_the_discipline (f : Fn) (hf : f ∈ Generated.Own.fns)
    (o : Out) (hex : Exec f.body f.entry o) :
    ∃ σ e, o = .ok σ e ∧ Leaves f.exits σ e :=
  meets_sound f (fn_meets f hf) o hex

theorem no_function_goes_bad (f : Fn) (hf : f ∈ Generated.Own.fns) : ¬ Exec f.body f.entry .bad :=
  meets_never_bad f (fn_meets f hf)

/-- non-vacuity: the list is the library's (88 functions at the pinned tree; at least the fan-out senders, the
    receivers and the transports are in it) -/
theorem covers_the_library :
    (["protocol/xpub.socket.SendMsg", "protocol/xstar.pipe.receiver", "protocol/xbus.socket.SendMsg", "protocol/sub.pipe.receiver",
      "protocol/sub.context.RecvMsg", "protocol/xsurveyor.socket.SendMsg", "protocol/surveyor.context.SendMsg",
      "protocol/rep.context.SendMsg", "protocol/xreq.pipe.sender", "transport.conn.Send", "transport.conn.Recv",
      "transport.connipc.Send", "transport/ws.wsPipe.Send", "transport/inproc.inproc.Send", "internal/core.pipe.SendMsg",
      "internal/core.pipe.RecvMsg", "internal/core.socket.Recv", ".forwarder"].all
        (fun n => Generated.Own.fns.any (fun f => f.name == n))) = true := by decide

end Obl.Own
