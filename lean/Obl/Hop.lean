/-
  Obl/Hop.lean — per-run obligations on the hop-limit sites regenerated from the six
  TTL-enforcing receivers, the TTL option guards and defaults.
-/
import Model.HopLemmas
import Model.Tactics
import Generated.Facts
import Props.C09
namespace Obl.Hop
open Model Model.Hop

def shapeA : List String := ["if-hops-drop", "hops++", "if len(m.Body)<4 drop", "m.Header=append(m.Header,m.Body[:4])", "m.Body=m.Body[4:]", "if m.Header[len(m.Header)-4]&0x80!=0 finish"]
def shapeB : List String := ["if-hops-drop", "hops++", "if len(m.Body)<4 drop", "if m.Body[0]&0x80!=0 finish", "m.Header=append(m.Header,m.Body[:4])", "m.Body=m.Body[4:]"]

theorem hop_shapes :
    Generated.hop_rep.shape = shapeA ∧ Generated.hop_respondent.shape = shapeA ∧
    Generated.hop_xrep.shape = shapeB ∧ Generated.hop_xrespondent.shape = shapeB := by decide

theorem hop_rep_wf : WellFormed Generated.hop_rep := by
  intro i ttl
  simp only [drops, Generated.hop_rep, GExpr.holds, GExpr.evalI, hopEnv]
  bool_omega
theorem hop_xrep_wf : WellFormed Generated.hop_xrep := by
  intro i ttl
  simp only [drops, Generated.hop_xrep, GExpr.holds, GExpr.evalI, hopEnv]
  bool_omega
theorem hop_respondent_wf : WellFormed Generated.hop_respondent := by
  intro i ttl
  simp only [drops, Generated.hop_respondent, GExpr.holds, GExpr.evalI, hopEnv]
  bool_omega
theorem hop_xrespondent_wf : WellFormed Generated.hop_xrespondent := by
  intro i ttl
  simp only [drops, Generated.hop_xrespondent, GExpr.holds, GExpr.evalI, hopEnv]
  bool_omega

theorem pair1_drop_ok : Props.C09.Pair1DropOK Generated.hop_xpair1_drop := by
  intro hops ttl
  simp only [Generated.hop_xpair1_drop, GExpr.holds, GExpr.evalI, pair1Env, hopEnv]
  bool_omega
theorem pair1_bump_ok : ∀ h : Int, Generated.hop_xpair1_bump.evalI (fun n => if n = "hops" then h else 0) = h + 1 := by
  intro h; simp [Generated.hop_xpair1_bump, GExpr.evalI]
theorem star_drop_ok : Props.C09.StarDropOK Generated.hop_xstar_drop := by
  intro blen b0 b1 b2 b3 ttl
  simp only [Generated.hop_xstar_drop, GExpr.holds, GExpr.evalI, starEnv]
  have e0 : b0 ≠ 0 ↔ b0.toNat ≠ 0 := by rw [ne_eq, ne_eq, ← UInt8.toNat_inj]; simp
  have e1 : b1 ≠ 0 ↔ b1.toNat ≠ 0 := by rw [ne_eq, ne_eq, ← UInt8.toNat_inj]; simp
  have e2 : b2 ≠ 0 ↔ b2.toNat ≠ 0 := by rw [ne_eq, ne_eq, ← UInt8.toNat_inj]; simp
  simp only [e0, e1, e2]
  bool_omega
theorem star_bump_ok : Generated.hop_xstar_bump = "m.Header[3]++" := by decide

/-- TTL option guards of the six sockets accept exactly 1..255; default TTL is 8 -/
def ttlRows : List OptRow := Generated.optTable.filter (fun r => r.opt == "OptionTTL")
theorem ttl_rows_present : ttlRows.map (fun r => r.pkg) =
    ["protocol/rep", "protocol/respondent", "protocol/xpair1", "protocol/xrep", "protocol/xrespondent", "protocol/xstar"] := by decide
theorem ttl_guards_ok : ∀ r ∈ ttlRows, r.ty = "int" ∧ Props.C09.TtlGuardOK r.guard := by
  intro r hr
  simp only [ttlRows, Generated.optTable] at hr
  simp [List.filter] at hr
  rcases hr with rfl | rfl | rfl | rfl | rfl | rfl <;> refine ⟨rfl, ?_⟩ <;> intro v <;>
    simp only [GExpr.holds, GExpr.evalI] <;> bool_omega
theorem ttl_defaults : (Generated.defaults.filter (fun d => d.2.1 == "ttl")).map (fun d => (d.1, d.2.2)) =
    [("rep.NewProtocol.socket", 8), ("respondent.NewProtocol.socket", 8), ("xpair1.NewProtocol.socket", 8),
     ("xrep.NewProtocol.socket", 8), ("xrespondent.NewProtocol.socket", 8), ("xstar.NewProtocol.socket", 8)] := by decide

end Obl.Hop
