/-
  Obl/Inproc.lean — per-run obligation behind Model/Inproc.lean: the statement lists of the inproc transport's
  Listen / Accept / Dial / Close (listener, dialer, pipe) are the ones the machine was written against.  Any edit to
  these functions re-opens the obligation; the correspondence (`m.inproc`) then has to show whether the machine still
  describes them.
-/
import Generated.Facts
namespace Obl.Inproc

theorem inproc_shapes : Generated.inprocShapes = [
  ("transport/inproc:listener.Listen", ["listeners.mx.Lock()", "if l.closed", ">listeners.mx.Unlock()", ">return mangos.ErrClosed", "if _,ok:=listeners.byAddr[l.addr]; ok", ">listeners.mx.Unlock()", ">return mangos.ErrAddrInUse", "l.active=true", "listeners.byAddr[l.addr]=l", "listeners.cv.Broadcast()", "listeners.mx.Unlock()", "return nil"]),
  ("transport/inproc:listener.Accept", ["server:=&inproc{…}", "server.readyq=make(chan <*ast.StructType>)", "server.closeq=make(chan <*ast.StructType>)", "listeners.mx.Lock()", "if !l.active||l.closed", ">listeners.mx.Unlock()", ">return nil,mangos.ErrClosed", "l.accepters=append(l.accepters,server)", "listeners.cv.Broadcast()", "listeners.mx.Unlock()", "select", ">case <-server.readyq", ">>return server,nil", ">case <-server.closeq", ">>return nil,mangos.ErrClosed"]),
  ("transport/inproc:listener.Close", ["listeners.mx.Lock()", "if listeners.byAddr[l.addr]==l", ">delete(listeners.byAddr,l.addr)", "servers:=l.accepters", "l.accepters=nil", "listeners.cv.Broadcast()", "l.closed=true", "listeners.mx.Unlock()", "range servers", ">close(s.closeq)", "return nil"]),
  ("transport/inproc:dialer.Dial", ["var server *inproc", "client:=&inproc{…}", "client.readyq=make(chan <*ast.StructType>)", "client.closeq=make(chan <*ast.StructType>)", "listeners.mx.Lock()", "for", ">var l *listener", ">var ok bool", ">if d.closed", ">>listeners.mx.Unlock()", ">>return nil,mangos.ErrClosed", ">if l,ok=listeners.byAddr[d.addr]; !ok||l==nil", ">>listeners.mx.Unlock()", ">>return nil,mangos.ErrConnRefused", ">if (client.selfProto!=l.peerProto)||(client.peerProto!=l.selfProto)", ">>listeners.mx.Unlock()", ">>return nil,mangos.ErrBadProto", ">if len(l.accepters)!=0", ">>server=l.accepters[len(l.accepters)-1]", ">>l.accepters=l.accepters[:len(l.accepters)-1]", ">>break", ">listeners.cv.Wait()", ">continue", "listeners.mx.Unlock()", "server.wq=make(chan *transport.Message)", "server.rq=make(chan *transport.Message)", "client.rq=server.wq", "client.wq=server.rq", "server.peer=client", "client.peer=server", "close(server.readyq)", "close(client.readyq)", "return client,nil"]),
  ("transport/inproc:dialer.Close", ["listeners.mx.Lock()", "d.closed=true", "listeners.cv.Broadcast()", "listeners.mx.Unlock()", "return nil"]),
  ("transport/inproc:inproc.Close", ["p.once.Do(func{…})", "return nil"])
] := by decide

end Obl.Inproc
