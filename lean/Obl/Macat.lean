/-
  Obl/Macat.lean — per-run obligations on the facts regenerated from macat/macat.go.
-/
import Model.Macat
import Model.Tactics
import Generated.Facts
namespace Obl.Macat
open Model Model.Macat

/-- the quoted escape table and the hex escape format are the ones the decoder theorem is about -/
theorem escapes_table : Generated.macatEscapes = refParams.escapes := by decide
theorem hex_format : Generated.macatHexFormat = "\\x%02x" := by decide
/-- ascii and quoted decide printability with strconv.IsPrint on the Latin-1 rune of the byte -/
theorem printable_test : Generated.macatPrintable = ["strconv.IsPrint(rune(msg.Body[i]))", "strconv.IsPrint(rune(msg.Body[i]))"] := by decide
/-- msgpack bin8 / bin16 / bin32: tags and exact length thresholds -/
theorem bin_tags : Generated.macatBins.map (·.1) = [0xc4, 0xc5, 0xc6] := by decide
theorem bin8_guard : ∀ n : Nat, (Generated.macatBins.getD 0 (0, .ff)).2.holds (lenEnv n) = decide (n < 256) := by
  intro n; simp only [Generated.macatBins, List.getD, List.getElem?_cons_zero, Option.getD_some, GExpr.holds, GExpr.evalI, lenEnv]; bool_omega
theorem bin16_guard : ∀ n : Nat, (Generated.macatBins.getD 1 (0, .ff)).2.holds (lenEnv n) = decide (n < 65536) := by
  intro n; simp only [Generated.macatBins, List.getD, List.getElem?_cons_succ, List.getElem?_cons_zero, Option.getD_some, GExpr.holds, GExpr.evalI, lenEnv]; bool_omega
theorem bin32_default : (Generated.macatBins.getD 2 (0, .ff)).2 = .tt := by decide
/-- bare integers are multiplied by time.Second; otherwise time.ParseDuration -/
theorem duration_rule : Generated.macatDuration = ["strconv.Atoi", "Duration(val)*Duration(time.Second)", "time.ParseDuration", "Duration(dur)"] := by decide

/-- macat's byte path, statement by statement: `--data` / `--file` store exactly the bytes given (`--file` reads until end
    of file, whatever kind of file it is); every loop prints each message it received before doing anything else with
    the socket (so a received message is printed whatever happens to the reply), builds every outgoing message from
    the stored payload, and stops on the first error.  Any edit to these functions re-opens this obligation. -/
theorem macat_loops : Generated.macatShapes = [
  ("setSendData", ["if a.sendData!=nil", ">return errors.New(\"data or file already set\")", "a.sendData=[]byte(data)", "return nil"]),
  ("setSendFile", ["if a.sendData!=nil", ">return errors.New(\"data or file already set\")", "var err error", "a.sendData,err=ioutil.ReadFile(path)", "if err!=nil", ">return err", "return nil"]),
  ("recvLoop", ["sock:=a.sock", "for", ">msg,err:=sock.RecvMsg()", ">switch err", ">>case mangos.ErrProtoState", ">>>return nil", ">>case mangos.ErrRecvTimeout", ">>>return nil", ">>case nil", ">>default", ">>>return fmt.Errorf(\"recv: %v\",err)", ">a.printMsg(msg)", ">msg.Free()"]),
  ("sendLoop", ["sock:=a.sock", "count:=a.count", "if a.sendData==nil", ">return errors.New(\"no data to send\")", "for", ">switch count", ">>case -1", ">>case 0", ">>>return nil", ">>default", ">>>count--", ">msg:=mangos.NewMessage(len(a.sendData))", ">msg.Body=append(msg.Body,a.sendData)", ">err:=sock.SendMsg(msg)", ">if err!=nil", ">>return fmt.Errorf(\"send: %v\",err)", ">if a.sendInterval>=0&&count!=0", ">>time.Sleep(time.Duration(a.sendInterval))"]),
  ("sendRecvLoop", ["sock:=a.sock", "count:=a.count", "for", ">switch count", ">>case -1", ">>case 0", ">>>return nil", ">>default", ">>>count--", ">msg:=mangos.NewMessage(len(a.sendData))", ">msg.Body=append(msg.Body,a.sendData)", ">err:=sock.SendMsg(msg)", ">if err!=nil", ">>return fmt.Errorf(\"send: %v\",err)", ">if a.sendInterval<0", ">>a.count++", ">>return a.recvLoop()", ">now:=time.Now()", ">if a.recvTimeout<0||a.recvTimeout>a.sendInterval", ">>_=sock.SetOption(mangos.OptionRecvDeadline,time.Duration(a.sendInterval))", ">msg,err=sock.RecvMsg()", ">switch err", ">>case mangos.ErrProtoState", ">>case mangos.ErrRecvTimeout", ">>case nil", ">>>a.printMsg(msg)", ">>>msg.Free()", ">>default", ">>>return fmt.Errorf(\"recv: %v\",err)", ">if count!=0", ">>time.Sleep(time.Duration(a.sendInterval)-time.Since(now))"]),
  ("replyLoop", ["sock:=a.sock", "if a.sendData==nil", ">return a.recvLoop()", "for", ">msg,err:=sock.RecvMsg()", ">switch err", ">>case mangos.ErrRecvTimeout", ">>>return nil", ">>case nil", ">>default", ">>>return fmt.Errorf(\"recv: %v\",err)", ">a.printMsg(msg)", ">msg.Free()", ">msg=mangos.NewMessage(len(a.sendData))", ">msg.Body=append(msg.Body,a.sendData)", ">err=sock.SendMsg(msg)", ">if err!=nil", ">>return fmt.Errorf(\"send: %v\",err)"])
] := by decide

end Obl.Macat
