/-
  Obl/Macat.lean — per-run obligations on the facts regenerated from macat/macat.go.
-/
import Model.Macat
import Model.Tactics
import Generated.Facts
namespace Obl.Macat
open Model Model.Macat

/-- the quoted escape table and the hex escape format are the ones the decoder theorem is about -/
theorem escapes_table : Generated.macatEscapes = refParams.escapes := by decide
theorem hex_format : Generated.macatHexFormat = "\\x%02x" := by decide
/-- ascii and quoted decide printability with strconv.IsPrint on the Latin-1 rune of the byte -/
theorem printable_test : Generated.macatPrintable = ["strconv.IsPrint(rune(msg.Body[i]))", "strconv.IsPrint(rune(msg.Body[i]))"] := by decide
/-- msgpack bin8 / bin16 / bin32: tags and exact length thresholds -/
theorem bin_tags : Generated.macatBins.map (·.1) = [0xc4, 0xc5, 0xc6] := by decide
theorem bin8_guard : ∀ n : Nat, (Generated.macatBins.getD 0 (0, .ff)).2.holds (lenEnv n) = decide (n < 256) := by
  intro n; simp only [Generated.macatBins, List.getD, List.getElem?_cons_zero, Option.getD_some, GExpr.holds, GExpr.evalI, lenEnv]; bool_omega
theorem bin16_guard : ∀ n : Nat, (Generated.macatBins.getD 1 (0, .ff)).2.holds (lenEnv n) = decide (n < 65536) := by
  intro n; simp only [Generated.macatBins, List.getD, List.getElem?_cons_succ, List.getElem?_cons_zero, Option.getD_some, GExpr.holds, GExpr.evalI, lenEnv]; bool_omega
theorem bin32_default : (Generated.macatBins.getD 2 (0, .ff)).2 = .tt := by decide
/-- bare integers are multiplied by time.Second; otherwise time.ParseDuration -/
theorem duration_rule : Generated.macatDuration = ["strconv.Atoi", "Duration(val)*Duration(time.Second)", "time.ParseDuration", "Duration(dur)"] := by decide

end Obl.Macat
