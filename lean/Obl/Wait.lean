/-
  Obl/Wait.lean — per-run obligations on every protocol's SendMsg / RecvMsg as read from the source
  (Generated.waitSites): they are what makes Props/C18's theorems statements about these call sites.
-/
import Generated.Facts
import Model.Wait
namespace Obl.Wait
open Model Model.Wait

def timed (w : WaitSite) : Bool := w.timer != "none"

/-- the deadline timer of every blocking call is created once, outside the retry loop: a queue resize (or any other
    wake-up that sends the call round its loop) does not restart the deadline — `never_hangs_beyond` applies -/
theorem timers_armed_once : (Generated.waitSites.filter (fun w => (siteOf w).rearm)).map (fun w => (w.pkg, w.recv, w.fn)) = [] := by decide

/-- the timer is armed exactly when the deadline option is positive, with the option's value -/
theorem timer_guards : Generated.waitSites.all (fun w => !timed w || (w.timerGuard == .gt (.var "expire") (.lit 0) && w.timerArg == "expire")) = true := by decide

/-- the calls that can block are exactly these, and each of them has a deadline timer -/
theorem timed_sites : (Generated.waitSites.filter timed).map (fun w => (w.pkg, w.recv, w.fn)) =
    [("protocol/xpair", "socket", "RecvMsg"), ("protocol/xpair", "socket", "SendMsg"),
     ("protocol/xpair1", "socket", "RecvMsg"), ("protocol/xpair1", "socket", "SendMsg"),
     ("protocol/xreq", "socket", "RecvMsg"), ("protocol/xreq", "socket", "SendMsg"),
     ("protocol/xrep", "socket", "RecvMsg"), ("protocol/xrep", "socket", "SendMsg"),
     ("protocol/xsub", "socket", "RecvMsg"), ("protocol/xpush", "socket", "SendMsg"), ("protocol/xpull", "socket", "RecvMsg"),
     ("protocol/xsurveyor", "socket", "RecvMsg"),
     ("protocol/xrespondent", "socket", "RecvMsg"), ("protocol/xrespondent", "socket", "SendMsg"),
     ("protocol/xbus", "socket", "RecvMsg"), ("protocol/xstar", "socket", "RecvMsg"),
     ("protocol/rep", "context", "RecvMsg"), ("protocol/rep", "context", "SendMsg"),
     ("protocol/sub", "context", "RecvMsg"), ("protocol/surveyor", "context", "RecvMsg"),
     ("protocol/respondent", "context", "RecvMsg"), ("protocol/respondent", "context", "SendMsg"),
     ("protocol/req", "context", "RecvMsg"), ("protocol/req", "context", "SendMsg")] := by decide

/-- sends that never block: the fan-out patterns hand the message to each pipe's queue with a `default` drop -/
theorem nonblocking_sends : (Generated.waitSites.filter (fun w => w.cases.any (fun c => c.1 == "default"))).map (fun w => (w.pkg, w.recv, w.cases)) =
    [("protocol/xpub", "socket", [("p.sendq<-m", "fallthrough"), ("default", "m.Free()")]),
     ("protocol/xsurveyor", "socket", [("p.sendQ<-m", "fallthrough"), ("default", "m.Free()")]),
     ("protocol/xbus", "socket", [("p.sendQ<-m", "fallthrough"), ("default", "m.Free()")]),
     ("protocol/xstar", "socket", [("p.sendq<-m", "fallthrough"), ("default", "m.Free()")]),
     ("protocol/surveyor", "context", [("p.sendQ<-m", "fallthrough"), ("default", "m.Free()")])] := by decide

/-- in a select-based site the timer case reports the matching timeout error — after the best-effort test where the
    site supports best-effort, so that a best-effort send is dropped silently instead -/
def timeoutCaseOK (w : WaitSite) : Bool :=
  match w.cases.filter (fun c => c.1 == "<-TIMER") with
  | [c] =>
    if w.fn == "SendMsg" then
      if w.bestEffort == "closedQ" then
        ["if bestEffort {m.Free();return nil};return protocol.ErrSendTimeout",
         "if bestEffort {m.Free();return nil};m.Header=hdr;return protocol.ErrSendTimeout",
         "if bestEffort {m.Free();return nil};m.Header=nil;return protocol.ErrSendTimeout"].contains c.2
      else c.2 == "return protocol.ErrSendTimeout"
    else ["return nil,protocol.ErrRecvTimeout", "err=protocol.ErrRecvTimeout"].contains c.2
  | _ => false
theorem timeout_cases : Generated.waitSites.all (fun w => !(timed w && !w.cases.isEmpty) || timeoutCaseOK w) = true := by decide

/-- REQ waits on a condition variable: Send while its message is still queued, not abandoned by cancel, not expired,
    not closed and (with fail-no-peers) a peer exists; Recv while the request is still the one it began with and no reply is stored -/
theorem req_cond_waits : (Generated.waitSites.filter (fun w => !w.condWaits.isEmpty)).map (fun w => (w.pkg, w.fn, w.condWaits)) =
    [("protocol/req", "RecvMsg", ["id==reqID&&repMsg==nil"]),
     ("protocol/req", "SendMsg", ["sendMsg==m&&sendAbort!=m&&!expired&&!closed&&!(failNoPeers&&len(s.pipes)==0)"])] := by decide

/-- best-effort is implemented by exactly the sending sites below -/
theorem best_effort_sites : (Generated.waitSites.filter (fun w => (siteOf w).hasBE)).map (fun w => (w.pkg, w.recv, w.fn, w.bestEffort)) =
    [("protocol/xpair", "socket", "SendMsg", "closedQ"), ("protocol/xpair1", "socket", "SendMsg", "closedQ"),
     ("protocol/xreq", "socket", "SendMsg", "closedQ"), ("protocol/xrep", "socket", "SendMsg", "closedQ"),
     ("protocol/xpush", "socket", "SendMsg", "closedQ"), ("protocol/xrespondent", "socket", "SendMsg", "closedQ"),
     ("protocol/rep", "context", "SendMsg", "closedQ"), ("protocol/respondent", "context", "SendMsg", "closedQ"),
     ("protocol/req", "context", "SendMsg", "return")] := by decide

/-- fail-no-peers is pre-checked (`failNoPeers && len(pipes) == 0`) by exactly these sites -/
theorem fail_no_peers_sites : (Generated.waitSites.filter (fun w => (siteOf w).hasFNP)).map (fun w => (w.pkg, w.recv, w.fn, w.failNoPeers)) =
    [("protocol/xpush", "socket", "SendMsg", .and (.var "failNoPeers") (.eq (.var "npipes") (.lit 0))),
     ("protocol/req", "context", "RecvMsg", .and (.var "failNoPeers") (.eq (.var "npipes") (.lit 0))),
     ("protocol/req", "context", "SendMsg", .and (.var "failNoPeers") (.eq (.var "npipes") (.lit 0)))] := by decide

/-- every select that can block a Send or Recv has a case for the owner (socket, context, or the destination
    pipe of a reply) being closed -/
theorem close_cases : Generated.waitSites.all (fun w => w.cases.isEmpty || w.cases.any (fun c => c.1 == "default") ||
    w.cases.any (fun c => ["<-closeQ", "<-cq", "<-closeq", "<-p.closeQ"].contains c.1)) = true := by decide

end Obl.Wait
