/-
  Obl/Proto.lean — per-run obligations on the protocol-number table (protocol.go and each
  protocol package's Self/Peer/SelfName/PeerName) and the WebSocket mapping strings.
-/
import Model.Facts
import Generated.Facts
namespace Obl.Proto
open Model

def num (c : String) : Option Nat := (Generated.protoNumbers.find? (fun p => p.1 == c)).map (·.2)

/-- the twelve SP protocol numbers -/
theorem numbers_table : Generated.protoNumbers =
    [("ProtoBus", 112), ("ProtoPair", 16), ("ProtoPair1", 17), ("ProtoPub", 32), ("ProtoPull", 81), ("ProtoPush", 80),
     ("ProtoRep", 49), ("ProtoReq", 48), ("ProtoRespondent", 99), ("ProtoStar", 1600), ("ProtoSub", 33), ("ProtoSurveyor", 98)] := by decide

/-- they fit 16 bits and are pairwise distinct -/
theorem numbers_fit_distinct :
    (Generated.protoNumbers.all (fun p => p.2 < 65536)) = true ∧ (Generated.protoNumbers.map (·.2)).Nodup := by decide

/-- every package names constants that exist; Peer is an involution on the table: if package A has (Self, Peer) = (x, y)
    then every package with Self = y has Peer = x; names follow the numbers -/
def rowOK (r : ProtoRow) : Bool :=
  (num r.self).isSome && (num r.peer).isSome &&
  Generated.protoInfo.all (fun q => if q.self == r.peer then q.peer == r.self && q.selfName == r.peerName && q.peerName == r.selfName else true)

theorem peer_involution : Generated.protoInfo.all rowOK = true := by decide

/-- 24 packages: each cooked package and its raw sibling agree -/
theorem cooked_raw_agree :
    Generated.protoInfo.all (fun r => Generated.protoInfo.all (fun q =>
      if q.pkg == "x" ++ r.pkg then q.self == r.self && q.peer == r.peer && q.selfName == r.selfName && q.peerName == r.peerName else true)) = true
    ∧ Generated.protoInfo.length = 24 := by decide

/-- WebSocket: the dialer offers "<peer-name>.sp.nanomsg.org", the listener accepts "<self-name>.sp.nanomsg.org",
    and messages are binary frames -/
theorem ws_subprotocol : Generated.wsSubprotocol =
    ["Dial:d.proto.PeerName+.sp.nanomsg.org", "Dial:dtype=websocket.BinaryMessage", "ServeHTTP:l.proto.SelfName+.sp.nanomsg.org",
     "handler:dtype=websocket.BinaryMessage", "listener:l.proto.SelfName+.sp.nanomsg.org"] := by decide

theorem no_unrecognised_sites : Generated.unrecognisedSites = [] := by decide

end Obl.Proto
