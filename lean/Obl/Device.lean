/-
  Obl/Device.lean — per-run obligations behind Model/DevicePlumb.lean, evaluated on the protocol table regenerated from
  the 24 socket packages (numbers, Self / Peer of each): which sockets `mangos.Device` joins.
-/
import Model.DevicePlumb
import Model.Facts
import Generated.Facts
namespace Obl.Device
open Model

/-- a socket of the library as Device sees it: protocol numbers from the regenerated table, raw iff the package is an x… one -/
def deviceSock (r : Model.ProtoRow) : DevicePlumb.Sock :=
  let num (c : String) : Nat := ((Generated.protoNumbers.find? (fun p => p.1 == c)).map (·.2)).getD 0
  ⟨num r.self, num r.peer, some (r.pkg.toList.head? == some 'x')⟩

/-- over the library's 24 socket packages as regenerated from the source: the loop-back device works for exactly the raw
    sockets of the self-peering patterns -/
theorem loopback_devices :
    (Generated.protoInfo.filter (fun r => (DevicePlumb.plumb (some (deviceSock r)) none false).isOk)).map (·.pkg)
      = ["xbus", "xpair", "xpair1", "xstar"] := by decide +kernel

/-- … and a two-socket device works for exactly these ordered pairs of packages (every raw pattern with its raw
    counterpart, nothing else: 14 of the 576 pairs) -/
theorem device_pairs :
    (Generated.protoInfo.flatMap (fun a => (Generated.protoInfo.filter (fun b =>
        (DevicePlumb.plumb (some (deviceSock a)) (some (deviceSock b)) false).isOk)).map (fun b => (a.pkg, b.pkg))))
      = [("xbus", "xbus"), ("xpair", "xpair"), ("xpair1", "xpair1"), ("xpub", "xsub"), ("xpull", "xpush"), ("xpush", "xpull"),
         ("xrep", "xreq"), ("xreq", "xrep"), ("xrespondent", "xsurveyor"), ("xstar", "xstar"), ("xsub", "xpub"),
         ("xsurveyor", "xrespondent")] := by decide +kernel

/-- the statement lists of `Device` and `forwarder` are the ones `Model/DevicePlumb.lean` was written against: nil
    substitution, both-nil, mutual peer protocols, OptionRaw of the first then the second socket, one forwarder per
    direction (one when both are the same socket); a forwarder moves messages one way until either call fails.  Any
    edit re-opens the obligation. -/
theorem device_shapes : Generated.deviceShapes = [
  (".:.Device", ["if s1==nil", ">s1=s2", "if s2==nil", ">s2=s1", "if s1==nil||s2==nil", ">return ErrClosed", "info1:=s1.Info()", "info2:=s2.Info()", "if (info1.Self!=info2.Peer)||(info2.Self!=info1.Peer)", ">return ErrBadProto", "if val,err:=s1.GetOption(OptionRaw); err!=nil", ">return err", "else", ">if raw,ok:=val.(bool); !ok||!raw", ">>return ErrNotRaw", "if val,err:=s2.GetOption(OptionRaw); err!=nil", ">return err", "else", ">if raw,ok:=val.(bool); !ok||!raw", ">>return ErrNotRaw", "go forwarder(s1,s2)", "if s2!=s1", ">go forwarder(s2,s1)", "return nil"]),
  (".:.forwarder", ["for", ">m,err:=fromSock.RecvMsg()", ">if err!=nil", ">>return ", ">err=toSock.SendMsg(m)", ">if err!=nil", ">>return "])
] := by decide

end Obl.Device
