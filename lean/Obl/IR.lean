/-
  Obl/IR.lean — per-run obligations on the lock IR regenerated from every function of the library
  (Generated/IR.lean, written by cmd/irgen): the verified checker of Model/IR.lean accepts every function.
-/
import Generated.IR
import Model.IR
namespace Obl.IR
open Model.IR

def groupOK (g : List Fn) : Bool := g.all Fn.okKeeping

/-- the translator met no construct it cannot express (goto, defer of a locking call, unknown condition variable …) -/
theorem nothing_unsupported : Generated.IR.unsupported = [] := by decide

/-- every function that touches a mutex — directly or through the library functions it calls — never locks a mutex it
    already holds, never unlocks one it does not hold, and on every path to every return (and at fall-through) has
    released everything it acquired, deferred unlocks included -/
theorem all_balanced : Generated.IR.groups.all (fun g => groupOK g.2) = true := by decide +kernel

/-- the same, for use as a hypothesis -/
theorem fn_ok (g : String × List Fn) (hg : g ∈ Generated.IR.groups) (f : Fn) (hf : f ∈ g.2) : f.okKeeping = true := by
  have h := List.all_eq_true.mp all_balanced g hg
  exact List.all_eq_true.mp h f hf

/-- lifted through the checker's soundness theorem: for every generated function, every execution of its body — any
    branch, any number of loop iterations — neither self-deadlocks nor unlocks an unheld mutex, leaves by return or
    fall-through, and after its deferred unlocks holds exactly what it was entered with (nothing, for API entry points
    and goroutine bodies) -/
theorem every_function_releases_its_locks (g : String × List Fn) (hg : g ∈ Generated.IR.groups) (f : Fn) (hf : f ∈ g.2)
    (o : Out) (hex : Exec f.body { held := f.entry, deferred := [] } o) :
    ∃ σ e, o = .ok σ e ∧ (e = .normal ∨ e = .ret) ∧ runDefers σ.held σ.deferred = some f.entry :=
  okKeeping_sound f (fn_ok g hg f hf) o hex

/-- the only panic in the library is the allocator's assertion (translated as process termination) -/
theorem panic_sites : Generated.IR.panicSites = ["internal/core.pipeIDAllocator.Free"] := by decide

end Obl.IR
