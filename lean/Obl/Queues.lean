/-
  Obl/Queues.lean — every message queue a protocol allocates is sized by the option that names it.
  A send queue takes the write-queue length (the socket's current value when a pipe attaches, the default in NewProtocol only,
  or the value being set in the WRITEQ-LEN case); a receive queue takes the read-queue length (READQ-LEN case).  The one
  exception is xpush's per-pipe hand-off channel of capacity 1.  Regenerated from the source on every run; the list of
  allocations is also compared with the one the machines were written against (a new or vanished queue is a change of
  the model's subject).
-/
import Generated.Facts
namespace Obl.Queues
open Model

def allocOK (r : QueueAlloc) : Bool :=
  if r.tkind == "send" then
    r.ckind == "sendQLen" || (r.ckind == "default" && r.fn == "NewProtocol") || (r.ckind == "value" && r.optCase == "OptionWriteQLen") ||
    (r.pkg == "protocol/xpush" && r.fn == "socket.AddPipe" && r.cap == "1")
  else if r.tkind == "recv" then
    r.ckind == "recvQLen" || (r.ckind == "default" && r.fn == "NewProtocol") || (r.ckind == "value" && r.optCase == "OptionReadQLen") ||
    (r.pkg == "protocol/surveyor" && r.fn == "survey.start" && r.ckind == "value")
  else if r.tkind == "new" then
    r.ckind == "value" && (r.optCase == "OptionReadQLen" || r.optCase == "OptionWriteQLen")
  else false

/-- every queue is sized by its own option -/
theorem queues_sized_by_their_option : Generated.queueAllocs.all allocOK = true := by decide

/-- the per-peer send queues: exactly these protocols allocate one when a pipe attaches, each with the socket's
    write-queue length -/
theorem per_peer_send_queues :
    (Generated.queueAllocs.filter (fun r => r.fn == "socket.AddPipe" && r.tkind == "send")).map (fun r => (r.pkg, r.cap)) =
    [("protocol/rep", "s.sendQLen"), ("protocol/respondent", "s.sendQLen"), ("protocol/surveyor", "s.sendQLen"),
     ("protocol/xbus", "s.sendQLen"), ("protocol/xpub", "s.sendQLen"), ("protocol/xpush", "1"), ("protocol/xrep", "s.sendQLen"),
     ("protocol/xrespondent", "s.sendQLen"), ("protocol/xstar", "s.sendQLen"), ("protocol/xsurveyor", "s.sendQLen")] := by decide

/-- … and the queues replaced when a length option is set: which protocol rebuilds which queue -/
theorem resized_queues :
    (Generated.queueAllocs.filter (fun r => r.ckind == "value" && r.optCase != "")).map (fun r => (r.pkg, r.tkind, r.optCase)) =
    [("protocol/sub", "recv", "OptionReadQLen"), ("protocol/xbus", "new", "OptionReadQLen"),
     ("protocol/xpair", "recv", "OptionReadQLen"), ("protocol/xpair", "send", "OptionWriteQLen"),
     ("protocol/xpair1", "recv", "OptionReadQLen"), ("protocol/xpair1", "send", "OptionWriteQLen"),
     ("protocol/xpull", "new", "OptionReadQLen"), ("protocol/xpush", "new", "OptionWriteQLen"),
     ("protocol/xrep", "recv", "OptionReadQLen"), ("protocol/xreq", "new", "OptionReadQLen"), ("protocol/xreq", "new", "OptionWriteQLen"),
     ("protocol/xrespondent", "recv", "OptionReadQLen"), ("protocol/xstar", "new", "OptionReadQLen"),
     ("protocol/xsub", "recv", "OptionReadQLen"), ("protocol/xsurveyor", "recv", "OptionReadQLen")] := by decide

end Obl.Queues
