/-
  Obl/Opt.lean — per-run obligations on the option table regenerated from every SetOption of the library.
-/
import Model.Opt
import Model.Tactics
import Generated.Facts
namespace Obl.Opt
open Model

def isQLen (r : OptRow) : Bool := r.opt == "OptionReadQLen" || r.opt == "OptionWriteQLen"

/-- no option call can reach make(chan, v) with a negative v: every queue-length handler asserts int and v >= 0 -/
theorem qlen_guards_nonneg :
    (Generated.optTable.filter isQLen).all (fun r => r.ty == "int" && r.guard == .and .tt (.ge (.var "v") (.lit 0))) = true := by decide

/-- every type assertion is comma-ok (a row has a single asserted type) and every guard is in the recognised language,
    except the ipc permission mask, which is compared against itself -/
theorem guards_recognised :
    (Generated.optTable.filter (fun r => !r.guard.recognised)).map (fun r => (r.pkg, r.opt)) = [("transport/ipc", "OptionIpcSocketPermissions")] := by decide

/-- delegation of unknown options: protocol socket -> its default context (5 patterns), core socket -> protocol first,
    core dialer / listener -> transport -/
theorem delegation : Generated.optDelegates =
    [("internal/core", "dialer", "d.d"), ("internal/core", "listener", "l.l"), ("internal/core", "socket", "d"), ("internal/core", "socket", "l"),
     ("internal/core", "socket", "s.proto"), ("protocol/rep", "socket", "s.master"), ("protocol/req", "socket", "s.defCtx"),
     ("protocol/respondent", "socket", "s.defCtx"), ("protocol/sub", "socket", "s.master"), ("protocol/surveyor", "socket", "s.master")] := by decide

/-- deadlines of rep / respondent contexts must be positive; everywhere else any duration is stored -/
theorem rep_deadlines_positive :
    (Generated.optTable.filter (fun r => (r.pkg == "protocol/rep" || r.pkg == "protocol/respondent") && r.recv == "context" && r.ty == "time.Duration")).all
      (fun r => r.guard == .and .tt (.gt (.var "v") (.lit 0))) = true := by decide

/-- the documented option names -/
theorem option_names_count : Generated.optionNames.length = 29 := by decide

end Obl.Opt
