/-
  Obl/CtxInherit.lean — what a new context takes over from the socket's own context, per pattern ("inherited by … new
  contexts where the pattern provides that"): each setting is copied from the setting of the same name.  REP contexts
  take over nothing.  Regenerated from the OpenContext functions on every run; the harness's inheritance scenarios
  (C18, C19) are run for exactly these patterns.
-/
import Generated.Facts
namespace Obl.CtxInherit

theorem contexts_take_over_the_same_settings :
    Generated.openContextCopies =
      ["protocol/req: bestEffort=s.defCtx.bestEffort", "protocol/req: resendTime=s.defCtx.resendTime",
       "protocol/req: sendExpire=s.defCtx.sendExpire", "protocol/req: receiveExpire=s.defCtx.receiveExpire",
       "protocol/req: failNoPeers=s.defCtx.failNoPeers",
       "protocol/respondent: bestEffort=s.defCtx.bestEffort", "protocol/respondent: recvExpire=s.defCtx.recvExpire",
       "protocol/respondent: sendExpire=s.defCtx.sendExpire",
       "protocol/sub: recvQLen=s.master.recvQLen", "protocol/sub: recvExpire=s.master.recvExpire",
       "protocol/surveyor: survExpire=s.master.survExpire", "protocol/surveyor: recvExpire=s.master.recvExpire",
       "protocol/surveyor: recvQLen=s.master.recvQLen"] := by decide

end Obl.CtxInherit
