module verifharness

go 1.22

require go.nanomsg.org/mangos/v3 v3.0.0

replace go.nanomsg.org/mangos/v3 => /repo
