module verifharness

go 1.22

require go.nanomsg.org/mangos/v3 v3.0.0

require (
	github.com/gdamore/optopia v0.2.0 // indirect
	github.com/gorilla/websocket v1.5.3 // indirect
)

replace go.nanomsg.org/mangos/v3 => /repo
