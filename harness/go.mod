module verifharness

go 1.22.0

toolchain go1.23.5

require (
	github.com/gorilla/websocket v1.5.3
	go.nanomsg.org/mangos/v3 v3.0.0
	golang.org/x/tools v0.29.0
)

require (
	github.com/gdamore/optopia v0.2.0 // indirect
	golang.org/x/mod v0.22.0 // indirect
	golang.org/x/sync v0.10.0 // indirect
)

replace go.nanomsg.org/mangos/v3 => /repo
