// Package vt: a scripted mangos transport ("verif://name") and a recording protocol for core-level
// correspondence runs (C10, C12, C13, C14).  Dialers and listeners do what the harness tells them to.
package vt

import (
	"fmt"
	"sync"
	"time"

	"go.nanomsg.org/mangos/v3"
	"go.nanomsg.org/mangos/v3/transport"
)

// ---------------------------------------------------------------- transport pipe

type Pipe struct {
	Name     string
	mu       sync.Mutex
	closed   bool
	closeQ   chan struct{}
	rx       chan *mangos.Message
	dropErr  chan error
	Sent     [][]byte
	Opts     map[string]interface{}
	CloseErr error // what Close reports (the connection is closed all the same): a TLS connection whose peer was reset cannot send its close_notify
}

func NewPipe(name string) *Pipe {
	return &Pipe{Name: name, closeQ: make(chan struct{}), rx: make(chan *mangos.Message, 64), dropErr: make(chan error, 1), Opts: map[string]interface{}{}}
}

func (p *Pipe) Send(m *mangos.Message) error {
	p.mu.Lock()
	if p.closed {
		p.mu.Unlock()
		return mangos.ErrClosed
	}
	p.Sent = append(p.Sent, append(append([]byte{}, m.Header...), m.Body...))
	p.mu.Unlock()
	m.Free()
	return nil
}

func (p *Pipe) Recv() (*mangos.Message, error) {
	select {
	case m := <-p.rx:
		return m, nil
	case e := <-p.dropErr:
		return nil, e
	case <-p.closeQ:
		return nil, mangos.ErrClosed
	}
}

func (p *Pipe) Close() error {
	p.mu.Lock()
	defer p.mu.Unlock()
	if !p.closed {
		p.closed = true
		close(p.closeQ)
		return p.CloseErr
	}
	return nil
}

func (p *Pipe) IsClosed() bool { p.mu.Lock(); defer p.mu.Unlock(); return p.closed }

func (p *Pipe) GetOption(n string) (interface{}, error) {
	if v, ok := p.Opts[n]; ok {
		return v, nil
	}
	return nil, mangos.ErrBadOption
}

// Drop makes the peer go away: the next Recv fails
func (p *Pipe) Drop() {
	select {
	case p.dropErr <- fmt.Errorf("peer reset"):
	default:
	}
}

// Deliver hands a message to whoever receives on the pipe
func (p *Pipe) Deliver(body []byte) {
	m := mangos.NewMessage(len(body))
	m.Body = append(m.Body, body...)
	p.rx <- m
}

// ---------------------------------------------------------------- dialer / listener

type DialResult struct {
	P   *Pipe
	Err error
}

type Dialer struct {
	Addr     string
	mu       sync.Mutex
	Attempts []time.Time
	results  chan DialResult // scripted results; an attempt with none available parks (a stalled connect)
	consumed int
	opts     map[string]interface{}
}

func (d *Dialer) Dial() (transport.Pipe, error) {
	d.mu.Lock()
	d.Attempts = append(d.Attempts, time.Now())
	d.mu.Unlock()
	r := <-d.results
	d.mu.Lock()
	d.consumed++
	d.mu.Unlock()
	if r.Err != nil {
		return nil, r.Err
	}
	return r.P, nil
}

func (d *Dialer) Script(r DialResult) { d.results <- r }
func (d *Dialer) NAttempts() int      { d.mu.Lock(); defer d.mu.Unlock(); return len(d.Attempts) }

// Parked: attempts that are inside the transport waiting for their scripted result
func (d *Dialer) Parked() int { d.mu.Lock(); defer d.mu.Unlock(); return len(d.Attempts) - d.consumed }
func (d *Dialer) Times() []time.Time {
	d.mu.Lock()
	defer d.mu.Unlock()
	return append([]time.Time{}, d.Attempts...)
}

// OptDelay makes every Dialer.SetOption take this long (a transport that is slow to configure): it widens the window
// between the two locked sections of core's Socket.NewDialer
var OptDelay time.Duration
var optDelayMu sync.Mutex

func SetOptDelay(d time.Duration) { optDelayMu.Lock(); OptDelay = d; optDelayMu.Unlock() }

func (d *Dialer) SetOption(n string, v interface{}) error {
	optDelayMu.Lock()
	dl := OptDelay
	optDelayMu.Unlock()
	if dl > 0 {
		time.Sleep(dl)
	}
	if n == mangos.OptionMaxRecvSize {
		d.mu.Lock()
		d.opts[n] = v
		d.mu.Unlock()
		return nil
	}
	return mangos.ErrBadOption
}
func (d *Dialer) GetOption(n string) (interface{}, error) {
	d.mu.Lock()
	defer d.mu.Unlock()
	if v, ok := d.opts[n]; ok {
		return v, nil
	}
	return nil, mangos.ErrBadOption
}

type Listener struct {
	Addr      string
	mu        sync.Mutex
	ListenErr error // next Listen fails with this
	listening bool
	closed    bool
	acceptQ   chan DialResult
	closeQ    chan struct{}
	opts      map[string]interface{}
}

func (l *Listener) Listen() error {
	l.mu.Lock()
	defer l.mu.Unlock()
	if l.ListenErr != nil {
		e := l.ListenErr
		l.ListenErr = nil
		return e
	}
	l.listening = true
	return nil
}

func (l *Listener) Accept() (transport.Pipe, error) {
	select {
	case r := <-l.acceptQ:
		if r.Err != nil {
			return nil, r.Err
		}
		return r.P, nil
	case <-l.closeQ:
		return nil, mangos.ErrClosed
	}
}

func (l *Listener) Close() error {
	l.mu.Lock()
	defer l.mu.Unlock()
	if !l.closed {
		l.closed = true
		close(l.closeQ)
	}
	return nil
}

func (l *Listener) Incoming(r DialResult) { l.acceptQ <- r }
func (l *Listener) Address() string       { return l.Addr }
func (l *Listener) SetOption(n string, v interface{}) error {
	if n == mangos.OptionMaxRecvSize {
		l.mu.Lock()
		l.opts[n] = v
		l.mu.Unlock()
		return nil
	}
	return mangos.ErrBadOption
}
func (l *Listener) GetOption(n string) (interface{}, error) {
	l.mu.Lock()
	defer l.mu.Unlock()
	if v, ok := l.opts[n]; ok {
		return v, nil
	}
	return nil, mangos.ErrBadOption
}

type Tran struct {
	mu        sync.Mutex
	Dialers   map[string]*Dialer
	Listeners map[string]*Listener
}

var T = &Tran{Dialers: map[string]*Dialer{}, Listeners: map[string]*Listener{}}

func init() { transport.RegisterTransport(T) }

func (t *Tran) Scheme() string { return "verif" }
func (t *Tran) NewDialer(url string, _ mangos.Socket) (transport.Dialer, error) {
	d := &Dialer{Addr: url, results: make(chan DialResult, 64), opts: map[string]interface{}{}}
	t.mu.Lock()
	t.Dialers[url] = d
	t.mu.Unlock()
	return d, nil
}
func (t *Tran) NewListener(url string, _ mangos.Socket) (transport.Listener, error) {
	l := &Listener{Addr: url, acceptQ: make(chan DialResult, 64), closeQ: make(chan struct{}), opts: map[string]interface{}{}}
	t.mu.Lock()
	t.Listeners[url] = l
	t.mu.Unlock()
	return l, nil
}
func (t *Tran) Dialer(url string) *Dialer { t.mu.Lock(); defer t.mu.Unlock(); return t.Dialers[url] }
func (t *Tran) Listener(url string) *Listener {
	t.mu.Lock()
	defer t.mu.Unlock()
	return t.Listeners[url]
}

// ---------------------------------------------------------------- recording protocol

type Proto struct {
	mu         sync.Mutex
	Log        []string // "add <id> ok|refused", "remove <id>"
	RefuseNext bool
	closed     bool
	closeQ     chan struct{}
	Pipes      map[uint32]mangos.ProtocolPipe
}

func NewProto() *Proto {
	return &Proto{closeQ: make(chan struct{}), Pipes: map[uint32]mangos.ProtocolPipe{}}
}

func (p *Proto) Info() mangos.ProtocolInfo {
	return mangos.ProtocolInfo{Self: mangos.ProtoPair, Peer: mangos.ProtoPair, SelfName: "pair", PeerName: "pair"}
}
func (p *Proto) AddPipe(pp mangos.ProtocolPipe) error {
	p.mu.Lock()
	if p.RefuseNext {
		p.RefuseNext = false
		p.Log = append(p.Log, fmt.Sprintf("add %d refused", pp.ID()))
		p.mu.Unlock()
		return mangos.ErrProtoState
	}
	if p.closed {
		p.Log = append(p.Log, fmt.Sprintf("add %d closed", pp.ID()))
		p.mu.Unlock()
		return mangos.ErrClosed
	}
	p.Log = append(p.Log, fmt.Sprintf("add %d ok", pp.ID()))
	p.Pipes[pp.ID()] = pp
	p.mu.Unlock()
	// like every real protocol: a receiver goroutine per pipe; a receive error closes the pipe
	go func() {
		for {
			m := pp.RecvMsg()
			if m == nil {
				return
			}
			m.Free()
		}
	}()
	// a protocol's AddPipe may take a moment after it has started its goroutines; core must keep the pipe
	// locked meanwhile so that a receive error cannot close the pipe before it is marked as added
	time.Sleep(300 * time.Microsecond)
	return nil
}
func (p *Proto) RemovePipe(pp mangos.ProtocolPipe) {
	p.mu.Lock()
	p.Log = append(p.Log, fmt.Sprintf("remove %d", pp.ID()))
	delete(p.Pipes, pp.ID())
	p.mu.Unlock()
}
func (p *Proto) TakeLog() []string {
	p.mu.Lock()
	defer p.mu.Unlock()
	l := p.Log
	p.Log = nil
	return l
}
func (p *Proto) Close() error {
	p.mu.Lock()
	defer p.mu.Unlock()
	if p.closed {
		return mangos.ErrClosed
	}
	p.closed = true
	close(p.closeQ)
	return nil
}
func (p *Proto) SendMsg(m *mangos.Message) error { m.Free(); return nil }
func (p *Proto) RecvMsg() (*mangos.Message, error) {
	<-p.closeQ
	return nil, mangos.ErrClosed
}
func (p *Proto) GetOption(string) (interface{}, error)        { return nil, mangos.ErrBadOption }
func (p *Proto) SetOption(string, interface{}) error          { return mangos.ErrBadOption }
func (p *Proto) OpenContext() (mangos.ProtocolContext, error) { return nil, mangos.ErrProtoOp }
