package main

// churn: the patterns whose blocked calls and receivers share per-request state (SURVEYOR's survey, REQ's request,
// SUB's subscription list and queue) under the traffic that makes the sharing matter: every new survey / request
// cancels the previous one while its answers are still arriving, subscriptions change while a Recv is blocked and
// matching messages keep coming.  A crash (send on closed channel, nil dereference, …) ends the process and is
// reported by the caller; a receiver that stops making progress although it keeps being fed is reported here.

import (
	"fmt"
	"os"
	"sync"
	"sync/atomic"
	"time"

	"go.nanomsg.org/mangos/v3"
	"go.nanomsg.org/mangos/v3/protocol/pub"
	"go.nanomsg.org/mangos/v3/protocol/rep"
	"go.nanomsg.org/mangos/v3/protocol/req"
	"go.nanomsg.org/mangos/v3/protocol/respondent"
	"go.nanomsg.org/mangos/v3/protocol/sub"
	"go.nanomsg.org/mangos/v3/protocol/surveyor"
)

func churnAddr(what string) string {
	return fmt.Sprintf("inproc://racer-churn-%s-%d-%d", what, os.Getpid(), atomic.AddInt32(&seq, 1))
}

// echo servers: n sockets made by mk, each answering whatever it receives at once
func echoers(mk func() (mangos.Socket, error), addr string, n int, stop *int32, wg *sync.WaitGroup) []mangos.Socket {
	var socks []mangos.Socket
	for i := 0; i < n; i++ {
		s, err := mk()
		if err != nil {
			continue
		}
		_ = s.SetOption(mangos.OptionRecvDeadline, 20*time.Millisecond)
		_ = s.SetOption(mangos.OptionSendDeadline, 20*time.Millisecond)
		if s.Dial(addr) != nil {
			_ = s.Close()
			continue
		}
		socks = append(socks, s)
		wg.Add(1)
		go func() {
			defer wg.Done()
			for atomic.LoadInt32(stop) == 0 {
				if m, err := s.RecvMsg(); err == nil {
					if s.SendMsg(m) != nil {
						m.Free()
					}
				}
			}
		}()
	}
	return socks
}

type asker interface {
	Send([]byte) error
	Recv() ([]byte, error)
	SetOption(string, interface{}) error
}

// questions back to back: each Send abandons the previous question while its answers are in flight
func askers(s mangos.Socket, stop *int32, wg *sync.WaitGroup, answered *int64) {
	var as []asker
	as = append(as, s)
	for i := 0; i < 2; i++ {
		if c, err := s.OpenContext(); err == nil {
			as = append(as, c)
		}
	}
	for i, a := range as {
		_ = a.SetOption(mangos.OptionRecvDeadline, 5*time.Millisecond)
		_ = a.SetOption(mangos.OptionSendDeadline, 5*time.Millisecond)
		wg.Add(1)
		go func(i int, a asker) {
			defer wg.Done()
			for n := 0; atomic.LoadInt32(stop) == 0; n++ {
				if a.Send([]byte{'q', byte(i), byte(n)}) != nil {
					continue
				}
				if n%3 != 0 { // sometimes wait for an answer, mostly move straight on
					if _, err := a.Recv(); err == nil {
						atomic.AddInt64(answered, 1)
					}
				}
			}
		}(i, a)
	}
}

func churnAsk(name string, mkAsk, mkAnswer func() (mangos.Socket, error), dur time.Duration) {
	s, err := mkAsk()
	if err != nil {
		return
	}
	addr := churnAddr(name)
	if s.Listen(addr) != nil {
		_ = s.Close()
		return
	}
	_ = s.SetOption(mangos.OptionSurveyTime, 3*time.Millisecond) // surveys also expire by timer while answers arrive
	_ = s.SetOption(mangos.OptionRetryTime, 2*time.Millisecond)  // requests are also re-sent while answers arrive
	var stop int32
	var wg sync.WaitGroup
	var answered int64
	peers := echoers(mkAnswer, addr, 3, &stop, &wg)
	time.Sleep(10 * time.Millisecond)
	askers(s, &stop, &wg, &answered)
	time.Sleep(dur)
	atomic.StoreInt32(&stop, 1)
	done := make(chan struct{})
	go func() { wg.Wait(); close(done) }()
	select {
	case <-done:
	case <-time.After(8 * time.Second):
		report("deadlock: %s churn: callers did not return within 8 s after the traffic stopped", name)
		os.Exit(3)
	}
	_ = s.Close()
	for _, p := range peers {
		_ = p.Close()
	}
	if atomic.LoadInt64(&answered) == 0 {
		report("%s churn: not a single answer was received in %v of back-to-back questions to 3 echoing peers", name, dur)
	}
	fmt.Printf("RACER-DONE churn-%s inproc\n", name)
}

// a Recv that is blocked while subscriptions to other topics come and go must keep receiving the topic it is subscribed to
func churnSub(dur time.Duration) {
	p, err := pub.NewSocket()
	if err != nil {
		return
	}
	addr := churnAddr("sub")
	if p.Listen(addr) != nil {
		_ = p.Close()
		return
	}
	s, _ := sub.NewSocket()
	_ = s.SetOption(mangos.OptionSubscribe, []byte("keep"))
	_ = s.SetOption(mangos.OptionRecvDeadline, 250*time.Millisecond)
	if s.Dial(addr) != nil {
		_ = p.Close()
		_ = s.Close()
		return
	}
	time.Sleep(10 * time.Millisecond)
	var stop, stopPub int32
	var wg sync.WaitGroup
	var got, timeouts int64
	wg.Add(2)
	pubDone := make(chan struct{})
	go func() { // publisher: a matching message every 200 µs, until the receiver has stopped
		defer close(pubDone)
		for atomic.LoadInt32(&stopPub) == 0 {
			_ = p.Send([]byte("keep going"))
			time.Sleep(200 * time.Microsecond)
		}
	}()
	go func() { // the blocked receiver
		defer wg.Done()
		for atomic.LoadInt32(&stop) == 0 {
			if _, err := s.Recv(); err == nil {
				atomic.AddInt64(&got, 1)
			} else if err == mangos.ErrRecvTimeout {
				atomic.AddInt64(&timeouts, 1)
			}
		}
	}()
	go func() { // other topics come and go
		defer wg.Done()
		for i := 0; atomic.LoadInt32(&stop) == 0; i++ {
			t := []byte{'x', byte(i)}
			_ = s.SetOption(mangos.OptionSubscribe, t)
			time.Sleep(2 * time.Millisecond)
			_ = s.SetOption(mangos.OptionUnsubscribe, t)
			time.Sleep(2 * time.Millisecond)
		}
	}()
	time.Sleep(dur)
	atomic.StoreInt32(&stop, 1)
	done := make(chan struct{})
	go func() { wg.Wait(); close(done) }()
	select {
	case <-done:
	case <-time.After(8 * time.Second):
		report("deadlock: sub churn: Recv / SetOption did not return within 8 s")
		os.Exit(3)
	}
	atomic.StoreInt32(&stopPub, 1)
	<-pubDone
	if t := atomic.LoadInt64(&timeouts); t > 0 {
		report("sub churn: Recv timed out %d time(s) (250 ms each) although a matching message was published every 200 µs — a blocked Recv lost its wake-up when the subscriptions changed (received %d messages in %v)", t, atomic.LoadInt64(&got), dur)
	}
	_ = s.Close()
	_ = p.Close()
	fmt.Printf("RACER-DONE churn-sub inproc\n")
}

func churn(dur time.Duration) {
	churnAsk("surveyor", surveyor.NewSocket, respondent.NewSocket, dur)
	churnAsk("req", req.NewSocket, rep.NewSocket, dur)
	churnSub(dur)
}
