// racer: concurrent API stress for C11, built with -race.  For every pattern pair and transport it runs many goroutines
// issuing the public API (Send, Recv, option get/set on sockets, contexts, dialers, listeners and pipes, OpenContext,
// context Close, Dial, Listen, pipe Close, socket Close) against connected sockets at once.  The Go race detector
// writes its reports to the log given by GORACE=log_path=…; this program reports deadlocks (a watchdog) and panics.
package main

import (
	"crypto/tls"
	"flag"
	"fmt"
	"math/rand"
	"os"
	"runtime"
	"sync"
	"sync/atomic"
	"time"

	"go.nanomsg.org/mangos/v3"
	"go.nanomsg.org/mangos/v3/protocol/bus"
	"go.nanomsg.org/mangos/v3/protocol/pair"
	"go.nanomsg.org/mangos/v3/protocol/pair1"
	"go.nanomsg.org/mangos/v3/protocol/pub"
	"go.nanomsg.org/mangos/v3/protocol/pull"
	"go.nanomsg.org/mangos/v3/protocol/push"
	"go.nanomsg.org/mangos/v3/protocol/rep"
	"go.nanomsg.org/mangos/v3/protocol/req"
	"go.nanomsg.org/mangos/v3/protocol/respondent"
	"go.nanomsg.org/mangos/v3/protocol/star"
	"go.nanomsg.org/mangos/v3/protocol/sub"
	"go.nanomsg.org/mangos/v3/protocol/surveyor"
	"go.nanomsg.org/mangos/v3/protocol/xbus"
	"go.nanomsg.org/mangos/v3/protocol/xpair"
	"go.nanomsg.org/mangos/v3/protocol/xpair1"
	"go.nanomsg.org/mangos/v3/protocol/xpub"
	"go.nanomsg.org/mangos/v3/protocol/xpull"
	"go.nanomsg.org/mangos/v3/protocol/xpush"
	"go.nanomsg.org/mangos/v3/protocol/xrep"
	"go.nanomsg.org/mangos/v3/protocol/xreq"
	"go.nanomsg.org/mangos/v3/protocol/xrespondent"
	"go.nanomsg.org/mangos/v3/protocol/xstar"
	"go.nanomsg.org/mangos/v3/protocol/xsub"
	"go.nanomsg.org/mangos/v3/protocol/xsurveyor"
	mtest "go.nanomsg.org/mangos/v3/test"
	_ "go.nanomsg.org/mangos/v3/transport/all"
)

type pattern struct {
	name string
	a, b func() (mangos.Socket, error)
	hdr  []byte
}

var patterns = []pattern{
	{"pair", pair.NewSocket, pair.NewSocket, nil}, {"pair1", pair1.NewSocket, pair1.NewSocket, nil},
	{"push-pull", push.NewSocket, pull.NewSocket, nil}, {"pub-sub", pub.NewSocket, sub.NewSocket, nil},
	{"bus", bus.NewSocket, bus.NewSocket, nil}, {"star", star.NewSocket, star.NewSocket, nil},
	{"req-rep", req.NewSocket, rep.NewSocket, nil}, {"surveyor-respondent", surveyor.NewSocket, respondent.NewSocket, nil},
	{"xpair", xpair.NewSocket, xpair.NewSocket, nil}, {"xpair1", xpair1.NewSocket, xpair1.NewSocket, []byte{0, 0, 0, 0}},
	{"xpush-xpull", xpush.NewSocket, xpull.NewSocket, nil}, {"xpub-xsub", xpub.NewSocket, xsub.NewSocket, nil},
	{"xbus", xbus.NewSocket, xbus.NewSocket, nil}, {"xstar", xstar.NewSocket, xstar.NewSocket, []byte{0, 0, 0, 0}},
	{"xreq-xrep", xreq.NewSocket, xrep.NewSocket, []byte{0x80, 0, 0, 1}}, {"xsurveyor-xrespondent", xsurveyor.NewSocket, xrespondent.NewSocket, []byte{0x80, 0, 0, 2}},
}

var srvTLS, cliTLS *tls.Config

type transport struct {
	name string
	addr func(i int) string
	tls  bool
}

var transports = []transport{
	{"inproc", func(i int) string { return fmt.Sprintf("inproc://racer-%d-%d", os.Getpid(), i) }, false},
	{"tcp", func(i int) string { return "tcp://127.0.0.1:0" }, false},
	{"ipc", func(i int) string { return fmt.Sprintf("ipc://%s/racer-%d-%d.sock", os.TempDir(), os.Getpid(), i) }, false},
	{"tls+tcp", func(i int) string { return "tls+tcp://127.0.0.1:0" }, true},
	{"ws", func(i int) string { return "ws://127.0.0.1:0/racer" }, false},
	{"wss", func(i int) string { return "wss://127.0.0.1:0/racer" }, true},
}

var seq int32
var problems int32

func report(format string, a ...interface{}) {
	atomic.AddInt32(&problems, 1)
	fmt.Printf("RACER-PROBLEM "+format+"\n", a...)
}

var sockOpts = []struct {
	name string
	vals []interface{}
}{
	{mangos.OptionTTL, []interface{}{1, 4, 8}},
	{mangos.OptionReadQLen, []interface{}{1, 2, 16}},
	{mangos.OptionWriteQLen, []interface{}{1, 2, 16}},
	{mangos.OptionRecvDeadline, []interface{}{time.Millisecond, 3 * time.Millisecond}},
	{mangos.OptionSendDeadline, []interface{}{time.Millisecond, 3 * time.Millisecond}},
	{mangos.OptionBestEffort, []interface{}{true, false}},
	{mangos.OptionFailNoPeers, []interface{}{true, false}},
	{mangos.OptionMaxRecvSize, []interface{}{0, 4096}},
	{mangos.OptionReconnectTime, []interface{}{5 * time.Millisecond}},
	{mangos.OptionMaxReconnectTime, []interface{}{10 * time.Millisecond}},
	{mangos.OptionRetryTime, []interface{}{5 * time.Millisecond, time.Duration(0)}},
	{mangos.OptionSurveyTime, []interface{}{5 * time.Millisecond}},
	{mangos.OptionSubscribe, []interface{}{[]byte("a"), []byte("")}},
	{mangos.OptionUnsubscribe, []interface{}{[]byte("a")}},
	{mangos.OptionDialAsynch, []interface{}{true}},
}

var epOpts = []struct {
	name string
	vals []interface{}
}{
	{mangos.OptionMaxRecvSize, []interface{}{0, 4096}},
	{mangos.OptionKeepAlive, []interface{}{true, false}},
	{mangos.OptionKeepAliveTime, []interface{}{time.Second}},
	{mangos.OptionNoDelay, []interface{}{true}},
	{mangos.OptionReconnectTime, []interface{}{5 * time.Millisecond}},
	{mangos.OptionMaxReconnectTime, []interface{}{10 * time.Millisecond}},
	{mangos.OptionDialAsynch, []interface{}{true}},
}

type shared struct {
	mu        sync.Mutex
	pipes     []mangos.Pipe
	dialers   []mangos.Dialer
	listeners []mangos.Listener
	ctxs      []mangos.Context
}

func (s *shared) pick(r *rand.Rand) (p mangos.Pipe, d mangos.Dialer, l mangos.Listener, c mangos.Context) {
	s.mu.Lock()
	defer s.mu.Unlock()
	if n := len(s.pipes); n > 0 {
		p = s.pipes[r.Intn(n)]
	}
	if n := len(s.dialers); n > 0 {
		d = s.dialers[r.Intn(n)]
	}
	if n := len(s.listeners); n > 0 {
		l = s.listeners[r.Intn(n)]
	}
	if n := len(s.ctxs); n > 0 {
		c = s.ctxs[r.Intn(n)]
	}
	return
}

func worker(id int, r *rand.Rand, s mangos.Socket, sh *shared, pt pattern, tr transport, peerAddr string, stop *int32, wg *sync.WaitGroup) {
	defer wg.Done()
	defer func() {
		if p := recover(); p != nil {
			buf := make([]byte, 4096)
			n := runtime.Stack(buf, false)
			report("panic in %s over %s: %v\n%s", pt.name, tr.name, p, buf[:n])
		}
	}()
	lo := func(dial bool) map[string]interface{} {
		if !tr.tls {
			return nil
		}
		if dial {
			return map[string]interface{}{mangos.OptionTLSConfig: cliTLS}
		}
		return map[string]interface{}{mangos.OptionTLSConfig: srvTLS}
	}
	for atomic.LoadInt32(stop) == 0 {
		p, d, l, c := sh.pick(r)
		switch r.Intn(22) {
		case 0, 1, 2:
			m := mangos.NewMessage(8)
			m.Header = append(m.Header, pt.hdr...)
			m.Body = append(m.Body, 'a', byte(id))
			if s.SendMsg(m) != nil {
				m.Free()
			}
		case 3, 4:
			if m, err := s.RecvMsg(); err == nil {
				m.Free()
			}
		case 5, 6, 7:
			o := sockOpts[r.Intn(len(sockOpts))]
			_ = s.SetOption(o.name, o.vals[r.Intn(len(o.vals))])
		case 8, 9:
			o := sockOpts[r.Intn(len(sockOpts))]
			_, _ = s.GetOption(o.name)
		case 10:
			if cx, err := s.OpenContext(); err == nil {
				sh.mu.Lock()
				sh.ctxs = append(sh.ctxs, cx)
				sh.mu.Unlock()
			}
		case 11:
			if c != nil {
				switch r.Intn(5) {
				case 0:
					_ = c.Send([]byte("c"))
				case 1:
					_, _ = c.Recv()
				case 2:
					o := sockOpts[r.Intn(len(sockOpts))]
					_ = c.SetOption(o.name, o.vals[r.Intn(len(o.vals))])
				case 3:
					o := sockOpts[r.Intn(len(sockOpts))]
					_, _ = c.GetOption(o.name)
				default:
					_ = c.Close()
				}
			}
		case 12:
			if d != nil {
				o := epOpts[r.Intn(len(epOpts))]
				if r.Intn(2) == 0 {
					_ = d.SetOption(o.name, o.vals[r.Intn(len(o.vals))])
				} else {
					_, _ = d.GetOption(o.name)
				}
				_ = d.Address()
			}
		case 13:
			if l != nil {
				o := epOpts[r.Intn(len(epOpts))]
				if r.Intn(2) == 0 {
					_ = l.SetOption(o.name, o.vals[r.Intn(len(o.vals))])
				} else {
					_, _ = l.GetOption(o.name)
				}
				_ = l.Address()
			}
		case 14:
			if p != nil {
				_ = p.ID()
				_ = p.Address()
				_, _ = p.GetOption(mangos.OptionMaxRecvSize)
				_, _ = p.GetOption(mangos.OptionRemoteAddr)
				_ = p.Dialer()
				_ = p.Listener()
			}
		case 15:
			if p != nil && r.Intn(3) == 0 {
				_ = p.Close()
			}
		case 16:
			if r.Intn(4) == 0 {
				if nl, err := s.NewListener(tr.addr(int(atomic.AddInt32(&seq, 1))), lo(false)); err == nil {
					sh.mu.Lock()
					sh.listeners = append(sh.listeners, nl)
					sh.mu.Unlock()
					go func() { _ = nl.Listen() }()
					if r.Intn(2) == 0 {
						go func() { _ = nl.Address(); _ = nl.Close() }()
					}
				}
			}
		case 17:
			if r.Intn(4) == 0 && peerAddr != "" {
				o := lo(true)
				if o == nil {
					o = map[string]interface{}{}
				}
				o[mangos.OptionDialAsynch] = true
				if nd, err := s.NewDialer(peerAddr, o); err == nil {
					sh.mu.Lock()
					sh.dialers = append(sh.dialers, nd)
					sh.mu.Unlock()
					go func() { _ = nd.Dial() }()
					if r.Intn(3) == 0 {
						go func() { _ = nd.Close() }()
					}
				}
			}
		case 18:
			if l != nil && r.Intn(6) == 0 {
				_ = l.Close()
			}
		case 19:
			if d != nil && r.Intn(6) == 0 {
				_ = d.Close()
			}
		case 20:
			_ = s.Info()
		default:
			runtime.Gosched()
		}
	}
}

func scenario(pt pattern, tr transport, dur time.Duration, seed int64) {
	a, err := pt.a()
	if err != nil {
		return
	}
	b, err := pt.b()
	if err != nil {
		_ = a.Close()
		return
	}
	shA, shB := &shared{}, &shared{}
	hook := func(sh *shared) mangos.PipeEventHook {
		return func(ev mangos.PipeEvent, p mangos.Pipe) {
			if ev == mangos.PipeEventAttached {
				sh.mu.Lock()
				sh.pipes = append(sh.pipes, p)
				sh.mu.Unlock()
			}
		}
	}
	a.SetPipeEventHook(hook(shA))
	b.SetPipeEventHook(hook(shB))
	for _, s := range []mangos.Socket{a, b} {
		_ = s.SetOption(mangos.OptionRecvDeadline, 2*time.Millisecond)
		_ = s.SetOption(mangos.OptionSendDeadline, 2*time.Millisecond)
		_ = s.SetOption(mangos.OptionReconnectTime, 5*time.Millisecond)
		_ = s.SetOption(mangos.OptionMaxReconnectTime, 10*time.Millisecond)
	}
	var lo, do map[string]interface{}
	if tr.tls {
		lo = map[string]interface{}{mangos.OptionTLSConfig: srvTLS}
		do = map[string]interface{}{mangos.OptionTLSConfig: cliTLS}
	}
	l, err := b.NewListener(tr.addr(int(atomic.AddInt32(&seq, 1))), lo)
	if err != nil || l.Listen() != nil {
		_ = a.Close()
		_ = b.Close()
		return
	}
	shB.listeners = append(shB.listeners, l)
	addr := l.Address()
	if d, err := a.NewDialer(addr, do); err == nil {
		_ = d.Dial()
		shA.dialers = append(shA.dialers, d)
	}
	var stop int32
	var wg sync.WaitGroup
	for i := 0; i < 5; i++ {
		wg.Add(2)
		go worker(i, rand.New(rand.NewSource(seed+int64(i))), a, shA, pt, tr, addr, &stop, &wg)
		go worker(100+i, rand.New(rand.NewSource(seed+100+int64(i))), b, shB, pt, tr, "", &stop, &wg)
	}
	time.Sleep(dur)
	// close while everything is still running
	cd := make(chan struct{})
	go func() {
		_ = a.Close()
		_ = b.Close()
		close(cd)
	}()
	time.Sleep(5 * time.Millisecond)
	atomic.StoreInt32(&stop, 1)
	done := make(chan struct{})
	go func() { wg.Wait(); <-cd; close(done) }()
	select {
	case <-done:
	case <-time.After(8 * time.Second):
		buf := make([]byte, 1<<20)
		n := runtime.Stack(buf, true)
		report("deadlock: %s over %s: workers or Close did not finish within 8 s\n%s", pt.name, tr.name, buf[:n])
		os.Exit(3)
	}
	fmt.Printf("RACER-DONE %s %s\n", pt.name, tr.name)
}

// check-then-act atomicity of the once-only operations: of several concurrent Listen calls on one listener (Dial calls
// on one dialer) exactly one may go ahead, the others must be told the endpoint is already in use
func onceOnly(tr transport, rounds int) {
	for r := 0; r < rounds; r++ {
		s, err := pair.NewSocket()
		if err != nil {
			return
		}
		var lo, do map[string]interface{}
		if tr.tls {
			lo = map[string]interface{}{mangos.OptionTLSConfig: srvTLS}
			do = map[string]interface{}{mangos.OptionTLSConfig: cliTLS}
		}
		l, err := s.NewListener(tr.addr(int(atomic.AddInt32(&seq, 1))), lo)
		if err != nil {
			_ = s.Close()
			return
		}
		const n = 4
		res := make([]error, n)
		var wg sync.WaitGroup
		start := make(chan struct{})
		for i := 0; i < n; i++ {
			wg.Add(1)
			go func(i int) { defer wg.Done(); <-start; res[i] = l.Listen() }(i)
		}
		close(start)
		wg.Wait()
		okc := 0
		for _, e := range res {
			if e == nil {
				okc++
			}
		}
		if okc != 1 {
			report("atomicity: %d of %d concurrent Listen calls on one %s listener succeeded (results %v); exactly one may", okc, n, tr.name, res)
		}
		// dialer
		p, _ := pair.NewSocket()
		d, err := p.NewDialer(l.Address(), do)
		if err == nil {
			_ = d.SetOption(mangos.OptionDialAsynch, true)
			start2 := make(chan struct{})
			for i := 0; i < n; i++ {
				wg.Add(1)
				go func(i int) { defer wg.Done(); <-start2; res[i] = d.Dial() }(i)
			}
			close(start2)
			wg.Wait()
			okc = 0
			for _, e := range res {
				if e == nil {
					okc++
				}
			}
			if okc != 1 {
				report("atomicity: %d of %d concurrent Dial calls on one %s dialer succeeded (results %v); exactly one may", okc, n, tr.name, res)
			}
		}
		_ = p.Close()
		_ = s.Close()
	}
	fmt.Printf("RACER-DONE once-only %s\n", tr.name)
}

func main() {
	tier := flag.String("tier", "quick", "quick|thorough")
	seed := flag.Int64("seed", 1, "seed")
	flag.Parse()
	var err error
	srvTLS, err = mtest.NewTLSConfig(true)
	if err == nil {
		cliTLS, err = mtest.NewTLSConfig(false)
	}
	if err != nil {
		fmt.Println("RACER-PROBLEM cannot create TLS configuration:", err)
		os.Exit(2)
	}
	dur := 60 * time.Millisecond
	if *tier == "thorough" {
		dur = 400 * time.Millisecond
	}
	for _, tr := range transports {
		n := 6
		if *tier == "thorough" {
			n = 60
		}
		onceOnly(tr, n)
	}
	for pi, pt := range patterns {
		for ti, tr := range transports {
			if *tier != "thorough" && !(ti == 0 || ti == 1 || (pi+ti)%3 == 0) {
				continue
			}
			scenario(pt, tr, dur, *seed*1000+int64(pi*10+ti))
		}
	}
	cd := 600 * time.Millisecond
	if *tier == "thorough" {
		cd = 4 * time.Second
	}
	churn(cd)
	fmt.Printf("RACER-END problems=%d\n", atomic.LoadInt32(&problems))
}
