package main

// wait.go — the blocking-call sites of every protocol (SendMsg / RecvMsg of socket and context): where the deadline
// timer is created relative to the retry loop, under which guard, how best-effort is wired, the fail-no-peers
// pre-check, and the cases of the select they block in.  Consumed by lean/Obl/Wait.lean (C18, C10).

import (
	"fmt"
	"go/ast"
	"go/token"
	"sort"
	"strings"
)

var waitPkgs = []string{"xpair", "xpair1", "xreq", "xrep", "xpub", "xsub", "xpush", "xpull", "xsurveyor", "xrespondent",
	"xbus", "xstar", "rep", "sub", "surveyor", "respondent", "req"}

// path from the function body down to n (inclusive); nil if n is not inside
func pathTo(root ast.Node, n ast.Node) []ast.Node {
	var stack, found []ast.Node
	ast.Inspect(root, func(x ast.Node) bool {
		if found != nil {
			return false
		}
		if x == nil {
			stack = stack[:len(stack)-1]
			return true
		}
		stack = append(stack, x)
		if x == n {
			found = append([]ast.Node{}, stack...)
			return false
		}
		return true
	})
	return found
}

func stmtBrief(s ast.Stmt) string {
	switch x := s.(type) {
	case *ast.ReturnStmt:
		r := []string{}
		for _, e := range x.Results {
			r = append(r, exprString(e))
		}
		return "return " + strings.Join(r, ",")
	case *ast.BranchStmt:
		return x.Tok.String()
	case *ast.ExprStmt:
		return exprString(x.X)
	case *ast.AssignStmt:
		l, r := []string{}, []string{}
		for _, e := range x.Lhs {
			l = append(l, exprString(e))
		}
		for _, e := range x.Rhs {
			r = append(r, exprString(e))
		}
		return strings.Join(l, ",") + x.Tok.String() + strings.Join(r, ",")
	case *ast.IfStmt:
		b := []string{}
		for _, y := range x.Body.List {
			b = append(b, stmtBrief(y))
		}
		return "if " + exprString(x.Cond) + " {" + strings.Join(b, ";") + "}"
	case *ast.IncDecStmt:
		return exprString(x.X) + x.Tok.String()
	case *ast.GoStmt:
		return "go " + exprString(x.Call)
	case *ast.DeferStmt:
		return "defer " + exprString(x.Call)
	}
	return fmt.Sprintf("<%T>", s)
}

func commString(c *ast.CommClause) string {
	switch x := c.Comm.(type) {
	case nil:
		return "default"
	case *ast.SendStmt:
		return exprString(x.Chan) + "<-" + exprString(x.Value)
	case *ast.ExprStmt:
		return exprString(x.X)
	case *ast.AssignStmt:
		return exprString(x.Lhs[0]) + x.Tok.String() + exprString(x.Rhs[0])
	}
	return "?"
}

func extractWaitSite(pk string, fd *ast.FuncDecl) string {
	site := "protocol/" + pk + ":" + recvTypeName(fd) + "." + fd.Name.Name
	rv := recvVarName(fd)
	timer, timerVar, timerArg := "none", "", ""
	guard := gUnknown("no timer")
	alias := map[string]bool{}
	ast.Inspect(fd.Body, func(x ast.Node) bool {
		if as, ok := x.(*ast.AssignStmt); ok && len(as.Lhs) == 1 && len(as.Rhs) == 1 {
			if r := exprString(as.Rhs[0]); strings.HasSuffix(r, "Expire") || strings.HasSuffix(r, "expire") {
				alias[exprString(as.Lhs[0])] = true
			}
		}
		return true
	})
	nm := func(s string) (string, bool) {
		if strings.HasSuffix(s, "Expire") || strings.HasSuffix(s, "expire") || alias[s] {
			return "expire", true
		}
		return "", false
	}
	for _, fun := range []string{"time.After", "time.AfterFunc"} {
		for _, c := range callsIn(fd.Body, fun) {
			p := pathTo(fd.Body, c)
			inLoop := false
			var ifc ast.Expr
			for i, n := range p {
				switch x := n.(type) {
				case *ast.ForStmt, *ast.RangeStmt:
					inLoop = true
				case *ast.FuncLit:
					_ = x
					// a timer created inside a callback is not this call's deadline
					inLoop = inLoop
				case *ast.IfStmt:
					if i+1 < len(p) && p[i+1] == ast.Node(x.Body) {
						ifc = x.Cond
					}
				case *ast.AssignStmt:
					if len(x.Lhs) == 1 {
						timerVar = exprString(x.Lhs[0])
					}
				}
			}
			arg := ""
			if len(c.Args) > 0 {
				arg = exprString(c.Args[0])
			}
			// only deadline timers (argument is an …Expire field); resend / survey timers belong to other properties
			if _, ok := nm(arg); !ok {
				continue
			}
			if timer != "none" {
				unrec(site, "more than one deadline timer")
			}
			timerArg = "expire"
			if inLoop {
				timer = "loop"
			} else {
				timer = "once"
			}
			if fun == "time.AfterFunc" {
				timer += "-func"
			}
			if ifc != nil {
				guard = toG(ifc, nm)
			} else {
				guard = &G{Op: "tt"}
			}
		}
	}
	// best-effort wiring: an if on …bestEffort that assigns closedQ to the timer variable, or that returns early
	be := "none"
	walkIfs(fd.Body, func(s *ast.IfStmt) {
		c := exprString(s.Cond)
		if !(strings.HasSuffix(c, "bestEffort") && !strings.HasPrefix(c, "!")) {
			return
		}
		for _, st := range s.Body.List {
			if as, ok := st.(*ast.AssignStmt); ok && len(as.Rhs) == 1 && exprString(as.Rhs[0]) == "closedQ" {
				if timerVar == "" || exprString(as.Lhs[0]) == timerVar {
					be = "closedQ"
					if timerVar == "" {
						timerVar = exprString(as.Lhs[0])
					}
				}
			}
		}
		if be == "none" && bodyReturns(s.Body, "nil") {
			be = "return"
		}
	})
	// fail-no-peers pre-check
	fnp := &G{Op: "ff"}
	walkIfs(fd.Body, func(s *ast.IfStmt) {
		c := exprString(s.Cond)
		if strings.Contains(c, "failNoPeers") && bodyReturns(s.Body, "ErrNoPeers") {
			fnp = toG(s.Cond, func(x string) (string, bool) {
				switch {
				case strings.HasSuffix(x, "failNoPeers"):
					return "failNoPeers", true
				case strings.HasPrefix(x, "len(") && strings.HasSuffix(x, "pipes)"):
					return "npipes", true
				}
				return "", false
			})
		}
	})
	// select cases
	cases := []string{}
	ast.Inspect(fd.Body, func(x ast.Node) bool {
		if _, ok := x.(*ast.FuncLit); ok {
			return false
		}
		sel, ok := x.(*ast.SelectStmt)
		if !ok {
			return true
		}
		inLoop := false
		for _, n := range pathTo(fd.Body, sel) {
			if _, ok := n.(*ast.ForStmt); ok {
				inLoop = true
			}
		}
		for _, cl := range sel.Body.List {
			cc := cl.(*ast.CommClause)
			comm := commString(cc)
			if timerVar != "" {
				comm = strings.ReplaceAll(comm, "<-"+timerVar, "<-TIMER")
			}
			if rv != "" {
				comm = strings.ReplaceAll(comm, rv+".", "")
			}
			body := []string{}
			for _, st := range cc.Body {
				b := stmtBrief(st)
				if timerVar != "" {
					b = strings.ReplaceAll(b, timerVar+"==closedQ", "bestEffort")
				}
				if rv != "" {
					b = strings.ReplaceAll(b, rv+".", "")
				}
				body = append(body, b)
			}
			how := "fallthrough"
			if len(cc.Body) > 0 {
				how = strings.Join(body, ";")
			} else if inLoop {
				how = "retry"
			}
			cases = append(cases, "("+leanStr(comm)+", "+leanStr(how)+")")
		}
		return true
	})
	// condition-variable waits (REQ): the loop conditions
	conds := []string{}
	ast.Inspect(fd.Body, func(x ast.Node) bool {
		if _, ok := x.(*ast.FuncLit); ok {
			return false
		}
		if fs, ok := x.(*ast.ForStmt); ok && fs.Cond != nil && len(callsIn(fs.Body, rv+".cond.Wait")) > 0 {
			conds = append(conds, strings.ReplaceAll(exprString(fs.Cond), rv+".", ""))
		}
		return true
	})
	_ = token.ADD
	return fmt.Sprintf("  { pkg := %s, recv := %s, fn := %s, timer := %s, timerGuard := %s, timerArg := %s, bestEffort := %s, failNoPeers := %s,\n    cases := %s, condWaits := %s }",
		leanStr("protocol/"+pk), leanStr(recvTypeName(fd)), leanStr(fd.Name.Name), leanStr(timer), guard.Lean(), leanStr(timerArg), leanStr(be), fnp.Lean(),
		"["+strings.Join(cases, ", ")+"]", leanStrList(conds))
}

func extractWait() {
	rows := []string{}
	for _, pk := range waitPkgs {
		p := loadPkg("protocol/" + pk)
		var fds []*ast.FuncDecl
		for _, fd := range p.allFuncs() {
			if (fd.Name.Name == "SendMsg" || fd.Name.Name == "RecvMsg") && (recvTypeName(fd) == "socket" || recvTypeName(fd) == "context") && fd.Body != nil {
				fds = append(fds, fd)
			}
		}
		if len(fds) == 0 {
			unrec("protocol/"+pk, "no SendMsg/RecvMsg found")
		}
		sort.Slice(fds, func(i, j int) bool {
			a, b := recvTypeName(fds[i])+"."+fds[i].Name.Name, recvTypeName(fds[j])+"."+fds[j].Name.Name
			return a < b
		})
		for _, fd := range fds {
			rows = append(rows, extractWaitSite(pk, fd))
		}
	}
	emit("\n/-- every protocol's SendMsg/RecvMsg: deadline timer placement and guard, best-effort wiring, fail-no-peers pre-check, select cases -/\n")
	emit("def waitSites : List WaitSite := [\n%s\n]\n", strings.Join(rows, ",\n"))
}

// reference-count discipline of message.go: statement lists of Free, Clone, MakeUnique, Dup and the tail of NewMessage
// (calls to the verif-tag ledger hooks are left out; their arguments are not)
func extractMsgShapes() {
	p := loadPkg(".")
	rows := []string{}
	for _, fn := range []struct{ recv, name string }{{"Message", "Free"}, {"Message", "Clone"}, {"Message", "MakeUnique"}, {"Message", "Dup"}, {"", "NewMessage"}} {
		fd := p.fn(fn.recv, fn.name)
		if fd == nil {
			unrec("message.go:"+fn.name, "function not found")
			continue
		}
		var st []string
		var walk func(l []ast.Stmt, depth int)
		walk = func(l []ast.Stmt, depth int) {
			for _, x := range l {
				pre := strings.Repeat(">", depth)
				switch y := x.(type) {
				case *ast.IfStmt:
					st = append(st, pre+"if "+exprString(y.Cond))
					walk(y.Body.List, depth+1)
				case *ast.ForStmt:
					st = append(st, pre+"for")
					walk(y.Body.List, depth+1)
				case *ast.RangeStmt:
					st = append(st, pre+"range "+exprString(y.X))
					walk(y.Body.List, depth+1)
				default:
					b := stmtBrief(x)
					// verifOnClone(m, atomic.AddInt32(&m.refcnt,1)) -> the wrapped operation
					if strings.HasPrefix(b, "verifOn") {
						if i := strings.Index(b, "atomic."); i >= 0 {
							b = strings.TrimSuffix(b[i:], ")")
						} else {
							continue
						}
					}
					st = append(st, pre+b)
				}
			}
		}
		walk(fd.Body.List, 0)
		rows = append(rows, fmt.Sprintf("(%s, %s)", leanStr(fn.name), leanStrList(st)))
	}
	emit("\n/-- message.go: the reference-count operations as read -/\n")
	emit("def msgShapes : List (String × List String) := [\n  %s\n]\n", strings.Join(rows, ",\n  "))
}

// shapeLines: the statement list of a function body, one line per statement, nesting shown by '>' ; else branches,
// switch / select clauses included
func shapeLines(body *ast.BlockStmt) []string {
	var st []string
	var walk func(l []ast.Stmt, depth int)
	var one func(x ast.Stmt, depth int)
	one = func(x ast.Stmt, depth int) {
		pre := strings.Repeat(">", depth)
		switch y := x.(type) {
		case *ast.IfStmt:
			h := "if "
			if y.Init != nil {
				h += stmtBrief(y.Init) + "; "
			}
			st = append(st, pre+h+exprString(y.Cond))
			walk(y.Body.List, depth+1)
			if y.Else != nil {
				st = append(st, pre+"else")
				if b, ok := y.Else.(*ast.BlockStmt); ok {
					walk(b.List, depth+1)
				} else {
					one(y.Else, depth+1)
				}
			}
		case *ast.LabeledStmt:
			st = append(st, pre+y.Label.Name+":")
			one(y.Stmt, depth)
		case *ast.BranchStmt:
			b := y.Tok.String()
			if y.Label != nil {
				b += " " + y.Label.Name
			}
			st = append(st, pre+b)
		case *ast.ForStmt:
			h := "for"
			if y.Cond != nil {
				h += " " + exprString(y.Cond)
			}
			st = append(st, pre+h)
			walk(y.Body.List, depth+1)
		case *ast.RangeStmt:
			st = append(st, pre+"range "+exprString(y.X))
			walk(y.Body.List, depth+1)
		case *ast.BlockStmt:
			walk(y.List, depth)
		case *ast.SwitchStmt:
			h := "switch"
			if y.Tag != nil {
				h += " " + exprString(y.Tag)
			}
			st = append(st, pre+h)
			for _, cl := range y.Body.List {
				cc := cl.(*ast.CaseClause)
				if cc.List == nil {
					st = append(st, pre+">default")
				} else {
					var es []string
					for _, e := range cc.List {
						es = append(es, exprString(e))
					}
					st = append(st, pre+">case "+strings.Join(es, ","))
				}
				walk(cc.Body, depth+2)
			}
		case *ast.SelectStmt:
			st = append(st, pre+"select")
			for _, cl := range y.Body.List {
				cc := cl.(*ast.CommClause)
				if cc.Comm == nil {
					st = append(st, pre+">default")
				} else if sd, ok := cc.Comm.(*ast.SendStmt); ok {
					st = append(st, pre+">case "+exprString(sd.Chan)+"<-"+exprString(sd.Value))
				} else {
					st = append(st, pre+">case "+stmtBrief(cc.Comm))
				}
				walk(cc.Body, depth+2)
			}
		case *ast.SendStmt:
			st = append(st, pre+exprString(y.Chan)+"<-"+exprString(y.Value))
		case *ast.DeclStmt:
			d := "var"
			if gd, ok := y.Decl.(*ast.GenDecl); ok {
				for _, sp := range gd.Specs {
					if vs, ok := sp.(*ast.ValueSpec); ok {
						for _, n := range vs.Names {
							d += " " + n.Name
						}
						if vs.Type != nil {
							d += " " + exprString(vs.Type)
						}
						for _, v := range vs.Values {
							d += "=" + exprString(v)
						}
					}
				}
			}
			st = append(st, pre+d)
		default:
			st = append(st, pre+stmtBrief(x))
		}
	}
	walk = func(l []ast.Stmt, depth int) {
		for _, x := range l {
			one(x, depth)
		}
	}
	walk(body.List, 0)
	return st
}

// the byte-level code of the transports: framing and handshake of the stream transports, the WebSocket and inproc
// Send / Recv — whole statement lists, so that any edit to them re-opens the obligation
func extractTransportShapes() {
	rows := []string{}
	for _, fn := range []struct{ pkg, recv, name string }{
		{"transport", "conn", "Recv"}, {"transport", "conn", "Send"}, {"transport", "conn", "handshake"},
		{"transport", "connipc", "Recv"}, {"transport", "connipc", "Send"},
		{"transport/ws", "wsPipe", "Recv"}, {"transport/ws", "wsPipe", "Send"},
		{"transport/inproc", "inproc", "Recv"}, {"transport/inproc", "inproc", "Send"},
		{"internal/core", "pipe", "SendMsg"}, {"internal/core", "pipe", "RecvMsg"},
	} {
		p := loadPkg(fn.pkg)
		fd := p.fn(fn.recv, fn.name)
		if fd == nil || fd.Body == nil {
			unrec(fn.pkg+":"+fn.recv+"."+fn.name, "function not found")
			continue
		}
		rows = append(rows, fmt.Sprintf("(%s, %s)", leanStr(fn.pkg+":"+fn.recv+"."+fn.name), leanStrList(shapeLines(fd.Body))))
	}
	emit("\n/-- the transports' byte-level code as read: statement lists of framing, handshake, WebSocket and inproc Send / Recv -/\n")
	emit("def transportShapes : List (String × List String) := [\n  %s\n]\n", strings.Join(rows, ",\n  "))
}

// the code behind the hand-written machines added last (Model/Inproc.lean, Model/Proto/RawRecv.lean): whole statement
// lists of the inproc rendezvous and of the raw receive paths, so that any edit to them re-opens the obligation and the
// correspondence has to show that the machine still describes them
func extractMachineShapes() {
	table := func(name, doc string, fns []struct{ pkg, recv, name string }) {
		rows := []string{}
		for _, fn := range fns {
			p := loadPkg(fn.pkg)
			fd := p.fn(fn.recv, fn.name)
			if fd == nil || fd.Body == nil {
				unrec(fn.pkg+":"+fn.recv+"."+fn.name, "function not found")
				continue
			}
			rows = append(rows, fmt.Sprintf("(%s, %s)", leanStr(fn.pkg+":"+fn.recv+"."+fn.name), leanStrList(shapeLines(fd.Body))))
		}
		emit("\n/-- %s -/\n", doc)
		emit("def %s : List (String × List String) := [\n  %s\n]\n", name, strings.Join(rows, ",\n  "))
	}
	table("inprocShapes", "the inproc rendezvous as read: statement lists of Listen / Accept / Dial and the two Close", []struct{ pkg, recv, name string }{
		{"transport/inproc", "listener", "Listen"}, {"transport/inproc", "listener", "Accept"}, {"transport/inproc", "listener", "Close"},
		{"transport/inproc", "dialer", "Dial"}, {"transport/inproc", "dialer", "Close"}, {"transport/inproc", "inproc", "Close"},
	})
	table("deviceShapes", "mangos.Device and its forwarder as read", []struct{ pkg, recv, name string }{
		{".", "", "Device"}, {".", "", "forwarder"},
	})
	table("rawRecvShapes", "the raw receive paths as read: receiver goroutine and RecvMsg of XREQ, XSURVEYOR and XSUB", []struct{ pkg, recv, name string }{
		{"protocol/xreq", "pipe", "receiver"}, {"protocol/xreq", "socket", "RecvMsg"},
		{"protocol/xsurveyor", "pipe", "receiver"}, {"protocol/xsurveyor", "socket", "RecvMsg"},
		{"protocol/xsub", "pipe", "receiver"}, {"protocol/xsub", "socket", "RecvMsg"},
	})
}

// macat: the loops that move bytes between the socket and the terminal, and how --file reads its payload
func extractMacatShapes() {
	rows := []string{}
	p := loadPkg("macat")
	for _, name := range []string{"setSendData", "setSendFile", "recvLoop", "sendLoop", "sendRecvLoop", "replyLoop"} {
		fd := p.fn("App", name)
		if fd == nil || fd.Body == nil {
			unrec("macat:App."+name, "function not found")
			continue
		}
		rows = append(rows, fmt.Sprintf("(%s, %s)", leanStr(name), leanStrList(shapeLines(fd.Body))))
	}
	emit("\n/-- macat: payload options and the send / receive / reply loops as read -/\n")
	emit("def macatShapes : List (String × List String) := [\n  %s\n]\n", strings.Join(rows, ",\n  "))
}

// the close paths of the connection-level objects, statement by statement: who closes what
func extractCloseShapes() {
	rows := []string{}
	for _, fn := range []struct{ pkg, recv, name string }{
		{"internal/core", "dialer", "Close"}, {"internal/core", "listener", "Close"},
		{"transport", "connHandshaker", "Start"}, {"transport", "connHandshaker", "Close"}, {"transport", "connHandshaker", "worker"}, {"transport", "connHandshaker", "Wait"},
		{"transport", "conn", "Close"},
		{"transport/tcp", "dialer", "Close"}, {"transport/tcp", "listener", "Close"},
		{"transport/tlstcp", "dialer", "Close"}, {"transport/tlstcp", "listener", "Close"},
		{"transport/ipc", "dialer", "Close"}, {"transport/ipc", "listener", "Close"},
		{"transport/ws", "listener", "Close"}, {"transport/ws", "listener", "Accept"}, {"transport/ws", "listener", "ServeHTTP"},
		{"transport/ws", "dialer", "Close"}, {"transport/ws", "dialer", "netDial"},
		{"transport/inproc", "dialer", "Close"}, {"transport/inproc", "listener", "Close"},
	} {
		p := loadPkg(fn.pkg)
		fd := p.fn(fn.recv, fn.name)
		if fd == nil || fd.Body == nil {
			unrec(fn.pkg+":"+fn.recv+"."+fn.name, "function not found")
			continue
		}
		rows = append(rows, fmt.Sprintf("(%s, %s)", leanStr(fn.pkg+":"+fn.recv+"."+fn.name), leanStrList(shapeLines(fd.Body))))
	}
	// the head of the ws handler: the test that decides whether an upgraded connection is queued
	if fd := loadPkg("transport/ws").fn("listener", "handler"); fd != nil && fd.Body != nil {
		l := shapeLines(fd.Body)
		if len(l) > 5 {
			l = l[:5]
		}
		rows = append(rows, fmt.Sprintf("(%s, %s)", leanStr("transport/ws:listener.handler (head)"), leanStrList(l)))
	} else {
		unrec("transport/ws:listener.handler", "function not found")
	}
	emit("\n/-- close paths of dialers, listeners, the connection handshaker and the ws accept queue, as read -/\n")
	emit("def closeShapes : List (String × List String) := [\n  %s\n]\n", strings.Join(rows, ",\n  "))
}
