package main

// Every allocation of a message queue in the protocol packages — `make(chan *protocol.Message, CAP)` — with what it is
// assigned to, the capacity expression and the SetOption case it sits in (if any).  The obligation (Obl/Queues.lean):
// a send queue is sized by the write-queue length (or by the value being set in the WRITEQ-LEN case), a receive queue by
// the read-queue length (READQ-LEN case), and the list of allocations is the one the models were written against.

import (
	"fmt"
	"go/ast"
	"sort"
	"strings"
)

var queuePkgs = []string{"protocol/rep", "protocol/respondent", "protocol/sub", "protocol/surveyor", "protocol/req", "protocol/xbus", "protocol/xpair",
	"protocol/xpair1", "protocol/xpub", "protocol/xpull", "protocol/xpush", "protocol/xrep", "protocol/xreq", "protocol/xrespondent",
	"protocol/xstar", "protocol/xsub", "protocol/xsurveyor"}

func isMsgChanMake(e ast.Expr) (capExpr string, ok bool) {
	c, isCall := e.(*ast.CallExpr)
	if !isCall {
		return "", false
	}
	if id, isId := c.Fun.(*ast.Ident); !isId || id.Name != "make" || len(c.Args) < 1 {
		return "", false
	}
	ch, isCh := c.Args[0].(*ast.ChanType)
	if !isCh || !strings.Contains(exprString(ch.Value), "Message") {
		return "", false
	}
	if len(c.Args) < 2 {
		return "0", true
	}
	return exprString(c.Args[1]), true
}

func queueKind(target string) string {
	t := strings.ToLower(target)
	switch {
	case strings.Contains(t, "send"):
		return "send"
	case strings.Contains(t, "recv"):
		return "recv"
	}
	return "new" // a replacement queue inside SetOption: the option case says which
}

func capKind(c string) string {
	t := strings.ToLower(strings.ReplaceAll(c, " ", ""))
	switch {
	case strings.HasSuffix(t, "sendqlen"):
		return "sendQLen"
	case strings.HasSuffix(t, "recvqlen"):
		return "recvQLen"
	case t == "defaultqlen":
		return "default"
	case t == "v" || t == "qlen":
		return "value"
	}
	return "other:" + c
}

func extractQueues() {
	rows := []string{}
	for _, pk := range queuePkgs {
		p := loadPkg(pk)
		if p == nil {
			continue
		}
		for _, fd := range p.allFuncs() {
			if fd.Body == nil {
				continue
			}
			fn := fd.Name.Name
			if r := recvTypeName(fd); r != "" {
				fn = r + "." + fn
			}
			// the SetOption case an allocation sits in
			caseOf := map[ast.Node]string{}
			ast.Inspect(fd.Body, func(n ast.Node) bool {
				cc, ok := n.(*ast.CaseClause)
				if !ok || len(cc.List) != 1 {
					return true
				}
				name := exprString(cc.List[0])
				if !strings.Contains(name, "Option") {
					return true
				}
				ast.Inspect(cc, func(m ast.Node) bool {
					if m != nil {
						caseOf[m] = strings.TrimPrefix(name, "protocol.")
					}
					return true
				})
				return true
			})
			record := func(target string, rhs ast.Expr, at ast.Node) {
				if c, ok := isMsgChanMake(rhs); ok {
					rows = append(rows, fmt.Sprintf("⟨%s, %s, %s, %s, %s, %s, %s⟩", leanStr(pk), leanStr(fn), leanStr(target), leanStr(queueKind(target)),
						leanStr(c), leanStr(capKind(c)), leanStr(caseOf[at])))
				}
			}
			ast.Inspect(fd.Body, func(n ast.Node) bool {
				switch x := n.(type) {
				case *ast.AssignStmt:
					for i, r := range x.Rhs {
						if i < len(x.Lhs) {
							record(exprString(x.Lhs[i]), r, x)
						}
					}
				case *ast.KeyValueExpr:
					record(exprString(x.Key), x.Value, x)
				case *ast.ValueSpec:
					for i, r := range x.Values {
						if i < len(x.Names) {
							record(x.Names[i].Name, r, x)
						}
					}
				}
				return true
			})
		}
	}
	sort.Strings(rows)
	emit("/-- every allocation of a message queue in the protocols: package, function, target, kind of target, capacity, kind of capacity, SetOption case -/\n")
	emit("def queueAllocs : List QueueAlloc := [\n  %s]\n\n", strings.Join(rows, ",\n  "))
}
