package main

import (
	"fmt"
	"go/ast"
	"go/token"
	"strconv"
	"strings"
)

// G is the Go-side mirror of Model.GExpr; it prints itself as a Lean term.
type G struct {
	Op   string // var lit add sub band lt le gt ge eq ne and or not tt ff unknown
	Name string
	Int  int64
	A, B *G
}

func gVar(n string) *G     { return &G{Op: "var", Name: n} }
func gLit(i int64) *G      { return &G{Op: "lit", Int: i} }
func gUnknown(w string) *G { return &G{Op: "unknown", Name: w} }

func (g *G) Lean() string {
	switch g.Op {
	case "var":
		return fmt.Sprintf("(.var %q)", g.Name)
	case "lit":
		if g.Int < 0 {
			return fmt.Sprintf("(.lit (%d))", g.Int)
		}
		return fmt.Sprintf("(.lit %d)", g.Int)
	case "unknown":
		return fmt.Sprintf("(.unknown %q)", g.Name)
	case "tt", "ff":
		return "." + g.Op
	case "not":
		return fmt.Sprintf("(.not %s)", g.A.Lean())
	case "band":
		return fmt.Sprintf("(.band %s %d)", g.A.Lean(), g.Int)
	default:
		return fmt.Sprintf("(.%s %s %s)", g.Op, g.A.Lean(), g.B.Lean())
	}
}

func (g *G) Recognised() bool {
	if g == nil {
		return true
	}
	if g.Op == "unknown" {
		return false
	}
	return g.A.Recognised() && g.B.Recognised()
}

// namer maps a Go operand expression (rendered as source text) to a GExpr variable name.
type namer func(src string) (string, bool)

func exprString(e ast.Expr) string {
	switch x := e.(type) {
	case *ast.Ident:
		return x.Name
	case *ast.SelectorExpr:
		return exprString(x.X) + "." + x.Sel.Name
	case *ast.BasicLit:
		return x.Value
	case *ast.ParenExpr:
		return "(" + exprString(x.X) + ")"
	case *ast.CallExpr:
		args := []string{}
		for _, a := range x.Args {
			args = append(args, exprString(a))
		}
		return exprString(x.Fun) + "(" + strings.Join(args, ",") + ")"
	case *ast.IndexExpr:
		return exprString(x.X) + "[" + exprString(x.Index) + "]"
	case *ast.BinaryExpr:
		return exprString(x.X) + x.Op.String() + exprString(x.Y)
	case *ast.UnaryExpr:
		return x.Op.String() + exprString(x.X)
	case *ast.StarExpr:
		return "*" + exprString(x.X)
	case *ast.SliceExpr:
		lo, hi := "", ""
		if x.Low != nil {
			lo = exprString(x.Low)
		}
		if x.High != nil {
			hi = exprString(x.High)
		}
		return exprString(x.X) + "[" + lo + ":" + hi + "]"
	case *ast.TypeAssertExpr:
		return exprString(x.X) + ".(" + exprString(x.Type) + ")"
	case *ast.ArrayType:
		return "[]" + exprString(x.Elt)
	case *ast.CompositeLit:
		return exprString(x.Type) + "{…}"
	case *ast.FuncLit:
		return "func{…}"
	case *ast.InterfaceType:
		return "interface{}"
	case *ast.MapType:
		return "map[" + exprString(x.Key) + "]" + exprString(x.Value)
	case *ast.ChanType:
		return "chan " + exprString(x.Value)
	case *ast.KeyValueExpr:
		return exprString(x.Key) + ":" + exprString(x.Value)
	case nil:
		return ""
	}
	return fmt.Sprintf("<%T>", e)
}

var convFuncs = map[string]bool{"int": true, "int64": true, "uint64": true, "uint32": true, "int32": true, "uint": true, "byte": true, "uint16": true, "time.Duration": true}

func parseIntLit(s string) (int64, bool) {
	if len(s) >= 3 && s[0] == '\'' {
		r, _, _, err := strconv.UnquoteChar(s[1:len(s)-1], '\'')
		if err != nil {
			return 0, false
		}
		return int64(r), true
	}
	v, err := strconv.ParseInt(s, 0, 64)
	if err != nil {
		u, err2 := strconv.ParseUint(s, 0, 64)
		if err2 != nil {
			return 0, false
		}
		return int64(u), true
	}
	return v, true
}

// toG translates a Go expression into a GExpr; operands are named through nm.
func toG(e ast.Expr, nm namer) *G {
	switch x := e.(type) {
	case *ast.ParenExpr:
		return toG(x.X, nm)
	case *ast.BasicLit:
		if x.Kind == token.INT || x.Kind == token.CHAR {
			if v, ok := parseIntLit(x.Value); ok {
				return gLit(v)
			}
		}
		return gUnknown(x.Value)
	case *ast.Ident:
		if x.Name == "true" {
			return &G{Op: "tt"}
		}
		if x.Name == "false" {
			return &G{Op: "ff"}
		}
		if n, ok := nm(x.Name); ok {
			return gVar(n)
		}
		return gUnknown(x.Name)
	case *ast.UnaryExpr:
		if x.Op == token.NOT {
			return &G{Op: "not", A: toG(x.X, nm)}
		}
		if x.Op == token.SUB {
			if l, ok := x.X.(*ast.BasicLit); ok {
				if v, ok := parseIntLit(l.Value); ok {
					return gLit(-v)
				}
			}
		}
		return gUnknown(exprString(e))
	case *ast.CallExpr:
		fn := exprString(x.Fun)
		if convFuncs[fn] && len(x.Args) == 1 {
			return toG(x.Args[0], nm)
		}
		// time.Duration.Nanoseconds() is the duration's integer value
		if sel, ok := x.Fun.(*ast.SelectorExpr); ok && sel.Sel.Name == "Nanoseconds" && len(x.Args) == 0 {
			return toG(sel.X, nm)
		}
		if n, ok := nm(exprString(e)); ok {
			return gVar(n)
		}
		return gUnknown(exprString(e))
	case *ast.BinaryExpr:
		ops := map[token.Token]string{token.LSS: "lt", token.LEQ: "le", token.GTR: "gt", token.GEQ: "ge",
			token.EQL: "eq", token.NEQ: "ne", token.LAND: "and", token.LOR: "or", token.ADD: "add", token.SUB: "sub"}
		if op, ok := ops[x.Op]; ok {
			return &G{Op: op, A: toG(x.X, nm), B: toG(x.Y, nm)}
		}
		if x.Op == token.AND {
			if l, ok := x.Y.(*ast.BasicLit); ok {
				if v, ok := parseIntLit(l.Value); ok {
					return &G{Op: "band", A: toG(x.X, nm), Int: v}
				}
			}
		}
		if x.Op == token.MUL {
			// constant folding of literal products (1024 * 1024)
			a, b := toG(x.X, nm), toG(x.Y, nm)
			if a.Op == "lit" && b.Op == "lit" {
				return gLit(a.Int * b.Int)
			}
		}
		return gUnknown(exprString(e))
	default:
		if n, ok := nm(exprString(e)); ok {
			return gVar(n)
		}
		return gUnknown(exprString(e))
	}
}

func mapNamer(m map[string]string) namer {
	return func(s string) (string, bool) {
		v, ok := m[s]
		return v, ok
	}
}
