package main

import (
	"fmt"
	"go/ast"
	"go/token"
	"sort"
	"strconv"
	"strings"
)

func walkIfs(n ast.Node, f func(*ast.IfStmt)) {
	ast.Inspect(n, func(x ast.Node) bool {
		if s, ok := x.(*ast.IfStmt); ok {
			f(s)
		}
		return true
	})
}

func bodyReturns(b *ast.BlockStmt, what string) bool {
	found := false
	for _, s := range b.List {
		if r, ok := s.(*ast.ReturnStmt); ok {
			for _, e := range r.Results {
				if strings.HasSuffix(exprString(e), what) {
					found = true
				}
			}
		}
	}
	return found
}

func callsIn(n ast.Node, fun string) []*ast.CallExpr {
	var out []*ast.CallExpr
	ast.Inspect(n, func(x ast.Node) bool {
		if c, ok := x.(*ast.CallExpr); ok && exprString(c.Fun) == fun {
			out = append(out, c)
		}
		return true
	})
	return out
}

func intOf(e ast.Expr) (int64, bool) {
	g := toG(e, func(string) (string, bool) { return "", false })
	if g.Op == "lit" {
		return g.Int, true
	}
	return 0, false
}

// ---------------------------------------------------------------- message pool

func extractPool() {
	p := loadPkg(".")
	site := "message.go"
	classes := []string{}
	for _, f := range p.files {
		for _, d := range f.Decls {
			gd, ok := d.(*ast.GenDecl)
			if !ok || gd.Tok != token.VAR {
				continue
			}
			for _, s := range gd.Specs {
				vs := s.(*ast.ValueSpec)
				if len(vs.Names) != 1 || vs.Names[0].Name != "messageCache" || len(vs.Values) != 1 {
					continue
				}
				cl, ok := vs.Values[0].(*ast.CompositeLit)
				if !ok {
					unrec(site, "messageCache is not a composite literal")
					continue
				}
				for _, el := range cl.Elts {
					ecl, ok := el.(*ast.CompositeLit)
					if !ok {
						unrec(site, "messageCache element")
						continue
					}
					var maxbody, alloc int64 = -1, -1
					for _, kv := range ecl.Elts {
						k, ok := kv.(*ast.KeyValueExpr)
						if !ok {
							continue
						}
						switch exprString(k.Key) {
						case "maxbody":
							maxbody, _ = intOf(k.Value)
						case "pool":
							for _, c := range callsIn(k.Value, "newMsg") {
								if len(c.Args) == 1 {
									alloc, _ = intOf(c.Args[0])
								}
							}
						}
					}
					if maxbody < 0 || alloc < 0 {
						unrec(site, "messageCache entry without literal maxbody/newMsg size")
						continue
					}
					classes = append(classes, fmt.Sprintf("(%d, %d)", maxbody, alloc))
				}
			}
		}
	}
	if len(classes) == 0 {
		unrec(site, "messageCache table not found")
	}
	emit("/-- message.go messageCache: (maxbody, size its pool allocates) -/\n")
	emit("def poolClasses : List (Nat × Nat) := [%s]\n", strings.Join(classes, ", "))

	pick, fallback := gUnknown("NewMessage pick"), gUnknown("NewMessage fallback")
	if fd := p.fn("", "NewMessage"); fd != nil {
		nm := mapNamer(map[string]string{"sz": "sz", "messageCache[i].maxbody": "maxbody"})
		walkIfs(fd, func(s *ast.IfStmt) {
			if strings.Contains(exprString(s.Cond), "maxbody") {
				pick = toG(s.Cond, nm)
			}
		})
		for _, c := range callsIn(fd, "newMsg") {
			if len(c.Args) == 1 {
				fallback = toG(c.Args[0], nm)
			}
		}
	}
	emit("def poolPick : GExpr := %s\n", pick.Lean())
	emit("def poolFallbackSize : GExpr := %s\n", fallback.Lean())
	free := gUnknown("Free match")
	if fd := p.fn("Message", "Free"); fd != nil {
		nm := mapNamer(map[string]string{"m.bsize": "bsize", "messageCache[i].maxbody": "maxbody"})
		walkIfs(fd, func(s *ast.IfStmt) {
			if strings.Contains(exprString(s.Cond), "maxbody") {
				free = toG(s.Cond, nm)
			}
		})
	}
	emit("def poolFree : GExpr := %s\n", free.Lean())
	blen, bcap, bsize := gUnknown("newMsg len"), gUnknown("newMsg cap"), gUnknown("newMsg bsize")
	if fd := p.fn("", "newMsg"); fd != nil {
		nm := mapNamer(map[string]string{"sz": "sz"})
		ast.Inspect(fd, func(x ast.Node) bool {
			as, ok := x.(*ast.AssignStmt)
			if !ok || len(as.Lhs) != 1 || len(as.Rhs) != 1 {
				return true
			}
			switch exprString(as.Lhs[0]) {
			case "m.bbuf":
				if c, ok := as.Rhs[0].(*ast.CallExpr); ok && exprString(c.Fun) == "make" && len(c.Args) == 3 {
					blen, bcap = toG(c.Args[1], nm), toG(c.Args[2], nm)
				}
			case "m.bsize":
				bsize = toG(as.Rhs[0], nm)
			}
			return true
		})
	}
	emit("def newMsgBodyLen : GExpr := %s\ndef newMsgBodyCap : GExpr := %s\ndef newMsgBsize : GExpr := %s\n", blen.Lean(), bcap.Lean(), bsize.Lean())
	// NewMessage resets Body/Header to the (empty) backing slices
	resets := []string{}
	if fd := p.fn("", "NewMessage"); fd != nil {
		for _, s := range fd.Body.List {
			if as, ok := s.(*ast.AssignStmt); ok && len(as.Lhs) == 1 {
				resets = append(resets, exprString(as.Lhs[0])+"="+exprString(as.Rhs[0]))
			}
		}
	}
	sort.Strings(resets)
	emit("def newMessageResets : List String := %s\n\n", leanStrList(resets))
}

// ---------------------------------------------------------------- stream framing

func extractWireOne(pkgRel, recv, prefix string) {
	p := loadPkg(pkgRel)
	site := pkgRel + ":" + recv
	guard, alloc, slice := gUnknown(site+".Recv guard"), gUnknown(site+".Recv alloc"), gUnknown(site+".Recv slice")
	guardBeforeAlloc := false
	if fd := p.fn(recv, "Recv"); fd != nil {
		nm := mapNamer(map[string]string{"sz": "sz", "p.maxrx": "maxrx"})
		var guardPos, allocPos token.Pos
		walkIfs(fd, func(s *ast.IfStmt) {
			if bodyReturns(s.Body, "ErrTooLong") {
				guard = toG(s.Cond, nm)
				guardPos = s.Pos()
			}
		})
		for _, c := range callsIn(fd, "mangos.NewMessage") {
			if len(c.Args) == 1 {
				alloc = toG(c.Args[0], nm)
				allocPos = c.Pos()
			}
		}
		ast.Inspect(fd, func(x ast.Node) bool {
			if as, ok := x.(*ast.AssignStmt); ok && len(as.Lhs) == 1 && exprString(as.Lhs[0]) == "msg.Body" {
				if se, ok := as.Rhs[0].(*ast.SliceExpr); ok && exprString(se.X) == "msg.Body" {
					lo := gLit(0)
					if se.Low != nil {
						lo = toG(se.Low, nm)
					}
					if lo.Op == "lit" && lo.Int == 0 && se.High != nil {
						slice = toG(se.High, nm)
					}
				}
			}
			return true
		})
		guardBeforeAlloc = guardPos.IsValid() && allocPos.IsValid() && guardPos < allocPos
	}
	emit("def %sRecvGuard : GExpr := %s\n", prefix, guard.Lean())
	emit("def %sRecvAlloc : GExpr := %s\n", prefix, alloc.Lean())
	emit("def %sRecvSlice : GExpr := %s\n", prefix, slice.Lean())
	emit("def %sGuardBeforeAlloc : Bool := %v\n", prefix, guardBeforeAlloc)

	lenExpr := gUnknown(site + ".Send length")
	var width int64 = -1
	order := []string{}
	put := ""
	prefixByte := int64(-1)
	if fd := p.fn(recv, "Send"); fd != nil {
		nm := mapNamer(map[string]string{"len(msg.Header)": "hlen", "len(msg.Body)": "blen"})
		ast.Inspect(fd, func(x ast.Node) bool {
			as, ok := x.(*ast.AssignStmt)
			if !ok || len(as.Lhs) != 1 || len(as.Rhs) != 1 {
				return true
			}
			switch exprString(as.Lhs[0]) {
			case "l":
				lenExpr = toG(as.Rhs[0], nm)
			case "lbyte":
				if c, ok := as.Rhs[0].(*ast.CallExpr); ok && exprString(c.Fun) == "make" && len(c.Args) == 2 {
					width, _ = intOf(c.Args[1])
				}
			case "lbyte[0]":
				prefixByte, _ = intOf(as.Rhs[0])
			case "buff":
				if c, ok := as.Rhs[0].(*ast.CallExpr); ok && exprString(c.Fun) == "append" {
					for _, a := range c.Args[1:] {
						order = append(order, exprString(a))
					}
				}
			}
			return true
		})
		ast.Inspect(fd, func(x ast.Node) bool {
			if c, ok := x.(*ast.CallExpr); ok && strings.HasPrefix(exprString(c.Fun), "binary.") {
				args := []string{}
				for _, a := range c.Args {
					args = append(args, exprString(a))
				}
				put = exprString(c.Fun) + "(" + strings.Join(args, ",") + ")"
			}
			return true
		})
	}
	if width < 0 {
		unrec(site, "Send: length buffer width")
		width = 0
	}
	emit("def %sSendLen : GExpr := %s\n", prefix, lenExpr.Lean())
	emit("def %sSendLenBytes : Nat := %d\n", prefix, width)
	emit("def %sSendPut : String := %s\n", prefix, leanStr(put))
	emit("def %sSendOrder : List String := %s\n", prefix, leanStrList(order))
	emit("def %sSendPrefix : Int := %d\n", prefix, prefixByte)
	// how the receive side reads the length
	reads := []string{}
	if fd := p.fn(recv, "Recv"); fd != nil {
		ast.Inspect(fd, func(x ast.Node) bool {
			if c, ok := x.(*ast.CallExpr); ok {
				f := exprString(c.Fun)
				if f == "binary.Read" || f == "p.c.Read" || f == "io.ReadFull" {
					args := []string{}
					for _, a := range c.Args {
						args = append(args, exprString(a))
					}
					reads = append(reads, f+"("+strings.Join(args, ",")+")")
				}
			}
			return true
		})
		// type of sz
		ast.Inspect(fd, func(x ast.Node) bool {
			if gd, ok := x.(*ast.GenDecl); ok && gd.Tok == token.VAR {
				for _, s := range gd.Specs {
					vs := s.(*ast.ValueSpec)
					for _, n := range vs.Names {
						if n.Name == "sz" || n.Name == "one" {
							reads = append(reads, "var "+n.Name+" "+exprString(vs.Type))
						}
					}
				}
			}
			return true
		})
	}
	emit("def %sRecvReads : List String := %s\n\n", prefix, leanStrList(reads))
}

func extractWire() {
	extractWireOne("transport", "conn", "conn")
	extractWireOne("transport", "connipc", "ipc")
	// websocket: Send concatenates header and body into one binary message
	p := loadPkg("transport/ws")
	wsSend := []string{}
	wsLimits := []string{}
	for _, fd := range p.allFuncs() {
		if fd.Body == nil {
			continue
		}
		ast.Inspect(fd.Body, func(x ast.Node) bool {
			if c, ok := x.(*ast.CallExpr); ok && strings.HasSuffix(exprString(c.Fun), ".SetReadLimit") && len(c.Args) == 1 {
				wsLimits = append(wsLimits, strings.ToLower(exprString(c.Args[0])))
			}
			return true
		})
	}
	if fd := p.fn("wsPipe", "Send"); fd != nil {
		ast.Inspect(fd, func(x ast.Node) bool {
			if c, ok := x.(*ast.CallExpr); ok {
				f := exprString(c.Fun)
				if f == "append" || strings.HasSuffix(f, "WriteMessage") {
					args := []string{}
					for _, a := range c.Args {
						args = append(args, exprString(a))
					}
					wsSend = append(wsSend, f+"("+strings.Join(args, ",")+")")
				}
			}
			return true
		})
	}
	// subprotocol strings and frame type
	wsSub := []string{}
	for _, fd := range p.allFuncs() {
		if fd.Body == nil {
			continue
		}
		ast.Inspect(fd.Body, func(x ast.Node) bool {
			switch e := x.(type) {
			case *ast.BinaryExpr:
				if e.Op == token.ADD && strings.Contains(exprString(e.Y), "sp.nanomsg.org") {
					wsSub = append(wsSub, fd.Name.Name+":"+exprString(e.X)+"+"+strings.Trim(exprString(e.Y), "\""))
				}
			case *ast.KeyValueExpr:
				if exprString(e.Key) == "dtype" {
					wsSub = append(wsSub, fd.Name.Name+":dtype="+exprString(e.Value))
				}
			}
			return true
		})
	}
	sort.Strings(wsSub)
	emit("def wsSubprotocol : List String := %s\n", leanStrList(wsSub))
	emit("def wsSendShape : List String := %s\n", leanStrList(wsSend))
	emit("def wsReadLimits : List String := %s\n\n", leanStrList(wsLimits))
}

// ---------------------------------------------------------------- handshake

func extractHandshake() {
	p := loadPkg("transport")
	site := "transport/conn.go:handshake"
	// struct layout
	fields := []string{}
	for _, f := range p.files {
		for _, d := range f.Decls {
			gd, ok := d.(*ast.GenDecl)
			if !ok || gd.Tok != token.TYPE {
				continue
			}
			for _, s := range gd.Specs {
				ts := s.(*ast.TypeSpec)
				if ts.Name.Name != "connHeader" {
					continue
				}
				if st, ok := ts.Type.(*ast.StructType); ok {
					for _, fl := range st.Fields.List {
						for _, n := range fl.Names {
							fields = append(fields, n.Name+":"+exprString(fl.Type))
						}
					}
				}
			}
		}
	}
	emit("def hsLayout : List String := %s\n", leanStrList(fields))
	inits := []string{}
	type chk struct {
		cond *G
		err  string
	}
	var checks []chk
	ioCalls := []string{}
	if fd := p.fn("conn", "handshake"); fd != nil {
		nm := mapNamer(map[string]string{"h.Zero": "Zero", "h.S": "S", "h.P": "P", "h.Version": "Version",
			"h.Proto": "Proto", "h.Reserved": "Reserved", "p.proto.Peer": "peer", "p.proto.Self": "self"})
		ast.Inspect(fd, func(x ast.Node) bool {
			switch s := x.(type) {
			case *ast.CompositeLit:
				if exprString(s.Type) == "connHeader" {
					for _, e := range s.Elts {
						if kv, ok := e.(*ast.KeyValueExpr); ok {
							g := toG(kv.Value, nm)
							inits = append(inits, fmt.Sprintf("(%s, %s)", leanStr(exprString(kv.Key)), g.Lean()))
						}
					}
				}
			case *ast.IfStmt:
				for _, st := range s.Body.List {
					if r, ok := st.(*ast.ReturnStmt); ok && len(r.Results) == 1 {
						e := exprString(r.Results[0])
						if strings.HasPrefix(e, "mangos.Err") {
							checks = append(checks, chk{toG(s.Cond, nm), strings.TrimPrefix(e, "mangos.")})
						}
					}
				}
			case *ast.CallExpr:
				f := exprString(s.Fun)
				if f == "binary.Write" || f == "binary.Read" {
					args := []string{}
					for _, a := range s.Args {
						args = append(args, exprString(a))
					}
					ioCalls = append(ioCalls, f+"("+strings.Join(args, ",")+")")
				}
			}
			return true
		})
	} else {
		unrec(site, "function not found")
	}
	emit("def hsInit : List (String × GExpr) := [%s]\n", strings.Join(inits, ", "))
	cs := []string{}
	for _, c := range checks {
		cs = append(cs, fmt.Sprintf("(%s, %s)", c.cond.Lean(), leanStr(c.err)))
	}
	emit("/-- conn.handshake: reject conditions in source order with the error returned -/\n")
	emit("def hsChecks : List (GExpr × String) := [%s]\n", strings.Join(cs, ", "))
	emit("def hsIO : List String := %s\n\n", leanStrList(ioCalls))
}

// ---------------------------------------------------------------- protocol numbers

var protoPkgs = []string{"bus", "pair", "pair1", "pub", "pull", "push", "rep", "req", "respondent", "star", "sub", "surveyor",
	"xbus", "xpair", "xpair1", "xpub", "xpull", "xpush", "xrep", "xreq", "xrespondent", "xstar", "xsub", "xsurveyor"}

func extractProtoTable() {
	root := loadPkg(".")
	rc := root.consts()
	names := []string{}
	for n := range rc {
		if strings.HasPrefix(n, "Proto") {
			names = append(names, n)
		}
	}
	sort.Strings(names)
	ents := []string{}
	for _, n := range names {
		v, ok := intOf(rc[n])
		if !ok {
			unrec("protocol.go", "constant "+n)
			continue
		}
		ents = append(ents, fmt.Sprintf("(%s, %d)", leanStr(n), v))
	}
	emit("def protoNumbers : List (String × Nat) := [%s]\n", strings.Join(ents, ", "))
	rows := []string{}
	for _, pk := range protoPkgs {
		c := loadPkg("protocol/" + pk).consts()
		get := func(k string) string {
			e, ok := c[k]
			if !ok {
				unrec("protocol/"+pk, "constant "+k)
				return ""
			}
			s := exprString(e)
			s = strings.TrimPrefix(s, "protocol.")
			s = strings.TrimPrefix(s, "mangos.")
			return strings.Trim(s, "\"")
		}
		rows = append(rows, fmt.Sprintf("⟨%s, %s, %s, %s, %s⟩", leanStr(pk), leanStr(get("Self")), leanStr(get("Peer")), leanStr(get("SelfName")), leanStr(get("PeerName"))))
	}
	emit("def protoInfo : List ProtoRow := [\n  %s]\n\n", strings.Join(rows, ",\n  "))
}

// ---------------------------------------------------------------- hop limits

// the word-moving loops of rep/xrep/respondent/xrespondent
func extractHopLoop(pk string) {
	p := loadPkg("protocol/" + pk)
	site := "protocol/" + pk + ":pipe.receiver"
	init := int64(-1)
	drop := gUnknown(site + " hop guard")
	shape := []string{}
	fd := p.fn("pipe", "receiver")
	if fd == nil {
		unrec(site, "function not found")
	} else {
		nm := mapNamer(map[string]string{"hops": "hops", "ttl": "ttl", "s.ttl": "ttl"})
		var loop *ast.ForStmt
		ast.Inspect(fd, func(x ast.Node) bool {
			switch s := x.(type) {
			case *ast.AssignStmt:
				if len(s.Lhs) == 1 && exprString(s.Lhs[0]) == "hops" && s.Tok == token.DEFINE {
					init, _ = intOf(s.Rhs[0])
				}
			case *ast.ForStmt:
				has := false
				for _, st := range s.Body.List {
					if inc, ok := st.(*ast.IncDecStmt); ok && exprString(inc.X) == "hops" {
						has = true
					}
				}
				if has {
					loop = s
				}
			}
			return true
		})
		if loop == nil {
			unrec(site, "hop loop (for … { …; hops++; … }) not found")
		} else {
			for _, st := range loop.Body.List {
				switch s := st.(type) {
				case *ast.IfStmt:
					c := exprString(s.Cond)
					switch {
					case strings.Contains(c, "hops"):
						drop = toG(s.Cond, nm)
						shape = append(shape, "if-hops-drop")
					case strings.Contains(c, "len(m.Body)"):
						shape = append(shape, "if "+c+" drop")
					case strings.Contains(c, "&0x80"):
						shape = append(shape, "if "+c+" finish")
					default:
						shape = append(shape, "if "+c)
					}
				case *ast.IncDecStmt:
					shape = append(shape, exprString(s.X)+s.Tok.String())
				case *ast.AssignStmt:
					shape = append(shape, exprString(s.Lhs[0])+"="+exprString(s.Rhs[0]))
				default:
					shape = append(shape, fmt.Sprintf("%T", st))
				}
			}
		}
	}
	if init < 0 {
		unrec(site, "initial hop count")
		init = 0
	}
	emit("def hop_%s : HopSite := { init := %d, drop := %s, shape := %s }\n", pk, init, drop.Lean(), leanStrList(shape))
}

func extractHops() {
	for _, pk := range []string{"rep", "xrep", "respondent", "xrespondent"} {
		extractHopLoop(pk)
	}
	// xpair1: hops := be32(body); drop if hops >= 255 || hops > ttl; header[3] = hops+1
	{
		p := loadPkg("protocol/xpair1")
		site := "protocol/xpair1:pipe.receiver"
		drop, bump, short := gUnknown(site+" hop guard"), gUnknown(site+" hop bump"), gUnknown(site+" short guard")
		if fd := p.fn("pipe", "receiver"); fd != nil {
			nm := mapNamer(map[string]string{"hops": "hops", "s.ttl": "ttl", "len(m.Body)": "blen"})
			walkIfs(fd, func(s *ast.IfStmt) {
				c := exprString(s.Cond)
				if strings.Contains(c, "hops") {
					drop = toG(s.Cond, nm)
				} else if strings.Contains(c, "len(m.Body)") {
					short = toG(s.Cond, nm)
				}
			})
			ast.Inspect(fd, func(x ast.Node) bool {
				if as, ok := x.(*ast.AssignStmt); ok && len(as.Lhs) == 1 && exprString(as.Lhs[0]) == "m.Header[3]" {
					bump = toG(as.Rhs[0], nm)
				}
				return true
			})
		} else {
			unrec(site, "function not found")
		}
		emit("def hop_xpair1_drop : GExpr := %s\ndef hop_xpair1_bump : GExpr := %s\ndef hop_xpair1_short : GExpr := %s\n", drop.Lean(), bump.Lean(), short.Lean())
	}
	// xstar: drop if len<4 || b0!=0 || b1!=0 || b2!=0 || int(b3) >= ttl ; Header[3]++
	{
		p := loadPkg("protocol/xstar")
		site := "protocol/xstar:pipe.receiver"
		drop := gUnknown(site + " guard")
		bump := ""
		if fd := p.fn("pipe", "receiver"); fd != nil {
			nm := mapNamer(map[string]string{"len(m.Body)": "blen", "m.Body[0]": "b0", "m.Body[1]": "b1", "m.Body[2]": "b2", "m.Body[3]": "b3", "s.ttl": "ttl", "ttl": "ttl"})
			walkIfs(fd, func(s *ast.IfStmt) {
				if strings.Contains(exprString(s.Cond), "ttl") {
					drop = toG(s.Cond, nm)
				}
			})
			ast.Inspect(fd, func(x ast.Node) bool {
				if inc, ok := x.(*ast.IncDecStmt); ok && strings.HasPrefix(exprString(inc.X), "m.Header[") {
					bump = exprString(inc.X) + inc.Tok.String()
				}
				return true
			})
		} else {
			unrec(site, "function not found")
		}
		emit("def hop_xstar_drop : GExpr := %s\ndef hop_xstar_bump : String := %s\n\n", drop.Lean(), leanStr(bump))
	}
}

// ---------------------------------------------------------------- option guards

type optEntry struct {
	pkg, recv, fn, opt, ty string
	guard                  *G
}

func extractOptionFunc(pkRel string, fd *ast.FuncDecl, out *[]optEntry) {
	recv := recvTypeName(fd)
	ast.Inspect(fd.Body, func(x ast.Node) bool {
		sw, ok := x.(*ast.SwitchStmt)
		if !ok {
			return true
		}
		var pending []string // option names of fallthrough cases
		for _, cs := range sw.Body.List {
			cc := cs.(*ast.CaseClause)
			if cc.List == nil {
				continue
			}
			names := append([]string{}, pending...)
			pending = nil
			for _, e := range cc.List {
				n := exprString(e)
				n = strings.TrimPrefix(n, "protocol.")
				n = strings.TrimPrefix(n, "mangos.")
				names = append(names, strings.Trim(n, "\""))
			}
			if len(cc.Body) == 1 {
				if b, ok := cc.Body[0].(*ast.BranchStmt); ok && b.Tok == token.FALLTHROUGH {
					pending = names
					continue
				}
			}
			ty, guard := "special", &G{Op: "tt"}
			for _, st := range cc.Body {
				ifs, ok := st.(*ast.IfStmt)
				if !ok || ifs.Init == nil {
					continue
				}
				as, ok := ifs.Init.(*ast.AssignStmt)
				if !ok || len(as.Lhs) != 2 || len(as.Rhs) != 1 {
					continue
				}
				ta, ok := as.Rhs[0].(*ast.TypeAssertExpr)
				if !ok {
					continue
				}
				ty = exprString(ta.Type)
				v, okn := exprString(as.Lhs[0]), exprString(as.Lhs[1])
				nm := func(s string) (string, bool) {
					if s == v {
						return "v", true
					}
					return "", false
				}
				guard = toG(ifs.Cond, nm)
				// replace the `ok` identifier by tt
				var sub func(g *G) *G
				sub = func(g *G) *G {
					if g == nil {
						return nil
					}
					if g.Op == "unknown" && g.Name == okn {
						return &G{Op: "tt"}
					}
					return &G{Op: g.Op, Name: g.Name, Int: g.Int, A: sub(g.A), B: sub(g.B)}
				}
				guard = sub(guard)
				break
			}
			for _, n := range names {
				*out = append(*out, optEntry{pkRel, recv, fd.Name.Name, n, ty, guard})
			}
		}
		return false
	})
}

var optionPkgs = []string{"internal/core", "transport", "transport/tcp", "transport/tlstcp", "transport/ipc", "transport/ws", "transport/wss", "transport/inproc"}

func extractOptions() {
	var ents []optEntry
	pkgs := []string{}
	for _, pk := range protoPkgs {
		pkgs = append(pkgs, "protocol/"+pk)
	}
	pkgs = append(pkgs, optionPkgs...)
	for _, pk := range pkgs {
		for _, fd := range loadPkg(pk).allFuncs() {
			if (fd.Name.Name == "SetOption" || (fd.Name.Name == "set" && recvTypeName(fd) == "options")) && fd.Body != nil {
				extractOptionFunc(pk, fd, &ents)
			}
		}
	}
	rows := []string{}
	for _, e := range ents {
		rows = append(rows, fmt.Sprintf("⟨%s, %s, %s, %s, %s⟩", leanStr(e.pkg), leanStr(e.recv), leanStr(e.opt), leanStr(e.ty), e.guard.Lean()))
	}
	// option name constants of options.go
	names := []string{}
	rc := loadPkg(".").consts()
	keys := []string{}
	for k := range rc {
		if strings.HasPrefix(k, "Option") {
			keys = append(keys, k)
		}
	}
	sort.Strings(keys)
	for _, k := range keys {
		if bl, ok := rc[k].(*ast.BasicLit); ok && bl.Kind == token.STRING {
			names = append(names, fmt.Sprintf("(%s, %s)", leanStr(k), bl.Value))
		}
	}
	emit("def optionNames : List (String × String) := [%s]\n", strings.Join(names, ", "))
	// delegation: SetOption handlers that pass unknown options on
	dels := []string{}
	for _, pk := range pkgs {
		for _, fd := range loadPkg(pk).allFuncs() {
			if fd.Name.Name != "SetOption" || fd.Body == nil {
				continue
			}
			ast.Inspect(fd.Body, func(x ast.Node) bool {
				if c, ok := x.(*ast.CallExpr); ok && strings.HasSuffix(exprString(c.Fun), ".SetOption") {
					dels = append(dels, fmt.Sprintf("(%s, %s, %s)", leanStr(pk), leanStr(recvTypeName(fd)), leanStr(strings.TrimSuffix(exprString(c.Fun), ".SetOption"))))
				}
				return true
			})
		}
	}
	sort.Strings(dels)
	emit("def optDelegates : List (String × String × String) := [%s]\n", strings.Join(dels, ", "))
	emit("/-- every `case Option…:` of every SetOption: (package, receiver type, option, asserted Go type, range guard over v) -/\n")
	emit("def optTable : List OptRow := [\n  %s]\n\n", strings.Join(rows, ",\n  "))
}

// ---------------------------------------------------------------- defaults

func extractDefaults() {
	rows := []string{}
	for _, pk := range protoPkgs {
		p := loadPkg("protocol/" + pk)
		consts := p.consts()
		for _, fname := range []string{"NewProtocol", "OpenContext"} {
			for _, fd := range p.allFuncs() {
				if fd.Name.Name != fname || fd.Body == nil {
					continue
				}
				ast.Inspect(fd.Body, func(x ast.Node) bool {
					cl, ok := x.(*ast.CompositeLit)
					if !ok {
						return true
					}
					tn := exprString(cl.Type)
					if tn != "socket" && tn != "context" {
						return true
					}
					for _, e := range cl.Elts {
						kv, ok := e.(*ast.KeyValueExpr)
						if !ok {
							continue
						}
						val := kv.Value
						if id, ok := val.(*ast.Ident); ok {
							if c, ok := consts[id.Name]; ok {
								val = c
							}
						}
						if v, ok := intOf(val); ok {
							rows = append(rows, fmt.Sprintf("(%s, %s, %d)", leanStr(pk+"."+fname+"."+tn), leanStr(exprString(kv.Key)), v))
						}
					}
					return true
				})
			}
		}
	}
	emit("/-- integer fields initialised by literal in NewProtocol / OpenContext -/\n")
	emit("def defaults : List (String × String × Int) := [\n  %s]\n", strings.Join(rows, ",\n  "))
	core := loadPkg("internal/core").consts()
	for _, n := range []string{"defaultMaxRxSize"} {
		if e, ok := core[n]; ok {
			if v, ok := intOf(e); ok {
				emit("def core_%s : Int := %d\n", n, v)
				continue
			}
		}
		unrec("internal/core", "constant "+n)
		emit("def core_%s : Int := -1\n", n)
	}
	emit("\n")
}

// ---------------------------------------------------------------- misc: id masks, short-body guards

func bytesCalls(pkRel, recv, fn string) []string {
	out := []string{}
	p := loadPkg(pkRel)
	fd := p.fn(recv, fn)
	if fd == nil {
		unrec(pkRel+":"+recv+"."+fn, "function not found")
		return out
	}
	ast.Inspect(fd, func(x ast.Node) bool {
		if c, ok := x.(*ast.CallExpr); ok && strings.HasPrefix(exprString(c.Fun), "bytes.") {
			neg := ""
			out = append(out, neg+exprString(c))
		}
		if u, ok := x.(*ast.UnaryExpr); ok && u.Op == token.NOT {
			if c, ok := u.X.(*ast.CallExpr); ok && strings.HasPrefix(exprString(c.Fun), "bytes.") {
				out = append(out, "!")
			}
		}
		return true
	})
	return out
}

func extractMisc() {
	// pipe id allocator: statement shape of Get's scan loop
	{
		p := loadPkg("internal/core")
		shape := []string{}
		if fd := p.fn("pipeIDAllocator", "Get"); fd != nil {
			ast.Inspect(fd, func(x ast.Node) bool {
				fs, ok := x.(*ast.ForStmt)
				if !ok {
					return true
				}
				for _, st := range fs.Body.List {
					switch s := st.(type) {
					case *ast.AssignStmt:
						shape = append(shape, exprString(s.Lhs[0])+s.Tok.String()+exprString(s.Rhs[0]))
					case *ast.IncDecStmt:
						shape = append(shape, exprString(s.X)+s.Tok.String())
					case *ast.IfStmt:
						c := exprString(s.Cond)
						if s.Init != nil {
							if as, ok := s.Init.(*ast.AssignStmt); ok {
								c = exprString(as.Rhs[0]) + ";" + c
							}
						}
						act := "?"
						if len(s.Body.List) == 1 {
							if b, ok := s.Body.List[0].(*ast.BranchStmt); ok {
								act = b.Tok.String()
							}
						}
						shape = append(shape, "if "+c+" "+act)
					case *ast.ReturnStmt:
						shape = append(shape, "return "+exprString(s.Results[0]))
					}
				}
				return false
			})
		} else {
			unrec("internal/core:pipeIDAllocator.Get", "function not found")
		}
		emit("/-- internal/core pipeIDAllocator.Get: the scan loop -/\n")
		emit("def allocShape : List String := %s\n", leanStrList(shape))
	}
	// … and who writes the allocator's counter (an id that has been released must not come back at once: raw protocols
	// route replies by pipe id) — every assignment to p.next or p.next++ in a method of pipeIDAllocator
	{
		p := loadPkg("internal/core")
		writers := []string{}
		for _, fn := range []string{"Get", "Free"} {
			fd := p.fn("pipeIDAllocator", fn)
			if fd == nil {
				unrec("internal/core:pipeIDAllocator."+fn, "function not found")
				continue
			}
			ast.Inspect(fd, func(x ast.Node) bool {
				switch s := x.(type) {
				case *ast.AssignStmt:
					for _, l := range s.Lhs {
						if exprString(l) == "p.next" {
							writers = append(writers, fn+": p.next"+s.Tok.String()+exprString(s.Rhs[0]))
						}
					}
				case *ast.IncDecStmt:
					if exprString(s.X) == "p.next" {
						writers = append(writers, fn+": p.next"+s.Tok.String())
					}
				}
				return true
			})
		}
		emit("/-- internal/core pipeIDAllocator: every write of the counter -/\n")
		emit("def allocCounterWrites : List String := %s\n", leanStrList(writers))
	}
	// what a new context takes over from the socket's own (default) context: the composite literal in OpenContext
	{
		rows := []string{}
		for _, pk := range []string{"protocol/rep", "protocol/req", "protocol/respondent", "protocol/sub", "protocol/surveyor"} {
			p := loadPkg(pk)
			fd := p.fn("socket", "OpenContext")
			if fd == nil {
				unrec(pk+":socket.OpenContext", "function not found")
				continue
			}
			ast.Inspect(fd, func(x ast.Node) bool {
				cl, ok := x.(*ast.CompositeLit)
				if !ok || exprString(cl.Type) != "context" {
					return true
				}
				for _, el := range cl.Elts {
					kv, ok := el.(*ast.KeyValueExpr)
					if !ok {
						continue
					}
					v := exprString(kv.Value)
					if strings.HasPrefix(v, "s.master.") || strings.HasPrefix(v, "s.defCtx.") {
						rows = append(rows, pk+": "+exprString(kv.Key)+"="+v)
					}
				}
				return false
			})
		}
		emit("/-- OpenContext: the settings a new context takes over from the socket's own context -/\n")
		emit("def openContextCopies : List String := %s\n", leanStrList(rows))
	}
	// which Send paths take a private copy before they change a message they were given (Message.MakeUnique)
	{
		sites := []string{}
		for _, pk := range []string{"protocol/xbus", "protocol/xpair1", "protocol/sub", "protocol/surveyor"} {
			p := loadPkg(pk)
			for _, fd := range p.allFuncs() {
				if fd.Body == nil {
					continue
				}
				name := fd.Name.Name
				if r := recvTypeName(fd); r != "" {
					name = r + "." + name
				}
				ast.Inspect(fd.Body, func(x ast.Node) bool {
					if c, ok := x.(*ast.CallExpr); ok {
						if se, ok := c.Fun.(*ast.SelectorExpr); ok && se.Sel.Name == "MakeUnique" {
							sites = append(sites, pk+":"+name)
						}
					}
					return true
				})
			}
		}
		sort.Strings(sites)
		emit("/-- where a protocol makes a message its own before changing it -/\n")
		emit("def makeUniqueSites : List String := %s\n", leanStrList(sites))
	}
	// dialer back-off: jitter factors, growth and cap conditions, what the timers are armed with
	{
		p := loadPkg("internal/core")
		facts := []string{}
		for _, fn := range []string{"dial", "pipeClosed", "pipeConnected", "Close", "Dial"} {
			fd := p.fn("dialer", fn)
			if fd == nil {
				unrec("internal/core:dialer."+fn, "function not found")
				continue
			}
			ast.Inspect(fd, func(x ast.Node) bool {
				switch s := x.(type) {
				case *ast.AssignStmt:
					if len(s.Lhs) == 1 {
						l := exprString(s.Lhs[0])
						if l == "minfact" || l == "maxfact" || l == "actfact" || l == "rtime" || strings.HasPrefix(l, "d.reconnTime") || l == "d.redialer" || l == "d.active" || l == "d.closed" {
							facts = append(facts, fn+": "+l+s.Tok.String()+exprString(s.Rhs[0]))
						}
					}
				case *ast.IfStmt:
					c := exprString(s.Cond)
					if strings.Contains(c, "reconn") || strings.Contains(c, "d.active") || strings.Contains(c, "d.closed") || strings.Contains(c, "redial") {
						facts = append(facts, fn+": if "+c)
					}
				case *ast.ExprStmt:
					if c, ok := s.X.(*ast.CallExpr); ok && (exprString(c.Fun) == "time.AfterFunc" || strings.HasSuffix(exprString(c.Fun), ".Stop")) {
						facts = append(facts, fn+": "+exprString(c))
					}
				}
				return true
			})
		}
		emit("/-- internal/core dialer: redial and back-off facts -/\n")
		emit("def dialerFacts : List String := %s\n", leanStrList(facts))
	}
	emit("/-- byte comparisons in protocol/sub: matching is HasPrefix(body, subscription); (un)subscribe compare with Equal -/\n")
	emit("def subMatches : List String := %s\n", leanStrList(bytesCalls("protocol/sub", "context", "matches")))
	emit("def subSubscribe : List String := %s\n", leanStrList(bytesCalls("protocol/sub", "context", "subscribe")))
	emit("def subUnsubscribe : List String := %s\n", leanStrList(bytesCalls("protocol/sub", "context", "unsubscribe")))
	// request / survey id: `atomic.AddUint32(&s.nextID, 1) | 0x80000000`
	for _, pk := range []string{"req", "surveyor"} {
		p := loadPkg("protocol/" + pk)
		mask := int64(-1)
		for _, fd := range p.allFuncs() {
			if fd.Body == nil {
				continue
			}
			ast.Inspect(fd.Body, func(x ast.Node) bool {
				if be, ok := x.(*ast.BinaryExpr); ok && be.Op == token.OR && strings.Contains(exprString(be.X), "nextID") {
					mask, _ = intOf(be.Y)
				}
				if as, ok := x.(*ast.AssignStmt); ok && as.Tok == token.OR_ASSIGN && exprString(as.Lhs[0]) == "id" {
					mask, _ = intOf(as.Rhs[0])
				}
				return true
			})
		}
		if mask < 0 {
			unrec("protocol/"+pk, "request id mask")
		}
		emit("def idMask_%s : Int := %d\n", pk, mask)
	}
	// short-body guards at the head of receivers
	rows := []string{}
	for _, pk := range protoPkgs {
		p := loadPkg("protocol/" + pk)
		fd := p.fn("pipe", "receiver")
		if fd == nil {
			continue
		}
		nm := mapNamer(map[string]string{"len(m.Body)": "blen"})
		walkIfs(fd, func(s *ast.IfStmt) {
			c := exprString(s.Cond)
			if strings.HasPrefix(c, "len(m.Body)") && !strings.Contains(c, "||") {
				rows = append(rows, fmt.Sprintf("(%s, %s)", leanStr(pk), toG(s.Cond, nm).Lean()))
			}
		})
	}
	emit("/-- `if len(m.Body) < N` guards in pipe.receiver, per package -/\n")
	emit("def shortBodyGuards : List (String × GExpr) := [\n  %s]\n", strings.Join(rows, ",\n  "))
}

// ---------------------------------------------------------------- macat formats

func extractMacat() {
	p := loadPkg("macat")
	fd := p.fn("App", "printMsg")
	escapes := []string{}
	hexfmt := ""
	type bin struct {
		tag   int64
		guard *G
	}
	var bins []bin
	asciiCond, quotedCond := "", ""
	if fd == nil {
		unrec("macat:printMsg", "function not found")
	} else {
		unq := func(e ast.Expr) ([]byte, bool) {
			if bl, ok := e.(*ast.BasicLit); ok && bl.Kind == token.STRING {
				s, err := strconvUnquote(bl.Value)
				if err == nil {
					return []byte(s), true
				}
			}
			return nil, false
		}
		ast.Inspect(fd, func(x ast.Node) bool {
			sw, ok := x.(*ast.SwitchStmt)
			if !ok {
				return true
			}
			tag := exprString(sw.Tag)
			switch {
			case tag == "msg.Body[i]":
				for _, cs := range sw.Body.List {
					cc := cs.(*ast.CaseClause)
					if cc.List == nil {
						ast.Inspect(cc, func(y ast.Node) bool {
							if c, ok := y.(*ast.CallExpr); ok && exprString(c.Fun) == "fmt.Sprintf" && len(c.Args) >= 1 {
								if b, ok := unq(c.Args[0]); ok {
									hexfmt = string(b)
								}
							}
							if ifs, ok := y.(*ast.IfStmt); ok {
								quotedCond = exprString(ifs.Cond)
							}
							return true
						})
						continue
					}
					ch, ok1 := intOf(cc.List[0])
					var repl []byte
					ast.Inspect(cc, func(y ast.Node) bool {
						if c, ok := y.(*ast.CallExpr); ok && strings.HasSuffix(exprString(c.Fun), "WriteString") && len(c.Args) == 1 {
							if b, ok := unq(c.Args[0]); ok {
								repl = b
							}
						}
						return true
					})
					if !ok1 || repl == nil {
						unrec("macat:printMsg", "quoted escape case")
						continue
					}
					bs := []string{}
					for _, b := range repl {
						bs = append(bs, fmt.Sprint(b))
					}
					escapes = append(escapes, fmt.Sprintf("(%d, [%s])", ch, strings.Join(bs, ", ")))
				}
			case tag == "":
				// the msgpack length switch
				for _, cs := range sw.Body.List {
					cc := cs.(*ast.CaseClause)
					var tagv int64 = -1
					ast.Inspect(cc, func(y ast.Node) bool {
						if as, ok := y.(*ast.AssignStmt); ok && len(as.Lhs) == 1 && exprString(as.Lhs[0]) == "enc[0]" {
							tagv, _ = intOf(as.Rhs[0])
						}
						return true
					})
					g := &G{Op: "tt"}
					if cc.List != nil {
						g = toG(cc.List[0], mapNamer(map[string]string{"len(msg.Body)": "len"}))
					}
					bins = append(bins, bin{tagv, g})
				}
			}
			return true
		})
		// the ascii branch: if strconv.IsPrint(rune(msg.Body[i]))
		walkIfs(fd, func(s *ast.IfStmt) {
			if c := exprString(s.Cond); strings.Contains(c, "IsPrint") && asciiCond == "" {
				asciiCond = c
			}
		})
	}
	emit("\n/-- macat printMsg: quoted escapes (byte, replacement bytes), hex format, msgpack forms -/\n")
	emit("def macatEscapes : List (Nat × List Nat) := [%s]\n", strings.Join(escapes, ", "))
	emit("def macatHexFormat : String := %s\n", leanStr(hexfmt))
	emit("def macatPrintable : List String := %s\n", leanStrList([]string{asciiCond, quotedCond}))
	rows := []string{}
	for _, b := range bins {
		rows = append(rows, fmt.Sprintf("(%d, %s)", b.tag, b.guard.Lean()))
	}
	emit("def macatBins : List (Int × GExpr) := [%s]\n", strings.Join(rows, ", "))
	// Duration.UnmarshalText: bare integers are seconds
	dur := []string{}
	if fd := p.fn("Duration", "UnmarshalText"); fd != nil {
		ast.Inspect(fd, func(x ast.Node) bool {
			if as, ok := x.(*ast.AssignStmt); ok && len(as.Lhs) == 1 && exprString(as.Lhs[0]) == "*d" {
				dur = append(dur, exprString(as.Rhs[0]))
			}
			if c, ok := x.(*ast.CallExpr); ok && (exprString(c.Fun) == "strconv.Atoi" || exprString(c.Fun) == "time.ParseDuration") {
				dur = append(dur, exprString(c.Fun))
			}
			return true
		})
	} else {
		unrec("macat:Duration.UnmarshalText", "function not found")
	}
	emit("def macatDuration : List String := %s\n", leanStrList(dur))
}

func strconvUnquote(s string) (string, error) { return strconv.Unquote(s) }
