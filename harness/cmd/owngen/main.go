// owngen: translates every function of the mangos library that handles a *Message through a parameter or a local
// variable into the ownership IR of lean/Model/Own.lean and writes lean/Generated/Own.lean.
//
// Per message variable the IR tracks how many references the goroutine holds through it and whether it is nil; per
// local error variable whether it is nil.  The library's conventions are built into the translation of calls:
//
//   - a call with a message argument and an error result (SendMsg / Send, also through the library's interfaces) takes
//     the message iff it returns nil:       ite (seq (drop m) (setf err true)) (setf err false)
//   - a call returning (*Message, error) or *Message yields a reference iff the message is non-nil (err == nil):
//     seq (fresh m) (ite (seq (gain m) (setf err true)) (setf err false))
//   - a library function with a message parameter and no error result either consumes it (its body gives the
//     reference up somewhere) or borrows it; the callee is checked against the class the call sites assume.
//
// Variables that cannot be followed locally (loaded from a struct field or another container, captured by a function
// literal, compared by pointer) are listed as `untracked`; lean/Obl/Own.lean pins that list.  The Lean side re-checks
// every function with the verified checker; the Go copy of the checker below is for diagnostics only.
package main

import (
	"bytes"
	"flag"
	"fmt"
	"go/ast"
	"go/printer"
	"go/token"
	"go/types"
	"os"
	"path/filepath"
	"sort"
	"strings"

	"golang.org/x/tools/go/packages"
)

// ---------------------------------------------------------------- IR

type IR struct {
	Op   string // skip gain drop use fresh setf test seq ite loop block scope brk cont ret abort callarg
	V    int
	Bv   bool
	L    int
	A, B *IR
	Vs   []int
	Key  string // callarg: callee key
	Par  int    // callarg: parameter index
	Pos  string
}

func skip() *IR { return &IR{Op: "skip"} }
func seq(xs ...*IR) *IR {
	var out *IR
	for i := len(xs) - 1; i >= 0; i-- {
		x := xs[i]
		if x == nil || x.Op == "skip" {
			continue
		}
		if out == nil {
			out = x
		} else {
			out = &IR{Op: "seq", A: x, B: out}
		}
	}
	if out == nil {
		return skip()
	}
	return out
}
func ite(a, b *IR) *IR {
	if a.Op == "skip" && b.Op == "skip" {
		return skip()
	}
	return &IR{Op: "ite", A: a, B: b}
}
func op(o string, v int) *IR         { return &IR{Op: o, V: v} }
func setf(v int, b bool) *IR         { return &IR{Op: "setf", V: v, Bv: b} }
func test(v int, b bool) *IR         { return &IR{Op: "test", V: v, Bv: b} }
func ret(k int) *IR                  { return &IR{Op: "ret", L: k} }
func havoc(v int) *IR                { return ite(setf(v, true), setf(v, false)) }
func lbl(o string, l int, a *IR) *IR { return &IR{Op: o, L: l, A: a} }

func b2s(b bool) string {
	if b {
		return "true"
	}
	return "false"
}

func (x *IR) lean() string {
	switch x.Op {
	case "skip":
		return ".skip"
	case "gain", "drop", "use", "fresh":
		return fmt.Sprintf("(.%s %d)", x.Op, x.V)
	case "setf", "test":
		return fmt.Sprintf("(.%s %d %s)", x.Op, x.V, b2s(x.Bv))
	case "seq", "ite":
		return "(." + x.Op + " " + x.A.lean() + " " + x.B.lean() + ")"
	case "loop", "block":
		return fmt.Sprintf("(.%s %d %s)", x.Op, x.L, x.A.lean())
	case "scope":
		s := []string{}
		for _, v := range x.Vs {
			s = append(s, fmt.Sprint(v))
		}
		return "(.scope [" + strings.Join(s, ", ") + "] " + x.A.lean() + ")"
	case "brk", "cont", "ret":
		return fmt.Sprintf("(.%s %d)", x.Op, x.L)
	case "abort":
		return ".abort"
	}
	return ".skip /- " + x.Op + " -/"
}

func (x *IR) trivial() bool {
	if x == nil {
		return true
	}
	switch x.Op {
	case "skip":
		return true
	case "seq", "ite":
		return x.A.trivial() && x.B.trivial()
	case "loop", "block", "scope":
		return x.A.trivial()
	}
	return false
}

func simplify(x *IR) *IR {
	if x == nil || x.trivial() {
		return skip()
	}
	switch x.Op {
	case "seq":
		return seq(simplify(x.A), simplify(x.B))
	case "ite":
		a, b := simplify(x.A), simplify(x.B)
		if a.lean() == b.lean() {
			return a
		}
		return &IR{Op: "ite", A: a, B: b}
	case "loop", "block":
		return &IR{Op: x.Op, L: x.L, A: simplify(x.A)}
	case "scope":
		a := simplify(x.A)
		if len(x.Vs) == 0 {
			return a
		}
		return &IR{Op: "scope", Vs: x.Vs, A: a}
	}
	return x
}

func contains(x *IR, opn string, v int) bool {
	if x == nil {
		return false
	}
	if x.Op == opn && x.V == v {
		return true
	}
	return contains(x.A, opn, v) || contains(x.B, opn, v)
}

// ---------------------------------------------------------------- the checker, as in Model/Own.lean (diagnostics only)

type st struct {
	cnt []int
	nl  []bool
}

func (s st) clone() st {
	return st{append([]int{}, s.cnt...), append([]bool{}, s.nl...)}
}
func (s st) key() string { return fmt.Sprint(s.cnt, s.nl) }

type outc struct {
	s st
	e string
}

func check(x *IR, s st, names []string) ([]outc, string) {
	switch x.Op {
	case "skip":
		return []outc{{s, "normal"}}, ""
	case "gain":
		t := s.clone()
		t.cnt[x.V]++
		t.nl[x.V] = false
		return []outc{{t, "normal"}}, ""
	case "drop":
		if s.nl[x.V] {
			return []outc{{s, "normal"}}, ""
		}
		if s.cnt[x.V] < 1 {
			return nil, fmt.Sprintf("%s: a reference through %s is given up but none is held (double release)", x.Pos, names[x.V])
		}
		t := s.clone()
		t.cnt[x.V]--
		return []outc{{t, "normal"}}, ""
	case "use":
		if s.nl[x.V] || s.cnt[x.V] < 1 {
			return nil, fmt.Sprintf("%s: the message is used through %s, which is nil or stands for no reference any more (use after release)", x.Pos, names[x.V])
		}
		return []outc{{s, "normal"}}, ""
	case "fresh":
		t := s.clone()
		t.cnt[x.V] = 0
		t.nl[x.V] = true
		return []outc{{t, "normal"}}, ""
	case "setf":
		t := s.clone()
		t.nl[x.V] = x.Bv
		return []outc{{t, "normal"}}, ""
	case "test":
		if s.nl[x.V] == x.Bv {
			return []outc{{s, "normal"}}, ""
		}
		return nil, ""
	case "seq":
		ra, e := check(x.A, s, names)
		if e != "" {
			return nil, e
		}
		var out []outc
		for _, r := range ra {
			if r.e != "normal" {
				out = append(out, r)
				continue
			}
			rb, e := check(x.B, r.s, names)
			if e != "" {
				return nil, e
			}
			out = append(out, rb...)
		}
		return dedup(out), ""
	case "ite":
		ra, e := check(x.A, s, names)
		if e != "" {
			return nil, e
		}
		rb, e := check(x.B, s, names)
		if e != "" {
			return nil, e
		}
		return dedup(append(ra, rb...)), ""
	case "brk", "cont":
		return []outc{{s, fmt.Sprintf("%s:%d", x.Op, x.L)}}, ""
	case "ret":
		return []outc{{s, fmt.Sprintf("ret:%d", x.L)}}, ""
	case "abort":
		return nil, ""
	case "loop":
		rs, e := check(x.A, s, names)
		if e != "" {
			return nil, e
		}
		out := []outc{{s, "normal"}}
		for _, r := range rs {
			again := r.e == "normal" || r.e == fmt.Sprintf("cont:%d", x.L)
			if again {
				if r.s.key() != s.key() {
					return nil, fmt.Sprintf("%s: the loop ends an iteration in state %v, not the state %v it was entered in", x.Pos, r.s.key(), s.key())
				}
				continue
			}
			if r.e == fmt.Sprintf("brk:%d", x.L) {
				out = append(out, outc{r.s, "normal"})
			} else {
				out = append(out, r)
			}
		}
		return dedup(out), ""
	case "block":
		rs, e := check(x.A, s, names)
		if e != "" {
			return nil, e
		}
		var out []outc
		for _, r := range rs {
			if r.e == fmt.Sprintf("brk:%d", x.L) {
				r.e = "normal"
			}
			out = append(out, r)
		}
		return dedup(out), ""
	case "scope":
		rs, e := check(x.A, s, names)
		if e != "" {
			return nil, e
		}
		var out []outc
		for _, r := range rs {
			t := r.s.clone()
			for _, v := range x.Vs {
				t.cnt[v] = 0
				t.nl[v] = true
			}
			out = append(out, outc{t, r.e})
		}
		return dedup(out), ""
	}
	return nil, "unknown op " + x.Op
}

func dedup(xs []outc) []outc {
	seen := map[string]bool{}
	var out []outc
	for _, x := range xs {
		k := x.s.key() + x.e
		if !seen[k] {
			seen[k] = true
			out = append(out, x)
		}
	}
	return out
}

// ---------------------------------------------------------------- translation

type req struct{ v, n int }

type fn struct {
	key    string
	pos    string
	names  []string
	isMsg  []bool
	entry  st
	exits  [][]req
	body   *IR
	params []int // message parameter index -> variable number (or -1: untracked / not a message)
	hasErr bool
	unsup  []string
}

var fns = map[string]*fn{}
var order []string
var untracked []string
var pairExceptions []string
var repoDir string
var allNamed []*types.Named

type tr struct {
	pkg      *packages.Package
	f        *fn
	vars     map[types.Object]int
	nlabel   int
	breakT   []int
	contT    []int
	labels   map[string][2]int
	pend     string
	results  *types.Tuple
	deferred []int // `defer m.Free()` at the top level of the body: released at every return
	top      *ast.BlockStmt
	wraps    map[types.Object][]int // local struct values built around tracked messages (`entry := recvQEntry{m: m, p: p}`)
}

func relPkg(path string) string {
	return strings.TrimPrefix(strings.TrimPrefix(path, "go.nanomsg.org/mangos/v3"), "/")
}

func isMsg(t types.Type) bool {
	if t == nil {
		return false
	}
	p, ok := types.Unalias(t).(*types.Pointer)
	if !ok {
		return false
	}
	n, ok := types.Unalias(p.Elem()).(*types.Named)
	return ok && n.Obj().Name() == "Message" && n.Obj().Pkg() != nil && n.Obj().Pkg().Path() == "go.nanomsg.org/mangos/v3"
}

func isErr(t types.Type) bool {
	if t == nil {
		return false
	}
	n, ok := types.Unalias(t).(*types.Named)
	return ok && n.Obj().Name() == "error" && n.Obj().Pkg() == nil
}

func funcKey(f *types.Func) string {
	sig := f.Type().(*types.Signature)
	if r := sig.Recv(); r != nil {
		t := r.Type()
		if p, ok := t.(*types.Pointer); ok {
			t = p.Elem()
		}
		if n, ok := types.Unalias(t).(*types.Named); ok {
			pk := ""
			if n.Obj().Pkg() != nil {
				pk = relPkg(n.Obj().Pkg().Path())
			}
			return pk + "." + n.Obj().Name() + "." + f.Name()
		}
		return "?." + f.Name()
	}
	pk := ""
	if f.Pkg() != nil {
		pk = relPkg(f.Pkg().Path())
	}
	return pk + "." + f.Name()
}

func (t *tr) pos(n ast.Node) string {
	p := t.pkg.Fset.Position(n.Pos())
	rel, err := filepath.Rel(repoDir, p.Filename)
	if err != nil {
		rel = p.Filename
	}
	return fmt.Sprintf("%s:%d", rel, p.Line)
}

func (t *tr) str(n ast.Node) string {
	var b bytes.Buffer
	_ = printer.Fprint(&b, t.pkg.Fset, n)
	s := strings.Join(strings.Fields(b.String()), " ")
	if len(s) > 80 {
		s = s[:80]
	}
	return s
}

func (t *tr) unsup(n ast.Node, what string) {
	t.f.unsup = append(t.f.unsup, fmt.Sprintf("%s at %s: %s", what, t.pos(n), t.str(n)))
}

func (t *tr) freshLabel() int { t.nlabel++; return t.nlabel }

// varOf: the variable number of a tracked identifier, or -1
func (t *tr) varOf(e ast.Expr) int {
	for {
		p, ok := e.(*ast.ParenExpr)
		if !ok {
			break
		}
		e = p.X
	}
	id, ok := e.(*ast.Ident)
	if !ok {
		return -1
	}
	obj := t.pkg.TypesInfo.Uses[id]
	if obj == nil {
		obj = t.pkg.TypesInfo.Defs[id]
	}
	if obj == nil {
		return -1
	}
	if v, ok := t.vars[obj]; ok {
		return v
	}
	return -1
}

func (t *tr) msgVar(e ast.Expr) int {
	v := t.varOf(e)
	if v >= 0 && t.f.isMsg[v] {
		return v
	}
	return -1
}
func (t *tr) errVar(e ast.Expr) int {
	v := t.varOf(e)
	if v >= 0 && !t.f.isMsg[v] {
		return v
	}
	return -1
}

// wrapped: the tracked messages a local struct value was built around (the reference moves when the struct does)
func (t *tr) wrapped(e ast.Expr) []int {
	for {
		p, ok := e.(*ast.ParenExpr)
		if !ok {
			break
		}
		e = p.X
	}
	id, ok := e.(*ast.Ident)
	if !ok {
		return nil
	}
	obj := t.pkg.TypesInfo.Uses[id]
	if obj == nil {
		return nil
	}
	return t.wraps[obj]
}

func (t *tr) dropAll(vs []int, n ast.Node) *IR {
	var out []*IR
	for _, v := range vs {
		d := op("drop", v)
		d.Pos = t.pos(n)
		out = append(out, d)
	}
	return seq(out...)
}

// litMsgs: the tracked messages a composite literal (or its address) is built around
func (t *tr) litMsgs(e ast.Expr) []int {
	if u, ok := e.(*ast.UnaryExpr); ok && u.Op == token.AND {
		e = u.X
	}
	cl, ok := e.(*ast.CompositeLit)
	if !ok {
		return nil
	}
	var vs []int
	for _, el := range cl.Elts {
		if kv, ok := el.(*ast.KeyValueExpr); ok {
			el = kv.Value
		}
		if v := t.msgVar(el); v >= 0 {
			vs = append(vs, v)
		}
	}
	return vs
}

func isNilIdent(e ast.Expr) bool {
	id, ok := e.(*ast.Ident)
	return ok && id.Name == "nil"
}

// callee: the static callee of a call (function, method, interface method), or nil
func (t *tr) callee(c *ast.CallExpr) *types.Func {
	var id *ast.Ident
	switch f := c.Fun.(type) {
	case *ast.Ident:
		id = f
	case *ast.SelectorExpr:
		id = f.Sel
	default:
		return nil
	}
	if fo, ok := t.pkg.TypesInfo.Uses[id].(*types.Func); ok {
		return fo
	}
	return nil
}

func inLibrary(f *types.Func) bool {
	return f != nil && f.Pkg() != nil && strings.HasPrefix(f.Pkg().Path(), "go.nanomsg.org/mangos/v3")
}

// sigHasErr: the last result is an error
func sigHasErr(sig *types.Signature) bool {
	r := sig.Results()
	return r.Len() > 0 && isErr(r.At(r.Len()-1).Type())
}

// msgMethod: X.Free() / Clone / Dup / MakeUnique on a *Message expression
func (t *tr) msgMethod(c *ast.CallExpr) (recv ast.Expr, name string, ok bool) {
	sel, isSel := c.Fun.(*ast.SelectorExpr)
	if !isSel {
		return nil, "", false
	}
	if !isMsg(t.pkg.TypesInfo.TypeOf(sel.X)) {
		return nil, "", false
	}
	switch sel.Sel.Name {
	case "Free", "Clone", "Dup", "MakeUnique":
		return sel.X, sel.Sel.Name, true
	}
	return nil, "", false
}

// effects of evaluating an expression (operands first).  errFlag: the error variable the value of a top-level call
// with an error result is bound to (-1: discarded), used only for the outermost call.
func (t *tr) effects(e ast.Node) *IR { return t.effectsE(e, -2) }

func (t *tr) effectsE(e ast.Node, errFlag int) *IR {
	if e == nil {
		return skip()
	}
	switch x := e.(type) {
	case *ast.ParenExpr:
		return t.effectsE(x.X, errFlag)
	case *ast.FuncLit:
		return skip()
	case *ast.Ident, *ast.BasicLit:
		return skip()
	case *ast.SelectorExpr:
		if v := t.msgVar(x.X); v >= 0 {
			u := op("use", v)
			u.Pos = t.pos(x)
			return u
		}
		return t.effects(x.X)
	case *ast.CallExpr:
		return t.call(x, errFlag)
	case *ast.CompositeLit:
		var out []*IR
		for _, el := range x.Elts {
			if kv, ok := el.(*ast.KeyValueExpr); ok {
				el = kv.Value
			}
			if v := t.msgVar(el); v >= 0 {
				d := op("drop", v)
				d.Pos = t.pos(el)
				out = append(out, d)
			} else if w := t.wrapped(el); w != nil {
				out = append(out, t.dropAll(w, el))
			} else {
				out = append(out, t.effects(el))
			}
		}
		return seq(out...)
	case *ast.UnaryExpr:
		return t.effects(x.X)
	case *ast.BinaryExpr:
		return seq(t.effects(x.X), t.effects(x.Y))
	case *ast.IndexExpr:
		return seq(t.effects(x.X), t.effects(x.Index))
	case *ast.SliceExpr:
		return seq(t.effects(x.X), t.effects(x.Low), t.effects(x.High), t.effects(x.Max))
	case *ast.StarExpr:
		return t.effects(x.X)
	case *ast.TypeAssertExpr:
		return t.effects(x.X)
	case *ast.KeyValueExpr:
		return seq(t.effects(x.Key), t.effects(x.Value))
	case *ast.ArrayType, *ast.MapType, *ast.ChanType, *ast.FuncType, *ast.StructType, *ast.InterfaceType:
		return skip()
	}
	if ex, ok := e.(ast.Expr); ok {
		t.unsup(ex, fmt.Sprintf("expression %T", e))
	}
	return skip()
}

func (t *tr) call(c *ast.CallExpr, errFlag int) *IR {
	// methods of Message on a tracked variable
	if recv, name, ok := t.msgMethod(c); ok {
		v := t.msgVar(recv)
		if v < 0 {
			return t.effects(recv)
		}
		var x *IR
		switch name {
		case "Free":
			x = op("drop", v)
		case "Clone":
			u := op("use", v)
			u.Pos = t.pos(c)
			x = seq(u, op("gain", v))
		default: // Dup, MakeUnique: the result is handled by the assignment
			x = op("use", v)
		}
		if x.Op != "seq" {
			x.Pos = t.pos(c)
		}
		return x
	}
	// conversions and builtins
	if tv, ok := t.pkg.TypesInfo.Types[c.Fun]; ok && tv.IsType() {
		var out []*IR
		for _, a := range c.Args {
			out = append(out, t.effects(a))
		}
		return seq(out...)
	}
	var out []*IR
	if sel, ok := c.Fun.(*ast.SelectorExpr); ok {
		out = append(out, t.effects(sel.X))
	}
	fo := t.callee(c)
	var sig *types.Signature
	if ft := t.pkg.TypesInfo.TypeOf(c.Fun); ft != nil {
		sig, _ = ft.Underlying().(*types.Signature)
	}
	var after []*IR
	for i, a := range c.Args {
		v := t.msgVar(a)
		if v < 0 {
			if w := t.wrapped(a); w != nil {
				after = append(after, t.dropAll(w, a))
				continue
			}
			out = append(out, t.effects(a))
			continue
		}
		if id, ok := c.Fun.(*ast.Ident); ok && t.pkg.TypesInfo.Uses[id] != nil {
			if _, isB := t.pkg.TypesInfo.Uses[id].(*types.Builtin); isB {
				// append(q, m): the container takes the reference
				d := op("drop", v)
				d.Pos = t.pos(a)
				after = append(after, d)
				continue
			}
		}
		if sig == nil {
			t.unsup(c, "call of unknown signature with a message argument")
			continue
		}
		if sigHasErr(sig) {
			// takes the message iff it returns nil
			d := op("drop", v)
			d.Pos = t.pos(c)
			if errFlag >= 0 {
				after = append(after, ite(seq(d, setf(errFlag, true)), setf(errFlag, false)))
				errFlag = -3 // bound
			} else {
				after = append(after, ite(d, skip()))
			}
			continue
		}
		if fo != nil && inLibrary(fo) {
			if rcv := fo.Type().(*types.Signature).Recv(); rcv != nil {
				if _, isIface := rcv.Type().Underlying().(*types.Interface); isIface {
					t.unsup(c, "interface method without error result takes a message")
					continue
				}
			}
			ca := &IR{Op: "callarg", V: v, Key: funcKey(fo), Par: i, Pos: t.pos(c)}
			after = append(after, ca)
			continue
		}
		t.unsup(c, "message handed to a function outside the library")
	}
	out = append(out, after...)
	if errFlag >= 0 {
		// error result of a call that takes no tracked message: unknown
		out = append(out, havoc(errFlag))
	}
	return seq(out...)
}

// tests: what taking the branch `cond == branch` says about tracked variables
func (t *tr) tests(cond ast.Expr, branch bool) *IR {
	switch x := cond.(type) {
	case *ast.ParenExpr:
		return t.tests(x.X, branch)
	case *ast.UnaryExpr:
		if x.Op == token.NOT {
			return t.tests(x.X, !branch)
		}
	case *ast.BinaryExpr:
		switch x.Op {
		case token.LAND:
			if branch {
				return seq(t.tests(x.X, true), t.tests(x.Y, true))
			}
		case token.LOR:
			if !branch {
				return seq(t.tests(x.X, false), t.tests(x.Y, false))
			}
		case token.EQL, token.NEQ:
			var v int = -1
			if isNilIdent(x.Y) {
				v = t.varOf(x.X)
			} else if isNilIdent(x.X) {
				v = t.varOf(x.Y)
			}
			if v >= 0 {
				isNil := (x.Op == token.EQL) == branch
				return test(v, isNil)
			}
		}
	}
	return skip()
}

// errValue: what an expression assigned to (or returned as) an error is: "nil", "nonnil", "var:<n>", "call", "unknown"
func (t *tr) errValue(e ast.Expr) (string, int) {
	for {
		p, ok := e.(*ast.ParenExpr)
		if !ok {
			break
		}
		e = p.X
	}
	if isNilIdent(e) {
		return "nil", -1
	}
	if v := t.errVar(e); v >= 0 {
		return "var", v
	}
	switch x := e.(type) {
	case *ast.CallExpr:
		if fo := t.callee(x); fo != nil && fo.Pkg() != nil && (fo.Pkg().Path() == "errors" && fo.Name() == "New" || fo.Pkg().Path() == "fmt" && fo.Name() == "Errorf") {
			return "nonnil", -1
		}
		return "call", -1
	case *ast.Ident:
		if vo, ok := t.pkg.TypesInfo.Uses[x].(*types.Var); ok && vo.Pkg() != nil && vo.Parent() == vo.Pkg().Scope() {
			return "nonnil", -1
		}
		if _, ok := t.pkg.TypesInfo.Uses[x].(*types.Const); ok {
			return "nonnil", -1
		}
	case *ast.SelectorExpr:
		if vo, ok := t.pkg.TypesInfo.Uses[x.Sel].(*types.Var); ok && !vo.IsField() && vo.Pkg() != nil && vo.Parent() == vo.Pkg().Scope() {
			return "nonnil", -1
		}
		if _, ok := t.pkg.TypesInfo.Uses[x.Sel].(*types.Const); ok {
			return "nonnil", -1
		}
	}
	return "unknown", -1
}

func (t *tr) assign(lhs []ast.Expr, rhs []ast.Expr, s ast.Node) *IR {
	if len(rhs) == 1 && len(lhs) > 1 {
		// m, err := call() / v, ok := <-ch / x, ok := y.(T)
		mv, ev := -1, -1
		for _, l := range lhs {
			if v := t.msgVar(l); v >= 0 {
				mv = v
			} else if v := t.errVar(l); v >= 0 {
				ev = v
			}
		}
		var pre []*IR
		for _, l := range lhs {
			if t.varOf(l) < 0 {
				pre = append(pre, t.effects(l))
			}
		}
		c, isCall := rhs[0].(*ast.CallExpr)
		if mv >= 0 {
			if !isCall {
				t.unsup(s, "message variable assigned from a multi-valued non-call")
				return skip()
			}
			x := t.effectsE(c, -2)
			g := op("gain", mv)
			if ev >= 0 {
				return seq(append(pre, x, op("fresh", mv), ite(seq(g, setf(ev, true)), setf(ev, false)))...)
			}
			return seq(append(pre, x, op("fresh", mv), ite(g, skip()))...)
		}
		if ev >= 0 && isCall {
			return seq(append(pre, t.effectsE(c, ev))...)
		}
		x := t.effects(rhs[0])
		if ev >= 0 {
			x = seq(x, havoc(ev))
		}
		return seq(append(pre, x)...)
	}
	var out []*IR
	for i, l := range lhs {
		if i >= len(rhs) {
			break
		}
		r := rhs[i]
		if mv := t.msgVar(l); mv >= 0 {
			for {
				p, ok := r.(*ast.ParenExpr)
				if !ok {
					break
				}
				r = p.X
			}
			switch y := r.(type) {
			case *ast.Ident:
				if y.Name == "nil" {
					out = append(out, op("fresh", mv))
					continue
				}
			case *ast.UnaryExpr:
				if y.Op == token.ARROW {
					out = append(out, t.effects(y.X), op("fresh", mv), op("gain", mv))
					continue
				}
			case *ast.CallExpr:
				if recv, name, ok := t.msgMethod(y); ok {
					w := t.msgVar(recv)
					switch {
					case name == "MakeUnique" && w == mv:
						u := op("use", mv)
						u.Pos = t.pos(y)
						out = append(out, u)
						continue
					case name == "Dup" && w >= 0:
						u := op("use", w)
						u.Pos = t.pos(y)
						out = append(out, u, op("fresh", mv), op("gain", mv))
						continue
					case name == "Dup" && w < 0:
						out = append(out, t.effects(recv), op("fresh", mv), op("gain", mv))
						continue
					}
					t.unsup(s, "message method result assigned to another variable")
					continue
				}
				fo := t.callee(y)
				if fo != nil && fo.Name() == "NewMessage" && fo.Pkg() != nil && fo.Pkg().Path() == "go.nanomsg.org/mangos/v3" {
					out = append(out, t.effects(y), op("fresh", mv), op("gain", mv))
					continue
				}
				// a call returning *Message: a reference iff non-nil
				out = append(out, t.effects(y), op("fresh", mv), ite(op("gain", mv), skip()))
				continue
			}
			t.unsup(s, "tracked message variable assigned from something that is no owning source")
			continue
		}
		if ev := t.errVar(l); ev >= 0 {
			kind, w := t.errValue(r)
			switch kind {
			case "nil":
				out = append(out, setf(ev, true))
			case "nonnil":
				out = append(out, t.effects(r), setf(ev, false))
			case "var":
				if w != ev {
					out = append(out, ite(seq(test(w, true), setf(ev, true)), seq(test(w, false), setf(ev, false))))
				}
			case "call":
				out = append(out, t.effectsE(r, ev))
			default:
				out = append(out, t.effects(r), havoc(ev))
			}
			continue
		}
		// a local struct value built around tracked messages: the references move when the struct does
		if lid, ok := l.(*ast.Ident); ok && lid.Name != "_" {
			if vs := t.litMsgs(r); vs != nil {
				lo := t.pkg.TypesInfo.Defs[lid]
				if lo == nil {
					lo = t.pkg.TypesInfo.Uses[lid]
				}
				if lv, isVar := lo.(*types.Var); isVar && lv.Parent() != lv.Pkg().Scope() && !lv.IsField() {
					if old, dup := t.wraps[lo]; dup && fmt.Sprint(old) != fmt.Sprint(vs) {
						t.unsup(s, "struct value wraps different messages at different places")
					}
					t.wraps[lo] = vs
					continue
				}
			}
		}
		if w := t.wrapped(r); w != nil {
			if id, ok := l.(*ast.Ident); ok && id.Name == "_" {
				continue
			}
			out = append(out, t.effects(l), t.dropAll(w, s))
			continue
		}
		// other left-hand sides: a tracked message stored somewhere moves its reference there
		if rv := t.msgVar(r); rv >= 0 {
			if id, ok := l.(*ast.Ident); ok && id.Name == "_" {
				continue
			}
			d := op("drop", rv)
			d.Pos = t.pos(s)
			out = append(out, t.effects(l), d)
			continue
		}
		out = append(out, t.effects(r), t.effects(l))
	}
	return seq(out...)
}

func (t *tr) block(b *ast.BlockStmt) *IR {
	if b == nil {
		return skip()
	}
	return t.stmts(b.List)
}

func (t *tr) stmts(l []ast.Stmt) *IR {
	var out []*IR
	for _, s := range l {
		out = append(out, t.stmt(s))
	}
	return seq(out...)
}

// declared: tracked variables declared inside n
func (t *tr) declared(n ast.Node) []int {
	var vs []int
	for obj, v := range t.vars {
		if obj.Pos() >= n.Pos() && obj.Pos() < n.End() {
			vs = append(vs, v)
		}
	}
	sort.Ints(vs)
	return vs
}

func (t *tr) isTopLevel(s ast.Stmt) bool {
	if t.top == nil {
		return false
	}
	for _, x := range t.top.List {
		if x == s {
			return true
		}
	}
	return false
}

// withDefers: the deferred frees run after the results have been evaluated, before the function leaves
func (t *tr) withDefers(x *IR, n ast.Node) *IR {
	if len(t.deferred) == 0 {
		return x
	}
	switch x.Op {
	case "ret":
		var ds []*IR
		for i := len(t.deferred) - 1; i >= 0; i-- {
			d := op("drop", t.deferred[i])
			d.Pos = t.pos(n)
			ds = append(ds, d)
		}
		return seq(append(ds, x)...)
	case "seq", "ite":
		return &IR{Op: x.Op, A: t.withDefers(x.A, n), B: t.withDefers(x.B, n)}
	}
	return x
}

func (t *tr) returnStmt(s *ast.ReturnStmt) *IR {
	return t.withDefers(t.returnStmt0(s), s)
}

func (t *tr) returnStmt0(s *ast.ReturnStmt) *IR {
	var out []*IR
	res := t.results
	if len(s.Results) == 0 {
		if res != nil {
			for i := 0; i < res.Len(); i++ {
				if res.At(i).Name() != "" && (isMsg(res.At(i).Type()) || isErr(res.At(i).Type())) {
					t.unsup(s, "bare return with named message / error results")
				}
			}
		}
		return ret(0)
	}
	if len(s.Results) == 1 && res != nil && res.Len() > 1 {
		// return f(): a pass-through of all results
		x := t.effects(s.Results[0])
		if t.f.hasErr {
			return seq(x, ite(ret(0), ret(1)))
		}
		return seq(x, ret(0))
	}
	n := len(s.Results)
	for i, r := range s.Results {
		if i == n-1 && t.f.hasErr {
			break
		}
		if v := t.msgVar(r); v >= 0 {
			d := op("drop", v)
			d.Pos = t.pos(s)
			out = append(out, d)
		} else if w := t.wrapped(r); w != nil {
			out = append(out, t.dropAll(w, s))
		} else {
			out = append(out, t.effects(r))
		}
	}
	if !t.f.hasErr {
		return seq(append(out, ret(0))...)
	}
	last := s.Results[n-1]
	kind, w := t.errValue(last)
	switch kind {
	case "nil":
		out = append(out, ret(0))
	case "nonnil":
		out = append(out, t.effects(last), ret(1))
	case "var":
		out = append(out, ite(seq(test(w, true), ret(0)), seq(test(w, false), ret(1))))
	case "call":
		c := last.(*ast.CallExpr)
		// return X.SendMsg(m): consumed iff nil
		tmp := len(t.f.names)
		_ = tmp
		x := t.callRet(c)
		out = append(out, x)
	default:
		out = append(out, t.effects(last), ite(ret(0), ret(1)))
	}
	return seq(out...)
}

// callRet: `return call(...)` where the call's error decides the kind of return
func (t *tr) callRet(c *ast.CallExpr) *IR {
	x := t.call(c, -2)
	// rewrite `ite (drop v) skip` produced for consumed-iff-nil arguments into the two kinds of return
	var conv func(y *IR) (*IR, bool)
	conv = func(y *IR) (*IR, bool) {
		if y.Op == "ite" && y.A.Op == "drop" && y.B.Op == "skip" {
			return ite(seq(y.A, ret(0)), ret(1)), true
		}
		if y.Op == "seq" {
			if b, ok := conv(y.B); ok {
				return &IR{Op: "seq", A: y.A, B: b}, true
			}
		}
		return y, false
	}
	if y, ok := conv(x); ok {
		return y
	}
	return seq(x, ite(ret(0), ret(1)))
}

func (t *tr) branchTarget(s *ast.BranchStmt) *IR {
	switch s.Tok {
	case token.BREAK:
		if s.Label != nil {
			if l, ok := t.labels[s.Label.Name]; ok {
				return &IR{Op: "brk", L: l[0]}
			}
			t.unsup(s, "break to unknown label")
			return skip()
		}
		if len(t.breakT) == 0 {
			t.unsup(s, "break outside")
			return skip()
		}
		return &IR{Op: "brk", L: t.breakT[len(t.breakT)-1]}
	case token.CONTINUE:
		if s.Label != nil {
			if l, ok := t.labels[s.Label.Name]; ok {
				return &IR{Op: "cont", L: l[1]}
			}
			t.unsup(s, "continue to unknown label")
			return skip()
		}
		if len(t.contT) == 0 {
			t.unsup(s, "continue outside")
			return skip()
		}
		return &IR{Op: "cont", L: t.contT[len(t.contT)-1]}
	}
	t.unsup(s, "goto / fallthrough")
	return skip()
}

func (t *tr) loop(s ast.Stmt, body *ast.BlockStmt, pre, head, post *IR, infinite bool) *IR {
	l := t.freshLabel()
	lb := t.freshLabel()
	if t.pend != "" {
		t.labels[t.pend] = [2]int{lb, l}
		t.pend = ""
	}
	t.breakT = append(t.breakT, lb)
	t.contT = append(t.contT, l)
	b := t.block(body)
	t.breakT = t.breakT[:len(t.breakT)-1]
	t.contT = t.contT[:len(t.contT)-1]
	// `continue` runs the post statement: wrap the body in a block that continue leaves
	var inner *IR
	if post != nil && post.Op != "skip" {
		lc := t.freshLabel()
		inner = seq(lbl("block", lc, contToBrk(b, l, lc)), post)
	} else {
		inner = b
	}
	vs := t.declared(body)
	lp := &IR{Op: "loop", L: l, A: &IR{Op: "scope", Vs: vs, A: seq(head, inner)}, Pos: t.pos(s)}
	var x *IR
	if infinite {
		x = seq(lp, &IR{Op: "abort"})
	} else {
		x = lp
	}
	return seq(pre, lbl("block", lb, x))
}

func contToBrk(x *IR, loop, blk int) *IR {
	if x == nil {
		return nil
	}
	switch x.Op {
	case "cont":
		if x.L == loop {
			return &IR{Op: "brk", L: blk}
		}
		return x
	case "seq", "ite":
		return &IR{Op: x.Op, A: contToBrk(x.A, loop, blk), B: contToBrk(x.B, loop, blk)}
	case "loop", "block", "scope":
		return &IR{Op: x.Op, L: x.L, Vs: x.Vs, A: contToBrk(x.A, loop, blk), Pos: x.Pos}
	}
	return x
}

func (t *tr) stmt(s ast.Stmt) *IR {
	switch x := s.(type) {
	case nil:
		return skip()
	case *ast.ExprStmt:
		return t.effectsE(x.X, -1)
	case *ast.AssignStmt:
		if x.Tok != token.ASSIGN && x.Tok != token.DEFINE {
			return seq(t.effects(x.Rhs[0]), t.effects(x.Lhs[0]))
		}
		return t.assign(x.Lhs, x.Rhs, x)
	case *ast.DeclStmt:
		gd, ok := x.Decl.(*ast.GenDecl)
		if !ok {
			return skip()
		}
		var out []*IR
		for _, sp := range gd.Specs {
			vs, ok := sp.(*ast.ValueSpec)
			if !ok {
				continue
			}
			if len(vs.Values) == 0 {
				for _, n := range vs.Names {
					if v := t.varOf(n); v >= 0 {
						out = append(out, op("fresh", v))
					}
				}
				continue
			}
			lhs := []ast.Expr{}
			for _, n := range vs.Names {
				lhs = append(lhs, n)
			}
			out = append(out, t.assign(lhs, vs.Values, x))
		}
		return seq(out...)
	case *ast.BlockStmt:
		return t.block(x)
	case *ast.LabeledStmt:
		t.pend = x.Label.Name
		r := t.stmt(x.Stmt)
		t.pend = ""
		return r
	case *ast.IfStmt:
		init := t.stmt(x.Init)
		cond := t.effects(x.Cond)
		th := seq(t.tests(x.Cond, true), t.block(x.Body))
		var el *IR
		if x.Else != nil {
			el = seq(t.tests(x.Cond, false), t.stmt(x.Else))
		} else {
			el = t.tests(x.Cond, false)
		}
		return seq(init, cond, &IR{Op: "ite", A: th, B: el})
	case *ast.ForStmt:
		pre := t.stmt(x.Init)
		var head *IR = skip()
		if x.Cond != nil {
			head = seq(t.effects(x.Cond), t.tests(x.Cond, true))
		}
		post := t.stmt(x.Post)
		return t.loop(x, x.Body, pre, head, post, x.Cond == nil)
	case *ast.RangeStmt:
		pre := t.effects(x.X)
		return t.loop(x, x.Body, pre, skip(), nil, false)
	case *ast.BranchStmt:
		return t.branchTarget(x)
	case *ast.ReturnStmt:
		return t.returnStmt(x)
	case *ast.GoStmt:
		return t.effectsE(x.Call, -1)
	case *ast.DeferStmt:
		mention := false
		ast.Inspect(x.Call, func(n ast.Node) bool {
			if id, ok := n.(*ast.Ident); ok && t.varOf(id) >= 0 && t.f.isMsg[t.varOf(id)] {
				mention = true
			}
			return true
		})
		if mention {
			if recv, name, ok := t.msgMethod(x.Call); ok && name == "Free" && t.msgVar(recv) >= 0 && t.isTopLevel(x) {
				t.deferred = append(t.deferred, t.msgVar(recv))
				return skip()
			}
			t.unsup(x, "defer mentioning a tracked message")
		}
		return skip()
	case *ast.SendStmt:
		if v := t.msgVar(x.Value); v >= 0 {
			d := op("drop", v)
			d.Pos = t.pos(x)
			return seq(t.effects(x.Chan), d)
		}
		if w := t.wrapped(x.Value); w != nil {
			return seq(t.effects(x.Chan), t.dropAll(w, x))
		}
		return seq(t.effects(x.Chan), t.effects(x.Value))
	case *ast.IncDecStmt:
		return t.effects(x.X)
	case *ast.EmptyStmt:
		return skip()
	case *ast.SwitchStmt, *ast.TypeSwitchStmt, *ast.SelectStmt:
		l := t.freshLabel()
		if t.pend != "" {
			t.labels[t.pend] = [2]int{l, -1}
			t.pend = ""
		}
		var pre *IR = skip()
		var body *ast.BlockStmt
		tagless := false
		switch y := x.(type) {
		case *ast.SwitchStmt:
			pre = seq(t.stmt(y.Init), t.effects(y.Tag))
			body = y.Body
			tagless = y.Tag == nil
		case *ast.TypeSwitchStmt:
			pre = seq(t.stmt(y.Init), t.stmt(y.Assign))
			body = y.Body
		case *ast.SelectStmt:
			body = y.Body
		}
		t.breakT = append(t.breakT, l)
		var alt *IR
		hasDefault := false
		for _, cl := range body.List {
			var b *IR
			switch c := cl.(type) {
			case *ast.CaseClause:
				if c.List == nil {
					hasDefault = true
				}
				var g []*IR
				for _, e := range c.List {
					g = append(g, t.effects(e))
				}
				if tagless && len(c.List) == 1 {
					g = append(g, t.tests(c.List[0], true))
				}
				for _, st := range c.Body {
					if br, ok := st.(*ast.BranchStmt); ok && br.Tok == token.FALLTHROUGH {
						t.unsup(br, "fallthrough")
					}
				}
				b = seq(seq(g...), t.stmts(c.Body))
			case *ast.CommClause:
				if c.Comm == nil {
					hasDefault = true
				}
				b = seq(t.stmt(c.Comm), t.stmts(c.Body))
			}
			if alt == nil {
				alt = b
			} else {
				alt = &IR{Op: "ite", A: alt, B: b}
			}
		}
		if alt == nil {
			alt = skip()
		}
		if _, isSel := x.(*ast.SelectStmt); !hasDefault && !isSel {
			alt = &IR{Op: "ite", A: alt, B: skip()}
		}
		t.breakT = t.breakT[:len(t.breakT)-1]
		return seq(pre, lbl("block", l, alt))
	}
	t.unsup(s, fmt.Sprintf("statement %T", s))
	return skip()
}

// ---------------------------------------------------------------- per function

func skipPkg(rp string) bool {
	return strings.HasPrefix(rp, "examples") || strings.HasPrefix(rp, "perf") || strings.HasPrefix(rp, "macat") || strings.HasPrefix(rp, "test") || strings.HasPrefix(rp, "internal/test")
}

func translate(p *packages.Package, fd *ast.FuncDecl, obj *types.Func) {
	key := funcKey(obj)
	sig := obj.Type().(*types.Signature)
	f := &fn{key: key, hasErr: sigHasErr(sig)}
	t := &tr{pkg: p, f: f, vars: map[types.Object]int{}, labels: map[string][2]int{}, results: sig.Results(), wraps: map[types.Object][]int{}}
	f.pos = t.pos(fd)
	// candidate variables: parameters, named results and locals of type *Message or error
	var cands []types.Object
	seen := map[types.Object]bool{}
	add := func(o types.Object) {
		if o == nil || seen[o] {
			return
		}
		if _, ok := o.(*types.Var); !ok {
			return
		}
		if isMsg(o.Type()) || isErr(o.Type()) {
			seen[o] = true
			cands = append(cands, o)
		}
	}
	if fd.Type.Params != nil {
		for _, fl := range fd.Type.Params.List {
			for _, n := range fl.Names {
				add(p.TypesInfo.Defs[n])
			}
		}
	}
	if fd.Type.Results != nil {
		for _, fl := range fd.Type.Results.List {
			for _, n := range fl.Names {
				add(p.TypesInfo.Defs[n])
			}
		}
	}
	ast.Inspect(fd.Body, func(n ast.Node) bool {
		if id, ok := n.(*ast.Ident); ok {
			add(p.TypesInfo.Defs[id])
		}
		return true
	})
	sort.Slice(cands, func(i, j int) bool { return cands[i].Pos() < cands[j].Pos() })
	// what disqualifies a variable from being followed locally
	bad := map[types.Object]string{}
	objOf := func(e ast.Expr) types.Object {
		for {
			pe, ok := e.(*ast.ParenExpr)
			if !ok {
				break
			}
			e = pe.X
		}
		id, ok := e.(*ast.Ident)
		if !ok {
			return nil
		}
		if o := p.TypesInfo.Uses[id]; o != nil {
			return o
		}
		return p.TypesInfo.Defs[id]
	}
	owning := func(r ast.Expr) bool {
		for {
			pe, ok := r.(*ast.ParenExpr)
			if !ok {
				break
			}
			r = pe.X
		}
		switch y := r.(type) {
		case *ast.Ident:
			return y.Name == "nil"
		case *ast.UnaryExpr:
			return y.Op == token.ARROW
		case *ast.CallExpr:
			return true
		}
		return false
	}
	var inLit func(n ast.Node, lit bool)
	inLit = func(n ast.Node, lit bool) {
		ast.Inspect(n, func(m ast.Node) bool {
			switch y := m.(type) {
			case *ast.FuncLit:
				if m != n {
					inLit(y.Body, true)
					return false
				}
			case *ast.Ident:
				if lit {
					o := p.TypesInfo.Uses[y]
					if o != nil && seen[o] {
						bad[o] = "captured by a function literal"
					}
				}
			case *ast.AssignStmt:
				if len(y.Lhs) == len(y.Rhs) {
					for i, l := range y.Lhs {
						if o := objOf(l); o != nil && seen[o] && isMsg(o.Type()) && !owning(y.Rhs[i]) {
							bad[o] = "assigned from " + t.str(y.Rhs[i])
						}
					}
				} else if len(y.Rhs) == 1 {
					if _, isCall := y.Rhs[0].(*ast.CallExpr); !isCall {
						for _, l := range y.Lhs {
							if o := objOf(l); o != nil && seen[o] && isMsg(o.Type()) {
								bad[o] = "assigned from " + t.str(y.Rhs[0])
							}
						}
					}
				}
			case *ast.ValueSpec:
				if len(y.Names) == len(y.Values) {
					for i, nm := range y.Names {
						if o := p.TypesInfo.Defs[nm]; o != nil && seen[o] && isMsg(o.Type()) && !owning(y.Values[i]) {
							bad[o] = "assigned from " + t.str(y.Values[i])
						}
					}
				}
			case *ast.BinaryExpr:
				if y.Op == token.EQL || y.Op == token.NEQ {
					if !isNilIdent(y.X) && !isNilIdent(y.Y) {
						for _, e := range []ast.Expr{y.X, y.Y} {
							if o := objOf(e); o != nil && seen[o] && isMsg(o.Type()) {
								bad[o] = "compared by pointer"
							}
						}
					}
				}
			case *ast.UnaryExpr:
				if y.Op == token.AND {
					if o := objOf(y.X); o != nil && seen[o] {
						bad[o] = "address taken"
					}
				}
			case *ast.RangeStmt:
				for _, e := range []ast.Expr{y.Key, y.Value} {
					if e != nil {
						if o := objOf(e); o != nil && seen[o] && isMsg(o.Type()) {
							bad[o] = "range variable"
						}
					}
				}
			}
			return true
		})
	}
	inLit(fd.Body, false)
	nmsg := 0
	for _, o := range cands {
		if why, isBad := bad[o]; isBad {
			if isMsg(o.Type()) {
				untracked = append(untracked, fmt.Sprintf("%s:%s (%s)", key, o.Name(), why))
			}
			continue
		}
		t.vars[o] = len(f.names)
		f.names = append(f.names, o.Name())
		f.isMsg = append(f.isMsg, isMsg(o.Type()))
		if isMsg(o.Type()) {
			nmsg++
		}
	}
	if nmsg == 0 {
		return
	}
	f.entry = st{make([]int, len(f.names)), make([]bool, len(f.names))}
	for i := range f.entry.nl {
		f.entry.nl[i] = true
	}
	// parameters
	ps := sig.Params()
	f.params = make([]int, ps.Len())
	for i := 0; i < ps.Len(); i++ {
		f.params[i] = -1
		if v, ok := t.vars[ps.At(i)]; ok {
			if f.isMsg[v] {
				f.params[i] = v
				f.entry.cnt[v] = 1
				f.entry.nl[v] = false
			} else {
				f.entry.nl[v] = true // an error parameter: unknown; left nil (no library function has one next to a message)
			}
		}
	}
	t.top = fd.Body
	f.body = simplify(seq(t.block(fd.Body), t.withDefers(ret(0), fd.Body)))
	fns[key] = f
	order = append(order, key)
}

// ---------------------------------------------------------------- classes of message parameters, call-site expansion

func consumes(f *fn, par int) bool {
	if par >= len(f.params) || f.params[par] < 0 {
		return true // an untracked parameter: the callee does as it likes; the caller hands the reference over
	}
	return containsDropOrCall(f.body, f.params[par], map[string]bool{f.key: true})
}

func containsDropOrCall(x *IR, v int, visiting map[string]bool) bool {
	if x == nil {
		return false
	}
	if x.Op == "drop" && x.V == v {
		return true
	}
	if x.Op == "callarg" && x.V == v {
		if g, ok := fns[x.Key]; ok && !visiting[x.Key] {
			visiting[x.Key] = true
			r := consumes2(g, x.Par, visiting)
			delete(visiting, x.Key)
			if r {
				return true
			}
		} else if !ok {
			return true
		}
	}
	return containsDropOrCall(x.A, v, visiting) || containsDropOrCall(x.B, v, visiting)
}

func consumes2(f *fn, par int, visiting map[string]bool) bool {
	if par >= len(f.params) || f.params[par] < 0 {
		return true
	}
	return containsDropOrCall(f.body, f.params[par], visiting)
}

func expand(x *IR) *IR {
	if x == nil {
		return nil
	}
	switch x.Op {
	case "callarg":
		g, ok := fns[x.Key]
		if !ok || consumes(g, x.Par) {
			d := op("drop", x.V)
			d.Pos = x.Pos
			return d
		}
		u := op("use", x.V)
		u.Pos = x.Pos
		return u
	case "seq", "ite":
		return &IR{Op: x.Op, A: expand(x.A), B: expand(x.B)}
	case "loop", "block", "scope":
		return &IR{Op: x.Op, L: x.L, Vs: x.Vs, A: expand(x.A), Pos: x.Pos}
	}
	return x
}

func leanStr(s string) string { return fmt.Sprintf("%q", s) }

func main() {
	repo := flag.String("repo", "/repo", "mangos working tree")
	out := flag.String("out", "/verif/lean/Generated/Own.lean", "output")
	verbose := flag.Bool("v", false, "print every function")
	flag.Parse()
	repoDir = *repo
	cfg := &packages.Config{Mode: packages.NeedName | packages.NeedFiles | packages.NeedSyntax | packages.NeedTypes | packages.NeedTypesInfo | packages.NeedImports | packages.NeedDeps, Dir: *repo, Tests: false}
	pkgs, err := packages.Load(cfg, "./...")
	if err != nil {
		fmt.Fprintln(os.Stderr, "owngen:", err)
		os.Exit(2)
	}
	sort.Slice(pkgs, func(i, j int) bool { return pkgs[i].PkgPath < pkgs[j].PkgPath })
	nerr := 0
	for _, p := range pkgs {
		rp := relPkg(p.PkgPath)
		if skipPkg(rp) {
			continue
		}
		for _, e := range p.Errors {
			fmt.Fprintln(os.Stderr, "owngen: type error:", e)
			nerr++
		}
		for _, f := range p.Syntax {
			fname := p.Fset.Position(f.Pos()).Filename
			base := filepath.Base(fname)
			if strings.HasSuffix(fname, "_test.go") || strings.Contains(base, "verif") {
				continue
			}
			if rp == "" && base == "message.go" {
				continue // the reference-count primitives themselves: Obl.Msg and Model/Ledger
			}
			for _, d := range f.Decls {
				fd, ok := d.(*ast.FuncDecl)
				if !ok || fd.Body == nil {
					continue
				}
				obj, _ := p.TypesInfo.Defs[fd.Name].(*types.Func)
				if obj == nil {
					continue
				}
				translate(p, fd, obj)
			}
		}
	}
	if nerr > 0 {
		os.Exit(2)
	}
	sort.Strings(order)
	sort.Strings(untracked)
	var b strings.Builder
	b.WriteString("-- GENERATED by /verif/harness/cmd/owngen from /repo — do not edit; regenerated on every run.\nimport Model.Own\nnamespace Generated.Own\nopen Model.Own\n\n")
	var unsup []string
	var classes []string
	nbad := 0
	var fnNames []string
	for i, k := range order {
		f := fns[k]
		f.body = simplify(expand(f.body))
		// contract
		kinds := 1
		if f.hasErr {
			kinds = 2
		}
		f.exits = make([][]req, kinds)
		for pi, v := range f.params {
			if v < 0 {
				continue
			}
			switch {
			case f.hasErr:
				f.exits[1] = append(f.exits[1], req{v, 1})
				classes = append(classes, fmt.Sprintf("%s#%d:%s: taken iff the result is nil", k, pi, f.names[v]))
			case consumes(f, pi):
				classes = append(classes, fmt.Sprintf("%s#%d:%s: consumed", k, pi, f.names[v]))
			default:
				f.exits[0] = append(f.exits[0], req{v, 1})
				classes = append(classes, fmt.Sprintf("%s#%d:%s: borrowed", k, pi, f.names[v]))
			}
		}
		for _, u := range f.unsup {
			unsup = append(unsup, k+": "+u)
		}
		// diagnostics with the Go copy of the checker
		verdict := ""
		outs, e := check(f.body, f.entry, f.names)
		if e != "" {
			verdict = e
		} else {
			for _, o := range outs {
				kind := -1
				switch {
				case o.e == "normal":
					kind = 0
				case strings.HasPrefix(o.e, "ret:"):
					fmt.Sscanf(o.e, "ret:%d", &kind)
				}
				if kind < 0 || kind >= len(f.exits) {
					verdict = "leaves by " + o.e
					break
				}
				for _, r := range f.exits[kind] {
					if o.s.nl[r.v] || o.s.cnt[r.v] < r.n {
						verdict = fmt.Sprintf("a return of kind %d (%s) leaves %s standing for %d reference(s), nil=%v: the caller still owns the message", kind, map[int]string{0: "success", 1: "error"}[kind], f.names[r.v], o.s.cnt[r.v], o.s.nl[r.v])
					}
				}
			}
		}
		if verdict != "" {
			nbad++
			fmt.Printf("OWNERSHIP %s (%s): %s\n", k, f.pos, verdict)
		}
		if *verbose {
			fmt.Printf("FN %s vars=%v entry=%v exits=%v\n   %s\n", k, f.names, f.entry.key(), f.exits, f.body.lean())
		}
		// emit
		nm := fmt.Sprintf("f%d", i)
		fnNames = append(fnNames, nm)
		var names, cnt, nl, exs []string
		for j, n := range f.names {
			names = append(names, leanStr(n))
			cnt = append(cnt, fmt.Sprint(f.entry.cnt[j]))
			nl = append(nl, b2s(f.entry.nl[j]))
		}
		for _, ex := range f.exits {
			var rs []string
			for _, r := range ex {
				rs = append(rs, fmt.Sprintf("(%d, %d)", r.v, r.n))
			}
			exs = append(exs, "["+strings.Join(rs, ", ")+"]")
		}
		fmt.Fprintf(&b, "/-- %s -/\ndef %s : Fn := { name := %s, vars := [%s], entry := { cnt := [%s], nl := [%s] }, exits := [%s], body := %s }\n",
			f.pos, nm, leanStr(k), strings.Join(names, ", "), strings.Join(cnt, ", "), strings.Join(nl, ", "), strings.Join(exs, ", "), f.body.lean())
	}
	sort.Strings(classes)
	sort.Strings(unsup)
	var helpers []string
	for _, c := range classes {
		if !strings.HasSuffix(c, "taken iff the result is nil") {
			helpers = append(helpers, c)
		}
	}
	fmt.Fprintf(&b, "\ndef fns : List Fn := [%s]\n\n", strings.Join(fnNames, ", "))
	wl := func(name string, l []string, doc string) {
		fmt.Fprintf(&b, "/-- %s -/\ndef %s : List String := [", doc, name)
		for i, s := range l {
			if i > 0 {
				b.WriteString(",")
			}
			b.WriteString("\n  " + leanStr(s))
		}
		b.WriteString("]\n\n")
	}
	wl("unsupported", unsup, "constructs the translator cannot express")
	wl("untracked", untracked, "message variables that cannot be followed locally, and why")
	wl("paramClasses", classes, "what each function does with a message parameter (the class its call sites assume)")
	wl("helperClasses", helpers, "the message parameters of functions without an error result: consumed or borrowed")
	b.WriteString("end Generated.Own\n")
	if err := os.MkdirAll(filepath.Dir(*out), 0o755); err != nil {
		fmt.Fprintln(os.Stderr, err)
		os.Exit(2)
	}
	old, _ := os.ReadFile(*out)
	if string(old) != b.String() {
		if err := os.WriteFile(*out, []byte(b.String()), 0o644); err != nil {
			fmt.Fprintln(os.Stderr, err)
			os.Exit(2)
		}
	}
	for _, u := range unsup {
		fmt.Println("UNSUPPORTED", u)
	}
	fmt.Printf("owngen: %d functions, %d untracked variables, %d unsupported constructs, %d functions the checker refuses\n", len(order), len(untracked), len(unsup), nbad)
}
