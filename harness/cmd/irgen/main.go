// irgen: translates every function of the mangos library (type-checked with go/packages) into the structured lock IR
// of lean/Model/IR.lean and writes lean/Generated/IR.lean.  Mutexes are identified by the type checker's view of
// the mutex (named struct type + field path, or package variable), so `c.s.Lock()` in a context method and
// `s.Unlock()` in a socket method name the same lock.  Calls to library functions are expanded at the call site
// from summaries: `acq` (locks the callee takes itself) become lock;unlock pairs, `entry` (locks the callee expects
// its caller to hold — helpers that unlock and re-lock, or that are documented to run under the lock) become
// unlock;lock pairs.  The Lean side re-checks every function with the verified checker; the summaries computed here
// are only used to build call-site expansions and diagnostics.
package main

import (
	"flag"
	"fmt"
	"go/ast"
	"go/token"
	"go/types"
	"os"
	"path/filepath"
	"sort"
	"strings"

	"golang.org/x/tools/go/packages"
)

// ---------------------------------------------------------------- IR

type IR struct {
	Op   string // skip lock unlock defer seq ite loop block brk cont ret call
	M    int
	L    int
	A, B *IR
	Call string // callee key (placeholder, expanded after summaries)
	Pos  string
}

func skip() *IR { return &IR{Op: "skip"} }
func seq(a, b *IR) *IR {
	if a == nil || a.Op == "skip" {
		return b
	}
	if b == nil || b.Op == "skip" {
		return a
	}
	return &IR{Op: "seq", A: a, B: b}
}
func seqs(xs ...*IR) *IR {
	r := skip()
	for i := len(xs) - 1; i >= 0; i-- {
		r = seq(xs[i], r)
	}
	return r
}
func ite(a, b *IR) *IR {
	if a.Op == "skip" && b.Op == "skip" {
		return a
	}
	return &IR{Op: "ite", A: a, B: b}
}

func (x *IR) relevant() bool {
	if x == nil {
		return false
	}
	switch x.Op {
	case "lock", "unlock", "defer":
		return true
	}
	return (x.A != nil && x.A.relevant()) || (x.B != nil && x.B.relevant())
}

func (x *IR) lean() string {
	switch x.Op {
	case "skip":
		return ".skip"
	case "lock":
		return fmt.Sprintf("(.lock %d)", x.M)
	case "unlock":
		return fmt.Sprintf("(.unlock %d)", x.M)
	case "defer":
		return fmt.Sprintf("(.deferUnlock %d)", x.M)
	case "seq":
		return "(.seq " + x.A.lean() + " " + x.B.lean() + ")"
	case "ite":
		return "(.ite " + x.A.lean() + " " + x.B.lean() + ")"
	case "loop":
		return fmt.Sprintf("(.loop %d %s)", x.L, x.A.lean())
	case "block":
		return fmt.Sprintf("(.block %d %s)", x.L, x.A.lean())
	case "brk":
		return fmt.Sprintf("(.brk %d)", x.L)
	case "cont":
		return fmt.Sprintf("(.cont %d)", x.L)
	case "ret":
		return ".ret"
	case "abort":
		return ".abort"
	}
	return ".skip /- " + x.Op + " -/"
}

// simplify drops structure that contains nothing lock-relevant and no control transfer
func (x *IR) pure() bool {
	if x == nil {
		return true
	}
	switch x.Op {
	case "skip":
		return true
	case "seq", "ite":
		return x.A.pure() && x.B.pure()
	case "loop", "block":
		return x.A.pure()
	}
	return false
}
func simplify(x *IR) *IR {
	if x == nil {
		return skip()
	}
	if x.pure() {
		return skip()
	}
	switch x.Op {
	case "seq":
		return seq(simplify(x.A), simplify(x.B))
	case "ite":
		a, b := simplify(x.A), simplify(x.B)
		if a.lean() == b.lean() {
			return a
		}
		return &IR{Op: "ite", A: a, B: b}
	case "loop", "block":
		return &IR{Op: x.Op, L: x.L, A: simplify(x.A)}
	}
	return x
}

// ---------------------------------------------------------------- the checker, as in Model/IR.lean (diagnostics and summaries only)

type st struct {
	held []int
	defd []int
}
type outc struct {
	s st
	e string // normal | ret | brk:n | cont:n
}

func has(l []int, m int) bool {
	for _, x := range l {
		if x == m {
			return true
		}
	}
	return false
}
func erase(l []int, m int) []int {
	out := []int{}
	done := false
	for _, x := range l {
		if x == m && !done {
			done = true
			continue
		}
		out = append(out, x)
	}
	return out
}
func eqSt(a, b st) bool { return fmt.Sprint(a.held) == fmt.Sprint(b.held) && fmt.Sprint(a.defd) == fmt.Sprint(b.defd) }

func check(x *IR, s st) ([]outc, string) {
	switch x.Op {
	case "skip":
		return []outc{{s, "normal"}}, ""
	case "lock":
		if has(s.held, x.M) {
			return nil, fmt.Sprintf("locks %s again while holding it (%s)", lockName[x.M], x.Pos)
		}
		return []outc{{st{append([]int{x.M}, s.held...), s.defd}, "normal"}}, ""
	case "unlock":
		if !has(s.held, x.M) {
			return nil, fmt.Sprintf("unlocks %s which is not held (%s)", lockName[x.M], x.Pos)
		}
		return []outc{{st{erase(s.held, x.M), s.defd}, "normal"}}, ""
	case "defer":
		return []outc{{st{s.held, append([]int{x.M}, s.defd...)}, "normal"}}, ""
	case "seq":
		ra, err := check(x.A, s)
		if err != "" {
			return nil, err
		}
		var out []outc
		for _, r := range ra {
			if r.e != "normal" {
				out = append(out, r)
				continue
			}
			rb, err := check(x.B, r.s)
			if err != "" {
				return nil, err
			}
			out = append(out, rb...)
		}
		return dedup(out), ""
	case "ite":
		ra, err := check(x.A, s)
		if err != "" {
			return nil, err
		}
		rb, err := check(x.B, s)
		if err != "" {
			return nil, err
		}
		return dedup(append(ra, rb...)), ""
	case "brk":
		return []outc{{s, fmt.Sprintf("brk:%d", x.L)}}, ""
	case "cont":
		return []outc{{s, fmt.Sprintf("cont:%d", x.L)}}, ""
	case "ret":
		return []outc{{s, "ret"}}, ""
	case "abort":
		return nil, ""
	case "loop":
		rs, err := check(x.A, s)
		if err != "" {
			return nil, err
		}
		out := []outc{{s, "normal"}}
		for _, r := range rs {
			again := r.e == "normal" || r.e == fmt.Sprintf("cont:%d", x.L)
			if again {
				if !eqSt(r.s, s) {
					return nil, fmt.Sprintf("loop iteration changes the held locks from %s to %s (%s)", names(s.held), names(r.s.held), x.Pos)
				}
				continue
			}
			if r.e == fmt.Sprintf("brk:%d", x.L) {
				out = append(out, outc{r.s, "normal"})
			} else {
				out = append(out, r)
			}
		}
		return dedup(out), ""
	case "block":
		rs, err := check(x.A, s)
		if err != "" {
			return nil, err
		}
		var out []outc
		for _, r := range rs {
			if r.e == fmt.Sprintf("brk:%d", x.L) {
				out = append(out, outc{r.s, "normal"})
			} else {
				out = append(out, r)
			}
		}
		return dedup(out), ""
	}
	return nil, "unknown IR node " + x.Op
}

func dedup(xs []outc) []outc {
	seen := map[string]bool{}
	var out []outc
	for _, x := range xs {
		k := fmt.Sprint(x.s.held, x.s.defd, x.e)
		if !seen[k] {
			seen[k] = true
			out = append(out, x)
		}
	}
	return out
}

func names(l []int) string {
	n := []string{}
	for _, m := range l {
		n = append(n, lockName[m])
	}
	return "{" + strings.Join(n, ", ") + "}"
}

// verdict: "" if every exit is clean and gives back exactly `entry`
func verdict(x *IR, entry []int) string {
	outs, err := check(x, st{held: append([]int{}, entry...)})
	if err != "" {
		return err
	}
	for _, o := range outs {
		if o.e != "normal" && o.e != "ret" {
			return "leaves by " + o.e
		}
		h := o.s.held
		for _, m := range o.s.defd {
			if !has(h, m) {
				return fmt.Sprintf("deferred unlock of %s which is not held at exit", lockName[m])
			}
			h = erase(h, m)
		}
		a, b := append([]int{}, h...), append([]int{}, entry...)
		sort.Ints(a)
		sort.Ints(b)
		if fmt.Sprint(a) != fmt.Sprint(b) {
			return fmt.Sprintf("a path returns holding %s (entered holding %s)", names(h), names(entry))
		}
	}
	return ""
}

// ---------------------------------------------------------------- translation

var lockID = map[string]int{}
var lockName = map[int]string{}

func lockOf(name string) int {
	if id, ok := lockID[name]; ok {
		return id
	}
	id := len(lockID) + 1
	lockID[name] = id
	lockName[id] = name
	return id
}

type fn struct {
	key   string
	pkg   string
	pos   string
	body  *IR
	raw   *IR
	calls []string
	entry []int
	acq   map[int]bool
	root  bool // goroutine body / callback / exported API: entered with nothing held
	unsup []string
	unsupExp []string
}

var fns = map[string]*fn{}
var order []string
var condLock = map[string]int{} // cond field key -> mutex id
var repoDir string

type tr struct {
	pkg    *packages.Package
	f      *fn
	nlabel int
	breakT []int            // innermost breakable (loop/switch/select) labels
	contT  []int            // innermost loops
	labels map[string][2]int // go label -> (break label, continue label)
	pend   string            // label attached to the next statement
	nlit   int
}

func relPkg(path string) string { return strings.TrimPrefix(strings.TrimPrefix(path, "go.nanomsg.org/mangos/v3"), "/") }

func typeKey(t types.Type) string {
	for {
		if p, ok := t.(*types.Pointer); ok {
			t = p.Elem()
			continue
		}
		break
	}
	if n, ok := t.(*types.Named); ok {
		if n.Obj().Pkg() != nil {
			return relPkg(n.Obj().Pkg().Path()) + "." + n.Obj().Name()
		}
		return n.Obj().Name()
	}
	return t.String()
}

func isMutexType(t types.Type) bool {
	k := typeKey(t)
	return k == "sync.Mutex" || k == "sync.RWMutex"
}

// mutexKey names the mutex denoted by expression x (of type sync.Mutex / RWMutex, or a struct embedding one)
func (t *tr) mutexKey(x ast.Expr) string {
	info := t.pkg.TypesInfo
	switch e := x.(type) {
	case *ast.ParenExpr:
		return t.mutexKey(e.X)
	case *ast.UnaryExpr:
		if e.Op == token.AND {
			return t.mutexKey(e.X)
		}
	case *ast.StarExpr:
		return t.mutexKey(e.X)
	case *ast.SelectorExpr:
		if sel, ok := info.Selections[e]; ok && sel.Kind() == types.FieldVal {
			// owner type . field path
			owner := typeKey(sel.Recv())
			path := []string{}
			typ := sel.Recv()
			for _, idx := range sel.Index() {
				for {
					if p, ok := typ.Underlying().(*types.Pointer); ok {
						typ = p.Elem()
						continue
					}
					break
				}
				stt, ok := typ.Underlying().(*types.Struct)
				if !ok {
					break
				}
				fld := stt.Field(idx)
				path = append(path, fld.Name())
				typ = fld.Type()
			}
			return owner + "." + strings.Join(path, ".")
		}
		if obj, ok := info.Uses[e.Sel].(*types.Var); ok && obj.Pkg() != nil { // pkg.var
			return relPkg(obj.Pkg().Path()) + "." + obj.Name()
		}
	case *ast.Ident:
		if obj, ok := info.Uses[e].(*types.Var); ok {
			if obj.Parent() == obj.Pkg().Scope() {
				return relPkg(obj.Pkg().Path()) + "." + obj.Name()
			}
			// a local or parameter of mutex (or embedding) type: name it by its type
			return typeKey(obj.Type()) + ".<" + obj.Name() + ">"
		}
	}
	if tv, ok := info.Types[x]; ok {
		return typeKey(tv.Type) + ".<expr>"
	}
	return "?"
}

// lockCall recognises X.Lock / Unlock / RLock / RUnlock on a sync mutex (direct field or embedded)
func (t *tr) lockCall(c *ast.CallExpr) (op string, id int, ok bool) {
	se, isSel := c.Fun.(*ast.SelectorExpr)
	if !isSel {
		return
	}
	name := se.Sel.Name
	if name != "Lock" && name != "Unlock" && name != "RLock" && name != "RUnlock" {
		return
	}
	info := t.pkg.TypesInfo
	sel, has := info.Selections[se]
	if !has || sel.Kind() != types.MethodVal {
		return
	}
	fobj, _ := sel.Obj().(*types.Func)
	if fobj == nil || fobj.Pkg() == nil || fobj.Pkg().Path() != "sync" {
		return
	}
	recv := fobj.Type().(*types.Signature).Recv()
	if recv == nil || !isMutexType(recv.Type()) {
		return // e.g. sync.Locker
	}
	// the mutex itself: X if X is a mutex, else X's embedded field path (all but the last index, which is the method)
	var key string
	if tv, ok2 := info.Types[se.X]; ok2 && isMutexType(tv.Type) {
		key = t.mutexKey(se.X)
	} else {
		owner := typeKey(sel.Recv())
		path := []string{}
		typ := sel.Recv()
		idxs := sel.Index()
		for _, idx := range idxs[:len(idxs)-1] {
			for {
				if p, ok3 := typ.Underlying().(*types.Pointer); ok3 {
					typ = p.Elem()
					continue
				}
				break
			}
			stt, ok3 := typ.Underlying().(*types.Struct)
			if !ok3 {
				break
			}
			fld := stt.Field(idx)
			path = append(path, fld.Name())
			typ = fld.Type()
		}
		key = owner + "." + strings.Join(path, ".")
	}
	if strings.HasPrefix(name, "R") {
		name = name[1:]
	}
	return strings.ToLower(name), lockOf(key), true
}

func (t *tr) pos(n ast.Node) string {
	p := t.pkg.Fset.Position(n.Pos())
	rel, err := filepath.Rel(repoDir, p.Filename)
	if err != nil {
		rel = p.Filename
	}
	return fmt.Sprintf("%s:%d", rel, p.Line)
}

func funcKey(f *types.Func) string {
	sig := f.Type().(*types.Signature)
	if r := sig.Recv(); r != nil {
		return typeKey(r.Type()) + "." + f.Name()
	}
	if f.Pkg() == nil {
		return f.Name()
	}
	return relPkg(f.Pkg().Path()) + "." + f.Name()
}

// calls: effects of the calls inside an expression, in source order
func (t *tr) calls(e ast.Node) *IR {
	if e == nil {
		return skip()
	}
	var out []*IR
	ast.Inspect(e, func(n ast.Node) bool {
		switch x := n.(type) {
		case *ast.FuncLit:
			// a function value: analysed as its own root unless it is called on the spot (handled below)
			t.literal(x, true)
			return false
		case *ast.CompositeLit:
			// &context{ cond: sync.NewCond(s), … }
			if tv, ok := t.pkg.TypesInfo.Types[x]; ok {
				for _, el := range x.Elts {
					kv, ok := el.(*ast.KeyValueExpr)
					if !ok {
						continue
					}
					if c, ok := kv.Value.(*ast.CallExpr); ok {
						if se, ok := c.Fun.(*ast.SelectorExpr); ok && se.Sel.Name == "NewCond" && len(c.Args) == 1 {
							if id, ok := kv.Key.(*ast.Ident); ok {
								condLock[typeKey(tv.Type)+"."+id.Name] = lockOf(t.embeddedOrSelf(c.Args[0]))
							}
						}
					}
				}
			}
			return true
		case *ast.CallExpr:
			// arguments first
			for _, a := range x.Args {
				out = append(out, t.calls(a))
			}
			if fl, ok := x.Fun.(*ast.FuncLit); ok {
				// func(){…}() — runs here
				sub := &tr{pkg: t.pkg, f: t.f, nlabel: t.nlabel + 100, labels: map[string][2]int{}}
				body := sub.block(fl.Body)
				t.nlabel = sub.nlabel
				lbl := t.fresh()
				out = append(out, &IR{Op: "block", L: lbl, A: retTo(body, lbl)})
				return false
			}
			if op, id, ok := t.lockCall(x); ok {
				out = append(out, &IR{Op: op, M: id, Pos: t.pos(x)})
				return false
			}
			if se, ok := x.Fun.(*ast.SelectorExpr); ok {
				out = append(out, t.calls(se.X))
				if sel, has := t.pkg.TypesInfo.Selections[se]; has {
					if fobj, ok := sel.Obj().(*types.Func); ok {
						if fobj.Pkg() != nil && fobj.Pkg().Path() == "sync" && typeKey(fobj.Type().(*types.Signature).Recv().Type()) == "sync.Cond" && fobj.Name() == "Wait" {
							ck := t.mutexKey(se.X)
							out = append(out, &IR{Op: "call", Call: "cond:" + ck, Pos: t.pos(x)})
							return false
						}
						if !types.IsInterface(sel.Recv()) {
							out = append(out, &IR{Op: "call", Call: funcKey(fobj), Pos: t.pos(x)})
						}
						return false
					}
				}
				if fobj, ok := t.pkg.TypesInfo.Uses[se.Sel].(*types.Func); ok { // pkg.Func
					if fobj.Name() == "NewCond" && fobj.Pkg().Path() == "sync" && len(x.Args) == 1 {
						t.f.unsup = append(t.f.unsup, "newcond") // marker consumed by the assignment handler
					}
					out = append(out, &IR{Op: "call", Call: funcKey(fobj), Pos: t.pos(x)})
					return false
				}
				return false
			}
			if id, ok := x.Fun.(*ast.Ident); ok {
				if id.Name == "panic" {
					out = append(out, &IR{Op: "abort"})
					panics = append(panics, t.f.key)
					return false
				}
				if fobj, ok := t.pkg.TypesInfo.Uses[id].(*types.Func); ok {
					out = append(out, &IR{Op: "call", Call: funcKey(fobj), Pos: t.pos(x)})
				}
				return false
			}
			return false
		}
		return true
	})
	return seqs(out...)
}

// retTo turns `ret` inside an inlined literal into a break to its block
func retTo(x *IR, lbl int) *IR {
	if x == nil {
		return nil
	}
	switch x.Op {
	case "ret":
		return &IR{Op: "brk", L: lbl}
	case "seq", "ite":
		return &IR{Op: x.Op, A: retTo(x.A, lbl), B: retTo(x.B, lbl)}
	case "loop", "block":
		return &IR{Op: x.Op, L: x.L, A: retTo(x.A, lbl)}
	}
	return x
}

func (t *tr) fresh() int { t.nlabel++; return t.nlabel }

// literal registers a function literal as a function of its own (goroutine body, callback, stored function value)
func (t *tr) literal(fl *ast.FuncLit, root bool) string {
	t.nlit++
	key := fmt.Sprintf("%s$%d", t.f.key, t.nlit)
	if _, ok := fns[key]; ok {
		return key
	}
	nf := &fn{key: key, pkg: t.f.pkg, pos: t.pos(fl), root: root, acq: map[int]bool{}}
	fns[key] = nf
	order = append(order, key)
	sub := &tr{pkg: t.pkg, f: nf, labels: map[string][2]int{}}
	nf.raw = sub.block(fl.Body)
	return key
}

func (t *tr) block(b *ast.BlockStmt) *IR {
	if b == nil {
		return skip()
	}
	var xs []*IR
	for _, s := range b.List {
		xs = append(xs, t.stmt(s))
	}
	return seqs(xs...)
}

func (t *tr) stmts(l []ast.Stmt) *IR {
	var xs []*IR
	for _, s := range l {
		xs = append(xs, t.stmt(s))
	}
	return seqs(xs...)
}

func (t *tr) stmt(s ast.Stmt) *IR {
	label := t.pend
	t.pend = ""
	switch x := s.(type) {
	case nil:
		return skip()
	case *ast.BlockStmt:
		return t.block(x)
	case *ast.ExprStmt:
		return t.calls(x.X)
	case *ast.AssignStmt:
		r := skip()
		for _, e := range x.Rhs {
			r = seq(r, t.calls(e))
		}
		for _, e := range x.Lhs {
			r = seq(r, t.calls(e))
		}
		// cv.L = &mutex
		if len(x.Lhs) == 1 && len(x.Rhs) == 1 {
			if se, ok := x.Lhs[0].(*ast.SelectorExpr); ok && se.Sel.Name == "L" {
				if tv, ok := t.pkg.TypesInfo.Types[se.X]; ok && typeKey(tv.Type) == "sync.Cond" {
					condLock[t.mutexKey(se.X)] = lockOf(t.embeddedOrSelf(x.Rhs[0]))
				}
			}
		}
		// c.cond = sync.NewCond(X): remember which mutex the condition variable waits on
		if len(x.Lhs) == 1 && len(x.Rhs) == 1 {
			if c, ok := x.Rhs[0].(*ast.CallExpr); ok {
				if se, ok := c.Fun.(*ast.SelectorExpr); ok && se.Sel.Name == "NewCond" && len(c.Args) == 1 {
					condLock[t.mutexKey(x.Lhs[0])] = lockOf(t.embeddedOrSelf(c.Args[0]))
				}
			}
		}
		return r
	case *ast.DeclStmt:
		return t.calls(x)
	case *ast.IncDecStmt:
		return t.calls(x.X)
	case *ast.SendStmt:
		return seq(t.calls(x.Chan), t.calls(x.Value))
	case *ast.GoStmt:
		if fl, ok := x.Call.Fun.(*ast.FuncLit); ok {
			r := skip()
			for _, a := range x.Call.Args {
				r = seq(r, t.calls(a))
			}
			t.literal(fl, true)
			return r
		}
		// go f(args): f is a root of its own; only the argument evaluation happens here
		r := skip()
		for _, a := range x.Call.Args {
			r = seq(r, t.calls(a))
		}
		if se, ok := x.Call.Fun.(*ast.SelectorExpr); ok {
			r = seq(r, t.calls(se.X))
			if sel, has := t.pkg.TypesInfo.Selections[se]; has {
				if fobj, ok := sel.Obj().(*types.Func); ok {
					spawned[funcKey(fobj)] = true
				}
			}
		} else if id, ok := x.Call.Fun.(*ast.Ident); ok {
			if fobj, ok := t.pkg.TypesInfo.Uses[id].(*types.Func); ok {
				spawned[funcKey(fobj)] = true
			}
		}
		return r
	case *ast.DeferStmt:
		if op, id, ok := t.lockCall(x.Call); ok {
			if op == "unlock" {
				return &IR{Op: "defer", M: id, Pos: t.pos(x)}
			}
			t.f.unsup = append(t.f.unsup, "defer of Lock at "+t.pos(x))
			return skip()
		}
		if fl, ok := x.Call.Fun.(*ast.FuncLit); ok {
			sub := &tr{pkg: t.pkg, f: t.f, nlabel: t.nlabel + 100, labels: map[string][2]int{}}
			body := sub.block(fl.Body)
			t.nlabel = sub.nlabel
			if body.relevant() || hasCall(body) {
				t.f.unsup = append(t.f.unsup, "deferred function literal with lock effects at "+t.pos(x))
			}
			return skip()
		}
		// defer f(...): its lock effects happen at exit; accept only callees that touch no lock (checked after summaries)
		c := t.calls(x.Call)
		deferredCalls = append(deferredCalls, deferredCall{t.f.key, c, t.pos(x)})
		return skip()
	case *ast.ReturnStmt:
		r := skip()
		for _, e := range x.Results {
			r = seq(r, t.calls(e))
		}
		return seq(r, &IR{Op: "ret"})
	case *ast.LabeledStmt:
		t.pend = x.Label.Name
		return t.stmt(x.Stmt)
	case *ast.BranchStmt:
		switch x.Tok {
		case token.BREAK:
			if x.Label != nil {
				if l, ok := t.labels[x.Label.Name]; ok {
					return &IR{Op: "brk", L: l[0]}
				}
			} else if len(t.breakT) > 0 {
				return &IR{Op: "brk", L: t.breakT[len(t.breakT)-1]}
			}
		case token.FALLTHROUGH:
			return skip() // handled by the enclosing switch
		case token.CONTINUE:
			if x.Label != nil {
				if l, ok := t.labels[x.Label.Name]; ok {
					return &IR{Op: "cont", L: l[1]}
				}
			} else if len(t.contT) > 0 {
				return &IR{Op: "cont", L: t.contT[len(t.contT)-1]}
			}
		}
		t.f.unsup = append(t.f.unsup, x.Tok.String()+" at "+t.pos(x))
		return skip()
	case *ast.IfStmt:
		r := t.stmt(x.Init)
		r = seq(r, t.calls(x.Cond))
		var els *IR = skip()
		if x.Else != nil {
			els = t.stmt(x.Else)
		}
		return seq(r, ite(t.block(x.Body), els))
	case *ast.ForStmt:
		l := t.fresh()
		if label != "" {
			t.labels[label] = [2]int{l, l}
		}
		t.breakT = append(t.breakT, l)
		t.contT = append(t.contT, l)
		init := t.stmt(x.Init)
		body := seqs(t.calls(x.Cond), t.block(x.Body))
		post := t.stmt(x.Post)
		t.breakT = t.breakT[:len(t.breakT)-1]
		t.contT = t.contT[:len(t.contT)-1]
		if post.Op != "skip" {
			// continue runs the post statement: wrap the body in a block that `continue` leaves
			bl := t.fresh()
			body = seq(&IR{Op: "block", L: bl, A: contToBrk(body, l, bl)}, post)
		}
		var after *IR = skip()
		if x.Cond == nil && !breaksOut(body, l) {
			// `for { … }` without a break never falls through
			after = &IR{Op: "ret"}
			_ = after
			after = skip()
		}
		return seqs(init, &IR{Op: "loop", L: l, A: body, Pos: t.pos(x)}, after)
	case *ast.RangeStmt:
		l := t.fresh()
		if label != "" {
			t.labels[label] = [2]int{l, l}
		}
		t.breakT = append(t.breakT, l)
		t.contT = append(t.contT, l)
		pre := t.calls(x.X)
		body := t.block(x.Body)
		t.breakT = t.breakT[:len(t.breakT)-1]
		t.contT = t.contT[:len(t.contT)-1]
		return seq(pre, &IR{Op: "loop", L: l, A: body, Pos: t.pos(x)})
	case *ast.SwitchStmt, *ast.TypeSwitchStmt, *ast.SelectStmt:
		l := t.fresh()
		cl := 0
		if len(t.contT) > 0 {
			cl = t.contT[len(t.contT)-1]
		}
		if label != "" {
			t.labels[label] = [2]int{l, cl}
		}
		t.breakT = append(t.breakT, l)
		var pre *IR = skip()
		var clauses []ast.Stmt
		hasDefault := false
		switch y := x.(type) {
		case *ast.SwitchStmt:
			pre = seq(t.stmt(y.Init), t.calls(y.Tag))
			clauses = y.Body.List
		case *ast.TypeSwitchStmt:
			pre = seq(t.stmt(y.Init), t.stmt(y.Assign))
			clauses = y.Body.List
		case *ast.SelectStmt:
			clauses = y.Body.List
		}
		var alt *IR
		var nextBody *IR = skip() // body of the following case, for fallthrough
		for i := len(clauses) - 1; i >= 0; i-- {
			var b *IR
			switch c := clauses[i].(type) {
			case *ast.CaseClause:
				if c.List == nil {
					hasDefault = true
				}
				g := skip()
				for _, e := range c.List {
					g = seq(g, t.calls(e))
				}
				stm := c.Body
				falls := false
				if n := len(stm); n > 0 {
					if br, ok := stm[n-1].(*ast.BranchStmt); ok && br.Tok == token.FALLTHROUGH {
						falls = true
						stm = stm[:n-1]
					}
				}
				own := t.stmts(stm)
				if falls {
					own = seq(own, nextBody)
				}
				nextBody = own
				b = seq(g, own)
			case *ast.CommClause:
				if c.Comm == nil {
					hasDefault = true
				}
				b = seq(t.stmt(c.Comm), t.stmts(c.Body))
			}
			if alt == nil {
				alt = b
			} else {
				alt = &IR{Op: "ite", A: b, B: alt}
			}
		}
		if alt == nil {
			alt = skip()
		}
		if _, isSel := x.(*ast.SelectStmt); !hasDefault && !isSel {
			alt = &IR{Op: "ite", A: alt, B: skip()}
		}
		t.breakT = t.breakT[:len(t.breakT)-1]
		return seq(pre, &IR{Op: "block", L: l, A: alt})
	case *ast.EmptyStmt:
		return skip()
	}
	t.f.unsup = append(t.f.unsup, fmt.Sprintf("%T at %s", s, t.pos(s)))
	return skip()
}

func hasCall(x *IR) bool {
	if x == nil {
		return false
	}
	if x.Op == "call" {
		return true
	}
	return hasCall(x.A) || hasCall(x.B)
}

func contToBrk(x *IR, loop, blk int) *IR {
	if x == nil {
		return nil
	}
	switch x.Op {
	case "cont":
		if x.L == loop {
			return &IR{Op: "brk", L: blk}
		}
		return x
	case "seq", "ite":
		return &IR{Op: x.Op, A: contToBrk(x.A, loop, blk), B: contToBrk(x.B, loop, blk)}
	case "loop", "block":
		return &IR{Op: x.Op, L: x.L, A: contToBrk(x.A, loop, blk), Pos: x.Pos}
	}
	return x
}

func breaksOut(x *IR, l int) bool {
	if x == nil {
		return false
	}
	if x.Op == "brk" && x.L == l {
		return true
	}
	return breaksOut(x.A, l) || breaksOut(x.B, l)
}

// the mutex an expression passed to sync.NewCond denotes: &s.lock, s (embedding a Mutex), &s.Mutex
func (t *tr) embeddedOrSelf(x ast.Expr) string {
	if u, ok := x.(*ast.UnaryExpr); ok && u.Op == token.AND {
		x = u.X
	}
	if tv, ok := t.pkg.TypesInfo.Types[x]; ok {
		if isMutexType(tv.Type) {
			return t.mutexKey(x)
		}
		// a struct embedding a Mutex
		typ := tv.Type
		for {
			if p, ok := typ.Underlying().(*types.Pointer); ok {
				typ = p.Elem()
				continue
			}
			break
		}
		if stt, ok := typ.Underlying().(*types.Struct); ok {
			for i := 0; i < stt.NumFields(); i++ {
				if f := stt.Field(i); f.Embedded() && isMutexType(f.Type()) {
					return typeKey(tv.Type) + "." + f.Name()
				}
			}
		}
	}
	return t.mutexKey(x)
}

type deferredCall struct {
	fn  string
	ir  *IR
	pos string
}

var deferredCalls []deferredCall
var panics []string
var spawned = map[string]bool{}

// ---------------------------------------------------------------- summaries and expansion

func expand(x *IR, self *fn) *IR {
	if x == nil {
		return skip()
	}
	switch x.Op {
	case "call":
		if strings.HasPrefix(x.Call, "cond:") {
			if m, ok := condLock[strings.TrimPrefix(x.Call, "cond:")]; ok {
				return seq(&IR{Op: "unlock", M: m, Pos: x.Pos + " (cond.Wait)"}, &IR{Op: "lock", M: m, Pos: x.Pos + " (cond.Wait)"})
			}
			self.unsupExp = append(self.unsupExp, "cond.Wait on an unknown condition variable at "+x.Pos)
			return skip()
		}
		g, ok := fns[x.Call]
		if !ok {
			return skip()
		}
		r := skip()
		for _, m := range g.entry {
			r = seq(r, seq(&IR{Op: "unlock", M: m, Pos: x.Pos + " (call of " + g.key + ", which expects it held)"}, &IR{Op: "lock", M: m, Pos: x.Pos}))
		}
		ms := []int{}
		for m := range g.acq {
			ms = append(ms, m)
		}
		sort.Ints(ms)
		for _, m := range ms {
			r = seq(r, seq(&IR{Op: "lock", M: m, Pos: x.Pos + " (inside " + g.key + ")"}, &IR{Op: "unlock", M: m, Pos: x.Pos}))
		}
		return r
	case "seq", "ite":
		return &IR{Op: x.Op, A: expand(x.A, self), B: expand(x.B, self)}
	case "loop", "block":
		return &IR{Op: x.Op, L: x.L, A: expand(x.A, self), Pos: x.Pos}
	}
	return x
}

func locksIn(x *IR, op string, acc map[int]bool) {
	if x == nil {
		return
	}
	if x.Op == op || (op == "unlock" && x.Op == "defer") {
		acc[x.M] = true
	}
	locksIn(x.A, op, acc)
	locksIn(x.B, op, acc)
}

func callsIn(x *IR, acc map[string]bool) {
	if x == nil {
		return
	}
	if x.Op == "call" {
		acc[x.Call] = true
	}
	callsIn(x.A, acc)
	callsIn(x.B, acc)
}

func main() {
	repo := flag.String("repo", "/repo", "mangos working tree")
	out := flag.String("out", "/verif/lean/Generated/IR.lean", "output")
	report := flag.String("report", "", "write diagnostics (json lines) here")
	flag.Parse()
	repoDir = *repo
	cfg := &packages.Config{Mode: packages.NeedName | packages.NeedFiles | packages.NeedSyntax | packages.NeedTypes | packages.NeedTypesInfo | packages.NeedImports | packages.NeedDeps, Dir: *repo, Tests: false}
	pkgs, err := packages.Load(cfg, "./...")
	if err != nil {
		fmt.Fprintln(os.Stderr, "irgen:", err)
		os.Exit(2)
	}
	sort.Slice(pkgs, func(i, j int) bool { return pkgs[i].PkgPath < pkgs[j].PkgPath })
	nerr := 0
	for _, p := range pkgs {
		rp := relPkg(p.PkgPath)
		if strings.HasPrefix(rp, "examples") || strings.HasPrefix(rp, "perf") || strings.HasPrefix(rp, "macat") || strings.HasPrefix(rp, "test") || strings.HasPrefix(rp, "internal/test") {
			continue
		}
		for _, e := range p.Errors {
			fmt.Fprintln(os.Stderr, "irgen: type error:", e)
			nerr++
		}
		for _, f := range p.Syntax {
			fname := p.Fset.Position(f.Pos()).Filename
			if strings.HasSuffix(fname, "_test.go") || strings.Contains(filepath.Base(fname), "verif") {
				continue
			}
			for _, d := range f.Decls {
				fd, ok := d.(*ast.FuncDecl)
				if !ok || fd.Body == nil {
					continue
				}
				obj, _ := p.TypesInfo.Defs[fd.Name].(*types.Func)
				if obj == nil {
					continue
				}
				key := funcKey(obj)
				nf := &fn{key: key, pkg: rp, acq: map[int]bool{}, root: ast.IsExported(fd.Name.Name)}
				t := &tr{pkg: p, f: nf, labels: map[string][2]int{}}
				nf.pos = t.pos(fd)
				fns[key] = nf
				order = append(order, key)
				nf.raw = t.block(fd.Body)
			}
		}
	}
	if nerr > 0 {
		os.Exit(2)
	}
	// summaries: acq = locks taken (directly or in callees) that are not part of the entry assumption
	for _, k := range order {
		f := fns[k]
		cs := map[string]bool{}
		callsIn(f.raw, cs)
		for c := range cs {
			f.calls = append(f.calls, c)
		}
		sort.Strings(f.calls)
	}
	for iter := 0; iter < 12; iter++ {
		changed := false
		for _, k := range order {
			f := fns[k]
			f.unsupExp = nil
			body := simplify(expand(f.raw, f))
			f.body = body
			// entry assumption: a function that is not balanced from nothing but is from one of the locks it releases
			if !spawned[k] && !strings.Contains(k, "$") {
				if verdict(body, nil) != "" {
					cand := map[int]bool{}
					locksIn(body, "unlock", cand)
					ids := []int{}
					for m := range cand {
						ids = append(ids, m)
					}
					sort.Ints(ids)
					found := []int(nil)
					for _, m := range ids {
						if verdict(body, []int{m}) == "" {
							found = []int{m}
							break
						}
					}
					if fmt.Sprint(found) != fmt.Sprint(f.entry) {
						f.entry = found
						changed = true
					}
				} else if f.entry != nil {
					f.entry = nil
					changed = true
				}
			}
			acq := map[int]bool{}
			locksIn(body, "lock", acq)
			for _, m := range f.entry {
				delete(acq, m)
			}
			if len(acq) != len(f.acq) {
				changed = true
			}
			f.acq = acq
		}
		if !changed {
			break
		}
	}
	// deferred calls must not touch locks
	for _, dc := range deferredCalls {
		x := simplify(expand(dc.ir, fns[dc.fn]))
		if x.relevant() {
			fns[dc.fn].unsup = append(fns[dc.fn].unsup, "deferred call with lock effects at "+dc.pos)
		}
	}
	// output
	var sb strings.Builder
	sb.WriteString("-- GENERATED by /verif/harness/cmd/irgen from " + *repo + " — do not edit; regenerated on every run.\n")
	sb.WriteString("import Model.IR\nnamespace Generated.IR\nopen Model.IR\n\n")
	ids := []int{}
	for id := range lockName {
		ids = append(ids, id)
	}
	sort.Ints(ids)
	sb.WriteString("/-- mutexes, named by owner type and field path -/\ndef lockNames : List (Nat × String) := [")
	for i, id := range ids {
		if i > 0 {
			sb.WriteString(", ")
		}
		sb.WriteString(fmt.Sprintf("(%d, %q)", id, lockName[id]))
	}
	sb.WriteString("]\n\n")
	byPkg := map[string][]string{}
	var unsup []string
	nfn, nrel := 0, 0
	type diag struct{ key, pos, why string }
	var diags []diag
	for i, k := range order {
		f := fns[k]
		nfn++
		for _, u := range append(append([]string{}, f.unsup...), f.unsupExp...) {
			if u != "newcond" {
				unsup = append(unsup, k+": "+u)
			}
		}
		if f.body == nil || !f.body.relevant() {
			continue
		}
		nrel++
		name := fmt.Sprintf("f%d", i)
		ent := []string{}
		for _, m := range f.entry {
			ent = append(ent, fmt.Sprint(m))
		}
		sb.WriteString(fmt.Sprintf("/-- %s -/\ndef %s : Fn := { name := %q, entry := [%s], body := %s }\n", f.pos, name, k, strings.Join(ent, ", "), f.body.lean()))
		byPkg[f.pkg] = append(byPkg[f.pkg], name)
		if v := verdict(f.body, f.entry); v != "" {
			diags = append(diags, diag{k, f.pos, v})
		}
	}
	pk := []string{}
	for p := range byPkg {
		pk = append(pk, p)
	}
	sort.Strings(pk)
	sb.WriteString("\n")
	var groups []string
	for _, p := range pk {
		g := "fns_" + strings.NewReplacer("/", "_", ".", "_", "-", "_").Replace(p)
		if p == "" {
			g = "fns_root"
		}
		groups = append(groups, g)
		sb.WriteString(fmt.Sprintf("def %s : List Fn := [%s]\n", g, strings.Join(byPkg[p], ", ")))
	}
	sb.WriteString(fmt.Sprintf("\ndef groups : List (String × List Fn) := [%s]\n", func() string {
		xs := []string{}
		for i, g := range groups {
			xs = append(xs, fmt.Sprintf("(%q, %s)", pk[i], g))
		}
		return strings.Join(xs, ", ")
	}()))
	sb.WriteString(fmt.Sprintf("\n/-- functions translated / with lock-relevant bodies -/\ndef nFunctions : Nat := %d\ndef nRelevant : Nat := %d\n", nfn, nrel))
	sort.Strings(panics)
	pq := []string{}
	for _, u := range panics {
		pq = append(pq, fmt.Sprintf("%q", u))
	}
	sb.WriteString("\n/-- panic sites (translated as `abort`: the process terminates) -/\ndef panicSites : List String := [" + strings.Join(pq, ", ") + "]\n")
	sort.Strings(unsup)
	q := []string{}
	for _, u := range unsup {
		q = append(q, fmt.Sprintf("%q", u))
	}
	sb.WriteString("\n/-- constructs the translator does not handle (must be empty) -/\ndef unsupported : List String := [" + strings.Join(q, ", ") + "]\n")
	sb.WriteString("\nend Generated.IR\n")
	old, _ := os.ReadFile(*out)
	if string(old) != sb.String() {
		_ = os.MkdirAll(filepath.Dir(*out), 0o755)
		if err := os.WriteFile(*out, []byte(sb.String()), 0o644); err != nil {
			fmt.Fprintln(os.Stderr, err)
			os.Exit(2)
		}
		fmt.Println("irgen: wrote", *out)
	} else {
		fmt.Println("irgen: unchanged", *out)
	}
	fmt.Printf("irgen: %d functions, %d with lock-relevant bodies, %d mutexes, %d unsupported constructs\n", nfn, nrel, len(lockName), len(unsup))
	var rep strings.Builder
	for _, d := range diags {
		fmt.Printf("irgen: UNBALANCED %s (%s): %s\n", d.key, d.pos, d.why)
		rep.WriteString(fmt.Sprintf("{\"function\": %q, \"at\": %q, \"why\": %q}\n", d.key, d.pos, d.why))
	}
	for _, u := range unsup {
		fmt.Println("irgen: UNSUPPORTED", u)
	}
	if *report != "" {
		_ = os.WriteFile(*report, []byte(rep.String()), 0o644)
	}
}
