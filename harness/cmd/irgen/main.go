// irgen: translates every function of the mangos library (type-checked with go/packages) into the structured lock IR
// of lean/Model/IR.lean and writes lean/Generated/IR.lean.  Mutexes are identified by the type checker's view of
// the mutex (named struct type + field path, or package variable), so `c.s.Lock()` in a context method and
// `s.Unlock()` in a socket method name the same lock.  Calls to library functions are expanded at the call site
// from summaries: `acq` (locks the callee takes itself) become lock;unlock pairs, `entry` (locks the callee expects
// its caller to hold — helpers that unlock and re-lock, or that are documented to run under the lock) become
// unlock;lock pairs.  The Lean side re-checks every function with the verified checker; the summaries computed here
// are only used to build call-site expansions and diagnostics.
package main

import (
	"flag"
	"fmt"
	"go/ast"
	"go/token"
	"go/types"
	"os"
	"path/filepath"
	"regexp"
	"sort"
	"strings"

	"golang.org/x/tools/go/packages"
)

// ---------------------------------------------------------------- IR

type IR struct {
	Op   string // skip lock unlock defer seq ite loop block brk cont ret call
	M    int
	L    int
	A, B *IR
	Call string // callee key (placeholder, expanded after summaries)
	Pos  string
	F    int  // field id (acc)
	W    bool // write access
}

func skip() *IR { return &IR{Op: "skip"} }
func seq(a, b *IR) *IR {
	if a == nil || a.Op == "skip" {
		return b
	}
	if b == nil || b.Op == "skip" {
		return a
	}
	return &IR{Op: "seq", A: a, B: b}
}
func seqs(xs ...*IR) *IR {
	r := skip()
	for i := len(xs) - 1; i >= 0; i-- {
		r = seq(xs[i], r)
	}
	return r
}
func ite(a, b *IR) *IR {
	if a.Op == "skip" && b.Op == "skip" {
		return a
	}
	return &IR{Op: "ite", A: a, B: b}
}

func (x *IR) relevant() bool {
	if x == nil {
		return false
	}
	switch x.Op {
	case "lock", "unlock", "defer", "acc":
		return true
	}
	return (x.A != nil && x.A.relevant()) || (x.B != nil && x.B.relevant())
}

func (x *IR) lean() string {
	switch x.Op {
	case "skip":
		return ".skip"
	case "lock":
		return fmt.Sprintf("(.lock %d)", x.M)
	case "unlock":
		return fmt.Sprintf("(.unlock %d)", x.M)
	case "defer":
		return fmt.Sprintf("(.deferUnlock %d)", x.M)
	case "seq":
		return "(.seq " + x.A.lean() + " " + x.B.lean() + ")"
	case "ite":
		return "(.ite " + x.A.lean() + " " + x.B.lean() + ")"
	case "loop":
		return fmt.Sprintf("(.loop %d %s)", x.L, x.A.lean())
	case "block":
		return fmt.Sprintf("(.block %d %s)", x.L, x.A.lean())
	case "brk":
		return fmt.Sprintf("(.brk %d)", x.L)
	case "cont":
		return fmt.Sprintf("(.cont %d)", x.L)
	case "ret":
		return ".ret"
	case "abort":
		return ".abort"
	case "acc":
		if x.W {
			return fmt.Sprintf("(.acc %d true)", x.F)
		}
		return fmt.Sprintf("(.acc %d false)", x.F)
	}
	return ".skip /- " + x.Op + " -/"
}

// simplify drops structure that contains nothing lock-relevant and no control transfer
func (x *IR) pure() bool {
	if x == nil {
		return true
	}
	switch x.Op {
	case "skip":
		return true
	case "seq", "ite":
		return x.A.pure() && x.B.pure()
	case "loop", "block":
		return x.A.pure()
	}
	return false
}
func simplify(x *IR) *IR {
	if x == nil {
		return skip()
	}
	if x.pure() {
		return skip()
	}
	switch x.Op {
	case "seq":
		return seq(simplify(x.A), simplify(x.B))
	case "ite":
		a, b := simplify(x.A), simplify(x.B)
		if a.lean() == b.lean() {
			return a
		}
		return &IR{Op: "ite", A: a, B: b}
	case "loop", "block":
		return &IR{Op: x.Op, L: x.L, A: simplify(x.A)}
	}
	return x
}

// ---------------------------------------------------------------- the checker, as in Model/IR.lean (diagnostics and summaries only)

type st struct {
	held []int
	defd []int
}
type outc struct {
	s st
	e string // normal | ret | brk:n | cont:n
}

func has(l []int, m int) bool {
	for _, x := range l {
		if x == m {
			return true
		}
	}
	return false
}
func erase(l []int, m int) []int {
	out := []int{}
	done := false
	for _, x := range l {
		if x == m && !done {
			done = true
			continue
		}
		out = append(out, x)
	}
	return out
}
func eqSt(a, b st) bool {
	return fmt.Sprint(a.held) == fmt.Sprint(b.held) && fmt.Sprint(a.defd) == fmt.Sprint(b.defd)
}

func check(x *IR, s st) ([]outc, string) {
	switch x.Op {
	case "skip", "acc", "call":
		return []outc{{s, "normal"}}, ""
	case "lock":
		if has(s.held, x.M) {
			return nil, fmt.Sprintf("locks %s again while holding it (%s)", lockName[x.M], x.Pos)
		}
		return []outc{{st{append([]int{x.M}, s.held...), s.defd}, "normal"}}, ""
	case "unlock":
		if !has(s.held, x.M) {
			return nil, fmt.Sprintf("unlocks %s which is not held (%s)", lockName[x.M], x.Pos)
		}
		return []outc{{st{erase(s.held, x.M), s.defd}, "normal"}}, ""
	case "defer":
		return []outc{{st{s.held, append([]int{x.M}, s.defd...)}, "normal"}}, ""
	case "seq":
		ra, err := check(x.A, s)
		if err != "" {
			return nil, err
		}
		var out []outc
		for _, r := range ra {
			if r.e != "normal" {
				out = append(out, r)
				continue
			}
			rb, err := check(x.B, r.s)
			if err != "" {
				return nil, err
			}
			out = append(out, rb...)
		}
		return dedup(out), ""
	case "ite":
		ra, err := check(x.A, s)
		if err != "" {
			return nil, err
		}
		rb, err := check(x.B, s)
		if err != "" {
			return nil, err
		}
		return dedup(append(ra, rb...)), ""
	case "brk":
		return []outc{{s, fmt.Sprintf("brk:%d", x.L)}}, ""
	case "cont":
		return []outc{{s, fmt.Sprintf("cont:%d", x.L)}}, ""
	case "ret":
		return []outc{{s, "ret"}}, ""
	case "abort":
		return nil, ""
	case "loop":
		rs, err := check(x.A, s)
		if err != "" {
			return nil, err
		}
		out := []outc{{s, "normal"}}
		for _, r := range rs {
			again := r.e == "normal" || r.e == fmt.Sprintf("cont:%d", x.L)
			if again {
				if !eqSt(r.s, s) {
					return nil, fmt.Sprintf("loop iteration changes the held locks from %s to %s (%s)", names(s.held), names(r.s.held), x.Pos)
				}
				continue
			}
			if r.e == fmt.Sprintf("brk:%d", x.L) {
				out = append(out, outc{r.s, "normal"})
			} else {
				out = append(out, r)
			}
		}
		return dedup(out), ""
	case "block":
		rs, err := check(x.A, s)
		if err != "" {
			return nil, err
		}
		var out []outc
		for _, r := range rs {
			if r.e == fmt.Sprintf("brk:%d", x.L) {
				out = append(out, outc{r.s, "normal"})
			} else {
				out = append(out, r)
			}
		}
		return dedup(out), ""
	}
	return nil, "unknown IR node " + x.Op
}

func first(l []string, n int) []string {
	if len(l) > n {
		return append(append([]string{}, l[:n]...), fmt.Sprintf("… %d more", len(l)-n))
	}
	return l
}

// walk is `check` with a visitor called at access and call nodes with the state there (bad states stop the branch)
func walk(x *IR, s st, visit func(*IR, st)) []outc {
	switch x.Op {
	case "acc", "call":
		visit(x, s)
		return []outc{{s, "normal"}}
	case "seq":
		var out []outc
		for _, r := range walk(x.A, s, visit) {
			if r.e != "normal" {
				out = append(out, r)
				continue
			}
			out = append(out, walk(x.B, r.s, visit)...)
		}
		return dedup(out)
	case "ite":
		return dedup(append(walk(x.A, s, visit), walk(x.B, s, visit)...))
	case "loop":
		rs := walk(x.A, s, visit)
		out := []outc{{s, "normal"}}
		for _, r := range rs {
			if r.e == "normal" || r.e == fmt.Sprintf("cont:%d", x.L) {
				continue
			}
			if r.e == fmt.Sprintf("brk:%d", x.L) {
				out = append(out, outc{r.s, "normal"})
			} else {
				out = append(out, r)
			}
		}
		return dedup(out)
	case "block":
		var out []outc
		for _, r := range walk(x.A, s, visit) {
			if r.e == fmt.Sprintf("brk:%d", x.L) {
				out = append(out, outc{r.s, "normal"})
			} else {
				out = append(out, r)
			}
		}
		return dedup(out)
	}
	r, _ := check(x, s)
	return r
}

func dedup(xs []outc) []outc {
	seen := map[string]bool{}
	var out []outc
	for _, x := range xs {
		k := fmt.Sprint(x.s.held, x.s.defd, x.e)
		if !seen[k] {
			seen[k] = true
			out = append(out, x)
		}
	}
	return out
}

func names(l []int) string {
	n := []string{}
	for _, m := range l {
		n = append(n, lockName[m])
	}
	return "{" + strings.Join(n, ", ") + "}"
}

// verdict: "" if every exit is clean and gives back exactly `entry`
func verdict(x *IR, entry []int) string {
	outs, err := check(x, st{held: append([]int{}, entry...)})
	if err != "" {
		return err
	}
	for _, o := range outs {
		if o.e != "normal" && o.e != "ret" {
			return "leaves by " + o.e
		}
		h := o.s.held
		for _, m := range o.s.defd {
			if !has(h, m) {
				return fmt.Sprintf("deferred unlock of %s which is not held at exit", lockName[m])
			}
			h = erase(h, m)
		}
		a, b := append([]int{}, h...), append([]int{}, entry...)
		sort.Ints(a)
		sort.Ints(b)
		if fmt.Sprint(a) != fmt.Sprint(b) {
			return fmt.Sprintf("a path returns holding %s (entered holding %s)", names(h), names(entry))
		}
	}
	return ""
}

// ---------------------------------------------------------------- translation

var lockID = map[string]int{}
var lockName = map[int]string{}

func lockOf(name string) int {
	if id, ok := lockID[name]; ok {
		return id
	}
	id := len(lockID) + 1
	lockID[name] = id
	lockName[id] = name
	return id
}

var fieldID = map[string]int{}
var fieldName = map[int]string{}
var atomicFields = map[int]bool{}

func fieldOf(name string) int {
	if id, ok := fieldID[name]; ok {
		return id
	}
	id := len(fieldID) + 1
	fieldID[name] = id
	fieldName[id] = name
	return id
}

type fn struct {
	key      string
	pkg      string
	pos      string
	body     *IR
	raw      *IR
	calls    []string
	entry    []int
	acq      map[int]bool
	root     bool // goroutine body / callback / exported API: entered with nothing held
	unsup    []string
	unsupExp []string
}

var fns = map[string]*fn{}
var order []string
var condLock = map[string]int{} // cond field key -> mutex id
var repoDir string

type tr struct {
	localFns map[types.Object][]string // local variables of function type -> the library functions assigned to them
	noSpawn  map[ast.Node]bool
	writes   map[ast.Node]bool     // selector nodes that are written by the enclosing statement
	fresh    map[types.Object]bool // locals holding an object this function has just allocated
	ctor     bool
	pkg      *packages.Package
	f        *fn
	nlabel   int
	breakT   []int             // innermost breakable (loop/switch/select) labels
	contT    []int             // innermost loops
	labels   map[string][2]int // go label -> (break label, continue label)
	pend     string            // label attached to the next statement
	nlit     int
}

func relPkg(path string) string {
	return strings.TrimPrefix(strings.TrimPrefix(path, "go.nanomsg.org/mangos/v3"), "/")
}

func typeKey(t types.Type) string {
	for {
		if p, ok := t.(*types.Pointer); ok {
			t = p.Elem()
			continue
		}
		break
	}
	if n, ok := t.(*types.Named); ok {
		if n.Obj().Pkg() != nil {
			return relPkg(n.Obj().Pkg().Path()) + "." + n.Obj().Name()
		}
		return n.Obj().Name()
	}
	return t.String()
}

func isMutexType(t types.Type) bool {
	k := typeKey(t)
	return k == "sync.Mutex" || k == "sync.RWMutex"
}

// mutexKey names the mutex denoted by expression x (of type sync.Mutex / RWMutex, or a struct embedding one)
func (t *tr) mutexKey(x ast.Expr) string {
	info := t.pkg.TypesInfo
	switch e := x.(type) {
	case *ast.ParenExpr:
		return t.mutexKey(e.X)
	case *ast.UnaryExpr:
		if e.Op == token.AND {
			return t.mutexKey(e.X)
		}
	case *ast.StarExpr:
		return t.mutexKey(e.X)
	case *ast.SelectorExpr:
		if sel, ok := info.Selections[e]; ok && sel.Kind() == types.FieldVal {
			// owner type . field path
			owner := typeKey(sel.Recv())
			path := []string{}
			typ := sel.Recv()
			for _, idx := range sel.Index() {
				for {
					if p, ok := typ.Underlying().(*types.Pointer); ok {
						typ = p.Elem()
						continue
					}
					break
				}
				stt, ok := typ.Underlying().(*types.Struct)
				if !ok {
					break
				}
				fld := stt.Field(idx)
				path = append(path, fld.Name())
				typ = fld.Type()
			}
			return owner + "." + strings.Join(path, ".")
		}
		if obj, ok := info.Uses[e.Sel].(*types.Var); ok && obj.Pkg() != nil { // pkg.var
			return relPkg(obj.Pkg().Path()) + "." + obj.Name()
		}
	case *ast.Ident:
		if obj, ok := info.Uses[e].(*types.Var); ok {
			if obj.Parent() == obj.Pkg().Scope() {
				return relPkg(obj.Pkg().Path()) + "." + obj.Name()
			}
			// a local or parameter of mutex (or embedding) type: name it by its type
			return typeKey(obj.Type()) + ".<" + obj.Name() + ">"
		}
	}
	if tv, ok := info.Types[x]; ok {
		return typeKey(tv.Type) + ".<expr>"
	}
	return "?"
}

// lockCall recognises X.Lock / Unlock / RLock / RUnlock on a sync mutex (direct field or embedded)
func (t *tr) lockCall(c *ast.CallExpr) (op string, id int, ok bool) {
	se, isSel := c.Fun.(*ast.SelectorExpr)
	if !isSel {
		return
	}
	name := se.Sel.Name
	if name != "Lock" && name != "Unlock" && name != "RLock" && name != "RUnlock" {
		return
	}
	info := t.pkg.TypesInfo
	sel, has := info.Selections[se]
	if !has || sel.Kind() != types.MethodVal {
		return
	}
	fobj, _ := sel.Obj().(*types.Func)
	if fobj == nil || fobj.Pkg() == nil || fobj.Pkg().Path() != "sync" {
		return
	}
	recv := fobj.Type().(*types.Signature).Recv()
	if recv == nil || !isMutexType(recv.Type()) {
		return // e.g. sync.Locker
	}
	// the mutex itself: X if X is a mutex, else X's embedded field path (all but the last index, which is the method)
	var key string
	if tv, ok2 := info.Types[se.X]; ok2 && isMutexType(tv.Type) {
		key = t.mutexKey(se.X)
	} else {
		owner := typeKey(sel.Recv())
		path := []string{}
		typ := sel.Recv()
		idxs := sel.Index()
		for _, idx := range idxs[:len(idxs)-1] {
			for {
				if p, ok3 := typ.Underlying().(*types.Pointer); ok3 {
					typ = p.Elem()
					continue
				}
				break
			}
			stt, ok3 := typ.Underlying().(*types.Struct)
			if !ok3 {
				break
			}
			fld := stt.Field(idx)
			path = append(path, fld.Name())
			typ = fld.Type()
		}
		key = owner + "." + strings.Join(path, ".")
	}
	if strings.HasPrefix(name, "R") {
		name = name[1:]
	}
	return strings.ToLower(name), lockOf(key), true
}

// assertedFrom: when x is a variable defined by a type assertion on an interface-typed expression, that interface
func (t *tr) assertedFrom(x ast.Expr) types.Type {
	id, ok := x.(*ast.Ident)
	if !ok {
		return nil
	}
	if o := t.pkg.TypesInfo.Uses[id]; o != nil {
		return assertSrc[o]
	}
	return nil
}

func (t *tr) pos(n ast.Node) string {
	p := t.pkg.Fset.Position(n.Pos())
	rel, err := filepath.Rel(repoDir, p.Filename)
	if err != nil {
		rel = p.Filename
	}
	return fmt.Sprintf("%s:%d", rel, p.Line)
}

func funcKey(f *types.Func) string {
	sig := f.Type().(*types.Signature)
	if r := sig.Recv(); r != nil {
		return typeKey(r.Type()) + "." + f.Name()
	}
	if f.Pkg() == nil {
		return f.Name()
	}
	return relPkg(f.Pkg().Path()) + "." + f.Name()
}

// calls: effects of the calls inside an expression, in source order
func (t *tr) calls(e ast.Node) *IR {
	if e == nil {
		return skip()
	}
	var out []*IR
	ast.Inspect(e, func(n ast.Node) bool {
		switch x := n.(type) {
		case *ast.FuncLit:
			// a function value: analysed as its own root unless it is called on the spot (handled below)
			t.literal(x, true)
			return false
		case *ast.CompositeLit:
			// &context{ cond: sync.NewCond(s), … }
			if tv, ok := t.pkg.TypesInfo.Types[x]; ok {
				for _, el := range x.Elts {
					kv, ok := el.(*ast.KeyValueExpr)
					if !ok {
						continue
					}
					if c, ok := kv.Value.(*ast.CallExpr); ok {
						if se, ok := c.Fun.(*ast.SelectorExpr); ok && se.Sel.Name == "NewCond" && len(c.Args) == 1 {
							if id, ok := kv.Key.(*ast.Ident); ok {
								condLock[typeKey(tv.Type)+"."+id.Name] = lockOf(t.embeddedOrSelf(c.Args[0]))
							}
						}
					}
				}
			}
			return true
		case *ast.SelectorExpr:
			if sel, ok := t.pkg.TypesInfo.Selections[x]; ok {
				switch sel.Kind() {
				case types.FieldVal:
					if a := t.fieldAcc(x, sel); a != nil {
						out = append(out, a)
					}
				case types.MethodVal:
					// a method value outside call position (time.AfterFunc(d, x.redial), go-less callbacks): a root
					if fobj, ok := sel.Obj().(*types.Func); ok && !t.noSpawn[x] {
						spawned[funcKey(fobj)] = true
					}
				}
			}
			return true
		case *ast.CallExpr:
			// sync/atomic on a field: not a plain access
			if se, ok := x.Fun.(*ast.SelectorExpr); ok {
				if pk, ok := se.X.(*ast.Ident); ok {
					if pn, ok := t.pkg.TypesInfo.Uses[pk].(*types.PkgName); ok && pn.Imported().Path() == "sync/atomic" && len(x.Args) > 0 {
						if u, ok := x.Args[0].(*ast.UnaryExpr); ok && u.Op == token.AND {
							if fs, ok := u.X.(*ast.SelectorExpr); ok {
								if sel, ok := t.pkg.TypesInfo.Selections[fs]; ok && sel.Kind() == types.FieldVal {
									atomicFields[fieldOf(t.fieldKey(sel))] = true
									out = append(out, t.calls(fs.X))
									for _, a := range x.Args[1:] {
										out = append(out, t.calls(a))
									}
									return false
								}
							}
						}
					}
				}
			}
			if id, ok := x.Fun.(*ast.Ident); ok && (id.Name == "delete" || id.Name == "copy") && len(x.Args) > 0 {
				if _, isB := t.pkg.TypesInfo.Uses[id].(*types.Builtin); isB {
					t.markWrite(x.Args[0])
				}
			}
			// arguments first
			for _, a := range x.Args {
				out = append(out, t.calls(a))
			}
			if fl, ok := x.Fun.(*ast.FuncLit); ok {
				// func(){…}() — runs here
				sub := &tr{pkg: t.pkg, f: t.f, nlabel: t.nlabel + 100, labels: map[string][2]int{}, fresh: t.fresh, ctor: t.ctor}
				body := sub.block(fl.Body)
				t.nlabel = sub.nlabel
				lbl := t.freshLabel()
				out = append(out, &IR{Op: "block", L: lbl, A: retTo(body, lbl)})
				return false
			}
			if op, id, ok := t.lockCall(x); ok {
				out = append(out, &IR{Op: op, M: id, Pos: t.pos(x)})
				return false
			}
			// once.Do(func(){…}): the literal runs here (or not at all)
			if se, ok := x.Fun.(*ast.SelectorExpr); ok && se.Sel.Name == "Do" && len(x.Args) == 1 {
				if tv, ok := t.pkg.TypesInfo.Types[se.X]; ok && typeKey(tv.Type) == "sync.Once" {
					if fl, ok := x.Args[0].(*ast.FuncLit); ok {
						// (the generic argument walk above registered it as a root; undo that)
						t.nlit--
						dk := fmt.Sprintf("%s$%d", t.f.key, t.nlit+1)
						delete(fns, dk)
						for i := len(order) - 1; i >= 0; i-- {
							if order[i] == dk {
								order = append(order[:i], order[i+1:]...)
								break
							}
						}
						sub := &tr{pkg: t.pkg, f: t.f, nlabel: t.nlabel + 100, labels: map[string][2]int{}, fresh: t.fresh, ctor: t.ctor, localFns: t.localFns}
						body := sub.block(fl.Body)
						t.nlabel = sub.nlabel
						lbl := t.freshLabel()
						out = append(out, &IR{Op: "ite", A: &IR{Op: "block", L: lbl, A: retTo(body, lbl)}, B: skip()})
						return false
					}
				}
			}
			if se, ok := x.Fun.(*ast.SelectorExpr); ok {
				if sel, has := t.pkg.TypesInfo.Selections[se]; has {
					if fobj, ok := sel.Obj().(*types.Func); ok && mutatingRecv[funcKey(fobj)] {
						t.markWrite(se.X) // l.opts.set(…): the method stores into the map held in the field
					}
				}
				out = append(out, t.calls(se.X))
				if sel, has := t.pkg.TypesInfo.Selections[se]; has {
					if fobj, ok := sel.Obj().(*types.Func); ok {
						if fobj.Pkg() != nil && fobj.Pkg().Path() == "sync" && typeKey(fobj.Type().(*types.Signature).Recv().Type()) == "sync.Cond" && fobj.Name() == "Wait" {
							ck := t.mutexKey(se.X)
							out = append(out, &IR{Op: "call", Call: "cond:" + ck, Pos: t.pos(x)})
							return false
						}
						if !types.IsInterface(sel.Recv()) {
							out = append(out, &IR{Op: "call", Call: funcKey(fobj), Pos: t.pos(x)})
						} else if impls := implementers(sel.Recv(), fobj.Name(), t.assertedFrom(se.X)); len(impls) > 0 {
							// a call through a library interface: any implementation in the library may run
							var alt *IR
							for _, k := range impls {
								c := &IR{Op: "call", Call: k, Pos: t.pos(x) + " (through " + typeKey(sel.Recv()) + ")"}
								if alt == nil {
									alt = c
								} else {
									alt = &IR{Op: "ite", A: c, B: alt}
								}
							}
							out = append(out, alt)
						}
						return false
					}
				}
				if fobj, ok := t.pkg.TypesInfo.Uses[se.Sel].(*types.Func); ok { // pkg.Func
					if fobj.Name() == "NewCond" && fobj.Pkg().Path() == "sync" && len(x.Args) == 1 {
						t.f.unsup = append(t.f.unsup, "newcond") // marker consumed by the assignment handler
					}
					out = append(out, &IR{Op: "call", Call: funcKey(fobj), Pos: t.pos(x)})
					return false
				}
				return false
			}
			if id, ok := x.Fun.(*ast.Ident); ok {
				if id.Name == "panic" {
					out = append(out, &IR{Op: "abort"})
					panics = append(panics, t.f.key)
					return false
				}
				if fobj, ok := t.pkg.TypesInfo.Uses[id].(*types.Func); ok {
					out = append(out, &IR{Op: "call", Call: funcKey(fobj), Pos: t.pos(x)})
				} else if obj := t.pkg.TypesInfo.Uses[id]; obj != nil && len(t.localFns[obj]) > 0 {
					var alt *IR = skip()
					for _, k := range t.localFns[obj] {
						alt = &IR{Op: "ite", A: &IR{Op: "call", Call: k, Pos: t.pos(x)}, B: alt}
					}
					out = append(out, alt)
				}
				return false
			}
			return false
		}
		return true
	})
	return seqs(out...)
}

var syncTypes = map[string]bool{"sync.Mutex": true, "sync.RWMutex": true, "sync.Once": true, "sync.Cond": true, "sync.WaitGroup": true}

// fieldKey: declaring struct type + field name (promoted fields are named by the struct that declares them)
func (t *tr) fieldKey(sel *types.Selection) string {
	typ := sel.Recv()
	owner := typeKey(typ)
	idxs := sel.Index()
	for i, idx := range idxs {
		for {
			if p, ok := typ.Underlying().(*types.Pointer); ok {
				typ = p.Elem()
				continue
			}
			break
		}
		stt, ok := typ.Underlying().(*types.Struct)
		if !ok {
			break
		}
		if i == len(idxs)-1 {
			owner = typeKey(typ)
			if _, named := typ.(*types.Named); !named {
				owner = typeKey(sel.Recv()) + ".<anon>"
			}
		}
		typ = stt.Field(idx).Type()
	}
	return owner + "." + sel.Obj().Name()
}

func baseIdent(e ast.Expr) *ast.Ident {
	for {
		switch y := e.(type) {
		case *ast.SelectorExpr:
			e = y.X
		case *ast.IndexExpr:
			e = y.X
		case *ast.ParenExpr:
			e = y.X
		case *ast.StarExpr:
			e = y.X
		case *ast.Ident:
			return y
		default:
			return nil
		}
	}
}

func (t *tr) fieldAcc(x *ast.SelectorExpr, sel *types.Selection) *IR {
	v, ok := sel.Obj().(*types.Var)
	if !ok || t.ctor {
		return nil
	}
	if syncTypes[typeKey(v.Type())] || strings.HasPrefix(typeKey(v.Type()), "sync/atomic.") {
		return nil
	}
	if b := baseIdent(x); b != nil {
		if obj := t.pkg.TypesInfo.Uses[b]; obj != nil && t.fresh[obj] {
			return nil
		}
	}
	if strings.HasPrefix(t.fieldKey(sel), ".Message.") {
		return nil // messages follow an ownership discipline, not a lock (C17)
	}
	key := t.fieldKey(sel)
	if v.Pkg() != nil && !strings.HasPrefix(v.Pkg().Path(), "go.nanomsg.org/mangos/v3") {
		// a field of a struct type from another module (net.Dialer.KeepAlive …): which object it belongs to is given by
		// the library field holding that struct
		if px, ok := x.X.(*ast.SelectorExpr); ok {
			if psel, ok := t.pkg.TypesInfo.Selections[px]; ok && psel.Kind() == types.FieldVal {
				key = t.fieldKey(psel) + "." + v.Name()
			}
		}
	}
	return &IR{Op: "acc", F: fieldOf(key), W: t.writes[x], Pos: t.pos(x)}
}

// markWrite: the field (or the container held in a field) this expression assigns to
func (t *tr) markWrite(e ast.Expr) {
	for {
		switch y := e.(type) {
		case *ast.IndexExpr:
			e = y.X
			continue
		case *ast.ParenExpr:
			e = y.X
			continue
		case *ast.StarExpr:
			e = y.X
			continue
		case *ast.SliceExpr:
			e = y.X
			continue
		}
		break
	}
	for {
		se, ok := e.(*ast.SelectorExpr)
		if !ok {
			return
		}
		if t.writes == nil {
			t.writes = map[ast.Node]bool{}
		}
		t.writes[se] = true
		// x.a.b = v also changes the struct value held in x.a (when a holds a struct, not a pointer to one)
		tv, ok := t.pkg.TypesInfo.Types[se.X]
		if !ok {
			return
		}
		if _, isStruct := tv.Type.Underlying().(*types.Struct); !isStruct {
			return
		}
		e = se.X
	}
}

func isAlloc(e ast.Expr) bool {
	switch y := e.(type) {
	case *ast.UnaryExpr:
		if y.Op == token.AND {
			_, ok := y.X.(*ast.CompositeLit)
			return ok
		}
	case *ast.CompositeLit:
		return true
	case *ast.CallExpr:
		if id, ok := y.Fun.(*ast.Ident); ok && (id.Name == "new" || id.Name == "make") {
			return true
		}
	}
	return false
}

// retTo turns `ret` inside an inlined literal into a break to its block
func retTo(x *IR, lbl int) *IR {
	if x == nil {
		return nil
	}
	switch x.Op {
	case "ret":
		return &IR{Op: "brk", L: lbl}
	case "seq", "ite":
		return &IR{Op: x.Op, A: retTo(x.A, lbl), B: retTo(x.B, lbl)}
	case "loop", "block":
		return &IR{Op: x.Op, L: x.L, A: retTo(x.A, lbl)}
	}
	return x
}

func (t *tr) freshLabel() int { t.nlabel++; return t.nlabel }

// literal registers a function literal as a function of its own (goroutine body, callback, stored function value)
func (t *tr) literal(fl *ast.FuncLit, root bool) string {
	t.nlit++
	key := fmt.Sprintf("%s$%d", t.f.key, t.nlit)
	if _, ok := fns[key]; ok {
		return key
	}
	nf := &fn{key: key, pkg: t.f.pkg, pos: t.pos(fl), root: root, acq: map[int]bool{}}
	fns[key] = nf
	order = append(order, key)
	sub := &tr{pkg: t.pkg, f: nf, labels: map[string][2]int{}}
	nf.raw = sub.block(fl.Body)
	return key
}

func (t *tr) block(b *ast.BlockStmt) *IR {
	if b == nil {
		return skip()
	}
	var xs []*IR
	for _, s := range b.List {
		xs = append(xs, t.stmt(s))
	}
	return seqs(xs...)
}

func (t *tr) stmts(l []ast.Stmt) *IR {
	var xs []*IR
	for _, s := range l {
		xs = append(xs, t.stmt(s))
	}
	return seqs(xs...)
}

func (t *tr) stmt(s ast.Stmt) *IR {
	label := t.pend
	t.pend = ""
	switch x := s.(type) {
	case nil:
		return skip()
	case *ast.BlockStmt:
		return t.block(x)
	case *ast.ExprStmt:
		return t.calls(x.X)
	case *ast.AssignStmt:
		for _, e := range x.Lhs {
			t.markWrite(e)
		}
		// fn = c.subscribe … fn(x): a local function variable called later in this function
		if len(x.Lhs) == len(x.Rhs) {
			for i, e := range x.Lhs {
				id, ok := e.(*ast.Ident)
				if !ok {
					continue
				}
				obj := t.pkg.TypesInfo.Defs[id]
				if obj == nil {
					obj = t.pkg.TypesInfo.Uses[id]
				}
				v, ok := obj.(*types.Var)
				if !ok || v.Parent() == nil || v.Parent() == v.Pkg().Scope() {
					continue
				}
				if se, ok := x.Rhs[i].(*ast.SelectorExpr); ok {
					if sel, ok := t.pkg.TypesInfo.Selections[se]; ok && sel.Kind() == types.MethodVal && !types.IsInterface(sel.Recv()) {
						if fobj, ok := sel.Obj().(*types.Func); ok {
							if t.localFns == nil {
								t.localFns = map[types.Object][]string{}
							}
							if t.noSpawn == nil {
								t.noSpawn = map[ast.Node]bool{}
							}
							t.localFns[obj] = append(t.localFns[obj], funcKey(fobj))
							t.noSpawn[se] = true
						}
					}
				}
			}
		}
		if len(x.Lhs) == len(x.Rhs) {
			for i, e := range x.Lhs {
				if id, ok := e.(*ast.Ident); ok && isAlloc(x.Rhs[i]) {
					obj := t.pkg.TypesInfo.Defs[id]
					if obj == nil {
						// plain assignment to a local declared earlier (var w *T … w = &T{…})
						if v, ok := t.pkg.TypesInfo.Uses[id].(*types.Var); ok && v.Parent() != nil && v.Pkg() != nil && v.Parent() != v.Pkg().Scope() && !v.IsField() {
							obj = v
						}
					}
					if obj != nil {
						if t.fresh == nil {
							t.fresh = map[types.Object]bool{}
						}
						t.fresh[obj] = true
					}
				}
			}
		}
		r := skip()
		for _, e := range x.Rhs {
			r = seq(r, t.calls(e))
		}
		for _, e := range x.Lhs {
			r = seq(r, t.calls(e))
		}
		// cv.L = &mutex
		if len(x.Lhs) == 1 && len(x.Rhs) == 1 {
			if se, ok := x.Lhs[0].(*ast.SelectorExpr); ok && se.Sel.Name == "L" {
				if tv, ok := t.pkg.TypesInfo.Types[se.X]; ok && typeKey(tv.Type) == "sync.Cond" {
					condLock[t.mutexKey(se.X)] = lockOf(t.embeddedOrSelf(x.Rhs[0]))
				}
			}
		}
		// c.cond = sync.NewCond(X): remember which mutex the condition variable waits on
		if len(x.Lhs) == 1 && len(x.Rhs) == 1 {
			if c, ok := x.Rhs[0].(*ast.CallExpr); ok {
				if se, ok := c.Fun.(*ast.SelectorExpr); ok && se.Sel.Name == "NewCond" && len(c.Args) == 1 {
					condLock[t.mutexKey(x.Lhs[0])] = lockOf(t.embeddedOrSelf(c.Args[0]))
				}
			}
		}
		return r
	case *ast.DeclStmt:
		return t.calls(x)
	case *ast.IncDecStmt:
		t.markWrite(x.X)
		return t.calls(x.X)
	case *ast.SendStmt:
		return seq(t.calls(x.Chan), t.calls(x.Value))
	case *ast.GoStmt:
		if fl, ok := x.Call.Fun.(*ast.FuncLit); ok {
			r := skip()
			for _, a := range x.Call.Args {
				r = seq(r, t.calls(a))
			}
			t.literal(fl, true)
			return r
		}
		// go f(args): f is a root of its own; only the argument evaluation happens here
		r := skip()
		for _, a := range x.Call.Args {
			r = seq(r, t.calls(a))
		}
		if se, ok := x.Call.Fun.(*ast.SelectorExpr); ok {
			r = seq(r, t.calls(se.X))
			if sel, has := t.pkg.TypesInfo.Selections[se]; has {
				if fobj, ok := sel.Obj().(*types.Func); ok {
					spawned[funcKey(fobj)] = true
				}
			}
		} else if id, ok := x.Call.Fun.(*ast.Ident); ok {
			if fobj, ok := t.pkg.TypesInfo.Uses[id].(*types.Func); ok {
				spawned[funcKey(fobj)] = true
			}
		}
		return r
	case *ast.DeferStmt:
		if op, id, ok := t.lockCall(x.Call); ok {
			if op == "unlock" {
				return &IR{Op: "defer", M: id, Pos: t.pos(x)}
			}
			t.f.unsup = append(t.f.unsup, "defer of Lock at "+t.pos(x))
			return skip()
		}
		if fl, ok := x.Call.Fun.(*ast.FuncLit); ok {
			sub := &tr{pkg: t.pkg, f: t.f, nlabel: t.nlabel + 100, labels: map[string][2]int{}}
			body := sub.block(fl.Body)
			t.nlabel = sub.nlabel
			if body.relevant() || hasCall(body) {
				t.f.unsup = append(t.f.unsup, "deferred function literal with lock effects at "+t.pos(x))
			}
			return skip()
		}
		// defer f(...): its lock effects happen at exit; accept only callees that touch no lock (checked after summaries)
		c := t.calls(x.Call)
		deferredCalls = append(deferredCalls, deferredCall{t.f.key, c, t.pos(x)})
		return skip()
	case *ast.ReturnStmt:
		r := skip()
		for _, e := range x.Results {
			r = seq(r, t.calls(e))
		}
		return seq(r, &IR{Op: "ret"})
	case *ast.LabeledStmt:
		t.pend = x.Label.Name
		return t.stmt(x.Stmt)
	case *ast.BranchStmt:
		switch x.Tok {
		case token.BREAK:
			if x.Label != nil {
				if l, ok := t.labels[x.Label.Name]; ok {
					return &IR{Op: "brk", L: l[0]}
				}
			} else if len(t.breakT) > 0 {
				return &IR{Op: "brk", L: t.breakT[len(t.breakT)-1]}
			}
		case token.FALLTHROUGH:
			return skip() // handled by the enclosing switch
		case token.CONTINUE:
			if x.Label != nil {
				if l, ok := t.labels[x.Label.Name]; ok {
					return &IR{Op: "cont", L: l[1]}
				}
			} else if len(t.contT) > 0 {
				return &IR{Op: "cont", L: t.contT[len(t.contT)-1]}
			}
		}
		t.f.unsup = append(t.f.unsup, x.Tok.String()+" at "+t.pos(x))
		return skip()
	case *ast.IfStmt:
		r := t.stmt(x.Init)
		r = seq(r, t.calls(x.Cond))
		var els *IR = skip()
		if x.Else != nil {
			els = t.stmt(x.Else)
		}
		return seq(r, ite(t.block(x.Body), els))
	case *ast.ForStmt:
		l := t.freshLabel()
		if label != "" {
			t.labels[label] = [2]int{l, l}
		}
		t.breakT = append(t.breakT, l)
		t.contT = append(t.contT, l)
		init := t.stmt(x.Init)
		body := seqs(t.calls(x.Cond), t.block(x.Body))
		post := t.stmt(x.Post)
		t.breakT = t.breakT[:len(t.breakT)-1]
		t.contT = t.contT[:len(t.contT)-1]
		if post.Op != "skip" {
			// continue runs the post statement: wrap the body in a block that `continue` leaves
			bl := t.freshLabel()
			body = seq(&IR{Op: "block", L: bl, A: contToBrk(body, l, bl)}, post)
		}
		var after *IR = skip()
		if x.Cond == nil && !breaksOut(body, l) {
			// `for { … }` without a break never falls through
			after = &IR{Op: "ret"}
			_ = after
			after = skip()
		}
		return seqs(init, &IR{Op: "loop", L: l, A: body, Pos: t.pos(x)}, after)
	case *ast.RangeStmt:
		l := t.freshLabel()
		if label != "" {
			t.labels[label] = [2]int{l, l}
		}
		t.breakT = append(t.breakT, l)
		t.contT = append(t.contT, l)
		pre := t.calls(x.X)
		body := t.block(x.Body)
		t.breakT = t.breakT[:len(t.breakT)-1]
		t.contT = t.contT[:len(t.contT)-1]
		return seq(pre, &IR{Op: "loop", L: l, A: body, Pos: t.pos(x)})
	case *ast.SwitchStmt, *ast.TypeSwitchStmt, *ast.SelectStmt:
		l := t.freshLabel()
		cl := 0
		if len(t.contT) > 0 {
			cl = t.contT[len(t.contT)-1]
		}
		if label != "" {
			t.labels[label] = [2]int{l, cl}
		}
		t.breakT = append(t.breakT, l)
		var pre *IR = skip()
		var clauses []ast.Stmt
		hasDefault := false
		switch y := x.(type) {
		case *ast.SwitchStmt:
			pre = seq(t.stmt(y.Init), t.calls(y.Tag))
			clauses = y.Body.List
		case *ast.TypeSwitchStmt:
			pre = seq(t.stmt(y.Init), t.stmt(y.Assign))
			clauses = y.Body.List
		case *ast.SelectStmt:
			clauses = y.Body.List
		}
		var alt *IR
		var nextBody *IR = skip() // body of the following case, for fallthrough
		for i := len(clauses) - 1; i >= 0; i-- {
			var b *IR
			switch c := clauses[i].(type) {
			case *ast.CaseClause:
				if c.List == nil {
					hasDefault = true
				}
				g := skip()
				for _, e := range c.List {
					g = seq(g, t.calls(e))
				}
				stm := c.Body
				falls := false
				if n := len(stm); n > 0 {
					if br, ok := stm[n-1].(*ast.BranchStmt); ok && br.Tok == token.FALLTHROUGH {
						falls = true
						stm = stm[:n-1]
					}
				}
				own := t.stmts(stm)
				if falls {
					own = seq(own, nextBody)
				}
				nextBody = own
				b = seq(g, own)
			case *ast.CommClause:
				if c.Comm == nil {
					hasDefault = true
				}
				b = seq(t.stmt(c.Comm), t.stmts(c.Body))
			}
			if alt == nil {
				alt = b
			} else {
				alt = &IR{Op: "ite", A: b, B: alt}
			}
		}
		if alt == nil {
			alt = skip()
		}
		if _, isSel := x.(*ast.SelectStmt); !hasDefault && !isSel {
			alt = &IR{Op: "ite", A: alt, B: skip()}
		}
		t.breakT = t.breakT[:len(t.breakT)-1]
		return seq(pre, &IR{Op: "block", L: l, A: alt})
	case *ast.EmptyStmt:
		return skip()
	}
	t.f.unsup = append(t.f.unsup, fmt.Sprintf("%T at %s", s, t.pos(s)))
	return skip()
}

func hasCall(x *IR) bool {
	if x == nil {
		return false
	}
	if x.Op == "call" {
		return true
	}
	return hasCall(x.A) || hasCall(x.B)
}

func contToBrk(x *IR, loop, blk int) *IR {
	if x == nil {
		return nil
	}
	switch x.Op {
	case "cont":
		if x.L == loop {
			return &IR{Op: "brk", L: blk}
		}
		return x
	case "seq", "ite":
		return &IR{Op: x.Op, A: contToBrk(x.A, loop, blk), B: contToBrk(x.B, loop, blk)}
	case "loop", "block":
		return &IR{Op: x.Op, L: x.L, A: contToBrk(x.A, loop, blk), Pos: x.Pos}
	}
	return x
}

func breaksOut(x *IR, l int) bool {
	if x == nil {
		return false
	}
	if x.Op == "brk" && x.L == l {
		return true
	}
	return breaksOut(x.A, l) || breaksOut(x.B, l)
}

// the mutex an expression passed to sync.NewCond denotes: &s.lock, s (embedding a Mutex), &s.Mutex
func (t *tr) embeddedOrSelf(x ast.Expr) string {
	if u, ok := x.(*ast.UnaryExpr); ok && u.Op == token.AND {
		x = u.X
	}
	if tv, ok := t.pkg.TypesInfo.Types[x]; ok {
		if isMutexType(tv.Type) {
			return t.mutexKey(x)
		}
		// a struct embedding a Mutex
		typ := tv.Type
		for {
			if p, ok := typ.Underlying().(*types.Pointer); ok {
				typ = p.Elem()
				continue
			}
			break
		}
		if stt, ok := typ.Underlying().(*types.Struct); ok {
			for i := 0; i < stt.NumFields(); i++ {
				if f := stt.Field(i); f.Embedded() && isMutexType(f.Type()) {
					return typeKey(tv.Type) + "." + f.Name()
				}
			}
		}
	}
	return t.mutexKey(x)
}

type deferredCall struct {
	fn  string
	ir  *IR
	pos string
}

var allNamed []*types.Named // named non-interface types of the library
var implCache = map[string][]string{}

// assertSrc: for a variable defined by a type assertion `v, ok := X.(T)` with X of interface type, that interface: the
// dynamic type of v implements both T and the type of X
var assertSrc = map[types.Object]types.Type{}

// implementers: methods `name` of the library's concrete types that implement interface type it (and, when given, also)
func implementers(it types.Type, name string, also ...types.Type) []string {
	iface, ok := it.Underlying().(*types.Interface)
	if !ok {
		return nil
	}
	key := typeKey(it) + "." + name
	var alsoI *types.Interface
	if len(also) == 1 && also[0] != nil {
		if ai, ok := also[0].Underlying().(*types.Interface); ok {
			alsoI = ai
			key += "&" + typeKey(also[0])
		}
	}
	if v, ok := implCache[key]; ok {
		return v
	}
	var out []string
	for _, n := range allNamed {
		var impl types.Type
		if types.Implements(n, iface) {
			impl = n
		} else if types.Implements(types.NewPointer(n), iface) {
			impl = types.NewPointer(n)
		} else {
			continue
		}
		if alsoI != nil && !types.Implements(impl, alsoI) {
			continue
		}
		obj, _, _ := types.LookupFieldOrMethod(impl, true, n.Obj().Pkg(), name)
		if f, ok := obj.(*types.Func); ok {
			out = append(out, funcKey(f))
		}
	}
	sort.Strings(out)
	implCache[key] = out
	return out
}

var mutatingRecv = map[string]bool{} // methods (funcKey) that assign through a map/slice receiver
var ctorName = regexp.MustCompile(`^(New|new|Make|make|init$|Init)`)
var deferredCalls []deferredCall
var panics []string
var spawned = map[string]bool{}

// ---------------------------------------------------------------- summaries and expansion

func expand(x *IR, self *fn) *IR {
	if x == nil {
		return skip()
	}
	switch x.Op {
	case "call":
		if strings.HasPrefix(x.Call, "cond:") {
			if m, ok := condLock[strings.TrimPrefix(x.Call, "cond:")]; ok {
				return seq(&IR{Op: "unlock", M: m, Pos: x.Pos + " (cond.Wait)"}, &IR{Op: "lock", M: m, Pos: x.Pos + " (cond.Wait)"})
			}
			self.unsupExp = append(self.unsupExp, "cond.Wait on an unknown condition variable at "+x.Pos)
			return skip()
		}
		g, ok := fns[x.Call]
		if !ok {
			return skip()
		}
		r := skip()
		for _, m := range g.entry {
			r = seq(r, seq(&IR{Op: "unlock", M: m, Pos: x.Pos + " (call of " + g.key + ", which expects it held)"}, &IR{Op: "lock", M: m, Pos: x.Pos}))
		}
		ms := []int{}
		for m := range g.acq {
			ms = append(ms, m)
		}
		sort.Ints(ms)
		for _, m := range ms {
			r = seq(r, seq(&IR{Op: "lock", M: m, Pos: x.Pos + " (inside " + g.key + ")"}, &IR{Op: "unlock", M: m, Pos: x.Pos}))
		}
		return r
	case "seq", "ite":
		return &IR{Op: x.Op, A: expand(x.A, self), B: expand(x.B, self)}
	case "loop", "block":
		return &IR{Op: x.Op, L: x.L, A: expand(x.A, self), Pos: x.Pos}
	}
	return x
}

func locksIn(x *IR, op string, acc map[int]bool) {
	if x == nil {
		return
	}
	if x.Op == op || (op == "unlock" && x.Op == "defer") {
		acc[x.M] = true
	}
	locksIn(x.A, op, acc)
	locksIn(x.B, op, acc)
}

func callsIn(x *IR, acc map[string]bool) {
	if x == nil {
		return
	}
	if x.Op == "call" {
		acc[x.Call] = true
	}
	callsIn(x.A, acc)
	callsIn(x.B, acc)
}

func main() {
	repo := flag.String("repo", "/repo", "mangos working tree")
	out := flag.String("out", "/verif/lean/Generated/IR.lean", "output")
	report := flag.String("report", "", "write diagnostics (json lines) here")
	flag.Parse()
	repoDir = *repo
	cfg := &packages.Config{Mode: packages.NeedName | packages.NeedFiles | packages.NeedSyntax | packages.NeedTypes | packages.NeedTypesInfo | packages.NeedImports | packages.NeedDeps, Dir: *repo, Tests: false}
	pkgs, err := packages.Load(cfg, "./...")
	if err != nil {
		fmt.Fprintln(os.Stderr, "irgen:", err)
		os.Exit(2)
	}
	sort.Slice(pkgs, func(i, j int) bool { return pkgs[i].PkgPath < pkgs[j].PkgPath })
	for _, p := range pkgs {
		rp := relPkg(p.PkgPath)
		if strings.HasPrefix(rp, "examples") || strings.HasPrefix(rp, "perf") || strings.HasPrefix(rp, "macat") || strings.HasPrefix(rp, "test") || strings.HasPrefix(rp, "internal/test") {
			continue
		}
		sc := p.Types.Scope()
		for _, nm := range sc.Names() {
			if tn, ok := sc.Lookup(nm).(*types.TypeName); ok {
				if n, ok := tn.Type().(*types.Named); ok {
					if _, isI := n.Underlying().(*types.Interface); !isI {
						allNamed = append(allNamed, n)
					}
				}
			}
		}
	}
	// variables defined by type assertions on interface-typed expressions
	for _, p := range pkgs {
		for _, f := range p.Syntax {
			ast.Inspect(f, func(n ast.Node) bool {
				as, ok := n.(*ast.AssignStmt)
				if !ok || as.Tok != token.DEFINE || len(as.Rhs) != 1 || len(as.Lhs) == 0 {
					return true
				}
				ta, ok := as.Rhs[0].(*ast.TypeAssertExpr)
				if !ok || ta.Type == nil {
					return true
				}
				src := p.TypesInfo.TypeOf(ta.X)
				if src == nil || !types.IsInterface(src) {
					return true
				}
				if id, ok := as.Lhs[0].(*ast.Ident); ok {
					if o := p.TypesInfo.Defs[id]; o != nil {
						assertSrc[o] = src
					}
				}
				return true
			})
		}
	}
	// methods with a map or slice receiver that store through it
	for _, p := range pkgs {
		for _, f := range p.Syntax {
			for _, d := range f.Decls {
				fd, ok := d.(*ast.FuncDecl)
				if !ok || fd.Body == nil || fd.Recv == nil || len(fd.Recv.List) == 0 || len(fd.Recv.List[0].Names) == 0 {
					continue
				}
				rv := p.TypesInfo.Defs[fd.Recv.List[0].Names[0]]
				if rv == nil {
					continue
				}
				switch rv.Type().Underlying().(type) {
				case *types.Map, *types.Slice:
				default:
					continue
				}
				mut := false
				ast.Inspect(fd.Body, func(n ast.Node) bool {
					switch y := n.(type) {
					case *ast.AssignStmt:
						for _, l := range y.Lhs {
							if ix, ok := l.(*ast.IndexExpr); ok {
								if id, ok := ix.X.(*ast.Ident); ok && p.TypesInfo.Uses[id] == rv {
									mut = true
								}
							}
						}
					case *ast.CallExpr:
						if id, ok := y.Fun.(*ast.Ident); ok && id.Name == "delete" && len(y.Args) > 0 {
							if a, ok := y.Args[0].(*ast.Ident); ok && p.TypesInfo.Uses[a] == rv {
								mut = true
							}
						}
					}
					return true
				})
				if mut {
					if obj, _ := p.TypesInfo.Defs[fd.Name].(*types.Func); obj != nil {
						mutatingRecv[funcKey(obj)] = true
					}
				}
			}
		}
	}
	nerr := 0
	for _, p := range pkgs {
		rp := relPkg(p.PkgPath)
		if strings.HasPrefix(rp, "examples") || strings.HasPrefix(rp, "perf") || strings.HasPrefix(rp, "macat") || strings.HasPrefix(rp, "test") || strings.HasPrefix(rp, "internal/test") {
			continue
		}
		for _, e := range p.Errors {
			fmt.Fprintln(os.Stderr, "irgen: type error:", e)
			nerr++
		}
		for _, f := range p.Syntax {
			fname := p.Fset.Position(f.Pos()).Filename
			if strings.HasSuffix(fname, "_test.go") || strings.Contains(filepath.Base(fname), "verif") {
				continue
			}
			for _, d := range f.Decls {
				fd, ok := d.(*ast.FuncDecl)
				if !ok || fd.Body == nil {
					continue
				}
				obj, _ := p.TypesInfo.Defs[fd.Name].(*types.Func)
				if obj == nil {
					continue
				}
				key := funcKey(obj)
				nf := &fn{key: key, pkg: rp, acq: map[int]bool{}, root: ast.IsExported(fd.Name.Name)}
				t := &tr{pkg: p, f: nf, labels: map[string][2]int{}, ctor: fd.Recv == nil && ctorName.MatchString(fd.Name.Name)}
				nf.pos = t.pos(fd)
				fns[key] = nf
				order = append(order, key)
				nf.raw = t.block(fd.Body)
			}
		}
	}
	if nerr > 0 {
		os.Exit(2)
	}
	// roots are entered with nothing held: exported API, goroutine bodies, function values, literals, init
	isRoot := func(k string) bool {
		f := fns[k]
		return f.root || spawned[k] || strings.Contains(k, "$")
	}
	// entry context of every other function: the mutexes held at *all* of its call sites (checked on the Lean side:
	// each call site is expanded to unlock;lock of the callee's entry set, which the balance checker only accepts if
	// they are held there, and the callee must return with exactly its entry set)
	top := map[string]bool{} // not yet constrained by any call site
	for _, k := range order {
		if !isRoot(k) {
			top[k] = true
		}
	}
	for iter := 0; iter < 20; iter++ {
		changed := false
		for _, k := range order {
			f := fns[k]
			if top[k] {
				continue
			}
			walk(f.raw, st{held: append([]int{}, f.entry...)}, func(n *IR, s st) {
				if n.Op != "call" {
					return
				}
				g, ok := fns[n.Call]
				if !ok || isRoot(n.Call) {
					return
				}
				held := append([]int{}, s.held...)
				sort.Ints(held)
				if top[n.Call] {
					delete(top, n.Call)
					g.entry = held
					changed = true
					return
				}
				var inter []int
				for _, m := range g.entry {
					if has(held, m) {
						inter = append(inter, m)
					}
				}
				if len(inter) != len(g.entry) {
					g.entry = inter
					changed = true
				}
			})
		}
		if !changed {
			break
		}
	}
	for k := range top {
		fns[k].entry = nil // never called statically: checked as if entered with nothing held
	}
	// acq: locks a function takes itself (directly or through callees), beyond its entry set
	for iter := 0; iter < 12; iter++ {
		changed := false
		for _, k := range order {
			f := fns[k]
			f.unsupExp = nil
			f.body = simplify(expand(f.raw, f))
			acq := map[int]bool{}
			locksIn(f.body, "lock", acq)
			for _, m := range f.entry {
				delete(acq, m)
			}
			if len(acq) != len(f.acq) {
				changed = true
			}
			f.acq = acq
		}
		if !changed {
			break
		}
	}
	// accesses with the locks held at them
	type access struct {
		fn, pos string
		w       bool
		held    []int
	}
	byField := map[int][]access{}
	visitOrder := map[string][]int{} // per function: fields in the order the walk meets them
	for _, k := range order {
		f := fns[k]
		seen := map[string]bool{}
		walk(f.body, st{held: append([]int{}, f.entry...)}, func(n *IR, s st) {
			if n.Op != "acc" {
				return
			}
			visitOrder[k] = append(visitOrder[k], n.F)
			h := append([]int{}, s.held...)
			sort.Ints(h)
			key := fmt.Sprint(n.F, n.W, h, n.Pos)
			if seen[key] {
				return
			}
			seen[key] = true
			byField[n.F] = append(byField[n.F], access{k, n.Pos, n.W, h})
		})
	}
	var races []string
	fids := []int{}
	for id := range byField {
		fids = append(fids, id)
	}
	sort.Ints(fids)
	for _, id := range fids {
		as := byField[id]
		anyW := false
		for _, a := range as {
			anyW = anyW || a.w
		}
		if !anyW && !atomicFields[id] {
			continue
		}
		common := append([]int{}, as[0].held...)
		for _, a := range as[1:] {
			var c2 []int
			for _, m := range common {
				if has(a.held, m) {
					c2 = append(c2, m)
				}
			}
			common = c2
		}
		if len(common) > 0 {
			continue
		}
		// describe: unprotected accesses
		var bare, prot []string
		for _, a := range as {
			d := fmt.Sprintf("%s %s at %s holding %s", map[bool]string{true: "write", false: "read"}[a.w], a.fn, a.pos, names(a.held))
			if len(a.held) == 0 {
				bare = append(bare, d)
			} else {
				prot = append(prot, d)
			}
		}
		sort.Strings(bare)
		sort.Strings(prot)
		races = append(races, fmt.Sprintf("%s: no common lock over %d accesses; without any lock: %s; others: %s", fieldName[id], len(as), strings.Join(bare, "; "), strings.Join(first(prot, 3), "; ")))
	}
	// deferred calls must not touch locks
	for _, dc := range deferredCalls {
		x := simplify(expand(dc.ir, fns[dc.fn]))
		if x.relevant() {
			fns[dc.fn].unsup = append(fns[dc.fn].unsup, "deferred call with lock effects at "+dc.pos)
		}
	}
	// output
	var sb strings.Builder
	sb.WriteString("-- GENERATED by /verif/harness/cmd/irgen from " + *repo + " — do not edit; regenerated on every run.\n")
	sb.WriteString("import Model.IR\nnamespace Generated.IR\nopen Model.IR\n\n")
	ids := []int{}
	for id := range lockName {
		ids = append(ids, id)
	}
	sort.Ints(ids)
	sb.WriteString("/-- mutexes, named by owner type and field path -/\ndef lockNames : List (Nat × String) := [")
	for i, id := range ids {
		if i > 0 {
			sb.WriteString(", ")
		}
		sb.WriteString(fmt.Sprintf("(%d, %q)", id, lockName[id]))
	}
	sb.WriteString("]\n\n")
	byPkg := map[string][]string{}
	var unsup []string
	nfn, nrel := 0, 0
	type diag struct{ key, pos, why string }
	var diags []diag
	for i, k := range order {
		f := fns[k]
		nfn++
		for _, u := range append(append([]string{}, f.unsup...), f.unsupExp...) {
			if u != "newcond" {
				unsup = append(unsup, k+": "+u)
			}
		}
		if f.body == nil || !f.body.relevant() {
			continue
		}
		nrel++
		name := fmt.Sprintf("f%d", i)
		ent := []string{}
		for _, m := range f.entry {
			ent = append(ent, fmt.Sprint(m))
		}
		sb.WriteString(fmt.Sprintf("/-- %s -/\ndef %s : Fn := { name := %q, entry := [%s], body := %s }\n", f.pos, name, k, strings.Join(ent, ", "), f.body.lean()))
		byPkg[f.pkg] = append(byPkg[f.pkg], name)
		if v := verdict(f.body, f.entry); v != "" {
			diags = append(diags, diag{k, f.pos, v})
		}
	}
	pk := []string{}
	for p := range byPkg {
		pk = append(pk, p)
	}
	sort.Strings(pk)
	sb.WriteString("\n")
	var groups []string
	for _, p := range pk {
		g := "fns_" + strings.NewReplacer("/", "_", ".", "_", "-", "_").Replace(p)
		if p == "" {
			g = "fns_root"
		}
		groups = append(groups, g)
		sb.WriteString(fmt.Sprintf("def %s : List Fn := [%s]\n", g, strings.Join(byPkg[p], ", ")))
	}
	sb.WriteString(fmt.Sprintf("\ndef groups : List (String × List Fn) := [%s]\n", func() string {
		xs := []string{}
		for i, g := range groups {
			xs = append(xs, fmt.Sprintf("(%q, %s)", pk[i], g))
		}
		return strings.Join(xs, ", ")
	}()))
	sb.WriteString(fmt.Sprintf("\n/-- functions translated / with lock-relevant bodies -/\ndef nFunctions : Nat := %d\ndef nRelevant : Nat := %d\n", nfn, nrel))
	fl := []int{}
	for id := range fieldName {
		fl = append(fl, id)
	}
	sort.Ints(fl)
	sb.WriteString("\n/-- struct fields, named by declaring type -/\ndef fieldNames : List (Nat × String) := [")
	for i, id := range fl {
		if i > 0 {
			sb.WriteString(", ")
		}
		sb.WriteString(fmt.Sprintf("(%d, %q)", id, fieldName[id]))
	}
	sb.WriteString("]\n")
	al := []string{}
	for id := range atomicFields {
		al = append(al, fmt.Sprint(id))
	}
	sort.Strings(al)
	sb.WriteString("\n/-- fields accessed through sync/atomic -/\ndef atomicFields : List Nat := [" + strings.Join(al, ", ") + "]\n")
	racy := map[string]bool{}
	for _, r := range races {
		racy[strings.SplitN(r, ":", 2)[0]] = true
	}
	un := []string{}
	seenF := map[int]bool{}
	for _, p := range pk {
		for _, name := range byPkg[p] {
			var idx int
			fmt.Sscanf(name, "f%d", &idx)
			for _, fid := range visitOrder[order[idx]] {
				if !seenF[fid] {
					seenF[fid] = true
					if racy[fieldName[fid]] {
						un = append(un, fmt.Sprintf("%q", fieldName[fid]))
					}
				}
			}
		}
	}
	sb.WriteString("\n/-- fields the generator's own lockset pass flags, in field-id order (the Lean side recomputes the list with the verified functions and must arrive at the same one) -/\ndef expectedUnsafe : List String := [" + strings.Join(un, ", ") + "]\n")
	sort.Strings(panics)
	pq := []string{}
	for _, u := range panics {
		pq = append(pq, fmt.Sprintf("%q", u))
	}
	sb.WriteString("\n/-- panic sites (translated as `abort`: the process terminates) -/\ndef panicSites : List String := [" + strings.Join(pq, ", ") + "]\n")
	sort.Strings(unsup)
	q := []string{}
	for _, u := range unsup {
		q = append(q, fmt.Sprintf("%q", u))
	}
	sb.WriteString("\n/-- constructs the translator does not handle (must be empty) -/\ndef unsupported : List String := [" + strings.Join(q, ", ") + "]\n")
	sb.WriteString("\nend Generated.IR\n")
	old, _ := os.ReadFile(*out)
	if string(old) != sb.String() {
		_ = os.MkdirAll(filepath.Dir(*out), 0o755)
		if err := os.WriteFile(*out, []byte(sb.String()), 0o644); err != nil {
			fmt.Fprintln(os.Stderr, err)
			os.Exit(2)
		}
		fmt.Println("irgen: wrote", *out)
	} else {
		fmt.Println("irgen: unchanged", *out)
	}
	fmt.Printf("irgen: %d functions, %d with lock-relevant bodies, %d mutexes, %d unsupported constructs\n", nfn, nrel, len(lockName), len(unsup))
	var rep strings.Builder
	for _, d := range diags {
		fmt.Printf("irgen: UNBALANCED %s (%s): %s\n", d.key, d.pos, d.why)
		rep.WriteString(fmt.Sprintf("{\"kind\": \"unbalanced\", \"function\": %q, \"at\": %q, \"why\": %q}\n", d.key, d.pos, d.why))
	}
	for _, id := range fids {
		for _, a := range byField[id] {
			rep.WriteString(fmt.Sprintf("{\"kind\": \"access\", \"field\": %q, \"at\": %q, \"function\": %q, \"write\": %v, \"held\": %q}\n", fieldName[id], a.pos, a.fn, a.w, names(a.held)))
		}
	}
	for _, r := range races {
		rep.WriteString(fmt.Sprintf("{\"kind\": \"unprotected\", \"field\": %q, \"detail\": %q}\n", strings.SplitN(r, ":", 2)[0], r))
	}
	for _, u := range unsup {
		fmt.Println("irgen: UNSUPPORTED", u)
	}
	for _, r := range races {
		fmt.Println("irgen: UNPROTECTED", r)
	}
	if *report != "" {
		_ = os.WriteFile(*report, []byte(rep.String()), 0o644)
	}
}
