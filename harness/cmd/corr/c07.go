package main

import (
	"encoding/binary"
	"fmt"
	"go.nanomsg.org/mangos/v3/protocol/xsurveyor"
	"time"

	"go.nanomsg.org/mangos/v3"
	"go.nanomsg.org/mangos/v3/protocol/surveyor"
)

func init() { props["C07"] = runC07 }

func runSurveyorScenario(c *Ctx, nops int, zeroTime bool) {
	e := NewExec(c, "m.surv", surveyor.NewProtocol(), "surveyor")
	e.timed, e.canonIDs = true, true
	pipes := []int{}
	everHeld := map[int]bool{}
	held := map[int]bool{}
	next := 800
	ctxs := []int{0}
	closedCtx := map[int]bool{}
	cur := map[int]uint32{} // ctx -> canonical id of its current survey
	started := map[uint32]time.Time{}
	survTime := map[int]int{0: 1000}
	idTime := map[uint32]int{}
	parked := map[int]int{}
	callCtx := map[int]int{}
	recvBegan := map[int]uint32{} // call -> id of the survey current when Recv was called
	var issued []uint32
	tag := 0
	longSlept := false
	addPipe := func() {
		next++
		if e.AddPipe(next) == "ok" {
			pipes = append(pipes, next)
		}
	}
	look := func() {
		for _, ev := range splitEvents(lastObs(e)) {
			switch ev.kind {
			case "ret":
				cx, ok := callCtx[ev.call]
				if !ok {
					continue
				}
				if parked[cx] == ev.call {
					delete(parked, cx)
				}
				if ev.msg != nil {
					if len(ev.hdr) != 4 {
						c.Violate(fmt.Sprintf("SURVEYOR: a response with header %x was delivered", ev.hdr), e.Replay())
						continue
					}
					id := binary.BigEndian.Uint32(ev.hdr)
					want := recvBegan[ev.call]
					if id != want {
						c.Violate(fmt.Sprintf("SURVEYOR: context %d received a response to survey %#x; its current survey when Recv began was %#x", cx, id, want), e.Replay())
					}
					if T := idTime[id]; T > 0 {
						if el := time.Since(started[id]); el > time.Duration(T)*time.Millisecond+600*time.Millisecond {
							c.Violate(fmt.Sprintf("SURVEYOR: a response to survey %#x was delivered %v after the survey started (survey time %d ms)", id, el, T), e.Replay())
						}
					}
				}
			case "closed":
				for i, p := range pipes {
					if p == ev.pipe {
						pipes = append(pipes[:i:i], pipes[i+1:]...)
						break
					}
				}
			}
		}
	}
	if q := c.R.Pick(128, 128, 0, 1, 2); q != 128 {
		e.SetOpt(0, mangos.OptionWriteQLen, fmt.Sprint(q), q) // small per-respondent queues: a stalled respondent overflows
	}
	addPipe()
	if zeroTime {
		e.SetOpt(0, mangos.OptionSurveyTime, "0", time.Duration(0))
		survTime[0] = 0
	} else {
		e.SetOpt(0, mangos.OptionSurveyTime, "60", 60*time.Millisecond)
		survTime[0] = 60
	}
	// a first survey while the respondent is connected and idle reveals the id counter (ids are canonicalised from here on)
	{
		id := e.Send(0, nil, []byte{'Q', 0})
		callCtx[id] = 0
		cur[0] = uint32(e.nsent) | 0x80000000
		started[cur[0]] = time.Now()
		idTime[cur[0]] = survTime[0]
		issued = append(issued, cur[0])
		if !e.idKnown {
			c.Violate("SURVEYOR: the first survey was not sent to the connected respondent", e.Replay())
			e.Finish()
			return
		}
	}
	for i := 0; i < nops && !e.broken; i++ {
		n0 := len(e.ops)
		cx := ctxs[c.R.Intn(len(ctxs))]
		switch k := c.R.Intn(26); {
		case k < 5: // new survey
			tag++
			targets := append([]int{}, pipes...)
			id := e.Send(cx, nil, []byte{'Q', byte(tag)})
			callCtx[id] = cx
			got := map[int]bool{}
			okRet := false
			for _, ev := range splitEvents(lastObs(e)) {
				if ev.kind == "tx" && len(ev.hdr) == 4 {
					got[ev.pipe] = true
				}
				if ev.kind == "ret" && ev.call == id && ev.err == "ok" {
					okRet = true
				}
			}
			look()
			if okRet {
				k32 := uint32(e.nsent) | 0x80000000
				cur[cx] = k32
				started[k32] = time.Now()
				idTime[k32] = survTime[cx]
				issued = append(issued, k32)
				for _, p := range targets {
					if !everHeld[p] && !got[p] {
						c.Violate(fmt.Sprintf("SURVEYOR: connected respondent pipe %d (never slowed down) was not sent survey %#x", p, k32), e.Replay())
					}
				}
			}
		case k < 14: // a response arrives
			if len(pipes) == 0 {
				continue
			}
			p := pipes[c.R.Intn(len(pipes))]
			var word uint32
			switch c.R.Intn(8) {
			case 0, 1, 2, 3:
				word = cur[cx] // current survey of some context
			case 4:
				if len(issued) > 0 {
					word = issued[c.R.Intn(len(issued))] // possibly stale
				}
			case 5:
				word = uint32(e.nsent+3+c.R.Intn(4)) | 0x80000000 // never issued
			case 6:
				word = cur[cx] &^ 0x80000000 // request bit missing
			default:
				word = uint32(c.R.U64())
			}
			body := append(be32(word), 'A', byte(c.R.Intn(200)))
			if c.R.Intn(10) == 0 {
				body = body[:c.R.Intn(4)] // too short to carry an id
			}
			e.InjectCanon(p, body)
			look()
		case k < 20: // Recv
			if _, busy := parked[cx]; busy {
				continue
			}
			began := cur[cx]
			tcall := time.Now()
			id := e.Recv(cx)
			callCtx[id] = cx
			recvBegan[id] = began
			parked[cx] = id
			look()
			if zeroTime && began != 0 && !closedCtx[cx] {
				for _, ev := range splitEvents(lastObs(e)) {
					if ev.kind == "ret" && ev.call == id && ev.err == "protostate" {
						c.Violate(fmt.Sprintf("SURVEYOR: with the accepted survey time 0 (no limit) Recv on context %d failed with a protocol-state error although survey %#x is in progress", cx, began), e.Replay())
					}
				}
			}
			if _, still := parked[cx]; still && (began == 0 || closedCtx[cx]) {
				c.Violate(fmt.Sprintf("SURVEYOR: Recv on context %d with no survey in progress blocked instead of failing promptly", cx), e.Replay())
				_ = tcall
			}
		case k < 22: // let the survey time elapse
			if !zeroTime {
				if !longSlept && c.R.Intn(3) == 0 {
					longSlept = true
					e.Sleep(400) // long enough that every timer armed so far is overdue
				} else {
					e.Sleep(90)
				}
				look()
				// a Recv parked on an expired survey must have been released
				for cx2, call := range parked {
					id := recvBegan[call]
					if T := idTime[id]; T > 0 && time.Since(started[id]) > time.Duration(T)*time.Millisecond+500*time.Millisecond {
						c.Violate(fmt.Sprintf("SURVEYOR: Recv on context %d is still blocked %v after survey %#x (survey time %d ms) started", cx2, time.Since(started[id]), id, T), e.Replay())
					}
				}
			}
		case k == 22:
			if len(ctxs) < 3 {
				id := len(ctxs)
				if e.OpenCtx(id) == "ok" {
					ctxs = append(ctxs, id)
					survTime[id] = survTime[0]
					// a context has a survey time of its own (inherited from the socket when it is opened)
					if !zeroTime && c.R.Intn(3) != 0 {
						t := c.R.Pick(25, 150, 150)
						e.SetOpt(id, mangos.OptionSurveyTime, fmt.Sprint(t), time.Duration(t)*time.Millisecond)
						survTime[id] = t
					}
				}
			} else if cx != 0 && !closedCtx[cx] && c.R.Intn(3) == 0 {
				e.CloseCtx(cx)
				closedCtx[cx] = true
				delete(cur, cx)
				look()
				delete(parked, cx)
			}
		case k == 23:
			if len(pipes) > 0 {
				p := pipes[c.R.Intn(len(pipes))]
				held[p] = !held[p]
				everHeld[p] = true
				e.Hold(p, held[p])
			} else {
				addPipe()
			}
		case k == 24:
			if len(pipes) > 0 {
				e.Release(pipes[c.R.Intn(len(pipes))], c.R.Intn(5) != 0)
				if len(e.ops) > n0 {
					look()
				}
			}
		default:
			if len(pipes) < 3 {
				addPipe()
			} else if c.R.Intn(3) == 0 {
				e.RmPipe(pipes[c.R.Intn(len(pipes))])
				look()
			}
		}
	}
	e.Finish()
}

// directed: survey time 0 is the documented "no limit".  The survey is still the current one — its Recv still waiting —
// after more than the default survey time (one second) has passed, and a response arriving then is delivered.
func runSurveyNoLimitOutlastsDefault(c *Ctx) {
	e := NewExec(c, "m.surv", surveyor.NewProtocol(), "surveyor")
	e.timed, e.canonIDs = true, true
	e.AddPipe(801)
	e.SetOpt(0, mangos.OptionSurveyTime, "0", time.Duration(0))
	e.Send(0, nil, []byte{'Q', 9})
	if !e.idKnown {
		e.Finish()
		return
	}
	rcv := e.Recv(0)
	e.Sleep(1150)
	for _, ev := range splitEvents(lastObs(e)) {
		if ev.kind == "ret" && ev.call == rcv {
			c.Violate(fmt.Sprintf("SURVEYOR: with survey time 0 (no limit) the Recv of the current survey returned %q after 1.15 s although nothing had arrived and nothing was cancelled", ev.err), e.Replay())
		}
	}
	e.InjectCanon(801, append(be32(0x80000001), 'l', 'a', 't', 'e'))
	got := false
	for _, ev := range splitEvents(lastObs(e)) {
		if ev.kind == "ret" && ev.call == rcv && ev.msg != nil {
			got = true
		}
	}
	if !got && !e.broken {
		c.Violate(fmt.Sprintf("SURVEYOR: with survey time 0 (no limit) a response arriving 1.15 s after the survey was not delivered to the waiting Recv: %s", lastObs(e)), e.Replay())
	}
	e.Finish()
}

// directed: a response that arrived in time but was not read before the survey expired is gone with the survey — a Recv
// issued long after expiry fails with the protocol-state error instead of handing it out (socket and opened context)
func runSurveyQueuedResponseAfterExpiry(c *Ctx, ctx int) {
	e := NewExec(c, "m.surv", surveyor.NewProtocol(), "surveyor")
	e.timed, e.canonIDs = true, true
	e.AddPipe(801)
	if ctx != 0 {
		e.OpenCtx(ctx)
	}
	e.SetOpt(ctx, mangos.OptionSurveyTime, "60", 60*time.Millisecond)
	e.Send(ctx, nil, []byte{'Q', 1})
	if !e.idKnown {
		e.Finish()
		return
	}
	t0 := time.Now()
	e.InjectCanon(801, append(be32(0x80000001), 'A', '1'))
	e.InjectCanon(801, append(be32(0x80000001), 'A', '2'))
	e.Sleep(750)
	for k := 0; k < 2 && !e.broken; k++ {
		id := e.Recv(ctx)
		for _, ev := range splitEvents(lastObs(e)) {
			if ev.kind == "ret" && ev.call == id && ev.msg != nil {
				c.Violate(fmt.Sprintf("SURVEYOR: Recv issued %v after the survey started (survey time 60 ms) returned the response %q, which had arrived in time but was not read before the survey expired; expected the protocol-state error", time.Since(t0).Round(time.Millisecond), ev.msg), e.Replay())
			}
		}
	}
	e.Finish()
}

func runC07(c *Ctx) {
	c.Rep.Rule = "random histories on a real surveyor protocol instance through virtual pipes with a 60 ms survey time: surveys on 1-3 contexts, responses carrying the current / an earlier / another context's / a never-issued id, ids without the request bit, short bodies, Recv before and after expiry (real sleeps), slow and failing respondents; " +
		"ids canonicalised to 0x80000000|k; every operation (with the monotonic clock) is checked against the Lean machine whose timers may fire once due and must have fired once overdue; class = (operation, shape of outcome)"
	n := 40
	if c.Thorough() {
		n = 600
	}
	for i := 0; i < n; i++ {
		runSurveyorScenario(c, 45, false)
	}
	for i := 0; i < n/8+2; i++ {
		runSurveyorScenario(c, 25, true) // an accepted survey time of zero means no limit
	}
	runSurveyNoLimitOutlastsDefault(c)
	runSurveyQueuedResponseAfterExpiry(c, 0)
	runSurveyQueuedResponseAfterExpiry(c, 1)
	// raw SURVEYOR: no survey state, but every connected respondent is sent each survey, queue space permitting
	// "each RESPONDENT answer reaches only the surveyor that asked": the reply-side machine of C05 on the two respondent flavours
	for i := 0; i < n/2; i++ {
		for _, fl := range repFlavors {
			if fl.name == "respondent" || fl.name == "xrespondent" {
				runRepScenario(c, fl, 50)
			}
		}
	}
	for i := 0; i < n; i++ {
		runFanoutScenario(c, "XSURVEYOR", "respondent", xsurveyor.NewProtocol(), be32(0x80000000|uint32(i+1)), false, 40)
	}
}
