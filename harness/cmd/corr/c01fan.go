package main

// C01 under partial failure: a PUB socket fans each message out to two raw subscribers (an independent WebSocket
// client / a raw TCP peer speaking the SP mapping).  Both stall, so messages pile up inside the library; one of them is
// then reset, so the library's writes to it fail while the same messages are still queued for the other.  What the
// surviving subscriber finally reads must be whole, unmixed copies of messages that were sent, each at most once and in
// the order sent ("never split, merged, truncated, padded or mixed with another message").

import (
	"bytes"
	"encoding/binary"
	"fmt"
	"io"
	"net"
	"strings"
	"time"

	"github.com/gorilla/websocket"
	"go.nanomsg.org/mangos/v3"
	"go.nanomsg.org/mangos/v3/protocol/pub"

	"verifharness/vp"
)

type rawSub interface {
	next(d time.Duration) ([]byte, bool) // one whole message, or false when nothing arrives for d
	reset()
}

type wsRaw struct{ c *websocket.Conn }

func (w *wsRaw) next(d time.Duration) ([]byte, bool) {
	_ = w.c.SetReadDeadline(time.Now().Add(d))
	_, b, err := w.c.ReadMessage()
	return b, err == nil
}
func (w *wsRaw) reset() { _ = w.c.UnderlyingConn().Close() }

type tcpRaw struct{ c net.Conn }

func (t *tcpRaw) next(d time.Duration) ([]byte, bool) {
	_ = t.c.SetReadDeadline(time.Now().Add(d))
	var l [8]byte
	if _, err := io.ReadFull(t.c, l[:]); err != nil {
		return nil, false
	}
	n := binary.BigEndian.Uint64(l[:])
	if n > 1<<24 {
		return nil, false
	}
	b := make([]byte, n)
	_ = t.c.SetReadDeadline(time.Now().Add(2 * time.Second))
	if _, err := io.ReadFull(t.c, b); err != nil {
		return nil, false
	}
	return b, true
}
func (t *tcpRaw) reset() {
	if tc, ok := t.c.(*net.TCPConn); ok {
		_ = tc.SetLinger(0)
	}
	_ = t.c.Close()
}

func fanMsg(seq, size int) []byte {
	b := patterned(uint64(seq)*7919+13, size)
	binary.BigEndian.PutUint32(b, uint32(seq))
	return b
}

func runFanoutPartialFailure(c *Ctx) {
	// more than the kernel's socket buffers and the library's per-subscriber queue (128) hold together
	const size, first, more = 60000, 260, 40
	for _, scheme := range []string{"ws", "tcp", "ws", "tcp", "ws", "tcp"} { // where the two connections stall relative to each other varies from run to run
		p, _ := pub.NewSocket()
		_ = p.SetOption(mangos.OptionWriteQLen, 128)
		var l mangos.Listener
		var err error
		if scheme == "ws" {
			l, err = p.NewListener("ws://127.0.0.1:0/fan", nil)
		} else {
			l, err = p.NewListener("tcp://127.0.0.1:0", nil)
		}
		if err == nil {
			err = l.Listen()
		}
		if err != nil {
			_ = p.Close()
			continue
		}
		mk := func() rawSub {
			if scheme == "ws" {
				d := websocket.Dialer{Subprotocols: []string{"pub.sp.nanomsg.org"}, HandshakeTimeout: 2 * time.Second}
				cn, _, err := d.Dial(l.Address(), nil)
				if err != nil {
					return nil
				}
				return &wsRaw{cn}
			}
			cn, err := net.Dial("tcp", strings.TrimPrefix(l.Address(), "tcp://"))
			if err != nil {
				return nil
			}
			_, _ = cn.Write([]byte{0, 'S', 'P', 0, 0, byte(mangos.ProtoSub), 0, 0})
			hdr := make([]byte, 8)
			_ = cn.SetReadDeadline(time.Now().Add(2 * time.Second))
			if _, err := io.ReadFull(cn, hdr); err != nil {
				return nil
			}
			return &tcpRaw{cn}
		}
		keep, victim := mk(), mk()
		if keep == nil || victim == nil {
			_ = p.Close()
			continue
		}
		time.Sleep(60 * time.Millisecond)
		for i := 1; i <= first; i++ {
			_ = p.Send(fanMsg(i, size))
		}
		// the subscriber that is about to fail has read a little: the message its connection is stuck on is one the other
		// subscriber has not been sent yet
		for i := 0; i < 15; i++ {
			if _, ok := victim.next(300 * time.Millisecond); !ok {
				break
			}
		}
		time.Sleep(50 * time.Millisecond)
		victim.reset() // the library's writes to this subscriber start failing; the other one's copies are still queued
		time.Sleep(80 * time.Millisecond)
		// every free buffer of this size class is taken out of the message pool and written over: a message the library
		// released while it was still queued for the surviving subscriber would now carry these bytes
		var held []*mangos.Message
		scribble := bytes.Repeat([]byte{0xEE}, size)
		for k := 0; k < 700; k++ {
			m := mangos.NewMessage(size)
			m.Body = append(m.Body, scribble...)
			held = append(held, m)
		}
		for i := first + 1; i <= first+more; i++ {
			_ = p.Send(fanMsg(i, size))
			time.Sleep(time.Millisecond)
		}
		// the survivor now reads everything that was kept for it
		last, n := 0, 0
		bad := ""
		for {
			b, ok := keep.next(400 * time.Millisecond)
			if !ok {
				break
			}
			n++
			if len(b) != size {
				bad = fmt.Sprintf("message %d has %d bytes, every message sent had %d", n, len(b), size)
				break
			}
			seq := int(binary.BigEndian.Uint32(b))
			if seq < 1 || seq > first+more || string(b) != string(fanMsg(seq, size)) {
				bad = fmt.Sprintf("message %d (numbered %d) is not a message that was sent: bytes beginning %.16x", n, seq, b)
				break
			}
			if seq <= last {
				bad = fmt.Sprintf("message number %d arrived after number %d (duplicated or reordered)", seq, last)
				break
			}
			last = seq
		}
		class := "fanout-partial-failure " + scheme
		c.Class(class, true)
		obs := "intact"
		if bad != "" {
			obs = "corrupted"
		}
		c.T.Line(class, fmt.Sprintf("wire.fit 0 %d", size), map[string]string{"intact": "delivered", "corrupted": "lost"}[obs])
		if bad != "" {
			c.Violate(fmt.Sprintf("PUB over %s with two stalled subscribers, one of which was reset: the surviving subscriber read %d messages, then: %s", scheme, n, bad),
				map[string]interface{}{"transport": scheme, "size": size, "sent": first + more, "read": n, "detail": bad, "note": vp.Hex([]byte(scheme))})
		}
		for _, m := range held {
			m.Free()
		}
		_ = p.Close()
	}
}
