package main

import (
	"crypto/tls"
	"fmt"
	"os"
	"reflect"
	"strings"
	"time"

	"go.nanomsg.org/mangos/v3"
	"go.nanomsg.org/mangos/v3/protocol/bus"
	"go.nanomsg.org/mangos/v3/protocol/pair"
	"go.nanomsg.org/mangos/v3/protocol/pair1"
	"go.nanomsg.org/mangos/v3/protocol/pub"
	"go.nanomsg.org/mangos/v3/protocol/pull"
	"go.nanomsg.org/mangos/v3/protocol/push"
	"go.nanomsg.org/mangos/v3/protocol/rep"
	"go.nanomsg.org/mangos/v3/protocol/req"
	"go.nanomsg.org/mangos/v3/protocol/respondent"
	"go.nanomsg.org/mangos/v3/protocol/star"
	"go.nanomsg.org/mangos/v3/protocol/sub"
	"go.nanomsg.org/mangos/v3/protocol/surveyor"
	"go.nanomsg.org/mangos/v3/protocol/xbus"
	"go.nanomsg.org/mangos/v3/protocol/xpair"
	"go.nanomsg.org/mangos/v3/protocol/xpair1"
	"go.nanomsg.org/mangos/v3/protocol/xpub"
	"go.nanomsg.org/mangos/v3/protocol/xpull"
	"go.nanomsg.org/mangos/v3/protocol/xpush"
	"go.nanomsg.org/mangos/v3/protocol/xrep"
	"go.nanomsg.org/mangos/v3/protocol/xreq"
	"go.nanomsg.org/mangos/v3/protocol/xrespondent"
	"go.nanomsg.org/mangos/v3/protocol/xstar"
	"go.nanomsg.org/mangos/v3/protocol/xsub"
	"go.nanomsg.org/mangos/v3/protocol/xsurveyor"
)

func init() { props["C19"] = runC19 }

type sockKind struct {
	name             string
	mk               func() (mangos.Socket, error)
	mkP              func() mangos.ProtocolBase
	hasCtx           bool
	canSend, canRecv bool
	raw              bool
}

var allSocks = []sockKind{
	{"bus", bus.NewSocket, bus.NewProtocol, false, true, true, false}, {"xbus", xbus.NewSocket, xbus.NewProtocol, false, true, true, true},
	{"pair", pair.NewSocket, pair.NewProtocol, false, true, true, false}, {"xpair", xpair.NewSocket, xpair.NewProtocol, false, true, true, true},
	{"pair1", pair1.NewSocket, pair1.NewProtocol, false, true, true, false}, {"xpair1", xpair1.NewSocket, xpair1.NewProtocol, false, true, true, true},
	{"pub", pub.NewSocket, pub.NewProtocol, false, true, false, false}, {"xpub", xpub.NewSocket, xpub.NewProtocol, false, true, false, true},
	{"sub", sub.NewSocket, sub.NewProtocol, true, false, true, false}, {"xsub", xsub.NewSocket, xsub.NewProtocol, false, false, true, true},
	{"push", push.NewSocket, push.NewProtocol, false, true, false, false}, {"xpush", xpush.NewSocket, xpush.NewProtocol, false, true, false, true},
	{"pull", pull.NewSocket, pull.NewProtocol, false, false, true, false}, {"xpull", xpull.NewSocket, xpull.NewProtocol, false, false, true, true},
	{"req", req.NewSocket, req.NewProtocol, true, true, true, false}, {"xreq", xreq.NewSocket, xreq.NewProtocol, false, true, true, true},
	{"rep", rep.NewSocket, rep.NewProtocol, true, true, true, false}, {"xrep", xrep.NewSocket, xrep.NewProtocol, false, true, true, true},
	{"surveyor", surveyor.NewSocket, surveyor.NewProtocol, true, true, true, false}, {"xsurveyor", xsurveyor.NewSocket, xsurveyor.NewProtocol, false, true, true, true},
	{"respondent", respondent.NewSocket, respondent.NewProtocol, true, true, true, false}, {"xrespondent", xrespondent.NewSocket, xrespondent.NewProtocol, false, true, true, true},
	{"star", star.NewSocket, star.NewProtocol, false, true, true, false}, {"xstar", xstar.NewSocket, xstar.NewProtocol, false, true, true, true},
}

type optVal struct {
	ty, lean string
	v        interface{}
}

var optValues = []optVal{
	{"int", "-9223372036854775808", int(-9223372036854775808)}, {"int", "-1", -1}, {"int", "0", 0}, {"int", "1", 1}, {"int", "2", 2},
	{"int", "255", 255}, {"int", "256", 256}, {"int", "9223372036854775807", int(9223372036854775807)},
	{"dur", "-1", time.Duration(-1)}, {"dur", "0", time.Duration(0)}, {"dur", "1", time.Duration(1)}, {"dur", "3600000000000", time.Hour},
	{"bool", "true", true}, {"bool", "false", false},
	{"string", "x", "text"}, {"nil", "x", nil}, {"[]byte", "x", []byte("ab")}, {"uint8", "x", uint8(3)}, {"int64", "x", int64(3)}, {"float64", "x", 1.5},
}

var optNames = []string{
	mangos.OptionRaw, mangos.OptionRecvDeadline, mangos.OptionSendDeadline, mangos.OptionRetryTime, mangos.OptionSubscribe, mangos.OptionUnsubscribe,
	mangos.OptionSurveyTime, mangos.OptionTLSConfig, mangos.OptionWriteQLen, mangos.OptionReadQLen, mangos.OptionKeepAlive, mangos.OptionKeepAliveTime,
	mangos.OptionNoDelay, mangos.OptionLinger, mangos.OptionTTL, mangos.OptionMaxRecvSize, mangos.OptionReconnectTime, mangos.OptionMaxReconnectTime,
	mangos.OptionBestEffort, mangos.OptionLocalAddr, mangos.OptionRemoteAddr, mangos.OptionTLSConnState, mangos.OptionHTTPRequest, mangos.OptionDialAsynch,
	mangos.OptionPeerPID, mangos.OptionPeerUID, mangos.OptionPeerGID, mangos.OptionPeerZone, mangos.OptionFailNoPeers,
	"", "bogus", "ttl", "TTL ", "READQ_LEN", "raw", "RECV-DEADLINE\x00", "Ünïcode", "WRITEQ-LEN2",
}

type optTarget interface {
	SetOption(string, interface{}) error
	GetOption(string) (interface{}, error)
}

// setSafely calls SetOption; a panic is reported as the outcome "panic"
func setSafely(t optTarget, name string, v interface{}) (res string) {
	defer func() {
		if r := recover(); r != nil {
			res = fmt.Sprintf("panic:%v", r)
		}
	}()
	done := make(chan string, 1)
	go func() {
		defer func() {
			if r := recover(); r != nil {
				done <- fmt.Sprintf("panic:%v", r)
			}
		}()
		e := t.SetOption(name, v)
		switch e {
		case nil:
			done <- "ok"
		case mangos.ErrBadValue:
			done <- "badvalue"
		case mangos.ErrBadOption:
			done <- "badoption"
		default:
			done <- "other:" + e.Error()
		}
	}()
	select {
	case r := <-done:
		return r
	case <-time.After(2 * time.Second):
		return "hang"
	}
}

func crossProduct(c *Ctx, kind, pkg string, mk func() (optTarget, func())) {
	for _, name := range optNames {
		if name == mangos.OptionSubscribe || name == mangos.OptionUnsubscribe {
			continue // accept []byte or string with their own semantics (C06)
		}
		for _, ov := range optValues {
			t, cleanup := mk()
			if t == nil {
				return
			}
			res := setSafely(t, name, ov.v)
			class := fmt.Sprintf("%s %s %q %s -> %s", kind, pkg, name, ov.ty, strings.SplitN(res, ":", 2)[0])
			c.Class(class, res != "badoption")
			lhs := fmt.Sprintf("opt.set %s %s %s %s %s", kind, pkg, hexName(name), ov.ty, ov.lean)
			if !strings.HasPrefix(res, "panic") && res != "hang" {
				c.T.Line(class, lhs, res) // a panic or hang is reported by the oracle below, not compared with the table
			}
			if strings.HasPrefix(res, "panic") || res == "hang" {
				c.Violate(fmt.Sprintf("SetOption(%q, %v(%v)) on %s %s: %s (no option call may panic or hang)", name, ov.ty, ov.v, pkg, kind, res),
					map[string]interface{}{"object": kind + ":" + pkg, "option": name, "type": ov.ty, "value": ov.lean})
			}
			if res == "ok" && (ov.ty == "int" || ov.ty == "dur" || ov.ty == "bool") {
				got, err := t.GetOption(name)
				if err != nil || !reflect.DeepEqual(got, ov.v) {
					c.Violate(fmt.Sprintf("%s %s: SetOption(%q, %v) was accepted but GetOption returns %v (%v)", pkg, kind, name, ov.v, got, err),
						map[string]interface{}{"object": kind + ":" + pkg, "option": name, "value": ov.lean})
				}
			}
			cleanup()
		}
	}
}

// option names travel through the line protocol as words: non-alphanumerics are escaped
func hexName(n string) string {
	ok := n != ""
	for _, r := range n {
		if !(r >= 'A' && r <= 'Z' || r >= 'a' && r <= 'z' || r >= '0' && r <= '9' || r == '-' || r == '_') {
			ok = false
		}
	}
	if ok {
		return n
	}
	return fmt.Sprintf("hex_%x", n)
}

type tranKind struct {
	lean string
	addr string
	tls  bool
}

var tranKinds = []tranKind{
	{"tcp", "tcp://127.0.0.1:0", false}, {"tlstcp", "tls+tcp://127.0.0.1:0", true}, {"ipc", "ipc://" + os.TempDir() + "/verif-c19.sock", false},
	{"ws", "ws://127.0.0.1:0/x", false}, {"inproc", "inproc://verif-c19", false},
}

func runC19(c *Ctx) {
	runRefusedDeviceHasNoEffect(c)
	runLimitConfig(c) // an accepted MaxRecvSize takes effect by whatever route it was configured, on every transport
	c.Rep.Rule = "cross product: every option name (all documented constants, transport-specific names, arbitrary strings) x 20 values (ints min,-1,0,1,2,255,256,max; durations -1,0,1ns,1h; bools; string, nil, []byte, uint8, int64, float64) x every object (24 sockets, contexts of the 5 patterns that have them, dialers and listeners of 5 transports), each call under recover with a watchdog, result class compared with the Lean option table evaluated over the regenerated guards; " +
		"plus unsupported operations, option inheritance, zero-duration semantics and queue resizing with a blocked receiver; class = (object, option, value type, outcome); trivial = an unsupported option refused as such"
	for _, sk := range allSocks {
		sk := sk
		crossProduct(c, "sock", sk.name, func() (optTarget, func()) {
			s, err := sk.mk()
			if err != nil {
				return nil, nil
			}
			return s, func() { _ = s.Close() }
		})
		if sk.hasCtx {
			crossProduct(c, "ctx", sk.name, func() (optTarget, func()) {
				s, _ := sk.mk()
				cx, err := s.OpenContext()
				if err != nil {
					_ = s.Close()
					return nil, nil
				}
				return cx, func() { _ = cx.Close(); _ = s.Close() }
			})
		}
	}
	for _, tk := range tranKinds {
		tk := tk
		crossProduct(c, "dialer", tk.lean, func() (optTarget, func()) {
			s, _ := pair.NewSocket()
			d, err := s.NewDialer(tk.addr, nil)
			if err != nil {
				_ = s.Close()
				return nil, nil
			}
			return d, func() { _ = s.Close() }
		})
		crossProduct(c, "listener", tk.lean, func() (optTarget, func()) {
			s, _ := pair.NewSocket()
			l, err := s.NewListener(tk.addr, nil)
			if err != nil {
				_ = s.Close()
				return nil, nil
			}
			return l, func() { _ = s.Close() }
		})
	}
	_ = tls.Config{}
	c19Semantics(c)
	c19CheckOrigin(c)
	runResizeKeepsDeadline(c)
	// an accepted READQ-LEN stays in force through everything that re-creates a queue (SUB replaces its queue on every
	// Unsubscribe and resize; contexts inherit the socket's length): the SUB machine of C06 with its small queue lengths
	n := 15
	if c.Thorough() {
		n = 300
	}
	for i := 0; i < n; i++ {
		runSubScenario(c, 40)
	}
}
