// corr: correspondence harness.  Drives the real mangos implementation (built from /repo with
// -tags verif) on generated inputs and writes (a) a trace for the Lean driver, (b) the verdicts of
// the property oracles evaluated directly on the observations, (c) coverage statistics.
package main

import (
	"encoding/json"
	"flag"
	"fmt"
	"os"
	"path/filepath"
	"regexp"
	"sort"
	"time"

	"go.nanomsg.org/mangos/v3"

	"verifharness/vp"
)

type Violation struct {
	What   string      `json:"what"`
	Replay interface{} `json:"replay"`
}

type Report struct {
	Property   string         `json:"property"`
	Tier       string         `json:"tier"`
	Seed       uint64         `json:"seed"`
	Evals      int            `json:"evaluations"`
	Distinct   int            `json:"distinct_nontrivial"`
	Rule       string         `json:"rule"`
	Samples    []string       `json:"samples"`
	Classes    map[string]int `json:"distribution"`
	Violations []Violation    `json:"violations"`
	Exhaustive bool           `json:"exhaustive"`
	WallS      float64        `json:"wall_s"`
	Notes      []string       `json:"notes,omitempty"`
}

type Ctx struct {
	Tier   string
	Seed   uint64
	Out    string
	R      *vp.Rand
	T      *vp.Trace
	Rep    *Report
	Replay string // replay file to re-run instead of generating
	vcount map[string]int
}

func (c *Ctx) Thorough() bool { return c.Tier == "thorough" }

var digitRe = regexp.MustCompile(`[0-9]+`)

func (c *Ctx) Violate(what string, replay interface{}) {
	if r, ok := replay.(map[string]interface{}); ok {
		if st, _ := r["stalled"].(bool); st {
			// reported from a timed scenario whose clock stopped being faithful (Exec.stallCheck): not judged
			c.Rep.Notes = append(c.Rep.Notes, "dropped (harness stalled): "+what)
			return
		}
	}
	// keep at most 3 reports of the same shape (numbers abstracted) so that one recurring
	// finding cannot crowd out a different one
	key := digitRe.ReplaceAllString(what, "N")
	if c.vcount == nil {
		c.vcount = map[string]int{}
	}
	c.vcount[key]++
	if c.vcount[key] <= 3 && len(c.Rep.Violations) < 300 {
		c.Rep.Violations = append(c.Rep.Violations, Violation{what, replay})
	}
	if c.vcount[key] <= 5 {
		fmt.Printf("ORACLE-VIOLATION %s: %s\n", c.Rep.Property, what)
	}
}

// Class registers a case under an abstraction class; nontrivial classes count towards distinct_nontrivial.
func (c *Ctx) Class(class string, nontrivial bool) {
	c.Rep.Evals++
	if nontrivial {
		c.Rep.Classes[class]++
	} else {
		c.Rep.Classes["trivial:"+class]++
	}
}

var props = map[string]func(*Ctx){}

func main() {
	tier := flag.String("tier", "quick", "quick|thorough")
	seed := flag.Uint64("seed", 1, "PRNG seed")
	out := flag.String("out", "", "output directory")
	replay := flag.String("replay", "", "replay file")
	flag.Parse()
	if flag.NArg() != 1 {
		fmt.Fprintln(os.Stderr, "usage: corr [-tier t] [-seed n] -out dir <property>")
		os.Exit(2)
	}
	prop := flag.Arg(0)
	f, ok := props[prop]
	if !ok {
		fmt.Fprintln(os.Stderr, "corr: unknown property", prop)
		os.Exit(2)
	}
	if *out == "" {
		fmt.Fprintln(os.Stderr, "corr: -out required")
		os.Exit(2)
	}
	_ = os.MkdirAll(*out, 0o755)
	t, err := vp.NewTrace(filepath.Join(*out, "trace.txt"))
	if err != nil {
		fmt.Fprintln(os.Stderr, err)
		os.Exit(2)
	}
	c := &Ctx{Tier: *tier, Seed: *seed, Out: *out, R: vp.NewRand(*seed), T: t, Replay: *replay,
		Rep: &Report{Property: prop, Tier: *tier, Seed: *seed, Classes: map[string]int{}}}
	start := time.Now()
	switch prop {
	case "C01", "C02", "C03", "C04", "C05", "C06", "C07", "C08", "C09":
		// the delivery properties are about message contents: their scenarios run under the reference-count ledger
		mangos.VerifLedgerEnable(true)
		ledgerAll = true
	}
	f(c)
	if ledgerAll {
		ledgerCheckAs(c, "end of run", nil, "the library released or touched a message it no longer held")
	}
	c.Rep.WallS = time.Since(start).Seconds()
	_ = t.Close()
	n := 0
	for k := range c.Rep.Classes {
		if len(k) < 8 || k[:8] != "trivial:" {
			n++
		}
	}
	c.Rep.Distinct = n
	c.Rep.Samples = t.Samples
	if len(c.Rep.Samples) == 0 {
		c.Rep.Samples = []string{}
	}
	ks := make([]string, 0)
	for k := range c.Rep.Classes {
		ks = append(ks, k)
	}
	sort.Strings(ks)
	b, _ := json.MarshalIndent(c.Rep, "", " ")
	_ = os.WriteFile(filepath.Join(*out, "harness.json"), b, 0o644)
	fmt.Printf("corr %s: evaluations=%d distinct_nontrivial=%d oracle_violations=%d trace_lines=%d wall=%.1fs\n",
		prop, c.Rep.Evals, c.Rep.Distinct, len(c.Rep.Violations), t.Lines, c.Rep.WallS)
}
