package main

// C11 — sockets are safe for concurrent use.
// Runs the concurrent API stress program (cmd/racer, built with the Go race detector) as a child process, reads the
// race detector's reports, and maps the source locations of each report to struct fields through the access table of
// the static analysis (cmd/irgen -report).  Every report is a concrete unsynchronised pair of accesses: it is judged
// against the static verdict on that field (Obl/Lockset.lean) — a report on a field the analysis calls safe (or that
// is exempted with a happens-before argument) means the analysis or the exemption is wrong.  Deadlocks (watchdog)
// and panics in the stress program are violations as such.

import (
	"bufio"
	"encoding/json"
	"fmt"
	"os"
	"os/exec"
	"path/filepath"
	"regexp"
	"sort"
	"strings"
	"time"
)

func init() { props["C11"] = runC11 }

type irAccess struct {
	Kind     string `json:"kind"`
	Field    string `json:"field"`
	At       string `json:"at"`
	Function string `json:"function"`
	Write    bool   `json:"write"`
	Held     string `json:"held"`
	Detail   string `json:"detail"`
}

var raceLoc = regexp.MustCompile(`(?m)^\s+(/[^\s:]+\.go):(\d+)`)

func runC11(c *Ctx) {
	// several goroutines on one socket at the same instant: nothing accepted may be left behind
	runPushBurst(c)
	runPushBurstHeavy(c)
	runSubUnsubscribeRace(c)
	// calls of several goroutines sharing one socket do not disturb one another
	runReqRecvParkedBeforeScheduled(c, true)
	runReqRecvParkedBeforeScheduled(c, false)
	runConcurrentDeadlines(c)
	c.Rep.Rule = "concurrent API stress (10 goroutines per pair of connected sockets issuing Send, Recv, option get/set on sockets, contexts, dialers, listeners and pipes, OpenContext, Dial, Listen, pipe / context / socket Close) under the Go race detector for 16 pattern pairs x transports; class = (pattern, transport) completed, and one class per distinct racing field"
	self, _ := os.Executable()
	bin := filepath.Join(filepath.Dir(self), "racer")
	report := filepath.Join(filepath.Dir(self), "irgen-report.jsonl")
	if _, err := os.Stat(bin); err != nil {
		c.Violate("the race-detector build of the stress program (harness/bin/racer) is missing", nil)
		return
	}
	// static access table: position -> fields; field -> verdict
	byPos := map[string][]string{}
	flagged := map[string]string{}
	if f, err := os.Open(report); err == nil {
		sc := bufio.NewScanner(f)
		sc.Buffer(make([]byte, 1<<20), 1<<24)
		for sc.Scan() {
			var a irAccess
			if json.Unmarshal(sc.Bytes(), &a) != nil {
				continue
			}
			switch a.Kind {
			case "access":
				byPos[a.At] = append(byPos[a.At], a.Field)
			case "unprotected":
				flagged[a.Field] = a.Detail
			}
		}
		_ = f.Close()
	} else {
		c.Violate("the static access table (harness/bin/irgen-report.jsonl) is missing", nil)
		return
	}
	logBase := filepath.Join(c.Out, "race")
	cmd := exec.Command(bin, "-tier", c.Tier, "-seed", fmt.Sprint(c.Seed))
	cmd.Env = append(os.Environ(), "GORACE=log_path="+logBase+" halt_on_error=0 history_size=3")
	start := time.Now()
	out, err := cmd.CombinedOutput()
	text := string(out)
	for _, l := range strings.Split(text, "\n") {
		if strings.HasPrefix(l, "RACER-DONE ") {
			c.Class("stress "+strings.TrimPrefix(l, "RACER-DONE "), true)
			c.T.Line("stress", "race.run "+strings.ReplaceAll(strings.TrimPrefix(l, "RACER-DONE "), " ", "_"), "done")
		}
	}
	if i := strings.Index(text, "RACER-PROBLEM "); i >= 0 {
		msg := text[i:]
		if len(msg) > 3000 {
			msg = msg[:3000]
		}
		first := strings.SplitN(msg, "\n", 2)[0]
		c.Violate("concurrent use: "+strings.TrimPrefix(first, "RACER-PROBLEM "), map[string]interface{}{"output": msg, "how": "harness/bin/racer -tier " + c.Tier + " -seed " + fmt.Sprint(c.Seed)})
	}
	if err != nil && !strings.Contains(text, "RACER-END") {
		c.Violate(fmt.Sprintf("concurrent use: the stress program ended abnormally (%v) after %v", err, time.Since(start)), map[string]interface{}{"output": tailStr(text, 3000)})
	}
	// race reports
	logs, _ := filepath.Glob(logBase + ".*")
	type finding struct {
		field  string
		locs   []string
		sample string
		n      int
	}
	found := map[string]*finding{}
	for _, lf := range logs {
		b, err := os.ReadFile(lf)
		if err != nil {
			continue
		}
		for _, rep := range strings.Split(string(b), "WARNING: DATA RACE")[1:] {
			// the two access stacks are the first two blocks; take the innermost library frame of each
			blocks := strings.Split(rep, "\n\n")
			var locs []string
			for _, blk := range blocks {
				if len(locs) == 2 {
					break
				}
				head := strings.TrimSpace(strings.SplitN(strings.TrimSpace(blk), "\n", 2)[0])
				if !(strings.HasPrefix(head, "Read at") || strings.HasPrefix(head, "Write at") || strings.HasPrefix(head, "Previous read at") || strings.HasPrefix(head, "Previous write at") ||
					strings.HasPrefix(head, "Atomic") || strings.HasPrefix(head, "Previous atomic")) {
					continue
				}
				loc := "?"
				for _, m := range raceLoc.FindAllStringSubmatch(blk, -1) {
					if strings.HasPrefix(m[1], repoPrefix()) {
						loc = strings.TrimPrefix(m[1], repoPrefix()) + ":" + m[2]
						break
					}
				}
				locs = append(locs, loc)
			}
			if len(locs) < 2 {
				continue
			}
			// fields accessed at both locations
			fields := map[string]bool{}
			for _, f1 := range byPos[locs[0]] {
				for _, f2 := range byPos[locs[1]] {
					if f1 == f2 {
						fields[f1] = true
					}
				}
			}
			if len(fields) == 0 {
				// a sub-field of a struct held in a field, or something the table does not name: use the locations
				for _, f1 := range byPos[locs[0]] {
					fields[f1] = true
				}
				if len(fields) != 1 {
					fields = map[string]bool{"?" + locs[0] + "/" + locs[1]: true}
				}
			}
			sort.Strings(locs)
			for f := range fields {
				if found[f] == nil {
					found[f] = &finding{field: f, locs: locs, sample: "WARNING: DATA RACE" + tailHead(rep, 2500)}
				}
				found[f].n++
			}
		}
	}
	names := []string{}
	for f := range found {
		names = append(names, f)
	}
	sort.Strings(names)
	for _, f := range names {
		fd := found[f]
		verdict := "safe"
		if _, ok := flagged[f]; ok {
			verdict = "flagged"
		}
		c.Class("race on "+f+" (static: "+verdict+")", true)
		replay := map[string]interface{}{"field": f, "locations": fd.locs, "reports": fd.n, "race_detector_report": fd.sample,
			"how": "harness/bin/racer (go build -race) -tier " + c.Tier + " -seed " + fmt.Sprint(c.Seed) + " with GORACE=log_path=…"}
		if verdict == "safe" {
			c.Violate(fmt.Sprintf("data race (race detector) on %s at %s and %s, which the static lockset analysis does not flag", f, fd.locs[0], fd.locs[1]), replay)
		} else {
			c.Violate(fmt.Sprintf("data race: unsynchronised accesses to %s (race detector: %s and %s; static: no common mutex)", f, fd.locs[0], fd.locs[1]), replay)
		}
	}
	c.Rep.Notes = append(c.Rep.Notes, fmt.Sprintf("race detector: %d distinct racing fields; static analysis flags %d fields", len(found), len(flagged)))
}

func tailStr(s string, n int) string {
	if len(s) > n {
		return s[len(s)-n:]
	}
	return s
}
func tailHead(s string, n int) string {
	if len(s) > n {
		return s[:n]
	}
	return s
}

// repoPrefix: where the library's sources are (for mapping race reports to files): /repo, or $VERIF_REPO for a sweep over a copy
func repoPrefix() string {
	if r := os.Getenv("VERIF_REPO"); r != "" {
		return strings.TrimSuffix(r, "/") + "/"
	}
	return "/repo/"
}
