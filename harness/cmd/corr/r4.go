package main

// Directed scenarios added after the fourth round of seeded changes.  Each one belongs to the properties named in its
// comment and is called from their run functions.

import (
	"bytes"
	"fmt"
	"net"
	"strings"
	"sync"
	"time"

	"go.nanomsg.org/mangos/v3"
	"go.nanomsg.org/mangos/v3/protocol/bus"
	"go.nanomsg.org/mangos/v3/protocol/pair"
	"go.nanomsg.org/mangos/v3/protocol/pub"
	"go.nanomsg.org/mangos/v3/protocol/pull"
	"go.nanomsg.org/mangos/v3/protocol/push"
	"go.nanomsg.org/mangos/v3/protocol/rep"
	"go.nanomsg.org/mangos/v3/protocol/req"
	"go.nanomsg.org/mangos/v3/protocol/sub"
	"go.nanomsg.org/mangos/v3/protocol/xbus"
	"go.nanomsg.org/mangos/v3/protocol/xrep"
	"go.nanomsg.org/mangos/v3/protocol/xreq"
	"go.nanomsg.org/mangos/v3/protocol/xrespondent"
	"verifharness/vp"
)

func transportNamed(name string) e2eTransport {
	for _, t := range e2eTransports {
		if t.name == name {
			return t
		}
	}
	return e2eTransports[0]
}

var r4seq int

func r4addr(tr e2eTransport) string {
	r4seq++
	return tr.addr(9900 + r4seq)
}

// C01, C17 — fan-out ownership: what one receiver does to the message it was handed (RecvMsg, then work on the body in
// place over its whole capacity) must not change what another receiver of the same publication gets.  PUB to two SUBs
// and a BUS member to two others, over inproc (which hands messages over by reference where it can) and tcp.
func runFanoutOwnership(c *Ctx) {
	for _, trn := range []string{"inproc", "tcp"} {
		tr := transportNamed(trn)
		for _, kind := range []string{"pub", "bus"} {
			var tx mangos.Socket
			var rx [2]mangos.Socket
			if kind == "pub" {
				tx, _ = pub.NewSocket()
				for i := range rx {
					rx[i], _ = sub.NewSocket()
					_ = rx[i].SetOption(mangos.OptionSubscribe, []byte{})
				}
			} else {
				tx, _ = bus.NewSocket()
				for i := range rx {
					rx[i], _ = bus.NewSocket()
				}
			}
			closeAll := func() {
				_ = tx.Close()
				for _, s := range rx {
					_ = s.Close()
				}
			}
			_ = tx.SetOption(mangos.OptionSendDeadline, 2*time.Second)
			l, err := tx.NewListener(r4addr(tr), nil)
			if err != nil || l.Listen() != nil {
				closeAll()
				continue
			}
			ok := true
			for _, s := range rx {
				_ = s.SetOption(mangos.OptionRecvDeadline, 2*time.Second)
				if s.Dial(l.Address()) != nil {
					ok = false
				}
			}
			if !ok {
				closeAll()
				continue
			}
			time.Sleep(60 * time.Millisecond)
			for _, size := range []int{10, 1000, 9000, 70000} {
				want := patterned(uint64(size)*7+3, size)
				if tx.Send(append([]byte{}, want...)) != nil {
					break
				}
				class := fmt.Sprintf("fanout-ownership %s %s class=%d", kind, tr.name, lenClass(size))
				c.Class(class, true)
				m1, err := rx[0].RecvMsg()
				if err != nil {
					c.Violate(fmt.Sprintf("fan-out (%s over %s): the first receiver did not get the %d-byte message: %v", kind, tr.name, size, err), nil)
					break
				}
				first := bytes.Equal(m1.Body, want)
				// the first receiver owns its message: it may use the whole buffer
				b := m1.Body[:cap(m1.Body)]
				for i := range b {
					b[i] = 0xEE
				}
				m1.Free()
				m2, err := rx[1].RecvMsg()
				if err != nil {
					c.Violate(fmt.Sprintf("fan-out (%s over %s): the second receiver did not get the %d-byte message: %v", kind, tr.name, size, err), nil)
					break
				}
				second := bytes.Equal(m2.Body, want)
				got := append([]byte{}, m2.Body...)
				m2.Free()
				c.T.Line(class, fmt.Sprintf("wire.fit 0 %d", size), map[bool]string{true: "delivered", false: "lost"}[first && second])
				if !first {
					c.Violate(fmt.Sprintf("fan-out (%s over %s): the first receiver got a %d-byte message that is not what was sent", kind, tr.name, size), nil)
				}
				if !second {
					n := len(got)
					if n > 8 {
						n = 8
					}
					c.Violate(fmt.Sprintf("fan-out (%s over %s): one receiver worked on the %d-byte message it had received (RecvMsg, bytes overwritten in place) and the other receiver then got %d bytes beginning %x instead of what was sent: the receivers' messages share a buffer", kind, tr.name, size, len(got), got[:n]),
						map[string]interface{}{"transport": tr.name, "pattern": kind, "size": size})
				}
			}
			closeAll()
		}
	}
}

// C01, C17 — what Recv (the copying call) returned is the caller's for good: later traffic of any size must not change it.
// Sizes on both sides of every pool class, and exactly the largest one.
func runRecvKeepsBytes(c *Ctx) {
	for _, trn := range []string{"inproc", "tcp"} {
		tr := transportNamed(trn)
		a, _ := pair.NewSocket()
		b, _ := pair.NewSocket()
		for _, s := range []mangos.Socket{a, b} {
			_ = s.SetOption(mangos.OptionRecvDeadline, 2*time.Second)
			_ = s.SetOption(mangos.OptionSendDeadline, 2*time.Second)
		}
		l, err := a.NewListener(r4addr(tr), nil)
		if err != nil || l.Listen() != nil || b.Dial(l.Address()) != nil {
			_ = a.Close()
			_ = b.Close()
			continue
		}
		time.Sleep(50 * time.Millisecond)
		for _, size := range []int{300, 1024, 8192, 65535, 65536, 65537} {
			want := patterned(uint64(size)*11+5, size)
			if b.Send(want) != nil {
				break
			}
			kept, err := a.Recv()
			class := fmt.Sprintf("recv-keeps-bytes %s class=%d", tr.name, lenClass(size))
			c.Class(class, true)
			if err != nil || !bytes.Equal(kept, want) {
				c.Violate(fmt.Sprintf("Recv (%s): a %d-byte message did not arrive as sent (err=%v)", tr.name, size, err), nil)
				break
			}
			// more traffic in both directions, of sizes that are served from the message pools
			for _, other := range []int{20000, 9000, 60000, 500} {
				fill := bytes.Repeat([]byte{0x7A}, other)
				if b.Send(fill) == nil {
					if m, err := a.RecvMsg(); err == nil {
						m.Free()
					}
				}
				if a.Send(fill) == nil {
					if m, err := b.RecvMsg(); err == nil {
						m.Free()
					}
				}
			}
			ok := bytes.Equal(kept, want)
			c.T.Line(class, fmt.Sprintf("wire.fit 0 %d", size), map[bool]string{true: "delivered", false: "lost"}[ok])
			if !ok {
				i := 0
				for i < len(kept) && kept[i] == want[i] {
					i++
				}
				c.Violate(fmt.Sprintf("Recv (%s): the %d bytes returned by Recv changed while the caller was holding them (from offset %d on they read %#x…): the slice still refers to a buffer the library went on using", tr.name, size, i, kept[i]),
					map[string]interface{}{"transport": tr.name, "size": size})
			}
		}
		_ = a.Close()
		_ = b.Close()
	}
}

// C02 — "further connection attempts are refused … and succeed once the first peer has gone", with the paired socket on
// the dialing side: it dials two listeners; while the first peer is up the second connection is refused by the dialing
// socket itself; when the first peer goes away the second must get in (the dialer must have kept trying).
func runPairDialerSecond(c *Ctx) {
	for _, trn := range []string{"inproc", "tcp"} {
		tr := transportNamed(trn)
		a, _ := pair.NewSocket()
		b, _ := pair.NewSocket()
		x, _ := pair.NewSocket()
		for _, s := range []mangos.Socket{a, b, x} {
			_ = s.SetOption(mangos.OptionRecvDeadline, time.Second)
			_ = s.SetOption(mangos.OptionSendDeadline, time.Second)
			_ = s.SetOption(mangos.OptionReconnectTime, 10*time.Millisecond)
			_ = s.SetOption(mangos.OptionMaxReconnectTime, 20*time.Millisecond)
		}
		closeAll := func() { _ = a.Close(); _ = b.Close(); _ = x.Close() }
		lb, err1 := b.NewListener(r4addr(tr), nil)
		lx, err2 := x.NewListener(r4addr(tr), nil)
		if err1 != nil || err2 != nil || lb.Listen() != nil || lx.Listen() != nil {
			closeAll()
			continue
		}
		if a.Dial(lb.Address()) != nil {
			closeAll()
			continue
		}
		time.Sleep(40 * time.Millisecond)
		_ = a.SetOption(mangos.OptionDialAsynch, true)
		_ = a.Dial(lx.Address()) // refused by a itself for as long as b is its peer
		good := true
		for i := 0; i < 5 && good; i++ {
			time.Sleep(15 * time.Millisecond)
			msg := []byte(fmt.Sprintf("with-first-%d", i))
			got, err := func() ([]byte, error) {
				if err := a.Send(msg); err != nil {
					return nil, err
				}
				return b.Recv()
			}()
			good = err == nil && bytes.Equal(got, msg)
		}
		c.Class("pair-dialer-second established "+tr.name, true)
		if !good {
			c.Violate("pair (dialing side, "+tr.name+"): the established conversation was disturbed while a second connection was being refused", nil)
		}
		_ = b.Close()
		admitted := false
		for try := 0; try < 60 && !admitted; try++ {
			time.Sleep(25 * time.Millisecond)
			_ = a.SetOption(mangos.OptionSendDeadline, 50*time.Millisecond)
			if a.Send([]byte("second-peer")) != nil {
				continue
			}
			_ = x.SetOption(mangos.OptionRecvDeadline, 200*time.Millisecond)
			if got, err := x.Recv(); err == nil && string(got) == "second-peer" {
				admitted = true
			}
		}
		c.Class("pair-dialer-second readmit "+tr.name, true)
		if !admitted {
			c.Violate("pair (dialing side, "+tr.name+"): a PAIR socket dialled two listeners; after its first peer had gone the second one was not admitted within 1.5 s — the dialer whose connection had been refused locally did not keep trying",
				map[string]interface{}{"transport": tr.name, "scenario": "paired socket dials a second listener, first peer closes"})
		}
		closeAll()
	}
}

// C02, C11 — several goroutines Send on one idle PUSH socket at the same instant, a PULL peer connected and reading:
// every accepted message must arrive (a wake-up of the sender lost in the race leaves them in the queue).
func runPushBurst(c *Ctx) {
	rounds := 600
	if c.Thorough() {
		rounds = 3000
	}
	for _, trn := range []string{"inproc", "tcp"} {
		tr := transportNamed(trn)
		ps, _ := push.NewSocket()
		pl, _ := pull.NewSocket()
		_ = ps.SetOption(mangos.OptionSendDeadline, time.Second)
		_ = pl.SetOption(mangos.OptionRecvDeadline, 500*time.Millisecond)
		l, err := ps.NewListener(r4addr(tr), nil)
		if err != nil || l.Listen() != nil || pl.Dial(l.Address()) != nil {
			_ = ps.Close()
			_ = pl.Close()
			continue
		}
		time.Sleep(50 * time.Millisecond)
		const senders = 4
		bad := ""
		for r := 0; r < rounds && bad == ""; r++ {
			gate := make(chan struct{})
			var wg sync.WaitGroup
			errs := make([]error, senders)
			for g := 0; g < senders; g++ {
				wg.Add(1)
				go func(g int) {
					defer wg.Done()
					<-gate
					errs[g] = ps.Send([]byte{byte(r >> 8), byte(r), byte(g)})
				}(g)
			}
			close(gate)
			wg.Wait()
			seen := map[int]bool{}
			for len(seen) < senders {
				m, err := pl.Recv()
				if err != nil {
					break
				}
				if len(m) == 3 && int(m[0])<<8|int(m[1]) == r {
					seen[int(m[2])] = true
				}
			}
			for g := 0; g < senders; g++ {
				if errs[g] != nil {
					bad = fmt.Sprintf("round %d: Send of goroutine %d failed with %v although an idle peer was connected", r, g, errs[g])
				}
			}
			if bad == "" && len(seen) != senders {
				bad = fmt.Sprintf("round %d: %d goroutines sent at the same instant on an idle socket, all Sends succeeded, but only %d of the messages reached the connected, reading peer within 0.5 s", r, senders, len(seen))
			}
		}
		c.Class("push-burst "+tr.name, true)
		if bad != "" {
			c.Violate("push/pull ("+tr.name+", concurrent senders): "+bad, map[string]interface{}{"transport": tr.name, "senders": senders})
		}
		_ = ps.Close()
		_ = pl.Close()
	}
}

// C05, C12, C17 — a raw reply whose Send timed out under back-pressure is still the caller's, header included; sent again
// it goes to the connection its header names.  XREP and XRESPONDENT over virtual pipes: pipe 501 is slow (its queue of
// length 1 fills), pipe 502 is the connection whose id is the *second* routing word.
func runRawRetryAfterTimeout(c *Ctx) {
	type mk struct {
		name string
		new  func() mangos.ProtocolBase
	}
	for _, p := range []mk{{"xrep", func() mangos.ProtocolBase { return xrep.NewProtocol() }}, {"xrespondent", func() mangos.ProtocolBase { return xrespondent.NewProtocol() }}} {
		proto := p.new()
		net := &vp.Net{}
		_ = proto.SetOption(mangos.OptionWriteQLen, 1)
		_ = proto.SetOption(mangos.OptionSendDeadline, 40*time.Millisecond)
		slow := vp.NewVPipe(501, proto, net)
		slow.Hold = true
		other := vp.NewVPipe(502, proto, net)
		if slow.Attach() != nil || other.Attach() != nil {
			continue
		}
		hdr := append(append(be32(501), be32(502)...), be32(0x80000007)...)
		mkMsg := func(tag byte) *mangos.Message {
			m := mangos.NewMessage(8)
			m.Header = append(m.Header, hdr...)
			m.Body = append(m.Body, 'r', tag)
			return m
		}
		var timedOut *mangos.Message
		for i := 0; i < 4 && timedOut == nil; i++ {
			m := mkMsg(byte('0' + i))
			err := proto.SendMsg(m)
			if err == mangos.ErrSendTimeout {
				timedOut = m
			} else if err != nil {
				break
			}
		}
		c.Class("raw-retry-after-timeout "+p.name, true)
		if timedOut == nil {
			c.Violate(p.name+": with a peer that does not read and a send queue of length 1, no Send timed out within four messages", nil)
		} else {
			if !bytes.Equal(timedOut.Header, hdr) {
				c.Violate(fmt.Sprintf("%s: a Send that failed with a timeout gave the message back with header %x; the caller had passed %x (a retry is routed by what is left)", p.name, timedOut.Header, hdr),
					map[string]interface{}{"protocol": p.name, "history": "WRITEQ-LEN 1, SEND-DEADLINE 40ms, pipe 501 not reading, Sends to 501 until one times out"})
			}
			// the peer reads again; the caller retries the very same message
			slow.Hold = false
			for slow.Release(nil) {
			}
			vp.Quiesce()
			net.TakeTx()
			err := proto.SendMsg(timedOut)
			vp.Quiesce()
			var to501, to502 int
			var h501 []byte
			for _, tx := range net.TakeTx() {
				if bytes.Equal(tx.Body, timedOut.Body) || (len(tx.Body) == 2 && tx.Body[0] == 'r') {
					if tx.Pipe == 501 {
						to501++
						h501 = tx.Header
					}
					if tx.Pipe == 502 {
						to502++
					}
				}
			}
			if err != nil || to501 != 1 || to502 != 0 || !bytes.Equal(h501, hdr[4:]) {
				c.Violate(fmt.Sprintf("%s: the reply retried after a send timeout went %d time(s) to the connection its header names (header %x) and %d time(s) to another connection (err=%v); expected once, with header %x, and nowhere else", p.name, to501, h501, to502, err, hdr[4:]),
					map[string]interface{}{"protocol": p.name})
			}
		}
		_ = proto.Close()
		_ = slow.Close()
		_ = other.Close()
	}
}

// C05 — a raw reply for a client that has gone is discarded, also when other clients have connected since: it must not
// reach one of them.  XREP server; a REQ client asks and disconnects; a raw XREQ client (which sees whatever arrives)
// connects; the server then sends the reply for the first client.
func runRawReplyToGoneClient(c *Ctx) {
	rounds := 6
	if c.Thorough() {
		rounds = 30
	}
	for _, trn := range []string{"inproc", "tcp"} {
		tr := transportNamed(trn)
		srv, _ := xrep.NewSocket()
		_ = srv.SetOption(mangos.OptionRecvDeadline, time.Second)
		_ = srv.SetOption(mangos.OptionSendDeadline, time.Second)
		var mu sync.Mutex
		attached, detached := 0, 0
		srv.SetPipeEventHook(func(ev mangos.PipeEvent, p mangos.Pipe) {
			mu.Lock()
			if ev == mangos.PipeEventAttached {
				attached++
			}
			if ev == mangos.PipeEventDetached {
				detached++
			}
			mu.Unlock()
		})
		waitFor := func(f func() bool) bool {
			for i := 0; i < 200; i++ {
				mu.Lock()
				ok := f()
				mu.Unlock()
				if ok {
					return true
				}
				time.Sleep(5 * time.Millisecond)
			}
			return false
		}
		l, err := srv.NewListener(r4addr(tr), nil)
		if err != nil || l.Listen() != nil {
			_ = srv.Close()
			continue
		}
		bad := ""
		for r := 0; r < rounds && bad == ""; r++ {
			c1, _ := req.NewSocket()
			_ = c1.SetOption(mangos.OptionSendDeadline, time.Second)
			if c1.Dial(l.Address()) != nil || c1.Send([]byte{'q', byte(r)}) != nil {
				_ = c1.Close()
				break
			}
			m, err := srv.RecvMsg()
			if err != nil {
				_ = c1.Close()
				break
			}
			mu.Lock()
			a0, d0 := attached, detached
			mu.Unlock()
			_ = c1.Close()
			if !waitFor(func() bool { return detached > d0 }) {
				m.Free()
				break
			}
			c2, _ := xreq.NewSocket()
			_ = c2.SetOption(mangos.OptionRecvDeadline, 150*time.Millisecond)
			if c2.Dial(l.Address()) != nil || !waitFor(func() bool { return attached > a0 }) {
				_ = c2.Close()
				m.Free()
				break
			}
			m.Body = append(m.Body[:0], 'o', 'l', 'd', byte(r))
			_ = srv.SendMsg(m)
			if got, err := c2.RecvMsg(); err == nil {
				bad = fmt.Sprintf("round %d: the reply to a client that had disconnected (body %q) was delivered to a client that connected afterwards", r, got.Body)
				got.Free()
			}
			_ = c2.Close()
			waitFor(func() bool { return detached > d0+1 })
		}
		c.Class("raw-reply-to-gone-client "+tr.name, true)
		if bad != "" {
			c.Violate("xrep ("+tr.name+"): "+bad, map[string]interface{}{"transport": tr.name})
		}
		_ = srv.Close()
	}
}

// C08, C17 — a raw BUS socket that is handed a message somebody else also holds (Clone) must leave that holder's message
// as it was: the origin header it strips for its own fan-out is still there for the other holder, who then forwards
// it on the socket it arrived on without echoing it to its origin.
func runSharedForward(c *Ctx) {
	proto := xbus.NewProtocol()
	net := &vp.Net{}
	p1 := vp.NewVPipe(601, proto, net)
	p2 := vp.NewVPipe(602, proto, net)
	if p1.Attach() != nil || p2.Attach() != nil {
		return
	}
	m := mangos.NewMessage(8)
	m.Header = append(m.Header, be32(601)...)
	m.Body = append(m.Body, 's', 'h', 'a', 'r', 'e', 'd')
	m.Clone() // a second holder (a bridge that passes the message to another socket as well)
	err1 := proto.SendMsg(m)
	vp.Quiesce()
	first := net.TakeTx()
	hdrAfter := append([]byte{}, m.Header...)
	err2 := proto.SendMsg(m) // the second holder forwards the same message on this socket
	vp.Quiesce()
	second := net.TakeTx()
	c.Class("shared-forward xbus", true)
	if !bytes.Equal(hdrAfter, be32(601)) {
		c.Violate(fmt.Sprintf("xbus: Send of a message that another holder shares (Clone) changed that holder's message: its header is %x, it was %x", hdrAfter, be32(601)),
			map[string]interface{}{"history": "raw BUS, pipes 601 and 602; message with header 00000259 cloned; SendMsg"})
	}
	for _, txs := range [][]vp.TxRec{first, second} {
		for _, tx := range txs {
			if tx.Pipe == 601 {
				c.Violate("xbus: a message that arrived on pipe 601 and was forwarded by two holders of the same (cloned) message was sent back to pipe 601", nil)
			}
		}
	}
	if err1 != nil || err2 != nil || len(first) != 1 || len(second) != 1 {
		c.Violate(fmt.Sprintf("xbus: forwarding a shared message twice: errors %v / %v, transmissions %d / %d (expected one each, to pipe 602)", err1, err2, len(first), len(second)), nil)
	}
	_ = proto.Close()
	_ = p1.Close()
	_ = p2.Close()
}

// C10 — closing a listener stops accepting and leaves everything else as it was: the connections it accepted keep working.
func runListenerCloseKeepsPipes(c *Ctx) {
	initTLS()
	for _, tr := range e2eTransports {
		srv, _ := rep.NewSocket()
		cli, _ := req.NewSocket()
		for _, s := range []mangos.Socket{srv, cli} {
			_ = s.SetOption(mangos.OptionRecvDeadline, time.Second)
			_ = s.SetOption(mangos.OptionSendDeadline, time.Second)
		}
		_ = cli.SetOption(mangos.OptionReconnectTime, 20*time.Millisecond)
		var mu sync.Mutex
		detached := 0
		srv.SetPipeEventHook(func(ev mangos.PipeEvent, p mangos.Pipe) {
			if ev == mangos.PipeEventDetached {
				mu.Lock()
				detached++
				mu.Unlock()
			}
		})
		lo, do := map[string]interface{}{}, map[string]interface{}{}
		if tr.tls {
			lo[mangos.OptionTLSConfig] = srvTLS
			do[mangos.OptionTLSConfig] = cliTLS
		}
		l, err := srv.NewListener(r4addr(tr), lo)
		if err != nil || l.Listen() != nil {
			_ = srv.Close()
			_ = cli.Close()
			continue
		}
		if cli.DialOptions(l.Address(), do) != nil {
			_ = srv.Close()
			_ = cli.Close()
			continue
		}
		round := func(tag string) error {
			if err := cli.Send([]byte(tag)); err != nil {
				return fmt.Errorf("request: %v", err)
			}
			q, err := srv.Recv()
			if err != nil {
				return fmt.Errorf("server receive: %v", err)
			}
			if err := srv.Send(append([]byte("re:"), q...)); err != nil {
				return fmt.Errorf("reply: %v", err)
			}
			a, err := cli.Recv()
			if err != nil || string(a) != "re:"+tag {
				return fmt.Errorf("client receive: %v %q", err, a)
			}
			return nil
		}
		time.Sleep(40 * time.Millisecond)
		class := "listener-close-keeps-pipes " + tr.name
		c.Class(class, true)
		if err := round("before"); err != nil {
			_ = srv.Close()
			_ = cli.Close()
			continue
		}
		cerr := l.Close()
		time.Sleep(60 * time.Millisecond)
		mu.Lock()
		det := detached
		mu.Unlock()
		err = round("after")
		obs := "kept"
		if det != 0 || err != nil {
			obs = "lost"
		}
		c10Line(c, class, "listener-close-keeps-pipes", obs)
		if det != 0 || err != nil {
			c.Violate(fmt.Sprintf("Listener.Close (%s): closing the listener (result %v) took the connection it had accepted with it: %d Detached event(s) on the listening socket, exchange afterwards: %v", tr.name, cerr, det, err),
				map[string]interface{}{"transport": tr.name, "history": "REP listens, REQ dials, one exchange, Listener.Close, one more exchange"})
		}
		_ = srv.Close()
		_ = cli.Close()
	}
}

// C10 — an inproc Dial that is waiting for the listener's accept loop returns when that listener (its socket) is closed.
func runInprocDialParkedAtClose(c *Ctx) {
	tr := transportNamed("inproc")
	srv, _ := pull.NewSocket()
	release := make(chan struct{})
	var once sync.Once
	entered := make(chan struct{})
	srv.SetPipeEventHook(func(ev mangos.PipeEvent, p mangos.Pipe) {
		if ev == mangos.PipeEventAttaching {
			once.Do(func() { close(entered) })
			<-release // the accept loop is busy with this connection
		}
	})
	l, err := srv.NewListener(r4addr(tr), nil)
	if err != nil || l.Listen() != nil {
		_ = srv.Close()
		return
	}
	c1, _ := push.NewSocket()
	c2, _ := push.NewSocket()
	go func() { _ = c1.Dial(l.Address()) }()
	select {
	case <-entered:
	case <-time.After(time.Second):
		close(release)
		_ = srv.Close()
		_ = c1.Close()
		_ = c2.Close()
		return
	}
	done := make(chan error, 1)
	go func() { done <- c2.Dial(l.Address()) }() // parks: the address is bound but nobody is accepting
	time.Sleep(60 * time.Millisecond)
	closed := make(chan struct{})
	go func() { _ = srv.Close(); close(closed) }()
	time.Sleep(30 * time.Millisecond)
	close(release)
	c.Class("inproc-dial-parked-at-close", true)
	obs := "returned"
	select {
	case <-done:
	case <-time.After(2 * time.Second):
		obs = "blocked"
		c.Violate("inproc: a Dial that was waiting for the listener to accept did not return within 2 s after the listening socket had been closed (the address no longer exists; the call has nothing left to wait for)",
			map[string]interface{}{"history": "PULL listens on inproc with an Attaching hook that keeps the accept loop busy; a second PUSH socket dials (parks); the PULL socket is closed"})
	}
	c10Line(c, "inproc-dial-parked-at-close", "dial-parked-at-close", obs)
	select {
	case <-closed:
	case <-time.After(2 * time.Second):
	}
	_ = c1.Close()
	go func() { _ = c2.Close() }()
}

// C10 — the same Dial, parked because the listener's accept loop is busy, ends when the *dialling* socket is closed:
// its Close returns, the Dial returns, and no goroutine of the dialling side remains although the listener is still not
// accepting.
func runInprocDialParkedAtOwnClose(c *Ctx) {
	tr := transportNamed("inproc")
	srv, _ := pull.NewSocket()
	release := make(chan struct{})
	var once sync.Once
	entered := make(chan struct{})
	srv.SetPipeEventHook(func(ev mangos.PipeEvent, p mangos.Pipe) {
		if ev == mangos.PipeEventAttaching {
			once.Do(func() { close(entered) })
			<-release // the accept loop is busy with this connection
		}
	})
	l, err := srv.NewListener(r4addr(tr), nil)
	if err != nil || l.Listen() != nil {
		_ = srv.Close()
		return
	}
	c1, _ := push.NewSocket()
	c2, _ := push.NewSocket()
	go func() { _ = c1.Dial(l.Address()) }()
	select {
	case <-entered:
	case <-time.After(time.Second):
		close(release)
		_ = srv.Close()
		_ = c1.Close()
		_ = c2.Close()
		return
	}
	done := make(chan error, 1)
	go func() { done <- c2.Dial(l.Address()) }() // parks: the address is bound but nobody is accepting
	time.Sleep(60 * time.Millisecond)
	closed := make(chan struct{})
	go func() { _ = c2.Close(); close(closed) }()
	obs := "returned"
	select {
	case <-done:
	case <-time.After(2 * time.Second):
		obs = "blocked"
	}
	select {
	case <-closed:
	case <-time.After(2 * time.Second):
		obs = "blocked"
	}
	// the dialling side's goroutines: everything of the library that is not the listener's accept loop held by the hook
	left := []string{}
	if obs == "returned" {
		for i := 0; i < 100; i++ {
			left = left[:0]
			for _, g := range vp.LibGoroutines() {
				if strings.Contains(g, "dialer") || strings.Contains(g, "Dial") {
					left = append(left, g)
				}
			}
			if len(left) == 0 {
				break
			}
			time.Sleep(20 * time.Millisecond)
		}
	}
	c.Class("inproc-dial-parked-at-own-close", true)
	if obs != "returned" || len(left) > 0 {
		c.Violate(fmt.Sprintf("inproc: a Dial waiting for the listener to accept (its accept loop is held up) did not end with its own socket: %s 2 s after Socket.Close of the dialling socket; dialling goroutines left: %v", obs, left),
			map[string]interface{}{"history": "PULL listens on inproc with an Attaching hook that keeps the accept loop busy; a second PUSH socket dials (parks); that PUSH socket is closed", "goroutines": left})
		obs = "blocked"
	}
	c10Line(c, "inproc-dial-parked-at-own-close", "dial-parked-at-close", obs)
	close(release)
	_ = c1.Close()
	_ = srv.Close()
	c10settle()
}

// C16 — a peer that connects and then says nothing (no TLS hello, no WebSocket upgrade, no SP header) must not keep a
// well-behaved peer out: every stream transport, a real listener, a raw silent connection, then a real dialer.
func runSilentPeerDoesNotDelayOthers(c *Ctx) {
	initTLS()
	for _, tr := range e2eTransports {
		if tr.name == "inproc" {
			continue
		}
		rx, _ := pull.NewSocket()
		tx, _ := push.NewSocket()
		_ = rx.SetOption(mangos.OptionRecvDeadline, 2*time.Second)
		_ = tx.SetOption(mangos.OptionSendDeadline, 2*time.Second)
		lo, do := map[string]interface{}{}, map[string]interface{}{}
		if tr.tls {
			lo[mangos.OptionTLSConfig] = srvTLS
			do[mangos.OptionTLSConfig] = cliTLS
		}
		l, err := rx.NewListener(r4addr(tr), lo)
		if err != nil || l.Listen() != nil {
			_ = rx.Close()
			_ = tx.Close()
			continue
		}
		addr := l.Address()
		// the silent peer
		var silent net.Conn
		if tr.name == "ipc" {
			silent, err = net.Dial("unix", strings.TrimPrefix(addr, "ipc://"))
		} else {
			hostport := addr[strings.Index(addr, "://")+3:]
			if i := strings.Index(hostport, "/"); i >= 0 {
				hostport = hostport[:i]
			}
			silent, err = net.Dial("tcp", hostport)
		}
		if err != nil {
			_ = rx.Close()
			_ = tx.Close()
			continue
		}
		time.Sleep(50 * time.Millisecond)
		class := "silent-peer-does-not-delay-others " + tr.name
		c.Class(class, true)
		res := make(chan error, 1)
		go func() {
			if e := tx.DialOptions(addr, do); e != nil {
				res <- fmt.Errorf("dial: %v", e)
				return
			}
			if e := tx.Send([]byte("after-the-silent-one")); e != nil {
				res <- fmt.Errorf("send: %v", e)
				return
			}
			_, e := rx.Recv()
			res <- e
		}()
		select {
		case e := <-res:
			if e != nil {
				c.Violate(fmt.Sprintf("%s: with one connection open that never says anything, a well-behaved peer could not get a message through: %v", tr.name, e),
					map[string]interface{}{"transport": tr.name, "history": "listener; raw connection that stays silent; PUSH dials and sends; PULL receives"})
			}
		case <-time.After(4 * time.Second):
			c.Violate(fmt.Sprintf("%s: a connection that never says anything kept a well-behaved peer out for more than 4 s", tr.name), map[string]interface{}{"transport": tr.name})
		}
		_ = silent.Close()
		go func() { _ = rx.Close(); _ = tx.Close() }()
	}
}

// C13 — hooks that take their time or close the pipe they are told about: the dialer still redials, the next connection
// still attaches, Detached is still reported.
func runHookEdgeCases(c *Ctx) {
	tr := transportNamed("inproc")
	// (a) the Attaching hook closes the first pipe of a dialing socket and then lingers; the reconnect time is far
	//     shorter than that: a second connection must attach once the hook has returned
	{
		srv, _ := pull.NewSocket()
		cli, _ := push.NewSocket()
		_ = cli.SetOption(mangos.OptionReconnectTime, time.Millisecond)
		_ = cli.SetOption(mangos.OptionMaxReconnectTime, time.Millisecond)
		_ = cli.SetOption(mangos.OptionSendDeadline, 2*time.Second)
		_ = srv.SetOption(mangos.OptionRecvDeadline, 2*time.Second)
		var mu sync.Mutex
		nAttaching, nAttached := 0, 0
		cli.SetPipeEventHook(func(ev mangos.PipeEvent, p mangos.Pipe) {
			switch ev {
			case mangos.PipeEventAttaching:
				mu.Lock()
				nAttaching++
				first := nAttaching == 1
				mu.Unlock()
				if first {
					_ = p.Close()
					time.Sleep(100 * time.Millisecond)
				}
			case mangos.PipeEventAttached:
				mu.Lock()
				nAttached++
				mu.Unlock()
			}
		})
		l, err := srv.NewListener(r4addr(tr), nil)
		if err == nil && l.Listen() == nil {
			_ = cli.SetOption(mangos.OptionDialAsynch, true)
			_ = cli.Dial(l.Address())
			ok := false
			for i := 0; i < 300 && !ok; i++ {
				time.Sleep(10 * time.Millisecond)
				mu.Lock()
				ok = nAttached > 0
				mu.Unlock()
			}
			c.Class("hook-closes-in-attaching-and-lingers", true)
			if !ok {
				mu.Lock()
				n := nAttaching
				mu.Unlock()
				c.Violate(fmt.Sprintf("dialer: the Attaching hook closed the first connection and returned 100 ms later (reconnect time 1 ms); no further connection was attached within 3 s (%d connection(s) reached the hook) — the dialer stopped redialling", n),
					map[string]interface{}{"history": "PUSH dials a PULL listener over inproc; hook closes the first pipe during Attaching and sleeps 100 ms"})
			} else if cli.Send([]byte("x")) != nil {
				c.Violate("dialer: a connection attached after the hook had closed the first one, but nothing could be sent", nil)
			}
		}
		go func() { _ = cli.Close(); _ = srv.Close() }()
	}
	// (b) the hook closes the pipe from inside its Attached callback
	{
		srv, _ := pull.NewSocket()
		cli, _ := push.NewSocket()
		_ = cli.SetOption(mangos.OptionReconnectTime, 10*time.Millisecond)
		_ = cli.SetOption(mangos.OptionSendDeadline, time.Second)
		_ = srv.SetOption(mangos.OptionRecvDeadline, time.Second)
		var mu sync.Mutex
		nAttached, nDetached := 0, 0
		returned := make(chan struct{}, 4)
		srv.SetPipeEventHook(func(ev mangos.PipeEvent, p mangos.Pipe) {
			switch ev {
			case mangos.PipeEventAttached:
				mu.Lock()
				nAttached++
				first := nAttached == 1
				mu.Unlock()
				if first {
					_ = p.Close()
					returned <- struct{}{}
				}
			case mangos.PipeEventDetached:
				mu.Lock()
				nDetached++
				mu.Unlock()
			}
		})
		l, err := srv.NewListener(r4addr(tr), nil)
		if err == nil && l.Listen() == nil {
			_ = cli.SetOption(mangos.OptionDialAsynch, true)
			_ = cli.Dial(l.Address())
			c.Class("hook-closes-in-attached", true)
			hung := false
			select {
			case <-returned:
			case <-time.After(2 * time.Second):
				hung = true
			}
			ok := false
			for i := 0; i < 200 && !ok && !hung; i++ {
				time.Sleep(10 * time.Millisecond)
				mu.Lock()
				ok = nAttached >= 2 && nDetached >= 1
				mu.Unlock()
			}
			mu.Lock()
			a, d := nAttached, nDetached
			mu.Unlock()
			if hung {
				c.Violate("pipe hook: Pipe.Close called from inside the Attached callback did not return within 2 s (the callback is stuck; the pipe is never detached and nothing attaches after it)",
					map[string]interface{}{"history": "PULL listens over inproc, PUSH dials; the listener's hook closes the first pipe inside its Attached callback"})
			} else if !ok {
				c.Violate(fmt.Sprintf("pipe hook: after the hook had closed the first pipe inside its Attached callback: %d Attached, %d Detached within 2 s (expected the Detached of that pipe and the next connection attached)", a, d), nil)
			}
		}
		go func() { _ = cli.Close() }()
		go func() { _ = srv.Close() }()
	}
}

// C06, C11 — Unsubscribe against arriving traffic: once Unsubscribe has returned, the context has no subscription and no
// queued message, so a Recv gets nothing — also when a matching message was on its way in at that very moment.
func runSubUnsubscribeRace(c *Ctx) {
	nctx, rounds := 150, 3
	if c.Thorough() {
		rounds = 12
	}
	tr := transportNamed("inproc")
	pb, _ := pub.NewSocket()
	sb, _ := sub.NewSocket()
	l, err := pb.NewListener(r4addr(tr), nil)
	if err != nil || l.Listen() != nil || sb.Dial(l.Address()) != nil {
		_ = pb.Close()
		_ = sb.Close()
		return
	}
	time.Sleep(40 * time.Millisecond)
	stop := make(chan struct{})
	var pwg sync.WaitGroup
	pwg.Add(1)
	go func() {
		defer pwg.Done()
		for i := 0; ; i++ {
			select {
			case <-stop:
				return
			default:
			}
			_ = pb.Send([]byte{'t', byte(i >> 8), byte(i)})
		}
	}()
	stale := 0
	for r := 0; r < rounds && stale == 0; r++ {
		var ctxs []mangos.Context
		for i := 0; i < nctx; i++ {
			cx, err := sb.OpenContext()
			if err != nil {
				break
			}
			_ = cx.SetOption(mangos.OptionRecvDeadline, 2*time.Millisecond)
			_ = cx.SetOption(mangos.OptionSubscribe, []byte("t"))
			ctxs = append(ctxs, cx)
		}
		time.Sleep(20 * time.Millisecond)
		var wg sync.WaitGroup
		var mu sync.Mutex
		for _, cx := range ctxs {
			wg.Add(1)
			go func(cx mangos.Context) {
				defer wg.Done()
				if cx.SetOption(mangos.OptionUnsubscribe, []byte("t")) != nil {
					return
				}
				// nothing is subscribed and the queue was pruned: whatever comes now is stale
				for k := 0; k < 3; k++ {
					if m, err := cx.RecvMsg(); err == nil {
						m.Free()
						mu.Lock()
						stale++
						mu.Unlock()
					}
				}
			}(cx)
		}
		wg.Wait()
		for _, cx := range ctxs {
			_ = cx.Close()
		}
	}
	close(stop)
	pwg.Wait()
	c.Class("sub-unsubscribe-race", true)
	if stale > 0 {
		c.Violate(fmt.Sprintf("SUB: %d message(s) were delivered by Recv on contexts whose only subscription had been removed (Unsubscribe had returned) while matching messages kept arriving", stale),
			map[string]interface{}{"history": fmt.Sprintf("PUB floods topic t over inproc; %d SUB contexts subscribed to t unsubscribe concurrently and then Recv with a 2 ms deadline", nctx)})
	}
	_ = pb.Close()
	_ = sb.Close()
}

// C19, C18 — a queue-length change while a Recv with a deadline is blocked does not postpone the deadline
func runResizeKeepsDeadline(c *Ctx) {
	type mk struct {
		name string
		new  func() (mangos.Socket, error)
	}
	for _, p := range []mk{{"pull", pull.NewSocket}, {"pair", pair.NewSocket}, {"bus", bus.NewSocket}, {"sub", sub.NewSocket}} {
		s, err := p.new()
		if err != nil {
			continue
		}
		const dl = 200 * time.Millisecond
		_ = s.SetOption(mangos.OptionRecvDeadline, dl)
		done := make(chan error, 1)
		t0 := time.Now()
		go func() { _, e := s.Recv(); done <- e }()
		stop := make(chan struct{})
		go func() {
			for n := 1; ; n++ {
				select {
				case <-stop:
					return
				case <-time.After(40 * time.Millisecond):
					_ = s.SetOption(mangos.OptionReadQLen, 1+n%5)
				}
			}
		}()
		c.Class("resize-keeps-deadline "+p.name, true)
		select {
		case e := <-done:
			el := time.Since(t0)
			if e != mangos.ErrRecvTimeout || el < dl || el > dl+250*time.Millisecond {
				c.Violate(fmt.Sprintf("%s: Recv with a %v deadline, READQ-LEN changed every 40 ms while it waited: returned %v after %v", p.name, dl, e, el.Round(time.Millisecond)),
					map[string]interface{}{"protocol": p.name})
			}
		case <-time.After(dl + 1200*time.Millisecond):
			c.Violate(fmt.Sprintf("%s: Recv with a %v deadline was still blocked after %v because READQ-LEN kept being changed (every 40 ms): each change postpones the deadline", p.name, dl, dl+1200*time.Millisecond),
				map[string]interface{}{"protocol": p.name, "history": "Recv blocked with RECV-DEADLINE 200 ms; SetOption(READQ-LEN) every 40 ms"})
		}
		close(stop)
		_ = s.Close()
	}
}

// C11 — the same burst on several socket pairs at once, for many rounds (the window in which two senders both miss the
// sleeping sender goroutine is a few instructions wide)
func runPushBurstHeavy(c *Ctx) {
	pairs, rounds := 6, 2500
	if c.Thorough() {
		rounds = 12000
	}
	tr := transportNamed("inproc")
	var wgAll sync.WaitGroup
	var mu sync.Mutex
	bad := ""
	for k := 0; k < pairs; k++ {
		ps, _ := push.NewSocket()
		pl, _ := pull.NewSocket()
		_ = ps.SetOption(mangos.OptionSendDeadline, time.Second)
		_ = pl.SetOption(mangos.OptionRecvDeadline, 400*time.Millisecond)
		l, err := ps.NewListener(r4addr(tr), nil)
		if err != nil || l.Listen() != nil || pl.Dial(l.Address()) != nil {
			_ = ps.Close()
			_ = pl.Close()
			continue
		}
		wgAll.Add(1)
		go func(k int, ps, pl mangos.Socket) {
			defer wgAll.Done()
			defer ps.Close()
			defer pl.Close()
			time.Sleep(30 * time.Millisecond)
			const senders = 4
			for r := 0; r < rounds; r++ {
				mu.Lock()
				stop := bad != ""
				mu.Unlock()
				if stop {
					return
				}
				gate := make(chan struct{})
				var wg sync.WaitGroup
				for g := 0; g < senders; g++ {
					wg.Add(1)
					go func(g int) {
						defer wg.Done()
						<-gate
						_ = ps.Send([]byte{byte(r >> 8), byte(r), byte(g)})
					}(g)
				}
				close(gate)
				wg.Wait()
				got := 0
				for got < senders {
					if _, err := pl.Recv(); err != nil {
						break
					}
					got++
				}
				if got != senders {
					mu.Lock()
					if bad == "" {
						bad = fmt.Sprintf("pair %d, round %d: %d goroutines sent at the same instant on an idle PUSH socket; only %d of the %d accepted messages reached the connected, reading PULL peer within 0.4 s — the rest stayed in the send queue", k, r, senders, got, senders)
					}
					mu.Unlock()
					return
				}
			}
		}(k, ps, pl)
	}
	wgAll.Wait()
	c.Class("push-burst-heavy", true)
	if bad != "" {
		c.Violate("push/pull (concurrent senders): "+bad, map[string]interface{}{"pairs": pairs, "senders": 4})
	}
}
