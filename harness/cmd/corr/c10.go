package main

// C10 — Close unblocks everything, fails later calls and releases all resources.
//  (1) the protocol machines' scenarios, cut at random lengths so that Close meets parked Sends and Recvs, held
//      pipes, open contexts and running timers; after Close the socket and every context are used again; every
//      line is checked against the Lean machines (whose close theorems are Props/C10.lean);
//  (2) the core machine's scenarios (listeners, dialers, pipes, parked callbacks) ending in Socket.Close;
//  (3) real sockets of every pattern over real transports with calls blocked and traffic, dialing and redialing in
//      progress: after Close every call has returned, later calls fail at once, and no goroutine with a library frame,
//      no pipe id, no listening address and no redial activity remains (`cl.*` lines, table in Model/Close.lean).

import (
	"fmt"
	"net"
	"os"
	"strings"
	"sync"
	"time"

	"go.nanomsg.org/mangos/v3"
	"go.nanomsg.org/mangos/v3/protocol"
	"verifharness/vp"
)

func init() { props["C10"] = runC10 }

func runC10(c *Ctx) {
	c.Rep.Rule = "machine scenarios of every pattern cut at random lengths and closed with whatever is parked, then used again after Close (class = machine, operation, outcome shape); core scenarios ending in Socket.Close; " +
		"real sockets of 16 pattern pairs over inproc/ipc/tcp/tls/ws/wss closed at random phases of blocked Recv/Send, traffic, dialing and redialing (class = pattern, transport, close order, check)"
	postCloseOps = true
	runHandshaker(c)
	runAcceptCloseRace(c)
	runDialFailsWhileAnotherDialerRegisters(c)
	runWsHandlerModeClose(c)
	runWsListenerQueue(c)
	runInprocRendezvous(c)
	runInprocPipes(c)
	runReqCloseWakesSendAndRecv(c, 0, false)
	runReqCloseWakesSendAndRecv(c, 1, false)
	runReqCloseWakesSendAndRecv(c, 1, true)
	runWsAcceptCloseRace(c)
	defer func() { postCloseOps = false }()
	n := 12
	if c.Thorough() {
		n = 250
	}
	for i := 0; i < n; i++ {
		ln := func() int { return 3 + c.R.Intn(30) }
		runPairScenario(c, i%2 == 0, ln(), i%3 == 0)
		runPushScenario(c, i%2 == 0, ln(), []int{1, 2, 3})
		runPullScenario(c, i%2 == 0, ln())
		runPubScenario(c, i%2 == 0, ln())
		runSubScenario(c, ln())
		for _, fl := range repFlavors {
			runRepScenario(c, fl, ln())
		}
		for _, fl := range meshFlavors {
			runMeshScenario(c, fl, ln())
		}
		runSurveyorScenario(c, ln(), false)
		runReqScenario(c, reqScenarioCfg{nops: ln(), retryMs: 60000})
		runReqScenario(c, reqScenarioCfg{nops: ln(), retryMs: 70, faults: true})
		runReqScenario(c, reqScenarioCfg{nops: ln(), retryMs: 60000, deadlines: true})
	}
	postCloseOps = false
	for i := 0; i < n*2; i++ {
		runCoreScenario(c, 5000+i, 5+c.R.Intn(30), false)
	}
	c10AfterClose(c)
	c10RealSockets(c)
	c10MidHandshake(c)
	c10DialMidHandshake(c)
	c10QueuedHandshakes(c)
	c10DialRacingClose(c)
	c10BystanderListener(c)
	runListenerCloseKeepsPipes(c)
	runInprocDialParkedAtClose(c)
	runInprocDialParkedAtOwnClose(c)
}

// every protocol at pipe level: after Close, repeated Sends (well-formed for the pattern, and header-less) and Recvs
// on the socket and on a context fail at once — a select between a ready queue and the closed channel must not let a
// Send through now and then
func c10AfterClose(c *Ctx) {
	for _, st := range w18sites() {
		if st.fn != "SendMsg" && st.fam != "recv" {
			continue
		}
		for _, withPipe := range []bool{false, true} {
			proto := st.newp()
			net := &vp.Net{}
			var ctx mangos.ProtocolContext = proto
			if st.recv == "context" {
				if cx, err := proto.OpenContext(); err == nil {
					ctx = cx
				}
			}
			var pipe *vp.VPipe
			if withPipe {
				pipe = vp.NewVPipe(1, proto, net)
				_ = pipe.Attach()
			}
			_ = proto.Close()
			class := fmt.Sprintf("cl-proto %s %s.%s pipe=%v", st.pkg, st.recv, st.fn, withPipe)
			replay := map[string]interface{}{"protocol": st.pkg, "how": "cmd/corr/c10.go c10AfterClose: NewProtocol, AddPipe (virtual), Close, then 20 x SendMsg / RecvMsg"}
			for i := 0; i < 20; i++ {
				var k *vp.Call
				what := "after-send"
				switch {
				case st.fn != "SendMsg":
					what = "after-recv"
					k = vp.GoRecv(ctx)
				case i%2 == 0:
					k = vp.GoSend(ctx, st.hdr(1), []byte("late"))
				default:
					what = "after-send-bare"
					k = vp.GoSend(ctx, nil, []byte("late"))
				}
				obs := "hang"
				if k.Wait(time.Second) {
					obs = vp.ErrName(k.Err)
					if k.Kind == "send" && k.Err != nil {
						k.Msg.Free()
					}
				}
				c10Line(c, class, what, obs)
				if obs == "hang" || (obs == "ok" && what != "after-recv") {
					c.Violate(fmt.Sprintf("close (%s %s.%s): %s on a closed socket returned %s", st.pkg, st.recv, st.fn, what, obs), replay)
				}
			}
			if pipe != nil {
				_ = pipe.Close()
			}
		}
	}
}

func c10Line(c *Ctx, class, what, obs string) {
	c.Class(class, true)
	c.T.Line(class, "cl.check "+what, obs)
}

type c10call struct {
	what string
	done chan struct{}
	err  error
	got  bool
}

func c10go(what string, f func() (bool, error)) *c10call {
	k := &c10call{what: what, done: make(chan struct{})}
	go func() {
		k.got, k.err = f()
		close(k.done)
	}()
	return k
}

func (k *c10call) wait(d time.Duration) bool {
	select {
	case <-k.done:
		return true
	case <-time.After(d):
		return false
	}
}

// an address nobody listens on, for a dialer that keeps redialing
func c10deadAddr(tr e2eTransport, i int) (string, func() int) {
	switch tr.name {
	case "inproc":
		return fmt.Sprintf("inproc://verif-c10-nobody-%d-%d", os.Getpid(), i), nil
	case "ipc":
		return fmt.Sprintf("ipc://%s/verif-c10-nobody-%d-%d.sock", os.TempDir(), os.Getpid(), i), nil
	}
	// reserve a TCP port, close it, and later watch it for connection attempts
	l, err := net.Listen("tcp", "127.0.0.1:0")
	if err != nil {
		return "", nil
	}
	port := l.Addr().(*net.TCPAddr).Port
	_ = l.Close()
	scheme := strings.SplitN(tr.addr(0), "://", 2)[0]
	suffix := ""
	if strings.HasPrefix(scheme, "ws") {
		suffix = "/verif"
	}
	addr := fmt.Sprintf("%s://127.0.0.1:%d%s", scheme, port, suffix)
	watch := func() int {
		// connection attempts arriving within 150 ms (the reconnect time is 10 ms)
		wl, err := net.Listen("tcp", fmt.Sprintf("127.0.0.1:%d", port))
		if err != nil {
			return -1
		}
		defer wl.Close()
		_ = wl.(*net.TCPListener).SetDeadline(time.Now().Add(150 * time.Millisecond))
		n := 0
		for {
			cn, err := wl.Accept()
			if err != nil {
				return n
			}
			n++
			_ = cn.Close()
		}
	}
	return addr, watch
}

func c10RealSockets(c *Ctx) {
	type combo struct {
		p  e2ePattern
		tr e2eTransport
	}
	var combos []combo
	for pi, p := range e2ePatterns {
		for ti, tr := range e2eTransports {
			if c.Thorough() || ti == 0 || ti == 2 || (pi+ti)%4 == 0 {
				combos = append(combos, combo{p, tr})
			}
		}
	}
	if err := initTLS(); err != nil {
		c.Violate("cannot create TLS configuration: "+err.Error(), nil)
		return
	}
	rounds := 1
	if c.Thorough() {
		rounds = 3
	}
	// nothing of earlier runs may be left before the first scenario
	c10settle()
	for round := 0; round < rounds; round++ {
		for i, cb := range combos {
			c10Scenario(c, cb.p, cb.tr, round*1000+i)
		}
	}
}

// wait (at most 3 s) for the library's goroutines to finish
func c10settle() []string {
	var libs []string
	for t := 0; t < 150; t++ {
		libs = vp.LibGoroutines()
		if len(libs) == 0 {
			return nil
		}
		time.Sleep(20 * time.Millisecond)
	}
	return libs
}

func c10Scenario(c *Ctx, p e2ePattern, tr e2eTransport, idx int) {
	order := c.R.Intn(3) // 0: tx first, 1: rx first, 2: concurrently
	phase := c.R.Intn(25)
	class := func(check string) string { return fmt.Sprintf("cl %s %s order=%d %s", p.name, tr.name, order, check) }
	replay := map[string]interface{}{"pattern": p.name, "transport": tr.name, "close_order": order, "phase_ms": phase,
		"how": "cmd/corr/c10.go c10Scenario: connected pair, second listener, extra dialer to a dead address, blocked Recv x2 per socket, sender loop, Close at phase, census"}
	idsBefore := len(protocol.VerifPipeIDsInUse())
	link, err := e2eConnect(tr, p, -1)
	if err != nil {
		c.Rep.Notes = append(c.Rep.Notes, fmt.Sprintf("c10: %s over %s: %v", p.name, tr.name, err))
		return
	}
	socks := []mangos.Socket{link.tx, link.rx}
	for _, s := range socks {
		_ = s.SetOption(mangos.OptionRecvDeadline, time.Duration(0))
		_ = s.SetOption(mangos.OptionSendDeadline, time.Duration(0))
		_ = s.SetOption(mangos.OptionMaxReconnectTime, 20*time.Millisecond)
	}
	opts := func(dial bool) map[string]interface{} {
		o := map[string]interface{}{}
		if tr.tls {
			if dial {
				o[mangos.OptionTLSConfig] = cliTLS
			} else {
				o[mangos.OptionTLSConfig] = srvTLS
			}
		}
		return o
	}
	// a second listener on the receiving socket: its address must be free again after Close
	var addr2 string
	if l2, err := link.rx.NewListener(tr.addr(70000+idx), opts(false)); err == nil && l2.Listen() == nil {
		addr2 = l2.Address()
	}
	// a dialer that can never connect keeps a redial timer pending
	dead, watch := c10deadAddr(tr, idx)
	if dead != "" {
		o := opts(true)
		o[mangos.OptionDialAsynch] = true
		if d, err := link.tx.NewDialer(dead, o); err == nil {
			_ = d.Dial()
		}
	}
	// blocked receivers (two per socket) and a sender loop per socket
	var calls []*c10call
	var stop sync.WaitGroup
	for si, s := range socks {
		s := s
		for j := 0; j < 2; j++ {
			calls = append(calls, c10go(fmt.Sprintf("recv-blocked-%d", si), func() (bool, error) {
				for {
					m, err := s.RecvMsg()
					if err == mangos.ErrProtoState || err == mangos.ErrCanceled || err == mangos.ErrRecvTimeout {
						// nothing to wait for right now (no request / survey outstanding, or it was superseded)
						time.Sleep(500 * time.Microsecond)
						continue
					}
					if err != nil {
						return false, err
					}
					m.Free()
				}
			}))
		}
		hdr := p.txHdr
		calls = append(calls, c10go(fmt.Sprintf("send-loop-%d", si), func() (bool, error) {
			for i := 0; ; i++ {
				m := mangos.NewMessage(16)
				m.Header = append(m.Header, hdr...)
				m.Body = append(m.Body, []byte(fmt.Sprintf("c10-%d", i))...)
				err := s.SendMsg(m)
				if err == mangos.ErrProtoState {
					// a reply without a request: try again
					m.Free()
					time.Sleep(500 * time.Microsecond)
					continue
				}
				if err != nil {
					m.Free()
					return false, err
				}
				if i%8 == 7 {
					time.Sleep(time.Millisecond)
				}
			}
		}))
	}
	_ = stop
	time.Sleep(time.Duration(phase) * time.Millisecond)

	// ---- Close
	closeOne := func(name string, s mangos.Socket) *c10call {
		return c10go("close-"+name, func() (bool, error) { return false, s.Close() })
	}
	var closes []*c10call
	switch order {
	case 0:
		k := closeOne("tx", link.tx)
		k.wait(3 * time.Second)
		closes = append(closes, k, closeOne("rx", link.rx))
	case 1:
		k := closeOne("rx", link.rx)
		k.wait(3 * time.Second)
		closes = append(closes, k, closeOne("tx", link.tx))
	default:
		closes = append(closes, closeOne("tx", link.tx), closeOne("rx", link.rx))
	}
	for _, k := range closes {
		obs := "hang"
		if k.wait(3 * time.Second) {
			obs = vp.ErrName(k.err)
		}
		c10Line(c, class("close"), "close", obs)
		if obs != "ok" {
			c.Violate(fmt.Sprintf("close (%s over %s): Socket.Close (%s) returned %s", p.name, tr.name, k.what, obs), replay)
		}
	}
	// every call that was in progress has returned, with a closed error (receiving on a send-only socket and the
	// like report the unsupported operation at once)
	for _, k := range calls {
		kind := strings.SplitN(k.what, "-", 3)
		what := kind[0] + "-" + kind[1]
		obs := "hang"
		if k.wait(2 * time.Second) {
			obs = vp.ErrName(k.err)
		}
		c10Line(c, class(what), what, obs)
		if obs != "closed" && obs != "protoop" {
			c.Violate(fmt.Sprintf("close (%s over %s): %s in progress at Close ended with %s", p.name, tr.name, k.what, obs), replay)
		}
	}
	// later calls fail at once
	for si, s := range socks {
		s := s
		for _, what := range []string{"after-send", "after-send-bare", "after-recv", "after-close", "after-dial", "after-listen", "after-setopt", "after-openctx"} {
			what := what
			k := c10go(what, func() (bool, error) {
				switch what {
				case "after-send":
					m := mangos.NewMessage(8)
					m.Header = append(m.Header, p.txHdr...)
					m.Body = append(m.Body, []byte("late")...)
					err := s.SendMsg(m)
					if err != nil {
						m.Free()
					}
					return false, err
				case "after-send-bare":
					return false, s.Send([]byte("late"))
				case "after-recv":
					_, err := s.Recv()
					return false, err
				case "after-close":
					return false, s.Close()
				case "after-dial":
					return false, s.Dial(tr.addr(80000 + idx))
				case "after-listen":
					return false, s.Listen(tr.addr(81000 + idx*2 + si))
				case "after-openctx":
					_, err := s.OpenContext()
					return false, err
				}
				return false, nil
			})
			if what == "after-setopt" {
				continue
			}
			obs := "hang"
			if k.wait(2 * time.Second) {
				obs = vp.ErrName(k.err)
				if strings.HasPrefix(obs, "other:") {
					obs = "other"
				}
			}
			c10Line(c, class(what), what, obs)
			if obs == "hang" || (obs == "ok" && what != "after-recv") {
				c.Violate(fmt.Sprintf("close (%s over %s): %s on a closed socket returned %s", p.name, tr.name, what, obs), replay)
			}
		}
	}
	// nothing remains
	libs := c10settle()
	c10Line(c, class("goroutines"), "goroutines", fmt.Sprint(len(libs)))
	if len(libs) > 0 {
		c.Violate(fmt.Sprintf("close (%s over %s): %d library goroutine(s) remain after every socket was closed: %s", p.name, tr.name, len(libs), strings.Join(libs, " | ")), replay)
	}
	ids := len(protocol.VerifPipeIDsInUse()) - idsBefore
	c10Line(c, class("ids"), "ids", fmt.Sprint(ids))
	if ids != 0 {
		c.Violate(fmt.Sprintf("close (%s over %s): %d pipe id(s) still reserved after every socket was closed", p.name, tr.name, ids), replay)
	}
	if addr2 != "" {
		// the listening address is free again
		obs := "ok"
		if s2, err := p.mkRx(); err == nil {
			l, err := s2.NewListener(addr2, opts(false))
			if err == nil {
				err = l.Listen()
			}
			if err != nil {
				obs = vp.ErrName(err)
				if strings.HasPrefix(obs, "other:") {
					obs = "other"
				}
			}
			_ = s2.Close()
		}
		c10Line(c, class("rebind"), "rebind", obs)
		if obs != "ok" {
			c.Violate(fmt.Sprintf("close (%s over %s): the listening address %s cannot be bound again after Close (%s)", p.name, tr.name, addr2, obs), replay)
		}
	}
	if watch != nil {
		n := watch()
		c10Line(c, class("redial"), "redial", fmt.Sprint(n))
		if n != 0 {
			c.Violate(fmt.Sprintf("close (%s over %s): %d connection attempt(s) from a dialer of a closed socket", p.name, tr.name, n), replay)
		}
	}
	c10settle()
}
