package main

import (
	"bytes"
	"fmt"

	"go.nanomsg.org/mangos/v3"
	"go.nanomsg.org/mangos/v3/protocol/pub"
	"go.nanomsg.org/mangos/v3/protocol/xpub"
)

// PUB / XPUB: every message to every connected subscriber, per-pipe order, loss only on overflow
func runPubScenario(c *Ctx, cooked bool, nops int) {
	var proto mangos.ProtocolBase
	if cooked {
		proto = pub.NewProtocol()
	} else {
		proto = xpub.NewProtocol()
	}
	runFanoutScenario(c, "PUB", "subscriber", proto, nil, true, nops)
}

// the fan-out machine (every Send is cloned into every pipe's bounded queue) driven against a sending socket:
// PUB / XPUB, and the survey side of XSURVEYOR (sendHdr = the survey id the raw socket's user supplies)
func runFanoutScenario(c *Ctx, NAME, peerName string, proto mangos.ProtocolBase, sendHdr []byte, isPub bool, nops int) {
	e := NewExec(c, "m.pub", proto, "pub")
	pipes := []int{}
	held := map[int]bool{}
	everHeld := map[int]bool{}
	next := 200
	seq := 0
	// oracle state: per pipe, what was accepted for it (in order) and what arrived
	type pst struct {
		qcap, inq int
		busy      bool
	}
	sent := map[int][]int{} // pipe -> seqs transmitted
	qlen := 128
	caps := map[int]int{}
	addPipe := func() {
		next++
		if e.AddPipe(next) == "ok" {
			pipes = append(pipes, next)
			caps[next] = qlen
		}
	}
	recorded := 0
	record := func(obs string) {
		if len(e.ops) == recorded {
			return // the operation was not executed (nothing new to look at)
		}
		recorded = len(e.ops)
		for _, ev := range splitEvents(obs) {
			if ev.kind == "tx" && len(ev.msg) >= 2 {
				sq := int(ev.msg[len(ev.msg)-2])<<8 | int(ev.msg[len(ev.msg)-1])
				l := sent[ev.pipe]
				if len(l) > 0 && l[len(l)-1] >= sq {
					c.Violate(fmt.Sprintf("%s: %s pipe %d was sent message #%d after #%d (order/duplication)", NAME, peerName, ev.pipe, sq, l[len(l)-1]), e.Replay())
				}
				sent[ev.pipe] = append(l, sq)
			}
			if ev.kind == "closed" {
				for i, p := range pipes {
					if p == ev.pipe {
						pipes = append(pipes[:i:i], pipes[i+1:]...)
						break
					}
				}
			}
		}
	}
	addPipe()
	for i := 0; i < nops && !e.broken; i++ {
		switch k := c.R.Intn(20); {
		case k < 10: // publish
			seq++
			body := append(c.R.Bytes(c.R.Intn(4)), byte(seq>>8), byte(seq))
			// with no queue pressure every connected subscriber must get it
			unheld := []int{}
			for _, p := range pipes {
				if !everHeld[p] {
					unheld = append(unheld, p)
				}
			}
			e.Send(0, sendHdr, body)
			obs := lastObs(e)
			record(obs)
			for _, p := range unheld {
				found := false
				for _, ev := range splitEvents(obs) {
					if ev.kind == "tx" && ev.pipe == p && bytes.Equal(ev.msg, body) {
						found = true
					}
				}
				if !found {
					c.Violate(fmt.Sprintf("%s: connected %s pipe %d (never slowed down, so its queue is empty) was not sent message #%d", NAME, peerName, p, seq), e.Replay())
				}
			}
		case k < 12:
			if len(pipes) < 4 {
				addPipe()
			}
		case k == 12:
			if len(pipes) > 0 {
				p := pipes[c.R.Intn(len(pipes))]
				e.RmPipe(p)
				record(lastObs(e))
				delete(held, p)
			}
		case k < 15: // slow subscriber
			if len(pipes) > 0 {
				p := pipes[c.R.Intn(len(pipes))]
				held[p] = !held[p]
				everHeld[p] = true
				e.Hold(p, held[p])
			}
		case k < 18:
			if len(pipes) > 0 {
				p := pipes[c.R.Intn(len(pipes))]
				ok := c.R.Intn(6) != 0
				e.Release(p, ok)
				record(lastObs(e))
				if !ok {
					delete(held, p)
				}
			}
		case k == 18:
			qlen = c.R.Pick(0, 1, 2, 3)
			e.SetOpt(0, mangos.OptionWriteQLen, fmt.Sprint(qlen), qlen)
		default:
			if !isPub {
				// the receive queue length is a different option: it must not change how many surveys a stalled respondent's queue holds
				r := c.R.Pick(0, 1, 2, 5)
				e.SetOpt(0, mangos.OptionReadQLen, fmt.Sprint(r), r)
			} else if len(pipes) > 0 {
				e.Inject(pipes[c.R.Intn(len(pipes))], c.R.Bytes(c.R.Intn(6)))
			}
		}
	}
	if isPub {
		e.Recv(0)
	}
	e.OpenCtx(9)
	e.Finish()
}

// directed: subscribers that have stalled with full queues must not keep a message from one that keeps up — whichever
// order the socket visits its pipes in (a map: the order changes from Send to Send)
func runPubStalledDoesNotStarve(c *Ctx, cooked bool) {
	var proto mangos.ProtocolBase
	if cooked {
		proto = pub.NewProtocol()
	} else {
		proto = xpub.NewProtocol()
	}
	e := NewExec(c, "m.pub", proto, "pub")
	e.SetOpt(0, mangos.OptionWriteQLen, "1", 1)
	for p := 201; p <= 204; p++ {
		if e.AddPipe(p) != "ok" {
			e.Finish()
			return
		}
	}
	for p := 201; p <= 203; p++ {
		e.Hold(p, true)
	}
	for seq := 1; seq <= 12 && !e.broken; seq++ {
		body := []byte{'s', byte(seq >> 8), byte(seq)}
		e.Send(0, nil, body)
		found := false
		for _, ev := range splitEvents(lastObs(e)) {
			if ev.kind == "tx" && ev.pipe == 204 && bytes.Equal(ev.msg, body) {
				found = true
			}
		}
		if !found && !e.broken {
			c.Violate(fmt.Sprintf("PUB: subscriber pipe 204 keeps up (its queue is empty) but was not sent message #%d, published while three other subscribers were stalled with full queues", seq), e.Replay())
		}
	}
	e.Finish()
}

func runPubScenarios(c *Ctx) {
	runPubStalledDoesNotStarve(c, true)
	runPubStalledDoesNotStarve(c, false)
	n := 60
	if c.Thorough() {
		n = 1200
	}
	for i := 0; i < n; i++ {
		runPubScenario(c, i%2 == 0, 40)
	}
}
