package main

import (
	"fmt"

	"go.nanomsg.org/mangos/v3"
	"go.nanomsg.org/mangos/v3/protocol/pull"
	"go.nanomsg.org/mangos/v3/protocol/push"
	"go.nanomsg.org/mangos/v3/protocol/xpull"
	"go.nanomsg.org/mangos/v3/protocol/xpush"
)

// PUSH: each accepted message goes to exactly one connected peer; per connection in send order;
// Send completes whenever a peer is able to take the message, for every accepted queue length.
func runPushScenario(c *Ctx, cooked bool, nops int, qlens []int) {
	var proto mangos.ProtocolBase
	if cooked {
		proto = push.NewProtocol()
	} else {
		proto = xpush.NewProtocol()
	}
	e := NewExec(c, "m.push", proto, "push")
	pipes := []int{}
	held := map[int]bool{}
	next := 400
	seq := 0
	handed := map[int]int{}  // seq -> pipe
	lastOn := map[int]int{}  // pipe -> last seq handed
	callSeq := map[int]int{} // call -> seq
	parkedCalls := map[int]bool{}
	qlen := 128
	look := func() {
		for _, ev := range splitEvents(lastObs(e)) {
			switch ev.kind {
			case "tx":
				sq := seqOf(ev.msg)
				if p, dup := handed[sq]; dup {
					c.Violate(fmt.Sprintf("PUSH: message #%d handed to pipe %d and again to pipe %d", sq, p, ev.pipe), e.Replay())
				}
				handed[sq] = ev.pipe
				if lastOn[ev.pipe] >= sq {
					c.Violate(fmt.Sprintf("PUSH: pipe %d was handed message #%d after #%d", ev.pipe, sq, lastOn[ev.pipe]), e.Replay())
				}
				lastOn[ev.pipe] = sq
			case "ret":
				delete(parkedCalls, ev.call)
			case "closed":
				for i, p := range pipes {
					if p == ev.pipe {
						pipes = append(pipes[:i:i], pipes[i+1:]...)
						break
					}
				}
				delete(held, ev.pipe)
			}
		}
	}
	idlePeer := func() bool { // a connected peer that is able to take a message right now
		for _, p := range pipes {
			if !held[p] && e.pipes[p] != nil && e.pipes[p].PendingSends() == 0 {
				return true
			}
		}
		return false
	}
	for i := 0; i < nops && !e.broken; i++ {
		n0 := len(e.ops)
		switch k := c.R.Intn(22); {
		case k < 9:
			seq++
			able := idlePeer()
			e.Send(0, nil, seqBody(c, seq))
			call := e.ncall
			callSeq[call] = seq
			parkedCalls[call] = true
			look()
			if able && parkedCalls[call] {
				c.Violate(fmt.Sprintf("PUSH: Send did not complete although a connected peer is able to take the message (write queue length %d)", qlen), e.Replay())
			}
		case k < 12:
			if len(pipes) < 3 {
				next++
				if e.AddPipe(next) == "ok" {
					pipes = append(pipes, next)
				}
				look()
			}
		case k < 14:
			if len(pipes) > 0 {
				p := pipes[c.R.Intn(len(pipes))]
				held[p] = !held[p]
				e.Hold(p, held[p])
			}
		case k < 18:
			if len(pipes) > 0 {
				p := pipes[c.R.Intn(len(pipes))]
				e.Release(p, c.R.Intn(8) != 0)
				if len(e.ops) > n0 {
					look()
				}
			}
		case k == 18:
			if len(pipes) > 0 && c.R.Intn(2) == 0 {
				e.RmPipe(pipes[c.R.Intn(len(pipes))])
				look()
			}
		case k == 19:
			qlen = qlens[c.R.Intn(len(qlens))]
			e.SetOpt(0, mangos.OptionWriteQLen, fmt.Sprint(qlen), qlen)
			look()
		case k == 20:
			v := c.R.Intn(2) == 0
			e.SetOpt(0, mangos.OptionFailNoPeers, fmt.Sprint(v), v)
		default:
			if len(pipes) > 0 {
				e.Inject(pipes[c.R.Intn(len(pipes))], c.R.Bytes(3))
			}
		}
	}
	e.Recv(0)
	e.Finish()
}

// PULL: messages sharing a connection arrive in send order, exactly once
func runPullScenario(c *Ctx, cooked bool, nops int) {
	var proto mangos.ProtocolBase
	if cooked {
		proto = pull.NewProtocol()
	} else {
		proto = xpull.NewProtocol()
	}
	e := NewExec(c, "m.pull", proto, "pull")
	pipes := []int{}
	next := 500
	pseq := map[int]int{} // per-pipe sequence
	last := map[int]int{} // per-pipe last seq received
	pending := 0          // injected and not yet received
	qcap := 128           // current READQ-LEN
	look := func() {
		for _, ev := range splitEvents(lastObs(e)) {
			if ev.kind == "ret" && ev.msg != nil && len(ev.msg) >= 3 {
				p := 500 + int(ev.msg[0])
				sq := seqOf(ev.msg)
				if last[p] >= sq {
					c.Violate(fmt.Sprintf("PULL: message #%d of connection %d received after #%d", sq, p, last[p]), e.Replay())
				}
				last[p] = sq
				pending--
			}
		}
	}
	for i := 0; i < nops && !e.broken; i++ {
		switch k := c.R.Intn(20); {
		case k < 3:
			if len(pipes) < 3 {
				next++
				if e.AddPipe(next) == "ok" {
					pipes = append(pipes, next)
				}
			}
		case k < 11:
			if len(pipes) > 0 {
				p := pipes[c.R.Intn(len(pipes))]
				pseq[p]++
				e.Inject(p, []byte{byte(p - 500), byte(pseq[p] >> 8), byte(pseq[p])})
				pending++
				look()
			}
		case k < 17:
			if e.ParkedRecvs() == 0 {
				e.Recv(0)
				look()
			}
		case k == 17:
			if len(pipes) > 1 && c.R.Intn(2) == 0 {
				j := c.R.Intn(len(pipes))
				e.RmPipe(pipes[j])
				pipes = append(pipes[:j:j], pipes[j+1:]...)
				look()
			}
		case k == 18:
			// resize only while no receiver is blocked on a full queue (otherwise the retry order is a race)
			n := c.R.Pick(1, 2, 3)
			blocked := false
			for _, p := range pipes {
				if e.pipes[p] != nil && e.pipes[p].Backlog() > 0 {
					blocked = true
				}
			}
			if !blocked && pending <= qcap {
				// also with messages queued: they move to the new queue as far as it holds them (a shorter queue drops the rest)
				e.SetOpt(0, mangos.OptionReadQLen, fmt.Sprint(n), n)
				qcap = n
				if pending > n {
					pending = n
				}
			}
		default:
			e.Send(0, nil, []byte{1})
		}
	}
	e.Finish()
}

// directed: a message whose connection fails under it may be lost, but must not turn up on another connection behind
// messages that were accepted after it (never reordered within a connection, never duplicated)
func runPushFailedSendNotResentLate(c *Ctx, cooked bool) {
	var proto mangos.ProtocolBase
	if cooked {
		proto = push.NewProtocol()
	} else {
		proto = xpush.NewProtocol()
	}
	e := NewExec(c, "m.push", proto, "push")
	lastOn := map[int]int{}
	handed := map[int]int{}
	look := func() {
		for _, ev := range splitEvents(lastObs(e)) {
			if ev.kind != "tx" {
				continue
			}
			sq := seqOf(ev.msg)
			if p, dup := handed[sq]; dup {
				c.Violate(fmt.Sprintf("PUSH: message #%d handed to pipe %d and again to pipe %d", sq, p, ev.pipe), e.Replay())
			}
			handed[sq] = ev.pipe
			if lastOn[ev.pipe] >= sq {
				c.Violate(fmt.Sprintf("PUSH: pipe %d was handed message #%d after #%d — the message was in flight on a connection that failed and came back behind messages accepted after it", ev.pipe, sq, lastOn[ev.pipe]), e.Replay())
			}
			lastOn[ev.pipe] = sq
		}
	}
	if e.AddPipe(401) != "ok" {
		e.Finish()
		return
	}
	e.Hold(401, true)
	for seq := 1; seq <= 4; seq++ {
		e.Send(0, nil, []byte{'p', byte(seq >> 8), byte(seq)})
		look()
	}
	e.AddPipe(402)
	look()
	e.Release(401, false)
	look()
	e.Send(0, nil, []byte{'p', 0, 5})
	look()
	e.Finish()
}

func runPushPullScenarios(c *Ctx) {
	runPushFailedSendNotResentLate(c, true)
	runPushFailedSendNotResentLate(c, false)
	n := 100
	if c.Thorough() {
		n = 2000
	}
	for i := 0; i < n; i++ {
		runPushScenario(c, i%2 == 0, 50, []int{1, 2, 3, 128})
		runPullScenario(c, i%2 == 0, 50)
	}
	// every accepted write-queue length, including 0
	for i := 0; i < n/4+1; i++ {
		runPushScenario(c, i%2 == 0, 30, []int{0, 0, 1})
	}
}
