package main

// C12 — a failed operation leaves the object usable; nothing stays locked.
// Error-injection catalogue on real sockets and transports: each API error outcome (bad address, address in use,
// missing / certificate-less TLS configuration, refused, handshake failure, early disconnect, rejected pipe, timeouts,
// no peers, protocol state) is produced, and then the same object is used again — every follow-up call must return
// within the watchdog, and the follow-ups that correct the cause must succeed.  `er.follow` lines go to the Lean
// table Model/Retry.lean.  The static side (every path from a Lock to a return releases it) is Obl/IR.lean.

import (
	"crypto/tls"
	"fmt"
	"go.nanomsg.org/mangos/v3/protocol/sub"
	"io"
	"net"
	"os"
	"strings"
	"time"

	"go.nanomsg.org/mangos/v3"
	"go.nanomsg.org/mangos/v3/protocol/pair"
	"go.nanomsg.org/mangos/v3/protocol/pull"
	"go.nanomsg.org/mangos/v3/protocol/push"
	"go.nanomsg.org/mangos/v3/protocol/rep"
	"go.nanomsg.org/mangos/v3/protocol/req"
	"verifharness/vp"
)

func init() { props["C12"] = runC12 }

const c12watchdog = 2 * time.Second

type c12run struct {
	c    *Ctx
	cas  string
	hist []string
}

// follow runs one follow-up call under the watchdog; kind "ok" = must succeed, "any" = must return
func (r *c12run) follow(name, kind string, f func() error) string {
	done := make(chan error, 1)
	go func() {
		defer func() {
			if p := recover(); p != nil {
				done <- fmt.Errorf("panic: %v", p)
			}
		}()
		done <- f()
	}()
	res := "hang"
	select {
	case err := <-done:
		res = vp.ErrName(err)
		if strings.HasPrefix(res, "other:panic") {
			res = "panic"
		} else if strings.HasPrefix(res, "other:") {
			res = "other"
		}
	case <-time.After(c12watchdog):
	}
	r.hist = append(r.hist, fmt.Sprintf("%s -> %s", name, res))
	class := fmt.Sprintf("er %s | %s -> %s", r.cas, name, res)
	r.c.Class(class, true)
	r.c.T.Line(class, fmt.Sprintf("er.follow %s %s %s", strings.ReplaceAll(r.cas, " ", "_"), strings.ReplaceAll(name, " ", "_"), kind), res)
	bad := res == "hang" || res == "panic" || (kind == "ok" && res != "ok")
	if bad {
		what := "did not return within 2 s"
		if res == "panic" {
			what = "panicked"
		} else if res != "hang" {
			what = "failed with " + res + " although the cause of the earlier failure had been removed"
		}
		r.c.Violate(fmt.Sprintf("after %s: %s %s", r.cas, name, what),
			map[string]interface{}{"case": r.cas, "history": append([]string{}, r.hist...), "how": "cmd/corr/c12.go, real sockets and transports"})
	}
	return res
}

// a TCP port that is free right now
func freePort() int {
	l, err := net.Listen("tcp", "127.0.0.1:0")
	if err != nil {
		return 0
	}
	defer l.Close()
	return l.Addr().(*net.TCPAddr).Port
}

func c12addr(scheme string, n int) string {
	switch scheme {
	case "inproc":
		return fmt.Sprintf("inproc://verif-c12-%d-%d", os.Getpid(), n)
	case "ipc":
		return fmt.Sprintf("ipc://%s/verif-c12-%d-%d.sock", os.TempDir(), os.Getpid(), n)
	case "ws", "wss":
		return scheme + "://127.0.0.1:0/verif"
	}
	return scheme + "://127.0.0.1:0"
}

var c12seq int

func runC12(c *Ctx) {
	c.Rep.Rule = "error-injection catalogue: (object, error outcome) x follow-up calls on the same object, each under a 2 s watchdog; class = (case, follow-up, result)"
	if err := initTLS(); err != nil {
		c.Violate("cannot create TLS configuration: "+err.Error(), nil)
		return
	}
	rounds := 1
	if c.Thorough() {
		rounds = 4
	}
	// the inproc rendezvous machine: refused Listens and Dials leave the table as it was and succeed when retried after
	// the cause has gone (Props.C12.inproc_failed_calls_change_nothing, inproc_listen_succeeds_once_the_owner_closed)
	runInprocRendezvous(c)
	for round := 0; round < rounds; round++ {
		for _, scheme := range []string{"tcp", "ipc", "inproc", "ws", "tls+tcp", "wss"} {
			c12ListenErrors(c, scheme)
			c12DialErrors(c, scheme)
			c12WrongProtoPeer(c, scheme)
			c12FailedListenerClosed(c, scheme)
		}
		for _, scheme := range []string{"tcp", "ipc", "tls+tcp", "ws"} {
			c12BadPeers(c, scheme)
		}
		c12TLSConfig(c)
		c12CallErrors(c)
		c12Rejections(c)
		c12DialerRejected(c)
	}
	// the core machine over the scripted transport: failed Listen / Dial followed by retries, refusals and rejections
	// followed by redials (compared line by line with Model/Core.lean)
	n := 10
	if c.Thorough() {
		n = 150
	}
	for i := 0; i < n; i++ {
		runDialScenario(c, 7000+i)
		runCoreScenario(c, 7500+i, 25, false)
	}
}

func isTLS(scheme string) bool { return scheme == "tls+tcp" || scheme == "wss" }

func lopts(scheme string) map[string]interface{} {
	if isTLS(scheme) {
		return map[string]interface{}{mangos.OptionTLSConfig: srvTLS}
	}
	return nil
}
func dopts(scheme string) map[string]interface{} {
	if isTLS(scheme) {
		return map[string]interface{}{mangos.OptionTLSConfig: cliTLS}
	}
	return nil
}

// address in use, then the address becomes free: the same listener object can be retried; other calls keep working
func c12ListenErrors(c *Ctx, scheme string) {
	c12seq++
	r := &c12run{c: c, cas: scheme + " Listen: address in use"}
	a, _ := pair.NewSocket()
	b, _ := pair.NewSocket()
	defer a.Close()
	defer b.Close()
	la, err := a.NewListener(c12addr(scheme, c12seq), lopts(scheme))
	if err != nil || la.Listen() != nil {
		c.Rep.Notes = append(c.Rep.Notes, "c12: cannot listen on "+scheme)
		return
	}
	addr := la.Address()
	lb, err := b.NewListener(addr, lopts(scheme))
	if err != nil {
		return
	}
	first := lb.Listen()
	r.hist = append(r.hist, "second socket Listen on "+addr+" -> "+vp.ErrName(first))
	if first == nil {
		if scheme == "ws" || scheme == "wss" || scheme == "tcp" || scheme == "tls+tcp" || scheme == "ipc" || scheme == "inproc" {
			c.Violate("Listen on an address another listener is bound to succeeded ("+scheme+")", map[string]interface{}{"history": r.hist})
		}
		return
	}
	r.follow("listener.GetOption", "any", func() error { _, e := lb.GetOption(mangos.OptionMaxRecvSize); return e })
	r.follow("listener.SetOption", "any", func() error { return lb.SetOption(mangos.OptionMaxRecvSize, 1024) })
	r.follow("listener.Listen again (still in use)", "any", func() error { return lb.Listen() })
	r.follow("socket.Send with deadline", "any", func() error {
		_ = b.SetOption(mangos.OptionSendDeadline, 20*time.Millisecond)
		return b.Send([]byte("x"))
	})
	_ = la.Close()
	time.Sleep(20 * time.Millisecond)
	r.follow("listener.Listen after the address became free", "ok", func() error { return lb.Listen() })
	r.follow("listener.Close", "ok", func() error { return lb.Close() })

	// bad address
	r2 := &c12run{c: c, cas: scheme + " NewListener: bad address"}
	bad := scheme + "://"
	if scheme == "tcp" || scheme == "tls+tcp" {
		bad = scheme + "://no-such-host.invalid:70000"
	}
	_, e := b.NewListener(bad, lopts(scheme))
	r2.hist = append(r2.hist, "NewListener "+bad+" -> "+vp.ErrName(e))
	c12seq++
	r2.follow("socket.Listen on a good address", "ok", func() error {
		l, err := b.NewListener(c12addr(scheme, c12seq), lopts(scheme))
		if err != nil {
			return err
		}
		return l.Listen()
	})
}

// a Listen that failed with address-in-use leaves the listener that owns the address alone — also when the failed
// listener, or its socket, is closed afterwards
func c12FailedListenerClosed(c *Ctx, scheme string) {
	for _, how := range []string{"listener", "socket"} {
		c12seq++
		r := &c12run{c: c, cas: scheme + " Listen: address in use, then the failed " + how + " is closed"}
		a, _ := pair.NewSocket()
		b, _ := pair.NewSocket()
		la, err := a.NewListener(c12addr(scheme, c12seq), lopts(scheme))
		if err != nil || la.Listen() != nil {
			_ = a.Close()
			_ = b.Close()
			return
		}
		addr := la.Address()
		lb, err := b.NewListener(addr, lopts(scheme))
		if err == nil {
			e := lb.Listen()
			r.hist = append(r.hist, "second socket Listen on "+addr+" -> "+vp.ErrName(e))
			if how == "listener" {
				r.follow("the failed listener's Close", "any", func() error { return lb.Close() })
			}
		}
		r.follow("the failed socket's Close", "ok", func() error { return b.Close() })
		r.follow("a peer dials the listener that owns the address and talks", "ok", func() error {
			p, _ := pair.NewSocket()
			defer p.Close()
			_ = p.SetOption(mangos.OptionSendDeadline, time.Second)
			_ = a.SetOption(mangos.OptionRecvDeadline, time.Second)
			if e := p.DialOptions(addr, dopts(scheme)); e != nil {
				return e
			}
			time.Sleep(30 * time.Millisecond)
			if e := p.Send([]byte("hello")); e != nil {
				return e
			}
			_, e := a.Recv()
			return e
		})
		_ = a.Close()
	}
}

// refused, then a listener appears: the same dialer object can be retried
func c12DialErrors(c *Ctx, scheme string) {
	c12seq++
	r := &c12run{c: c, cas: scheme + " Dial: nobody listening"}
	a, _ := pair.NewSocket()
	b, _ := pair.NewSocket()
	defer a.Close()
	defer b.Close()
	// find an address: listen, note it, close
	la, err := a.NewListener(c12addr(scheme, c12seq), lopts(scheme))
	if err != nil || la.Listen() != nil {
		return
	}
	addr := la.Address()
	_ = la.Close()
	time.Sleep(10 * time.Millisecond)
	d, err := b.NewDialer(addr, dopts(scheme))
	if err != nil {
		return
	}
	_ = d.SetOption(mangos.OptionDialAsynch, false)
	first := d.Dial()
	r.hist = append(r.hist, "Dial "+addr+" -> "+vp.ErrName(first))
	if first == nil {
		return
	}
	r.follow("dialer.GetOption", "any", func() error { _, e := d.GetOption(mangos.OptionReconnectTime); return e })
	r.follow("dialer.SetOption", "any", func() error { return d.SetOption(mangos.OptionReconnectTime, 10*time.Millisecond) })
	res := r.follow("dialer.Dial again (still nobody)", "any", func() error { return d.Dial() })
	if res == "addrinuse" {
		c.Violate("after a refused Dial the dialer reports address-in-use instead of trying again ("+scheme+")", map[string]interface{}{"history": r.hist})
	}
	// now somebody listens there
	a2, _ := pair.NewSocket()
	defer a2.Close()
	l2, err := a2.NewListener(addr, lopts(scheme))
	if err != nil || l2.Listen() != nil {
		r.hist = append(r.hist, "re-listen failed")
		return
	}
	r.follow("dialer.Dial after a listener appeared", "ok", func() error { return d.Dial() })
	r.follow("exchange over the new connection", "ok", func() error {
		_ = b.SetOption(mangos.OptionSendDeadline, time.Second)
		_ = a2.SetOption(mangos.OptionRecvDeadline, time.Second)
		time.Sleep(30 * time.Millisecond)
		if e := b.Send([]byte("hello")); e != nil {
			return e
		}
		_, e := a2.Recv()
		return e
	})
	r.follow("dialer.Close", "ok", func() error { return d.Close() })

	r2 := &c12run{c: c, cas: scheme + " NewDialer: bad address"}
	_, e := b.NewDialer(scheme+"://", dopts(scheme))
	r2.hist = append(r2.hist, "NewDialer -> "+vp.ErrName(e))
	r2.follow("socket.NewDialer on a good address", "ok", func() error { _, e := b.NewDialer(addr, dopts(scheme)); return e })
}

// peers that connect and misbehave during the handshake must not stop the listener
func c12BadPeers(c *Ctx, scheme string) {
	c12seq++
	a, _ := pair.NewSocket()
	defer a.Close()
	l, err := a.NewListener(c12addr(scheme, c12seq), lopts(scheme))
	if err != nil || l.Listen() != nil {
		return
	}
	addr := l.Address()
	raw := func() (net.Conn, error) {
		u := strings.SplitN(addr, "://", 2)
		if scheme == "ipc" {
			return net.DialTimeout("unix", u[1], time.Second)
		}
		host := strings.SplitN(u[1], "/", 2)[0]
		return net.DialTimeout("tcp", host, time.Second)
	}
	kinds := []string{"connects and closes at once", "reads our header and hangs up", "sends half a header and hangs up", "sends garbage", "sends a wrong protocol header", "connects and stays silent"}
	var keep []net.Conn
	for _, k := range kinds {
		r := &c12run{c: c, cas: scheme + " listener: a peer " + k}
		cn, err := raw()
		if err != nil {
			r.hist = append(r.hist, "raw connect failed: "+err.Error())
			continue
		}
		switch k {
		case "connects and closes at once":
			_ = cn.Close()
		case "reads our header and hangs up":
			// a clean end of stream where the peer's header was expected (not a reset)
			hdr := make([]byte, 8)
			_ = cn.SetReadDeadline(time.Now().Add(time.Second))
			_, _ = io.ReadFull(cn, hdr)
			_ = cn.Close()
		case "sends half a header and hangs up":
			hdr := make([]byte, 8)
			_ = cn.SetReadDeadline(time.Now().Add(time.Second))
			_, _ = io.ReadFull(cn, hdr)
			_, _ = cn.Write([]byte{0, 'S', 'P', 0})
			_ = cn.Close()
		case "sends garbage":
			_, _ = cn.Write([]byte("GET / HTTP/1.0\r\n\r\n\x00\x01\x02\x03garbage-garbage-garbage"))
			_ = cn.Close()
		case "sends a wrong protocol header":
			_, _ = cn.Write([]byte{0, 'S', 'P', 0, 0, 0x51, 0, 0})
			time.Sleep(10 * time.Millisecond)
			_ = cn.Close()
		default:
			keep = append(keep, cn)
		}
		time.Sleep(30 * time.Millisecond)
		r.follow("listener.GetOption", "any", func() error { _, e := l.GetOption(mangos.OptionMaxRecvSize); return e })
		r.follow("a well-behaved peer connects and talks", "ok", func() error {
			b, _ := pair.NewSocket()
			defer b.Close()
			_ = b.SetOption(mangos.OptionSendDeadline, time.Second)
			_ = a.SetOption(mangos.OptionRecvDeadline, time.Second)
			if e := b.DialOptions(addr, dopts(scheme)); e != nil {
				return e
			}
			time.Sleep(30 * time.Millisecond)
			if e := b.Send([]byte("hello")); e != nil {
				return e
			}
			_, e := a.Recv()
			return e
		})
	}
	for _, cn := range keep {
		_ = cn.Close()
	}
}

// a socket of the wrong protocol dials (a mangos socket, on every transport including inproc): it is turned away, and
// the listener keeps admitting the right peers afterwards
func c12WrongProtoPeer(c *Ctx, scheme string) {
	c12seq++
	a, _ := pair.NewSocket()
	defer a.Close()
	l, err := a.NewListener(c12addr(scheme, c12seq), lopts(scheme))
	if err != nil || l.Listen() != nil {
		return
	}
	addr := l.Address()
	r := &c12run{c: c, cas: scheme + " listener: a socket of another protocol (SUB to a PAIR listener) dials"}
	for i := 0; i < 2; i++ {
		w, _ := sub.NewSocket()
		_ = w.SetOption(mangos.OptionDialAsynch, false)
		r.follow("the wrong-protocol Dial returns", "any", func() error { return w.DialOptions(addr, dopts(scheme)) })
		time.Sleep(20 * time.Millisecond)
		_ = w.Close()
	}
	r.follow("listener.GetOption", "any", func() error { _, e := l.GetOption(mangos.OptionMaxRecvSize); return e })
	for i := 0; i < 2; i++ {
		r.follow("a peer of the right protocol connects and talks", "ok", func() error {
			b, _ := pair.NewSocket()
			defer b.Close()
			_ = b.SetOption(mangos.OptionSendDeadline, time.Second)
			_ = a.SetOption(mangos.OptionRecvDeadline, time.Second)
			if e := b.DialOptions(addr, dopts(scheme)); e != nil {
				return e
			}
			time.Sleep(30 * time.Millisecond)
			if e := b.Send([]byte("hello")); e != nil {
				return e
			}
			_, e := a.Recv()
			return e
		})
		time.Sleep(30 * time.Millisecond)
	}
	r.follow("listener.Close", "ok", func() error { return l.Close() })
}

// TLS configuration errors can be corrected on the same listener / dialer
func c12TLSConfig(c *Ctx) {
	for _, scheme := range []string{"tls+tcp", "wss"} {
		for vi, variant := range []string{"no TLS configuration", "TLS configuration without a certificate", "nil *tls.Config as TLS configuration",
			"no TLS configuration", "TLS configuration without a certificate", "nil *tls.Config as TLS configuration"} {
			c12seq++
			r := &c12run{c: c, cas: scheme + " Listen: " + variant}
			laddr := c12addr(scheme, c12seq)
			if vi >= 3 {
				// the same on a port of the application's choosing: a failed Listen must not keep the port
				r.cas += " (fixed port)"
				laddr = strings.Replace(laddr, ":0", fmt.Sprintf(":%d", freePort()), 1)
			}
			a, _ := pair.NewSocket()
			var o map[string]interface{}
			switch variant {
			case "TLS configuration without a certificate":
				o = map[string]interface{}{mangos.OptionTLSConfig: &tls.Config{}}
			case "nil *tls.Config as TLS configuration":
				o = map[string]interface{}{mangos.OptionTLSConfig: (*tls.Config)(nil)}
			}
			l, err := a.NewListener(laddr, o)
			if err != nil {
				r.hist = append(r.hist, "NewListener -> "+vp.ErrName(err))
				_ = a.Close()
				continue
			}
			var first error
			if r.follow("listener.Listen", "any", func() error { first = l.Listen(); return first }) == "panic" {
				_ = a.Close()
				continue
			}
			if first == nil {
				c.Violate("Listen succeeded with "+variant+" ("+scheme+")", map[string]interface{}{"history": r.hist})
			}
			r.follow("listener.GetOption(TLS-CONFIG)", "any", func() error { _, e := l.GetOption(mangos.OptionTLSConfig); return e })
			r.follow("listener.SetOption(TLS-CONFIG, proper configuration)", "ok", func() error { return l.SetOption(mangos.OptionTLSConfig, srvTLS) })
			r.follow("listener.Listen after the configuration was corrected", "ok", func() error { return l.Listen() })
			r.follow("a peer connects and talks", "ok", func() error {
				b, _ := pair.NewSocket()
				defer b.Close()
				_ = b.SetOption(mangos.OptionSendDeadline, time.Second)
				_ = a.SetOption(mangos.OptionRecvDeadline, time.Second)
				if e := b.DialOptions(l.Address(), dopts(scheme)); e != nil {
					return e
				}
				time.Sleep(30 * time.Millisecond)
				if e := b.Send([]byte("hello")); e != nil {
					return e
				}
				_, e := a.Recv()
				return e
			})
			r.follow("socket.Close", "ok", func() error { return a.Close() })
		}
		// dialer without configuration
		c12seq++
		r := &c12run{c: c, cas: scheme + " Dial: no TLS configuration"}
		a, _ := pair.NewSocket()
		b, _ := pair.NewSocket()
		l, err := a.NewListener(c12addr(scheme, c12seq), lopts(scheme))
		if err == nil && l.Listen() == nil {
			d, err := b.NewDialer(l.Address(), nil)
			if err == nil {
				first := d.Dial()
				r.hist = append(r.hist, "Dial -> "+vp.ErrName(first))
				r.follow("dialer.SetOption(TLS-CONFIG, proper configuration)", "ok", func() error { return d.SetOption(mangos.OptionTLSConfig, cliTLS) })
				if first != nil {
					r.follow("dialer.Dial after the configuration was corrected", "ok", func() error { return d.Dial() })
				}
			}
		}
		_ = a.Close()
		_ = b.Close()
	}
}

// call-level errors: timeouts, no peers, protocol state — the next call works
func c12CallErrors(c *Ctx) {
	c12seq++
	{
		r := &c12run{c: c, cas: "PUSH Send: timeout with no peer"}
		s, _ := push.NewSocket()
		_ = s.SetOption(mangos.OptionSendDeadline, 20*time.Millisecond)
		first := s.Send([]byte("x"))
		r.hist = append(r.hist, "Send -> "+vp.ErrName(first))
		p, _ := pull.NewSocket()
		addr := c12addr("inproc", c12seq)
		_ = p.Listen(addr)
		r.follow("socket.Dial", "ok", func() error { return s.Dial(addr) })
		r.follow("socket.Send once a peer is there", "ok", func() error {
			_ = s.SetOption(mangos.OptionSendDeadline, time.Second)
			time.Sleep(20 * time.Millisecond)
			return s.Send([]byte("y"))
		})
		r.follow("peer Recv", "ok", func() error {
			_ = p.SetOption(mangos.OptionRecvDeadline, time.Second)
			_, e := p.Recv()
			return e
		})
		r.follow("peer Recv timeout", "any", func() error {
			_ = p.SetOption(mangos.OptionRecvDeadline, 20*time.Millisecond)
			_, e := p.Recv()
			return e
		})
		r.follow("Send / Recv after a receive timeout", "ok", func() error {
			if e := s.Send([]byte("z")); e != nil {
				return e
			}
			_ = p.SetOption(mangos.OptionRecvDeadline, time.Second)
			_, e := p.Recv()
			return e
		})
		_ = s.Close()
		_ = p.Close()
	}
	c12seq++
	{
		r := &c12run{c: c, cas: "PUSH Send: fail-no-peers"}
		s, _ := push.NewSocket()
		_ = s.SetOption(mangos.OptionFailNoPeers, true)
		first := s.Send([]byte("x"))
		r.hist = append(r.hist, "Send -> "+vp.ErrName(first))
		p, _ := pull.NewSocket()
		addr := c12addr("inproc", c12seq)
		_ = p.Listen(addr)
		r.follow("socket.Dial", "ok", func() error { return s.Dial(addr) })
		r.follow("socket.Send once a peer is there", "ok", func() error { time.Sleep(20 * time.Millisecond); return s.Send([]byte("y")) })
		_ = s.Close()
		_ = p.Close()
	}
	c12seq++
	{
		r := &c12run{c: c, cas: "REQ Recv without a request / REP Send without a request"}
		q, _ := req.NewSocket()
		p, _ := rep.NewSocket()
		_, e1 := q.Recv()
		e2 := p.Send([]byte("x"))
		r.hist = append(r.hist, "REQ Recv -> "+vp.ErrName(e1), "REP Send -> "+vp.ErrName(e2))
		addr := c12addr("inproc", c12seq)
		_ = p.Listen(addr)
		r.follow("REQ Dial", "ok", func() error { return q.Dial(addr) })
		r.follow("request / reply round trip", "ok", func() error {
			_ = q.SetOption(mangos.OptionRecvDeadline, time.Second)
			_ = p.SetOption(mangos.OptionRecvDeadline, time.Second)
			if e := q.Send([]byte("ping")); e != nil {
				return e
			}
			if _, e := p.Recv(); e != nil {
				return e
			}
			if e := p.Send([]byte("pong")); e != nil {
				return e
			}
			_, e := q.Recv()
			return e
		})
		_ = q.Close()
		_ = p.Close()
	}
	// a REQ call that failed because another call took its place (cancelled by a newer Send, timed out) leaves the
	// context usable: the next request gets its reply
	for _, kind := range []string{"Recv cancelled by a newer Send", "Recv timed out", "Send timed out (no peer)"} {
		c12seq++
		r := &c12run{c: c, cas: "REQ: " + kind}
		q, _ := req.NewSocket()
		p, _ := rep.NewSocket()
		addr := c12addr("inproc", c12seq)
		_ = p.Listen(addr)
		_ = p.SetOption(mangos.OptionRecvDeadline, time.Second)
		switch kind {
		case "Recv cancelled by a newer Send":
			_ = q.Dial(addr)
			time.Sleep(20 * time.Millisecond)
			_ = q.SetOption(mangos.OptionRecvDeadline, 2*time.Second)
			_ = q.Send([]byte("first"))
			res := make(chan error, 1)
			go func() { _, e := q.Recv(); res <- e }()
			time.Sleep(30 * time.Millisecond)
			e2 := q.Send([]byte("second"))
			var e1 error
			select {
			case e1 = <-res:
			case <-time.After(3 * time.Second):
				e1 = fmt.Errorf("hang")
			}
			r.hist = append(r.hist, "Send first; Recv (blocks); Send second -> "+vp.ErrName(e2)+"; the blocked Recv -> "+vp.ErrName(e1))
			// drain what the server has got so far
			for i := 0; i < 2; i++ {
				if _, e := p.Recv(); e == nil {
					_ = p.Send([]byte("pong"))
				}
			}
			r.follow("Recv of the reply to the second request", "ok", func() error { _, e := q.Recv(); return e })
		case "Recv timed out":
			_ = q.Dial(addr)
			time.Sleep(20 * time.Millisecond)
			_ = q.SetOption(mangos.OptionRecvDeadline, 30*time.Millisecond)
			_ = q.Send([]byte("unanswered"))
			_, e1 := q.Recv()
			r.hist = append(r.hist, "Send; Recv with a 30 ms deadline, server silent -> "+vp.ErrName(e1))
			if _, e := p.Recv(); e == nil {
				_ = p.Send([]byte("late"))
			}
		default:
			_ = q.SetOption(mangos.OptionSendDeadline, 30*time.Millisecond)
			e1 := q.Send([]byte("nobody"))
			r.hist = append(r.hist, "Send with a 30 ms deadline and no peer -> "+vp.ErrName(e1))
			_ = q.Dial(addr)
			time.Sleep(20 * time.Millisecond)
		}
		r.follow("a fresh request / reply round trip on the same socket", "ok", func() error {
			_ = q.SetOption(mangos.OptionRecvDeadline, time.Second)
			_ = q.SetOption(mangos.OptionSendDeadline, time.Second)
			if e := q.Send([]byte("ping")); e != nil {
				return e
			}
			for {
				m, e := p.Recv()
				if e != nil {
					return e
				}
				if string(m) == "ping" {
					break
				}
				_ = p.Send([]byte("stale"))
			}
			if e := p.Send([]byte("pong")); e != nil {
				return e
			}
			_, e := q.Recv()
			return e
		})
		_ = q.Close()
		_ = p.Close()
	}
}

// a dialer whose connection the local protocol refuses (PAIR already has a peer) keeps redialling and gets in once
// the first peer has gone
func c12DialerRejected(c *Ctx) {
	c12seq++
	r := &c12run{c: c, cas: "PAIR dialer: the local protocol refuses the connection (a peer is already established)"}
	x, _ := pair.NewSocket() // the socket with two dialers
	p1, _ := pair.NewSocket()
	p2, _ := pair.NewSocket()
	defer x.Close()
	defer p2.Close()
	a1, a2 := c12addr("inproc", c12seq), c12addr("inproc", c12seq+100000)
	_ = p1.Listen(a1)
	_ = p2.Listen(a2)
	_ = x.SetOption(mangos.OptionReconnectTime, 10*time.Millisecond)
	_ = x.SetOption(mangos.OptionMaxReconnectTime, 20*time.Millisecond)
	e1 := x.Dial(a1)
	time.Sleep(20 * time.Millisecond)
	e2 := x.DialOptions(a2, map[string]interface{}{mangos.OptionDialAsynch: true})
	r.hist = append(r.hist, "Dial first peer -> "+vp.ErrName(e1), "Dial second peer (refused by PAIR while the first is established) -> "+vp.ErrName(e2))
	time.Sleep(40 * time.Millisecond)
	_ = p1.Close()
	r.hist = append(r.hist, "first peer closed")
	r.follow("the refused dialer connects once the first peer has gone", "ok", func() error {
		_ = x.SetOption(mangos.OptionSendDeadline, 100*time.Millisecond)
		_ = p2.SetOption(mangos.OptionRecvDeadline, 100*time.Millisecond)
		var err error
		for i := 0; i < 12; i++ {
			if err = x.Send([]byte("hello")); err == nil {
				if _, err = p2.Recv(); err == nil {
					return nil
				}
			}
			time.Sleep(20 * time.Millisecond)
		}
		return err
	})
}

// rejected pipes: a pipe closed by the hook during Attaching, and a peer the protocol refuses, do not stop the
// listener from accepting nor the dialer from redialling
func c12Rejections(c *Ctx) {
	for _, scheme := range []string{"inproc", "tcp"} {
		c12seq++
		r := &c12run{c: c, cas: scheme + " listener: the hook closes a pipe during Attaching"}
		a, _ := pull.NewSocket()
		n := 0
		a.SetPipeEventHook(func(ev mangos.PipeEvent, p mangos.Pipe) {
			if ev == mangos.PipeEventAttaching {
				n++
				if n == 1 {
					_ = p.Close()
				}
			}
		})
		l, err := a.NewListener(c12addr(scheme, c12seq), nil)
		if err != nil || l.Listen() != nil {
			_ = a.Close()
			continue
		}
		b1, _ := push.NewSocket()
		_ = b1.SetOption(mangos.OptionReconnectTime, 10*time.Millisecond)
		_ = b1.SetOption(mangos.OptionMaxReconnectTime, 20*time.Millisecond)
		e := b1.Dial(l.Address())
		r.hist = append(r.hist, "first peer dials (its pipe is closed by the hook) -> "+vp.ErrName(e))
		time.Sleep(30 * time.Millisecond)
		r.follow("listener.GetOption", "any", func() error { _, e := l.GetOption(mangos.OptionMaxRecvSize); return e })
		r.follow("second peer connects and its message arrives", "ok", func() error {
			b2, _ := push.NewSocket()
			defer b2.Close()
			_ = b2.SetOption(mangos.OptionSendDeadline, time.Second)
			_ = a.SetOption(mangos.OptionRecvDeadline, time.Second)
			if e := b2.Dial(l.Address()); e != nil {
				return e
			}
			time.Sleep(30 * time.Millisecond)
			if e := b2.Send([]byte("hello")); e != nil {
				return e
			}
			_, e := a.Recv()
			return e
		})
		r.follow("the rejected peer's dialer reconnects and is accepted", "ok", func() error {
			_ = b1.SetOption(mangos.OptionSendDeadline, time.Second)
			_ = a.SetOption(mangos.OptionRecvDeadline, time.Second)
			time.Sleep(60 * time.Millisecond)
			if e := b1.Send([]byte("again")); e != nil {
				return e
			}
			_, e := a.Recv()
			return e
		})
		r.follow("socket.Close", "ok", func() error { return a.Close() })
		_ = b1.Close()
	}
}
