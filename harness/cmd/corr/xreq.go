package main

// The send side of the raw REQ socket (XREQ, what devices are made of) against Model/Proto/Xreq.lean, machine `m.xreq`:
// one queue, a sender goroutine per pipe that takes the next message whenever it is not inside its pipe's SendMsg.
// Which of several waiting goroutines takes a message is the runtime's choice; the machine admits every choice.  The
// oracle is the theorem's statement on the observations: every accepted message reaches exactly one pipe, once, and
// each pipe is handed its messages in the order they were accepted.

import (
	"fmt"

	"go.nanomsg.org/mangos/v3"
	"go.nanomsg.org/mangos/v3/protocol/xreq"
)

func runXreqScenario(c *Ctx, nops int) {
	e := NewExec(c, "m.xreq", xreq.NewProtocol(), "xreq")
	pipes := []int{}
	held := map[int]bool{}
	next := 450
	seq := 0
	handed := map[int]int{}
	lastOn := map[int]int{}
	be, beSends := false, 0 // a best-effort Send with room may or may not drop its message, and nothing shows which: keep those few
	if q := c.R.Pick(128, 128, 1, 2, 3); q != 128 {
		e.SetOpt(0, mangos.OptionWriteQLen, fmt.Sprint(q), q)
	}
	look := func() {
		for _, ev := range splitEvents(lastObs(e)) {
			switch ev.kind {
			case "tx":
				sq := seqOf(ev.msg)
				if p, dup := handed[sq]; dup {
					c.Violate(fmt.Sprintf("XREQ: message #%d handed to pipe %d and again to pipe %d", sq, p, ev.pipe), e.Replay())
				}
				handed[sq] = ev.pipe
				if lastOn[ev.pipe] >= sq {
					c.Violate(fmt.Sprintf("XREQ: pipe %d was handed message #%d after #%d", ev.pipe, sq, lastOn[ev.pipe]), e.Replay())
				}
				lastOn[ev.pipe] = sq
				if len(ev.hdr) != 4 || ev.hdr[0]&0x80 == 0 {
					c.Violate(fmt.Sprintf("XREQ: message #%d left with header %x, not the request id it was given", sq, ev.hdr), e.Replay())
				}
			case "closed":
				for i, p := range pipes {
					if p == ev.pipe {
						pipes = append(pipes[:i:i], pipes[i+1:]...)
						break
					}
				}
				delete(held, ev.pipe)
			}
		}
	}
	for i := 0; i < nops && !e.broken; i++ {
		n0 := len(e.ops)
		switch k := c.R.Intn(20); {
		case k < 9:
			if be && beSends >= 4 {
				be = false
				e.SetOpt(0, mangos.OptionBestEffort, "false", false)
			}
			if be {
				beSends++
			}
			seq++
			e.Send(0, be32(0x80000000|uint32(seq)), seqBody(c, seq))
			look()
		case k < 12:
			if len(pipes) < 3 {
				next++
				if e.AddPipe(next) == "ok" {
					pipes = append(pipes, next)
				}
				look()
			}
		case k < 14:
			if len(pipes) > 0 {
				p := pipes[c.R.Intn(len(pipes))]
				held[p] = !held[p]
				e.Hold(p, held[p])
			}
		case k < 18:
			if len(pipes) > 0 {
				p := pipes[c.R.Intn(len(pipes))]
				e.Release(p, c.R.Intn(8) != 0)
				if len(e.ops) > n0 {
					look()
				}
			}
		case k == 18:
			if len(pipes) > 0 && c.R.Intn(2) == 0 {
				e.RmPipe(pipes[c.R.Intn(len(pipes))])
				look()
			}
		default:
			v := c.R.Intn(3) == 0 && beSends < 4
			be = v
			e.SetOpt(0, mangos.OptionBestEffort, fmt.Sprint(v), v)
		}
	}
	e.Finish()
}
