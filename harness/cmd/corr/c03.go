package main

import (
	"encoding/binary"
	"fmt"
	"sort"
	"strings"
	"time"

	"go.nanomsg.org/mangos/v3"
	"go.nanomsg.org/mangos/v3/protocol/req"
)

func init() {
	props["C03"] = runC03
	props["C04"] = runC04
}

type reqScenarioCfg struct {
	deadlines bool // C03/C18: short send and receive deadlines with real sleeps across them
	nops      int
	retryMs   int  // RETRY-TIME for all contexts
	faults    bool // C04: pipe losses, silent peers, slow sends, retry expiry
	noRetry   bool
}

// one REQ scenario; the harness plays the REP peers at message level
func runReqScenario(c *Ctx, cfg reqScenarioCfg) {
	e := NewExec(c, "m.req", req.NewProtocol(), "req")
	e.timed, e.canonIDs = true, true
	pipes := []int{}
	held := map[int]bool{}
	next := 900
	ctxs := []int{0}
	closedCtx := map[int]bool{}
	cur := map[int]uint32{}          // ctx -> canonical id of its current request (0 none)
	payloadOf := map[uint32][]byte{} // request id -> payload
	done := map[uint32]string{}      // request id -> "answered" | "cancelled"
	issued := []uint32{}
	parkedRecv := map[int]int{}
	callCtx := map[int]int{}
	callKind := map[int]string{}
	recvFor := map[int]uint32{}
	txTimes := map[uint32][]time.Time{}
	issuedAt := map[uint32]time.Time{}
	quietAt := map[uint32]time.Time{} // when the observation of the operation that finished a request (answered / cancelled) was complete
	armLB := map[uint32]time.Time{}   // earliest moment the latest transmission of a request can have been scheduled (its retry timer armed)
	lastTxPipe := map[uint32]int{}
	lostAt := map[uint32]time.Time{} // when the pipe carrying the latest copy was lost
	maybeCancelled := map[uint32]bool{}
	sendReq := map[int]uint32{}
	lateFor := map[int]uint32{}
	tag := 0
	rmFromList := func(p int) {
		for i, q := range pipes {
			if q == p {
				pipes = append(pipes[:i:i], pipes[i+1:]...)
				return
			}
		}
		delete(held, p)
	}
	retry := time.Duration(cfg.retryMs) * time.Millisecond
	fromRelease := false
	look := func() {
		now := time.Now()
		evs := splitEvents(lastObs(e))
		// connection losses first: a re-send caused by the loss is listed before it in the observation
		closedNow := map[int]bool{}
		for _, ev := range evs {
			if ev.kind == "closed" {
				closedNow[ev.pipe] = true
				rmFromList(ev.pipe)
				for id, p := range lastTxPipe {
					if p == ev.pipe && done[id] == "" {
						lostAt[id] = now
					}
				}
				if cfg.noRetry {
					// a request handed to this pipe (possibly still inside a slow send) is cancelled with it
					for _, id := range issued {
						if done[id] == "" && (lastTxPipe[id] == ev.pipe || len(txTimes[id]) == 0) {
							maybeCancelled[id] = true
						}
					}
				}
			}
		}
		// attach to every transmission the moment the protocol handed it to the pipe (which is when its retry timer is
		// re-armed; for a held pipe the completion comes later), and look at them in time order
		type timedEv struct {
			ev event
			t  time.Time
		}
		var txs []timedEv
		txi := 0
		for _, ev := range evs {
			if ev.kind == "tx" {
				t := now
				if txi < len(e.lastTx) {
					t = e.lastTx[txi].T0
				}
				txi++
				txs = append(txs, timedEv{ev, t})
			}
		}
		sort.SliceStable(txs, func(i, j int) bool { return txs[i].t.Before(txs[j].t) })
		ordered := []timedEv{}
		ordered = append(ordered, txs...)
		for _, ev := range evs {
			if ev.kind != "tx" {
				ordered = append(ordered, timedEv{ev, now})
			}
		}
		for _, te := range ordered {
			ev, now := te.ev, te.t
			switch ev.kind {
			case "tx":
				if len(ev.hdr) != 4 {
					c.Violate(fmt.Sprintf("REQ: a request was transmitted with header %x", ev.hdr), e.Replay())
					continue
				}
				id := binary.BigEndian.Uint32(ev.hdr)
				if want, ok := payloadOf[id]; !ok || string(want) != string(ev.msg) {
					c.Violate(fmt.Sprintf("REQ: transmission of request %#x carries body %x; the request was %x (retransmissions must be byte-identical)", id, ev.msg, want), e.Replay())
				}
				// "never after completion": a transmission handed to a pipe's sender goroutine just before the request was
				// finished reaches the pipe a moment later (the goroutine cannot be called back), and a retry timer may fire
				// between two operations; only a transmission that reaches a pipe after the system was seen quiescent *after*
				// the finishing operation is one that the finished request caused
				if why, fin := done[id]; fin && !fromRelease && !quietAt[id].IsZero() && now.After(quietAt[id]) {
					c.Violate(fmt.Sprintf("REQ: request %#x was transmitted again after it had been %s", id, why), e.Replay())
				}
				// "never before the retry time": the retry timer is armed when the scheduler hands the request to a pipe's
				// sender goroutine; what is observed is when that goroutine calls the pipe, any time later.  A transmission
				// caused by an operation (Send, a new or lost connection) was scheduled no earlier than that operation began;
				// one caused by the retry timer no earlier than one retry time after the previous one was scheduled.  The gap
				// between two *observed* calls proves nothing (the earlier goroutine may have been late) — the chain of
				// lower bounds does.
				if n := len(txTimes[id]); n > 0 && cfg.retryMs > 0 && !fromRelease {
					_, lost := lostAt[id]
					if !lost {
						lb := armLB[id].Add(retry)
						if now.Before(lb.Add(-2 * time.Millisecond)) {
							c.Violate(fmt.Sprintf("REQ: request %#x retransmitted %v before its retry time (%v) can have elapsed since the previous transmission was scheduled, although its connection is still up", id, lb.Sub(now), retry), e.Replay())
						}
						armLB[id] = lb
					} else {
						armLB[id] = e.prevObsEnd
					}
				} else if fromRelease {
					// a transmission that was parked inside a held pipe: it was scheduled at some earlier moment — no earlier
					// than the previous one (the bound stays where it was), or, for the first one, than the request was issued
					if len(txTimes[id]) == 0 {
						armLB[id] = issuedAt[id]
					}
				} else {
					armLB[id] = e.prevObsEnd
				}
				if cfg.noRetry && len(txTimes[id]) > 0 {
					c.Violate(fmt.Sprintf("REQ: request %#x was re-sent although retries are disabled", id), e.Replay())
				}
				delete(lostAt, id)
				txTimes[id] = append(txTimes[id], now)
				lastTxPipe[id] = ev.pipe
				if closedNow[ev.pipe] {
					// handed to a connection that is lost within this very observation: what follows is the re-send the loss causes
					lostAt[id] = now
				}
			case "ret":
				cx, ok := callCtx[ev.call]
				if !ok {
					continue
				}
				if callKind[ev.call] == "send" && ev.err != "ok" && ev.err != "" {
					// the Send failed (deadline, closed, no peers): its request was never accepted
					if id := sendReq[ev.call]; id != 0 {
						done[id] = "cancelled"
						if cur[cx] == id {
							cur[cx] = 0
						}
					}
				}
				if callKind[ev.call] == "recv" {
					if parkedRecv[cx] == ev.call {
						delete(parkedRecv, cx)
					}
					if ev.msg != nil {
						if len(ev.hdr) != 4 {
							c.Violate(fmt.Sprintf("REQ: Recv returned a reply with header %x", ev.hdr), e.Replay())
							continue
						}
						id := binary.BigEndian.Uint32(ev.hdr)
						if id != cur[cx] || id != recvFor[ev.call] {
							c.Violate(fmt.Sprintf("REQ: context %d received the reply to request %#x; its current request is %#x", cx, id, cur[cx]), e.Replay())
						}
						if done[id] == "answered" {
							c.Violate(fmt.Sprintf("REQ: a second reply to request %#x was delivered", id), e.Replay())
						}
						done[id] = "answered"
						cur[cx] = 0
					} else if ev.err == "protostate" && cur[cx] != 0 && recvFor[ev.call] == cur[cx] && done[cur[cx]] == "" && !closedCtx[cx] && !maybeCancelled[cur[cx]] {
						c.Violate(fmt.Sprintf("REQ: Recv on context %d failed with a protocol-state error although request %#x is outstanding", cx, cur[cx]), e.Replay())
					} else if ev.err == "canceled" || ev.err == "closed" || ev.err == "nopeers" || ev.err == "recvtimeout" {
						if id := recvFor[ev.call]; id != 0 && cur[cx] == id {
							done[id] = "cancelled"
							cur[cx] = 0
							if ev.err == "recvtimeout" || ev.err == "canceled" {
								lateFor[cx] = id // directed follow-up: a late reply to this abandoned request
							}
						}
					}
				}
			}
		}
		// requests finished by (or before) the operation just observed: the system was quiescent at the end of that
		// observation, after they were finished
		for id := range done {
			if quietAt[id].IsZero() {
				quietAt[id] = e.obsEnd
			}
		}
	}
	addPipe := func() {
		next++
		if e.AddPipe(next) == "ok" {
			pipes = append(pipes, next)
		}
		look()
	}
	newRequest := func(cx int) {
		tag++
		body := []byte{'q', byte(tag >> 8), byte(tag)}
		if old := cur[cx]; old != 0 && done[old] == "" {
			done[old] = "cancelled" // a new Send abandons the previous request
		}
		k := uint32(e.nsent+1) | 0x80000000
		payloadOf[k] = body
		issuedAt[k] = time.Now() // the request cannot be scheduled before it exists
		id := e.Send(cx, nil, body)
		callCtx[id], callKind[id] = cx, "send"
		sendReq[id] = k
		cur[cx] = k
		issued = append(issued, k)
		delete(parkedRecv, cx)
		// the Send's own result is part of this observation: look at it with cur already set
		look()
	}
	addPipe()
	if cfg.deadlines {
		e.SetOpt(0, mangos.OptionRecvDeadline, "40", 40*time.Millisecond)
		e.SetOpt(0, mangos.OptionSendDeadline, "40", 40*time.Millisecond)
	}
	e.SetOpt(0, mangos.OptionRetryTime, fmt.Sprint(cfg.retryMs), retry)
	newRequest(0)
	if !e.idKnown {
		c.Violate("REQ: the first request was not transmitted to the connected, idle peer", e.Replay())
		e.Finish()
		return
	}
	for i := 0; i < cfg.nops && !e.broken; i++ {
		n0 := len(e.ops)
		cx := ctxs[c.R.Intn(len(ctxs))]
		// directed: the reply to a request that timed out / was cancelled arrives after the context has moved on
		for lc, old := range lateFor {
			delete(lateFor, lc)
			if closedCtx[lc] || len(pipes) == 0 || c.R.Intn(2) == 0 {
				continue
			}
			if _, busy := parkedRecv[lc]; busy {
				continue
			}
			newRequest(lc)
			e.InjectCanon(pipes[c.R.Intn(len(pipes))], append(be32(old), 'l', 'a', 't', 'e'))
			look()
			id := e.Recv(lc)
			callCtx[id], callKind[id] = lc, "recv"
			recvFor[id] = cur[lc]
			parkedRecv[lc] = id
			look()
			break
		}
		switch k := c.R.Intn(30); {
		case k < 5:
			if !closedCtx[cx] {
				newRequest(cx)
			}
		case k < 14: // a reply arrives (on any pipe)
			if len(pipes) == 0 {
				continue
			}
			p := pipes[c.R.Intn(len(pipes))]
			var word uint32
			switch c.R.Intn(9) {
			case 0, 1, 2, 3:
				word = cur[cx]
			case 4:
				if len(issued) > 0 {
					word = issued[c.R.Intn(len(issued))] // possibly stale, cancelled, answered, or another context's
				}
			case 5:
				word = uint32(e.nsent+2+c.R.Intn(5)) | 0x80000000
			case 6:
				word = cur[cx] &^ 0x80000000
			case 7:
				word = uint32(c.R.U64())
			default:
				word = cur[ctxs[c.R.Intn(len(ctxs))]]
			}
			body := append(be32(word), 'a', byte(c.R.Intn(250)))
			if c.R.Intn(10) == 0 {
				body = body[:c.R.Intn(4)]
			}
			e.InjectCanon(p, body)
			look()
			if c.R.Intn(4) == 0 { // duplicate
				e.InjectCanon(p, body)
				look()
			}
		case k < 20:
			if _, busy := parkedRecv[cx]; busy || closedCtx[cx] {
				continue
			}
			id := e.Recv(cx)
			callCtx[id], callKind[id] = cx, "recv"
			recvFor[id] = cur[cx]
			parkedRecv[cx] = id
			look()
		case k == 20:
			if len(ctxs) < 3 {
				id := len(ctxs)
				if e.OpenCtx(id) == "ok" {
					ctxs = append(ctxs, id)
				}
			} else if cx != 0 && !closedCtx[cx] && c.R.Intn(3) == 0 {
				e.CloseCtx(cx)
				closedCtx[cx] = true
				if id := cur[cx]; id != 0 && done[id] == "" {
					done[id] = "cancelled"
				}
				cur[cx] = 0
				look()
				delete(parkedRecv, cx)
			}
		case k == 21:
			if len(pipes) < 3 {
				addPipe()
			}
		case k < 24 && cfg.faults:
			if len(pipes) > 0 {
				p := pipes[c.R.Intn(len(pipes))]
				held[p] = !held[p]
				e.Hold(p, held[p])
			}
		case k < 26 && cfg.faults:
			if len(pipes) > 0 {
				switch c.R.Intn(6) {
				case 0:
					e.Release(pipes[c.R.Intn(len(pipes))], false)
				case 1:
					e.ReleaseErr(pipes[c.R.Intn(len(pipes))]) // a write fault other than "closed"
				default:
					e.Release(pipes[c.R.Intn(len(pipes))], true)
				}
				if len(e.ops) > n0 {
					fromRelease = true // the hand-off to the pipe happened when the send began, not now
					look()
					fromRelease = false
				}
			}
		case k < 28 && cfg.faults:
			if len(pipes) > 0 { // the connection that may be carrying a request is lost
				p := pipes[c.R.Intn(len(pipes))]
				if cfg.noRetry {
					for id, lp := range lastTxPipe {
						if lp == p && done[id] == "" {
							done[id] = "cancelled" // with retries disabled, losing the connection cancels the request
							for lc, cid := range cur {
								if cid == id {
									lateFor[lc] = id // directed follow-up: its late reply after the context has moved on
								}
							}
						}
					}
				}
				e.RmPipe(p)
				look()
				if len(pipes) == 0 || c.R.Intn(2) == 0 {
					addPipe()
				}
			}
		default:
			if cfg.faults && cfg.retryMs > 0 && cfg.retryMs < 1000 {
				e.Sleep(cfg.retryMs + 30)
				look()
			} else if cfg.deadlines {
				if c.R.Intn(3) == 0 && len(pipes) > 0 { // a silent peer: the next request stays queued or unanswered
					p := pipes[c.R.Intn(len(pipes))]
					held[p] = !held[p]
					e.Hold(p, held[p])
				} else {
					e.Sleep(60)
					look()
				}
			}
		}
	}
	e.Finish()
}

// directed (C18, C03): a Send still waiting for a pipe, and a Recv on the same context whose deadline is shorter.
// The Recv's expiry cancels the request (context.cancel stops the send timer and dequeues the context): the Send must
// give up too — it must not stay blocked beyond its own deadline.
func runReqCrossDeadline(c *Ctx, sendMs, recvMs int, busyPeer bool) {
	e := NewExec(c, "m.req", req.NewProtocol(), "req")
	e.timed, e.canonIDs = true, true
	if busyPeer { // a connected peer whose only pipe is occupied by another context's slow send
		e.AddPipe(901)
		e.Hold(901, true)
		e.OpenCtx(1)
		e.Send(1, nil, []byte{0x71, 0, 1})
	}
	e.SetOpt(0, mangos.OptionRetryTime, "60000", time.Minute)
	e.SetOpt(0, mangos.OptionSendDeadline, fmt.Sprint(sendMs), time.Duration(sendMs)*time.Millisecond)
	e.SetOpt(0, mangos.OptionRecvDeadline, fmt.Sprint(recvMs), time.Duration(recvMs)*time.Millisecond)
	t0 := time.Now()
	returned := map[int]string{}
	look := func() {
		for _, ev := range splitEvents(lastObs(e)) {
			if ev.kind == "ret" {
				returned[ev.call] = ev.err
			}
		}
	}
	snd := e.Send(0, nil, []byte{0x71, 0, 2})
	look()
	rcv := e.Recv(0)
	look()
	e.Sleep(recvMs + 30)
	look()
	if sendMs > 0 {
		e.Sleep(sendMs + 60)
		look()
		if _, ok := returned[snd]; !ok && !e.broken {
			c.Violate(fmt.Sprintf("REQ: a Send with a send deadline of %d ms is still blocked %v after it was called (a Recv on the same context timed out after %d ms in between: its expiry stopped the Send's timer and took the context off the send queue)", sendMs, time.Since(t0).Round(time.Millisecond), recvMs), e.Replay())
		}
	}
	if _, ok := returned[rcv]; !ok && !e.broken {
		c.Violate(fmt.Sprintf("REQ: a Recv with a receive deadline of %d ms is still blocked %v after it was called", recvMs, time.Since(t0).Round(time.Millisecond)), e.Replay())
	}
	e.Finish()
}

// directed (C03): a request that is waiting for RE-transmission (already registered under its id, queued because no
// pipe is ready: its connection was lost, or the retry timer fired while every pipe was busy) is abandoned by a new
// Send on its context; a late reply to the abandoned request must not be delivered as the answer to the new one
func runReqAbandonQueuedResend(c *Ctx, viaTimer bool) {
	e := NewExec(c, "m.req", req.NewProtocol(), "req")
	e.timed, e.canonIDs = true, true
	e.AddPipe(901)
	retry := time.Minute
	if viaTimer {
		retry = 50 * time.Millisecond
	}
	e.SetOpt(0, mangos.OptionRetryTime, fmt.Sprint(int(retry/time.Millisecond)), retry)
	e.Send(0, nil, []byte{0x71, 0, 1})
	if !e.idKnown {
		e.Finish()
		return
	}
	if viaTimer {
		e.Hold(901, true) // the retransmission itself parks inside the pipe: the pipe stays busy
		e.Sleep(80)       // retry timer fires: request 1 is handed to 901 again and parks there
		e.Sleep(80)       // fires again: no ready pipe, request 1 waits in the send queue
	} else {
		e.RmPipe(901) // request 1 is queued for re-sending, no pipe
	}
	e.Send(0, nil, []byte{0x71, 0, 2}) // abandons request 1
	e.AddPipe(902)
	late := append(be32(0x80000001), 'o', 'l', 'd')
	e.InjectCanon(902, late)
	id := e.Recv(0)
	for _, ev := range splitEvents(lastObs(e)) {
		if ev.kind == "ret" && ev.call == id && ev.msg != nil && len(ev.hdr) == 4 && binary.BigEndian.Uint32(ev.hdr) != 0x80000002 {
			c.Violate(fmt.Sprintf("REQ: Recv returned the reply to request %#x (body %q) although the context's current request is 0x80000002: the abandoned request was still registered while it waited for re-transmission", binary.BigEndian.Uint32(ev.hdr), ev.msg), e.Replay())
		}
	}
	e.InjectCanon(902, append(be32(0x80000002), 'n', 'e', 'w'))
	e.Finish()
}

// directed (C03): a request whose Recv timed out is gone; when a new request has been sent, the slow peer's reply to the
// timed-out one must not be returned as the answer to the new one (on the socket and on an opened context)
func runReqLateReplyAfterRecvTimeout(c *Ctx, ctx int) {
	e := NewExec(c, "m.req", req.NewProtocol(), "req")
	e.timed, e.canonIDs = true, true
	e.AddPipe(901)
	if ctx != 0 {
		e.OpenCtx(ctx)
	}
	e.SetOpt(ctx, mangos.OptionRetryTime, "60000", time.Minute)
	e.SetOpt(ctx, mangos.OptionRecvDeadline, "40", 40*time.Millisecond)
	e.Send(ctx, nil, []byte{0x71, 0, 1})
	if !e.idKnown {
		e.Finish()
		return
	}
	e.Recv(ctx)
	e.Sleep(90) // the Recv times out
	e.Send(ctx, nil, []byte{0x71, 0, 2})
	e.InjectCanon(901, append(be32(0x80000001), 'l', 'a', 't', 'e'))
	id := e.Recv(ctx)
	for _, ev := range splitEvents(lastObs(e)) {
		if ev.kind == "ret" && ev.call == id && ev.msg != nil && len(ev.hdr) == 4 && binary.BigEndian.Uint32(ev.hdr) != 0x80000002 {
			c.Violate(fmt.Sprintf("REQ: Recv returned the reply to request %#x (body %q) although the context's current request is 0x80000002: the request whose Recv had timed out was still registered", binary.BigEndian.Uint32(ev.hdr), ev.msg), e.Replay())
		}
	}
	e.InjectCanon(901, append(be32(0x80000002), 'n', 'e', 'w'))
	e.Finish()
}

// directed (C10): two calls parked on one context — a Send still waiting for a pipe and the Recv for its reply — and the
// socket (or just the context) is closed: both must return (Finish reports a call that is still blocked)
func runReqCloseWakesSendAndRecv(c *Ctx, ctx int, closeCtxOnly bool) {
	e := NewExec(c, "m.req", req.NewProtocol(), "req")
	e.timed, e.canonIDs = true, true
	if ctx != 0 {
		e.OpenCtx(ctx)
	}
	e.SetOpt(ctx, mangos.OptionRetryTime, "60000", time.Minute)
	e.Send(ctx, nil, []byte{0x71, 0, 1}) // no pipe: parks
	e.Recv(ctx)                          // parks behind it
	if closeCtxOnly && ctx != 0 {
		e.CloseCtx(ctx)
	}
	e.Finish()
}

// directed (C18): "a call that can complete at once is not failed by the deadline": a Send that was accepted at once leaves
// no deadline behind — the request is still outstanding when the send deadline has long passed, and its reply is delivered
func runReqSendDeadlineLeavesNothing(c *Ctx, sendMs, recvMs int) {
	e := NewExec(c, "m.req", req.NewProtocol(), "req")
	e.timed, e.canonIDs = true, true
	e.AddPipe(901)
	e.SetOpt(0, mangos.OptionRetryTime, "60000", time.Minute)
	e.SetOpt(0, mangos.OptionSendDeadline, fmt.Sprint(sendMs), time.Duration(sendMs)*time.Millisecond)
	e.SetOpt(0, mangos.OptionRecvDeadline, fmt.Sprint(recvMs), time.Duration(recvMs)*time.Millisecond)
	e.Send(0, nil, []byte{0x71, 0, 1})
	if !e.idKnown {
		e.Finish()
		return
	}
	rcv := e.Recv(0)
	e.Sleep(sendMs + 50) // the send deadline of the Send that succeeded at once is long past
	e.InjectCanon(901, append(be32(0x80000001), 'o', 'k'))
	got := false
	for _, ev := range splitEvents(lastObs(e)) {
		if ev.kind == "ret" && ev.call == rcv && ev.msg != nil {
			got = true
		}
	}
	if !got && !e.broken {
		c.Violate(fmt.Sprintf("REQ: a request whose Send was accepted at once (send deadline %d ms) was no longer outstanding %d ms later: its reply was not delivered to the waiting Recv (receive deadline %d ms): %s", sendMs, sendMs+50, recvMs, lastObs(e)), e.Replay())
	}
	e.Finish()
}

// directed (C03 / C11): a Recv that is already waiting when its request is first handed to a pipe.  A best-effort Send
// with no peer returns at once and leaves the request queued; Recv parks; a peer arrives and the request goes out —
// the scheduler's wake-up is meant for a parked Send.  The Recv must stay parked, and get the reply when it comes.
// The same with a Send still blocked in another goroutine when the peer arrives.
func runReqRecvParkedBeforeScheduled(c *Ctx, bestEffort bool) {
	e := NewExec(c, "m.req", req.NewProtocol(), "req")
	e.timed, e.canonIDs = true, true
	e.SetOpt(0, mangos.OptionRetryTime, "60000", time.Minute)
	if bestEffort {
		e.SetOpt(0, mangos.OptionBestEffort, "true", true)
	}
	snd := e.Send(0, nil, []byte{0x71, 0, 7})
	rcv := e.Recv(0)
	if !bestEffort && strings.Contains(lastObs(e), fmt.Sprintf("ret:%d:", rcv)) {
		// a Recv issued while the Send is still blocked may be refused (no request yet): nothing to check then
		e.Finish()
		return
	}
	e.AddPipe(901)
	early := false
	for _, ev := range splitEvents(lastObs(e)) {
		if ev.kind == "ret" && ev.call == rcv {
			early = true
			c.Violate(fmt.Sprintf("REQ: a Recv that was waiting when its request was first handed to a pipe returned %q at that moment, without a reply, deadline or cancel (best effort %v; Send call %d): %s", ev.err, bestEffort, snd, lastObs(e)), e.Replay())
		}
	}
	if e.idKnown && !early {
		e.InjectCanon(901, append(be32(0x80000001), 'o', 'k'))
		got := false
		for _, ev := range splitEvents(lastObs(e)) {
			if ev.kind == "ret" && ev.call == rcv && ev.msg != nil {
				got = true
			}
		}
		if !got && !e.broken {
			c.Violate(fmt.Sprintf("REQ: the reply to a request first transmitted while its Recv was already waiting was not delivered to that Recv (best effort %v): %s", bestEffort, lastObs(e)), e.Replay())
		}
	}
	e.Finish()
}

// directed (C04): the retry time changed while a request is outstanding.  The new value governs transmissions made from
// now on; it never causes one by itself — in particular switching retries off (0) does not retransmit at once.
func runReqRetryTimeChangedWhileOutstanding(c *Ctx, newMs int) {
	e := NewExec(c, "m.req", req.NewProtocol(), "req")
	e.timed, e.canonIDs = true, true
	e.AddPipe(901)
	e.SetOpt(0, mangos.OptionRetryTime, "70", 70*time.Millisecond)
	e.Send(0, nil, []byte{0x71, 0, 1})
	if !e.idKnown {
		e.Finish()
		return
	}
	e.SetOpt(0, mangos.OptionRetryTime, fmt.Sprint(newMs), time.Duration(newMs)*time.Millisecond)
	if strings.Contains(lastObs(e), "tx:") {
		c.Violate(fmt.Sprintf("REQ: setting RETRY-TIME to %d ms while a request was outstanding (previous retry time 70 ms, transmitted a moment ago, connection up) retransmitted the request at once: %s", newMs, lastObs(e)), e.Replay())
	}
	e.Sleep(30)
	if strings.Contains(lastObs(e), "tx:") {
		c.Violate(fmt.Sprintf("REQ: after RETRY-TIME was set to %d ms while a request was outstanding, the request was retransmitted within 30 ms although it had been transmitted less than 35 ms before, its connection is up and neither the old (70 ms) nor the new retry time had elapsed: %s", newMs, lastObs(e)), e.Replay())
	}
	e.Sleep(120)
	e.InjectCanon(901, append(be32(0x80000001), 'o', 'k'))
	e.Recv(0)
	e.Finish()
}

func runC03(c *Ctx) {
	runReqRecvParkedBeforeScheduled(c, true)
	runReqRecvParkedBeforeScheduled(c, false)
	c.Rep.Rule = "random histories on a real REQ protocol instance whose REP peers are played by the harness at message level: Send/Recv/Close on 1-3 contexts, replies carrying the current / a stale, cancelled, answered or other context's / a never-issued id, ids without the request bit, short bodies, duplicates, on any of 1-3 pipes; " +
		"ids canonicalised to 0x80000000|k; every operation is checked against the Lean machine and every delivered reply against the context's current request; class = (operation, shape of outcome)"
	n := 80
	if c.Thorough() {
		n = 2000
	}
	for i := 0; i < n; i++ {
		runReqScenario(c, reqScenarioCfg{nops: 50, retryMs: 60000})
	}
	// timed-out requests: a late reply to a request whose Recv (or Send) deadline expired must not be delivered
	for i := 0; i < n/4+2; i++ {
		runReqScenario(c, reqScenarioCfg{nops: 40, retryMs: 60000, deadlines: true})
	}
	runReqCrossDeadline(c, 150, 40, false)
	runReqCrossDeadline(c, 0, 40, true)
	runReqAbandonQueuedResend(c, false)
	runReqAbandonQueuedResend(c, true)
	runReqCloseWakesSendAndRecv(c, 0, false)
	runReqCloseWakesSendAndRecv(c, 1, false)
	runReqCloseWakesSendAndRecv(c, 1, true)
	runReqLateReplyAfterRecvTimeout(c, 0)
	runReqLateReplyAfterRecvTimeout(c, 1)
	// faults as in C04 (lost connections, slow and failing sends, short retry time) with replies of every kind
	for i := 0; i < n/4+2; i++ {
		runReqScenario(c, reqScenarioCfg{nops: 40, retryMs: 70, faults: true})
	}
	// … and with retries disabled: a lost connection abandons the request; its reply may still arrive, elsewhere
	for i := 0; i < n/4+2; i++ {
		runReqScenario(c, reqScenarioCfg{nops: 40, retryMs: 0, faults: true, noRetry: true})
	}
	runReqPerContextRetry(c)
}

func runC04(c *Ctx) {
	runReqRetryTimeChangedWhileOutstanding(c, 0)
	runReqRetryTimeChangedWhileOutstanding(c, 200)
	runReqRetransmitAfterFailedWrite(c)
	c.Rep.Rule = "fault scripts on a real REQ protocol instance with a 70 ms retry time (and with retries disabled): connection loss at every lifecycle point (queued, in flight on a slow pipe, awaiting reply, answered, cancelled), new connections, silent peers, send failures, real sleeps across the retry interval; " +
		"every (re)transmission is recorded with pipe, bytes and monotonic time and checked against the Lean machine (timers may fire once due, must have fired once overdue) and against the oracle: byte-identical, one pipe per transmission, never early, never after completion; class = (operation, shape of outcome)"
	n := 40
	if c.Thorough() {
		n = 600
	}
	for i := 0; i < n; i++ {
		runReqScenario(c, reqScenarioCfg{nops: 40, retryMs: 70, faults: true})
	}
	for i := 0; i < n/2+1; i++ {
		runReqScenario(c, reqScenarioCfg{nops: 40, retryMs: 0, faults: true, noRetry: true})
	}
	runReqPerContextRetry(c)
}

// directed (C04, C03): the retry time is a setting of the context.  Two contexts of one socket, one with retries
// disabled and one with a retry time, each with a request on the same connection; the connection is lost.  The first
// request is cancelled (its Recv fails, nothing is re-sent), the second is re-sent at once on the other connection —
// whatever the socket's own setting is.
func runReqPerContextRetry(c *Ctx) {
	for _, sockRetry := range []int{60000, 0} {
		e := NewExec(c, "m.req", req.NewProtocol(), "req")
		e.timed, e.canonIDs = true, true
		e.SetOpt(0, mangos.OptionRetryTime, fmt.Sprint(sockRetry), time.Duration(sockRetry)*time.Millisecond)
		e.AddPipe(901)
		e.OpenCtx(1)
		e.OpenCtx(2)
		e.SetOpt(1, mangos.OptionRetryTime, "0", time.Duration(0))
		e.SetOpt(2, mangos.OptionRetryTime, "60000", time.Minute)
		e.Send(1, nil, []byte{'n', 'o', 1})
		e.Send(2, nil, []byte{'r', 'e', 2})
		r1 := e.Recv(1)
		r2 := e.Recv(2)
		e.AddPipe(902)
		e.RmPipe(901)
		obs := lastObs(e)
		var resent, cancelled bool
		for _, ev := range splitEvents(obs) {
			if ev.kind == "tx" && ev.pipe == 902 && len(ev.msg) == 3 && ev.msg[0] == 'r' {
				resent = true
			}
			if ev.kind == "tx" && len(ev.msg) == 3 && ev.msg[0] == 'n' {
				c.Violate(fmt.Sprintf("REQ: the request of a context whose retry time is 0 was re-sent after its connection was lost (socket retry time %d ms)", sockRetry), e.Replay())
			}
			if ev.kind == "ret" && ev.call == r1 && ev.err == "canceled" {
				cancelled = true
			}
			if ev.kind == "ret" && ev.call == r2 {
				c.Violate(fmt.Sprintf("REQ: the Recv of a context with a retry time returned (%s) when its connection was lost; its request should have been re-sent (socket retry time %d ms)", ev.err, sockRetry), e.Replay())
			}
		}
		if !e.broken {
			if !resent {
				c.Violate(fmt.Sprintf("REQ: the request of a context with a retry time was not re-sent to the other connection when its connection was lost (socket retry time %d ms)", sockRetry), e.Replay())
			}
			if !cancelled {
				c.Violate(fmt.Sprintf("REQ: the pending Recv of a context whose retry time is 0 was not cancelled when its connection was lost (socket retry time %d ms)", sockRetry), e.Replay())
			}
		}
		e.Finish()
	}
}
