package main

import (
	"bytes"
	"fmt"

	"go.nanomsg.org/mangos/v3"
	"go.nanomsg.org/mangos/v3/protocol/sub"
	"verifharness/vp"
)

func init() { props["C06"] = runC06 }

var subAlphabet = []byte{'a', 'b', 0x00, 0xff}

func subTopic(r *vp.Rand) []byte {
	n := r.Pick(0, 1, 1, 2, 2, 3)
	t := make([]byte, n)
	for i := range t {
		t[i] = subAlphabet[r.Intn(len(subAlphabet))]
	}
	return t
}

type subOracle struct {
	subs    map[int][][]byte // current subscriptions per context
	lastSeq map[int]int      // last sequence number received per context (per-publisher order; one publisher stream)
	seen    map[int]map[int]bool
}

// bodies carry a 2-byte sequence number at the end so that order / at-most-once are checkable
func subBody(r *vp.Rand, seq int) []byte {
	b := subTopic(r)
	if r.Intn(3) == 0 {
		b = append(b, subTopic(r)...)
	}
	return append(b, byte(seq>>8), byte(seq))
}

func runSubScenario(c *Ctx, nops int) {
	e := NewExec(c, "m.sub", sub.NewProtocol(), "sub")
	or := &subOracle{subs: map[int][][]byte{0: nil}, lastSeq: map[int]int{}, seen: map[int]map[int]bool{}}
	parked := map[int]int{} // ctx -> call id
	ctxIDs := []int{0}
	closedCtx := map[int]bool{}
	npipes := 0
	seq := 0
	injected := map[int][]byte{}
	addPipe := func() {
		npipes++
		e.AddPipe(100 + npipes)
	}
	addPipe()
	checkObs := func(obs string) {
		// property oracle on every delivered message
		for _, ev := range splitEvents(obs) {
			if ev.kind != "ret" || ev.msg == nil {
				continue
			}
			ctx := -1
			for cx, call := range parked {
				if call == ev.call {
					ctx = cx
				}
			}
			if ctx < 0 {
				continue
			}
			delete(parked, ctx)
			body := ev.msg
			match := false
			for _, s := range or.subs[ctx] {
				if bytes.HasPrefix(body, s) {
					match = true
				}
			}
			if !match {
				c.Violate(fmt.Sprintf("SUB context %d received %x which matches none of its current subscriptions %x", ctx, body, or.subs[ctx]), e.Replay())
			}
			if len(body) < 2 {
				c.Violate(fmt.Sprintf("SUB context %d received a message that was never published: %x", ctx, body), e.Replay())
				continue
			}
			sq := int(body[len(body)-2])<<8 | int(body[len(body)-1])
			if orig, ok := injected[sq]; !ok || !bytes.Equal(orig, body) {
				c.Violate(fmt.Sprintf("SUB context %d received %x, which differs from every published message", ctx, body), e.Replay())
			}
			if or.seen[ctx] == nil {
				or.seen[ctx] = map[int]bool{}
			}
			if or.seen[ctx][sq] {
				c.Violate(fmt.Sprintf("SUB context %d received message #%d twice", ctx, sq), e.Replay())
			}
			or.seen[ctx][sq] = true
			if sq < or.lastSeq[ctx] {
				c.Violate(fmt.Sprintf("SUB context %d received message #%d after #%d (publisher order violated)", ctx, sq, or.lastSeq[ctx]), e.Replay())
			}
			or.lastSeq[ctx] = sq
		}
	}
	for i := 0; i < nops && !e.broken; i++ {
		ctx := ctxIDs[c.R.Intn(len(ctxIDs))]
		switch k := c.R.Intn(20); {
		case k < 5: // subscribe
			if closedCtx[ctx] {
				continue
			}
			t := subTopic(c.R)
			var val interface{} = t
			if c.R.Intn(4) == 0 {
				val = string(t)
			}
			if e.SetOpt(ctx, mangos.OptionSubscribe, vp.Hex(t), val) == "ok" {
				dup := false
				for _, s := range or.subs[ctx] {
					if bytes.Equal(s, t) {
						dup = true
					}
				}
				if !dup {
					or.subs[ctx] = append(or.subs[ctx], t)
				}
			}
		case k < 8: // unsubscribe (mostly something subscribed)
			if closedCtx[ctx] {
				continue
			}
			t := subTopic(c.R)
			if len(or.subs[ctx]) > 0 && c.R.Intn(4) != 0 {
				t = or.subs[ctx][c.R.Intn(len(or.subs[ctx]))]
			}
			r := e.SetOpt(ctx, mangos.OptionUnsubscribe, vp.Hex(t), append([]byte{}, t...))
			had := false
			for j, s := range or.subs[ctx] {
				if bytes.Equal(s, t) {
					or.subs[ctx] = append(append([][]byte{}, or.subs[ctx][:j]...), or.subs[ctx][j+1:]...)
					had = true
					break
				}
			}
			if had != (r == "ok") {
				c.Violate(fmt.Sprintf("Unsubscribe(%x) on context %d returned %s although the topic was%s subscribed", t, ctx, r, map[bool]string{true: "", false: " not"}[had]), e.Replay())
			}
		case k < 14: // publish
			if npipes == 0 {
				continue
			}
			seq++
			b := subBody(c.R, seq)
			injected[seq] = b
			e.Inject(100+1+c.R.Intn(npipes), b)
			checkObs(lastObs(e))
		case k < 18: // receive
			if _, busy := parked[ctx]; busy {
				continue
			}
			id := e.Recv(ctx)
			parked[ctx] = id
			checkObs(lastObs(e))
			if _, still := parked[ctx]; still && closedCtx[ctx] {
				delete(parked, ctx)
			}
		case k == 18:
			switch c.R.Intn(4) {
			case 0:
				if len(ctxIDs) < 3 {
					id := len(ctxIDs)
					if e.OpenCtx(id) == "ok" {
						ctxIDs = append(ctxIDs, id)
					}
				}
			case 1:
				if ctx != 0 && !closedCtx[ctx] {
					e.CloseCtx(ctx)
					closedCtx[ctx] = true
					delete(parked, ctx)
				}
			case 2:
				if npipes < 3 {
					addPipe()
				}
			}
		default: // small queue to force overflow
			if closedCtx[ctx] {
				continue
			}
			n := c.R.Pick(0, 1, 2, 3)
			e.SetOpt(ctx, mangos.OptionReadQLen, fmt.Sprint(n), n)
		}
	}
	e.Finish()
}

func lastObs(e *Exec) string {
	l := e.ops[len(e.ops)-1]
	for i := 0; i+4 <= len(l); i++ {
		if l[i:i+4] == " => " {
			return l[i+4:]
		}
	}
	return ""
}

// directed: overlapping subscriptions.  A queued message that matched the topic being removed but still matches
// another subscription of the same context must survive the Unsubscribe and be delivered — "delivers iff it matches a
// current subscription", and nothing is lost without overflow.
func runSubOverlappingUnsubscribe(c *Ctx) {
	cases := [][3][]byte{ // keep, drop, message
		{[]byte("a"), []byte("ab"), []byte("abc")},
		{[]byte("ab"), []byte("a"), []byte("abc")},
		{[]byte(""), []byte("x"), []byte("xyz")},
		{[]byte("x"), []byte(""), []byte("xyz")},
		{[]byte{0xff}, []byte{0xff, 0x00}, []byte{0xff, 0x00, 0x01}},
	}
	for i, cs := range cases {
		e := NewExec(c, "m.sub", sub.NewProtocol(), "sub")
		ctx := 0
		if i%2 == 1 {
			ctx = 1
			e.OpenCtx(1)
		}
		e.AddPipe(101)
		e.SetOpt(ctx, mangos.OptionSubscribe, vp.Hex(cs[0]), append([]byte{}, cs[0]...))
		e.SetOpt(ctx, mangos.OptionSubscribe, vp.Hex(cs[1]), append([]byte{}, cs[1]...))
		e.Inject(101, cs[2])
		e.SetOpt(ctx, mangos.OptionUnsubscribe, vp.Hex(cs[1]), append([]byte{}, cs[1]...))
		e.Recv(ctx)
		got := false
		for _, ev := range splitEvents(lastObs(e)) {
			if ev.kind == "ret" && ev.msg != nil && bytes.Equal(ev.msg, cs[2]) {
				got = true
			}
		}
		if !got && !e.broken {
			c.Violate(fmt.Sprintf("SUB: subscribed to %q and %q, message %q queued, Unsubscribe(%q): the message still matches %q but Recv did not return it (%s)", cs[0], cs[1], cs[2], cs[1], cs[0], lastObs(e)), e.Replay())
		}
		e.Finish()
	}
}

func runC06(c *Ctx) {
	c.Rep.Rule = "random histories of subscribe/unsubscribe/publish/receive/open/close/resize on 1-3 contexts and 1-3 publishers of a real SUB protocol instance driven through virtual pipes (topics over {a,b,00,ff}, lengths 0-3, so equal, nested, empty and non-UTF8 topics are frequent); " +
		"every operation is one trace line checked against the Lean machine; class = (operation, shape of what became observable); non-trivial = anything but an operation with no observable effect"
	n := 150
	if c.Thorough() {
		n = 3000
	}
	for i := 0; i < n; i++ {
		runSubScenario(c, 40)
	}
	runSubOverlappingUnsubscribe(c)
	runPubScenarios(c)
	runSubUnsubscribeRace(c)
}
