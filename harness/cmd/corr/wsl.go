package main

// The WebSocket listener's accept queue (transport/ws: ServeHTTP / handler / Accept / Close) driven step by step
// against Model/AcceptQ.lean, machine `m.wsl`.  Clients are independent gorilla/websocket connections.  A verif-tag
// hook in ws.go (VerifSetUpgradedHook) holds a connection between its upgrade and its hand-over to the queue, so that
// the harness decides when `finish c` happens — in particular after Close.  Observed after every step, at quiescence:
// which Accept calls returned what, and which clients now see their connection closed.  At the end of a scenario the
// property itself on the real objects: every connection the listener did not hand out is closed and no handler
// goroutine of the listener remains for it.

import (
	"fmt"
	"net"
	"net/http"
	"runtime"
	"sort"
	"strings"
	"sync"
	"time"

	"github.com/gorilla/websocket"
	"go.nanomsg.org/mangos/v3"
	"go.nanomsg.org/mangos/v3/protocol/pair"
	"go.nanomsg.org/mangos/v3/transport"
	"go.nanomsg.org/mangos/v3/transport/ws"

	"verifharness/vp"
)

type wslClient struct {
	id     int
	conn   *websocket.Conn
	local  string
	mu     sync.Mutex
	closed bool
	failed bool // the dial itself was refused
	done   chan struct{}
}

func (w *wslClient) isClosed() bool { w.mu.Lock(); defer w.mu.Unlock(); return w.closed || w.failed }

type wslGates struct {
	mu      sync.Mutex
	arrived map[string]bool
	release map[string]chan struct{}
}

func (g *wslGates) gate(remote string) chan struct{} {
	g.mu.Lock()
	defer g.mu.Unlock()
	ch, ok := g.release[remote]
	if !ok {
		ch = make(chan struct{})
		g.release[remote] = ch
	}
	return ch
}

func runWsListenerQueue(c *Ctx) {
	n := 16
	if c.Thorough() {
		n = 300
	}
	for sc := 0; sc < n; sc++ {
		handlerMode := sc%3 == 2
		gates := &wslGates{arrived: map[string]bool{}, release: map[string]chan struct{}{}}
		ws.VerifSetUpgradedHook(func(remote string) {
			ch := gates.gate(remote)
			gates.mu.Lock()
			gates.arrived[remote] = true
			gates.mu.Unlock()
			<-ch
		})
		sock, _ := pair.NewSocket()
		tr := transport.GetTransport("ws")
		var hs *http.Server
		addr := "ws://127.0.0.1:0/q"
		if handlerMode {
			ln, err := net.Listen("tcp", "127.0.0.1:0")
			if err != nil {
				_ = sock.Close()
				continue
			}
			addr = fmt.Sprintf("ws://127.0.0.1:%d/q", ln.Addr().(*net.TCPAddr).Port)
			mux := http.NewServeMux()
			hs = &http.Server{Handler: mux}
			l0, err := tr.NewListener(addr, sock)
			if err != nil {
				_ = sock.Close()
				continue
			}
			h, _ := l0.GetOption(ws.OptionWebSocketHandler)
			mux.Handle("/q", h.(http.Handler))
			go func() { _ = hs.Serve(ln) }()
			runWsQueueScenario(c, l0, addr, gates, handlerMode, sc)
			_ = hs.Close()
			_ = sock.Close()
			continue
		}
		l, err := tr.NewListener(addr, sock)
		if err != nil || l.Listen() != nil {
			_ = sock.Close()
			continue
		}
		runWsQueueScenario(c, l, l.Address(), gates, handlerMode, sc)
		_ = sock.Close()
	}
	ws.VerifSetUpgradedHook(nil)
}

func runWsQueueScenario(c *Ctx, l transport.Listener, addr string, gates *wslGates, handlerMode bool, sc int) {
	c.T.Line("ws listener new", "m.wsl new", "-")
	clients := map[int]*wslClient{}
	var order []int
	reported := map[int]bool{}
	handed := map[int]bool{}
	upgrading := map[int]bool{}
	var handedPipes []transport.Pipe
	type accRes struct {
		call int
		p    transport.Pipe
		err  error
	}
	accCh := make(chan accRes, 8)
	parked := 0
	closed := false
	var hist []string
	byLocal := map[string]int{}
	observe := func() string {
		if !vp.QuiesceT(2 * time.Second) {
			time.Sleep(20 * time.Millisecond)
		}
		var toks []string
		var rets []accRes
	drain:
		for {
			select {
			case r := <-accCh:
				rets = append(rets, r)
			default:
				break drain
			}
		}
		sort.Slice(rets, func(i, j int) bool { return rets[i].call < rets[j].call })
		for _, r := range rets {
			parked--
			if r.err != nil || r.p == nil {
				toks = append(toks, fmt.Sprintf("ret:%d:closed", r.call))
				continue
			}
			id := -1
			if v, err := r.p.GetOption(mangos.OptionRemoteAddr); err == nil {
				if a, ok := v.(net.Addr); ok {
					id = byLocal[a.String()]
				}
			}
			handed[id] = true
			handedPipes = append(handedPipes, r.p)
			toks = append(toks, fmt.Sprintf("ret:%d:conn:%d", r.call, id))
		}
		var shut []int
		for _, id := range order {
			if clients[id].isClosed() && !reported[id] {
				reported[id] = true
				shut = append(shut, id)
			}
		}
		sort.Ints(shut)
		for _, id := range shut {
			toks = append(toks, fmt.Sprintf("shut:%d", id))
		}
		if len(toks) == 0 {
			return "-"
		}
		return strings.Join(toks, " ")
	}
	line := func(op string, pre string) {
		obs := observe()
		if pre != "" {
			if obs == "-" {
				obs = pre
			} else {
				obs = pre + " " + obs
			}
		}
		hist = append(hist, op+" => "+obs)
		f := strings.Fields(op)
		shape := strings.Join(strings.FieldsFunc(obs, func(r rune) bool { return r >= '0' && r <= '9' }), "")
		c.Class(fmt.Sprintf("ws listener %s closed=%v handler-mode=%v %s", f[0], closed, handlerMode, shape), true)
		c.T.Line("ws listener "+f[0], "m.wsl "+op, obs)
	}
	// the close of a connection reaches its client through the kernel, after every goroutine has parked: when the
	// listener is already closed, give the client's read loop up to half a second to see it before observing
	// (seen on a machine running a dozen other checks: two of 300 scenarios observed a moment too early)
	waitShut := func(id int) {
		if !closed {
			return
		}
		for i := 0; i < 250 && !clients[id].isClosed(); i++ {
			time.Sleep(2 * time.Millisecond)
		}
	}
	// the same after Close, for the connections that were queued (upgraded, not handed out)
	waitQueuedShut := func() {
		for i := 0; i < 250; i++ {
			open := false
			for _, id := range order {
				if !upgrading[id] && !handed[id] && !clients[id].isClosed() {
					open = true
				}
			}
			if !open {
				return
			}
			time.Sleep(2 * time.Millisecond)
		}
	}
	nextConn, nextCall := 1, 1
	steps := 5 + c.R.Intn(12)
	for st := 0; st < steps; st++ {
		var ups []int
		for _, id := range order {
			if upgrading[id] {
				ups = append(ups, id)
			}
		}
		k := c.R.Intn(10)
		switch {
		case k < 4 || len(order) == 0:
			id := nextConn
			nextConn++
			cl := &wslClient{id: id, done: make(chan struct{})}
			clients[id] = cl
			order = append(order, id)
			go func() {
				defer close(cl.done)
				d := websocket.Dialer{Subprotocols: []string{"pair.sp.nanomsg.org"}, HandshakeTimeout: 2 * time.Second}
				cn, _, err := d.Dial(addr, nil)
				if err != nil {
					cl.mu.Lock()
					cl.failed = true
					cl.mu.Unlock()
					return
				}
				cl.mu.Lock()
				cl.conn = cn
				cl.local = cn.LocalAddr().String()
				cl.mu.Unlock()
				for {
					if _, _, err := cn.ReadMessage(); err != nil {
						cl.mu.Lock()
						cl.closed = true
						cl.mu.Unlock()
						return
					}
				}
			}()
			// wait for the dial to be decided: refused, or upgraded and held by the hook
			for i := 0; i < 2000; i++ {
				cl.mu.Lock()
				loc, failed := cl.local, cl.failed
				cl.mu.Unlock()
				if failed {
					break
				}
				if loc != "" {
					gates.mu.Lock()
					arr := gates.arrived[loc]
					gates.mu.Unlock()
					if arr {
						byLocal[loc] = id
						upgrading[id] = true
						break
					}
				}
				time.Sleep(time.Millisecond)
			}
			line(fmt.Sprintf("begin %d", id), "")
		case k < 7 && len(ups) > 0:
			id := ups[c.R.Intn(len(ups))]
			delete(upgrading, id)
			close(gates.gate(clients[id].local))
			waitShut(id)
			line(fmt.Sprintf("finish %d", id), "")
		case k < 9 && parked == 0 && !closed:
			call := nextCall
			nextCall++
			parked++
			go func() {
				p, err := l.Accept()
				accCh <- accRes{call, p, err}
			}()
			line(fmt.Sprintf("accept %d", call), "")
		case k < 9 && closed:
			call := nextCall
			nextCall++
			parked++
			go func() {
				p, err := l.Accept()
				accCh <- accRes{call, p, err}
			}()
			line(fmt.Sprintf("accept %d", call), "")
		default:
			err := l.Close()
			closed = true
			waitQueuedShut()
			pre := "res:ok"
			if err != nil {
				pre = "res:closed"
			}
			line("close", pre)
		}
	}
	if !closed {
		err := l.Close()
		closed = true
		waitQueuedShut()
		pre := "res:ok"
		if err != nil {
			pre = "res:closed"
		}
		line("close", pre)
	}
	// the upgrades still in flight finish now
	for _, id := range order {
		if upgrading[id] {
			delete(upgrading, id)
			close(gates.gate(clients[id].local))
			waitShut(id)
			line(fmt.Sprintf("finish %d", id), "")
		}
	}
	time.Sleep(5 * time.Millisecond)
	_ = observe()
	for _, id := range order {
		if handed[id] {
			continue
		}
		if !clients[id].isClosed() {
			c.Violate(fmt.Sprintf("ws listener: after Close, connection %d (upgraded to a WebSocket, never handed out by Accept) is still open: its client sees no close", id),
				map[string]interface{}{"history": hist, "connection": id, "handler_mode": handlerMode})
		}
	}
	buf := make([]byte, 1<<20)
	stacks := string(buf[:runtime.Stack(buf, true)])
	nh := strings.Count(stacks, "transport/ws.(*listener).handler")
	open := 0
	for id := range handed {
		if id > 0 && !clients[id].isClosed() {
			open++
		}
	}
	if nh > open {
		c.Violate(fmt.Sprintf("ws listener: after Close %d http handler goroutine(s) of the listener remain (transport/ws.(*listener).handler) for %d connection(s) handed out and still open", nh, open),
			map[string]interface{}{"history": hist, "handler_mode": handlerMode})
	}
	for _, p := range handedPipes {
		_ = p.Close()
	}
	for _, id := range order {
		cl := clients[id]
		cl.mu.Lock()
		cn := cl.conn
		cl.mu.Unlock()
		if cn != nil {
			_ = cn.Close()
		}
	}
	vp.QuiesceT(500 * time.Millisecond)
}

// The same on real sockets, without the hook: WebSocket clients keep connecting while the socket is closed.  Every
// connection whose upgrade succeeded (the client's Dial returned) must be closed afterwards, and no http handler
// goroutine of the listener may remain.
func runWsAcceptCloseRace(c *Ctx) {
	ws.VerifSetUpgradedHook(nil)
	rounds := 30
	if c.Thorough() {
		rounds = 300
	}
	open, total := 0, 0
	for round := 0; round < rounds; round++ {
		s, _ := pair.NewSocket()
		l, err := s.NewListener("ws://127.0.0.1:0/sp", nil)
		if err != nil || l.Listen() != nil {
			_ = s.Close()
			continue
		}
		addr := l.Address()
		var mu sync.Mutex
		var conns []*websocket.Conn
		stop := make(chan struct{})
		var wg sync.WaitGroup
		for g := 0; g < 4; g++ {
			wg.Add(1)
			go func() {
				defer wg.Done()
				for {
					select {
					case <-stop:
						return
					default:
					}
					d := websocket.Dialer{Subprotocols: []string{"pair.sp.nanomsg.org"}, HandshakeTimeout: 300 * time.Millisecond}
					cn, _, err := d.Dial(addr, nil)
					if err != nil {
						if _, ok := err.(net.Error); ok {
							return
						}
						continue
					}
					mu.Lock()
					conns = append(conns, cn)
					mu.Unlock()
				}
			}()
		}
		time.Sleep(time.Duration(1000+(round*13)%2000) * time.Microsecond)
		_ = s.Close()
		close(stop)
		wg.Wait()
		time.Sleep(20 * time.Millisecond)
		mu.Lock()
		for _, cn := range conns {
			total++
			_ = cn.SetReadDeadline(time.Now().Add(2 * time.Second))
			if _, _, err := cn.ReadMessage(); err != nil {
				if ne, ok := err.(net.Error); ok && ne.Timeout() {
					open++
				}
			}
			_ = cn.Close()
		}
		mu.Unlock()
	}
	time.Sleep(50 * time.Millisecond)
	buf := make([]byte, 1<<22)
	nh := strings.Count(string(buf[:runtime.Stack(buf, true)]), "transport/ws.(*listener).handler")
	obs := "closed"
	if open > 0 || nh > 0 {
		obs = "open"
	}
	c.Class(fmt.Sprintf("accept/close race over ws: all closed=%v", obs == "closed"), true)
	c.T.Line("ws accept-close race", "cl.check accepted-at-close-conn", obs)
	if obs == "open" {
		c.Violate(fmt.Sprintf("Socket.Close while WebSocket peers keep connecting: %d of %d upgraded connections were still open 2 s after the socket was closed, %d http handler goroutine(s) of the listener remain — upgraded while the listener was being closed, queued for a listener nobody accepts from any more", open, total, nh),
			map[string]interface{}{"scenario": "pair socket listening on ws://127.0.0.1:0/sp; 4 goroutines dial WebSocket connections in a loop; Socket.Close after 1–3 ms; every connection whose Dial succeeded must then be closed", "rounds": rounds})
	}
}
