package main

// C10 on the WebSocket listener in "bring your own http.Server" mode (OptionWebSocketHandler): the listener never owns a
// listening socket, its accept loop waits for connections the application's server upgrades.  Closing the socket ends
// that loop like any other: no goroutine of the library remains.

import (
	"fmt"
	"net"
	"net/http"
	"strings"
	"time"

	"go.nanomsg.org/mangos/v3"
	"go.nanomsg.org/mangos/v3/protocol/rep"
	"go.nanomsg.org/mangos/v3/protocol/req"
	"go.nanomsg.org/mangos/v3/transport/ws"

	"verifharness/vp"
)

func runWsHandlerModeClose(c *Ctx) {
	ln, err := net.Listen("tcp", "127.0.0.1:0")
	if err != nil {
		return
	}
	mux := http.NewServeMux()
	hs := &http.Server{Handler: mux}
	go func() { _ = hs.Serve(ln) }()
	defer hs.Close()
	addr := fmt.Sprintf("ws://127.0.0.1:%d/sp", ln.Addr().(*net.TCPAddr).Port)
	srv, _ := rep.NewSocket()
	l, err := srv.NewListener(addr, nil)
	if err != nil {
		_ = srv.Close()
		return
	}
	hi, err := l.GetOption(ws.OptionWebSocketHandler)
	if err != nil {
		c.Violate(fmt.Sprintf("ws listener: GetOption(WEBSOCKET-HANDLER) failed: %v", err), nil)
		_ = srv.Close()
		return
	}
	mux.Handle("/sp", hi.(http.Handler))
	if err := l.Listen(); err != nil {
		_ = srv.Close()
		return
	}
	cli, _ := req.NewSocket()
	_ = cli.SetOption(mangos.OptionRecvDeadline, 2*time.Second)
	_ = cli.SetOption(mangos.OptionSendDeadline, 2*time.Second)
	rt := "failed"
	if err := cli.Dial(addr); err == nil {
		go func() {
			if m, e := srv.Recv(); e == nil {
				_ = srv.Send(m)
			}
		}()
		if cli.Send([]byte("ping")) == nil {
			if m, err := cli.Recv(); err == nil && string(m) == "ping" {
				rt = "ok"
			}
		}
	}
	c10Line(c, "cl ws handler-mode round trip", "bystander-dial", rt)
	if rt != "ok" {
		c.Violate("ws listener in handler mode (OptionWebSocketHandler on the application's own http.Server): a REQ/REP round trip through it failed", nil)
	}
	_ = cli.Close()
	_ = srv.Close()
	libs := c10settle()
	var mine []string
	for _, g := range libs {
		mine = append(mine, g)
	}
	c10Line(c, "cl ws handler-mode goroutines", "goroutines", fmt.Sprint(len(mine)))
	if len(mine) > 0 {
		c.Violate(fmt.Sprintf("ws listener in handler mode: after Socket.Close %d goroutine(s) of the library remain: %s", len(mine), strings.Join(mine, " | ")),
			map[string]interface{}{"history": "REP socket, NewListener(ws://…/sp), GetOption(WEBSOCKET-HANDLER) mounted on the application's http.Server, Listen, one REQ round trip, both sockets closed", "goroutines": mine})
	}
	_ = vp.Quiesce
}
