package main

// Round-5 additions: directed scenarios for C16 (rejected handshakes do not delay a well-behaved peer), C18 (the
// fail-no-peers option switched off again), C19 (a refused Device has no effect).

import (
	"bytes"
	"fmt"
	"io"
	"net"
	"strings"
	"time"

	"go.nanomsg.org/mangos/v3"
	"go.nanomsg.org/mangos/v3/protocol/pair"
	"go.nanomsg.org/mangos/v3/protocol/pull"
	"go.nanomsg.org/mangos/v3/protocol/push"
	"go.nanomsg.org/mangos/v3/protocol/xpair"
	"go.nanomsg.org/mangos/v3/protocol/xpush"
)

// C16: a burst of peers whose handshake is rejected (wrong magic), one after the other, then a well-behaved peer: it is
// attached and its message delivered without waiting for anything the hostile peers caused.
func runRejectedHandshakesDoNotDelayOthers(c *Ctx) {
	for _, scheme := range []string{"tcp", "ipc"} {
		addr := "tcp://127.0.0.1:0"
		if scheme == "ipc" {
			addr = fmt.Sprintf("ipc:///tmp/verif-c16-rej-%d.sock", time.Now().UnixNano()%1000000)
		}
		rx, _ := pull.NewSocket()
		_ = rx.SetOption(mangos.OptionRecvDeadline, 5*time.Second)
		l, err := rx.NewListener(addr, nil)
		if err == nil {
			err = l.Listen()
		}
		if err != nil {
			_ = rx.Close()
			continue
		}
		dial := func() net.Conn {
			var cn net.Conn
			var err error
			if scheme == "tcp" {
				cn, err = net.Dial("tcp", strings.TrimPrefix(l.Address(), "tcp://"))
			} else {
				cn, err = net.Dial("unix", strings.TrimPrefix(l.Address(), "ipc://"))
			}
			if err != nil {
				return nil
			}
			return cn
		}
		const hostile = 14
		for i := 0; i < hostile; i++ {
			cn := dial()
			if cn == nil {
				continue
			}
			_, _ = cn.Write([]byte{0, 'X', 'P', 0, 0, byte(mangos.ProtoPush), 0, 0})
			_ = cn.SetReadDeadline(time.Now().Add(time.Second))
			_, _ = io.Copy(io.Discard, cn) // until the library drops us
			_ = cn.Close()
		}
		tx, _ := push.NewSocket()
		_ = tx.SetOption(mangos.OptionSendDeadline, 5*time.Second)
		t0 := time.Now()
		var el time.Duration
		var got []byte
		if err := tx.Dial(l.Address()); err == nil {
			if err := tx.Send([]byte("after-the-burst")); err == nil {
				got, _ = rx.Recv()
			}
		}
		el = time.Since(t0)
		ok := bytes.Equal(got, []byte("after-the-burst")) && el < 1500*time.Millisecond
		c.Class(fmt.Sprintf("rejected handshakes then a good peer (%s): served promptly=%v", scheme, ok), true)
		c.T.Line("rejected handshakes", fmt.Sprintf("hs.after-rejects %s %d", scheme, hostile), map[bool]string{true: "served", false: "delayed"}[ok])
		if !ok {
			c.Violate(fmt.Sprintf("%s: after %d consecutive peers whose handshake was rejected (bad magic), a well-behaved peer was served only after %v (message %q): rejected peers delay the others", scheme, hostile, el, got),
				map[string]interface{}{"transport": scheme, "hostile_peers": hostile, "history": "each hostile peer connects, sends 00 58 50 00 00 50 00 00, waits to be dropped; then PUSH dials and sends, PULL must receive"})
		}
		_ = tx.Close()
		_ = rx.Close()
	}
}

// C18: fail-no-peers switched on, a peer comes and goes, the option is switched off again: from then on a Send without
// a peer queues (room permitting) as if the option had never been set.
func runPushFailNoPeersToggle(c *Ctx) {
	e := NewExec(c, "m.push", xpush.NewProtocol(), "xpush")
	e.SetOpt(0, mangos.OptionFailNoPeers, "true", true)
	e.AddPipe(401)
	e.RmPipe(401)
	e.SetOpt(0, mangos.OptionFailNoPeers, "false", false)
	for i := 0; i < 16; i++ {
		id := e.Send(0, nil, []byte{'t', byte(i)})
		for _, ev := range splitEvents(lastObs(e)) {
			if ev.kind == "ret" && ev.call == id && ev.err != "ok" && ev.err != "" {
				c.Violate(fmt.Sprintf("PUSH: with FAIL-NO-PEERS switched off again (it was on while the last peer left) a Send with room in the queue returned %q instead of queueing", ev.err), e.Replay())
			}
		}
	}
	e.Finish()
}

// C19: an operation that is refused has no effect.  Device(raw, cooked) is refused with ErrNotRaw whichever socket comes
// first; afterwards traffic arriving on the raw socket is still the raw socket's own, nothing is forwarded.
func runRefusedDeviceHasNoEffect(c *Ctx) {
	for _, rawFirst := range []bool{true, false} {
		devSeq++
		a1 := fmt.Sprintf("inproc://verif-c19-dev-%d-a", devSeq)
		a2 := fmt.Sprintf("inproc://verif-c19-dev-%d-b", devSeq)
		front, _ := xpair.NewSocket()
		back, _ := pair.NewSocket()
		pa, _ := pair.NewSocket()
		pb, _ := pair.NewSocket()
		all := []mangos.Socket{front, back, pa, pb}
		for _, s := range all {
			_ = s.SetOption(mangos.OptionRecvDeadline, 300*time.Millisecond)
			_ = s.SetOption(mangos.OptionSendDeadline, 300*time.Millisecond)
		}
		ok := front.Listen(a1) == nil && back.Listen(a2) == nil && pa.Dial(a1) == nil && pb.Dial(a2) == nil
		if !ok {
			for _, s := range all {
				_ = s.Close()
			}
			continue
		}
		time.Sleep(30 * time.Millisecond)
		var err error
		if rawFirst {
			err = mangos.Device(front, back)
		} else {
			err = mangos.Device(back, front)
		}
		obs := "notraw"
		if err != mangos.ErrNotRaw {
			obs = fmt.Sprint(err)
		}
		_ = pa.Send([]byte("hello"))
		leaked, lerr := pb.Recv()
		kept, kerr := front.Recv()
		effect := "none"
		if lerr == nil {
			effect = "forwarded"
		} else if kerr != nil || !bytes.Equal(kept, []byte("hello")) {
			effect = "lost"
		}
		c.Class(fmt.Sprintf("refused Device rawFirst=%v result=%s effect=%s", rawFirst, obs, effect), true)
		c.T.Line("refused device", fmt.Sprintf("opt.refused device-not-raw %v", rawFirst), obs+"/"+effect)
		if obs != "notraw" {
			c.Violate(fmt.Sprintf("Device(raw, cooked) (raw first: %v) returned %v, not ErrNotRaw", rawFirst, err), nil)
		}
		if effect != "none" {
			c.Violate(fmt.Sprintf("Device of a raw and a cooked socket (raw first: %v) was refused with ErrNotRaw but took effect all the same: a message arriving on the raw socket was %s (cooked peer received %q, raw socket Recv: %q %v)", rawFirst, effect, leaked, kept, kerr),
				map[string]interface{}{"history": "xpair front + pair back, one pair peer each over inproc; Device(front, back) -> ErrNotRaw; front's peer sends \"hello\"; back's peer must receive nothing, front.Recv must return it"})
		}
		for _, s := range all {
			_ = s.Close()
		}
	}
}
