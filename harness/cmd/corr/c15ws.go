package main

// C15, further executed parts:
//  (a) the send direction of the stream mapping for EVERY total length 0..160 (header lengths 0, 4, 8), stream and ipc
//      flavour: one `wire.enc` line each;
//  (b) the WebSocket mapping against an independent peer (gorilla/websocket used directly by the harness): mangos as
//      dialer and as listener, raw PAIRv1 so that the caller controls the 4-byte protocol header, bodies of every
//      length 0..40 and a few large ones: one binary frame per message, header then body (`ws.enc` lines), under the
//      subprotocol `pair1.sp.nanomsg.org`.

import (
	"fmt"
	"net"
	"net/http"
	"strings"
	"sync"
	"time"

	"github.com/gorilla/websocket"
	"go.nanomsg.org/mangos/v3"
	"go.nanomsg.org/mangos/v3/protocol/xpair1"

	"verifharness/vp"
)

func wireSendSweep(c *Ctx) {
	for _, ipc := range []bool{false, true} {
		for _, hl := range []int{0, 4, 8} {
			var msgs [][2][]byte
			for total := hl; total <= 160; total++ {
				msgs = append(msgs, [2][]byte{patterned(uint64(hl+1), hl), patterned(uint64(total), total-hl)})
			}
			got, note := sendAll(ipc, msgs)
			if note != "" {
				c.Violate("conn.Send (length sweep): "+note, map[string]interface{}{"ipc": ipc, "header": hl})
				continue
			}
			off := 0
			for _, hb := range msgs {
				want := len(frame(ipc, append(append([]byte{}, hb[0]...), hb[1]...)))
				end := off + want
				if end > len(got) {
					end = len(got)
				}
				class := fmt.Sprintf("send-sweep ipc=%v hdr=%d", ipc, len(hb[0]))
				c.Class(class, true)
				c.T.Line(class, fmt.Sprintf("wire.enc %d %s %s", b2i(ipc), vp.Hex(hb[0]), vp.Hex(hb[1])), vp.Hex(got[off:end]))
				if string(got[off:end]) != string(frame(ipc, append(append([]byte{}, hb[0]...), hb[1]...))) {
					c.Violate(fmt.Sprintf("conn.Send (ipc=%v): a message with a %d-byte header and a %d-byte body was not written as length + header + body: got %x", ipc, len(hb[0]), len(hb[1]), got[off:end]),
						map[string]interface{}{"ipc": ipc, "header": vp.Hex(hb[0]), "body": vp.Hex(hb[1])})
					break
				}
				off = end
			}
		}
	}
}

type wsFrames struct {
	mu     sync.Mutex
	frames [][]byte
	types  []int
	proto  string
}

func (f *wsFrames) reader(conn *websocket.Conn, done chan struct{}) {
	defer close(done)
	for {
		t, b, err := conn.ReadMessage()
		if err != nil {
			return
		}
		f.mu.Lock()
		f.frames = append(f.frames, b)
		f.types = append(f.types, t)
		f.mu.Unlock()
	}
}

func wsBodies() [][]byte {
	var bs [][]byte
	for n := 0; n <= 40; n++ {
		bs = append(bs, patterned(uint64(n)+7, n))
	}
	for _, n := range []int{125, 126, 127, 65535, 65536, 70000} {
		bs = append(bs, patterned(uint64(n), n))
	}
	return bs
}

func wsIndependent(c *Ctx) {
	hdr := []byte{0, 0, 0, 0}
	for _, role := range []string{"dialer", "listener"} {
		rec := &wsFrames{}
		done := make(chan struct{})
		s, _ := xpair1.NewSocket()
		_ = s.SetOption(mangos.OptionSendDeadline, 2*time.Second)
		var cleanup func()
		ok := false
		switch role {
		case "dialer":
			// independent server
			ln, err := net.Listen("tcp", "127.0.0.1:0")
			if err != nil {
				_ = s.Close()
				continue
			}
			up := websocket.Upgrader{Subprotocols: []string{"pair1.sp.nanomsg.org"}, CheckOrigin: func(*http.Request) bool { return true }}
			srv := &http.Server{Handler: http.HandlerFunc(func(w http.ResponseWriter, r *http.Request) {
				rec.mu.Lock()
				rec.proto = strings.Join(websocket.Subprotocols(r), ",")
				rec.mu.Unlock()
				conn, err := up.Upgrade(w, r, nil)
				if err != nil {
					return
				}
				rec.reader(conn, done)
			})}
			go func() { _ = srv.Serve(ln) }()
			cleanup = func() { _ = srv.Close() }
			if err := s.Dial("ws://" + ln.Addr().String() + "/sp"); err == nil {
				ok = true
			}
		default:
			l, err := s.NewListener("ws://127.0.0.1:0/sp", nil)
			if err == nil {
				err = l.Listen()
			}
			if err != nil {
				_ = s.Close()
				continue
			}
			d := websocket.Dialer{Subprotocols: []string{"pair1.sp.nanomsg.org"}, HandshakeTimeout: 2 * time.Second}
			conn, resp, err := d.Dial(l.Address(), nil)
			if err == nil {
				rec.proto = resp.Header.Get("Sec-WebSocket-Protocol")
				go rec.reader(conn, done)
				cleanup = func() { _ = conn.Close() }
				ok = true
			}
		}
		class := "ws-independent " + role
		c.Class(class, true)
		if !ok {
			c.T.Line(class, "ws.sub "+role, "no-connection")
			c.Violate("WebSocket mapping: mangos ("+role+") and an independent WebSocket peer offering pair1.sp.nanomsg.org could not connect", nil)
			_ = s.Close()
			continue
		}
		time.Sleep(40 * time.Millisecond)
		bodies := wsBodies()
		sent := 0
		for _, b := range bodies {
			m := mangos.NewMessage(len(b))
			m.Header = append(m.Header, hdr...)
			m.Body = append(m.Body, b...)
			if err := s.SendMsg(m); err != nil {
				break
			}
			sent++
		}
		time.Sleep(150 * time.Millisecond)
		_ = s.Close()
		if cleanup != nil {
			cleanup()
		}
		select {
		case <-done:
		case <-time.After(2 * time.Second):
		}
		rec.mu.Lock()
		c.T.Line(class, "ws.sub "+role, rec.proto)
		for i := 0; i < sent; i++ {
			obs := "missing"
			if i < len(rec.frames) {
				obs = fmt.Sprintf("%d:%s", rec.types[i], vp.Hex(rec.frames[i]))
			}
			c.T.Line(class, fmt.Sprintf("ws.enc %s %s", vp.Hex(hdr), vp.Hex(bodies[i])), obs)
			want := append(append([]byte{}, hdr...), bodies[i]...)
			if i >= len(rec.frames) || string(rec.frames[i]) != string(want) || rec.types[i] != websocket.BinaryMessage {
				got := "nothing"
				if i < len(rec.frames) {
					got = fmt.Sprintf("a type-%d frame of %d bytes (%.24x…)", rec.types[i], len(rec.frames[i]), rec.frames[i])
				}
				c.Violate(fmt.Sprintf("WebSocket mapping (mangos as %s): a message with protocol header %x and a %d-byte body must be one binary frame of header then body; the independent peer received %s", role, hdr, len(bodies[i]), got),
					map[string]interface{}{"role": role, "header": vp.Hex(hdr), "body_len": len(bodies[i])})
				break
			}
		}
		if len(rec.frames) > sent {
			c.Violate(fmt.Sprintf("WebSocket mapping (mangos as %s): %d frames for %d messages", role, len(rec.frames), sent), nil)
		}
		rec.mu.Unlock()
	}
}
