package main

// C16: "a message is delivered if its total size is at most the configured maximum receive size and otherwise the
// connection is dropped" — for every way and moment of configuring that size on a real transport: on the socket before
// the endpoint exists, in the endpoint's option map, by SetOption on the endpoint before it is started, and (listeners)
// after Listen, before the peer connects.  The limit in force must be the one GetOption reports.
// Trace lines `lim.fit <transport> <receiving endpoint> <when> <limit> <size>`: the verdict is the receive guard read
// from conn.Recv (Generated.connRecvGuard), as for wire.fit.

import (
	"bytes"
	"fmt"
	"time"

	"go.nanomsg.org/mangos/v3"
	"go.nanomsg.org/mangos/v3/protocol/pull"
	"go.nanomsg.org/mangos/v3/protocol/push"
)

func runLimitConfig(c *Ctx) {
	if err := initTLS(); err != nil {
		return
	}
	const stale, limit = 5000, 200
	for ti, tr := range e2eTransports {
		if tr.name == "inproc" {
			continue // messages are handed over in memory: no receive limit is enforced there
		}
		for _, rxEnd := range []string{"listener", "dialer"} {
			whens := []string{"socket", "endpoint-map", "endpoint-set"}
			if rxEnd == "listener" {
				whens = append(whens, "after-listen")
			}
			for wi, when := range whens {
				rx, _ := pull.NewSocket()
				tx, _ := push.NewSocket()
				_ = rx.SetOption(mangos.OptionRecvDeadline, 400*time.Millisecond)
				_ = tx.SetOption(mangos.OptionSendDeadline, time.Second)
				_ = rx.SetOption(mangos.OptionReconnectTime, 10*time.Millisecond)
				_ = tx.SetOption(mangos.OptionReconnectTime, 10*time.Millisecond)
				lsock, dsock := rx, tx
				if rxEnd == "dialer" {
					lsock, dsock = tx, rx
				}
				if when == "socket" {
					_ = rx.SetOption(mangos.OptionMaxRecvSize, limit)
				} else {
					_ = rx.SetOption(mangos.OptionMaxRecvSize, stale) // what a stale copy would still hold
				}
				lopts, dopts := map[string]interface{}{}, map[string]interface{}{}
				if tr.tls {
					lopts[mangos.OptionTLSConfig] = srvTLS
					dopts[mangos.OptionTLSConfig] = cliTLS
				}
				if when == "endpoint-map" {
					if rxEnd == "listener" {
						lopts[mangos.OptionMaxRecvSize] = limit
					} else {
						dopts[mangos.OptionMaxRecvSize] = limit
					}
				}
				fail := func(what string, err error) {
					c.Violate(fmt.Sprintf("receive limit (%s, receiving %s, configured %s): %s: %v", tr.name, rxEnd, when, what, err), nil)
					_ = rx.Close()
					_ = tx.Close()
				}
				l, err := lsock.NewListener(tr.addr(9900+ti*10+wi), lopts)
				if err != nil {
					fail("NewListener", err)
					continue
				}
				if when == "endpoint-set" && rxEnd == "listener" {
					err = l.SetOption(mangos.OptionMaxRecvSize, limit)
				}
				if err == nil {
					err = l.Listen()
				}
				if err != nil {
					fail("Listen", err)
					continue
				}
				if when == "after-listen" {
					if err := l.SetOption(mangos.OptionMaxRecvSize, limit); err != nil {
						fail("SetOption after Listen", err)
						continue
					}
				}
				d, err := dsock.NewDialer(l.Address(), dopts)
				if err != nil {
					fail("NewDialer", err)
					continue
				}
				if when == "endpoint-set" && rxEnd == "dialer" {
					err = d.SetOption(mangos.OptionMaxRecvSize, limit)
				}
				// what the receiving endpoint says its limit is
				var reported interface{}
				if rxEnd == "listener" {
					reported, _ = l.GetOption(mangos.OptionMaxRecvSize)
				} else {
					reported, _ = d.GetOption(mangos.OptionMaxRecvSize)
				}
				if err == nil {
					err = d.Dial()
				}
				if err != nil {
					fail("Dial", err)
					continue
				}
				time.Sleep(40 * time.Millisecond)
				for _, size := range []int{limit, limit + 1} {
					body := patterned(uint64(size), size)
					obs := "lost"
					if err := tx.Send(body); err == nil {
						if got, err := rx.Recv(); err == nil && bytes.Equal(got, body) {
							obs = "delivered"
						}
					}
					class := fmt.Sprintf("limit-config %s %s %s %s", tr.name, rxEnd, when, map[bool]string{true: "at", false: "over"}[size == limit])
					c.Class(class, true)
					c.T.Line(class, fmt.Sprintf("lim.fit %s %s %s %d %d", tr.name, rxEnd, when, limit, size), obs)
					want := map[bool]string{true: "delivered", false: "lost"}[size <= limit]
					if obs != want {
						c.Violate(fmt.Sprintf("receive limit (%s): the %s reports MaxRecvSize=%v (configured %s) but a %d-byte message from its peer was %s", tr.name, rxEnd, reported, when, size, obs),
							map[string]interface{}{"transport": tr.name, "receiving": rxEnd, "configured": when, "limit": limit, "size": size, "reported": fmt.Sprint(reported)})
					}
				}
				if fmt.Sprint(reported) != fmt.Sprint(limit) {
					c.Violate(fmt.Sprintf("receive limit (%s): the %s reports MaxRecvSize=%v after it was configured to %d (%s)", tr.name, rxEnd, reported, limit, when), nil)
				}
				_ = rx.Close()
				_ = tx.Close()
			}
		}
	}
}
