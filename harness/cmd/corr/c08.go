package main

import (
	"bytes"
	"fmt"
	"sort"
	"strings"
	"time"

	"go.nanomsg.org/mangos/v3"
	"go.nanomsg.org/mangos/v3/protocol/bus"
	"go.nanomsg.org/mangos/v3/protocol/star"
	"go.nanomsg.org/mangos/v3/protocol/xbus"
	"go.nanomsg.org/mangos/v3/protocol/xstar"
)

func init() { props["C08"] = runC08 }

type meshFlavor struct {
	name   string
	mk     func() mangos.ProtocolBase
	isStar bool
	cooked bool
}

var meshFlavors = []meshFlavor{
	{"bus", bus.NewProtocol, false, true}, {"xbus", xbus.NewProtocol, false, false},
	{"star", star.NewProtocol, true, true}, {"xstar", xstar.NewProtocol, true, false},
}

func runMeshScenario(c *Ctx, fl meshFlavor, nops int) {
	e := NewExec(c, "m.mesh", fl.mk(), fl.name)
	pipes := []int{}
	everHeld := map[int]bool{}
	held := map[int]bool{}
	next := 700
	seq := 0
	addPipe := func() {
		next++
		if e.AddPipe(next) == "ok" {
			pipes = append(pipes, next)
		}
	}
	rmFromList := func(p int) {
		for i, q := range pipes {
			if q == p {
				pipes = append(pipes[:i:i], pipes[i+1:]...)
				return
			}
		}
	}
	// the two queue lengths are different options: a peer's send queue has the WRITEQ-LEN in force when it attached
	smallReadQ := false
	// Which receivers may have input they have not passed on yet.  `inside` is an upper bound of the messages inside
	// the socket (queued, held by a receiver, unread); while it does not exceed the queue length no receiver can be
	// blocked, so nothing is pending.  When the receive queue is replaced, every receiver with pending input runs at
	// once; with more than one of them the order of what they forward is a scheduling race the sequential machine
	// does not decide, so that operation is only issued while at most one pipe can have pending input.
	readCap, inside := 128, 0
	mayPend := map[int]bool{}
	settlePend := func() {
		if inside <= readCap {
			mayPend = map[int]bool{}
		}
	}
	if c.R.Intn(2) == 0 {
		r, w := c.R.Pick(0, 1, 2), c.R.Pick(1, 3, 128)
		smallReadQ = true
		readCap = r
		e.SetOpt(0, mangos.OptionReadQLen, fmt.Sprint(r), r)
		e.SetOpt(0, mangos.OptionWriteQLen, fmt.Sprint(w), w)
	}
	addPipe()
	addPipe()
	for i := 0; i < nops && !e.broken; i++ {
		n0 := len(e.ops)
		switch k := c.R.Intn(24); {
		case k < 7: // application sends
			seq++
			body := seqBody(c, seq)
			var hdr []byte
			src := 0
			if fl.name == "xbus" {
				switch c.R.Intn(5) {
				case 0, 1: // forwarding a message that arrived on one of our pipes
					if len(pipes) > 0 {
						src = pipes[c.R.Intn(len(pipes))]
						hdr = be32(uint32(src))
					}
				case 2:
					hdr = be32(uint32(c.R.Intn(5))) // names no live pipe
				case 3:
					hdr = c.R.Bytes(c.R.Pick(1, 2, 3, 5))
				}
			}
			if (fl.name == "bus" || fl.name == "star") && c.R.Intn(3) == 0 {
				// the application hands the cooked socket a message that still carries a header (relayed by hand from a raw
				// socket, say): it is not the application's business on a cooked socket — every peer gets the payload
				switch c.R.Intn(3) {
				case 0:
					if len(pipes) > 0 {
						hdr = be32(uint32(pipes[c.R.Intn(len(pipes))])) // looks like "arrived on that pipe" to the raw layer
					}
				case 1:
					hdr = c.R.Bytes(8)
				default:
					hdr = c.R.Bytes(c.R.Pick(1, 4, 5))
				}
			}
			if fl.name == "xstar" {
				hdr = []byte{0, 0, 0, byte(c.R.Intn(3))}
				if c.R.Intn(6) == 0 {
					hdr = c.R.Bytes(c.R.Pick(0, 3, 5))
				}
			}
			targets := append([]int{}, pipes...)
			e.Send(0, hdr, body)
			got := map[int]int{}
			for _, ev := range splitEvents(lastObs(e)) {
				if ev.kind == "tx" {
					got[ev.pipe]++
					if !bytes.Equal(ev.msg, body) {
						c.Violate(fmt.Sprintf("%s: peer pipe %d was sent %x, the application sent %x", fl.name, ev.pipe, ev.msg, body), e.Replay())
					}
					if ev.pipe == src && src != 0 {
						c.Violate(fmt.Sprintf("%s: a forwarded message was sent back to pipe %d it came from", fl.name, src), e.Replay())
					}
				}
			}
			discarded := fl.name == "xstar" && len(hdr) != 4
			for _, p := range targets {
				if p == src || everHeld[p] || discarded {
					continue
				}
				if got[p] != 1 {
					c.Violate(fmt.Sprintf("%s: directly connected peer pipe %d (never slowed down) got %d copies of message #%d", fl.name, p, got[p], seq), e.Replay())
				}
			}
		case k < 13: // a peer sends us something
			if len(pipes) == 0 {
				continue
			}
			p := pipes[c.R.Intn(len(pipes))]
			seq++
			payload := seqBody(c, seq)
			body := payload
			hop := 0
			if fl.isStar {
				hop = c.R.Pick(0, 0, 1, 2, 7, 8)
				if c.R.Intn(8) == 0 {
					payload = []byte{} // an empty payload is a message like any other
				}
				body = append([]byte{0, 0, 0, byte(hop)}, payload...)
				if c.R.Intn(8) == 0 {
					body = c.R.Bytes(c.R.Intn(4)) // malformed
					payload = nil
				}
			}
			targets := append([]int{}, pipes...)
			e.Inject(p, body)
			inside++
			mayPend[p] = true
			settlePend()
			fw := map[int]int{}
			for _, ev := range splitEvents(lastObs(e)) {
				if ev.kind != "tx" || (smallReadQ && fl.isStar) {
					// with a short receive queue a receiver may be holding an earlier message: what is forwarded now
					// need not be what was injected now (the machine, not this oracle, judges those scenarios)
					continue
				}
				fw[ev.pipe]++
				if !fl.isStar {
					c.Violate(fmt.Sprintf("%s: a received message was passed on to pipe %d (BUS sockets do not forward on their own)", fl.name, ev.pipe), e.Replay())
					continue
				}
				if ev.pipe == p {
					c.Violate(fmt.Sprintf("%s: a message received on pipe %d was forwarded back to it", fl.name, p), e.Replay())
				}
				if payload != nil && (!bytes.Equal(ev.msg, payload) || !bytes.Equal(ev.hdr, []byte{0, 0, 0, byte(hop + 1)})) {
					c.Violate(fmt.Sprintf("%s: forwarded copy has header %x body %x; expected hop byte %d and body %x", fl.name, ev.hdr, ev.msg, hop+1, payload), e.Replay())
				}
			}
			if fl.isStar && payload != nil && hop < 8 && !smallReadQ {
				for _, q := range targets {
					if q != p && !everHeld[q] && fw[q] != 1 {
						c.Violate(fmt.Sprintf("%s: message from pipe %d (hop %d) was forwarded %d times to peer pipe %d", fl.name, p, hop, fw[q], q), e.Replay())
					}
				}
			}
		case k < 17:
			if e.ParkedRecvs() == 0 {
				e.Recv(0)
			}
		case k == 17:
			if len(pipes) < 4 {
				addPipe()
			}
		case k < 20:
			if len(pipes) > 0 {
				p := pipes[c.R.Intn(len(pipes))]
				held[p] = !held[p]
				everHeld[p] = true
				e.Hold(p, held[p])
			}
		case k < 22:
			if len(pipes) > 0 {
				p := pipes[c.R.Intn(len(pipes))]
				ok := c.R.Intn(6) != 0
				e.Release(p, ok)
				if len(e.ops) > n0 && !ok {
					rmFromList(p)
				}
			}
		case k == 22:
			if len(pipes) > 1 && c.R.Intn(2) == 0 {
				p := pipes[c.R.Intn(len(pipes))]
				e.RmPipe(p)
				rmFromList(p)
			}
		default:
			if strings.Contains(fl.name, "star") && c.R.Intn(2) == 0 && len(mayPend) <= 1 {
				// STAR: the receive queue may be replaced at any moment, also while a receiver is holding a message for it
				n := c.R.Pick(0, 1, 2, 128)
				smallReadQ = true
				readCap = n
				e.SetOpt(0, mangos.OptionReadQLen, fmt.Sprint(n), n)
				settlePend()
			} else {
				n := c.R.Pick(0, 1, 2)
				e.SetOpt(0, mangos.OptionWriteQLen, fmt.Sprint(n), n)
			}
		}
		if len(e.ops) > n0 {
			for _, ev := range splitEvents(lastObs(e)) {
				if ev.kind == "ret" && ev.err == "" && inside > 0 {
					inside-- // a Recv returned a message
				}
			}
			settlePend()
		}
	}
	e.Finish()
}

// small real topologies over inproc: BUS full mesh and chain, STAR star and tree; every member sends,
// every other member must receive each message exactly once, the sender nothing.
type topo struct {
	name  string
	star  bool
	n     int
	edges [][2]int // a dials b
}

func runTopology(c *Ctx, t topo, idx int) {
	socks := make([]mangos.Socket, t.n)
	for i := range socks {
		var err error
		if t.star {
			socks[i], err = star.NewSocket()
		} else {
			socks[i], err = bus.NewSocket()
		}
		if err != nil {
			c.Violate("topology: NewSocket: "+err.Error(), nil)
			return
		}
		_ = socks[i].SetOption(mangos.OptionRecvDeadline, 40*time.Millisecond)
		if err := socks[i].Listen(fmt.Sprintf("inproc://verif-c08-%d-%d-%d", c.Seed, idx, i)); err != nil {
			c.Violate("topology: Listen: "+err.Error(), nil)
			return
		}
	}
	defer func() {
		for _, s := range socks {
			_ = s.Close()
		}
	}()
	for _, e := range t.edges {
		if err := socks[e[0]].Dial(fmt.Sprintf("inproc://verif-c08-%d-%d-%d", c.Seed, idx, e[1])); err != nil {
			c.Violate("topology: Dial: "+err.Error(), nil)
			return
		}
	}
	time.Sleep(40 * time.Millisecond)
	for sender := 0; sender < t.n; sender++ {
		for round := 0; round < 2; round++ {
			msg := []byte(fmt.Sprintf("m-%d-%d-%s", sender, round, t.name))
			if err := socks[sender].Send(msg); err != nil {
				c.Violate(fmt.Sprintf("topology %s: Send on member %d: %v", t.name, sender, err), nil)
				continue
			}
			// expected receivers: BUS = direct neighbours; STAR = everybody else (loop-free topology)
			want := map[int]bool{}
			if t.star {
				for i := 0; i < t.n; i++ {
					if i != sender {
						want[i] = true
					}
				}
			} else {
				for _, e := range t.edges {
					if e[0] == sender {
						want[e[1]] = true
					}
					if e[1] == sender {
						want[e[0]] = true
					}
				}
			}
			var bad []string
			for i := 0; i < t.n; i++ {
				n := 0
				for {
					m, err := socks[i].Recv()
					if err != nil {
						break
					}
					if string(m) == string(msg) {
						n++
					} else {
						bad = append(bad, fmt.Sprintf("member %d received foreign/garbled %q", i, m))
					}
				}
				exp := 0
				if want[i] {
					exp = 1
				}
				if n != exp {
					bad = append(bad, fmt.Sprintf("member %d received it %d times (expected %d)", i, n, exp))
				}
			}
			c.Class(fmt.Sprintf("topology %s sender=%d", t.name, sender), true)
			if len(bad) > 0 {
				sort.Strings(bad)
				c.Violate(fmt.Sprintf("topology %s: message from member %d: %v", t.name, sender, bad), map[string]interface{}{"topology": t.name, "edges": t.edges, "sender": sender})
			}
		}
	}
}

func runC08(c *Ctx) {
	c.Rep.Rule = "random histories on real bus / xbus / star / xstar protocol instances through virtual pipes (application sends incl. raw forwarding headers naming a live pipe, no pipe, or malformed; peer messages with hop bytes 0..8 and malformed; slow and failing peers; pipes added and removed), every operation checked against the Lean machine; " +
		"plus small real inproc topologies (BUS mesh and chain, STAR star and tree) where every member sends and every member's received multiset is checked; class = (operation, shape of outcome) / (topology, sender)"
	n := 50
	if c.Thorough() {
		n = 1200
	}
	for i := 0; i < n; i++ {
		for _, fl := range meshFlavors {
			runMeshScenario(c, fl, 45)
		}
	}
	runSharedForward(c)
	runForwardAfterPeerReplaced(c)
	topos := []topo{
		{"bus-pair", false, 2, [][2]int{{0, 1}}},
		{"bus-mesh3", false, 3, [][2]int{{0, 1}, {0, 2}, {1, 2}}},
		{"bus-chain3", false, 3, [][2]int{{0, 1}, {1, 2}}},
		{"bus-mesh4", false, 4, [][2]int{{0, 1}, {0, 2}, {0, 3}, {1, 2}, {1, 3}, {2, 3}}},
		{"star-pair", true, 2, [][2]int{{0, 1}}},
		{"star-hub3", true, 4, [][2]int{{1, 0}, {2, 0}, {3, 0}}},
		{"star-chain3", true, 3, [][2]int{{0, 1}, {1, 2}}},
		{"star-tree5", true, 5, [][2]int{{1, 0}, {2, 0}, {3, 1}, {4, 1}}},
	}
	for i, t := range topos {
		runTopology(c, t, i)
	}
}
