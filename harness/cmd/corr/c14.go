package main

import (
	"fmt"
	"time"

	"go.nanomsg.org/mangos/v3"

	"verifharness/vt"
)

func init() { props["C14"] = runC14 }

// dialer scripts: the transport refuses / accepts / the peer drops, at every phase; short real reconnect times
func runDialScenario(c *Ctx, idx int) {
	e := NewCExec(c, fmt.Sprintf("d%d-%d", c.Seed, idx))
	asynch := c.R.Intn(2) == 0
	minMs := c.R.Pick(20, 30, 40)
	maxMs := c.R.Pick(0, minMs, minMs*3)
	// the socket-wide reconnect time is deliberately shorter than the dialer's own
	_ = e.sock.SetOption(mangos.OptionReconnectTime, 3*time.Millisecond)
	e.NewDialer(1, asynch, minMs, maxMs)
	e.Dial(1)
	td := vt.T.Dialer(e.addr("d", 1))
	var lastEnd time.Time // when the previous attempt ended (failure) or the pipe was lost
	delayLo := time.Duration(minMs) * time.Millisecond
	closed := false
	closedAt := 0
	seenAtt := 1
	connected := 0
	lastEnd = time.Time{}
	checkAttempts := func() {
		ts := td.Times()
		for ; seenAtt < len(ts); seenAtt++ {
			if closed && seenAtt >= closedAt {
				c.Violate(fmt.Sprintf("dialer: a new connection attempt was started after the dialer (or its socket) had been closed (attempt %d)", seenAtt+1), e.Replay())
			}
			if !lastEnd.IsZero() {
				if gap := ts[seenAtt].Sub(lastEnd); gap < delayLo-2*time.Millisecond {
					c.Violate(fmt.Sprintf("dialer: attempt %d started %v after the previous attempt ended; the reconnect time is %v", seenAtt+1, gap, delayLo), e.Replay())
				}
			}
		}
	}
	for i := 0; i < 14 && !e.broken; i++ {
		pending := td.Parked() > 0 // an attempt is inside the transport
		before := time.Now()       // an attempt / connection ends no earlier than this
		switch k := c.R.Intn(12); {
		case k < 4:
			if pending {
				e.DialRes(1, false, "")
				lastEnd = before
				if !asynch && connected == 0 && !closed {
					// a failed first synchronous Dial returns the error; it can be dialled again
					e.Dial(1)
					lastEnd = time.Time{}
				}
			}
		case k < 7:
			if pending {
				mode := []string{"plain", "plain", "plain", "refuse", "hookclose"}[c.R.Intn(5)]
				e.DialRes(1, true, mode)
				if mode == "plain" {
					connected++
					lastEnd = time.Time{}
				} else {
					lastEnd = before
				}
			}
		case k < 9:
			// the established connection is lost
			for kk := e.npipes; kk >= 1; kk-- {
				if p := e.tpipes[kk]; p != nil && !p.IsClosed() {
					e.Drop(kk)
					lastEnd = before
					break
				}
			}
		case k < 11:
			e.Sleep(minMs + 25 + c.R.Intn(40))
			checkAttempts()
		default:
			if !closed && c.R.Intn(3) == 0 {
				e.CloseDialer(1)
				closed = true
				closedAt = td.NAttempts()
			}
		}
		checkAttempts()
	}
	e.Sleep(minMs*2 + 60)
	checkAttempts()
	// an open, started dialer that is neither connected nor dialling must have a redial pending: after enough
	// time there must have been another attempt
	e.Finish()
}

func runC14(c *Ctx) {
	c.Rep.Rule = "dialer scripts on a real core socket over the scripted transport with real reconnect times of 20-40 ms (MaxReconnectTime 0, equal, or 3x; synchronous and asynchronous dialing): refused attempts, handshake/protocol rejections, established-then-dropped connections and dialer close at every phase, with sleeps across the reconnect time; " +
		"every transport Dial is time-stamped; each operation is compared with the Lean core machine (redial timers may fire once due, must have fired once overdue) and the oracle checks spacing >= reconnect time and no attempt after close; class = (operation, shape of the observation)"
	n := 40
	if c.Thorough() {
		n = 500
	}
	runDialFailsWhileAnotherDialerRegisters(c)
	for i := 0; i < n; i++ {
		runDialScenario(c, i)
	}
	runRealDialerPersistence(c)
	runDialerRedialsAfterLocalRefusal(c)
}
