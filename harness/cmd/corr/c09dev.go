package main

// C09, executed end to end: cooked REQ clients and a cooked REP server (SURVEYOR / RESPONDENT likewise) joined through a
// chain of 0..3 devices (mangos.Device between raw sockets) over inproc.  Several concurrent clients; every reply must
// return, unchanged, to the client that asked; a request that has crossed more connections than the server's TTL admits
// is dropped and nothing else; a client that leaves with a request outstanding does not disturb the others (the late
// reply is discarded by the device).  One `dev.rt <kind> <devices> <ttl> <payload>` trace line per round trip; the
// verdict is the hop model's: delivered iff devices + 1 ≤ TTL (Props.C09.deliver_iff composed along the chain).

import (
	"bytes"
	"fmt"
	"sync"
	"time"

	"go.nanomsg.org/mangos/v3"
	"go.nanomsg.org/mangos/v3/protocol/rep"
	"go.nanomsg.org/mangos/v3/protocol/req"
	"go.nanomsg.org/mangos/v3/protocol/respondent"
	"go.nanomsg.org/mangos/v3/protocol/surveyor"
	"go.nanomsg.org/mangos/v3/protocol/xrep"
	"go.nanomsg.org/mangos/v3/protocol/xreq"
	"go.nanomsg.org/mangos/v3/protocol/xrespondent"
	"go.nanomsg.org/mangos/v3/protocol/xsurveyor"

	"verifharness/vp"
)

var devSeq int

type devChain struct {
	kind    string
	server  mangos.Socket
	devs    []mangos.Socket
	front   string // where clients dial
	stopped chan struct{}
	wg      sync.WaitGroup
}

func (d *devChain) close() {
	close(d.stopped)
	_ = d.server.Close()
	for _, s := range d.devs {
		_ = s.Close()
	}
	d.wg.Wait()
}

// the server answers "R:" + request; requests beginning with 'D' are answered 120 ms late
func newDevChain(kind string, n, ttl int) (*devChain, error) {
	devSeq++
	addr := func(i int) string { return fmt.Sprintf("inproc://verif-c09dev-%d-%d", devSeq, i) }
	d := &devChain{kind: kind, stopped: make(chan struct{})}
	var err error
	if kind == "reqrep" {
		d.server, err = rep.NewSocket()
	} else {
		d.server, err = respondent.NewSocket()
	}
	if err != nil {
		return nil, err
	}
	if ttl > 0 {
		if err := d.server.SetOption(mangos.OptionTTL, ttl); err != nil {
			return nil, err
		}
	}
	_ = d.server.SetOption(mangos.OptionRecvDeadline, 100*time.Millisecond)
	if err := d.server.Listen(addr(0)); err != nil {
		return nil, err
	}
	d.wg.Add(1)
	go func() {
		defer d.wg.Done()
		for {
			select {
			case <-d.stopped:
				return
			default:
			}
			m, err := d.server.Recv()
			if err != nil {
				if err == mangos.ErrClosed {
					return
				}
				continue
			}
			if len(m) > 0 && m[0] == 'D' {
				time.Sleep(120 * time.Millisecond)
			}
			_ = d.server.Send(append([]byte("R:"), m...))
		}
	}()
	for i := 1; i <= n; i++ {
		var f, b mangos.Socket
		if kind == "reqrep" {
			f, _ = xrep.NewSocket()
			b, _ = xreq.NewSocket()
		} else {
			f, _ = xrespondent.NewSocket()
			b, _ = xsurveyor.NewSocket()
		}
		for _, s := range []mangos.Socket{f, b} {
			_ = s.SetOption(mangos.OptionTTL, 255) // the devices themselves do not limit; the server's TTL decides
		}
		d.devs = append(d.devs, f, b)
		if err := f.Listen(addr(i)); err != nil {
			return d, err
		}
		if err := b.Dial(addr(i - 1)); err != nil {
			return d, err
		}
		if err := mangos.Device(f, b); err != nil {
			return d, err
		}
	}
	d.front = addr(n)
	time.Sleep(30 * time.Millisecond)
	return d, nil
}

func (d *devChain) client() mangos.Socket {
	var s mangos.Socket
	if d.kind == "reqrep" {
		s, _ = req.NewSocket()
		_ = s.SetOption(mangos.OptionRetryTime, time.Duration(0))
	} else {
		s, _ = surveyor.NewSocket()
		_ = s.SetOption(mangos.OptionSurveyTime, 400*time.Millisecond)
	}
	_ = s.SetOption(mangos.OptionRecvDeadline, 500*time.Millisecond)
	_ = s.SetOption(mangos.OptionSendDeadline, 500*time.Millisecond)
	_ = s.Dial(d.front)
	return s
}

func runDeviceChains(c *Ctx) {
	type cfg struct {
		kind   string
		n, ttl int
	}
	var cfgs []cfg
	for _, kind := range []string{"reqrep", "survey"} {
		for n := 0; n <= 3; n++ {
			cfgs = append(cfgs, cfg{kind, n, 8})
		}
		// the hop limit decides: delivered iff devices + 1 ≤ TTL
		cfgs = append(cfgs, cfg{kind, 1, 1}, cfg{kind, 1, 2}, cfg{kind, 2, 2}, cfg{kind, 2, 3}, cfg{kind, 3, 3})
	}
	for _, cf := range cfgs {
		d, err := newDevChain(cf.kind, cf.n, cf.ttl)
		if err != nil {
			c.Violate(fmt.Sprintf("device chain (%s, %d devices, TTL %d): cannot set up: %v", cf.kind, cf.n, cf.ttl, err), nil)
			if d != nil {
				d.close()
			}
			continue
		}
		delivered := cf.n+1 <= cf.ttl
		var mu sync.Mutex
		roundTrip := func(cl mangos.Socket, who int, j int, phase string) {
			payload := append([]byte(fmt.Sprintf("c%d-%d-", who, j)), patterned(uint64(who*1000+j), c.R.Pick(0, 1, 5, 64, 300))...)
			if j%4 == 3 {
				payload = []byte{} // "for all payloads": an empty request is a request like any other
			}
			obs := "lost"
			var got []byte
			if err := cl.Send(payload); err == nil {
				if m, err := cl.Recv(); err == nil {
					got = m
					obs = vp.Hex(m)
				}
			}
			mu.Lock()
			defer mu.Unlock()
			class := fmt.Sprintf("device %s n=%d ttl=%d %s delivered=%v", cf.kind, cf.n, cf.ttl, phase, obs != "lost")
			c.Class(class, true)
			c.T.Line(class, fmt.Sprintf("dev.rt %s %d %d %s", cf.kind, cf.n, cf.ttl, vp.Hex(payload)), obs)
			want := append([]byte("R:"), payload...)
			if delivered && !bytes.Equal(got, want) {
				what := "no reply within 500 ms"
				if got != nil {
					what = fmt.Sprintf("the reply %.40q (it is the answer to another request, or altered)", got)
				}
				c.Violate(fmt.Sprintf("device chain (%s, %d devices, server TTL %d, %s): client %d sent %.24q and got %s", cf.kind, cf.n, cf.ttl, phase, who, payload, what),
					map[string]interface{}{"kind": cf.kind, "devices": cf.n, "ttl": cf.ttl, "phase": phase, "request": vp.Hex(payload)})
			}
			if !delivered && got != nil {
				c.Violate(fmt.Sprintf("device chain (%s): a request that crossed %d connections was answered although the server's TTL is %d", cf.kind, cf.n+1, cf.ttl),
					map[string]interface{}{"kind": cf.kind, "devices": cf.n, "ttl": cf.ttl})
			}
		}
		clients := []mangos.Socket{d.client(), d.client(), d.client()}
		time.Sleep(40 * time.Millisecond)
		rounds := 4
		if !delivered {
			rounds = 1
		}
		var wg sync.WaitGroup
		for i, cl := range clients {
			wg.Add(1)
			go func(i int, cl mangos.Socket) {
				defer wg.Done()
				for j := 0; j < rounds; j++ {
					roundTrip(cl, i, j, "concurrent")
				}
			}(i, cl)
		}
		wg.Wait()
		if delivered && cf.n >= 1 {
			// a client leaves with its request outstanding; its late reply must be discarded, not break the chain
			gone := d.client()
			time.Sleep(30 * time.Millisecond)
			for k := 0; k < 4; k++ {
				_ = gone.Send([]byte(fmt.Sprintf("D-late-%d", k)))
			}
			time.Sleep(20 * time.Millisecond)
			_ = gone.Close()
			time.Sleep(700 * time.Millisecond) // the four late replies have come back through the chain by now
			for i, cl := range clients {
				for j := 10; j < 13; j++ {
					roundTrip(cl, i, j, "after-a-client-left")
				}
			}
		}
		for _, cl := range clients {
			_ = cl.Close()
		}
		d.close()
	}
}

// The same chains with raw sockets at both ends and the pipe ids observed on every socket: the header the raw server
// receives must be the one Model/Device.lean computes from those ids (own pipe, then one word per device, most recent
// first, then the request id), the payload unchanged; the reply sent with that header must come back to the client
// that asked — two raw clients share the front of the chain — as (request id, reply payload).  Hop limits vary per
// device.  Lines `dev.path` / `dev.back`.
func runDevicePaths(c *Ctx) {
	type pipeLog struct {
		mu  sync.Mutex
		ids []uint32
	}
	hook := func(s mangos.Socket) *pipeLog {
		l := &pipeLog{}
		s.SetPipeEventHook(func(ev mangos.PipeEvent, p mangos.Pipe) {
			if ev == mangos.PipeEventAttached {
				l.mu.Lock()
				l.ids = append(l.ids, p.ID())
				l.mu.Unlock()
			}
		})
		return l
	}
	rounds := 8
	if c.Thorough() {
		rounds = 48
	}
	for r := 0; r < rounds; r++ {
		kind := []string{"reqrep", "survey"}[r%2]
		n := c.R.Intn(4)
		devSeq++
		addr := func(i int) string { return fmt.Sprintf("inproc://verif-c09path-%d-%d", devSeq, i) }
		var all []mangos.Socket
		mk := func(front bool) mangos.Socket {
			var s mangos.Socket
			switch {
			case kind == "reqrep" && front:
				s, _ = xrep.NewSocket()
			case kind == "reqrep":
				s, _ = xreq.NewSocket()
			case front:
				s, _ = xrespondent.NewSocket()
			default:
				s, _ = xsurveyor.NewSocket()
			}
			all = append(all, s)
			return s
		}
		ttls := make([]int, n+1) // ttls[0]: server; ttls[i]: device i (device n is nearest the clients)
		for i := range ttls {
			ttls[i] = 8
			if r%4 >= 2 {
				ttls[i] = c.R.Pick(1, 2, 3, 4, 8)
			}
		}
		server := mk(true)
		_ = server.SetOption(mangos.OptionTTL, ttls[0])
		_ = server.SetOption(mangos.OptionRecvDeadline, 250*time.Millisecond)
		logs := []*pipeLog{hook(server)}
		ok := server.Listen(addr(0)) == nil
		for i := 1; i <= n && ok; i++ {
			f, b := mk(true), mk(false)
			_ = f.SetOption(mangos.OptionTTL, ttls[i])
			logs = append(logs, hook(f))
			ok = f.Listen(addr(i)) == nil && b.Dial(addr(i-1)) == nil && mangos.Device(f, b) == nil
			time.Sleep(15 * time.Millisecond)
		}
		if !ok {
			c.Violate("device path scenario: cannot set up the chain", nil)
			for _, s := range all {
				_ = s.Close()
			}
			continue
		}
		clients := []mangos.Socket{mk(false), mk(false)}
		for _, cl := range clients {
			_ = cl.SetOption(mangos.OptionRecvDeadline, 250*time.Millisecond)
			_ = cl.Dial(addr(n))
			time.Sleep(15 * time.Millisecond) // attach order = client order
		}
		ids := func(l *pipeLog) []uint32 {
			l.mu.Lock()
			defer l.mu.Unlock()
			return append([]uint32{}, l.ids...)
		}
		frontIDs := ids(logs[n])
		wantFront := 2
		if n > 0 {
			// the server's socket has one pipe (from device 1); the front of the chain has the two clients
			if len(ids(logs[0])) != 1 {
				wantFront = -1
			}
		}
		if len(frontIDs) != 2 || wantFront < 0 {
			c.Violate(fmt.Sprintf("device path scenario: expected two client connections at the front, saw %v", frontIDs), nil)
			for _, s := range all {
				_ = s.Close()
			}
			continue
		}
		for ci, cl := range clients {
			// the chain as this client's request sees it, client side first
			var chain []string
			for i := n; i >= 1; i-- {
				var p uint32
				if i == n {
					p = frontIDs[ci]
				} else {
					p = ids(logs[i])[0]
				}
				chain = append(chain, fmt.Sprintf("%d:%d", ttls[i], p))
			}
			var sp uint32
			if n == 0 {
				sp = frontIDs[ci]
			} else {
				sp = ids(logs[0])[0]
			}
			chainS := "-"
			if len(chain) > 0 {
				chainS = joinComma(chain)
			}
			id := []byte{0x80 | byte(c.R.Intn(128)), byte(c.R.Intn(256)), byte(c.R.Intn(256)), byte(ci + 1)}
			payload := append([]byte(fmt.Sprintf("p%d-%d-", r, ci)), patterned(uint64(r*10+ci), c.R.Pick(0, 1, 7, 64))...)
			m := mangos.NewMessage(len(payload))
			m.Header = append(m.Header, id...)
			m.Body = append(m.Body, payload...)
			if err := cl.SendMsg(m); err != nil {
				c.Violate(fmt.Sprintf("device path scenario: raw client Send failed: %v", err), nil)
				continue
			}
			obs := "drop"
			var hdr []byte
			got, err := server.RecvMsg()
			if err == nil {
				hdr = append([]byte{}, got.Header...)
				obs = vp.Hex(got.Header) + " " + vp.Hex(got.Body)
				got.Free()
			}
			class := fmt.Sprintf("device path %s n=%d through=%v", kind, n, err == nil)
			c.Class(class, true)
			c.T.Line(class, fmt.Sprintf("dev.path %s %d:%d %s %s %s", kind, ttls[0], sp, chainS, vp.Hex(id), vp.Hex(payload)), obs)
			if err != nil {
				continue
			}
			reply := append([]byte("R:"), payload...)
			rm := mangos.NewMessage(len(reply))
			rm.Header = append(rm.Header, hdr...)
			rm.Body = append(rm.Body, reply...)
			if err := server.SendMsg(rm); err != nil {
				c.Violate(fmt.Sprintf("device path scenario: raw server Send failed: %v", err), nil)
				continue
			}
			back := "drop"
			if bm, err := cl.RecvMsg(); err == nil {
				back = vp.Hex(bm.Header) + " " + vp.Hex(bm.Body)
				bm.Free()
			}
			// the other client must not have been handed anything
			other := clients[1-ci]
			_ = other.SetOption(mangos.OptionRecvDeadline, 30*time.Millisecond)
			if om, err := other.RecvMsg(); err == nil {
				c.Violate(fmt.Sprintf("device chain (%s, %d devices): the reply to client %d's request was delivered to the other client (%s/%s)", kind, n, ci, vp.Hex(om.Header), vp.Hex(om.Body)),
					map[string]interface{}{"kind": kind, "devices": n, "request_id": vp.Hex(id)})
				om.Free()
			}
			_ = other.SetOption(mangos.OptionRecvDeadline, 250*time.Millisecond)
			c.Class(fmt.Sprintf("device back %s n=%d returned=%v", kind, n, back != "drop"), true)
			c.T.Line("device back", fmt.Sprintf("dev.back %d %s %s", n, vp.Hex(hdr), vp.Hex(reply)), back)
		}
		for _, s := range all {
			_ = s.Close()
		}
	}
}

func joinComma(xs []string) string {
	out := ""
	for i, x := range xs {
		if i > 0 {
			out += ","
		}
		out += x
	}
	return out
}
