package main

// C09, executed end to end: cooked REQ clients and a cooked REP server (SURVEYOR / RESPONDENT likewise) joined through a
// chain of 0..3 devices (mangos.Device between raw sockets) over inproc.  Several concurrent clients; every reply must
// return, unchanged, to the client that asked; a request that has crossed more connections than the server's TTL admits
// is dropped and nothing else; a client that leaves with a request outstanding does not disturb the others (the late
// reply is discarded by the device).  One `dev.rt <kind> <devices> <ttl> <payload>` trace line per round trip; the
// verdict is the hop model's: delivered iff devices + 1 ≤ TTL (Props.C09.deliver_iff composed along the chain).

import (
	"bytes"
	"fmt"
	"sync"
	"time"

	"go.nanomsg.org/mangos/v3"
	"go.nanomsg.org/mangos/v3/protocol/rep"
	"go.nanomsg.org/mangos/v3/protocol/req"
	"go.nanomsg.org/mangos/v3/protocol/respondent"
	"go.nanomsg.org/mangos/v3/protocol/surveyor"
	"go.nanomsg.org/mangos/v3/protocol/xrep"
	"go.nanomsg.org/mangos/v3/protocol/xreq"
	"go.nanomsg.org/mangos/v3/protocol/xrespondent"
	"go.nanomsg.org/mangos/v3/protocol/xsurveyor"

	"verifharness/vp"
)

var devSeq int

type devChain struct {
	kind    string
	server  mangos.Socket
	devs    []mangos.Socket
	front   string // where clients dial
	stopped chan struct{}
	wg      sync.WaitGroup
}

func (d *devChain) close() {
	close(d.stopped)
	_ = d.server.Close()
	for _, s := range d.devs {
		_ = s.Close()
	}
	d.wg.Wait()
}

// the server answers "R:" + request; requests beginning with 'D' are answered 120 ms late
func newDevChain(kind string, n, ttl int) (*devChain, error) {
	devSeq++
	addr := func(i int) string { return fmt.Sprintf("inproc://verif-c09dev-%d-%d", devSeq, i) }
	d := &devChain{kind: kind, stopped: make(chan struct{})}
	var err error
	if kind == "reqrep" {
		d.server, err = rep.NewSocket()
	} else {
		d.server, err = respondent.NewSocket()
	}
	if err != nil {
		return nil, err
	}
	if ttl > 0 {
		if err := d.server.SetOption(mangos.OptionTTL, ttl); err != nil {
			return nil, err
		}
	}
	_ = d.server.SetOption(mangos.OptionRecvDeadline, 100*time.Millisecond)
	if err := d.server.Listen(addr(0)); err != nil {
		return nil, err
	}
	d.wg.Add(1)
	go func() {
		defer d.wg.Done()
		for {
			select {
			case <-d.stopped:
				return
			default:
			}
			m, err := d.server.Recv()
			if err != nil {
				if err == mangos.ErrClosed {
					return
				}
				continue
			}
			if len(m) > 0 && m[0] == 'D' {
				time.Sleep(120 * time.Millisecond)
			}
			_ = d.server.Send(append([]byte("R:"), m...))
		}
	}()
	for i := 1; i <= n; i++ {
		var f, b mangos.Socket
		if kind == "reqrep" {
			f, _ = xrep.NewSocket()
			b, _ = xreq.NewSocket()
		} else {
			f, _ = xrespondent.NewSocket()
			b, _ = xsurveyor.NewSocket()
		}
		for _, s := range []mangos.Socket{f, b} {
			_ = s.SetOption(mangos.OptionTTL, 255) // the devices themselves do not limit; the server's TTL decides
		}
		d.devs = append(d.devs, f, b)
		if err := f.Listen(addr(i)); err != nil {
			return d, err
		}
		if err := b.Dial(addr(i - 1)); err != nil {
			return d, err
		}
		if err := mangos.Device(f, b); err != nil {
			return d, err
		}
	}
	d.front = addr(n)
	time.Sleep(30 * time.Millisecond)
	return d, nil
}

func (d *devChain) client() mangos.Socket {
	var s mangos.Socket
	if d.kind == "reqrep" {
		s, _ = req.NewSocket()
		_ = s.SetOption(mangos.OptionRetryTime, time.Duration(0))
	} else {
		s, _ = surveyor.NewSocket()
		_ = s.SetOption(mangos.OptionSurveyTime, 400*time.Millisecond)
	}
	_ = s.SetOption(mangos.OptionRecvDeadline, 500*time.Millisecond)
	_ = s.SetOption(mangos.OptionSendDeadline, 500*time.Millisecond)
	_ = s.Dial(d.front)
	return s
}

func runDeviceChains(c *Ctx) {
	type cfg struct {
		kind   string
		n, ttl int
	}
	var cfgs []cfg
	for _, kind := range []string{"reqrep", "survey"} {
		for n := 0; n <= 3; n++ {
			cfgs = append(cfgs, cfg{kind, n, 8})
		}
		// the hop limit decides: delivered iff devices + 1 ≤ TTL
		cfgs = append(cfgs, cfg{kind, 1, 1}, cfg{kind, 1, 2}, cfg{kind, 2, 2}, cfg{kind, 2, 3}, cfg{kind, 3, 3})
	}
	for _, cf := range cfgs {
		d, err := newDevChain(cf.kind, cf.n, cf.ttl)
		if err != nil {
			c.Violate(fmt.Sprintf("device chain (%s, %d devices, TTL %d): cannot set up: %v", cf.kind, cf.n, cf.ttl, err), nil)
			if d != nil {
				d.close()
			}
			continue
		}
		delivered := cf.n+1 <= cf.ttl
		var mu sync.Mutex
		roundTrip := func(cl mangos.Socket, who int, j int, phase string) {
			payload := append([]byte(fmt.Sprintf("c%d-%d-", who, j)), patterned(uint64(who*1000+j), c.R.Pick(0, 1, 5, 64, 300))...)
			obs := "lost"
			var got []byte
			if err := cl.Send(payload); err == nil {
				if m, err := cl.Recv(); err == nil {
					got = m
					obs = vp.Hex(m)
				}
			}
			mu.Lock()
			defer mu.Unlock()
			class := fmt.Sprintf("device %s n=%d ttl=%d %s delivered=%v", cf.kind, cf.n, cf.ttl, phase, obs != "lost")
			c.Class(class, true)
			c.T.Line(class, fmt.Sprintf("dev.rt %s %d %d %s", cf.kind, cf.n, cf.ttl, vp.Hex(payload)), obs)
			want := append([]byte("R:"), payload...)
			if delivered && !bytes.Equal(got, want) {
				what := "no reply within 500 ms"
				if got != nil {
					what = fmt.Sprintf("the reply %.40q (it is the answer to another request, or altered)", got)
				}
				c.Violate(fmt.Sprintf("device chain (%s, %d devices, server TTL %d, %s): client %d sent %.24q and got %s", cf.kind, cf.n, cf.ttl, phase, who, payload, what),
					map[string]interface{}{"kind": cf.kind, "devices": cf.n, "ttl": cf.ttl, "phase": phase, "request": vp.Hex(payload)})
			}
			if !delivered && got != nil {
				c.Violate(fmt.Sprintf("device chain (%s): a request that crossed %d connections was answered although the server's TTL is %d", cf.kind, cf.n+1, cf.ttl),
					map[string]interface{}{"kind": cf.kind, "devices": cf.n, "ttl": cf.ttl})
			}
		}
		clients := []mangos.Socket{d.client(), d.client(), d.client()}
		time.Sleep(40 * time.Millisecond)
		rounds := 4
		if !delivered {
			rounds = 1
		}
		var wg sync.WaitGroup
		for i, cl := range clients {
			wg.Add(1)
			go func(i int, cl mangos.Socket) {
				defer wg.Done()
				for j := 0; j < rounds; j++ {
					roundTrip(cl, i, j, "concurrent")
				}
			}(i, cl)
		}
		wg.Wait()
		if delivered && cf.n >= 1 {
			// a client leaves with its request outstanding; its late reply must be discarded, not break the chain
			gone := d.client()
			time.Sleep(30 * time.Millisecond)
			for k := 0; k < 4; k++ {
				_ = gone.Send([]byte(fmt.Sprintf("D-late-%d", k)))
			}
			time.Sleep(20 * time.Millisecond)
			_ = gone.Close()
			time.Sleep(700 * time.Millisecond) // the four late replies have come back through the chain by now
			for i, cl := range clients {
				for j := 10; j < 13; j++ {
					roundTrip(cl, i, j, "after-a-client-left")
				}
			}
		}
		for _, cl := range clients {
			_ = cl.Close()
		}
		d.close()
	}
}
