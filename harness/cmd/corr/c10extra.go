package main

// C10, two further real-socket situations:
//  (a) Close while an inbound connection is still shaking hands (the peer has connected and is silent): the
//      connection must not outlive the socket, whatever the peer does afterwards;
//  (b) "closing a … listener … affects only that object": closing a listener that never got the address (its Listen
//      failed with address-in-use) must leave the listener that owns the address in service.

import (
	"fmt"
	"io"
	"net"
	"strings"
	"sync"
	"time"
	"verifharness/vt"

	"go.nanomsg.org/mangos/v3"
	"go.nanomsg.org/mangos/v3/protocol/pair"
	"go.nanomsg.org/mangos/v3/protocol/pull"
	"go.nanomsg.org/mangos/v3/protocol/push"
)

// the peer's view of a connection: "closed" if a read ends (EOF / reset) within the limit, "open" if it is still
// readable-and-silent after it
func peerSees(conn net.Conn, limit time.Duration) string {
	_ = conn.SetReadDeadline(time.Now().Add(limit))
	buf := make([]byte, 64)
	for {
		_, err := conn.Read(buf)
		if err == nil {
			continue // the SP header the library sent first
		}
		if ne, ok := err.(net.Error); ok && ne.Timeout() {
			return "open"
		}
		if err == io.EOF || strings.Contains(err.Error(), "reset") || strings.Contains(err.Error(), "closed") || strings.Contains(err.Error(), "broken") {
			return "closed"
		}
		return "closed"
	}
}

func c10MidHandshake(c *Ctx) {
	c10settle()
	for ti, tr := range e2eTransports {
		if tr.name != "tcp" && tr.name != "ipc" {
			continue // tls needs a TLS client; ws/wss and inproc have no SP handshake of this kind
		}
		for _, peerAct := range []string{"silent", "late-header"} {
			s, _ := pair.NewSocket()
			l, err := s.NewListener(tr.addr(9800+ti), nil)
			if err == nil {
				err = l.Listen()
			}
			if err != nil {
				_ = s.Close()
				continue
			}
			addr := l.Address()
			network, target := "tcp", strings.TrimPrefix(addr, "tcp://")
			if tr.name == "ipc" {
				network, target = "unix", strings.TrimPrefix(addr, "ipc://")
			}
			conn, err := net.Dial(network, target)
			if err != nil {
				_ = s.Close()
				continue
			}
			time.Sleep(40 * time.Millisecond) // accepted; the handshake worker has sent its header and waits for ours
			class := fmt.Sprintf("close-midhandshake %s %s", tr.name, peerAct)
			t0 := time.Now()
			done := make(chan error, 1)
			go func() { done <- s.Close() }()
			select {
			case err := <-done:
				c10Line(c, class+" close", "close", vp_errname(err))
			case <-time.After(2 * time.Second):
				c10Line(c, class+" close", "close", "hang")
				c.Violate(fmt.Sprintf("close (%s): Socket.Close did not return within 2 s while an inbound connection was shaking hands", tr.name), nil)
			}
			if peerAct == "late-header" {
				// the peer completes the handshake after the socket has been closed
				hdr := []byte{0, 'S', 'P', 0, 0, byte(mangos.ProtoPair), 0, 0}
				if tr.name == "ipc" {
					_, _ = conn.Write(hdr)
				} else {
					_, _ = conn.Write(hdr)
				}
			}
			obs := peerSees(conn, 700*time.Millisecond)
			c10Line(c, class+" conn", "midhandshake-conn", obs)
			if obs != "closed" {
				c.Violate(fmt.Sprintf("close (%s, peer %s): %v after Socket.Close returned, the connection a peer had opened before the Close (handshake not completed at that time) is still open on the library's side", tr.name, peerAct, time.Since(t0).Round(time.Millisecond)),
					map[string]interface{}{"transport": tr.name, "peer": peerAct, "history": []string{"Listen", "raw peer connects, sends nothing", "Socket.Close", "peer: " + peerAct, "peer reads: no EOF within 700 ms"}})
			}
			libs := c10settle()
			c10Line(c, class+" goroutines", "goroutines", fmt.Sprint(len(libs)))
			if len(libs) > 0 {
				c.Violate(fmt.Sprintf("close (%s, peer %s): %d goroutine(s) of the library remain 3 s after Socket.Close while an inbound connection was shaking hands: %s", tr.name, peerAct, len(libs), strings.Join(libs, " | ")),
					map[string]interface{}{"transport": tr.name, "peer": peerAct, "goroutines": libs})
			}
			_ = conn.Close()
			c10settle()
		}
	}
}

// the dialing side of the same: the socket has dialled a peer that accepted the connection and says nothing (or answers
// only after the socket was closed).  Socket.Close ends the connection attempt: the peer sees the connection closed and
// no goroutine of the library remains.
func c10DialMidHandshake(c *Ctx) {
	c10settle()
	for _, tr := range e2eTransports {
		if tr.name != "tcp" && tr.name != "ipc" && tr.name != "ws" {
			continue // ws: the peer accepts the TCP connection and never answers the upgrade request
		}
		for _, asynch := range []bool{true, false} {
			network, laddr, url := "tcp", "127.0.0.1:0", ""
			if tr.name == "ipc" {
				network = "unix"
				laddr = fmt.Sprintf("/tmp/verif-c10-dialmid-%d-%v.sock", time.Now().UnixNano()%1000000, asynch)
			}
			ln, err := net.Listen(network, laddr)
			if err != nil {
				continue
			}
			switch tr.name {
			case "ipc":
				url = "ipc://" + laddr
			case "ws":
				url = "ws://" + ln.Addr().String() + "/x"
			default:
				url = "tcp://" + ln.Addr().String()
			}
			accepted := make(chan net.Conn, 4)
			go func() {
				for {
					cn, err := ln.Accept()
					if err != nil {
						return
					}
					accepted <- cn // silent: never sends its header
				}
			}()
			s, _ := pair.NewSocket()
			_ = s.SetOption(mangos.OptionDialAsynch, asynch)
			dialDone := make(chan error, 1)
			go func() { dialDone <- s.Dial(url) }()
			var conn net.Conn
			select {
			case conn = <-accepted:
			case <-time.After(time.Second):
			}
			if conn == nil {
				_ = s.Close()
				_ = ln.Close()
				continue
			}
			time.Sleep(40 * time.Millisecond) // the library has sent its header and waits for ours
			class := fmt.Sprintf("close-dial-midhandshake %s asynch=%v", tr.name, asynch)
			t0 := time.Now()
			done := make(chan error, 1)
			go func() { done <- s.Close() }()
			select {
			case err := <-done:
				c10Line(c, class+" close", "close", vp_errname(err))
			case <-time.After(2 * time.Second):
				c10Line(c, class+" close", "close", "hang")
				c.Violate(fmt.Sprintf("close (%s): Socket.Close did not return within 2 s while an outbound connection was shaking hands", tr.name), nil)
			}
			obs := peerSees(conn, 700*time.Millisecond)
			c10Line(c, class+" conn", "midhandshake-conn", obs)
			if obs != "closed" {
				c.Violate(fmt.Sprintf("close (%s, dialling, DIAL-ASYNCH %v): %v after Socket.Close returned, the connection the socket had dialled (peer silent, handshake not completed) is still open on the library's side", tr.name, asynch, time.Since(t0).Round(time.Millisecond)),
					map[string]interface{}{"transport": tr.name, "history": []string{"a raw listener accepts and says nothing", "Socket.Dial (DIAL-ASYNCH " + fmt.Sprint(asynch) + ")", "Socket.Close", "peer reads: no EOF within 700 ms"}})
			}
			if !asynch {
				select {
				case <-dialDone:
				case <-time.After(2 * time.Second):
					c.Violate(fmt.Sprintf("close (%s): a synchronous Dial still shaking hands with a silent peer did not return within 2 s of Socket.Close", tr.name), nil)
				}
			}
			libs := c10settle()
			c10Line(c, class+" goroutines", "goroutines", fmt.Sprint(len(libs)))
			if len(libs) > 0 {
				c.Violate(fmt.Sprintf("close (%s, dialling, DIAL-ASYNCH %v): %d goroutine(s) of the library remain 3 s after Socket.Close while an outbound connection was shaking hands with a silent peer: %s", tr.name, asynch, len(libs), strings.Join(libs, " | ")),
					map[string]interface{}{"transport": tr.name, "goroutines": libs})
			}
			_ = conn.Close()
			_ = ln.Close()
			c10settle()
		}
	}
}

// several peers have completed the handshake but have not been accepted yet (the accept loop is held up inside an
// Attaching hook) when the socket is closed: every one of those connections must be closed
func c10QueuedHandshakes(c *Ctx) {
	c10settle()
	for ti, tr := range e2eTransports {
		if tr.name != "tcp" && tr.name != "ipc" {
			continue
		}
		s, _ := pair.NewSocket()
		release := make(chan struct{})
		var once sync.Once
		parked := make(chan struct{})
		s.SetPipeEventHook(func(ev mangos.PipeEvent, p mangos.Pipe) {
			if ev == mangos.PipeEventAttaching {
				once.Do(func() { close(parked) })
				<-release
			}
		})
		l, err := s.NewListener(tr.addr(9870+ti), nil)
		if err == nil {
			err = l.Listen()
		}
		if err != nil {
			close(release)
			_ = s.Close()
			continue
		}
		addr := l.Address()
		network, target := "tcp", strings.TrimPrefix(addr, "tcp://")
		if tr.name == "ipc" {
			network, target = "unix", strings.TrimPrefix(addr, "ipc://")
		}
		hdr := []byte{0, 'S', 'P', 0, 0, byte(mangos.ProtoPair), 0, 0}
		var conns []net.Conn
		for i := 0; i < 4; i++ {
			cn, err := net.Dial(network, target)
			if err != nil {
				break
			}
			_, _ = cn.Write(hdr)
			conns = append(conns, cn)
			if i == 0 {
				select { // the first one is inside the hook; the others queue up behind it, handshakes completed
				case <-parked:
				case <-time.After(time.Second):
				}
			}
		}
		time.Sleep(60 * time.Millisecond)
		class := "close-queued-handshakes " + tr.name
		done := make(chan error, 1)
		go func() { done <- s.Close() }()
		time.Sleep(50 * time.Millisecond)
		close(release)
		select {
		case err := <-done:
			c10Line(c, class+" close", "close", vp_errname(err))
		case <-time.After(3 * time.Second):
			c10Line(c, class+" close", "close", "hang")
			c.Violate(fmt.Sprintf("close (%s): Socket.Close did not return within 3 s with handshaken connections waiting to be accepted", tr.name), nil)
		}
		for i, cn := range conns {
			obs := peerSees(cn, 700*time.Millisecond)
			c10Line(c, fmt.Sprintf("%s conn", class), "midhandshake-conn", obs)
			if obs != "closed" {
				c.Violate(fmt.Sprintf("close (%s): connection %d of %d that had completed the handshake and was waiting to be accepted when the socket was closed is still open on the library's side 700 ms after Close returned", tr.name, i+1, len(conns)),
					map[string]interface{}{"transport": tr.name, "history": []string{"Listen", "Attaching hook parks the accept loop", "4 raw peers connect and send their SP header", "Socket.Close", fmt.Sprintf("peer %d reads: no EOF", i+1)}})
			}
			_ = cn.Close()
		}
		libs := c10settle()
		c10Line(c, class+" goroutines", "goroutines", fmt.Sprint(len(libs)))
		if len(libs) > 0 {
			c.Violate(fmt.Sprintf("close (%s): %d goroutine(s) of the library remain after Socket.Close with handshaken connections waiting: %s", tr.name, len(libs), strings.Join(libs, " | ")), nil)
		}
	}
}

// Close lands while a Dial is still creating its dialer (the transport is slow to configure): the Dial must fail with
// a closed error and nothing may dial afterwards
func c10DialRacingClose(c *Ctx) {
	for i := 0; i < 3; i++ {
		s, _ := pair.NewSocket()
		_ = s.SetOption(mangos.OptionReconnectTime, 5*time.Millisecond)
		_ = s.SetOption(mangos.OptionMaxReconnectTime, 5*time.Millisecond)
		url := fmt.Sprintf("verif://c10-dialrace-%d-%d", c.Seed, i)
		vt.SetOptDelay(60 * time.Millisecond)
		res := make(chan error, 1)
		go func() { res <- s.DialOptions(url, map[string]interface{}{mangos.OptionDialAsynch: true}) }()
		time.Sleep(20 * time.Millisecond)
		cerr := s.Close()
		var derr error
		select {
		case derr = <-res:
		case <-time.After(2 * time.Second):
			derr = fmt.Errorf("hang")
		}
		vt.SetOptDelay(0)
		class := "close-during-dial"
		c10Line(c, class+" close", "close", vp_errname(cerr))
		dobs := vp_errname2(derr)
		c10Line(c, class+" dial", "after-dial", dobs)
		// whatever the dialer does from now on is activity on a closed socket
		attempts := 0
		if td := vt.T.Dialer(url); td != nil {
			for k := 0; k < 10; k++ {
				for td.Parked() > 0 {
					td.Script(vt.DialResult{Err: mangos.ErrConnRefused})
				}
				time.Sleep(15 * time.Millisecond)
			}
			attempts = td.NAttempts()
		}
		c10Line(c, class+" redial", "redial", fmt.Sprint(attempts))
		if dobs != "closed" || attempts > 0 {
			c.Violate(fmt.Sprintf("close during Dial: Socket.Close returned while Dial was still setting up its dialer; Dial then returned %s and the dialer made %d connection attempt(s) on the closed socket within 150 ms", dobs, attempts),
				map[string]interface{}{"history": []string{"Dial (asynchronous; transport slow to configure)", "Socket.Close", "Dial returns " + dobs, fmt.Sprintf("%d connection attempts afterwards", attempts)}})
		}
	}
}

func vp_errname(err error) string {
	if err == nil {
		return "ok"
	}
	return strings.ReplaceAll(err.Error(), " ", "_")
}

func c10BystanderListener(c *Ctx) {
	if err := initTLS(); err != nil {
		return
	}
	for ti, tr := range e2eTransports {
		for _, how := range []string{"listener", "socket"} {
			owner, _ := pull.NewSocket()
			_ = owner.SetOption(mangos.OptionRecvDeadline, time.Second)
			lopts, dopts := map[string]interface{}{}, map[string]interface{}{}
			if tr.tls {
				lopts[mangos.OptionTLSConfig] = srvTLS
				dopts[mangos.OptionTLSConfig] = cliTLS
			}
			l, err := owner.NewListener(tr.addr(9850+ti), lopts)
			if err == nil {
				err = l.Listen()
			}
			if err != nil {
				_ = owner.Close()
				continue
			}
			addr := l.Address()
			loser, _ := pull.NewSocket()
			l2, err := loser.NewListener(addr, lopts)
			class := fmt.Sprintf("close-bystander %s %s", tr.name, how)
			if err == nil {
				err = l2.Listen()
				c10Line(c, class+" second-listen", "second-listen", vp_errname2(err))
			}
			if how == "listener" && l2 != nil {
				_ = l2.Close()
			}
			_ = loser.Close()
			// the owner of the address is still in service
			cl, _ := push.NewSocket()
			_ = cl.SetOption(mangos.OptionSendDeadline, time.Second)
			derr := cl.DialOptions(addr, dopts)
			obs := vp_errname2(derr)
			if derr == nil {
				time.Sleep(30 * time.Millisecond)
				if err := cl.Send([]byte("still-here")); err != nil {
					obs = "send:" + vp_errname2(err)
				} else if m, err := owner.Recv(); err != nil || string(m) != "still-here" {
					obs = "recv:" + vp_errname2(err)
				}
			}
			c10Line(c, class+" bystander", "bystander-dial", obs)
			if obs != "ok" {
				c.Violate(fmt.Sprintf("close (%s): after a second listener for an address in use was closed (its Listen had failed; closed via its %s), the listener that owns %s is no longer reachable: %s", tr.name, how, addr, obs),
					map[string]interface{}{"transport": tr.name, "history": []string{"A.Listen(" + addr + ") ok", "B.Listen(same) fails", "close B's " + how, "C.Dial(" + addr + ") -> " + obs}})
			}
			_ = cl.Close()
			_ = owner.Close()
			c10settle()
		}
	}
}

func vp_errname2(err error) string {
	if err == nil {
		return "ok"
	}
	switch err {
	case mangos.ErrAddrInUse:
		return "addrinuse"
	case mangos.ErrConnRefused:
		return "connrefused"
	case mangos.ErrClosed:
		return "closed"
	case mangos.ErrSendTimeout:
		return "sendtimeout"
	case mangos.ErrRecvTimeout:
		return "recvtimeout"
	}
	if strings.Contains(err.Error(), "in use") {
		return "addrinuse" // the operating system's refusal, passed through by tcp / ipc / ws
	}
	return strings.ReplaceAll(err.Error(), " ", "_")
}
