package main

import (
	"fmt"
	"strings"

	"go.nanomsg.org/mangos/v3/protocol"
	"verifharness/vt"
)

func init() { props["C13"] = runC13 }

func runCoreScenario(c *Ctx, idx, nops int, timers bool) {
	e := NewCExec(c, fmt.Sprintf("s%d-%d", c.Seed, idx))
	e.NewListener(1)
	if c.R.Intn(3) == 0 {
		e.Listen(1, true) // a failed Listen leaves the listener usable
	}
	e.Listen(1, false)
	e.NewListener(2)
	e.Listen(2, false)
	e.closeFirst = c.R.Intn(2) == 0
	// while listener 1's accept loop sits in a parked Attaching callback, new peers arrive at listener 2
	lst := func() int {
		if e.AttachParked() {
			return 2
		}
		return 1
	}
	ndial := 0
	live := func() []int {
		var ks []int
		for k := 1; k <= e.npipes; k++ {
			if p := e.tpipes[k]; p != nil && !p.IsClosed() && !(e.AttachParked() && k == e.parkedK) {
				ks = append(ks, k)
			}
		}
		return ks
	}
	pendingDial := map[int]bool{}
	for i := 0; i < nops && !e.broken; i++ {
		switch k := c.R.Intn(20); {
		case k < 6:
			e.Conn(lst(), "plain")
		case k == 6:
			e.Conn(lst(), "hookclose")
		case k == 7:
			if c.R.Intn(2) == 0 {
				e.Conn(lst(), "refuse")
			} else {
				e.Conn(lst(), "deadpeer")
			}
		case k < 11:
			if ks := live(); len(ks) > 0 {
				e.Drop(ks[c.R.Intn(len(ks))])
			}
		case k < 13:
			if ks := live(); len(ks) > 0 {
				e.PClose(ks[c.R.Intn(len(ks))])
			}
		case k == 13:
			if ndial < 2 {
				ndial++
				e.NewDialer(ndial, c.R.Intn(2) == 0, 10000, 0) // long reconnect time: no redial within the scenario
				e.Dial(ndial)
				pendingDial[ndial] = true
			}
		case k == 14:
			for d := range pendingDial {
				mode := []string{"plain", "plain", "hookclose", "refuse"}[c.R.Intn(4)]
				if c.R.Intn(4) == 0 {
					e.DialRes(d, false, "")
				} else {
					e.DialRes(d, true, mode)
				}
				delete(pendingDial, d)
				break
			}
		case k == 15:
			e.Listen(1, false) // already listening: address in use, nothing else changes
		case k == 17:
			if !e.AttachParked() {
				e.Conn(1, "hookpark")
			} else if c.R.Intn(3) == 0 && e.pipes[e.parkedK] != nil {
				e.PClose(e.parkedK) // the application closes the pipe it was shown, from another goroutine
			} else {
				e.AttachRelease()
			}
		case k == 16:
			if e.hookHold == nil {
				e.HookHold(true)
			} else {
				e.HookRelease()
			}
		default:
			e.Conn(lst(), "plain")
		}
	}
	e.Finish()
	// after the socket is closed nothing of it remains
	obs := lastOf(e.ops)
	if !hasEmpty(obs, "ids:") || !hasEmpty(obs, "listed:") {
		c.Violate(fmt.Sprintf("core: after Socket.Close pipe ids or pipe-list entries remain: %s", tailFields(obs)), e.Replay())
	}
}

func lastOf(ops []string) string {
	if len(ops) == 0 {
		return ""
	}
	return ops[len(ops)-1]
}
func hasEmpty(obs, key string) bool {
	for _, f := range splitFields(obs) {
		if len(f) >= len(key) && f[:len(key)] == key {
			return f == key
		}
	}
	return false
}
func splitFields(s string) []string {
	var out []string
	cur := ""
	for _, r := range s {
		if r == ' ' {
			if cur != "" {
				out = append(out, cur)
			}
			cur = ""
		} else {
			cur += string(r)
		}
	}
	if cur != "" {
		out = append(out, cur)
	}
	return out
}
func tailFields(obs string) string {
	f := splitFields(obs)
	if len(f) > 2 {
		f = f[len(f)-2:]
	}
	return fmt.Sprint(f)
}

// directed: "... a pipe closed or refused during Attaching, or refused by the protocol, gets neither [Attached nor
// Detached], and the socket, its listener and its dialer carry on accepting and redialling"
func runRejectedDialerScenario(c *Ctx, idx int, mode string, asynch bool) {
	e := NewCExec(c, fmt.Sprintf("r%d-%d", c.Seed, idx))
	e.NewDialer(1, asynch, 20, 0)
	e.Dial(1)
	td := vt.T.Dialer(e.addr("d", 1))
	if td == nil || td.Parked() == 0 {
		e.Finish()
		return
	}
	e.DialRes(1, true, mode) // the transport connects; the hook closes the pipe during Attaching / the protocol refuses it
	n0 := td.NAttempts()
	e.Sleep(90)
	e.Sleep(90)
	if td.NAttempts() <= n0 && !e.broken {
		c.Violate(fmt.Sprintf("core: after a connection the dialer had established was rejected (%s) the dialer made no further attempt within 180 ms although its reconnect time is 20 ms: it has stopped redialling", mode), e.Replay())
	}
	if td.Parked() > 0 {
		e.DialRes(1, true, "plain") // and the next connection is admitted normally
	}
	e.Finish()
}

func runC13(c *Ctx) {
	c.Rep.Rule = "random sequences on a real core socket over a scripted transport and a recording protocol: connects on listener and dialer sides, peer drops, application closes, hook closes during Attaching, protocol refusals, failed and repeated Listen, a hook parked inside Detached, socket close; " +
		"after every operation the hook log, the protocol's AddPipe/RemovePipe log, the ids reserved in the allocator and the socket's pipe list are compared with the Lean core machine; class = (operation, shape of the observation)"
	n := 60
	if c.Thorough() {
		n = 1500
	}
	for i := 0; i < n; i++ {
		runCoreScenario(c, i, 35, false)
	}
	allocatorRuns(c)
	// "its dialer carries on redialling": the dialer scripts of C14 (short real reconnect times; refused, hook-closed
	// and dropped connections at every phase)
	for i := 0; i < n/4; i++ {
		runDialScenario(c, 5000+i)
	}
	for i, mode := range []string{"refuse", "hookclose", "refuse", "hookclose"} {
		runRejectedDialerScenario(c, i, mode, i < 2)
	}
	// the pipe's read-only facts over real transports
	runPipeFacts(c)
	runHookEdgeCases(c)
}

// the id allocator driven directly at every interesting counter position (wrap-arounds, ids in use ahead)
func allocatorRuns(c *Ctx) {
	positions := []uint32{1, 0, 0x7ffffffe, 0x7fffffff, 0x80000000, 0x80000001, 0xfffffffe, 0xffffffff, 0x12345678, 0x92345678}
	for i := 0; i < 8; i++ {
		positions = append(positions, uint32(c.R.U64()))
	}
	for _, pos := range positions {
		for _, ahead := range []int{0, 1, 3} {
			// reserve `ahead` ids right at the scan position so that the scan has to skip them
			var held []uint32
			protocol.VerifPipeIDSetNext(pos)
			for j := 0; j < ahead; j++ {
				held = append(held, protocol.VerifPipeIDGet())
			}
			protocol.VerifPipeIDSetNext(pos)
			var used []string
			inUse := protocol.VerifPipeIDsInUse()
			for _, id := range inUse {
				used = append(used, fmt.Sprint(id))
			}
			us := "-"
			if len(used) > 0 {
				us = strings.Join(used, ",")
			}
			id := protocol.VerifPipeIDGet()
			// the counter afterwards is observed through the next allocation after freeing everything
			class := fmt.Sprintf("alloc pos=%#x ahead=%d", pos&0xf0000000, ahead)
			c.Class(class, true)
			after := protocol.VerifPipeIDsInUse()
			_ = after
			nextObs := allocNextProbe()
			c.T.Line(class, fmt.Sprintf("alloc.get %d %s", pos, us), fmt.Sprintf("%d %d", id, nextObs))
			if id == 0 || id >= 0x80000000 {
				c.Violate(fmt.Sprintf("pipe id allocator at counter %#x returned %#x (ids are non-zero 31-bit values)", pos, id), map[string]interface{}{"counter": pos})
			}
			for _, u := range inUse {
				if u == id {
					c.Violate(fmt.Sprintf("pipe id allocator at counter %#x returned id %#x which is in use", pos, id), map[string]interface{}{"counter": pos})
				}
			}
			protocol.VerifPipeIDFree(id)
			for _, h := range held {
				protocol.VerifPipeIDFree(h)
			}
		}
	}
}

var allocProbe uint32

// allocNextProbe reads the allocator's counter without disturbing the ids in use
func allocNextProbe() uint32 { return protocol.VerifPipeIDNext() }
