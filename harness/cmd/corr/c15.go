package main

func init() {
	props["C15"] = func(c *Ctx) {
		c.Rep.Rule = "real conn.go/connipc code over in-memory connections against a raw peer written in the harness; every Write of the raw peer is one fragment; " +
			"class = (direction, ipc?, #frames, fragmentation mode, limit?, outcome) for frames and (byte position, error) for handshake deviations; all are non-trivial (boundary sizes, fragmentation, deviations)"
		wireHandshake(c, c.Thorough())
		n := 60
		if c.Thorough() {
			n = 600
		}
		wireFraming(c, n)
		wireSendSweep(c)
		wsIndependent(c)
		c.Rep.Exhaustive = c.Thorough()
	}
	props["C16"] = func(c *Ctx) {
		c.Rep.Rule = "hostile byte streams (negative/huge lengths, limit±1, truncation at every offset, random mutations) and handshake deviations fed to the real conn code; " +
			"class = (kind, ipc?, how the stream ended, #delivered); all non-trivial"
		wireHandshake(c, false)
		n := 80
		if c.Thorough() {
			n = 1500
		}
		wireHostile(c, n)
		wireStall(c)
		runSilentPeerDoesNotDelayOthers(c)
		runRejectedHandshakesDoNotDelayOthers(c)
		protoHostile(c)
		subShortBodies(c)
		runLimitConfig(c)
	}
}
