package main

// The connection handshaker of the stream transports (transport.NewConnHandshaker: tcp, tls+tcp, ipc listeners and
// dialers) driven step by step against Model/Handshaker.lean, machine `m.hs`.  Connections are the library's own
// conn pipes (transport.NewConnPipe) over in-memory net.Pipe pairs; the harness plays the peers: a peer that takes
// our header and then answers correctly or with garbage when told to (`finish c ok|bad`), or one that never reads
// (`mute`).  What is observed after every step, at quiescence: which parked Wait calls returned what, and on which
// connections the peer now sees end-of-stream (the library closed them).  At the end of every scenario the property
// itself is evaluated on the real objects: after Close every connection ever started and not handed to a caller of
// Wait must be closed, and no goroutine of the handshaker may remain.

import (
	"fmt"
	"io"
	"net"
	"runtime"
	"sort"
	"strings"
	"sync"
	"time"

	"go.nanomsg.org/mangos/v3"
	"go.nanomsg.org/mangos/v3/protocol/pair"
	"go.nanomsg.org/mangos/v3/transport"

	"verifharness/vp"
)

type hsPeer struct {
	id     int
	mute   bool
	c      net.Conn // the peer's end
	mine   transport.Pipe
	cmd    chan string
	mu     sync.Mutex
	eof    bool // the peer saw end-of-stream / an error: the library closed its end
	gotHdr bool
	told   bool // the harness has told this peer how to answer
}

func (p *hsPeer) closedNow() bool {
	p.mu.Lock()
	defer p.mu.Unlock()
	return p.eof
}

func (p *hsPeer) run() {
	if p.mute {
		// never reads: the library's header write stays blocked; a one-byte read would let it through, so only
		// watch for the close by trying to write nothing useful — net.Pipe reports a closed peer on Write
		<-p.cmd
		return
	}
	buf := make([]byte, 8)
	if _, err := io.ReadFull(p.c, buf); err != nil {
		p.mu.Lock()
		p.eof = true
		p.mu.Unlock()
		return
	}
	p.mu.Lock()
	p.gotHdr = true
	p.mu.Unlock()
	rd := make(chan error, 1)
	go func() {
		one := make([]byte, 1)
		_, err := p.c.Read(one)
		rd <- err
	}()
	for {
		select {
		case err := <-rd:
			_ = err
			p.mu.Lock()
			p.eof = true
			p.mu.Unlock()
			return
		case cmd := <-p.cmd:
			switch cmd {
			case "ok":
				// PAIR (16) talking to PAIR
				_, _ = p.c.Write([]byte{0, 'S', 'P', 0, 0, 16, 0, 0})
			case "bad":
				_, _ = p.c.Write([]byte{0, 'X', 'P', 0, 0, 16, 0, 0})
			case "stop":
				return
			}
		}
	}
}

func runHandshaker(c *Ctx) {
	n := 25
	if c.Thorough() {
		n = 600
	}
	info := mangos.ProtocolInfo{Self: 16, Peer: 16, SelfName: "pair", PeerName: "pair"}
	for sc := 0; sc < n; sc++ {
		h := transport.NewConnHandshaker()
		c.T.Line("handshaker new", "m.hs new", "-")
		peers := map[int]*hsPeer{}
		var order []int
		reported := map[int]bool{}
		handed := map[int]bool{}
		type waitRes struct {
			call int
			p    transport.Pipe
			err  error
		}
		waitCh := make(chan waitRes, 16)
		parked := 0
		closed := false
		var hist []string
		byPipe := map[transport.Pipe]int{}
		observe := func() string {
			if !vp.QuiesceT(2 * time.Second) {
				time.Sleep(20 * time.Millisecond)
			}
			var toks []string
			var rets []waitRes
		drain:
			for {
				select {
				case r := <-waitCh:
					rets = append(rets, r)
				default:
					break drain
				}
			}
			sort.Slice(rets, func(i, j int) bool { return rets[i].call < rets[j].call })
			for _, r := range rets {
				parked--
				switch {
				case r.err == mangos.ErrClosed && r.p == nil:
					toks = append(toks, fmt.Sprintf("ret:%d:closed", r.call))
				case r.err != nil:
					toks = append(toks, fmt.Sprintf("ret:%d:err", r.call))
				default:
					id := byPipe[r.p]
					handed[id] = true
					toks = append(toks, fmt.Sprintf("ret:%d:conn:%d", r.call, id))
				}
			}
			var shut []int
			for _, id := range order {
				p := peers[id]
				now := p.closedNow()
				if p.mute && !now {
					// a mute peer learns of the close by a failing write of its own
					_ = p.c.SetWriteDeadline(time.Now().Add(time.Millisecond))
					if _, err := p.c.Write([]byte{0}); err == io.ErrClosedPipe {
						now = true
						p.mu.Lock()
						p.eof = true
						p.mu.Unlock()
					}
				}
				if now && !reported[id] {
					reported[id] = true
					shut = append(shut, id)
				}
			}
			sort.Ints(shut)
			for _, id := range shut {
				toks = append(toks, fmt.Sprintf("shut:%d", id))
			}
			if len(toks) == 0 {
				return "-"
			}
			return strings.Join(toks, " ")
		}
		line := func(op string) {
			obs := observe()
			hist = append(hist, op+" => "+obs)
			f := strings.Fields(op)
			c.Class("handshaker "+f[0]+" closed="+fmt.Sprint(closed)+" "+strings.Join(strings.FieldsFunc(obs, func(r rune) bool { return r >= '0' && r <= '9' || r == ':' }), ""), true)
			c.T.Line("handshaker "+f[0], "m.hs "+op, obs)
		}
		nextConn, nextCall := 1, 1
		steps := 4 + c.R.Intn(12)
		didClose := false
		for st := 0; st < steps; st++ {
			k := c.R.Intn(10)
			var working []int
			for _, id := range order {
				p := peers[id]
				if !p.mute && !p.told && !handed[id] && !reported[id] && !p.closedNow() {
					working = append(working, id)
				}
			}
			switch {
			case k < 4 || len(order) == 0:
				id := nextConn
				nextConn++
				a, b := net.Pipe()
				p := &hsPeer{id: id, mute: c.R.Intn(5) == 0, c: b, cmd: make(chan string, 4)}
				p.mine = transport.NewConnPipe(a, info)
				byPipe[p.mine] = id
				peers[id] = p
				order = append(order, id)
				go p.run()
				h.Start(p.mine)
				kind := "reader"
				if p.mute {
					kind = "mute"
				}
				line(fmt.Sprintf("start %d %s", id, kind))
			case k < 7 && len(working) > 0:
				id := working[c.R.Intn(len(working))]
				p := peers[id]
				how := "ok"
				if c.R.Intn(3) == 0 {
					how = "bad"
				}
				p.told = true
				p.cmd <- how
				line(fmt.Sprintf("finish %d %s", id, how))
			case k < 9 && parked == 0:
				call := nextCall
				nextCall++
				parked++
				go func() {
					p, err := h.Wait()
					waitCh <- waitRes{call, p, err}
				}()
				line(fmt.Sprintf("wait %d", call))
			case !didClose || c.R.Intn(3) == 0:
				h.Close()
				closed = true
				didClose = true
				line("close")
			}
		}
		if !closed {
			h.Close()
			closed = true
			line("close")
		}
		// the property on the real objects
		time.Sleep(5 * time.Millisecond)
		_ = observe()
		for _, id := range order {
			if handed[id] {
				continue
			}
			if !reported[id] {
				c.Violate(fmt.Sprintf("connection handshaker: after Close, connection %d (given to Start, never handed out by Wait) is still open: its peer sees no end-of-stream", id),
					map[string]interface{}{"history": hist, "connection": id})
			}
		}
		buf := make([]byte, 1<<16)
		stacks := string(buf[:runtime.Stack(buf, true)])
		if strings.Contains(stacks, "transport.(*connHandshaker).worker") || strings.Contains(stacks, "transport.(*conn).handshake") {
			c.Violate("connection handshaker: after Close a handshake goroutine of the library remains (transport.(*conn).handshake)",
				map[string]interface{}{"history": hist})
		}
		for _, id := range order {
			p := peers[id]
			select {
			case p.cmd <- "stop":
			default:
			}
			_ = p.c.Close()
			if handed[id] {
				_ = p.mine.Close()
			}
		}
		vp.QuiesceT(500 * time.Millisecond)
	}
}

// The same on real sockets: silent raw TCP peers keep connecting while the socket is closed.  A connection the accept
// loop took just before Close and handed to the (already closed) handshaker afterwards must be closed like every
// other one: after Socket.Close every peer sees end-of-stream.
func runAcceptCloseRace(c *Ctx) {
	rounds := 60
	if c.Thorough() {
		rounds = 600
	}
	open := 0
	total := 0
	for round := 0; round < rounds; round++ {
		s, err := pair.NewSocket()
		if err != nil {
			continue
		}
		l, err := s.NewListener("tcp://127.0.0.1:0", nil)
		if err != nil || l.Listen() != nil {
			_ = s.Close()
			continue
		}
		addr := strings.TrimPrefix(l.Address(), "tcp://")
		var mu sync.Mutex
		var conns []net.Conn
		stop := make(chan struct{})
		var wg sync.WaitGroup
		for g := 0; g < 4; g++ {
			wg.Add(1)
			go func() {
				defer wg.Done()
				for {
					select {
					case <-stop:
						return
					default:
					}
					cn, err := net.DialTimeout("tcp", addr, 50*time.Millisecond)
					if err != nil {
						return
					}
					mu.Lock()
					conns = append(conns, cn)
					mu.Unlock()
				}
			}()
		}
		time.Sleep(time.Duration(200+(round*7)%900) * time.Microsecond)
		_ = s.Close()
		close(stop)
		wg.Wait()
		time.Sleep(20 * time.Millisecond)
		mu.Lock()
		for _, cn := range conns {
			total++
			_ = cn.SetReadDeadline(time.Now().Add(40 * time.Millisecond))
			buf := make([]byte, 16)
			n, err := cn.Read(buf)
			if err == nil && n > 0 {
				// the library's own header: it accepted this connection and began the handshake, so closing it is
				// the library's job (a connection still in the kernel's accept queue when the listening socket goes
				// can linger without any library involvement — a plain net.Listener shows the same — and is not counted)
				// end-of-stream normally is there already; under load the goroutine that closes it may be late
				_ = cn.SetReadDeadline(time.Now().Add(2 * time.Second))
				_, err = cn.Read(buf)
				if ne, ok := err.(net.Error); ok && ne.Timeout() {
					open++
				}
			}
			_ = cn.Close()
		}
		mu.Unlock()
	}
	c.Class(fmt.Sprintf("accept/close race over tcp: silent peers, all closed=%v", open == 0), true)
	obs := "closed"
	if open > 0 {
		obs = "open"
	}
	c.T.Line("accept-close race", "cl.check accepted-at-close-conn", obs)
	if open > 0 {
		c.Violate(fmt.Sprintf("Socket.Close while silent peers keep connecting (tcp): %d of %d connections on which the library had begun its handshake were still open 2 s after the socket was closed — accepted just before Close, given to the closed handshaker afterwards, never closed", open, total),
			map[string]interface{}{"scenario": "pair socket listening on tcp://127.0.0.1:0; 4 goroutines net.Dial in a loop and send nothing; Socket.Close after 0.2–1.1 ms; every connection must then read EOF", "rounds": rounds})
	}
}
