package main

import (
	"bytes"
	"fmt"
	"os"
	"path/filepath"
	"strings"
	"sync"
	"sync/atomic"
	"syscall"
	"time"

	"go.nanomsg.org/mangos/v3"
	"go.nanomsg.org/mangos/v3/macat"
	"go.nanomsg.org/mangos/v3/protocol/pull"
	"go.nanomsg.org/mangos/v3/protocol/push"
	"go.nanomsg.org/mangos/v3/protocol/rep"
	"go.nanomsg.org/mangos/v3/protocol/sub"
	"verifharness/vp"
)

func init() { props["C20"] = runC20 }

var macatFormats = []string{"raw", "ascii", "quoted", "msgpack"}

func isPrintLatin1(b byte) bool { return (b >= 0x20 && b <= 0x7e) || (b >= 0xa1 && b != 0xad) }

// independent decoders (the oracle): what a consumer of macat's output does
func oracleUnquote(s []byte) ([]byte, bool) {
	var out []byte
	for i := 0; i < len(s); i++ {
		if s[i] != '\\' {
			out = append(out, s[i])
			continue
		}
		if i+1 >= len(s) {
			return nil, false
		}
		switch s[i+1] {
		case 'n':
			out = append(out, '\n')
			i++
		case 'r':
			out = append(out, '\r')
			i++
		case '\\':
			out = append(out, '\\')
			i++
		case '"':
			out = append(out, '"')
			i++
		case 'x':
			if i+3 >= len(s) {
				return nil, false
			}
			var v byte
			if _, err := fmt.Sscanf(string(s[i+2:i+4]), "%02x", &v); err != nil {
				return nil, false
			}
			out = append(out, v)
			i += 3
		default:
			return nil, false
		}
	}
	return out, true
}

func oracleMsgpack(s []byte) ([]byte, bool) {
	if len(s) < 2 {
		return nil, false
	}
	var n, off int
	switch s[0] {
	case 0xc4:
		n, off = int(s[1]), 2
	case 0xc5:
		if len(s) < 3 {
			return nil, false
		}
		n, off = int(s[1])<<8|int(s[2]), 3
	case 0xc6:
		if len(s) < 5 {
			return nil, false
		}
		n, off = int(s[1])<<24|int(s[2])<<16|int(s[3])<<8|int(s[4]), 5
	default:
		return nil, false
	}
	if len(s)-off != n {
		return nil, false
	}
	return s[off:], true
}

func checkFormat(c *Ctx, format string, body []byte, trace bool) {
	out := macat.VerifPrintMsg(format, body)
	class := fmt.Sprintf("fmt %s len=%d", format, lenBucket(len(body)))
	c.Class(class, true)
	if trace {
		c.T.Line(class, fmt.Sprintf("mc.fmt %s %s", format, vp.Hex(body)), vp.Hex(out))
		if format == "quoted" || format == "msgpack" {
			c.T.Line("", fmt.Sprintf("mc.rt %s %s %s", format, vp.Hex(body), vp.Hex(out)), "ok")
		}
	}
	bad := ""
	switch format {
	case "raw":
		if !bytes.Equal(out, body) {
			bad = "raw output differs from the message"
		}
	case "ascii":
		if len(out) != len(body)+1 || out[len(out)-1] != '\n' {
			bad = "ascii record is not the message length plus a newline"
		} else {
			for i, b := range body {
				want := byte('.')
				if isPrintLatin1(b) {
					want = b
				}
				if out[i] != want {
					bad = fmt.Sprintf("ascii byte %d of %x printed as %#x", i, body, out[i])
					break
				}
			}
		}
	case "quoted":
		if len(out) == 0 || out[len(out)-1] != '\n' || bytes.IndexByte(out[:len(out)-1], '\n') >= 0 {
			bad = "quoted record is not exactly one line"
		} else if dec, ok := oracleUnquote(out[:len(out)-1]); !ok || !bytes.Equal(dec, body) {
			bad = fmt.Sprintf("quoted output %q does not decode back to the message", out)
		}
	case "msgpack":
		if dec, ok := oracleMsgpack(out); !ok || !bytes.Equal(dec, body) {
			bad = fmt.Sprintf("msgpack output (header % x) is not a bin object whose length and payload equal the %d-byte message", out[:min(5, len(out))], len(body))
		}
	}
	if bad != "" {
		c.Violate("macat "+format+": "+bad, map[string]interface{}{"format": format, "body_len": len(body), "body_prefix": vp.Hex(body[:min(len(body), 32)])})
	}
}

func lenBucket(n int) int {
	switch {
	case n < 255:
		return n / 64
	case n <= 257:
		return 100 + n
	case n < 65535:
		return 1000
	case n <= 65537:
		return 2000 + n - 65535
	}
	return 3000
}

// macatRun runs the application in-process with its output captured
func macatRun(args ...string) (string, error, bool) {
	a := &macat.App{}
	a.Initialize()
	var buf bytes.Buffer
	var mu sync.Mutex
	a.VerifSetStdout(lockedWriter{&buf, &mu})
	done := make(chan error, 1)
	go func() { done <- a.Run(args...) }()
	select {
	case err := <-done:
		mu.Lock()
		defer mu.Unlock()
		return buf.String(), err, true
	case <-time.After(3 * time.Second):
		mu.Lock()
		defer mu.Unlock()
		return buf.String(), nil, false
	}
}

type lockedWriter struct {
	b  *bytes.Buffer
	mu *sync.Mutex
}

func (w lockedWriter) Write(p []byte) (int, error) {
	w.mu.Lock()
	defer w.mu.Unlock()
	return w.b.Write(p)
}

func runC20(c *Ctx) {
	c.Rep.Rule = "formatter called through the verif hook on every single byte and a sample (quick) / all (thorough) byte pairs, random strings and the lengths 0,1,254..258,65534..65538 for each format, compared with the Lean formatter and decoded by the Lean decoders and by an independent decoder; " +
		"the application run in-process against real sockets for --data/--file, --count, intervals, formats and conflicting or missing options; class = (format, length bucket) / (scenario)"
	// exhaustive singles, pairs
	for _, f := range macatFormats {
		for b := 0; b < 256; b++ {
			checkFormat(c, f, []byte{byte(b)}, true)
		}
		checkFormat(c, f, []byte{}, true)
		if c.Thorough() {
			for a := 0; a < 256; a++ {
				for b := 0; b < 256; b++ {
					checkFormat(c, f, []byte{byte(a), byte(b)}, (a*256+b)%7 == 0)
				}
			}
			c.Rep.Exhaustive = true
		} else {
			for i := 0; i < 600; i++ {
				checkFormat(c, f, []byte{byte(c.R.Intn(256)), byte(c.R.Intn(256))}, true)
			}
		}
		for i := 0; i < 150; i++ {
			checkFormat(c, f, c.R.Bytes(c.R.Intn(40)), true)
		}
		for _, n := range []int{254, 255, 256, 257, 258, 65534, 65535, 65536, 65537, 65538, 100000} {
			checkFormat(c, f, patterned(uint64(n), n), f == "msgpack" || n < 300)
		}
	}
	// durations: bare integers are seconds
	for _, s := range []string{"0", "1", "5", "60", "-1", "3600", "007"} {
		d, err := macat.VerifParseDuration(s)
		obs := "err"
		if err == nil {
			obs = fmt.Sprint(int64(d))
		}
		c.Class("duration bare "+s, true)
		c.T.Line("duration", "mc.dur "+strings.TrimLeft(s, "+"), obs)
	}
	for s, want := range map[string]time.Duration{"250ms": 250 * time.Millisecond, "2s": 2 * time.Second, "1m": time.Minute} {
		d, err := macat.VerifParseDuration(s)
		c.Class("duration unit "+s, true)
		if err != nil || d != want {
			c.Violate(fmt.Sprintf("macat duration %q parsed as %v (%v)", s, d, err), nil)
		}
	}
	if _, err := macat.VerifParseDuration("abc"); err == nil {
		c.Violate("macat accepted the duration \"abc\"", nil)
	}

	// the application itself: sends exactly the bytes given, the number of times requested
	dir, _ := os.MkdirTemp("", "verif-c20-")
	defer os.RemoveAll(dir)
	runMacatFileFromPipe(c, dir)
	seq := 0
	for _, tc := range []struct {
		name  string
		count int
		extra []string // option order / interval variations
	}{
		{"count1", 1, []string{"--count", "1"}},
		{"count3", 3, []string{"--count", "3"}},
		{"count1-interval-after", 1, []string{"--count", "1", "--send-interval", "1ms"}},
		{"count1-interval-before", 1, []string{"--send-interval", "1ms", "--count", "1"}},
		{"count2-interval", 2, []string{"--count", "2", "-i", "1ms"}},
		{"count0", 0, []string{"--count", "0"}},
	} {
		for _, mode := range []string{"data", "file"} {
			seq++
			addr := fmt.Sprintf("inproc://verif-c20-%d-%d", c.Seed, seq)
			rx, _ := pull.NewSocket()
			_ = rx.SetOption(mangos.OptionRecvDeadline, 150*time.Millisecond)
			if err := rx.Listen(addr); err != nil {
				c.Violate("macat e2e: listen: "+err.Error(), nil)
				continue
			}
			payload := append([]byte("p\x00\xff\n"), c.R.Bytes(5)...)
			args := []string{"--push", "--connect", addr}
			if mode == "data" {
				payload = []byte(fmt.Sprintf("data-%d-%s", seq, tc.name))
				args = append(args, "--data", string(payload))
			} else {
				fn := filepath.Join(dir, fmt.Sprintf("f%d", seq))
				_ = os.WriteFile(fn, payload, 0o600)
				args = append(args, "--file", fn)
			}
			args = append(args, tc.extra...)
			_, err, finished := macatRun(args...)
			got := 0
			for {
				m, e := rx.Recv()
				if e != nil {
					break
				}
				if !bytes.Equal(m, payload) {
					c.Violate(fmt.Sprintf("macat %v sent %x, not the bytes given (%x)", args, m, payload), map[string]interface{}{"args": args})
				}
				got++
				if got > tc.count+20 {
					break
				}
			}
			_ = rx.Close()
			c.Class("send "+tc.name+" "+mode, true)
			if !finished || err != nil || got != tc.count {
				c.Violate(fmt.Sprintf("macat %v: sent the message %d times (requested %d), finished=%v err=%v", args[3:], got, tc.count, finished, err),
					map[string]interface{}{"args": args, "received": got, "want": tc.count})
			}
		}
	}
	// request / reply patterns send once per interval, the requested number of times — also with an interval of zero
	for _, iv := range []string{"0", "1ms"} {
		seq++
		addr := fmt.Sprintf("inproc://verif-c20-%d-%d", c.Seed, seq)
		srv, _ := rep.NewSocket()
		if err := srv.Listen(addr); err != nil {
			continue
		}
		_ = srv.SetOption(mangos.OptionRecvDeadline, 300*time.Millisecond)
		var nreq int32
		srvDone := make(chan struct{})
		go func() {
			defer close(srvDone)
			for {
				m, e := srv.Recv()
				if e != nil {
					return
				}
				if string(m) == "ping" {
					atomic.AddInt32(&nreq, 1)
				}
				_ = srv.Send([]byte("pong"))
			}
		}()
		args := []string{"--req", "--connect", addr, "--data", "ping", "--send-interval", iv, "--count", "3", "--recv-timeout", "1", "--raw"}
		out, err, finished := macatRun(args...)
		<-srvDone
		_ = srv.Close()
		c.Class("sendrecv count3 interval="+iv, true)
		if got := atomic.LoadInt32(&nreq); !finished || got != 3 || strings.Count(out, "pong") != 3 {
			c.Violate(fmt.Sprintf("macat %v: the peer received %d requests and macat printed %d replies (3 each requested); finished=%v err=%v", args, got, strings.Count(out, "pong"), finished, err),
				map[string]interface{}{"args": args, "requests": got})
		}
	}
	// receiving side: records printed one per message in each format
	for _, f := range macatFormats {
		seq++
		addr := fmt.Sprintf("inproc://verif-c20-%d-%d", c.Seed, seq)
		tx, _ := push.NewSocket()
		if err := tx.Listen(addr); err != nil {
			continue
		}
		msgs := [][]byte{[]byte("hello"), {0, 1, 2, '\n', '\\', '"', 0xff}, {}, []byte("x\ry")}
		go func() {
			time.Sleep(60 * time.Millisecond)
			for _, m := range msgs {
				_ = tx.Send(m)
			}
		}()
		out, err, finished := macatRun("--pull", "--connect", addr, "--"+f, "--recv-timeout", "1")
		_ = tx.Close()
		var want []byte
		for _, m := range msgs {
			want = append(want, macat.VerifPrintMsg(f, m)...)
		}
		c.Class("recv-format "+f, true)
		if !finished || !bytes.Equal([]byte(out), want) {
			c.Violate(fmt.Sprintf("macat --pull --%s printed %q for the 4 messages sent (err=%v finished=%v); one record per message expected: %q", f, out, err, finished, want), map[string]interface{}{"format": f})
		}
	}
	// conflicting or missing options are rejected before anything runs
	rp, _ := rep.NewSocket()
	_ = rp.Listen(fmt.Sprintf("inproc://verif-c20-%d-x", c.Seed))
	sb, _ := sub.NewSocket()
	_ = sb
	x := fmt.Sprintf("inproc://verif-c20-%d-x", c.Seed)
	for _, tc := range []struct {
		name string
		args []string
	}{
		{"two-protocols", []string{"--push", "--pull", "--connect", x}},
		{"two-formats", []string{"--pull", "--connect", x, "--raw", "--ascii"}},
		{"format-twice", []string{"--pull", "--connect", x, "--format", "raw", "--format", "quoted"}},
		{"bad-format", []string{"--pull", "--connect", x, "--format", "bogus"}},
		{"data-and-file", []string{"--push", "--connect", x, "--data", "a", "--file", "/etc/hostname"}},
		{"subscribe-non-sub", []string{"--req", "--connect", x, "--subscribe", "t", "--data", "q"}},
		{"extra-args", []string{"--push", "--connect", x, "--data", "a", "stray"}},
		{"no-protocol", []string{"--connect", x}},
		{"no-address", []string{"--push", "--data", "a"}},
		{"bad-duration", []string{"--push", "--connect", x, "--data", "a", "--send-timeout", "soon"}},
		{"push-no-data", []string{"--push", "--connect", x}},
	} {
		_, err, finished := macatRun(tc.args...)
		c.Class("reject "+tc.name, true)
		if !finished || err == nil {
			c.Violate(fmt.Sprintf("macat %v was not rejected with an error (finished=%v err=%v)", tc.args, finished, err), map[string]interface{}{"args": tc.args})
		}
	}
	// "conflicting … options are rejected": every ordered pair of payload options, whatever their values (an empty
	// --data, an empty file), every pair of protocols, every pair of formats
	cdir, _ := os.MkdirTemp("", "verif-c20c")
	defer os.RemoveAll(cdir)
	emptyF, fullF := filepath.Join(cdir, "empty"), filepath.Join(cdir, "full")
	_ = os.WriteFile(emptyF, nil, 0o600)
	_ = os.WriteFile(fullF, []byte("from-file"), 0o600)
	payloads := [][]string{{"--data", ""}, {"--data", "x"}, {"-D", ""}, {"-D", "y"}, {"--file", emptyF}, {"--file", fullF}, {"-F", emptyF}, {"-F", fullF}}
	conflict := func(kind string, k int, args []string) {
		_, err, finished := macatRun(args...)
		// rejected = refused while the options were being looked at; an error from dialing, binding, sending or
		// receiving means the command was accepted and ran
		obs := "accepted"
		if finished && err != nil {
			ran := false
			for _, pre := range []string{"dial(", "bind(", "send:", "recv:"} {
				if strings.HasPrefix(err.Error(), pre) {
					ran = true
				}
			}
			if !ran {
				obs = "rejected"
			}
		}
		class := fmt.Sprintf("conflict %s x%d", kind, k)
		c.Class(class, true)
		c.T.Line(class, fmt.Sprintf("mc.conflict %s %d", kind, k), obs)
		if k >= 2 && obs != "rejected" {
			c.Violate(fmt.Sprintf("macat %q: %d %s options were given and macat ran instead of rejecting them (finished=%v err=%v)", args, k, kind, finished, err), map[string]interface{}{"args": args})
		}
	}
	for _, p1 := range payloads {
		for _, p2 := range payloads {
			args := append([]string{"--push", "--connect", x, "--send-timeout", "1"}, p1...)
			conflict("payload", 2, append(args, p2...))
		}
	}
	protos := []string{"--req", "--rep", "--push", "--pull", "--pub", "--sub", "--surveyor", "--respondent", "--bus", "--pair", "--star"}
	for i, p1 := range protos {
		for j, p2 := range protos {
			if i != j && (i+j)%3 == 0 {
				conflict("protocol", 2, []string{p1, p2, "--connect", x, "--data", "q", "--send-timeout", "1", "--recv-timeout", "1"})
			}
		}
	}
	formats := []string{"--raw", "--ascii", "--quoted", "--msgpack", "--format=raw", "--format=quoted"}
	for i, f1 := range formats {
		for j, f2 := range formats {
			if i != j {
				conflict("format", 2, []string{"--pull", "--connect", x, "--recv-timeout", "1", f1, f2})
			}
		}
	}
	_ = rp.Close()
}

// --file names anything that can be read, not only regular files: the bytes a named pipe yields are the message
func runMacatFileFromPipe(c *Ctx, dir string) {
	for i, n := range []int{40, 0, 5000} {
		fifo := filepath.Join(dir, fmt.Sprintf("fifo%d", i))
		if err := syscall.Mkfifo(fifo, 0o600); err != nil {
			return
		}
		payload := patterned(uint64(2000+i), n)
		go func() {
			f, err := os.OpenFile(fifo, os.O_WRONLY, 0)
			if err != nil {
				return
			}
			_, _ = f.Write(payload)
			_ = f.Close()
		}()
		addr := fmt.Sprintf("inproc://verif-c20-fifo-%d-%d", c.Seed, i)
		rx, _ := pull.NewSocket()
		_ = rx.SetOption(mangos.OptionRecvDeadline, 500*time.Millisecond)
		if err := rx.Listen(addr); err != nil {
			continue
		}
		args := []string{"--push", "--connect", addr, "--file", fifo}
		_, err, finished := macatRun(args...)
		m, rerr := rx.Recv()
		_ = rx.Close()
		ok := finished && err == nil && rerr == nil && bytes.Equal(m, payload)
		c.Class(fmt.Sprintf("send file-from-pipe len=%d ok=%v", n, ok), true)
		if !ok {
			c.Violate(fmt.Sprintf("macat --file <named pipe yielding %d bytes>: sent %d bytes (recv err %v, run err %v, finished %v) — not the bytes the file yields", n, len(m), rerr, err, finished),
				map[string]interface{}{"args": args, "payload_len": n})
		}
	}
}
