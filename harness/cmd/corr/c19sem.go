package main

import (
	"fmt"
	"github.com/gorilla/websocket"
	"go.nanomsg.org/mangos/v3/transport/ws"
	"net/http"
	"reflect"
	"time"

	"go.nanomsg.org/mangos/v3"
	"go.nanomsg.org/mangos/v3/protocol/pair"
	"go.nanomsg.org/mangos/v3/protocol/xreq"
	"verifharness/vp"
)

func errName(e error) string { return vp.ErrName(e) }

func c19Semantics(c *Ctx) {
	// ---- operations a pattern does not have fail with the designated error and no side effect
	for _, sk := range allSocks {
		s, err := sk.mk()
		if err != nil {
			continue
		}
		_ = s.SetOption(mangos.OptionRecvDeadline, 50*time.Millisecond)
		_ = s.SetOption(mangos.OptionSendDeadline, 50*time.Millisecond)
		if !sk.canRecv {
			_, e := s.Recv()
			c.Class("unsupported recv "+sk.name, true)
			c.T.Line("unsupported", fmt.Sprintf("ops.table %s recv", sk.name), errName(e))
			if e != mangos.ErrProtoOp {
				c.Violate(fmt.Sprintf("%s: Recv returned %v; the pattern has no receive operation (ErrProtoOp expected)", sk.name, e), nil)
			}
		}
		if !sk.canSend {
			e := s.Send([]byte("x"))
			c.Class("unsupported send "+sk.name, true)
			c.T.Line("unsupported", fmt.Sprintf("ops.table %s send", sk.name), errName(e))
			if e != mangos.ErrProtoOp {
				c.Violate(fmt.Sprintf("%s: Send returned %v; the pattern has no send operation (ErrProtoOp expected)", sk.name, e), nil)
			}
		}
		cx, e := s.OpenContext()
		c.Class("openctx "+sk.name, true)
		c.T.Line("unsupported", fmt.Sprintf("ops.table %s openctx", sk.name), errName(e))
		if sk.hasCtx != (e == nil) || (!sk.hasCtx && e != mangos.ErrProtoOp) {
			c.Violate(fmt.Sprintf("%s: OpenContext returned %v (contexts supported: %v)", sk.name, e, sk.hasCtx), nil)
		}
		if cx != nil {
			_ = cx.Close()
		}
		// Device on a cooked socket / mismatched pair
		e = mangos.Device(s, s)
		c.Class("device self "+sk.name, true)
		info := s.Info()
		want := "ok"
		switch {
		case info.Self != info.Peer:
			want = "badproto"
		case !sk.raw:
			want = "notraw"
		}
		c.T.Line("unsupported", fmt.Sprintf("ops.table %s device-self", sk.name), errName(e))
		if errName(e) != want {
			c.Violate(fmt.Sprintf("Device(%s, %s) returned %v, expected %s", sk.name, sk.name, e, want), nil)
		}
		_ = s.Close()
	}
	if e := mangos.Device(nil, nil); e != mangos.ErrClosed {
		c.Violate(fmt.Sprintf("Device(nil, nil) returned %v", e), nil)
	}
	{
		a, _ := xreq.NewSocket()
		b, _ := pair.NewSocket()
		if e := mangos.Device(a, b); e != mangos.ErrBadProto {
			c.Violate(fmt.Sprintf("Device(xreq, pair) returned %v, expected ErrBadProto", e), nil)
		}
		_ = a.Close()
		_ = b.Close()
	}

	// ---- inheritance: dialers and listeners take the socket's settings; new contexts take the socket's
	for _, withOpts := range []bool{false, true} {
		for _, tk := range tranKinds {
			if tk.lean == "inproc" {
				continue
			}
			s, _ := pair.NewSocket()
			_ = s.SetOption(mangos.OptionMaxRecvSize, 4321)
			_ = s.SetOption(mangos.OptionReconnectTime, 77*time.Millisecond)
			_ = s.SetOption(mangos.OptionMaxReconnectTime, 777*time.Millisecond)
			_ = s.SetOption(mangos.OptionDialAsynch, true)
			var opts map[string]interface{}
			if withOpts {
				opts = map[string]interface{}{mangos.OptionNoDelay: true} // some other option: must not switch inheritance off
			}
			d, err := s.NewDialer(tk.addr, opts)
			c.Class(fmt.Sprintf("inherit dialer %s opts=%v", tk.lean, withOpts), true)
			if err == nil {
				for name, want := range map[string]interface{}{mangos.OptionMaxRecvSize: 4321, mangos.OptionReconnectTime: 77 * time.Millisecond,
					mangos.OptionMaxReconnectTime: 777 * time.Millisecond, mangos.OptionDialAsynch: true} {
					got, e := d.GetOption(name)
					if e != nil || !reflect.DeepEqual(got, want) {
						c.Violate(fmt.Sprintf("%s dialer created with options %v does not inherit the socket's %s: got %v (%v), want %v", tk.lean, opts, name, got, e, want),
							map[string]interface{}{"transport": tk.lean, "option": name, "dialer_options": fmt.Sprint(opts)})
					}
				}
			}
			l, err := s.NewListener(tk.addr, opts)
			c.Class(fmt.Sprintf("inherit listener %s opts=%v", tk.lean, withOpts), true)
			if err == nil {
				got, e := l.GetOption(mangos.OptionMaxRecvSize)
				if e != nil || !reflect.DeepEqual(got, 4321) {
					c.Violate(fmt.Sprintf("%s listener created with options %v does not inherit the socket's MaxRecvSize: got %v (%v)", tk.lean, opts, got, e),
						map[string]interface{}{"transport": tk.lean})
				}
			}
			_ = s.Close()
		}
	}
	type inh struct {
		name string
		val  interface{}
	}
	ctxInherit := map[string][]inh{
		"sub":      {{mangos.OptionReadQLen, 7}, {mangos.OptionRecvDeadline, 33 * time.Millisecond}},
		"surveyor": {{mangos.OptionSurveyTime, 44 * time.Millisecond}, {mangos.OptionRecvDeadline, 33 * time.Millisecond}, {mangos.OptionReadQLen, 9}},
		"req": {{mangos.OptionBestEffort, true}, {mangos.OptionRetryTime, 55 * time.Millisecond}, {mangos.OptionSendDeadline, 22 * time.Millisecond},
			{mangos.OptionRecvDeadline, 33 * time.Millisecond}, {mangos.OptionFailNoPeers, true}},
	}
	for _, sk := range allSocks {
		list, ok := ctxInherit[sk.name]
		if !ok {
			continue
		}
		s, _ := sk.mk()
		for _, o := range list {
			_ = s.SetOption(o.name, o.val)
		}
		cx, err := s.OpenContext()
		if err == nil {
			for _, o := range list {
				got, e := cx.GetOption(o.name)
				c.Class("inherit ctx "+sk.name+" "+o.name, true)
				if e != nil || !reflect.DeepEqual(got, o.val) {
					c.Violate(fmt.Sprintf("%s: a new context does not inherit the socket's %s: got %v (%v), want %v", sk.name, o.name, got, e, o.val), nil)
				}
			}
			_ = cx.Close()
		}
		_ = s.Close()
	}

	// ---- an accepted zero duration means no limit
	for _, sk := range allSocks {
		if !sk.canRecv {
			continue
		}
		s, _ := sk.mk()
		if s.SetOption(mangos.OptionRecvDeadline, time.Duration(0)) != nil {
			_ = s.Close()
			continue
		}
		if sk.name == "req" || sk.name == "surveyor" {
			_ = s.Close() // Recv needs a request / survey first: covered by C03 / C07
			continue
		}
		done := make(chan error, 1)
		go func() { _, e := s.Recv(); done <- e }()
		c.Class("zero-deadline "+sk.name, true)
		select {
		case e := <-done:
			c.Violate(fmt.Sprintf("%s: with the accepted receive deadline 0 (no limit) Recv returned %v after less than 120 ms", sk.name, e), nil)
		case <-time.After(120 * time.Millisecond):
		}
		_ = s.Close()
		select {
		case <-done:
		case <-time.After(2 * time.Second):
			c.Violate(fmt.Sprintf("%s: Recv did not return after Close", sk.name), nil)
		}
	}

	// ---- changing a queue length never disconnects a peer (receiver blocked on a full queue)
	for _, sk := range allSocks {
		if !sk.canRecv || sk.name == "req" || sk.name == "surveyor" || sk.name == "rep" {
			continue // req/surveyor/rep have no socket receive queue to resize
		}
		for _, opt := range []string{mangos.OptionReadQLen, mangos.OptionWriteQLen} {
			proto := sk.mkP()
			var target optTarget = proto
			if proto.SetOption(mangos.OptionReadQLen, 2) != nil {
				continue
			}
			if sk.name == "sub" {
				_ = proto.SetOption(mangos.OptionSubscribe, []byte{})
			}
			net := &vp.Net{}
			p := vp.NewVPipe(0x77, proto, net)
			if p.Attach() != nil {
				continue
			}
			vp.Quiesce()
			body := func(i int) []byte {
				switch sk.name {
				case "xrep", "xrespondent", "respondent", "xreq", "xsurveyor":
					return []byte{0x80, 0, 0, byte(i), 'm'}
				case "xpair1", "pair1", "xstar", "star":
					return []byte{0, 0, 0, 0, 'm', byte(i)}
				}
				return []byte{'m', byte(i)}
			}
			for i := 0; i < 6; i++ { // more than the queue holds: the receiver goroutine is left holding one
				p.Inject(body(i))
			}
			vp.Quiesce()
			net.TakeEvs()
			r := setSafely(target, opt, 4)
			vp.Quiesce()
			time.Sleep(2 * time.Millisecond)
			vp.Quiesce()
			evs := net.TakeEvs()
			c.Class(fmt.Sprintf("resize %s %s", sk.name, opt), true)
			if r == "ok" && (len(evs) > 0 || p.IsClosed()) {
				c.Violate(fmt.Sprintf("%s: SetOption(%s, 4) while the receiver was blocked on a full queue disconnected the peer (%v)", sk.name, opt, evs),
					map[string]interface{}{"proto": sk.name, "option": opt, "history": "ReadQLen=2; AddPipe; 6 messages arrive; SetOption"})
			}
			// … and it leaves the peer's receive path in working order: a message arriving after the change is received
			if r == "ok" && !p.IsClosed() && opt == mangos.OptionReadQLen {
				_ = proto.SetOption(mangos.OptionRecvDeadline, 400*time.Millisecond)
				// drain what survived the change, then one fresh message must come through
				for i := 0; i < 8; i++ {
					k := vp.GoRecv(proto)
					if !k.Wait(150*time.Millisecond) || k.Err != nil {
						k.Wait(600 * time.Millisecond)
						break
					}
					k.Msg.Free()
				}
				p.Inject(body(99))
				k := vp.GoRecv(proto)
				ok := k.Wait(800*time.Millisecond) && k.Err == nil
				c.Class(fmt.Sprintf("resize-then-receive %s", sk.name), true)
				c.T.Line("resize", fmt.Sprintf("opt.after %s resize-then-receive", sk.name), map[bool]string{true: "received", false: "lost"}[ok])
				if !ok {
					c.Violate(fmt.Sprintf("%s: after SetOption(%s, 4) made while the peer's receiver was blocked on a full queue, a message arriving from that (still connected) peer is never received: %s", sk.name, opt, errName(k.Err)),
						map[string]interface{}{"proto": sk.name, "option": opt, "history": "ReadQLen=2; AddPipe; 6 messages arrive; SetOption(ReadQLen,4); drain; 1 message arrives; Recv"})
				} else {
					k.Msg.Free()
				}
			}
			_ = proto.Close()
			_ = p.Close()
		}
		// a Recv that is already waiting when the queue length changes must see what arrives afterwards
		{
			proto := sk.mkP()
			if proto.SetOption(mangos.OptionReadQLen, 2) != nil {
				continue
			}
			if sk.name == "sub" {
				_ = proto.SetOption(mangos.OptionSubscribe, []byte{})
			}
			_ = proto.SetOption(mangos.OptionRecvDeadline, 600*time.Millisecond)
			net := &vp.Net{}
			p := vp.NewVPipe(0x78, proto, net)
			if p.Attach() != nil {
				continue
			}
			vp.Quiesce()
			k := vp.GoRecv(proto)
			vp.Quiesce()
			r := setSafely(proto, mangos.OptionReadQLen, 4)
			vp.Quiesce()
			var fresh []byte
			switch sk.name {
			case "xrep", "xrespondent", "respondent", "xreq", "xsurveyor":
				fresh = []byte{0x80, 0, 0, 7, 'n'}
			case "xpair1", "pair1", "xstar", "star":
				fresh = []byte{0, 0, 0, 0, 'n', 7}
			default:
				fresh = []byte{'n', 7}
			}
			p.Inject(fresh)
			ok := k.Wait(900*time.Millisecond) && k.Err == nil
			c.Class(fmt.Sprintf("resize-under-recv %s", sk.name), true)
			c.T.Line("resize", fmt.Sprintf("opt.after %s resize-under-recv", sk.name), map[bool]string{true: "received", false: "lost"}[ok])
			if r == "ok" && !ok {
				c.Violate(fmt.Sprintf("%s: a Recv that was waiting when READQ-LEN was changed did not receive the message that arrived afterwards (%s)", sk.name, errName(k.Err)),
					map[string]interface{}{"proto": sk.name, "history": "ReadQLen=2; AddPipe; Recv (blocks); SetOption(ReadQLen,4); 1 message arrives"})
			} else if ok {
				k.Msg.Free()
			}
			_ = proto.Close()
			_ = p.Close()
		}
	}
}

// WEBSOCKET-CHECKORIGIN on a ws listener: true (the default) refuses a handshake whose Origin header names another host,
// false admits it — after every sequence of settings, the value GetOption reports is the policy in force
func c19CheckOrigin(c *Ctx) {
	for _, seq := range [][]bool{{}, {true}, {false}, {false, true}, {true, false}, {false, true, false}, {false, false, true}} {
		s, _ := pair.NewSocket()
		l, err := s.NewListener("ws://127.0.0.1:0/origin", nil)
		if err != nil {
			_ = s.Close()
			continue
		}
		hist := []string{}
		for _, v := range seq {
			e := l.SetOption(ws.OptionWebSocketCheckOrigin, v)
			hist = append(hist, fmt.Sprintf("SetOption(CHECKORIGIN,%v)->%s", v, errName(e)))
		}
		if l.Listen() != nil {
			_ = s.Close()
			continue
		}
		check := true // the documented default: the safe policy
		if len(seq) > 0 {
			check = seq[len(seq)-1]
		}
		if got, err := l.GetOption(ws.OptionWebSocketCheckOrigin); err == nil && len(seq) > 0 && got != check {
			c.Violate(fmt.Sprintf("ws listener: after %v GetOption(WEBSOCKET-CHECKORIGIN) = %v", hist, got), nil)
		}
		d := websocket.Dialer{Subprotocols: []string{"pair.sp.nanomsg.org"}, HandshakeTimeout: 2 * time.Second}
		hdr := http.Header{}
		hdr.Set("Origin", "http://somewhere-else.example")
		conn, _, derr := d.Dial(l.Address(), hdr)
		obs := "admitted"
		if derr != nil {
			obs = "refused"
		} else {
			_ = conn.Close()
		}
		want := map[bool]string{true: "refused", false: "admitted"}[check]
		class := fmt.Sprintf("checkorigin seq=%v", seq)
		c.Class(class, true)
		c.T.Line("checkorigin", fmt.Sprintf("opt.origin %v", check), obs)
		if obs != want {
			c.Violate(fmt.Sprintf("ws listener: with WEBSOCKET-CHECKORIGIN = %v in force (%v) a handshake carrying a foreign Origin header was %s", check, hist, obs),
				map[string]interface{}{"history": hist, "origin": "http://somewhere-else.example"})
		}
		_ = s.Close()
	}
}
