package main

import (
	"bytes"
	"fmt"
	"sort"
	"sync"
	"time"

	"go.nanomsg.org/mangos/v3"
	"go.nanomsg.org/mangos/v3/protocol/pair"
	"go.nanomsg.org/mangos/v3/protocol/pull"
	"go.nanomsg.org/mangos/v3/protocol/push"
)

// real sockets (core + transports): a third PAIR socket is refused without disturbing the established pair,
// and succeeds once the first peer has gone; PUSH/PULL with several sender goroutines and peers deliver the
// exact multiset, per connection in order.
func c02EndToEnd(c *Ctx) {
	for ti, tr := range []e2eTransport{e2eTransports[0], e2eTransports[2]} {
		a, _ := pair.NewSocket()
		b, _ := pair.NewSocket()
		x, _ := pair.NewSocket()
		for _, s := range []mangos.Socket{a, b, x} {
			_ = s.SetOption(mangos.OptionRecvDeadline, 2*time.Second)
			_ = s.SetOption(mangos.OptionSendDeadline, 2*time.Second)
			_ = s.SetOption(mangos.OptionReconnectTime, 10*time.Millisecond)
			_ = s.SetOption(mangos.OptionMaxReconnectTime, 20*time.Millisecond)
		}
		var hookMu sync.Mutex
		attached, detached := 0, 0
		a.SetPipeEventHook(func(ev mangos.PipeEvent, p mangos.Pipe) {
			hookMu.Lock()
			switch ev {
			case mangos.PipeEventAttached:
				attached++
			case mangos.PipeEventDetached:
				detached++
			}
			hookMu.Unlock()
		})
		l, err := a.NewListener(tr.addr(9000+ti), nil)
		if err != nil || l.Listen() != nil {
			c.Violate("pair e2e: cannot listen", nil)
			continue
		}
		addr := l.Address()
		if err := b.Dial(addr); err != nil {
			c.Violate("pair e2e: cannot dial: "+err.Error(), nil)
			continue
		}
		time.Sleep(30 * time.Millisecond)
		exchange := func(tag string, n int, from, to mangos.Socket) bool {
			for i := 0; i < n; i++ {
				msg := []byte(fmt.Sprintf("%s-%d", tag, i))
				if err := from.Send(msg); err != nil {
					return false
				}
				got, err := to.Recv()
				if err != nil || string(got) != string(msg) {
					return false
				}
			}
			return true
		}
		c.Class("pair-e2e established "+tr.name, true)
		if !exchange("pre", 5, b, a) || !exchange("pre-back", 5, a, b) {
			c.Violate("pair e2e ("+tr.name+"): established pair cannot exchange messages in order", nil)
		}
		// the intruder keeps trying while the conversation goes on
		_ = x.SetOption(mangos.OptionDialAsynch, true)
		_ = x.Dial(addr)
		ok := true
		for round := 0; round < 10 && ok; round++ {
			time.Sleep(15 * time.Millisecond)
			ok = exchange(fmt.Sprintf("during-%d", round), 3, b, a) && exchange(fmt.Sprintf("during-back-%d", round), 3, a, b)
		}
		c.Class("pair-e2e intruder "+tr.name, true)
		hookMu.Lock()
		att, det := attached, detached
		hookMu.Unlock()
		if att != 1 || det != 0 {
			c.Violate(fmt.Sprintf("pair e2e (%s): while a further connection was being refused the established peer was disconnected (attached=%d detached=%d on the listening socket; expected 1/0)", tr.name, att, det),
				map[string]interface{}{"transport": tr.name, "scenario": "third PAIR socket dials an established listener"})
		}
		if !ok {
			c.Violate("pair e2e ("+tr.name+"): a further connection attempt disturbed the established conversation (message lost, reordered or taken over)",
				map[string]interface{}{"transport": tr.name, "scenario": "third PAIR socket dials an established listener"})
		}
		// the intruder must not be able to talk to a
		_ = x.SetOption(mangos.OptionSendDeadline, 100*time.Millisecond)
		_ = a.SetOption(mangos.OptionRecvDeadline, 150*time.Millisecond)
		_ = x.Send([]byte("intruder"))
		if got, err := a.Recv(); err == nil && string(got) == "intruder" {
			c.Violate("pair e2e ("+tr.name+"): a second peer's message was delivered while the first peer is established", nil)
		}
		// once the first peer has gone, the other one gets in
		_ = b.Close()
		_ = a.SetOption(mangos.OptionRecvDeadline, 2*time.Second)
		_ = x.SetOption(mangos.OptionSendDeadline, 2*time.Second)
		got := false
		for try := 0; try < 40 && !got; try++ {
			time.Sleep(25 * time.Millisecond)
			_ = x.SetOption(mangos.OptionSendDeadline, 50*time.Millisecond)
			if x.Send([]byte("now-me")) == nil {
				_ = a.SetOption(mangos.OptionRecvDeadline, 200*time.Millisecond)
				for {
					m, err := a.Recv()
					if err != nil {
						break
					}
					if string(m) == "now-me" {
						got = true
						break
					}
				}
			}
		}
		c.Class("pair-e2e readmit "+tr.name, true)
		if !got {
			c.Violate("pair e2e ("+tr.name+"): after the first peer had gone, a new peer was not admitted", map[string]interface{}{"transport": tr.name})
		}
		_ = a.Close()
		_ = x.Close()
	}

	// what was accepted is what arrives: the caller may reuse its buffer as soon as Send has returned, whatever the
	// size of the message (the library copies it; pooled sizes and the sizes above the largest pool class alike)
	for _, tr := range []e2eTransport{e2eTransports[0], e2eTransports[2]} {
		for _, kind := range []string{"pair", "push-pull"} {
			var tx, rx mangos.Socket
			if kind == "pair" {
				tx, _ = pair.NewSocket()
				rx, _ = pair.NewSocket()
			} else {
				tx, _ = push.NewSocket()
				rx, _ = pull.NewSocket()
			}
			_ = rx.SetOption(mangos.OptionRecvDeadline, 2*time.Second)
			_ = tx.SetOption(mangos.OptionSendDeadline, 2*time.Second)
			l, err := rx.NewListener(tr.addr(9300), nil)
			if err != nil || l.Listen() != nil || tx.Dial(l.Address()) != nil {
				_ = tx.Close()
				_ = rx.Close()
				continue
			}
			time.Sleep(40 * time.Millisecond)
			for _, size := range []int{100, 8192, 65535, 65536, 65537, 100000} {
				want := patterned(uint64(size), size)
				buf := append([]byte{}, want...)
				if err := tx.Send(buf); err != nil {
					break
				}
				for i := range buf {
					buf[i] = 0xEE // the caller's buffer is the caller's again
				}
				got, err := rx.Recv()
				class := fmt.Sprintf("%s-e2e buffer-reuse %s class=%d", kind, tr.name, lenClass(size))
				c.Class(class, true)
				ok := err == nil && bytes.Equal(got, want)
				c.T.Line(class, fmt.Sprintf("wire.fit 0 %d", size), map[bool]string{true: "delivered", false: "lost"}[ok])
				if !ok {
					what := fmt.Sprintf("err=%v", err)
					if err == nil {
						what = fmt.Sprintf("%d bytes beginning %.8x, sent %.8x", len(got), got, want)
					}
					c.Violate(fmt.Sprintf("%s e2e (%s): a %d-byte message whose buffer the sender reused after Send had returned did not arrive as it was sent (%s)", kind, tr.name, size, what),
						map[string]interface{}{"transport": tr.name, "pattern": kind, "size": size})
					break
				}
			}
			_ = tx.Close()
			_ = rx.Close()
		}
	}

	// PUSH/PULL multiset and per-connection order with k sender goroutines and n pullers
	for ti, tr := range []e2eTransport{e2eTransports[0], e2eTransports[2], e2eTransports[1]} {
		for _, np := range []int{1, 2, 3} {
			ps, _ := push.NewSocket()
			_ = ps.SetOption(mangos.OptionSendDeadline, 3*time.Second)
			l, err := ps.NewListener(tr.addr(9100+ti*10+np), nil)
			if err != nil || l.Listen() != nil {
				c.Violate("push e2e: cannot listen", nil)
				continue
			}
			var pulls []mangos.Socket
			for i := 0; i < np; i++ {
				q, _ := pull.NewSocket()
				_ = q.SetOption(mangos.OptionRecvDeadline, 400*time.Millisecond)
				if err := q.Dial(l.Address()); err != nil {
					c.Violate("push e2e: dial: "+err.Error(), nil)
				}
				pulls = append(pulls, q)
			}
			time.Sleep(40 * time.Millisecond)
			const senders, per = 3, 60
			var wg sync.WaitGroup
			for g := 0; g < senders; g++ {
				wg.Add(1)
				go func(g int) {
					defer wg.Done()
					for i := 0; i < per; i++ {
						_ = ps.Send([]byte{byte(g), byte(i >> 8), byte(i)})
					}
				}(g)
			}
			type rec struct{ g, i int }
			got := make([][]rec, np)
			var rg sync.WaitGroup
			for pi, q := range pulls {
				rg.Add(1)
				go func(pi int, q mangos.Socket) {
					defer rg.Done()
					for {
						m, err := q.Recv()
						if err != nil {
							return
						}
						got[pi] = append(got[pi], rec{int(m[0]), int(m[1])<<8 | int(m[2])})
					}
				}(pi, q)
			}
			wg.Wait()
			rg.Wait()
			seen := map[rec]int{}
			for pi := range got {
				last := map[int]int{}
				for _, r := range got[pi] {
					seen[r]++
					if l, ok := last[r.g]; ok && l >= r.i {
						c.Violate(fmt.Sprintf("push/pull e2e (%s, %d pullers): puller %d received sender %d's message #%d after #%d (same connection, order violated)", tr.name, np, pi, r.g, r.i, l), nil)
					}
					last[r.g] = r.i
				}
			}
			var bad []string
			for g := 0; g < senders; g++ {
				for i := 0; i < per; i++ {
					if n := seen[rec{g, i}]; n != 1 {
						bad = append(bad, fmt.Sprintf("%d/%d x%d", g, i, n))
					}
				}
			}
			sort.Strings(bad)
			c.Class(fmt.Sprintf("pushpull-e2e %s pullers=%d", tr.name, np), true)
			if len(bad) > 0 {
				if len(bad) > 6 {
					bad = bad[:6]
				}
				c.Violate(fmt.Sprintf("push/pull e2e (%s, %d pullers, connections up): messages not delivered exactly once: %v", tr.name, np, bad),
					map[string]interface{}{"transport": tr.name, "pullers": np})
			}
			_ = ps.Close()
			for _, q := range pulls {
				_ = q.Close()
			}
		}
	}
}
