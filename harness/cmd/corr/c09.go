package main

import (
	"encoding/binary"
	"fmt"
	"time"

	"go.nanomsg.org/mangos/v3"
	"go.nanomsg.org/mangos/v3/protocol/rep"
	"go.nanomsg.org/mangos/v3/protocol/respondent"
	"go.nanomsg.org/mangos/v3/protocol/xpair1"
	"go.nanomsg.org/mangos/v3/protocol/xrep"
	"go.nanomsg.org/mangos/v3/protocol/xrespondent"
	"go.nanomsg.org/mangos/v3/protocol/xstar"
	"verifharness/vp"
)

func init() { props["C09"] = runC09 }

type hopSite struct {
	name   string
	mk     func() mangos.ProtocolBase
	cooked bool   // rep/respondent: header observed through the reply
	kind   string // "bt" (backtrace words) | "pair1" | "star"
}

var hopSites = []hopSite{
	{"rep", rep.NewProtocol, true, "bt"},
	{"xrep", xrep.NewProtocol, false, "bt"},
	{"respondent", respondent.NewProtocol, true, "bt"},
	{"xrespondent", xrespondent.NewProtocol, false, "bt"},
	{"xpair1", xpair1.NewProtocol, false, "pair1"},
	{"xstar", xstar.NewProtocol, false, "star"},
}

// one protocol instance per (site, ttl); messages injected one at a time
type hopRig struct {
	site  hopSite
	proto mangos.ProtocolBase
	net   *vp.Net
	pipe  *vp.VPipe
	other *vp.VPipe // xstar forwards to other pipes; gives the forwarded copy
	ttl   int
}

func newHopRig(s hopSite, ttl int) (*hopRig, error) {
	r := &hopRig{site: s, proto: s.mk(), net: &vp.Net{}, ttl: ttl}
	if err := r.proto.SetOption(mangos.OptionTTL, ttl); err != nil {
		return nil, fmt.Errorf("SetOption(TTL,%d): %v", ttl, err)
	}
	if v, err := r.proto.GetOption(mangos.OptionTTL); err != nil || v.(int) != ttl {
		return nil, fmt.Errorf("GetOption(TTL) = %v, %v after setting %d", v, err, ttl)
	}
	r.pipe = vp.NewVPipe(0x00000101, r.proto, r.net)
	if err := r.pipe.Attach(); err != nil {
		return nil, err
	}
	if s.kind == "star" {
		r.other = vp.NewVPipe(0x00000202, r.proto, r.net)
		if err := r.other.Attach(); err != nil {
			return nil, err
		}
	}
	vp.Quiesce()
	return r, nil
}

func (r *hopRig) close() {
	_ = r.proto.Close()
	_ = r.pipe.Close()
	if r.other != nil {
		_ = r.other.Close()
	}
}

// try injects one body and reports what the socket delivered: (delivered, header, body)
func (r *hopRig) try(body []byte) (bool, []byte, []byte, string) {
	call := vp.GoRecv(r.proto)
	vp.Quiesce()
	r.pipe.Inject(body)
	if !vp.Quiesce() {
		return false, nil, nil, "no-quiescence"
	}
	r.net.TakeTx()
	if !call.Finished() {
		// dropped: release the parked Recv with a sentinel that is always within the limit
		var sentinel []byte
		switch r.site.kind {
		case "bt":
			sentinel = []byte{0x80, 0, 0, 1, 'S'}
		default:
			sentinel = []byte{0, 0, 0, 0, 'S'}
		}
		r.pipe.Inject(sentinel)
		vp.Quiesce()
		if !call.Wait(time.Second) {
			return false, nil, nil, "sentinel-not-delivered"
		}
		r.net.TakeTx()
		if call.Err != nil || len(call.Msg.Body) != 1 || call.Msg.Body[0] != 'S' {
			return false, nil, nil, "sentinel-lost:" + vp.ErrName(call.Err)
		}
		if r.site.cooked {
			// complete the exchange so that the context is ready for the next Recv
			c := vp.GoSend(r.proto, nil, []byte{'r'})
			vp.Quiesce()
			if !c.Wait(time.Second) {
				return false, nil, nil, "reply-to-sentinel-stuck"
			}
			r.net.TakeTx()
		}
		call.Msg.Free()
		return false, nil, nil, ""
	}
	if call.Err != nil {
		return false, nil, nil, "recv-error:" + vp.ErrName(call.Err)
	}
	hdr := append([]byte{}, call.Msg.Header...)
	bdy := append([]byte{}, call.Msg.Body...)
	call.Msg.Free()
	if r.site.cooked {
		// the header is observable through the reply: it must be the request's backtrace
		c := vp.GoSend(r.proto, nil, []byte{'r'})
		vp.Quiesce()
		if !c.Wait(time.Second) {
			return true, nil, bdy, "reply-stuck"
		}
		tx := r.net.TakeTx()
		if c.Err != nil || len(tx) != 1 {
			return true, nil, bdy, fmt.Sprintf("reply-not-sent:%s/%d", vp.ErrName(c.Err), len(tx))
		}
		hdr = tx[0].Header
	}
	return true, hdr, bdy, ""
}

// batch: several requests from different originators multiplexed onto one connection (what a device does) are in
// flight at once — injected back to back, read afterwards; each must surface with its own routing words
func (r *hopRig) batch(c *Ctx, ttl int) {
	if r.site.kind != "bt" || r.site.cooked {
		return
	}
	n := 3
	var bodies [][]byte
	for i := 0; i < n; i++ {
		k := 1 + c.R.Intn(minInt(ttl, 4))
		bodies = append(bodies, btBody(c.R, k, []byte{'p', byte('0' + i)}))
	}
	for _, b := range bodies {
		r.pipe.Inject(b)
	}
	vp.Quiesce()
	hdr0 := make([]byte, 4)
	binary.BigEndian.PutUint32(hdr0, r.pipe.Id)
	for i, b := range bodies {
		call := vp.GoRecv(r.proto)
		if !call.Wait(time.Second) || call.Err != nil {
			c.Violate(fmt.Sprintf("%s ttl=%d: request %d of %d multiplexed on one connection was not delivered", r.site.name, ttl, i+1, n),
				map[string]interface{}{"site": r.site.name, "ttl": ttl, "bodies": []string{vp.Hex(bodies[0]), vp.Hex(bodies[1]), vp.Hex(bodies[2])}})
			return
		}
		obs := vp.Hex(call.Msg.Header) + " " + vp.Hex(call.Msg.Body)
		call.Msg.Free()
		class := fmt.Sprintf("%s multiplexed", r.site.name)
		c.Class(class, true)
		c.T.Line(class, fmt.Sprintf("hop.%s %d %s %s", r.site.name, ttl, vp.Hex(hdr0), vp.Hex(b)), obs)
	}
}

func minInt(a, b int) int {
	if a < b {
		return a
	}
	return b
}

func btBody(r *vp.Rand, k int, payload []byte) []byte {
	// k routing words: k-1 pipe ids (bit 31 clear), then a request id (bit 31 set)
	var b []byte
	for i := 0; i < k-1; i++ {
		w := make([]byte, 4)
		binary.BigEndian.PutUint32(w, uint32(r.U64())&0x7fffffff)
		b = append(b, w...)
	}
	if k >= 1 {
		w := make([]byte, 4)
		binary.BigEndian.PutUint32(w, uint32(r.U64())|0x80000000)
		b = append(b, w...)
	}
	return append(b, payload...)
}

func runC09(c *Ctx) {
	c.Rep.Rule = "one real protocol instance per (receiver, TTL); a virtual pipe injects a body carrying k routing words (or hop byte f) and an in-limit sentinel decides absence; " +
		"class = (receiver, relation of k to TTL ∈ {<,=,=+1,>+1}, delivered?); non-trivial = TTL boundary cases (k ∈ {TTL-1,TTL,TTL+1,TTL+2}) or malformed/short bodies"
	ttls := []int{1, 2, 3, 8, 254, 255}
	if c.Thorough() {
		ttls = nil
		for t := 1; t <= 255; t++ {
			ttls = append(ttls, t)
		}
		c.Rep.Exhaustive = true
	} else {
		for i := 0; i < 6; i++ {
			ttls = append(ttls, 4+c.R.Intn(250))
		}
	}
	for _, s := range hopSites {
		for _, ttl := range ttls {
			rig, err := newHopRig(s, ttl)
			if err != nil {
				c.Violate(fmt.Sprintf("%s: cannot set up TTL %d: %v", s.name, ttl, err), map[string]interface{}{"site": s.name, "ttl": ttl})
				continue
			}
			rig.batch(c, ttl)
			var ks []int
			if c.Thorough() || ttl <= 8 {
				for k := 0; k <= ttl+2; k++ {
					ks = append(ks, k)
				}
			} else {
				ks = []int{0, 1, 2, ttl - 1, ttl, ttl + 1, ttl + 2, 1 + c.R.Intn(ttl)}
			}
			for _, k := range ks {
				payload := c.R.Bytes(c.R.Pick(0, 1, 3, 4, 5, 9))
				var body []byte
				var hdr0 []byte
				switch s.kind {
				case "bt":
					body = btBody(c.R, k, payload)
					if !s.cooked {
						hdr0 = make([]byte, 4)
						binary.BigEndian.PutUint32(hdr0, rig.pipe.Id)
					}
				case "pair1", "star":
					if k > 257 {
						continue
					}
					if k > 255 && s.kind == "star" {
						continue
					}
					w := make([]byte, 4)
					binary.BigEndian.PutUint32(w, uint32(k)) // k = forwarders so far
					body = append(w, payload...)
				}
				deliv, h, b, note := rig.try(body)
				if note != "" {
					c.Violate(fmt.Sprintf("%s ttl=%d k=%d: harness could not observe: %s", s.name, ttl, k, note),
						map[string]interface{}{"site": s.name, "ttl": ttl, "k": k, "body": vp.Hex(body)})
					rig.close()
					rig, _ = newHopRig(s, ttl)
					if rig == nil {
						break
					}
					continue
				}
				obs := "drop"
				if deliv {
					obs = vp.Hex(h) + " " + vp.Hex(b)
				}
				rel := "<"
				switch {
				case k == ttl:
					rel = "="
				case k == ttl+1:
					rel = "=+1"
				case k > ttl+1:
					rel = ">+1"
				case k == ttl-1:
					rel = "=-1"
				}
				class := fmt.Sprintf("%s k%sttl deliv=%v", s.name, rel, deliv)
				c.Class(class, rel != "<")
				var lhs string
				if s.kind == "bt" {
					lhs = fmt.Sprintf("hop.%s %d %s %s", s.name, ttl, vp.Hex(hdr0), vp.Hex(body))
				} else {
					lhs = fmt.Sprintf("hop.%s %d %s", s.name, ttl, vp.Hex(body))
				}
				c.T.Line(class, lhs, obs)
				// the property's own oracle (independent of the Lean model)
				var want bool
				switch s.kind {
				case "bt":
					want = k <= ttl
					if k == 0 {
						want = deliv // no routing words at all: not a hop-count case, only compared with the model
					}
				case "pair1":
					want = k <= ttl && k < 255
				case "star":
					want = k+1 <= ttl
				}
				if deliv != want {
					c.Violate(fmt.Sprintf("%s: message that crossed k=%d connections (kind %s) with TTL=%d: delivered=%v, property requires %v",
						s.name, k, s.kind, ttl, deliv, want),
						map[string]interface{}{"site": s.name, "ttl": ttl, "k": k, "body": vp.Hex(body), "delivered": deliv})
				} else if deliv && s.kind == "bt" && k >= 1 {
					wantHdr := append(append([]byte{}, hdr0...), body[:4*k]...)
					if string(h) != string(wantHdr) || string(b) != string(payload) {
						c.Violate(fmt.Sprintf("%s ttl=%d k=%d: delivered header/body differ from the request's routing words/payload", s.name, ttl, k),
							map[string]interface{}{"site": s.name, "ttl": ttl, "k": k, "body": vp.Hex(body), "hdr": vp.Hex(h), "got": vp.Hex(b)})
					}
				}
			}
			// malformed: bodies shorter than a word, words without terminator
			if rig != nil {
				for _, body := range [][]byte{{}, {1}, {1, 2, 3}, {0, 0, 0, 1}, {0, 0, 0, 1, 0, 0}, {0x80, 0, 0}} {
					if s.kind != "bt" && len(body) >= 4 {
						continue
					}
					deliv, h, b, note := rig.try(body)
					if note != "" {
						c.Violate(fmt.Sprintf("%s ttl=%d malformed %x: %s", s.name, ttl, body, note), map[string]interface{}{"site": s.name, "ttl": ttl, "body": vp.Hex(body)})
						break
					}
					obs := "drop"
					if deliv {
						obs = vp.Hex(h) + " " + vp.Hex(b)
					}
					var hdr0 []byte
					if s.kind == "bt" && !s.cooked {
						hdr0 = make([]byte, 4)
						binary.BigEndian.PutUint32(hdr0, rig.pipe.Id)
					}
					class := fmt.Sprintf("%s malformed len=%d deliv=%v", s.name, len(body), deliv)
					c.Class(class, true)
					if s.kind == "bt" {
						c.T.Line(class, fmt.Sprintf("hop.%s %d %s %s", s.name, ttl, vp.Hex(hdr0), vp.Hex(body)), obs)
					} else {
						c.T.Line(class, fmt.Sprintf("hop.%s %d %s", s.name, ttl, vp.Hex(body)), obs)
					}
					if deliv {
						c.Violate(fmt.Sprintf("%s: malformed body %x was delivered", s.name, body), map[string]interface{}{"site": s.name, "ttl": ttl, "body": vp.Hex(body)})
					}
				}
				rig.close()
			}
		}
	}
	runDevicePlumbing(c)
	runDeviceChains(c)
	runDevicePaths(c)
	// the raw REQ socket devices are made of: every accepted message leaves through one pipe, once, in order
	nx := 30
	if c.Thorough() {
		nx = 800
	}
	for i := 0; i < nx; i++ {
		runXreqScenario(c, 40)
	}
	// ... and its receive side, shared with XSURVEYOR (in order, at most once, split at byte four), and XSUB's (whole, drop when full)
	for i := 0; i < nx; i++ {
		runRawRecvScenario(c, i, 45)
	}
	runRawRecvResizeWithHeld(c, 0)
	runRawRecvResizeWithHeld(c, 1)
	// TTL option range on all six sockets
	for _, s := range hopSites {
		p := s.mk()
		for _, v := range []int{-1, 0, 1, 255, 256, 1000} {
			err := p.SetOption(mangos.OptionTTL, v)
			want := v >= 1 && v <= 255
			c.Class(fmt.Sprintf("%s ttl-range %d", s.name, v), true)
			if (err == nil) != want {
				c.Violate(fmt.Sprintf("%s: SetOption(TTL,%d) = %v; the range is 1..255", s.name, v, err), map[string]interface{}{"site": s.name, "ttl": v})
			}
		}
		q := s.mk()
		if v, err := q.GetOption(mangos.OptionTTL); err != nil || v.(int) != 8 {
			c.Violate(fmt.Sprintf("%s: default TTL is %v (%v), not 8", s.name, v, err), map[string]interface{}{"site": s.name})
		}
		_ = p.Close()
		_ = q.Close()
	}
}
