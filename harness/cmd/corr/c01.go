package main

// C01 end to end: real sockets over all six transports, every pattern cooked and raw, sizes adjacent to
// the pool classes and to the receive limit, several sizes back to back on one connection.

import (
	"bytes"
	"crypto/tls"
	"encoding/binary"
	"fmt"
	"os"
	"runtime"
	"sync"
	"time"

	"go.nanomsg.org/mangos/v3"
	"go.nanomsg.org/mangos/v3/protocol/bus"
	"go.nanomsg.org/mangos/v3/protocol/pair"
	"go.nanomsg.org/mangos/v3/protocol/pair1"
	"go.nanomsg.org/mangos/v3/protocol/pub"
	"go.nanomsg.org/mangos/v3/protocol/pull"
	"go.nanomsg.org/mangos/v3/protocol/push"
	"go.nanomsg.org/mangos/v3/protocol/rep"
	"go.nanomsg.org/mangos/v3/protocol/req"
	"go.nanomsg.org/mangos/v3/protocol/respondent"
	"go.nanomsg.org/mangos/v3/protocol/star"
	"go.nanomsg.org/mangos/v3/protocol/sub"
	"go.nanomsg.org/mangos/v3/protocol/surveyor"
	"go.nanomsg.org/mangos/v3/protocol/xbus"
	"go.nanomsg.org/mangos/v3/protocol/xpair"
	"go.nanomsg.org/mangos/v3/protocol/xpair1"
	"go.nanomsg.org/mangos/v3/protocol/xpub"
	"go.nanomsg.org/mangos/v3/protocol/xpull"
	"go.nanomsg.org/mangos/v3/protocol/xpush"
	"go.nanomsg.org/mangos/v3/protocol/xrep"
	"go.nanomsg.org/mangos/v3/protocol/xreq"
	"go.nanomsg.org/mangos/v3/protocol/xrespondent"
	"go.nanomsg.org/mangos/v3/protocol/xstar"
	"go.nanomsg.org/mangos/v3/protocol/xsub"
	"go.nanomsg.org/mangos/v3/protocol/xsurveyor"
	mtest "go.nanomsg.org/mangos/v3/test"
	_ "go.nanomsg.org/mangos/v3/transport/all"
)

func init() { props["C01"] = runC01 }

type e2ePattern struct {
	name    string
	mkTx    func() (mangos.Socket, error)
	mkRx    func() (mangos.Socket, error)
	txHdr   []byte // header the sender must supply (raw mode)
	rxHdr   int    // length of the header the receiver sees (raw mode); -1 = do not check
	reply   bool   // receiver echoes the message back (req/rep, survey)
	wireHdr int    // bytes of protocol header on the wire (counts towards the receive limit)
}

func be32(v uint32) []byte { b := make([]byte, 4); binary.BigEndian.PutUint32(b, v); return b }

var e2ePatterns = []e2ePattern{
	{"pair", pair.NewSocket, pair.NewSocket, nil, 0, false, 0},
	{"pair1", pair1.NewSocket, pair1.NewSocket, nil, 0, false, 4},
	{"push-pull", push.NewSocket, pull.NewSocket, nil, 0, false, 0},
	{"pub-sub", pub.NewSocket, sub.NewSocket, nil, 0, false, 0},
	{"bus", bus.NewSocket, bus.NewSocket, nil, 0, false, 0},
	{"star", star.NewSocket, star.NewSocket, nil, 0, false, 4},
	{"req-rep", req.NewSocket, rep.NewSocket, nil, 0, true, 4},
	{"surveyor-respondent", surveyor.NewSocket, respondent.NewSocket, nil, 0, true, 4},
	{"xpair", xpair.NewSocket, xpair.NewSocket, nil, 0, false, 0},
	{"xpair1", xpair1.NewSocket, xpair1.NewSocket, []byte{0, 0, 0, 0}, 4, false, 4},
	{"xpush-xpull", xpush.NewSocket, xpull.NewSocket, nil, 0, false, 0},
	{"xpub-xsub", xpub.NewSocket, xsub.NewSocket, nil, 0, false, 0},
	{"xbus", xbus.NewSocket, xbus.NewSocket, nil, 4, false, 0},
	{"xstar", xstar.NewSocket, xstar.NewSocket, []byte{0, 0, 0, 0}, 4, false, 4},
	{"xreq-xrep", xreq.NewSocket, xrep.NewSocket, be32(0x80000001), 8, true, 4},
	{"xsurveyor-xrespondent", xsurveyor.NewSocket, xrespondent.NewSocket, be32(0x80000002), 8, true, 4},
}

type e2eTransport struct {
	name string
	addr func(i int) string
	tls  bool
}

var e2eTransports = []e2eTransport{
	{"inproc", func(i int) string { return fmt.Sprintf("inproc://verif-c01-%d-%d", os.Getpid(), i) }, false},
	{"ipc", func(i int) string { return fmt.Sprintf("ipc://%s/verif-c01-%d-%d.sock", os.TempDir(), os.Getpid(), i) }, false},
	{"tcp", func(i int) string { return "tcp://127.0.0.1:0" }, false},
	{"tls+tcp", func(i int) string { return "tls+tcp://127.0.0.1:0" }, true},
	{"ws", func(i int) string { return "ws://127.0.0.1:0/verif" }, false},
	{"wss", func(i int) string { return "wss://127.0.0.1:0/verif" }, true},
}

var srvTLS, cliTLS *tls.Config

type e2eLink struct {
	tx, rx mangos.Socket
}

func (l *e2eLink) close() {
	if l.tx != nil {
		_ = l.tx.Close()
	}
	if l.rx != nil {
		_ = l.rx.Close()
	}
}

var linkSeq int

func e2eConnect(tr e2eTransport, p e2ePattern, maxrx int) (*e2eLink, error) {
	linkSeq++
	tx, err := p.mkTx()
	if err != nil {
		return nil, err
	}
	rx, err := p.mkRx()
	if err != nil {
		return nil, err
	}
	l := &e2eLink{tx, rx}
	for _, s := range []mangos.Socket{tx, rx} {
		_ = s.SetOption(mangos.OptionRecvDeadline, 3*time.Second)
		_ = s.SetOption(mangos.OptionSendDeadline, 3*time.Second)
		_ = s.SetOption(mangos.OptionReconnectTime, 10*time.Millisecond)
	}
	if maxrx >= 0 {
		if err := rx.SetOption(mangos.OptionMaxRecvSize, maxrx); err != nil {
			l.close()
			return nil, err
		}
		if err := tx.SetOption(mangos.OptionMaxRecvSize, maxrx); err != nil {
			l.close()
			return nil, err
		}
	}
	if p.name == "pub-sub" {
		_ = rx.SetOption(mangos.OptionSubscribe, []byte{})
	}
	lopts := map[string]interface{}{}
	dopts := map[string]interface{}{}
	if tr.tls {
		lopts[mangos.OptionTLSConfig] = srvTLS
		dopts[mangos.OptionTLSConfig] = cliTLS
	}
	lst, err := rx.NewListener(tr.addr(linkSeq), lopts)
	if err != nil {
		l.close()
		return nil, fmt.Errorf("NewListener: %v", err)
	}
	if err := lst.Listen(); err != nil {
		l.close()
		return nil, fmt.Errorf("Listen: %v", err)
	}
	d, err := tx.NewDialer(lst.Address(), dopts)
	if err != nil {
		l.close()
		return nil, fmt.Errorf("NewDialer: %v", err)
	}
	if err := d.Dial(); err != nil {
		l.close()
		return nil, fmt.Errorf("Dial: %v", err)
	}
	// wait until both sides have attached the pipe (pub/sub and bus drop when no peer)
	time.Sleep(30 * time.Millisecond)
	return l, nil
}

func sendOne(s mangos.Socket, hdr, body []byte) error {
	m := mangos.NewMessage(len(body))
	m.Header = append(m.Header, hdr...)
	m.Body = append(m.Body, body...)
	if err := s.SendMsg(m); err != nil {
		m.Free()
		return err
	}
	return nil
}

// transfer sends body and returns what the receiving application got (and what came back, for echo patterns)
func (l *e2eLink) transfer(p e2ePattern, body []byte) (got []byte, back []byte, err error) {
	if err = sendOne(l.tx, p.txHdr, body); err != nil {
		return nil, nil, fmt.Errorf("send: %v", err)
	}
	m, err := l.rx.RecvMsg()
	if err != nil {
		return nil, nil, fmt.Errorf("recv: %v", err)
	}
	got = append([]byte{}, m.Body...)
	if p.rxHdr >= 0 && len(m.Header) != p.rxHdr {
		err = fmt.Errorf("receiver saw a %d-byte header, expected %d", len(m.Header), p.rxHdr)
	}
	if p.reply {
		hdr := append([]byte{}, m.Header...)
		m.Free()
		if e := sendOne(l.rx, hdr, got); e != nil {
			return got, nil, fmt.Errorf("reply send: %v", e)
		}
		r, e := l.tx.RecvMsg()
		if e != nil {
			return got, nil, fmt.Errorf("reply recv: %v", e)
		}
		back = append([]byte{}, r.Body...)
		r.Free()
	} else {
		m.Free()
	}
	return got, back, err
}

func initTLS() error {
	if srvTLS != nil && cliTLS != nil {
		return nil
	}
	var err error
	srvTLS, err = mtest.NewTLSConfig(true)
	if err == nil {
		cliTLS, err = mtest.NewTLSConfig(false)
	}
	return err
}

func runC01(c *Ctx) {
	c.Rep.Rule = "(a) real conn code over in-memory connections with fragmentation, both directions, boundary sizes; (b) NewMessage/Free across all pool classes; " +
		"(c) real sockets: 6 transports x 16 socket kinds (8 patterns cooked and raw), position-dependent bodies of lengths adjacent to pool classes, back to back on one connection, " +
		"and totals at MaxRecvSize / MaxRecvSize+1; class = (transport, pattern, size class) or the wire classes; non-trivial = boundary lengths (class edge ±1, limit, limit+1) or fragmented streams"
	if err := initTLS(); err != nil {
		c.Violate("cannot create TLS configuration: "+err.Error(), nil)
		return
	}
	n := 40
	if c.Thorough() {
		n = 400
	}
	wireFraming(c, n)
	// the raw receive paths (XREQ, XSURVEYOR, XSUB) hand over what arrived, whole: header and body glued together are the
	// bytes that were read, also across queue-length changes (Props.C09.rawrecv_delivers_in_order_at_most_once)
	for i := 0; i < 12 || (c.Thorough() && i < 300); i++ {
		runRawRecvScenario(c, i, 45)
	}
	runRawRecvResizeWithHeld(c, 0)
	runRawRecvResizeWithHeld(c, 1)
	runInprocPipes(c) // inproc has no wire: the established connection as a machine (Props.C01.inproc_pipe_delivers_what_was_sent)
	runFanoutPartialFailure(c)
	runFanoutOwnership(c)
	runRecvKeepsBytes(c)
	runSubContextsOwnTheirCopies(c)
	wirePool(c)

	sizes := []int{0, 1, 5, 63, 64, 65, 127, 128, 129, 255, 256, 257, 511, 512, 513, 1023, 1024, 1025, 4095, 4096, 4097, 8191, 8192, 8193, 65535, 65536, 65537}
	if !c.Thorough() {
		// a rotating subset per (transport, pattern) keeps the quick tier short but covers every size across the matrix
		sizes = append(sizes[:0:0], sizes...)
	}
	combo := 0
	for _, tr := range e2eTransports {
		for _, p := range e2ePatterns {
			combo++
			link, err := e2eConnect(tr, p, -1)
			if err != nil {
				c.Violate(fmt.Sprintf("%s/%s: cannot connect: %v", tr.name, p.name, err), map[string]interface{}{"transport": tr.name, "pattern": p.name})
				continue
			}
			var use []int
			if c.Thorough() {
				use = append(use, sizes...)
				for i := 0; i < 40; i++ {
					use = append(use, c.R.Intn(9000))
				}
			} else {
				for i := 0; i < 7; i++ {
					use = append(use, sizes[(combo*7+i*4)%len(sizes)])
				}
				use = append(use, c.R.Intn(3000))
			}
			for _, sz := range use {
				body := patterned(c.R.U64(), sz)
				got, back, err := link.transfer(p, body)
				class := fmt.Sprintf("e2e %s %s class=%d", tr.name, p.name, lenClass(sz))
				c.Class(class, true)
				ok := err == nil && bytes.Equal(got, body) && (!p.reply || bytes.Equal(back, body))
				c.T.Line(class, fmt.Sprintf("wire.fit 0 %d", sz+p.wireHdr), map[bool]string{true: "delivered", false: "lost"}[ok])
				if !ok {
					c.Violate(fmt.Sprintf("%s/%s: a %d-byte message did not arrive byte-identical (err=%v, got %d bytes, echoed %d bytes)", tr.name, p.name, sz, err, len(got), len(back)),
						map[string]interface{}{"transport": tr.name, "pattern": p.name, "size": sz})
					link.close()
					link, err = e2eConnect(tr, p, -1)
					if err != nil {
						break
					}
				}
			}
			if link != nil {
				link.close()
			}
		}
	}
	// no receive limit (MaxRecvSize 0): sizes beyond the default limit, not multiples of anything, back to back with small ones
	for _, tr := range e2eTransports {
		if tr.name == "inproc" || (!c.Thorough() && (tr.name == "wss" || tr.name == "ws")) {
			continue
		}
		for _, p := range []e2ePattern{e2ePatterns[0], e2ePatterns[6]} {
			link, err := e2eConnect(tr, p, 0)
			if err != nil {
				c.Violate(fmt.Sprintf("%s/%s without receive limit: cannot connect: %v", tr.name, p.name, err), nil)
				continue
			}
			big := []int{1<<20 + 1, 17, 2<<20 + 4097, 0}
			if c.Thorough() {
				big = append(big, 1<<20-1, 1<<20, 3<<20-1, 1<<20+512<<10+12345, 64)
			}
			for _, sz := range big {
				body := patterned(c.R.U64(), sz)
				got, back, err := link.transfer(p, body)
				class := fmt.Sprintf("e2e-unlimited %s %s class=%d", tr.name, p.name, lenClass(sz))
				c.Class(class, true)
				ok := err == nil && bytes.Equal(got, body) && (!p.reply || bytes.Equal(back, body))
				c.T.Line(class, fmt.Sprintf("wire.fit 0 %d", sz+p.wireHdr), map[bool]string{true: "delivered", false: "lost"}[ok])
				if !ok {
					c.Violate(fmt.Sprintf("%s/%s without receive limit: a %d-byte message did not arrive byte-identical (err=%v, got %d bytes, echoed %d bytes)", tr.name, p.name, sz, err, len(got), len(back)),
						map[string]interface{}{"transport": tr.name, "pattern": p.name, "size": sz, "max_recv_size": 0})
					break
				}
			}
			link.close()
		}
	}
	// receive limit: total == limit is delivered, limit+1 is not (and the link recovers)
	limits := []int{100, 1024}
	if c.Thorough() {
		limits = append(limits, 65536, 1<<20)
	} else {
		limits = append(limits, 1<<20)
	}
	for _, tr := range e2eTransports {
		for _, p := range []e2ePattern{e2ePatterns[0], e2ePatterns[6]} {
			for _, lim := range limits {
				if lim == 1<<20 && !(tr.name == "tcp" || tr.name == "ipc" || c.Thorough()) {
					continue
				}
				link, err := e2eConnect(tr, p, lim)
				if err != nil {
					c.Violate(fmt.Sprintf("%s/%s limit %d: cannot connect: %v", tr.name, p.name, lim, err), nil)
					continue
				}
				if tr.name == "inproc" {
					// inproc enforces no limit in this implementation (messages are handed over in memory)
				}
				at := lim - p.wireHdr
				body := patterned(uint64(lim), at)
				got, back, err := link.transfer(p, body)
				class := fmt.Sprintf("e2e-limit %s %s at", tr.name, p.name)
				c.Class(class, true)
				ok := err == nil && bytes.Equal(got, body) && (!p.reply || bytes.Equal(back, body))
				c.T.Line(class, fmt.Sprintf("wire.fit %d %d", lim, lim), map[bool]string{true: "delivered", false: "lost"}[ok])
				if !ok {
					c.Violate(fmt.Sprintf("%s/%s: a message whose total size equals the receive limit %d was not delivered intact (err=%v)", tr.name, p.name, lim, err),
						map[string]interface{}{"transport": tr.name, "pattern": p.name, "limit": lim})
				}
				link.close()
			}
		}
	}
}

// Two contexts of one SUB socket receive the same publication at the same time, each in a goroutine of its own; one of
// them overwrites what it received at once, the other compares every byte with what was published.  Bodies are larger
// than any pool class and smaller ones alternate, so both the shared-buffer and the pooled path are taken.
func runSubContextsOwnTheirCopies(c *Ctx) {
	rounds := 150
	if c.Thorough() {
		rounds = 1500
	}
	devSeq++
	addr := fmt.Sprintf("inproc://verif-c01-subctx-%d", devSeq)
	p, err := pub.NewSocket()
	if err != nil {
		return
	}
	defer p.Close()
	s, err := sub.NewSocket()
	if err != nil {
		return
	}
	defer s.Close()
	if p.Listen(addr) != nil || s.Dial(addr) != nil {
		c.Violate("SUB contexts scenario: cannot connect over inproc", nil)
		return
	}
	ctxs := []mangos.Context{}
	for i := 0; i < 2; i++ {
		cx, err := s.OpenContext()
		if err != nil {
			return
		}
		_ = cx.SetOption(mangos.OptionSubscribe, []byte{})
		_ = cx.SetOption(mangos.OptionRecvDeadline, 2*time.Second)
		ctxs = append(ctxs, cx)
	}
	time.Sleep(30 * time.Millisecond)
	bad := ""
	for r := 0; r < rounds && bad == ""; r++ {
		size := []int{256 << 10, 300, 70000, 5000}[r%4]
		body := patterned(uint64(90000+r), size)
		if err := p.Send(body); err != nil {
			break
		}
		var wg sync.WaitGroup
		var mu sync.Mutex
		for i, cx := range ctxs {
			wg.Add(1)
			go func(i int, cx mangos.Context) {
				defer wg.Done()
				m, err := cx.RecvMsg()
				if err != nil {
					mu.Lock()
					if bad == "" {
						bad = fmt.Sprintf("round %d: context %d received nothing (%v)", r, i, err)
					}
					mu.Unlock()
					return
				}
				if i == 0 {
					for j := range m.Body {
						m.Body[j] = 0xEE
					}
				} else {
					runtime.Gosched()
					if !bytes.Equal(m.Body, body) {
						k := 0
						for k < len(m.Body) && k < len(body) && m.Body[k] == body[k] {
							k++
						}
						mu.Lock()
						if bad == "" {
							bad = fmt.Sprintf("round %d (%d bytes): the message context 1 received differs from what was published at byte %d (length %d) while context 0 was overwriting its own copy", r, size, k, len(m.Body))
						}
						mu.Unlock()
					}
				}
				m.Free()
			}(i, cx)
		}
		wg.Wait()
	}
	c.Class(fmt.Sprintf("SUB contexts own their copies: clean=%v", bad == ""), true)
	if bad != "" {
		c.Violate("PUB/SUB over inproc, two contexts receiving the same publication concurrently: "+bad,
			map[string]interface{}{"scenario": "pub -> sub (inproc), 2 contexts subscribed to everything, each Recv in its own goroutine; context 0 fills its message with 0xEE, context 1 compares with the published bytes"})
	}
}
