package main

// C17 — a message belongs to exactly one owner at a time.
//  (1) m.ledger: random sequences of NewMessage / Clone / Free / MakeUnique / write on real messages across all pool
//      classes, compared step by step with the Lean reference-count ledger (Model/Ledger.lean): reference counts, the
//      identity of what MakeUnique returns, which released buffer the pool hands back, and the contents every owner sees.
//  (2) the library's own traffic under the verif-tag ledger in message.go (release of an unreferenced message, clone of
//      a released one, write into a released buffer): fan-out patterns with several receivers and contexts, retained
//      requests, failing and timing-out sends, connection loss with messages in flight, over virtual pipes and real
//      transports.
//  (3) application-side: messages handed out by Recv are kept, one receiver scribbles over its copy, more traffic of
//      the same sizes recycles buffers, and every kept message must still hold what it held; a failed Send must leave
//      the message with its body intact and releasable exactly once.

import (
	"bytes"
	"fmt"
	"sort"
	"strings"
	"time"

	"go.nanomsg.org/mangos/v3"
	"go.nanomsg.org/mangos/v3/protocol/bus"
	"go.nanomsg.org/mangos/v3/protocol/pub"
	"go.nanomsg.org/mangos/v3/protocol/pull"
	"go.nanomsg.org/mangos/v3/protocol/push"
	"go.nanomsg.org/mangos/v3/protocol/rep"
	"go.nanomsg.org/mangos/v3/protocol/req"
	"go.nanomsg.org/mangos/v3/protocol/respondent"
	"go.nanomsg.org/mangos/v3/protocol/star"
	"go.nanomsg.org/mangos/v3/protocol/sub"
	"go.nanomsg.org/mangos/v3/protocol/surveyor"
	"verifharness/vp"
)

func init() { props["C17"] = runC17 }

// ledgerAll: the run of a property other than C17 is under the ledger too (main.go)
var ledgerAll bool

func ledgerCheck(c *Ctx, where string, replay interface{}) { ledgerCheckAs(c, where, replay, "") }

func ledgerCheckAs(c *Ctx, where string, replay interface{}, meaning string) {
	for _, v := range mangos.VerifLedgerViolations() {
		first := strings.SplitN(v, "\n", 2)[0]
		// the first library frame below message.go tells who did it
		who := ""
		for _, l := range strings.Split(v, "\n") {
			if strings.Contains(l, "go.nanomsg.org/mangos/v3") && !strings.Contains(l, "mangos/v3.verif") && !strings.Contains(l, "mangos/v3.(*Message)") && !strings.Contains(l, "mangos/v3.NewMessage") {
				who = strings.TrimSpace(l)
				if i := strings.LastIndex(who, "("); i > 0 {
					who = who[:i]
				}
				break
			}
		}
		what := fmt.Sprintf("message ownership (%s): %s; in %s", where, strings.SplitN(first, " (message", 2)[0], who)
		if meaning != "" {
			what = fmt.Sprintf("%s: %s (%s; in %s)", where, meaning, strings.SplitN(first, " (message", 2)[0], who)
		}
		c.Violate(what, map[string]interface{}{"ledger": v, "scenario": replay})
	}
}

func runC17(c *Ctx) {
	c.Rep.Rule = "m.ledger: (operation, result shape); ownership scenarios: (pattern, transport, scenario, check)"
	mangos.VerifLedgerEnable(true)
	defer mangos.VerifLedgerEnable(false)
	n := 60
	if c.Thorough() {
		n = 1500
	}
	for i := 0; i < n; i++ {
		ledgerScenario(c, 40)
	}
	ledgerCheck(c, "direct message operations", nil)
	// the protocol machines' scenarios with the ledger switched on
	m := 6
	if c.Thorough() {
		m = 120
	}
	for i := 0; i < m; i++ {
		runPubScenario(c, i%2 == 0, 30)
		runSubScenario(c, 30)
		for _, fl := range meshFlavors {
			runMeshScenario(c, fl, 30)
		}
		runSurveyorScenario(c, 30, false)
		runReqScenario(c, reqScenarioCfg{nops: 30, retryMs: 70, faults: true})
		// retries disabled (RETRY-TIME 0): the retained request is still the socket's until its reply arrives
		runReqScenario(c, reqScenarioCfg{nops: 30, retryMs: 0, faults: true, noRetry: true})
		for _, fl := range repFlavors {
			runRepScenario(c, fl, 30)
		}
		runPushScenario(c, i%2 == 0, 30, []int{1, 2})
		runPullScenario(c, i%2 == 0, 40)
		runPairScenario(c, i%2 == 0, 30, true)
		ledgerCheck(c, "protocol machine scenarios over virtual pipes", map[string]interface{}{"round": i, "seed": c.Seed})
	}
	if err := initTLS(); err != nil {
		c.Violate("cannot create TLS configuration: "+err.Error(), nil)
		return
	}
	rounds := 1
	if c.Thorough() {
		rounds = 4
	}
	for r := 0; r < rounds; r++ {
		for ti, tr := range e2eTransports {
			if !c.Thorough() && ti != 0 && ti != 2 && ti != 4 {
				continue
			}
			c17FanOut(c, tr)
			c17SendFailures(c, tr)
		}
	}
	c17FailedSendKeepsMessage(c)
	runFanoutOwnership(c)
	runRecvKeepsBytes(c)
	runSharedForward(c)
	runRawRetryAfterTimeout(c)
	ledgerCheck(c, "directed ownership scenarios", nil)
}

// ---------------------------------------------------------------- (1) direct ledger correspondence

func ledgerScenario(c *Ctx, nops int) {
	type held struct {
		id    int
		m     *mangos.Message
		owner int
	}
	var refs []held // one entry per reference an owner holds
	ids := map[*mangos.Message]int{}
	pooled := map[*mangos.Message]bool{}
	next := 0
	sizes := []int{0, 1, 63, 64, 65, 127, 128, 200, 511, 512, 1000, 1024, 4000, 4096, 8000, 8192, 60000, 65536, 70000}
	line := func(lhs, obs string) {
		class := "m.ledger " + strings.SplitN(lhs, " ", 2)[0] + " " + strings.SplitN(obs, " ", 2)[0]
		c.Class(class, true)
		c.T.Line(class, "m.ledger "+lhs, obs)
	}
	line("new", "-")
	contents := func() string {
		// what each reference sees: id:refcnt:body-hash
		var out []string
		seen := map[int]bool{}
		hs := append([]held{}, refs...)
		sort.Slice(hs, func(i, j int) bool { return hs[i].id < hs[j].id })
		for _, h := range hs {
			if seen[h.id] {
				continue
			}
			seen[h.id] = true
			out = append(out, fmt.Sprintf("%d:%d:%s", h.id, mangos.VerifRefcnt(h.m), vp.Hex(h.m.Body)))
		}
		if len(out) == 0 {
			return "-"
		}
		return strings.Join(out, ",")
	}
	for i := 0; i < nops; i++ {
		k := c.R.Intn(10)
		switch {
		case k < 3 || len(refs) == 0:
			sz := sizes[c.R.Intn(len(sizes))]
			m := mangos.NewMessage(sz)
			owner := c.R.Intn(4)
			reused := "-"
			if id, ok := ids[m]; ok {
				reused = fmt.Sprint(id)
				if !pooled[m] {
					c.Violate("NewMessage returned a buffer that is still referenced", nil)
				}
				delete(pooled, m)
			} else {
				next++
				ids[m] = next
			}
			id := ids[m]
			if reused == "-" {
				// a brand-new buffer is id `next`
			}
			refs = append(refs, held{id, m, owner})
			ok := len(m.Body) == 0 && len(m.Header) == 0 && cap(m.Body) >= sz
			line(fmt.Sprintf("newmsg %d %d %s", owner, sz, reused), fmt.Sprintf("id:%d empty:%v %s", id, ok, contents()))
			if !ok {
				c.Violate(fmt.Sprintf("NewMessage(%d) returned len(Body)=%d len(Header)=%d cap(Body)=%d", sz, len(m.Body), len(m.Header), cap(m.Body)), nil)
			}
		case k < 5:
			h := refs[c.R.Intn(len(refs))]
			o2 := c.R.Intn(4)
			h.m.Clone()
			refs = append(refs, held{h.id, h.m, o2})
			line(fmt.Sprintf("clone %d %d %d", h.owner, o2, h.id), contents())
		case k < 7:
			j := c.R.Intn(len(refs))
			h := refs[j]
			refs = append(refs[:j], refs[j+1:]...)
			last := mangos.VerifRefcnt(h.m) == 1
			h.m.Free()
			if last {
				pooled[h.m] = true
			}
			line(fmt.Sprintf("free %d %d", h.owner, h.id), contents())
		case k < 9:
			j := c.R.Intn(len(refs))
			h := refs[j]
			u := h.m.MakeUnique()
			same := u == h.m
			if !same {
				if _, ok := ids[u]; ok {
					if !pooled[u] {
						c.Violate("MakeUnique returned a buffer that is still referenced", nil)
					}
					delete(pooled, u)
				} else {
					next++
					ids[u] = next
				}
				if mangos.VerifRefcnt(h.m) == 0 {
					pooled[h.m] = true
				}
			}
			refs[j] = held{ids[u], u, h.owner}
			reusedID := "-"
			if !same {
				reusedID = fmt.Sprint(ids[u])
			}
			line(fmt.Sprintf("unique %d %d %s", h.owner, h.id, reusedID), fmt.Sprintf("same:%v %s", same, contents()))
		default:
			// a holder with the only reference writes
			var cand []int
			for j, h := range refs {
				if mangos.VerifRefcnt(h.m) == 1 {
					cand = append(cand, j)
				}
			}
			if len(cand) == 0 {
				continue
			}
			h := refs[cand[c.R.Intn(len(cand))]]
			b := c.R.Bytes(1 + c.R.Intn(6))
			h.m.Body = append(h.m.Body[:0], b...)
			line(fmt.Sprintf("write %d %d %s", h.owner, h.id, vp.Hex(b)), contents())
		}
	}
	for _, h := range refs {
		h.m.Free()
	}
}

// ---------------------------------------------------------------- (3) application-side immutability under fan-out

type keptMsg struct {
	who  string
	m    *mangos.Message
	body []byte
	hdr  []byte
}

func c17FanOut(c *Ctx, tr e2eTransport) {
	type fan struct {
		name     string
		mkTx     func() (mangos.Socket, error)
		mkRx     func() (mangos.Socket, error)
		contexts bool // receivers also open extra contexts (SUB)
		reply    bool // receivers answer (SURVEYOR/RESPONDENT: the surveyor is the one that keeps messages)
	}
	fans := []fan{
		{"pub-sub", pub.NewSocket, sub.NewSocket, true, false},
		{"bus", bus.NewSocket, bus.NewSocket, false, false},
		{"star", star.NewSocket, star.NewSocket, false, false},
		{"surveyor-respondent", surveyor.NewSocket, respondent.NewSocket, false, true},
	}
	for _, f := range fans {
		linkSeq++
		replay := map[string]interface{}{"pattern": f.name, "transport": tr.name, "how": "cmd/corr/c17.go c17FanOut: one sender, three receivers (SUB: two contexts each), 40 messages of sizes around the pool classes, receivers keep every message, one scribbles, 200 more messages, re-check"}
		class := func(s string) string { return fmt.Sprintf("own %s %s %s", f.name, tr.name, s) }
		tx, err := f.mkTx()
		if err != nil {
			continue
		}
		lo, do := map[string]interface{}{}, map[string]interface{}{}
		if tr.tls {
			lo[mangos.OptionTLSConfig] = srvTLS
			do[mangos.OptionTLSConfig] = cliTLS
		}
		l, err := tx.NewListener(tr.addr(linkSeq), lo)
		if err != nil || l.Listen() != nil {
			_ = tx.Close()
			continue
		}
		_ = tx.SetOption(mangos.OptionSurveyTime, 300*time.Millisecond)
		_ = tx.SetOption(mangos.OptionRecvDeadline, 100*time.Millisecond)
		var rxs []mangos.Socket
		type rcv struct {
			name string
			recv func() (*mangos.Message, error)
			send func(*mangos.Message) error
		}
		var rcvs []rcv
		for i := 0; i < 3; i++ {
			rx, err := f.mkRx()
			if err != nil {
				continue
			}
			_ = rx.SetOption(mangos.OptionRecvDeadline, 150*time.Millisecond)
			_ = rx.SetOption(mangos.OptionSubscribe, []byte{})
			if rx.DialOptions(l.Address(), do) != nil {
				_ = rx.Close()
				continue
			}
			rxs = append(rxs, rx)
			rcvs = append(rcvs, rcv{fmt.Sprintf("receiver %d", i), rx.RecvMsg, rx.SendMsg})
			if f.contexts {
				if cx, err := rx.OpenContext(); err == nil {
					_ = cx.SetOption(mangos.OptionSubscribe, []byte{})
					_ = cx.SetOption(mangos.OptionRecvDeadline, 150*time.Millisecond)
					rcvs = append(rcvs, rcv{fmt.Sprintf("receiver %d context", i), cx.RecvMsg, cx.SendMsg})
				}
			}
		}
		time.Sleep(40 * time.Millisecond)
		var kept []keptMsg
		sizes := []int{1, 60, 64, 100, 128, 500, 512, 1000, 1024, 4000}
		round := func(nmsg int, keep bool) {
			for i := 0; i < nmsg; i++ {
				body := bytes.Repeat([]byte{byte('A' + i%26)}, sizes[i%len(sizes)])
				if err := tx.Send(body); err != nil {
					continue
				}
				if f.reply {
					// respondents answer; the surveyor keeps the answers
					for _, r := range rcvs {
						if m, err := r.recv(); err == nil {
							m.Body = append(m.Body, '!')
							if r.send(m) != nil {
								m.Free()
							}
						}
					}
					for j := 0; j < len(rcvs); j++ {
						m, err := tx.RecvMsg()
						if err != nil {
							break
						}
						if keep {
							kept = append(kept, keptMsg{"surveyor", m, append([]byte{}, m.Body...), append([]byte{}, m.Header...)})
						} else {
							m.Free()
						}
					}
					continue
				}
				for _, r := range rcvs {
					m, err := r.recv()
					if err != nil {
						continue
					}
					if keep {
						kept = append(kept, keptMsg{r.name, m, append([]byte{}, m.Body...), append([]byte{}, m.Header...)})
					} else {
						m.Free()
					}
				}
			}
		}
		round(20, true)
		c.Class(class(fmt.Sprintf("kept>0=%v", len(kept) > 0)), true)
		// one holder scribbles over everything it was given: it owns it
		scribbler := ""
		if len(kept) > 0 {
			scribbler = kept[0].who
			for i := range kept {
				if kept[i].who == scribbler {
					for j := range kept[i].m.Body {
						kept[i].m.Body[j] = '#'
					}
					kept[i].body = append([]byte{}, kept[i].m.Body...)
				}
			}
		}
		// more traffic of the same sizes, received and freed at once: buffers get recycled
		round(60, false)
		bad := 0
		for _, k := range kept {
			if !bytes.Equal(k.m.Body, k.body) || !bytes.Equal(k.m.Header, k.hdr) {
				bad++
				if bad <= 2 {
					c.Violate(fmt.Sprintf("message ownership (%s over %s): a message %s had received changed afterwards (%d bytes; first now %q, was %q) while %s wrote to its own copies and traffic went on",
						f.name, tr.name, k.who, len(k.body), firstByte(k.m.Body), firstByte(k.body), scribbler), replay)
				}
			}
		}
		c.Class(class(fmt.Sprintf("changed=%v", bad > 0)), true)
		for _, k := range kept {
			k.m.Free()
		}
		for _, rx := range rxs {
			_ = rx.Close()
		}
		_ = tx.Close()
		time.Sleep(10 * time.Millisecond)
		ledgerCheck(c, f.name+" over "+tr.name+", fan-out with kept messages", replay)
	}
}

func firstByte(b []byte) string {
	if len(b) == 0 {
		return ""
	}
	return string(b[:1])
}

// sends that fail or are interrupted: deadlines with a stalled peer, the peer going away with messages queued and in
// flight, retained requests
func c17SendFailures(c *Ctx, tr e2eTransport) {
	type pat struct {
		name string
		mkTx func() (mangos.Socket, error)
		mkRx func() (mangos.Socket, error)
	}
	pats := []pat{{"push-pull", push.NewSocket, pull.NewSocket}, {"req-rep", req.NewSocket, rep.NewSocket}, {"pub-sub", pub.NewSocket, sub.NewSocket}}
	for _, p := range pats {
		linkSeq++
		replay := map[string]interface{}{"pattern": p.name, "transport": tr.name, "how": "cmd/corr/c17.go c17SendFailures: sender with 5 ms send deadline and queue length 1, receiver that does not read, 200 sends of 2 KiB, receiver closed mid-way, sender keeps sending, reconnect"}
		tx, err := p.mkTx()
		if err != nil {
			continue
		}
		rx, err := p.mkRx()
		if err != nil {
			_ = tx.Close()
			continue
		}
		lo, do := map[string]interface{}{}, map[string]interface{}{}
		if tr.tls {
			lo[mangos.OptionTLSConfig] = srvTLS
			do[mangos.OptionTLSConfig] = cliTLS
		}
		_ = tx.SetOption(mangos.OptionSendDeadline, 5*time.Millisecond)
		_ = tx.SetOption(mangos.OptionWriteQLen, 1)
		_ = tx.SetOption(mangos.OptionRetryTime, 10*time.Millisecond)
		_ = tx.SetOption(mangos.OptionReconnectTime, 5*time.Millisecond)
		_ = tx.SetOption(mangos.OptionMaxReconnectTime, 10*time.Millisecond)
		_ = rx.SetOption(mangos.OptionReadQLen, 1)
		l, err := rx.NewListener(tr.addr(linkSeq), lo)
		if err != nil || l.Listen() != nil {
			_ = tx.Close()
			_ = rx.Close()
			continue
		}
		addr := l.Address()
		if tx.DialOptions(addr, do) != nil {
			_ = tx.Close()
			_ = rx.Close()
			continue
		}
		time.Sleep(30 * time.Millisecond)
		outcomes := map[string]int{}
		send := func(n int) {
			for i := 0; i < n; i++ {
				m := mangos.NewMessage(2048)
				m.Body = append(m.Body, bytes.Repeat([]byte{byte(i)}, 2048)...)
				want := append([]byte{}, m.Body...)
				err := tx.SendMsg(m)
				outcomes[vp.ErrName(err)]++
				if err != nil {
					// the message is still the caller's: intact, and releasable exactly once
					if !bytes.Equal(m.Body, want) {
						c.Violate(fmt.Sprintf("message ownership (%s over %s): Send failed with %s but the message body was changed", p.name, tr.name, vp.ErrName(err)), replay)
					}
					if rc := mangos.VerifRefcnt(m); rc != 1 {
						c.Violate(fmt.Sprintf("message ownership (%s over %s): Send failed with %s and left the caller's message with reference count %d", p.name, tr.name, vp.ErrName(err), rc), replay)
					}
					m.Free()
				}
			}
		}
		send(60)
		_ = rx.Close() // the peer goes away with messages queued and in flight
		send(60)
		// a new peer on the same address
		rx2, err := p.mkRx()
		if err == nil {
			if l2, err := rx2.NewListener(addr, lo); err == nil && l2.Listen() == nil {
				time.Sleep(40 * time.Millisecond)
				send(40)
			}
			_ = rx2.Close()
		}
		_ = tx.Close()
		time.Sleep(10 * time.Millisecond)
		ks := vp.SortedKeys(outcomes)
		c.Class(fmt.Sprintf("own %s %s send-failures outcomes=%v", p.name, tr.name, ks), true)
		ledgerCheck(c, p.name+" over "+tr.name+", failing and interrupted sends", replay)
	}
}

// every protocol at pipe level: a Send that fails (timeout with a stalled pipe, closed) leaves the message with the caller
func c17FailedSendKeepsMessage(c *Ctx) {
	for _, st := range w18sites() {
		if st.fn != "SendMsg" || st.fam == "send-fan" || st.fam == "send-req" {
			continue
		}
		proto := st.newp()
		net := &vp.Net{}
		_ = proto.SetOption(mangos.OptionWriteQLen, 1)
		var ctx mangos.ProtocolContext = proto
		if st.recv == "context" {
			if cx, err := proto.OpenContext(); err == nil {
				ctx = cx
			}
		}
		pipe := vp.NewVPipe(1, proto, net)
		pipe.Hold = true
		_ = pipe.Attach()
		replay := map[string]interface{}{"protocol": st.pkg, "how": "cmd/corr/c17.go c17FailedSendKeepsMessage: stalled virtual pipe, queue length 1, 10 ms send deadline, sends until one times out"}
		timedOut := false
		for i := 0; i < 14 && !timedOut; i++ {
			if st.fam == "send-ctx" {
				pipe.Inject(st.inbound)
				_ = ctx.SetOption(mangos.OptionRecvDeadline, 200*time.Millisecond)
				if m, err := ctx.RecvMsg(); err == nil {
					m.Free()
				}
			}
			_ = ctx.SetOption(mangos.OptionSendDeadline, 10*time.Millisecond)
			_ = proto.SetOption(mangos.OptionSendDeadline, 10*time.Millisecond)
			m := mangos.NewMessage(300)
			m.Header = append(m.Header, st.hdr(1)...)
			m.Body = append(m.Body, bytes.Repeat([]byte{'k'}, 300)...)
			err := ctx.SendMsg(m)
			if err == mangos.ErrSendTimeout {
				timedOut = true
				if !bytes.Equal(m.Body, bytes.Repeat([]byte{'k'}, 300)) || mangos.VerifRefcnt(m) != 1 {
					c.Violate(fmt.Sprintf("message ownership (%s %s.%s): a Send that timed out left the caller's message with %d body bytes and reference count %d", st.pkg, st.recv, st.fn, len(m.Body), mangos.VerifRefcnt(m)), replay)
				}
				m.Free()
			} else if err != nil {
				m.Free()
			}
		}
		c.Class(fmt.Sprintf("own %s %s.%s failed-send timedout=%v", st.pkg, st.recv, st.fn, timedOut), true)
		// a Send that is blocked when the socket is closed fails with the closed error and keeps its message too
		_ = ctx.SetOption(mangos.OptionSendDeadline, time.Duration(0))
		_ = proto.SetOption(mangos.OptionSendDeadline, time.Duration(0))
		if st.fam == "send-ctx" {
			pipe.Inject(st.inbound)
			_ = ctx.SetOption(mangos.OptionRecvDeadline, 200*time.Millisecond)
			if m, err := ctx.RecvMsg(); err == nil {
				m.Free()
			}
		}
		mb := mangos.NewMessage(300)
		mb.Header = append(mb.Header, st.hdr(1)...)
		mb.Body = append(mb.Body, bytes.Repeat([]byte{'b'}, 300)...)
		blockedErr := make(chan error, 1)
		go func() { blockedErr <- ctx.SendMsg(mb) }()
		time.Sleep(3 * time.Millisecond)
		_ = proto.Close()
		select {
		case err := <-blockedErr:
			if err != nil {
				if !bytes.Equal(mb.Body, bytes.Repeat([]byte{'b'}, 300)) || mangos.VerifRefcnt(mb) != 1 {
					c.Violate(fmt.Sprintf("message ownership (%s %s.%s): a Send that was blocked when the socket was closed failed with %v and left the caller's message with %d body bytes and reference count %d", st.pkg, st.recv, st.fn, err, len(mb.Body), mangos.VerifRefcnt(mb)), replay)
				} else {
					mb.Free()
				}
				c.Class(fmt.Sprintf("own %s %s.%s send-blocked-at-close %v", st.pkg, st.recv, st.fn, err), true)
			}
		case <-time.After(2 * time.Second):
		}
		// ... and so does a Send on the closed socket
		ma := mangos.NewMessage(300)
		ma.Header = append(ma.Header, st.hdr(1)...)
		ma.Body = append(ma.Body, bytes.Repeat([]byte{'a'}, 300)...)
		if err := ctx.SendMsg(ma); err != nil {
			if !bytes.Equal(ma.Body, bytes.Repeat([]byte{'a'}, 300)) || mangos.VerifRefcnt(ma) != 1 {
				c.Violate(fmt.Sprintf("message ownership (%s %s.%s): Send on a closed socket failed with %v and left the caller's message with %d body bytes and reference count %d", st.pkg, st.recv, st.fn, err, len(ma.Body), mangos.VerifRefcnt(ma)), replay)
			} else {
				ma.Free()
			}
		}
		for pipe.Release(mangos.ErrClosed) {
		}
		_ = pipe.Close()
		time.Sleep(2 * time.Millisecond)
		ledgerCheck(c, st.pkg+" failed sends over a stalled virtual pipe", replay)
	}
}
