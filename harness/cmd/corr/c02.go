package main

import (
	"bytes"
	"fmt"

	"go.nanomsg.org/mangos/v3"
	"go.nanomsg.org/mangos/v3/protocol/pair"
	"go.nanomsg.org/mangos/v3/protocol/pair1"
	"go.nanomsg.org/mangos/v3/protocol/xpair"
	"go.nanomsg.org/mangos/v3/protocol/xpair1"
)

func init() { props["C02"] = runC02 }

func seqBody(c *Ctx, seq int) []byte {
	return append(c.R.Bytes(c.R.Intn(3)), byte(seq>>8), byte(seq))
}
func seqOf(b []byte) int {
	if len(b) < 2 {
		return -1
	}
	return int(b[len(b)-2])<<8 | int(b[len(b)-1])
}

// PAIR: single peer, in-order exactly-once both ways, refusal of a second peer
func runPairScenario(c *Ctx, cooked bool, nops int, resize bool) {
	runPairScenarioV(c, cooked, false, nops, resize)
}

// v1: PAIRv1 (pair1 / xpair1), the same machine behind a constant hop header
func runPairScenarioV(c *Ctx, cooked, v1 bool, nops int, resize bool) {
	var proto mangos.ProtocolBase
	switch {
	case cooked && !v1:
		proto = pair.NewProtocol()
	case !cooked && !v1:
		proto = xpair.NewProtocol()
	case cooked && v1:
		proto = pair1.NewProtocol()
	default:
		proto = xpair1.NewProtocol()
	}
	e := NewExec(c, "m.pair", proto, "pair")
	var sendHdr []byte
	if v1 {
		zero := []byte{0, 0, 0, 0}
		e.injectPrefix, e.txHdrStrip, e.rxHdrStrip = zero, zero, []byte{0, 0, 0, 1}
		if !cooked {
			sendHdr = zero // the raw socket's user supplies the hop header; the trace shows it on both sides
			e.txHdrStrip = nil
		}
	}
	peer := 0
	next := 300
	held := false
	seq := 0
	accepted := []int{}     // sequence numbers whose Send returned ok, in call order (single sender goroutine at a time)
	sentOK := map[int]int{} // call -> seq
	var txSeqs []int        // what the peer was handed, in order
	rseq := 0
	var rxSeqs []int
	faults := false
	look := func() {
		for _, ev := range splitEvents(lastObs(e)) {
			switch ev.kind {
			case "tx":
				sq := seqOf(ev.msg)
				if n := len(txSeqs); n > 0 && txSeqs[n-1] >= sq {
					c.Violate(fmt.Sprintf("PAIR: peer was handed message #%d after #%d (reordered or duplicated)", sq, txSeqs[n-1]), e.Replay())
				}
				txSeqs = append(txSeqs, sq)
				if ev.pipe != peer {
					c.Violate(fmt.Sprintf("PAIR: message #%d was handed to pipe %d which is not the admitted peer %d", sq, ev.pipe, peer), e.Replay())
				}
			case "ret":
				if ev.msg != nil {
					sq := seqOf(ev.msg)
					if n := len(rxSeqs); n > 0 && rxSeqs[n-1] >= sq {
						c.Violate(fmt.Sprintf("PAIR: Recv returned message #%d after #%d (reordered or duplicated)", sq, rxSeqs[n-1]), e.Replay())
					}
					rxSeqs = append(rxSeqs, sq)
				} else if ev.err == "ok" {
					if sq, ok := sentOK[ev.call]; ok {
						accepted = append(accepted, sq)
					}
				}
			case "closed":
				if ev.pipe == peer {
					peer = 0
					held = false
					faults = true
				}
			}
		}
	}
	executed := func(n int) bool { return len(e.ops) > n }
	for i := 0; i < nops && !e.broken; i++ {
		n0 := len(e.ops)
		switch k := c.R.Intn(24); {
		case k < 3:
			next++
			r := e.AddPipe(next)
			if peer != 0 && r == "ok" {
				c.Violate(fmt.Sprintf("PAIR: a second connection (pipe %d) was admitted while peer %d is established", next, peer), e.Replay())
			}
			if peer == 0 && r != "ok" {
				c.Violate(fmt.Sprintf("PAIR: connection refused (%s) although no peer is established", r), e.Replay())
			}
			if peer == 0 && r == "ok" {
				peer = next
			}
			look()
		case k < 10:
			seq++
			b := seqBody(c, seq)
			e.Send(0, sendHdr, b)
			sentOK[e.ncall] = seq
			look()
		case k < 14:
			if peer != 0 {
				rseq++
				e.Inject(peer, seqBody(c, rseq))
				look()
			}
		case k < 18:
			if e.ParkedRecvs() == 0 { // several Recv calls blocked at once are woken in no particular order after a resize
				e.Recv(0)
				look()
			}
		case k < 20:
			if peer != 0 {
				held = !held
				e.Hold(peer, held)
			}
		case k < 22:
			if peer != 0 {
				ok := c.R.Intn(8) != 0
				e.Release(peer, ok)
				if executed(n0) {
					look()
				}
			}
		case k == 22:
			if peer != 0 && c.R.Intn(3) == 0 {
				p := peer
				e.RmPipe(p)
				look()
			}
		default:
			if resize {
				faults = true // resizing may discard queued messages by design
				if c.R.Intn(2) == 0 {
					n := c.R.Pick(0, 1, 2, 3)
					e.SetOpt(0, mangos.OptionWriteQLen, fmt.Sprint(n), n)
				} else {
					n := c.R.Pick(0, 1, 2, 3)
					e.SetOpt(0, mangos.OptionReadQLen, fmt.Sprint(n), n)
				}
				look()
			}
		}
	}
	// while the connection stayed up and queue sizes were left alone: everything accepted is delivered, in order
	if !faults && peer != 0 && !e.broken {
		if held {
			e.Hold(peer, false)
		}
		for e.pipes[peer] != nil && e.pipes[peer].PendingSends() > 0 {
			e.Release(peer, true)
			look()
		}
		if !bytes.Equal(intsBytes(txSeqs), intsBytes(accepted)) {
			c.Violate(fmt.Sprintf("PAIR: with the connection up and queues untouched, accepted messages %v but the peer was handed %v", accepted, txSeqs), e.Replay())
		}
	}
	e.Finish()
}

func intsBytes(xs []int) []byte {
	var b []byte
	for _, x := range xs {
		b = append(b, byte(x>>8), byte(x))
	}
	return b
}

func runC02(c *Ctx) {
	c.Rep.Rule = "random histories on real (x)pair / (x)push / (x)pull protocol instances through virtual pipes: sends, receives, slow peers (held sends), send failures, peer drops, extra connection attempts, queue resizes (lengths 0-3); " +
		"sequence-numbered payloads; every operation is a trace line checked against the Lean machine; class = (machine, operation, shape of the observable outcome)"
	n := 120
	if c.Thorough() {
		n = 2500
	}
	for i := 0; i < n; i++ {
		runPairScenario(c, i%2 == 0, 50, i%3 == 0)
	}
	for i := 0; i < n/2; i++ {
		runPairScenarioV(c, i%2 == 0, true, 50, i%3 == 0)
	}
	runPushPullScenarios(c)
	c02EndToEnd(c)
	runPairDialerSecond(c)
	runPairPeerLeavesDuringAttachedHook(c)
	runPushBurst(c)
}
