package main

// replayReqOps re-drives a recorded m.req history (the "ops" of a replay file) on a fresh REQ protocol instance.
// Injected bodies are given as recorded (canonical ids).  Used by `corr -replay <file> REPLAY-REQ`.

import (
	"encoding/json"
	"fmt"
	"os"
	"strconv"
	"strings"
	"time"

	"go.nanomsg.org/mangos/v3"
	"go.nanomsg.org/mangos/v3/protocol/req"
)

func init() {
	props["REPLAY-REQ"] = func(c *Ctx) {
		b, err := os.ReadFile(c.Replay)
		if err != nil {
			fmt.Println("replay:", err)
			return
		}
		var d struct {
			Replay struct {
				Ops []string `json:"ops"`
			} `json:"replay"`
		}
		if json.Unmarshal(b, &d) != nil {
			return
		}
		n := 20
		if v := os.Getenv("REPLAY_N"); v != "" {
			n, _ = strconv.Atoi(v)
		}
		diff := 0
		for i := 0; i < n; i++ {
			if !replayReqOps(c, d.Replay.Ops) {
				diff++
			}
		}
		fmt.Printf("replay: %d of %d runs differ from the recorded observations\n", diff, n)
	}
}

func replayReqOps(c *Ctx, ops []string) bool {
	e := NewExec(c, "m.req", req.NewProtocol(), "req")
	e.timed, e.canonIDs = true, true
	same := true
	for _, line := range ops {
		lr := strings.SplitN(line, " => ", 2)
		f := strings.Fields(lr[0])
		if len(f) > 0 && strings.HasPrefix(f[len(f)-1], "@") {
			f = f[:len(f)-1]
		}
		if len(f) == 0 || f[0] == "new" {
			continue
		}
		at := func(i int) int { v, _ := strconv.Atoi(f[i]); return v }
		switch f[0] {
		case "addpipe":
			e.AddPipe(at(1))
		case "rmpipe":
			e.RmPipe(at(1))
		case "setopt":
			ms := at(3)
			name := map[string]string{"RETRY-TIME": mangos.OptionRetryTime, "SEND-DEADLINE": mangos.OptionSendDeadline, "RECV-DEADLINE": mangos.OptionRecvDeadline}[f[2]]
			if name != "" {
				e.SetOpt(at(1), name, f[3], time.Duration(ms)*time.Millisecond)
			} else if f[2] == "BEST-EFFORT" {
				e.SetOpt(at(1), mangos.OptionBestEffort, f[3], f[3] == "true")
			}
		case "send":
			e.Send(at(2), unhex(f[3]), unhex(f[4]))
		case "recv":
			e.Recv(at(2))
		case "inject":
			e.InjectCanon(at(1), unhex(f[2]))
		case "hold":
			e.Hold(at(1), f[2] == "1")
		case "release":
			if f[2] == "ok" {
				e.Release(at(1), true)
			} else {
				e.ReleaseErr(at(1))
			}
		case "sleep":
			e.Sleep(at(1))
		case "openctx":
			e.OpenCtx(at(1))
		case "closectx":
			e.CloseCtx(at(1))
		default:
			continue
		}
		if len(lr) == 2 && len(e.ops) > 0 {
			got := e.ops[len(e.ops)-1]
			g := strings.SplitN(got, " => ", 2)
			if len(g) == 2 && g[1] != lr[1] {
				fmt.Printf("replay differs at %q: recorded %q, now %q\n", lr[0], lr[1], g[1])
				same = false
			}
		}
	}
	e.Finish()
	return same
}
