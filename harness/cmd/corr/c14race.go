package main

// C14 / C10, directed: a synchronous Socket.Dial that is still inside the transport — and is going to fail — while
// another dialer is created and started on the same socket.  When the first Dial fails, the socket forgets *its*
// throw-away dialer, not the other one: after Socket.Close the second dialer, like every dialer of the socket, makes no
// further attempt.

import (
	"errors"
	"fmt"
	"time"

	"go.nanomsg.org/mangos/v3"
	"go.nanomsg.org/mangos/v3/protocol"

	"verifharness/vt"
)

var c14raceSeq int

func runDialFailsWhileAnotherDialerRegisters(c *Ctx) {
	rounds := 3
	if c.Thorough() {
		rounds = 30
	}
	for r := 0; r < rounds; r++ {
		c14raceSeq++
		slow := fmt.Sprintf("verif://c14race-slow-%d", c14raceSeq)
		other := fmt.Sprintf("verif://c14race-other-%d", c14raceSeq)
		s := protocol.MakeSocket(vt.NewProto())
		_ = s.SetOption(mangos.OptionReconnectTime, 15*time.Millisecond)
		_ = s.SetOption(mangos.OptionMaxReconnectTime, 15*time.Millisecond)
		done := make(chan error, 1)
		go func() { done <- s.Dial(slow) }() // synchronous: parks inside the transport
		var ds *vt.Dialer
		for i := 0; i < 200 && (ds == nil || ds.Parked() == 0); i++ {
			time.Sleep(time.Millisecond)
			ds = vt.T.Dialer(slow)
		}
		if ds == nil || ds.Parked() == 0 {
			_ = s.Close()
			continue
		}
		// meanwhile another dialer joins the socket and starts redialling in the background
		d2, err := s.NewDialer(other, map[string]interface{}{mangos.OptionDialAsynch: true})
		if err != nil {
			_ = s.Close()
			continue
		}
		_ = d2.Dial()
		var do *vt.Dialer
		for i := 0; i < 200 && (do == nil || do.NAttempts() == 0); i++ {
			time.Sleep(time.Millisecond)
			do = vt.T.Dialer(other)
		}
		if do == nil {
			_ = s.Close()
			continue
		}
		stop := make(chan struct{})
		go func() { // every attempt of the second dialer is refused at once
			for {
				select {
				case <-stop:
					return
				default:
				}
				if do.Parked() > 0 {
					do.Script(vt.DialResult{Err: errors.New("connection refused")})
				} else {
					time.Sleep(200 * time.Microsecond)
				}
			}
		}()
		time.Sleep(40 * time.Millisecond)
		ds.Script(vt.DialResult{Err: errors.New("connection refused")}) // the synchronous Dial fails now
		select {
		case <-done:
		case <-time.After(2 * time.Second):
			c.Violate("core: a synchronous Dial did not return after its connection attempt was refused", nil)
		}
		time.Sleep(30 * time.Millisecond)
		before := do.NAttempts()
		_ = s.Close()
		time.Sleep(10 * time.Millisecond)
		atClose := do.NAttempts()
		time.Sleep(120 * time.Millisecond) // eight reconnect times
		after := do.NAttempts()
		close(stop)
		// one attempt may have passed the dialer's closed test just before Close and reach the transport just after
		late := after - atClose
		c.Class(fmt.Sprintf("dial fails while another dialer registers: attempts after close=%v", late > 1), true)
		obs := "0"
		if late > 1 {
			obs = fmt.Sprint(late)
		}
		c.T.Line("dial race", "cl.check redial", obs)
		if late > 1 {
			c.Violate(fmt.Sprintf("dialer: %d connection attempts were started after Socket.Close by a dialer of that socket (reconnect time 15 ms; it had made %d attempts before Close) — a synchronous Dial on the same socket had failed while this dialer was being added", after-atClose, before),
				map[string]interface{}{"history": []string{"go Socket.Dial(slow) (parks in the transport)", "NewDialer(other, DIAL-ASYNCH) + Dial: redials every 15 ms, each attempt refused", "the first Dial is refused", "Socket.Close", "count attempts of `other` for 120 ms"}})
		}
	}
}
