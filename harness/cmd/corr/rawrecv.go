package main

// The receive side of the raw request-id sockets XREQ and XSURVEYOR against Model/Proto/RawRecv.lean, machine `m.rawq`:
// per-pipe receiver goroutines feeding one bounded queue, holding a message while it is full; bodies shorter than the
// four-byte id are discarded; a READQ-LEN change starts an empty queue and makes every receiver drop what it holds.
// The oracle is the theorem's statement on the observations: what Recv returns is, per connection, in the peer's send
// order, at most once, split exactly at byte four, and was sent.

import (
	"fmt"

	"go.nanomsg.org/mangos/v3"
	"go.nanomsg.org/mangos/v3/protocol/xreq"
	"go.nanomsg.org/mangos/v3/protocol/xsub"
	"go.nanomsg.org/mangos/v3/protocol/xsurveyor"
)

func runRawRecvScenario(c *Ctx, kind int, nops int) {
	var proto mangos.ProtocolBase
	name := "xreq"
	idLen := 4
	switch kind % 3 {
	case 1:
		proto = xsurveyor.NewProtocol()
		name = "xsurveyor"
	case 2:
		// XSUB: nothing is split off, a message that finds the queue full is dropped at once
		proto = xsub.NewProtocol()
		name = "xsub"
		idLen = 0
	default:
		proto = xreq.NewProtocol()
	}
	e := NewExec(c, "m.rawq", proto, name)
	pipes := []int{}
	next := 520
	pseq := map[int]int{}
	last := map[int]int{}
	sent := map[string]bool{}
	if q := c.R.Pick(128, 128, 0, 1, 2, 3); q != 128 {
		e.SetOpt(0, mangos.OptionReadQLen, fmt.Sprint(q), q)
	}
	look := func() {
		for _, ev := range splitEvents(lastObs(e)) {
			if ev.kind != "ret" || ev.msg == nil {
				continue
			}
			whole := append(append([]byte{}, ev.hdr...), ev.msg...)
			if len(ev.hdr) != idLen {
				c.Violate(fmt.Sprintf("%s: Recv returned a message whose header is %d bytes (%x), not %d", name, len(ev.hdr), ev.hdr, idLen), e.Replay())
				continue
			}
			if !sent[string(whole)] {
				c.Violate(fmt.Sprintf("%s: Recv returned %x|%x, which no peer sent", name, ev.hdr, ev.msg), e.Replay())
				continue
			}
			if len(whole) < 4 {
				continue
			}
			p := 520 + int(whole[1])
			sq := int(whole[2])<<8 | int(whole[3])
			if last[p] >= sq {
				c.Violate(fmt.Sprintf("%s: message #%d of connection %d received after #%d", name, sq, p, last[p]), e.Replay())
			}
			last[p] = sq
		}
	}
	for i := 0; i < nops && !e.broken; i++ {
		switch k := c.R.Intn(20); {
		case k < 3:
			if len(pipes) < 3 {
				next++
				if e.AddPipe(next) == "ok" {
					pipes = append(pipes, next)
				}
			}
		case k < 11:
			if len(pipes) > 0 {
				p := pipes[c.R.Intn(len(pipes))]
				if c.R.Intn(8) == 0 {
					// too short to carry an id (XSUB delivers it like any other)
					b := []byte{0x80, byte(p - 520), 9}[:c.R.Intn(4)]
					if idLen == 0 {
						sent[string(b)] = true
					}
					e.Inject(p, b)
				} else {
					pseq[p]++
					b := []byte{0x80, byte(p - 520), byte(pseq[p] >> 8), byte(pseq[p])}
					for j := c.R.Intn(4); j > 0; j-- {
						b = append(b, byte(c.R.Intn(256)))
					}
					sent[string(b)] = true
					waiting := e.ParkedRecvs() > 0
					e.Inject(p, b)
					if waiting && !e.broken {
						// a Recv was waiting, so nothing was queued or held: this message must complete it
						got := false
						for _, ev := range splitEvents(lastObs(e)) {
							if ev.kind == "ret" && ev.msg != nil {
								got = true
							}
						}
						if !got {
							c.Violate(fmt.Sprintf("%s: a well-formed message (%x: four-byte id and %d payload byte(s)) arrived while a Recv was waiting and was not delivered", name, b, len(b)-4), e.Replay())
						}
					}
				}
				look()
			}
		case k < 17:
			if e.ParkedRecvs() == 0 {
				e.Recv(0)
				look()
			}
		case k == 17:
			if len(pipes) > 1 && c.R.Intn(2) == 0 {
				j := c.R.Intn(len(pipes))
				e.RmPipe(pipes[j])
				pipes = append(pipes[:j:j], pipes[j+1:]...)
				look()
			}
		default:
			// A queue-length change wakes every receiver that holds a message at once; each drops it and reads on.  With
			// unread input on more than one connection the order in which they refill the new queue is a scheduling race
			// the sequential machine does not decide, so the operation is issued only while at most one pipe has any.
			unread := 0
			for _, p := range pipes {
				if e.pipes[p] != nil && e.pipes[p].Backlog() > 0 {
					unread++
				}
			}
			if unread <= 1 {
				n := c.R.Pick(0, 1, 2, 3)
				e.SetOpt(0, mangos.OptionReadQLen, fmt.Sprint(n), n)
				look()
			}
		}
	}
	e.Finish()
}

// directed: a queue-length change while a receiver holds a message for the full queue.  Whatever becomes of the held
// message (the raw request-id sockets drop it), what Recv returns afterwards must be a message a peer sent, whole:
// header = its first four bytes, body = the rest.
func runRawRecvResizeWithHeld(c *Ctx, kind int) {
	var proto mangos.ProtocolBase
	name := "xreq"
	if kind%2 == 1 {
		proto = xsurveyor.NewProtocol()
		name = "xsurveyor"
	} else {
		proto = xreq.NewProtocol()
	}
	e := NewExec(c, "m.rawq", proto, name)
	e.SetOpt(0, mangos.OptionReadQLen, "1", 1)
	e.AddPipe(521)
	msgs := [][]byte{
		{0x80, 1, 0, 1, 'q', 'u', 'e', 'u', 'e', 'd'},
		{0x80, 1, 0, 2, 0x20, 0x21, 0x22, 0x23, 'h', 'e', 'l', 'd'},
		{0x80, 1, 0, 3, 'l', 'a', 't', 'e', 'r'},
	}
	sent := map[string]bool{}
	for _, m := range msgs {
		sent[string(m)] = true
	}
	e.Inject(521, msgs[0])
	e.Inject(521, msgs[1])
	e.SetOpt(0, mangos.OptionReadQLen, "2", 2)
	e.Inject(521, msgs[2])
	for k := 0; k < 3 && !e.broken; k++ {
		if e.ParkedRecvs() > 0 {
			break
		}
		e.Recv(0)
		for _, ev := range splitEvents(lastObs(e)) {
			if ev.kind != "ret" || ev.msg == nil {
				continue
			}
			whole := append(append([]byte{}, ev.hdr...), ev.msg...)
			if len(ev.hdr) != 4 || !sent[string(whole)] {
				c.Violate(fmt.Sprintf("%s: after a READQ-LEN change made while a receiver was holding a message for the full queue, Recv returned header %x body %x — not a message any peer sent (sent: %x, %x, %x)", name, ev.hdr, ev.msg, msgs[0], msgs[1], msgs[2]), e.Replay())
			}
		}
	}
	e.Finish()
}
