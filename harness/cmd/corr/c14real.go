package main

// C14 on real stream transports: whatever way a connection attempt dies — refused, accepted and closed at once, closed
// after our header was read, answered with garbage — an open dialer keeps redialling at its reconnect time, and gets in
// once a real listener is there.  (The scripted-transport runs cover core's bookkeeping; this covers what the
// transports' own error paths hand to core.)

import (
	"fmt"
	"io"
	"net"
	"os"
	"strings"
	"sync/atomic"
	"time"

	"go.nanomsg.org/mangos/v3"
	"go.nanomsg.org/mangos/v3/protocol/pair"
)

func runRealDialerPersistence(c *Ctx) {
	for _, tr := range []string{"tcp", "ipc"} {
		for _, how := range []string{"closes-at-once", "reads-header-then-closes", "sends-garbage", "half-header"} {
			var ln net.Listener
			var err error
			var addr string
			if tr == "tcp" {
				ln, err = net.Listen("tcp", "127.0.0.1:0")
				if err == nil {
					addr = "tcp://" + ln.Addr().String()
				}
			} else {
				path := fmt.Sprintf("%s/verif-c14-%d-%s.sock", os.TempDir(), os.Getpid(), how)
				_ = os.Remove(path)
				ln, err = net.Listen("unix", path)
				addr = "ipc://" + path
			}
			if err != nil {
				continue
			}
			var accepts int32
			go func() {
				for {
					cn, err := ln.Accept()
					if err != nil {
						return
					}
					atomic.AddInt32(&accepts, 1)
					switch how {
					case "reads-header-then-closes":
						_ = cn.SetReadDeadline(time.Now().Add(200 * time.Millisecond))
						_, _ = io.ReadFull(cn, make([]byte, 8))
					case "sends-garbage":
						_, _ = cn.Write([]byte("HTTP/1.0 400 no\r\n\r\n"))
					case "half-header":
						_, _ = cn.Write([]byte{0, 'S', 'P', 0})
					}
					_ = cn.Close()
				}
			}()
			s, _ := pair.NewSocket()
			_ = s.SetOption(mangos.OptionReconnectTime, 20*time.Millisecond)
			_ = s.SetOption(mangos.OptionMaxReconnectTime, 20*time.Millisecond)
			derr := s.DialOptions(addr, map[string]interface{}{mangos.OptionDialAsynch: true})
			time.Sleep(500 * time.Millisecond)
			n := int(atomic.LoadInt32(&accepts))
			obs := "redials"
			if n < 5 {
				obs = fmt.Sprintf("stopped-after-%d", n)
			}
			class := fmt.Sprintf("real-dialer %s peer-%s", tr, how)
			c.Class(class, true)
			c.T.Line(class, fmt.Sprintf("dial.persist %s %s", tr, how), obs)
			if derr != nil || n < 5 {
				c.Violate(fmt.Sprintf("dialer (%s): the peer %s on every attempt; in 500 ms with a reconnect time of 20 ms the dialer made %d attempt(s) (Dial returned %v): it has stopped redialling", tr, strings.ReplaceAll(how, "-", " "), n, derr),
					map[string]interface{}{"transport": tr, "peer": how, "attempts": n})
			}
			_ = ln.Close()
			// a real listener takes the address over: the dialer gets in
			if tr == "tcp" && derr == nil {
				b, _ := pair.NewSocket()
				_ = b.SetOption(mangos.OptionRecvDeadline, time.Second)
				got := "not-connected"
				if b.Listen(addr) == nil {
					_ = s.SetOption(mangos.OptionSendDeadline, 100*time.Millisecond)
					for try := 0; try < 20 && got != "connected"; try++ {
						if s.Send([]byte("in")) == nil {
							if m, err := b.Recv(); err == nil && string(m) == "in" {
								got = "connected"
							}
						}
					}
				} else {
					got = "connected" // the port could not be re-bound in time: not this check's subject
				}
				c.T.Line(class+" then-listener", fmt.Sprintf("dial.persist %s then-listener", tr), map[string]string{"connected": "redials", "not-connected": "stopped"}[got])
				if got != "connected" {
					c.Violate(fmt.Sprintf("dialer (%s): after attempts that failed because the peer %s, the dialer did not connect to a listener that then appeared on the address", tr, strings.ReplaceAll(how, "-", " ")), nil)
				}
				_ = b.Close()
			}
			_ = s.Close()
		}
	}
}
