package main

import (
	"encoding/hex"
	"strconv"
	"strings"
)

type event struct {
	kind string // ret | tx | closed | res
	call int
	pipe int
	err  string
	hdr  []byte
	msg  []byte // body (ret msg / tx)
}

func unhex(s string) []byte {
	if s == "-" {
		return []byte{}
	}
	b, _ := hex.DecodeString(s)
	return b
}

func splitEvents(obs string) []event {
	var out []event
	if obs == "-" || obs == "" {
		return out
	}
	for _, ev := range strings.Split(obs, " ") {
		f := strings.Split(ev, ":")
		switch f[0] {
		case "ret":
			e := event{kind: "ret"}
			e.call, _ = strconv.Atoi(f[1])
			if len(f) >= 5 && f[2] == "msg" {
				e.hdr, e.msg = unhex(f[3]), unhex(f[4])
			} else if len(f) >= 3 {
				e.err = f[2]
			}
			out = append(out, e)
		case "tx":
			e := event{kind: "tx"}
			e.pipe, _ = strconv.Atoi(f[1])
			if len(f) >= 4 {
				e.hdr, e.msg = unhex(f[2]), unhex(f[3])
			}
			out = append(out, e)
		case "closed":
			e := event{kind: "closed"}
			e.pipe, _ = strconv.Atoi(f[1])
			out = append(out, e)
		case "res":
			out = append(out, event{kind: "res", err: f[1]})
		}
	}
	return out
}
