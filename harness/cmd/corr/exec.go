package main

// Generic sequential executor for protocol-level correspondence runs: one real protocol instance,
// virtual pipes, contexts, parked API calls; one trace line per operation carrying everything that
// became observable before the next quiescent state.

import (
	"encoding/binary"
	"fmt"
	"sort"
	"strconv"
	"strings"
	"time"

	"go.nanomsg.org/mangos/v3"
	"verifharness/vp"
)

type Exec struct {
	c      *Ctx
	tag    string
	proto  mangos.ProtocolBase
	net    *vp.Net
	pipes  map[int]*vp.VPipe
	ctxs   map[int]mangos.ProtocolContext
	calls  map[int]*vp.Call
	ncall  int
	ops    []string // the scenario so far (for replays)
	broken bool
	class  func(lhs, obs string) (string, bool)
	// timed machines: every line carries the monotonic clock (ms since the scenario began) as a last "@t" token
	timed bool
	t0    time.Time
	// request / survey ids are chosen by the implementation from a time-seeded counter; the trace uses canonical
	// ids 0x80000000|k for the k-th Send, translated both ways once the base has been learned from the first transmission
	canonIDs           bool
	idBase             uint32
	idKnown            bool
	stalled            bool      // the harness itself was not scheduled for a long time during an operation: the trace clock is not faithful any more, the rest of the scenario is not judged
	obsEnd, prevObsEnd time.Time // when the observation of the last / the previous operation was complete: an operation starts no earlier than the previous one's observation ended
	nsent              int
	lastTx             []vp.TxRec // transmissions of the last observation, in the order they are listed
	// PAIRv1 driven against the PAIR machine: the constant hop header is checked here and left out of the trace
	// (hop counting itself is C01's subject): a transmitted header equal to txHdrStrip, a received header equal to
	// rxHdrStrip are written as "-"; injectPrefix is put in front of every injected body
	txHdrStrip, rxHdrStrip, injectPrefix []byte
}

func stripIf(h, want []byte) []byte {
	if want != nil && string(h) == string(want) {
		return nil
	}
	return h
}

func NewExec(c *Ctx, tag string, proto mangos.ProtocolBase, newArgs string) *Exec {
	e := &Exec{c: c, tag: tag, proto: proto, net: &vp.Net{}, pipes: map[int]*vp.VPipe{}, ctxs: map[int]mangos.ProtocolContext{0: proto},
		calls: map[int]*vp.Call{}, t0: time.Now()}
	vp.Quiesce()
	e.emit("new "+newArgs, "-")
	return e
}

func (e *Exec) emit(lhs, obs string) {
	if e.stalled {
		e.ops = append(e.ops, lhs+" => -")
		return
	}
	if e.timed {
		lhs = fmt.Sprintf("%s @%d", lhs, time.Since(e.t0).Milliseconds())
	}
	e.ops = append(e.ops, lhs+" => "+obs)
	class, nontrivial := "", true
	if e.class != nil {
		class, nontrivial = e.class(lhs, obs)
	} else {
		class = e.tag + " " + strings.SplitN(lhs, " ", 2)[0] + " " + obsShape(obs)
	}
	e.c.Class(class, nontrivial)
	e.c.T.Line(class, e.tag+" "+lhs, obs)
}

// obsShape abstracts an observation string: kinds of events without ids and payloads
func obsShape(obs string) string {
	if obs == "-" {
		return "-"
	}
	var out []string
	for _, ev := range strings.Split(obs, " ") {
		f := strings.Split(ev, ":")
		switch f[0] {
		case "ret":
			if len(f) >= 3 {
				out = append(out, "ret:"+f[2])
			}
		default:
			out = append(out, f[0])
		}
	}
	return strings.Join(out, ",")
}

// observe waits for quiescence and collects what became observable
func (e *Exec) observe() string {
	r := e.observe0()
	e.prevObsEnd, e.obsEnd = e.obsEnd, time.Now()
	return r
}

func (e *Exec) observe0() string {
	if !vp.Quiesce() {
		e.broken = true
		return "no-quiescence"
	}
	var evs []string
	ids := make([]int, 0, len(e.calls))
	for id := range e.calls {
		ids = append(ids, id)
	}
	sort.Ints(ids)
	for _, id := range ids {
		call := e.calls[id]
		if !call.Finished() {
			continue
		}
		delete(e.calls, id)
		if call.Kind == "recv" && call.Err == nil {
			evs = append(evs, fmt.Sprintf("ret:%d:msg:%s:%s", id, vp.Hex(e.toCanon(stripIf(call.Msg.Header, e.rxHdrStrip))), vp.Hex(call.Msg.Body)))
			// a received message belongs to the application: it may change it.  Scribbling over it makes visible any
			// other holder of the same buffer (another context's copy, a queued forward, a retained request)
			for i := range call.Msg.Body {
				call.Msg.Body[i] = 0xEE
			}
			for i := range call.Msg.Header {
				call.Msg.Header[i] = 0xEE
			}
			call.Msg.Free()
		} else {
			evs = append(evs, fmt.Sprintf("ret:%d:%s", id, vp.ErrName(call.Err)))
			if call.Kind == "send" && call.Err != nil {
				call.Msg.Free()
			}
		}
	}
	tx := e.net.TakeTx()
	sort.SliceStable(tx, func(i, j int) bool { return tx[i].Pipe < tx[j].Pipe })
	e.lastTx = tx
	for _, t := range tx {
		if e.canonIDs && !e.idKnown && len(t.Header) >= 4 && e.nsent > 0 {
			real := binary.BigEndian.Uint32(t.Header[len(t.Header)-4:])
			e.idBase = (real - uint32(e.nsent)) & 0x7fffffff
			e.idKnown = true
		}
		evs = append(evs, fmt.Sprintf("tx:%d:%s:%s", t.Pipe, vp.Hex(e.toCanon(stripIf(t.Header, e.txHdrStrip))), vp.Hex(t.Body)))
	}
	cl := e.net.TakeEvs()
	sort.Strings(cl)
	for _, ev := range cl {
		evs = append(evs, strings.Replace(ev, " ", ":", 1))
	}
	if len(evs) == 0 {
		return "-"
	}
	return strings.Join(evs, " ")
}

// toCanon rewrites the last header word (a request / survey id) into its canonical form
func (e *Exec) toCanon(hdr []byte) []byte {
	if !e.canonIDs || !e.idKnown || len(hdr) < 4 {
		return hdr
	}
	out := append([]byte{}, hdr...)
	w := out[len(out)-4:]
	real := binary.BigEndian.Uint32(w)
	if real&0x80000000 != 0 {
		binary.BigEndian.PutUint32(w, ((real-e.idBase)&0x7fffffff)|0x80000000)
	}
	return out
}

// RealID gives the id the implementation uses for canonical id k
func (e *Exec) RealID(k uint32) uint32 {
	return ((k&0x7fffffff)+e.idBase)&0x7fffffff | 0x80000000
}

// InjectCanon injects a body whose first word is a canonical id (translated when it has the request bit)
func (e *Exec) InjectCanon(id int, body []byte) {
	p := e.pipes[id]
	if p == nil {
		return
	}
	real := append([]byte{}, body...)
	if e.canonIDs && e.idKnown && len(real) >= 4 {
		// the low 31 bits are the counter (shifted by the learned base); the request bit is kept as given
		w := binary.BigEndian.Uint32(real[:4])
		binary.BigEndian.PutUint32(real[:4], (e.RealID(w)&0x7fffffff)|(w&0x80000000))
	}
	e.Op(fmt.Sprintf("inject %d %s", id, vp.Hex(body)), func() { p.Inject(real) })
}

// stallCheck: a timed scenario compares what happened with the clock of its trace lines.  When an operation takes much
// longer than it can (the process was not scheduled: an overloaded or suspended machine), timers fire in bursts and
// late, several per observation, and neither the model's windows nor the oracles' bookkeeping mean anything; the rest
// of the scenario is then driven to its end but not judged (counted as class "harness stalled").
func (e *Exec) stallCheck(lhs string, t0 time.Time) bool {
	if !e.timed || e.stalled {
		return e.stalled
	}
	nominal := time.Duration(0)
	if f := strings.Fields(lhs); len(f) == 2 && f[0] == "sleep" {
		if ms, err := strconv.Atoi(f[1]); err == nil {
			nominal = time.Duration(ms) * time.Millisecond
		}
	}
	if d := time.Since(t0); d > nominal+200*time.Millisecond {
		e.stalled, e.broken = true, true
		e.c.Class("trivial:harness stalled during a timed scenario", false)
		e.c.Rep.Notes = append(e.c.Rep.Notes, fmt.Sprintf("%s: operation %q took %v (nominal %v): the rest of the scenario was not judged", e.tag, lhs, d.Round(time.Millisecond), nominal))
	}
	return e.stalled
}

func (e *Exec) Op(lhs string, f func()) string {
	t0 := time.Now()
	f()
	obs := e.observe()
	if e.stallCheck(lhs, t0) {
		obs = "-"
	}
	e.emit(lhs, obs)
	return obs
}

// OpSync runs a synchronous API call; its result is the first event of the observation ("res:<err>")
func (e *Exec) OpSync(lhs string, f func() error) string {
	t0 := time.Now()
	err := f()
	obs := e.observe()
	if e.stallCheck(lhs, t0) {
		e.emit(lhs, "-")
		return vp.ErrName(err)
	}
	r := "res:" + vp.ErrName(err)
	if obs == "-" {
		obs = r
	} else {
		obs = r + " " + obs
	}
	e.emit(lhs, obs)
	return vp.ErrName(err)
}

func (e *Exec) AddPipe(id int) string {
	p := vp.NewVPipe(uint32(id), e.proto, e.net)
	r := e.OpSync(fmt.Sprintf("addpipe %d", id), func() error { return p.Attach() })
	if r == "ok" {
		e.pipes[id] = p
	}
	return r
}

func (e *Exec) RmPipe(id int) {
	p := e.pipes[id]
	if p == nil {
		return
	}
	delete(e.pipes, id)
	e.Op(fmt.Sprintf("rmpipe %d", id), func() { _ = p.Close() })
}

func (e *Exec) Inject(id int, body []byte) {
	p := e.pipes[id]
	if p == nil {
		return
	}
	e.Op(fmt.Sprintf("inject %d %s", id, vp.Hex(body)), func() { p.Inject(append(append([]byte{}, e.injectPrefix...), body...)) })
}

func (e *Exec) Recv(ctx int) int {
	e.ncall++
	id := e.ncall
	e.Op(fmt.Sprintf("recv %d %d", id, ctx), func() { e.calls[id] = vp.GoRecv(e.ctxs[ctx]) })
	return id
}

func (e *Exec) Send(ctx int, hdr, body []byte) int {
	e.nsent++
	e.ncall++
	id := e.ncall
	e.Op(fmt.Sprintf("send %d %d %s %s", id, ctx, vp.Hex(hdr), vp.Hex(body)), func() { e.calls[id] = vp.GoSend(e.ctxs[ctx], hdr, body) })
	return id
}

func (e *Exec) SetOpt(ctx int, name string, lean string, val interface{}) string {
	return e.OpSync(fmt.Sprintf("setopt %d %s %s", ctx, name, lean), func() error {
		if b, ok := val.([]byte); ok {
			// the value is the caller's: it is reused for something else as soon as the call has returned
			cp := append([]byte{}, b...)
			err := e.ctxs[ctx].SetOption(name, cp)
			for i := range cp {
				cp[i] ^= 0xFF
			}
			return err
		}
		return e.ctxs[ctx].SetOption(name, val)
	})
}

func (e *Exec) OpenCtx(id int) string {
	var cx mangos.ProtocolContext
	r := e.OpSync(fmt.Sprintf("openctx %d", id), func() error { var err error; cx, err = e.proto.OpenContext(); return err })
	if r == "ok" {
		e.ctxs[id] = cx
	}
	return r
}

func (e *Exec) CloseCtx(id int) string {
	cx := e.ctxs[id]
	return e.OpSync(fmt.Sprintf("closectx %d", id), func() error { return cx.Close() })
}

func (e *Exec) Hold(id int, on bool) {
	if p := e.pipes[id]; p != nil {
		p.Hold = on
		e.emit(fmt.Sprintf("hold %d %d", id, b2i(on)), "-")
	}
}

// ReleaseErr fails the pipe's parked send with a transport error other than ErrClosed
func (e *Exec) ReleaseErr(id int) {
	p := e.pipes[id]
	if p == nil || p.PendingSends() == 0 {
		return
	}
	e.Op(fmt.Sprintf("release %d err", id), func() { p.Release(mangos.ErrGarbled) })
	delete(e.pipes, id)
}

func (e *Exec) Release(id int, ok bool) {
	p := e.pipes[id]
	if p == nil || p.PendingSends() == 0 {
		return
	}
	var err error
	if !ok {
		err = mangos.ErrClosed
	}
	e.Op(fmt.Sprintf("release %d %s", id, map[bool]string{true: "ok", false: "err"}[ok]), func() { p.Release(err) })
	if !ok {
		delete(e.pipes, id)
	}
}

func (e *Exec) Sleep(ms int) {
	e.Op(fmt.Sprintf("sleep %d", ms), func() { time.Sleep(time.Duration(ms) * time.Millisecond) })
}

// postCloseOps (C10): after the closing operation, go on using the closed socket and its contexts
var postCloseOps bool

// Finish closes everything and reports calls that never returned.
func (e *Exec) Finish() {
	t0 := time.Now()
	e.OpSync("close", func() error { return e.proto.Close() })
	if d := time.Since(t0); d > 3*time.Second {
		e.c.Violate(fmt.Sprintf("%s: Close took %v", e.tag, d), e.Replay())
	}
	if postCloseOps && !e.broken {
		ids := make([]int, 0, len(e.ctxs))
		for id := range e.ctxs {
			ids = append(ids, id)
		}
		sort.Ints(ids)
		before := len(e.calls)
		for _, id := range ids {
			e.Send(id, nil, []byte("zz"))
			e.Recv(id)
		}
		e.OpenCtx(9000)
		e.AddPipe(9001)
		e.OpSync("close", func() error { return e.proto.Close() })
		_ = before
	}
	for id, p := range e.pipes {
		_ = p.Close()
		delete(e.pipes, id)
	}
	vp.Quiesce()
	// contexts closed by the socket; any call still parked now is stuck for good
	time.Sleep(time.Millisecond)
	vp.Quiesce()
	for id, call := range e.calls {
		if !call.Finished() {
			e.c.Violate(fmt.Sprintf("%s: %s call %d is still blocked after the socket and all pipes were closed", e.tag, call.Kind, id),
				map[string]interface{}{"machine": e.tag, "ops": e.ops})
		}
	}
	e.net.TakeTx()
	e.net.TakeEvs()
	if ledgerAll {
		// the whole scenario ran under the reference-count ledger of message.go (build tag verif): a message released by
		// someone who no longer held it goes back to the pool while it is still queued or held elsewhere, and the next
		// message of that size overwrites it — whatever the property, what it says about message contents is then void
		ledgerCheckAs(e.c, e.tag+" scenario over virtual pipes", e.Replay(), "the library released or touched a message it no longer held — the buffer returns to the pool while still queued, retained for retransmission or held by the application, and the next message of that size overwrites it")
	}
}

// ParkedRecvs counts Recv calls that have not returned yet
func (e *Exec) ParkedRecvs() int {
	n := 0
	for _, call := range e.calls {
		if call.Kind == "recv" {
			n++
		}
	}
	return n
}

func (e *Exec) Replay() map[string]interface{} {
	return map[string]interface{}{"machine": e.tag, "ops": append([]string{}, e.ops...), "stalled": e.stalled}
}
