package main

// Core-level executor: one real core socket (protocol.MakeSocket over a recording protocol) on the scripted
// transport "verif://"; hook, protocol and dial events are collected at quiescence, pipes are named by
// canonical numbers (order of creation).

import (
	"errors"
	"fmt"
	"sort"
	"strings"
	"sync"
	"time"

	"go.nanomsg.org/mangos/v3"
	"go.nanomsg.org/mangos/v3/protocol"
	"verifharness/vp"
	"verifharness/vt"
)

type cev struct {
	rank int
	s    string
}

type CExec struct {
	c             *Ctx
	name          string
	sock          mangos.Socket
	proto         *vt.Proto
	mu            sync.Mutex
	evs           []cev
	canon         map[uint32]int // real pipe id -> k
	realID        map[int]uint32
	pipes         map[int]mangos.Pipe
	tpipes        map[int]*vt.Pipe // transport pipes by k (assigned when the hook first sees them)
	pendingT      []*vt.Pipe
	npipes        int
	hookCloseNext bool
	closeFirst    bool
	parkedK       int
	hookParkNext  bool          // the next Attaching callback does not return until AttachRelease
	attachHold    chan struct{} // non-nil while an Attaching callback is parked
	hookHold      chan struct{}
	holding       bool
	listeners     map[int]mangos.Listener
	dialers       map[int]mangos.Dialer
	calls         map[int]chan error
	ncall         int
	attSeen       map[int]int
	ops           []string
	t0            time.Time
	broken        bool
	// oracle state (C13): per pipe the hook events in order
	hooklog map[int][]string
	idsSeen map[uint32]bool
}

func NewCExec(c *Ctx, name string) *CExec {
	e := &CExec{c: c, name: name, proto: vt.NewProto(), canon: map[uint32]int{}, realID: map[int]uint32{}, pipes: map[int]mangos.Pipe{},
		tpipes: map[int]*vt.Pipe{}, listeners: map[int]mangos.Listener{}, dialers: map[int]mangos.Dialer{}, calls: map[int]chan error{},
		attSeen: map[int]int{}, t0: time.Now(), hooklog: map[int][]string{}, idsSeen: map[uint32]bool{}}
	e.sock = protocol.MakeSocket(e.proto)
	e.sock.SetPipeEventHook(e.hook)
	vp.Quiesce()
	e.emit("new core", "-")
	return e
}

func (e *CExec) k(id uint32) int {
	if k, ok := e.canon[id]; ok {
		return k
	}
	e.npipes++
	e.canon[id] = e.npipes
	e.realID[e.npipes] = id
	return e.npipes
}

func (e *CExec) hook(ev mangos.PipeEvent, p mangos.Pipe) {
	e.mu.Lock()
	k := e.k(p.ID())
	name := map[mangos.PipeEvent]string{mangos.PipeEventAttaching: "attaching", mangos.PipeEventAttached: "attached", mangos.PipeEventDetached: "detached"}[ev]
	e.evs = append(e.evs, cev{1000000 + k*10, fmt.Sprintf("hk:%s:%d", name, k)})
	e.hooklog[k] = append(e.hooklog[k], name)
	e.pipes[k] = p
	closeIt := false
	if ev == mangos.PipeEventAttaching {
		if len(e.pendingT) > 0 {
			e.tpipes[k] = e.pendingT[0]
			e.pendingT = e.pendingT[1:]
		}
		if p.ID() == 0 || p.ID() >= 0x80000000 {
			e.c.Violate(fmt.Sprintf("core: pipe id %#x is not a non-zero 31-bit value", p.ID()), e.Replay())
		}
		if e.hookCloseNext {
			e.hookCloseNext = false
			closeIt = true
		}
	}
	hold := e.hookHold
	var park chan struct{}
	if ev == mangos.PipeEventAttaching && e.hookParkNext {
		e.hookParkNext = false
		e.attachHold = make(chan struct{})
		park = e.attachHold
		e.parkedK = k
	}
	e.mu.Unlock()
	if closeIt {
		_ = p.Close()
	}
	if park != nil {
		<-park // the application's Attaching callback has not returned yet
	}
	if ev == mangos.PipeEventDetached && hold != nil {
		<-hold // the application's callback has not returned yet
	}
}

func (e *CExec) emit(lhs, obs string) {
	lhs = fmt.Sprintf("%s @%d", lhs, time.Since(e.t0).Milliseconds())
	e.ops = append(e.ops, lhs+" => "+obs)
	class := "m.core " + strings.SplitN(lhs, " ", 2)[0] + " " + coreShape(obs)
	e.c.Class(class, true)
	e.c.T.Line(class, "m.core "+lhs, obs)
}

func coreShape(obs string) string {
	var out []string
	for _, f := range strings.Fields(obs) {
		p := strings.Split(f, ":")
		switch p[0] {
		case "hk", "pr":
			out = append(out, p[0]+":"+p[1])
		case "ids", "listed":
			n := 0
			if len(p) > 1 && p[1] != "" {
				n = len(strings.Split(p[1], ","))
			}
			out = append(out, fmt.Sprintf("%s#%d", p[0], n))
		default:
			out = append(out, p[0]+":"+p[len(p)-1])
		}
	}
	return strings.Join(out, ",")
}

// observe: quiescence, then events in canonical order plus the id and pipe-list census
func (e *CExec) observe(pre []cev) string {
	if !vp.Quiesce() {
		e.broken = true
		return "no-quiescence"
	}
	time.Sleep(200 * time.Microsecond)
	vp.Quiesce()
	e.mu.Lock()
	evs := append(pre, e.evs...)
	e.evs = nil
	for _, l := range e.proto.TakeLog() {
		var what string
		var id uint32
		f := strings.Fields(l)
		fmt.Sscanf(f[1], "%d", &id)
		k := e.k(id)
		switch {
		case f[0] == "add":
			what = "add-" + f[2]
		default:
			what = "remove"
		}
		evs = append(evs, cev{1000000 + k*10 + 1, fmt.Sprintf("pr:%s:%d", what, k)})
	}
	e.mu.Unlock()
	// completed Dial calls
	ids := []int{}
	for id := range e.calls {
		ids = append(ids, id)
	}
	sort.Ints(ids)
	for _, id := range ids {
		select {
		case err := <-e.calls[id]:
			delete(e.calls, id)
			evs = append(evs, cev{1000 + id, fmt.Sprintf("ret:%d:%s", id, dialErrName(err))})
		default:
		}
	}
	// new transport dial attempts
	ds := []int{}
	for d := range e.dialers {
		ds = append(ds, d)
	}
	sort.Ints(ds)
	for _, d := range ds {
		td := vt.T.Dialer(e.addr("d", d))
		if td == nil {
			continue
		}
		for n := td.NAttempts(); e.attSeen[d] < n; e.attSeen[d]++ {
			evs = append(evs, cev{100000000 + d, fmt.Sprintf("att:%d", d)})
		}
	}
	// per-pipe events: hook and protocol events of one pipe in the order attaching, add, attached, remove, detached
	sort.SliceStable(evs, func(i, j int) bool { return evs[i].rank/10 < evs[j].rank/10 })
	evs = orderPipeEvents(evs)
	var parts []string
	for _, ev := range evs {
		parts = append(parts, ev.s)
	}
	// census restricted to this scenario's pipes
	inUse := map[uint32]bool{}
	for _, id := range protocol.VerifPipeIDsInUse() {
		inUse[id] = true
	}
	var used, listed []string
	for k := 1; k <= e.npipes; k++ {
		if inUse[e.realID[k]] {
			used = append(used, fmt.Sprint(k))
		}
	}
	lset := map[uint32]bool{}
	for _, id := range protocol.VerifPipesListed(e.sock) {
		lset[id] = true
	}
	for k := 1; k <= e.npipes; k++ {
		if lset[e.realID[k]] {
			listed = append(listed, fmt.Sprint(k))
		}
	}
	parts = append(parts, "ids:"+strings.Join(used, ","), "listed:"+strings.Join(listed, ","))
	return strings.Join(parts, " ")
}

var pipeEvOrder = map[string]int{"hk:attaching": 0, "pr:add-ok": 1, "pr:add-refused": 1, "pr:add-closed": 1, "hk:attached": 2, "pr:remove": 3, "hk:detached": 4}

func orderPipeEvents(evs []cev) []cev {
	key := func(s string) int {
		p := strings.Split(s, ":")
		if len(p) >= 2 {
			if o, ok := pipeEvOrder[p[0]+":"+p[1]]; ok {
				return o
			}
		}
		return 0
	}
	sort.SliceStable(evs, func(i, j int) bool {
		if evs[i].rank/10 != evs[j].rank/10 {
			return evs[i].rank/10 < evs[j].rank/10
		}
		if evs[i].rank < 1000000 || evs[i].rank >= 100000000 {
			return false
		}
		return key(evs[i].s) < key(evs[j].s)
	})
	return evs
}

func dialErrName(err error) string {
	if err == nil {
		return "ok"
	}
	n := vp.ErrName(err)
	if strings.HasPrefix(n, "other:") {
		return "connrefused"
	}
	return n
}

func (e *CExec) addr(kind string, n int) string {
	return fmt.Sprintf("verif://%s-%s%d", e.name, kind, n)
}

func (e *CExec) Op(lhs string, f func() []cev) string {
	pre := f()
	obs := e.observe(pre)
	e.emit(lhs, obs)
	e.oracle()
	return obs
}

func resEv(err error) []cev {
	return []cev{{0, "res:" + map[bool]string{true: "ok", false: ""}[err == nil] + errOr(err)}}
}
func errOr(err error) string {
	if err == nil {
		return ""
	}
	n := vp.ErrName(err)
	if strings.HasPrefix(n, "other:") {
		return "other"
	}
	return n
}

func (e *CExec) NewListener(l int) {
	e.Op(fmt.Sprintf("newlistener %d", l), func() []cev {
		li, err := e.sock.NewListener(e.addr("l", l), nil)
		if err == nil {
			e.listeners[l] = li
		}
		return resEv(err)
	})
}

func (e *CExec) Listen(l int, fail bool) string {
	how := "ok"
	if fail {
		how = "fail"
	}
	return e.Op(fmt.Sprintf("listen %d %s", l, how), func() []cev {
		if fail {
			vt.T.Listener(e.addr("l", l)).ListenErr = fmt.Errorf("address not available")
		}
		return resEv(e.listeners[l].Listen())
	})
}

// Conn: a peer connects to listener l; mode plain | hookclose | refuse
func (e *CExec) Conn(l int, mode string) {
	e.Op(fmt.Sprintf("conn %d %s", l, mode), func() []cev {
		tp := vt.NewPipe("in")
		if e.c.R.Intn(3) == 0 {
			tp.CloseErr = errClosePipe // closing the transport connection reports an error: the pipe is gone all the same
		}
		if mode == "deadpeer" {
			tp.Drop() // the peer has already gone: the first receive on this pipe fails
		}
		e.mu.Lock()
		e.pendingT = append(e.pendingT, tp)
		if mode == "hookclose" {
			e.hookCloseNext = true
		}
		if mode == "hookpark" {
			e.hookParkNext = true
		}
		e.mu.Unlock()
		if mode == "refuse" {
			e.proto.RefuseNext = true
		}
		vt.T.Listener(e.addr("l", l)).Incoming(vt.DialResult{P: tp})
		return nil
	})
}

func (e *CExec) NewDialer(d int, asynch bool, minMs, maxMs int) {
	e.Op(fmt.Sprintf("newdialer %d %d %d %d", d, b2i(asynch), minMs, maxMs), func() []cev {
		di, err := e.sock.NewDialer(e.addr("d", d), map[string]interface{}{
			mangos.OptionDialAsynch: asynch, mangos.OptionReconnectTime: time.Duration(minMs) * time.Millisecond,
			mangos.OptionMaxReconnectTime: time.Duration(maxMs) * time.Millisecond})
		if err == nil {
			e.dialers[d] = di
		}
		return resEv(err)
	})
}

func (e *CExec) Dial(d int) int {
	e.ncall++
	id := e.ncall
	e.Op(fmt.Sprintf("dial %d %d", d, id), func() []cev {
		ch := make(chan error, 1)
		e.calls[id] = ch
		go func() { ch <- e.dialers[d].Dial() }()
		return nil
	})
	return id
}

func (e *CExec) DialRes(d int, ok bool, mode string) {
	td := vt.T.Dialer(e.addr("d", d))
	if td == nil {
		return
	}
	lhs := fmt.Sprintf("dialres %d fail", d)
	if ok {
		lhs = fmt.Sprintf("dialres %d ok %s", d, mode)
	}
	e.Op(lhs, func() []cev {
		if !ok {
			td.Script(vt.DialResult{Err: mangos.ErrConnRefused})
			return nil
		}
		tp := vt.NewPipe("out")
		if e.c.R.Intn(3) == 0 {
			tp.CloseErr = errClosePipe // closing the transport connection reports an error: the pipe is gone all the same
		}
		e.mu.Lock()
		e.pendingT = append(e.pendingT, tp)
		if mode == "hookclose" {
			e.hookCloseNext = true
		}
		e.mu.Unlock()
		if mode == "refuse" {
			e.proto.RefuseNext = true
		}
		td.Script(vt.DialResult{P: tp})
		return nil
	})
}

func (e *CExec) Drop(k int) {
	if tp := e.tpipes[k]; tp != nil {
		e.Op(fmt.Sprintf("drop %d", k), func() []cev { tp.Drop(); return nil })
	}
}

func (e *CExec) PClose(k int) {
	if p := e.pipes[k]; p != nil {
		e.Op(fmt.Sprintf("pclose %d", k), func() []cev { _ = p.Close(); return nil })
	}
}

func (e *CExec) CloseDialer(d int) {
	e.Op(fmt.Sprintf("closedialer %d", d), func() []cev { return resEv(e.dialers[d].Close()) })
}
func (e *CExec) CloseListener(l int) {
	e.Op(fmt.Sprintf("closelistener %d", l), func() []cev { return resEv(e.listeners[l].Close()) })
}
func (e *CExec) HookHold(on bool) {
	e.Op(fmt.Sprintf("hookhold %d", b2i(on)), func() []cev {
		e.mu.Lock()
		if on {
			e.hookHold = make(chan struct{})
		}
		e.mu.Unlock()
		return nil
	})
}
func (e *CExec) HookRelease() {
	e.Op("hookrelease", func() []cev {
		e.mu.Lock()
		if e.hookHold != nil {
			close(e.hookHold)
			e.hookHold = nil
		}
		e.mu.Unlock()
		return nil
	})
}
func (e *CExec) AttachParked() bool {
	e.mu.Lock()
	defer e.mu.Unlock()
	return e.attachHold != nil
}
func (e *CExec) AttachRelease() {
	e.Op("attachrelease", func() []cev {
		e.mu.Lock()
		if e.attachHold != nil {
			close(e.attachHold)
			e.attachHold = nil
		}
		e.hookParkNext = false
		e.mu.Unlock()
		return nil
	})
}
func (e *CExec) Sleep(ms int) {
	e.Op(fmt.Sprintf("sleep %d", ms), func() []cev { time.Sleep(time.Duration(ms) * time.Millisecond); return nil })
}
func (e *CExec) SockClose() {
	e.Op("sockclose", func() []cev {
		done := make(chan error, 1)
		go func() { done <- e.sock.Close() }()
		select {
		case err := <-done:
			return resEv(err)
		case <-time.After(3 * time.Second):
			e.c.Violate("core: Socket.Close did not return within 3 s", e.Replay())
			return []cev{{0, "res:hang"}}
		}
	})
}

func (e *CExec) Replay() map[string]interface{} {
	return map[string]interface{}{"machine": "m.core", "ops": append([]string{}, e.ops...)}
}

// Finish: unblock whatever the scripted transport still holds
func (e *CExec) Finish() {
	if e.hookHold != nil {
		e.HookRelease()
	}
	if e.AttachParked() && e.closeFirst {
		// close the socket while a pipe is still inside its Attaching callback, then let the callback return
		e.SockClose()
		e.AttachRelease()
		e.Op("sleep 0", func() []cev { return nil })
	} else {
		if e.AttachParked() {
			e.AttachRelease()
		}
		e.SockClose()
	}
	for d := range e.dialers {
		if td := vt.T.Dialer(e.addr("d", d)); td != nil {
			for i := 0; i < 4; i++ {
				td.Script(vt.DialResult{Err: mangos.ErrClosed})
			}
		}
	}
	vp.Quiesce()
}

// oracle (C13): hook order per pipe
func (e *CExec) oracle() {
	e.mu.Lock()
	defer e.mu.Unlock()
	for k, log := range e.hooklog {
		att, atd, det := 0, 0, 0
		for i, ev := range log {
			switch ev {
			case "attaching":
				att++
				if i != 0 {
					e.c.Violate(fmt.Sprintf("core: pipe %d: Attaching reported after other events (%v)", k, log), e.Replay())
				}
			case "attached":
				atd++
			case "detached":
				det++
			}
		}
		// "Detached … if and only if Attached was (or is being) reported": the goroutine that closes a freshly attached
		// pipe may enter its Detached callback before the attaching goroutine has entered Attached (both are committed
		// by then), so the order of the two entries is not judged — only, at this quiescent point, that both are there
		if det > 0 && atd == 0 {
			e.c.Violate(fmt.Sprintf("core: pipe %d: Detached reported without Attached (%v)", k, log), e.Replay())
		}
		if att > 1 || atd > 1 || det > 1 || (len(log) > 0 && log[0] != "attaching") {
			e.c.Violate(fmt.Sprintf("core: pipe %d: hook events %v (Attaching exactly once and first, Attached and Detached at most once)", k, log), e.Replay())
			e.hooklog[k] = nil
		}
	}
}

var errClosePipe = errors.New("close: connection reset by peer")
