package main

// Directed scenarios added for the sixth round of seeded changes.

import (
	"fmt"
	"runtime"
	"strings"
	"sync"
	"time"

	"go.nanomsg.org/mangos/v3"
	"go.nanomsg.org/mangos/v3/protocol/bus"
	"go.nanomsg.org/mangos/v3/protocol/pair"
	"go.nanomsg.org/mangos/v3/protocol/xbus"

	"verifharness/vp"
)

// C08 — a raw BUS forwarder holds a message it received from member A while A leaves and member C joins; when it then
// forwards the message, every member other than the one it came from — B, and C, who is not its origin — must get it.
// (The origin is named in the header by pipe id; a pipe id that is handed to the next connection while messages naming
// it are still around makes the newcomer pass for the origin.)
func runForwardAfterPeerReplaced(c *Ctx) {
	rounds := 6
	if c.Thorough() {
		rounds = 40
	}
	for _, trn := range []string{"inproc", "tcp"} {
		tr := transportNamed(trn)
		fwd, _ := xbus.NewSocket()
		_ = fwd.SetOption(mangos.OptionRecvDeadline, time.Second)
		var mu sync.Mutex
		attached, detached := 0, 0
		fwd.SetPipeEventHook(func(ev mangos.PipeEvent, p mangos.Pipe) {
			mu.Lock()
			if ev == mangos.PipeEventAttached {
				attached++
			}
			if ev == mangos.PipeEventDetached {
				detached++
			}
			mu.Unlock()
		})
		waitFor := func(f func() bool) bool {
			for i := 0; i < 400; i++ {
				mu.Lock()
				ok := f()
				mu.Unlock()
				if ok {
					return true
				}
				time.Sleep(5 * time.Millisecond)
			}
			return false
		}
		l, err := fwd.NewListener(r4addr(tr), nil)
		if err != nil || l.Listen() != nil {
			_ = fwd.Close()
			continue
		}
		member := func() mangos.Socket {
			s, _ := bus.NewSocket()
			_ = s.SetOption(mangos.OptionRecvDeadline, 2*time.Second)
			mu.Lock()
			a0 := attached
			mu.Unlock()
			if s.Dial(l.Address()) != nil || !waitFor(func() bool { return attached > a0 }) {
				_ = s.Close()
				return nil
			}
			return s
		}
		b := member()
		bad := ""
		for r := 0; r < rounds && bad == "" && b != nil; r++ {
			a := member()
			if a == nil {
				break
			}
			body := []byte{'f', 'w', 'd', byte(r)}
			if a.Send(body) != nil {
				_ = a.Close()
				break
			}
			m, err := fwd.RecvMsg()
			if err != nil {
				_ = a.Close()
				break
			}
			mu.Lock()
			d0 := detached
			mu.Unlock()
			_ = a.Close()
			if !waitFor(func() bool { return detached > d0 }) {
				m.Free()
				break
			}
			cm := member()
			if cm == nil {
				m.Free()
				break
			}
			hdr := append([]byte{}, m.Header...)
			if err := fwd.SendMsg(m); err != nil {
				m.Free()
				_ = cm.Close()
				break
			}
			for who, s := range map[string]mangos.Socket{"B (connected throughout)": b, "C (connected after the origin left)": cm} {
				got, err := s.Recv()
				if err != nil || string(got) != string(body) {
					bad = fmt.Sprintf("round %d: a message received from member A (origin header %x) and forwarded after A had left did not reach member %s: %v %q", r, hdr, who, err, got)
				}
			}
			mu.Lock()
			d1 := detached
			mu.Unlock()
			_ = cm.Close()
			waitFor(func() bool { return detached > d1 })
		}
		c.Class("xbus-forward-after-peer-replaced "+tr.name, true)
		if bad != "" {
			c.Violate("xbus forwarder ("+tr.name+"): "+bad, map[string]interface{}{"transport": tr.name,
				"scenario": "raw BUS forwarder listening; cooked BUS members A and B dial; A sends; the forwarder receives the message and keeps it; A closes (Detached seen); member C dials (Attached seen); the forwarder sends the kept message; B and C must both receive it"})
		}
		if b != nil {
			_ = b.Close()
		}
		_ = fwd.Close()
	}
}

// C02, C13 — a PAIR socket's only peer goes away while the socket's event hook is still busy with that peer's Attached
// event; afterwards the place must be free: a second peer connects (its dialer retrying as usual) and its messages
// arrive.  (The departure has to reach the protocol although it happened before the hook returned.)
func runPairPeerLeavesDuringAttachedHook(c *Ctx) {
	for _, trn := range []string{"inproc", "tcp"} {
		tr := transportNamed(trn)
		srv, _ := pair.NewSocket()
		_ = srv.SetOption(mangos.OptionRecvDeadline, 3*time.Second)
		inHook := make(chan struct{}, 4)
		release := make(chan struct{})
		var mu sync.Mutex
		first := true
		srv.SetPipeEventHook(func(ev mangos.PipeEvent, p mangos.Pipe) {
			if ev != mangos.PipeEventAttached {
				return
			}
			mu.Lock()
			f := first
			first = false
			mu.Unlock()
			if f {
				inHook <- struct{}{}
				<-release
			}
		})
		l, err := srv.NewListener(r4addr(tr), nil)
		if err != nil || l.Listen() != nil {
			_ = srv.Close()
			continue
		}
		p1, _ := pair.NewSocket()
		ok := p1.Dial(l.Address()) == nil
		if ok {
			select {
			case <-inHook:
			case <-time.After(2 * time.Second):
				ok = false
			}
		}
		_ = p1.Close()
		time.Sleep(40 * time.Millisecond) // the server side notices the departure while its hook is still running
		close(release)
		bad := ""
		if ok {
			time.Sleep(20 * time.Millisecond)
			p2, _ := pair.NewSocket()
			_ = p2.SetOption(mangos.OptionReconnectTime, 20*time.Millisecond)
			_ = p2.SetOption(mangos.OptionMaxReconnectTime, 20*time.Millisecond)
			_ = p2.SetOption(mangos.OptionDialAsynch, true)
			_ = p2.SetOption(mangos.OptionSendDeadline, 3*time.Second)
			if p2.Dial(l.Address()) == nil {
				done := make(chan error, 1)
				go func() { done <- p2.Send([]byte("second peer")) }()
				got, err := srv.Recv()
				if err != nil || string(got) != "second peer" {
					bad = fmt.Sprintf("the first peer left while the Attached hook for it was still running; a second peer then dialled for 3 s and its message never arrived (%v %q): the place of the peer that had gone was never given up", err, got)
				}
			}
			_ = p2.Close()
		}
		c.Class("pair-peer-leaves-during-attached-hook "+tr.name, true)
		if bad != "" {
			c.Violate("PAIR ("+tr.name+"): "+bad, map[string]interface{}{"transport": tr.name,
				"scenario": "PAIR socket listening with an event hook that lingers in the first Attached event; peer 1 dials, is closed while the hook is running, 40 ms later the hook returns; peer 2 dials (DIAL-ASYNCH, RECONNECT-TIME 20 ms) and sends; the listening socket must receive it"})
		}
		_ = srv.Close()
	}
}

// C14 — a dialer whose connections succeed but are refused by its own socket's protocol (a PAIR socket that already has
// a peer) keeps trying like after any other failure; when the place becomes free its next attempt attaches and traffic
// flows without application action.
func runDialerRedialsAfterLocalRefusal(c *Ctx) {
	for _, trn := range []string{"inproc", "tcp"} {
		tr := transportNamed(trn)
		a, _ := pair.NewSocket()
		b, _ := pair.NewSocket()
		s, _ := pair.NewSocket()
		_ = b.SetOption(mangos.OptionRecvDeadline, 3*time.Second)
		_ = s.SetOption(mangos.OptionSendDeadline, 3*time.Second)
		la, erra := a.NewListener(r4addr(tr), nil)
		lb, errb := b.NewListener(r4addr(tr), nil)
		if erra != nil || errb != nil || la.Listen() != nil || lb.Listen() != nil {
			_ = a.Close()
			_ = b.Close()
			_ = s.Close()
			continue
		}
		bad := ""
		if s.Dial(la.Address()) == nil {
			time.Sleep(30 * time.Millisecond)
			opts := map[string]interface{}{mangos.OptionDialAsynch: true, mangos.OptionReconnectTime: 20 * time.Millisecond, mangos.OptionMaxReconnectTime: 20 * time.Millisecond}
			if s.DialOptions(lb.Address(), opts) == nil {
				time.Sleep(120 * time.Millisecond) // several attempts, each refused by the socket's own protocol
				_ = a.Close()                      // the place becomes free
				done := make(chan error, 1)
				go func() {
					time.Sleep(100 * time.Millisecond)
					done <- s.Send([]byte("to b"))
				}()
				got, err := b.Recv()
				if err != nil || string(got) != "to b" {
					bad = fmt.Sprintf("a PAIR socket connected to A; its second dialer (DIAL-ASYNCH, RECONNECT-TIME 20 ms) to B was refused by the socket itself while A was there; A went away; 3 s later B has still received nothing (%v %q): the dialer stopped trying after the refusal", err, got)
				}
			}
		}
		c.Class("dialer-redials-after-local-refusal "+tr.name, true)
		if bad != "" {
			c.Violate("dialer ("+tr.name+"): "+bad, map[string]interface{}{"transport": tr.name})
		}
		_ = s.Close()
		_ = a.Close()
		_ = b.Close()
	}
}

// C09 — mangos.Device itself on every ordered pair of the library's 24 sockets, on every socket alone (loop-back, either
// argument nil), on one socket given twice, and on nil/nil: the error returned and the number of forwarder goroutines
// started, against Model/DevicePlumb.lean (`dev.plumb`).  A cooked wrapper that does not know OptionRaw at all stands
// for the "option fails" branch.
type noRawSock struct{ mangos.Socket }

func (n noRawSock) GetOption(name string) (interface{}, error) {
	if name == mangos.OptionRaw {
		return nil, mangos.ErrBadOption
	}
	return n.Socket.GetOption(name)
}

func runDevicePlumbing(c *Ctx) {
	forwarders := func() int {
		buf := make([]byte, 1<<20)
		return strings.Count(string(buf[:runtime.Stack(buf, true)]), "mangos/v3.forwarder(")
	}
	desc := func(s mangos.Socket) string {
		if s == nil {
			return "-"
		}
		r := "e"
		if v, err := s.GetOption(mangos.OptionRaw); err == nil {
			if b, ok := v.(bool); ok && b {
				r = "t"
			} else {
				r = "f"
			}
		}
		return fmt.Sprintf("%d:%d:%s", s.Info().Self, s.Info().Peer, r)
	}
	// a forwarder whose source socket cannot receive at all (PUB, PUSH) returns at once: it was started but is not seen
	// alive; `gone` says how many of those the call must have started
	one := func(s1, s2 mangos.Socket, same bool, what string, gone int) {
		vp.QuiesceT(2 * time.Second)
		n0 := forwarders()
		err := mangos.Device(s1, s2)
		// forwarders that return at once have gone, the others are parked in RecvMsg
		for try := 0; try < 5 && !vp.QuiesceT(time.Second); try++ {
		}
		n1 := forwarders()
		obs := ""
		switch err {
		case nil:
			obs = fmt.Sprintf("ok:%d", n1-n0+gone)
		case mangos.ErrClosed:
			obs = "closed"
		case mangos.ErrBadProto:
			obs = "badproto"
		case mangos.ErrNotRaw:
			obs = "notraw"
		case mangos.ErrBadOption:
			obs = "opterr"
		default:
			obs = "err:" + strings.ReplaceAll(err.Error(), " ", "_")
		}
		if err == nil {
			for _, sk := range []mangos.Socket{s1, s2} {
				if sk != nil && !strings.HasSuffix(desc(sk), ":t") {
					c.Violate(fmt.Sprintf("Device(%s) succeeded although one of the sockets (%s) is not a raw socket", what, desc(sk)), map[string]interface{}{"pair": what})
				}
			}
			x, y := s1, s2
			if x == nil {
				x = y
			}
			if y == nil {
				y = x
			}
			if x.Info().Self != y.Info().Peer || y.Info().Self != x.Info().Peer {
				c.Violate(fmt.Sprintf("Device(%s) succeeded although the two sockets are not each other's peer protocol", what), map[string]interface{}{"pair": what})
			}
		}
		if err != nil && n1 != n0 {
			c.Violate(fmt.Sprintf("Device(%s) returned %v and still started %d forwarder goroutine(s)", what, err, n1-n0), map[string]interface{}{"pair": what})
		}
		sm := "two"
		if same {
			sm = "same"
		}
		c.Class("device plumbing "+strings.SplitN(obs, ":", 2)[0], true)
		c.T.Line("", fmt.Sprintf("dev.plumb %s %s %s", desc(s1), desc(s2), sm), obs)
	}
	mk := func(k sockKind) mangos.Socket { s, _ := k.mk(); return s }
	g := func(ks ...sockKind) int {
		n := 0
		for _, k := range ks {
			if !k.canRecv {
				n++
			}
		}
		return n
	}
	one(nil, nil, false, "nil, nil", 0)
	for _, a := range allSocks {
		for _, b := range allSocks {
			s1, s2 := mk(a), mk(b)
			one(s1, s2, false, a.name+", "+b.name, g(a, b))
			_ = s1.Close()
			_ = s2.Close()
		}
		s := mk(a)
		one(s, nil, false, a.name+", nil", g(a))
		_ = s.Close()
		s = mk(a)
		one(nil, s, false, "nil, "+a.name, g(a))
		_ = s.Close()
		s = mk(a)
		one(s, s, true, a.name+" twice", g(a))
		_ = s.Close()
		if a.raw {
			// a socket whose OptionRaw cannot be read, on either side of its proper counterpart
			for _, b := range allSocks {
				if b.raw {
					s1, s2 := mk(a), mk(b)
					if s1.Info().Peer == s2.Info().Self {
						one(noRawSock{s1}, s2, false, a.name+" (no OptionRaw), "+b.name, 0)
						_ = s1.Close()
						_ = s2.Close()
						s1, s2 = mk(a), mk(b)
						one(s1, noRawSock{s2}, false, a.name+", "+b.name+" (no OptionRaw)", 0)
					}
					_ = s1.Close()
					_ = s2.Close()
				}
			}
		}
	}
	vp.QuiesceT(time.Second)
	if n := forwarders(); n != 0 {
		c.Violate(fmt.Sprintf("Device: %d forwarder goroutine(s) remain after every socket handed to Device was closed", n), map[string]interface{}{})
	}
}
