package main

// Directed scenarios added for the sixth round of seeded changes.

import (
	"fmt"
	"sync"
	"time"

	"go.nanomsg.org/mangos/v3"
	"go.nanomsg.org/mangos/v3/protocol/bus"
	"go.nanomsg.org/mangos/v3/protocol/pair"
	"go.nanomsg.org/mangos/v3/protocol/xbus"
)

// C08 — a raw BUS forwarder holds a message it received from member A while A leaves and member C joins; when it then
// forwards the message, every member other than the one it came from — B, and C, who is not its origin — must get it.
// (The origin is named in the header by pipe id; a pipe id that is handed to the next connection while messages naming
// it are still around makes the newcomer pass for the origin.)
func runForwardAfterPeerReplaced(c *Ctx) {
	rounds := 6
	if c.Thorough() {
		rounds = 40
	}
	for _, trn := range []string{"inproc", "tcp"} {
		tr := transportNamed(trn)
		fwd, _ := xbus.NewSocket()
		_ = fwd.SetOption(mangos.OptionRecvDeadline, time.Second)
		var mu sync.Mutex
		attached, detached := 0, 0
		fwd.SetPipeEventHook(func(ev mangos.PipeEvent, p mangos.Pipe) {
			mu.Lock()
			if ev == mangos.PipeEventAttached {
				attached++
			}
			if ev == mangos.PipeEventDetached {
				detached++
			}
			mu.Unlock()
		})
		waitFor := func(f func() bool) bool {
			for i := 0; i < 400; i++ {
				mu.Lock()
				ok := f()
				mu.Unlock()
				if ok {
					return true
				}
				time.Sleep(5 * time.Millisecond)
			}
			return false
		}
		l, err := fwd.NewListener(r4addr(tr), nil)
		if err != nil || l.Listen() != nil {
			_ = fwd.Close()
			continue
		}
		member := func() mangos.Socket {
			s, _ := bus.NewSocket()
			_ = s.SetOption(mangos.OptionRecvDeadline, 700*time.Millisecond)
			mu.Lock()
			a0 := attached
			mu.Unlock()
			if s.Dial(l.Address()) != nil || !waitFor(func() bool { return attached > a0 }) {
				_ = s.Close()
				return nil
			}
			return s
		}
		b := member()
		bad := ""
		for r := 0; r < rounds && bad == "" && b != nil; r++ {
			a := member()
			if a == nil {
				break
			}
			body := []byte{'f', 'w', 'd', byte(r)}
			if a.Send(body) != nil {
				_ = a.Close()
				break
			}
			m, err := fwd.RecvMsg()
			if err != nil {
				_ = a.Close()
				break
			}
			mu.Lock()
			d0 := detached
			mu.Unlock()
			_ = a.Close()
			if !waitFor(func() bool { return detached > d0 }) {
				m.Free()
				break
			}
			cm := member()
			if cm == nil {
				m.Free()
				break
			}
			hdr := append([]byte{}, m.Header...)
			if err := fwd.SendMsg(m); err != nil {
				m.Free()
				_ = cm.Close()
				break
			}
			for who, s := range map[string]mangos.Socket{"B (connected throughout)": b, "C (connected after the origin left)": cm} {
				got, err := s.Recv()
				if err != nil || string(got) != string(body) {
					bad = fmt.Sprintf("round %d: a message received from member A (origin header %x) and forwarded after A had left did not reach member %s: %v %q", r, hdr, who, err, got)
				}
			}
			mu.Lock()
			d1 := detached
			mu.Unlock()
			_ = cm.Close()
			waitFor(func() bool { return detached > d1 })
		}
		c.Class("xbus-forward-after-peer-replaced "+tr.name, true)
		if bad != "" {
			c.Violate("xbus forwarder ("+tr.name+"): "+bad, map[string]interface{}{"transport": tr.name,
				"scenario": "raw BUS forwarder listening; cooked BUS members A and B dial; A sends; the forwarder receives the message and keeps it; A closes (Detached seen); member C dials (Attached seen); the forwarder sends the kept message; B and C must both receive it"})
		}
		if b != nil {
			_ = b.Close()
		}
		_ = fwd.Close()
	}
}

// C02, C13 — a PAIR socket's only peer goes away while the socket's event hook is still busy with that peer's Attached
// event; afterwards the place must be free: a second peer connects (its dialer retrying as usual) and its messages
// arrive.  (The departure has to reach the protocol although it happened before the hook returned.)
func runPairPeerLeavesDuringAttachedHook(c *Ctx) {
	for _, trn := range []string{"inproc", "tcp"} {
		tr := transportNamed(trn)
		srv, _ := pair.NewSocket()
		_ = srv.SetOption(mangos.OptionRecvDeadline, 3*time.Second)
		inHook := make(chan struct{}, 4)
		release := make(chan struct{})
		var mu sync.Mutex
		first := true
		srv.SetPipeEventHook(func(ev mangos.PipeEvent, p mangos.Pipe) {
			if ev != mangos.PipeEventAttached {
				return
			}
			mu.Lock()
			f := first
			first = false
			mu.Unlock()
			if f {
				inHook <- struct{}{}
				<-release
			}
		})
		l, err := srv.NewListener(r4addr(tr), nil)
		if err != nil || l.Listen() != nil {
			_ = srv.Close()
			continue
		}
		p1, _ := pair.NewSocket()
		ok := p1.Dial(l.Address()) == nil
		if ok {
			select {
			case <-inHook:
			case <-time.After(2 * time.Second):
				ok = false
			}
		}
		_ = p1.Close()
		time.Sleep(40 * time.Millisecond) // the server side notices the departure while its hook is still running
		close(release)
		bad := ""
		if ok {
			time.Sleep(20 * time.Millisecond)
			p2, _ := pair.NewSocket()
			_ = p2.SetOption(mangos.OptionReconnectTime, 20*time.Millisecond)
			_ = p2.SetOption(mangos.OptionMaxReconnectTime, 20*time.Millisecond)
			_ = p2.SetOption(mangos.OptionDialAsynch, true)
			_ = p2.SetOption(mangos.OptionSendDeadline, 3*time.Second)
			if p2.Dial(l.Address()) == nil {
				done := make(chan error, 1)
				go func() { done <- p2.Send([]byte("second peer")) }()
				got, err := srv.Recv()
				if err != nil || string(got) != "second peer" {
					bad = fmt.Sprintf("the first peer left while the Attached hook for it was still running; a second peer then dialled for 3 s and its message never arrived (%v %q): the place of the peer that had gone was never given up", err, got)
				}
			}
			_ = p2.Close()
		}
		c.Class("pair-peer-leaves-during-attached-hook "+tr.name, true)
		if bad != "" {
			c.Violate("PAIR ("+tr.name+"): "+bad, map[string]interface{}{"transport": tr.name,
				"scenario": "PAIR socket listening with an event hook that lingers in the first Attached event; peer 1 dials, is closed while the hook is running, 40 ms later the hook returns; peer 2 dials (DIAL-ASYNCH, RECONNECT-TIME 20 ms) and sends; the listening socket must receive it"})
		}
		_ = srv.Close()
	}
}

// C14 — a dialer whose connections succeed but are refused by its own socket's protocol (a PAIR socket that already has
// a peer) keeps trying like after any other failure; when the place becomes free its next attempt attaches and traffic
// flows without application action.
func runDialerRedialsAfterLocalRefusal(c *Ctx) {
	for _, trn := range []string{"inproc", "tcp"} {
		tr := transportNamed(trn)
		a, _ := pair.NewSocket()
		b, _ := pair.NewSocket()
		s, _ := pair.NewSocket()
		_ = b.SetOption(mangos.OptionRecvDeadline, 3*time.Second)
		_ = s.SetOption(mangos.OptionSendDeadline, 3*time.Second)
		la, erra := a.NewListener(r4addr(tr), nil)
		lb, errb := b.NewListener(r4addr(tr), nil)
		if erra != nil || errb != nil || la.Listen() != nil || lb.Listen() != nil {
			_ = a.Close()
			_ = b.Close()
			_ = s.Close()
			continue
		}
		bad := ""
		if s.Dial(la.Address()) == nil {
			time.Sleep(30 * time.Millisecond)
			opts := map[string]interface{}{mangos.OptionDialAsynch: true, mangos.OptionReconnectTime: 20 * time.Millisecond, mangos.OptionMaxReconnectTime: 20 * time.Millisecond}
			if s.DialOptions(lb.Address(), opts) == nil {
				time.Sleep(120 * time.Millisecond) // several attempts, each refused by the socket's own protocol
				_ = a.Close()                      // the place becomes free
				done := make(chan error, 1)
				go func() {
					time.Sleep(100 * time.Millisecond)
					done <- s.Send([]byte("to b"))
				}()
				got, err := b.Recv()
				if err != nil || string(got) != "to b" {
					bad = fmt.Sprintf("a PAIR socket connected to A; its second dialer (DIAL-ASYNCH, RECONNECT-TIME 20 ms) to B was refused by the socket itself while A was there; A went away; 3 s later B has still received nothing (%v %q): the dialer stopped trying after the refusal", err, got)
				}
			}
		}
		c.Class("dialer-redials-after-local-refusal "+tr.name, true)
		if bad != "" {
			c.Violate("dialer ("+tr.name+"): "+bad, map[string]interface{}{"transport": tr.name})
		}
		_ = s.Close()
		_ = a.Close()
		_ = b.Close()
	}
}
