package main

// Directed scenarios added for the sixth round of seeded changes.

import (
	"fmt"
	"sync"
	"time"

	"go.nanomsg.org/mangos/v3"
	"go.nanomsg.org/mangos/v3/protocol/bus"
	"go.nanomsg.org/mangos/v3/protocol/xbus"
)

// C08 — a raw BUS forwarder holds a message it received from member A while A leaves and member C joins; when it then
// forwards the message, every member other than the one it came from — B, and C, who is not its origin — must get it.
// (The origin is named in the header by pipe id; a pipe id that is handed to the next connection while messages naming
// it are still around makes the newcomer pass for the origin.)
func runForwardAfterPeerReplaced(c *Ctx) {
	rounds := 6
	if c.Thorough() {
		rounds = 40
	}
	for _, trn := range []string{"inproc", "tcp"} {
		tr := transportNamed(trn)
		fwd, _ := xbus.NewSocket()
		_ = fwd.SetOption(mangos.OptionRecvDeadline, time.Second)
		var mu sync.Mutex
		attached, detached := 0, 0
		fwd.SetPipeEventHook(func(ev mangos.PipeEvent, p mangos.Pipe) {
			mu.Lock()
			if ev == mangos.PipeEventAttached {
				attached++
			}
			if ev == mangos.PipeEventDetached {
				detached++
			}
			mu.Unlock()
		})
		waitFor := func(f func() bool) bool {
			for i := 0; i < 400; i++ {
				mu.Lock()
				ok := f()
				mu.Unlock()
				if ok {
					return true
				}
				time.Sleep(5 * time.Millisecond)
			}
			return false
		}
		l, err := fwd.NewListener(r4addr(tr), nil)
		if err != nil || l.Listen() != nil {
			_ = fwd.Close()
			continue
		}
		member := func() mangos.Socket {
			s, _ := bus.NewSocket()
			_ = s.SetOption(mangos.OptionRecvDeadline, 700*time.Millisecond)
			mu.Lock()
			a0 := attached
			mu.Unlock()
			if s.Dial(l.Address()) != nil || !waitFor(func() bool { return attached > a0 }) {
				_ = s.Close()
				return nil
			}
			return s
		}
		b := member()
		bad := ""
		for r := 0; r < rounds && bad == "" && b != nil; r++ {
			a := member()
			if a == nil {
				break
			}
			body := []byte{'f', 'w', 'd', byte(r)}
			if a.Send(body) != nil {
				_ = a.Close()
				break
			}
			m, err := fwd.RecvMsg()
			if err != nil {
				_ = a.Close()
				break
			}
			mu.Lock()
			d0 := detached
			mu.Unlock()
			_ = a.Close()
			if !waitFor(func() bool { return detached > d0 }) {
				m.Free()
				break
			}
			cm := member()
			if cm == nil {
				m.Free()
				break
			}
			hdr := append([]byte{}, m.Header...)
			if err := fwd.SendMsg(m); err != nil {
				m.Free()
				_ = cm.Close()
				break
			}
			for who, s := range map[string]mangos.Socket{"B (connected throughout)": b, "C (connected after the origin left)": cm} {
				got, err := s.Recv()
				if err != nil || string(got) != string(body) {
					bad = fmt.Sprintf("round %d: a message received from member A (origin header %x) and forwarded after A had left did not reach member %s: %v %q", r, hdr, who, err, got)
				}
			}
			mu.Lock()
			d1 := detached
			mu.Unlock()
			_ = cm.Close()
			waitFor(func() bool { return detached > d1 })
		}
		c.Class("xbus-forward-after-peer-replaced "+tr.name, true)
		if bad != "" {
			c.Violate("xbus forwarder ("+tr.name+"): "+bad, map[string]interface{}{"transport": tr.name,
				"scenario": "raw BUS forwarder listening; cooked BUS members A and B dial; A sends; the forwarder receives the message and keeps it; A closes (Detached seen); member C dials (Attached seen); the forwarder sends the kept message; B and C must both receive it"})
		}
		if b != nil {
			_ = b.Close()
		}
		_ = fwd.Close()
	}
}
