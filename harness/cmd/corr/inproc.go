package main

// The inproc transport's rendezvous (transport/inproc: the process-wide address table, listener.Listen / Accept /
// Close, dialer.Dial / Close) driven step by step against Model/Inproc.lean, machine `m.inproc`.  Accept and Dial are
// blocking calls: each runs in its own goroutine and what has returned is collected at quiescence after every step.
// Where several parked Dials compete for one Accept the model allows every pairing and follows the one observed.
// Every connection made is also used: a message written at one end must arrive whole at the other (header and body
// concatenated, the sender's buffer untouched).  At the end of a scenario, on the real objects: every listener and
// dialer is closed, so no Accept or Dial may still be parked (goroutine census), and every address used can be bound
// again at once.

import (
	"bytes"
	"fmt"
	"runtime"
	"sort"
	"strings"
	"time"

	"go.nanomsg.org/mangos/v3"
	"go.nanomsg.org/mangos/v3/protocol/pair"
	"go.nanomsg.org/mangos/v3/protocol/rep"
	"go.nanomsg.org/mangos/v3/protocol/req"
	"go.nanomsg.org/mangos/v3/transport"

	"verifharness/vp"
)

type iprocRes struct {
	call int
	p    transport.Pipe
	err  error
	dial bool
}

func iprocErr(err error) string {
	switch err {
	case nil:
		return "ok"
	case mangos.ErrClosed:
		return "closed"
	case mangos.ErrConnRefused:
		return "refused"
	case mangos.ErrBadProto:
		return "badproto"
	case mangos.ErrAddrInUse:
		return "addrinuse"
	}
	return "err:" + strings.ReplaceAll(err.Error(), " ", "_")
}

func runInprocRendezvous(c *Ctx) {
	n := 40
	if c.Thorough() {
		n = 1200
	}
	tr := transport.GetTransport("inproc")
	if tr == nil {
		c.Rep.Notes = append(c.Rep.Notes, "inproc transport not registered")
		return
	}
	sp, _ := pair.NewSocket()
	sq, _ := req.NewSocket()
	sr, _ := rep.NewSocket()
	defer func() { _ = sp.Close(); _ = sq.Close(); _ = sr.Close() }()
	socks := []mangos.Socket{sp, sq, sr}
	for sc := 0; sc < n; sc++ {
		runInprocScenario(c, tr, socks, sc)
	}
}

func runInprocScenario(c *Ctx, tr transport.Transport, socks []mangos.Socket, sc int) {
	c.T.Line("inproc new", "m.inproc new", "-")
	type lst struct {
		id, addr int
		sock     mangos.Socket
		l        transport.Listener
		closed   bool
		bound    bool
	}
	type dlr struct {
		id, addr int
		sock     mangos.Socket
		d        transport.Dialer
		closed   bool
	}
	addrName := func(a int) string { return fmt.Sprintf("inproc://verif-rendezvous-%d-%d-%d", c.Seed, sc, a) }
	var ls []*lst
	var ds []*dlr
	resCh := make(chan iprocRes, 64)
	parked := 0
	var hist []string
	var pipes []transport.Pipe
	dialOf := map[int]int{} // outstanding Dial call -> dialer id
	// mostly one protocol pairing (pair/pair), sometimes req/rep so that both bad-protocol and matching pairs occur
	pickSock := func() mangos.Socket {
		k := c.R.Intn(10)
		switch {
		case k < 6:
			return socks[0]
		case k < 8:
			return socks[1]
		}
		return socks[2]
	}
	observe := func() (string, []iprocRes) {
		if !vp.QuiesceT(2 * time.Second) {
			time.Sleep(20 * time.Millisecond)
		}
		var rets []iprocRes
	drain:
		for {
			select {
			case r := <-resCh:
				rets = append(rets, r)
			default:
				break drain
			}
		}
		sort.Slice(rets, func(i, j int) bool { return rets[i].call < rets[j].call })
		var toks []string
		for _, r := range rets {
			parked--
			delete(dialOf, r.call)
			if r.err == nil && r.p != nil {
				toks = append(toks, fmt.Sprintf("ret:%d:conn", r.call))
				pipes = append(pipes, r.p)
			} else {
				toks = append(toks, fmt.Sprintf("ret:%d:%s", r.call, iprocErr(r.err)))
			}
		}
		return strings.Join(toks, " "), rets
	}
	checkConn := func(a, b transport.Pipe, what string) {
		// a message written at one end arrives whole at the other
		for dir := 0; dir < 2; dir++ {
			src, dst := a, b
			if dir == 1 {
				src, dst = b, a
			}
			m := mangos.NewMessage(16)
			m.Header = append(m.Header, byte(0x80+dir), 1, 2, 3)
			body := []byte(fmt.Sprintf("rv-%d-%d-%s", sc, dir, what))
			m.Body = append(m.Body, body...)
			want := append(append([]byte{}, m.Header...), m.Body...)
			errCh := make(chan error, 1)
			go func() { errCh <- src.Send(m) }()
			got := make(chan *mangos.Message, 1)
			go func() {
				r, err := dst.Recv()
				if err != nil {
					got <- nil
					return
				}
				got <- r
			}()
			select {
			case r := <-got:
				if r == nil || !bytes.Equal(r.Body, want) || len(r.Header) != 0 {
					var gb []byte
					if r != nil {
						gb = r.Body
					}
					c.Violate(fmt.Sprintf("inproc: a message written on a fresh connection (%s, direction %d) did not arrive as header||body: got %x want %x", what, dir, gb, want),
						map[string]interface{}{"history": hist})
				}
				if !bytes.Equal(m.Body, body) || len(m.Header) != 4 {
					c.Violate("inproc: Send changed the sender's message", map[string]interface{}{"history": hist})
				}
				if r != nil {
					r.Free()
				}
				<-errCh
			case <-time.After(2 * time.Second):
				c.Violate(fmt.Sprintf("inproc: the two pipes returned by one Accept and one Dial (%s) are not connected to each other: a message written on one is not read on the other within 2 s", what),
					map[string]interface{}{"history": hist})
				_ = src.Close()
				_ = dst.Close()
			}
			m.Free()
		}
	}
	line := func(op string, pre string) {
		obs, rets := observe()
		if pre != "" {
			if obs == "" {
				obs = pre
			} else {
				obs = pre + " " + obs
			}
		}
		if obs == "" {
			obs = "-"
		}
		hist = append(hist, op+" => "+obs)
		f := strings.Fields(op)
		shape := strings.Join(strings.FieldsFunc(obs, func(r rune) bool { return r >= '0' && r <= '9' }), "")
		c.Class(fmt.Sprintf("inproc %s %s", f[0], shape), true)
		c.T.Line("inproc "+f[0], "m.inproc "+op, obs)
		var conns []iprocRes
		for _, r := range rets {
			if r.err == nil && r.p != nil {
				conns = append(conns, r)
			}
		}
		if len(conns) == 2 && conns[0].dial != conns[1].dial {
			checkConn(conns[0].p, conns[1].p, fmt.Sprintf("calls %d and %d", conns[0].call, conns[1].call))
		} else if len(conns) != 0 {
			c.Violate(fmt.Sprintf("inproc: one step returned %d connection end(s) that are not one Accept and one Dial", len(conns)),
				map[string]interface{}{"history": hist})
		}
	}
	nextCall := 1
	steps := 8 + c.R.Intn(24)
	info := func(s mangos.Socket) (int, int) { return int(s.Info().Self), int(s.Info().Peer) }
	newL := func() {
		sock := pickSock()
		a := 1 + c.R.Intn(2)
		if l, err := tr.NewListener(addrName(a), sock); err == nil {
			ls = append(ls, &lst{id: len(ls) + 1, addr: a, sock: sock, l: l})
		}
	}
	newD := func() {
		sock := pickSock()
		a := 1 + c.R.Intn(2)
		if len(ls) > 0 && c.R.Intn(10) < 7 {
			// mostly a dialer that fits an existing listener: same address, the peer's protocol
			l := ls[c.R.Intn(len(ls))]
			a = l.addr
			switch l.sock {
			case socks[1]:
				sock = socks[2]
			case socks[2]:
				sock = socks[1]
			default:
				sock = socks[0]
			}
		}
		if d, err := tr.NewDialer(addrName(a), sock); err == nil {
			ds = append(ds, &dlr{id: len(ds) + 1, addr: a, sock: sock, d: d})
		}
	}
	newL()
	newD()
	if c.R.Intn(2) == 0 {
		newL()
	}
	if c.R.Intn(2) == 0 {
		newD()
	}
	openL := func() *lst {
		// mostly a listener that is still open
		for try := 0; try < 3; try++ {
			l := ls[c.R.Intn(len(ls))]
			if !l.closed {
				return l
			}
		}
		return ls[c.R.Intn(len(ls))]
	}
	openD := func() *dlr {
		for try := 0; try < 3; try++ {
			d := ds[c.R.Intn(len(ds))]
			if !d.closed {
				return d
			}
		}
		return ds[c.R.Intn(len(ds))]
	}
	for st := 0; st < steps; st++ {
		k := c.R.Intn(40)
		switch {
		case k < 2 && len(ls) < 5:
			newL()
		case k < 4 && len(ds) < 5:
			newD()
		case k < 10:
			l := openL()
			sf, pr := info(l.sock)
			err := l.l.Listen()
			if err == nil {
				l.bound = true
			}
			line(fmt.Sprintf("listen %d %d %d %d", l.id, l.addr, sf, pr), "res:"+iprocErr(err))
		case k < 22 && parked < 6:
			l := openL()
			for try := 0; try < 3 && !l.bound; try++ { // mostly a listener that is listening
				l = openL()
			}
			call := nextCall
			nextCall++
			parked++
			go func() {
				p, err := l.l.Accept()
				resCh <- iprocRes{call, p, err, false}
			}()
			line(fmt.Sprintf("accept %d %d", l.id, call), "")
		case k < 35 && parked < 6:
			d := openD()
			sf, pr := info(d.sock)
			call := nextCall
			nextCall++
			parked++
			dialOf[call] = d.id
			go func() {
				p, err := d.d.Dial()
				resCh <- iprocRes{call, p, err, true}
			}()
			line(fmt.Sprintf("dial %d %d %d %d %d", d.id, call, d.addr, sf, pr), "")
		case k < 38:
			l := ls[c.R.Intn(len(ls))]
			err := l.l.Close()
			l.closed = true
			line(fmt.Sprintf("closel %d", l.id), "res:"+iprocErr(err))
		default:
			d := ds[c.R.Intn(len(ds))]
			for _, id := range dialOf { // mostly a dialer with a Dial waiting
				if c.R.Intn(3) != 0 {
					d = ds[id-1]
				}
				break
			}
			cl, ok := d.d.(interface{ Close() error })
			if !ok {
				c.Rep.Notes = append(c.Rep.Notes, "inproc dialer has no Close")
				continue
			}
			err := cl.Close()
			d.closed = true
			line(fmt.Sprintf("closed %d", d.id), "res:"+iprocErr(err))
		}
	}
	for _, l := range ls {
		err := l.l.Close()
		line(fmt.Sprintf("closel %d", l.id), "res:"+iprocErr(err))
	}
	for _, d := range ds {
		if cl, ok := d.d.(interface{ Close() error }); ok {
			err := cl.Close()
			line(fmt.Sprintf("closed %d", d.id), "res:"+iprocErr(err))
		}
	}
	// on the real objects: nothing is parked any more, every address is free again
	buf := make([]byte, 1<<20)
	stacks := string(buf[:runtime.Stack(buf, true)])
	na := strings.Count(stacks, "transport/inproc.(*listener).Accept")
	nd := strings.Count(stacks, "transport/inproc.(*dialer).Dial")
	if na+nd > 0 || parked != 0 {
		c.Violate(fmt.Sprintf("inproc: after every listener and dialer was closed %d Accept and %d Dial goroutine(s) are still parked (%d call(s) never returned)", na, nd, parked),
			map[string]interface{}{"history": hist})
	}
	for a := 1; a <= 2; a++ {
		l, err := tr.NewListener(addrName(a), socks[0])
		if err != nil {
			continue
		}
		if err := l.Listen(); err != nil {
			c.Violate(fmt.Sprintf("inproc: after every listener at %s was closed a fresh Listen there fails: %v", addrName(a), err),
				map[string]interface{}{"history": hist})
		}
		_ = l.Close()
	}
	for _, p := range pipes {
		_ = p.Close()
	}
}

// An established inproc connection (inproc.Send / Recv / Close) against Model/InprocPipe.lean, machine `m.ipipe`: Sends
// and Recvs at both ends run in goroutines, results are collected at quiescence after every step.  End 0 is the
// accepting side, end 1 the dialling side; `dir` is the end a message is sent from.
func runInprocPipes(c *Ctx) {
	n := 30
	if c.Thorough() {
		n = 800
	}
	tr := transport.GetTransport("inproc")
	sp, _ := pair.NewSocket()
	defer sp.Close()
	for sc := 0; sc < n; sc++ {
		addr := fmt.Sprintf("inproc://verif-ipipe-%d-%d", c.Seed, sc)
		l, err1 := tr.NewListener(addr, sp)
		d, err2 := tr.NewDialer(addr, sp)
		if err1 != nil || err2 != nil || l.Listen() != nil {
			continue
		}
		accCh := make(chan transport.Pipe, 1)
		go func() { p, _ := l.Accept(); accCh <- p }()
		time.Sleep(time.Millisecond)
		cp, err := d.Dial()
		spipe := <-accCh
		if err != nil || spipe == nil {
			_ = l.Close()
			continue
		}
		ends := []transport.Pipe{spipe, cp}
		c.T.Line("inproc pipe new", "m.ipipe new", "-")
		type res struct {
			call int
			obs  string
		}
		resCh := make(chan res, 64)
		parked := 0
		var hist []string
		line := func(op, pre string) {
			if !vp.QuiesceT(2 * time.Second) {
				time.Sleep(20 * time.Millisecond)
			}
			var rets []res
		drain:
			for {
				select {
				case r := <-resCh:
					rets = append(rets, r)
				default:
					break drain
				}
			}
			sort.Slice(rets, func(i, j int) bool { return rets[i].call < rets[j].call })
			toks := []string{}
			if pre != "" {
				toks = append(toks, pre)
			}
			for _, r := range rets {
				parked--
				toks = append(toks, fmt.Sprintf("ret:%d:%s", r.call, r.obs))
			}
			obs := strings.Join(toks, " ")
			if obs == "" {
				obs = "-"
			}
			hist = append(hist, op+" => "+obs)
			shape := strings.Join(strings.FieldsFunc(obs, func(r rune) bool { return (r >= '0' && r <= '9') || (r >= 'a' && r <= 'f' && false) }), "")
			if i := strings.Index(shape, "msg:"); i >= 0 {
				shape = shape[:i] + "msg"
			}
			c.Class("inproc pipe "+strings.Fields(op)[0]+" "+shape, true)
			c.T.Line("inproc pipe "+strings.Fields(op)[0], "m.ipipe "+op, obs)
		}
		call := 0
		closed := false
		steps := 6 + c.R.Intn(16)
		for st := 0; st < steps; st++ {
			k := c.R.Intn(20)
			switch {
			case k < 9 && parked < 6:
				dir := c.R.Intn(2)
				call++
				parked++
				m := mangos.NewMessage(16)
				if c.R.Intn(2) == 0 {
					m.Header = append(m.Header, 0x80, byte(sc), byte(call), 1)
				}
				m.Body = append(m.Body, c.R.Bytes(c.R.Intn(5))...)
				h, b := vp.Hex(m.Header), vp.Hex(m.Body)
				keepH, keepB := append([]byte{}, m.Header...), append([]byte{}, m.Body...)
				cl := call
				go func() {
					err := ends[dir].Send(m)
					o := "ok"
					if err != nil {
						o = iprocErr(err)
					}
					if !bytes.Equal(m.Header, keepH) || !bytes.Equal(m.Body, keepB) {
						o = "sender-message-changed"
					}
					m.Free()
					resCh <- res{cl, o}
				}()
				line(fmt.Sprintf("send %d %d %s %s", dir, cl, h, b), "")
			case k < 18 && parked < 6:
				dir := c.R.Intn(2)
				call++
				parked++
				cl := call
				go func() {
					m, err := ends[1-dir].Recv()
					if err != nil {
						resCh <- res{cl, iprocErr(err)}
						return
					}
					o := "msg:" + vp.Hex(m.Body)
					if len(m.Header) != 0 {
						o = "msg-with-header:" + vp.Hex(m.Header)
					}
					m.Free()
					resCh <- res{cl, o}
				}()
				line(fmt.Sprintf("recv %d %d", dir, cl), "")
			case k >= 18 && (st > 3 || closed):
				e := c.R.Intn(2)
				_ = ends[e].Close()
				closed = true
				line(fmt.Sprintf("close %d", e), "res:ok")
			}
		}
		_ = ends[0].Close()
		line("close 0", "res:ok")
		if parked != 0 {
			c.Violate(fmt.Sprintf("inproc pipe: %d Send / Recv call(s) still blocked after the connection was closed", parked), map[string]interface{}{"history": hist})
		}
		_ = ends[1].Close()
		_ = l.Close()
	}
}
