package main

// Byte-level correspondence for C01 (framing round trips, pool), C15 (SP mappings) and C16 (hostile peers):
// the real transport/conn.go and connipc_posix.go code is driven through the public
// NewConnPipe/NewConnPipeIPC/NewConnHandshaker API over in-memory net.Pipe connections, where every
// Write of the raw peer is one fragment seen by the implementation's Reads.

import (
	"encoding/binary"
	"fmt"
	"io"
	"net"
	"strings"
	"time"

	"go.nanomsg.org/mangos/v3"
	"go.nanomsg.org/mangos/v3/transport"
	"verifharness/vp"
)

type protoNum struct {
	name       string
	self, peer uint16
	peerName   string
}

var protoNums = []protoNum{
	{"pair", mangos.ProtoPair, mangos.ProtoPair, "pair"}, {"pair1", mangos.ProtoPair1, mangos.ProtoPair1, "pair1"},
	{"pub", mangos.ProtoPub, mangos.ProtoSub, "sub"}, {"sub", mangos.ProtoSub, mangos.ProtoPub, "pub"},
	{"req", mangos.ProtoReq, mangos.ProtoRep, "rep"}, {"rep", mangos.ProtoRep, mangos.ProtoReq, "req"},
	{"push", mangos.ProtoPush, mangos.ProtoPull, "pull"}, {"pull", mangos.ProtoPull, mangos.ProtoPush, "push"},
	{"surveyor", mangos.ProtoSurveyor, mangos.ProtoRespondent, "respondent"}, {"respondent", mangos.ProtoRespondent, mangos.ProtoSurveyor, "surveyor"},
	{"bus", mangos.ProtoBus, mangos.ProtoBus, "bus"}, {"star", mangos.ProtoStar, mangos.ProtoStar, "star"},
}

func spHeader(proto uint16) []byte {
	return []byte{0, 'S', 'P', 0, byte(proto >> 8), byte(proto), 0, 0}
}

// the harness's own (independent) encoder of the stream mapping
func frame(ipc bool, payload []byte) []byte {
	var b []byte
	if ipc {
		b = append(b, 1)
	}
	l := make([]byte, 8)
	binary.BigEndian.PutUint64(l, uint64(len(payload)))
	b = append(b, l...)
	return append(b, payload...)
}

type connRig struct {
	tp  transport.Pipe
	raw net.Conn
	err error
	got []byte // the 8 bytes mangos wrote during the handshake
}

// handshakeRig connects a mangos conn pipe (self/peer) with a raw peer that answers with `answer`
// (possibly in fragments); returns the handshake outcome.
func handshakeRig(ipc bool, pn protoNum, maxrx int, answer [][]byte, closeAfter bool) *connRig {
	a, b := net.Pipe()
	info := transport.ProtocolInfo{Self: pn.self, Peer: pn.peer, SelfName: pn.name, PeerName: pn.peerName}
	var cp transport.ConnPipe
	if ipc {
		cp = transport.NewConnPipeIPC(a, info)
	} else {
		cp = transport.NewConnPipe(a, info)
	}
	cp.SetOption(mangos.OptionMaxRecvSize, maxrx)
	hs := transport.NewConnHandshaker()
	r := &connRig{raw: b}
	done := make(chan struct{})
	go func() {
		defer close(done)
		buf := make([]byte, 8)
		_ = b.SetDeadline(time.Now().Add(3 * time.Second))
		if _, err := io.ReadFull(b, buf); err == nil {
			r.got = buf
		}
		for _, f := range answer {
			if _, err := b.Write(f); err != nil {
				break
			}
		}
		if closeAfter {
			_ = b.Close()
		}
		_ = b.SetDeadline(time.Time{})
	}()
	hs.Start(cp)
	type res struct {
		p transport.Pipe
		e error
	}
	ch := make(chan res, 1)
	go func() {
		p, e := hs.Wait()
		ch <- res{p, e}
	}()
	select {
	case x := <-ch:
		r.tp, r.err = x.p, x.e
	case <-time.After(4 * time.Second):
		r.err = fmt.Errorf("handshake-hung")
		hs.Close()
	}
	<-done
	return r
}

func hsErrName(e error) string {
	switch e {
	case nil:
		return "ok"
	case mangos.ErrBadHeader:
		return "ErrBadHeader"
	case mangos.ErrBadVersion:
		return "ErrBadVersion"
	case mangos.ErrBadProto:
		return "ErrBadProto"
	}
	if e.Error() == "handshake-hung" {
		return "hung"
	}
	return "short"
}

func fragments(r *vp.Rand, b []byte, mode int) [][]byte {
	switch mode {
	case 0:
		return [][]byte{b}
	case 1: // byte by byte for the first 12 bytes, then the rest
		var out [][]byte
		i := 0
		for ; i < len(b) && i < 12; i++ {
			out = append(out, b[i:i+1])
		}
		if i < len(b) {
			out = append(out, b[i:])
		}
		return out
	default: // random cut points
		var out [][]byte
		for len(b) > 0 {
			n := 1 + r.Intn(9)
			if r.Intn(3) == 0 {
				n = 1 + r.Intn(len(b))
			}
			if n > len(b) {
				n = len(b)
			}
			out = append(out, b[:n])
			b = b[n:]
		}
		return out
	}
}

// recvAll feeds `stream` (in fragments) to an established conn pipe, closes the raw side, and collects
// what Recv returns until it fails.
func recvAll(c *Ctx, ipc bool, maxrx int, stream []byte, fragMode int) (payloads [][]byte, end string) {
	pn := protoNums[0]
	r := handshakeRig(ipc, pn, maxrx, [][]byte{spHeader(pn.peer)}, false)
	if r.err != nil {
		return nil, "handshake-failed"
	}
	go func() {
		for _, f := range fragments(c.R, stream, fragMode) {
			if _, err := r.raw.Write(f); err != nil {
				return
			}
		}
		_ = r.raw.Close()
	}()
	type res struct {
		m *mangos.Message
		e error
	}
	for {
		ch := make(chan res, 1)
		go func() {
			m, e := r.tp.Recv()
			ch <- res{m, e}
		}()
		select {
		case x := <-ch:
			if x.e != nil {
				_ = r.tp.Close()
				_ = r.raw.Close()
				switch {
				case x.e == mangos.ErrTooLong:
					return payloads, "dropped"
				case x.e == io.EOF || x.e == io.ErrUnexpectedEOF:
					return payloads, "eof"
				default:
					return payloads, "error:" + x.e.Error()
				}
			}
			if len(x.m.Header) != 0 {
				end = "header-not-empty"
			}
			payloads = append(payloads, append([]byte{}, x.m.Body...))
			x.m.Free()
		case <-time.After(4 * time.Second):
			_ = r.tp.Close()
			_ = r.raw.Close()
			return payloads, "hung"
		}
	}
}

// sendAll has mangos Send the messages and returns the bytes the raw peer read.
func sendAll(ipc bool, msgs [][2][]byte) ([]byte, string) {
	pn := protoNums[0]
	r := handshakeRig(ipc, pn, 0, [][]byte{spHeader(pn.peer)}, false)
	if r.err != nil {
		return nil, "handshake-failed"
	}
	out := make(chan []byte, 1)
	go func() {
		b, _ := io.ReadAll(r.raw)
		out <- b
	}()
	for _, hb := range msgs {
		m := mangos.NewMessage(len(hb[1]))
		m.Header = append(m.Header, hb[0]...)
		m.Body = append(m.Body, hb[1]...)
		if err := r.tp.Send(m); err != nil {
			return nil, "send-error:" + err.Error()
		}
	}
	_ = r.tp.Close()
	select {
	case b := <-out:
		return b, ""
	case <-time.After(4 * time.Second):
		return nil, "reader-hung"
	}
}

func joinHex(ps [][]byte) string {
	s := make([]string, len(ps))
	for i, p := range ps {
		s[i] = vp.Hex(p)
	}
	return strings.Join(s, ",")
}

var boundaryLens = []int{0, 1, 3, 4, 5, 31, 32, 33, 63, 64, 65, 127, 128, 129, 255, 256, 257, 511, 512, 513, 1023, 1024, 1025, 4095, 4096, 4097, 8191, 8192, 8193}

func patterned(seed uint64, n int) []byte {
	b := make([]byte, n)
	x := seed*2654435761 + 12345
	for i := range b {
		x = x*6364136223846793005 + 1442695040888963407
		b[i] = byte(x >> 33)
	}
	return b
}

// ---- scenario groups -------------------------------------------------------------------------

// framing round trips, both directions, tcp-style and ipc-style, with fragmentation (C01, C15)
func wireFraming(c *Ctx, n int) {
	for i := 0; i < n; i++ {
		ipc := i%2 == 1
		k := 1 + c.R.Intn(4)
		var stream []byte
		var sizes []string
		maxrx := 0
		if c.R.Intn(3) == 0 {
			maxrx = c.R.Pick(64, 128, 1000, 4096)
		}
		for j := 0; j < k; j++ {
			l := boundaryLens[c.R.Intn(len(boundaryLens))]
			if c.R.Intn(4) == 0 {
				l = c.R.Intn(300)
			}
			if maxrx > 0 {
				switch c.R.Intn(4) {
				case 0:
					l = maxrx
				case 1:
					l = maxrx - 1
				default:
					if l > maxrx {
						l = l % (maxrx + 1)
					}
				}
			}
			stream = append(stream, frame(ipc, patterned(c.R.U64(), l))...)
			sizes = append(sizes, fmt.Sprint(l))
		}
		fm := c.R.Intn(3)
		ps, end := recvAll(c, ipc, maxrx, stream, fm)
		class := fmt.Sprintf("recv ipc=%v n=%d frag=%d limit=%v end=%s", ipc, k, fm, maxrx > 0, end)
		c.Class(class, true)
		c.T.Line(class, fmt.Sprintf("wire.dec %d %d %s", b2i(ipc), maxrx, vp.Hex(stream)), joinHex(ps)+";"+end)
		if end != "eof" || len(ps) != k {
			c.Violate(fmt.Sprintf("well-formed in-limit frames (ipc=%v, sizes %v, maxrx %d, fragmentation mode %d) were not received one-to-one: got %d messages, stream ended %q",
				ipc, sizes, maxrx, fm, len(ps), end), map[string]interface{}{"ipc": ipc, "maxrx": maxrx, "stream": vp.Hex(stream), "frag": fm})
		}
	}
	// send direction
	for i := 0; i < n/2+1; i++ {
		ipc := i%2 == 1
		k := 1 + c.R.Intn(3)
		var msgs [][2][]byte
		for j := 0; j < k; j++ {
			h := c.R.Bytes(c.R.Pick(0, 0, 4, 8, 12))
			b := patterned(c.R.U64(), boundaryLens[c.R.Intn(len(boundaryLens))])
			if c.R.Intn(3) == 0 {
				b = patterned(c.R.U64(), 250+c.R.Intn(12))
			}
			msgs = append(msgs, [2][]byte{h, b})
		}
		got, note := sendAll(ipc, msgs)
		if note != "" {
			c.Violate("conn.Send: "+note, map[string]interface{}{"ipc": ipc})
			continue
		}
		// compare frame by frame with the model's encoder
		off := 0
		for _, hb := range msgs {
			want := len(frame(ipc, append(append([]byte{}, hb[0]...), hb[1]...)))
			end := off + want
			if end > len(got) {
				end = len(got)
			}
			class := fmt.Sprintf("send ipc=%v hdr=%d bodyclass=%d", ipc, len(hb[0]), lenClass(len(hb[1])))
			c.Class(class, true)
			c.T.Line(class, fmt.Sprintf("wire.enc %d %s %s", b2i(ipc), vp.Hex(hb[0]), vp.Hex(hb[1])), vp.Hex(got[off:end]))
			off = end
		}
		if off != len(got) {
			c.Violate(fmt.Sprintf("conn.Send wrote %d bytes, the SP mapping gives %d", len(got), off), map[string]interface{}{"ipc": ipc})
		}
	}
}

func lenClass(n int) int {
	c := 0
	for _, b := range []int{64, 128, 256, 512, 1024, 4096, 8192, 65536} {
		if n >= b {
			c++
		}
	}
	return c
}

func b2i(b bool) int {
	if b {
		return 1
	}
	return 0
}

// handshake: every protocol number, and deviations (C15, C16)
func wireHandshake(c *Ctx, allDeviations bool) {
	for _, pn := range protoNums {
		for _, ipc := range []bool{false, true} {
			r := handshakeRig(ipc, pn, 0, fragments(c.R, spHeader(pn.peer), c.R.Intn(3)), false)
			class := fmt.Sprintf("hs-ok %s ipc=%v", pn.name, ipc)
			c.Class(class, true)
			c.T.Line(class, fmt.Sprintf("hs.hdr %d", pn.self), vp.Hex(r.got))
			c.T.Line("", fmt.Sprintf("hs.chk %d %s", pn.peer, vp.Hex(spHeader(pn.peer))), hsErrName(r.err))
			if r.err != nil {
				c.Violate(fmt.Sprintf("%s: a well-formed handshake naming the expected peer was refused: %v", pn.name, r.err), map[string]interface{}{"proto": pn.name, "ipc": ipc})
			}
			if r.tp != nil {
				_ = r.tp.Close()
			}
			_ = r.raw.Close()
		}
	}
	// deviations
	pns := []protoNum{protoNums[4], protoNums[11], protoNums[0]}
	for _, pn := range pns {
		good := spHeader(pn.peer)
		for pos := 0; pos < 8; pos++ {
			var vals []int
			if allDeviations {
				for v := 0; v < 256; v++ {
					vals = append(vals, v)
				}
			} else {
				vals = []int{int(good[pos]) ^ 1, int(good[pos]) ^ 0x80, c.R.Intn(256), 0xff}
			}
			for _, v := range vals {
				if byte(v) == good[pos] {
					continue
				}
				h := append([]byte{}, good...)
				h[pos] = byte(v)
				r := handshakeRig(pos%2 == 1, pn, 0, [][]byte{h}, false)
				got := hsErrName(r.err)
				class := fmt.Sprintf("hs-dev pos=%d %s", pos, got)
				c.Class(class, true)
				c.T.Line(class, fmt.Sprintf("hs.chk %d %s", pn.peer, vp.Hex(h)), got)
				if r.err == nil {
					c.Violate(fmt.Sprintf("handshake header with byte %d changed to %#02x (%s) was accepted as protocol %s's peer", pos, v, vp.Hex(h), pn.name),
						map[string]interface{}{"proto": pn.name, "header": vp.Hex(h)})
					_ = r.tp.Close()
				}
				_ = r.raw.Close()
			}
		}
	}
	// wrong peer protocol numbers (every other protocol) and truncated headers
	pn := protoNums[4]
	for _, other := range protoNums {
		if other.self == pn.peer {
			continue
		}
		h := spHeader(other.self)
		r := handshakeRig(false, pn, 0, [][]byte{h}, false)
		got := hsErrName(r.err)
		c.Class("hs-wrongproto "+got, true)
		c.T.Line("hs-wrongproto "+got, fmt.Sprintf("hs.chk %d %s", pn.peer, vp.Hex(h)), got)
		if r.err == nil {
			c.Violate(fmt.Sprintf("req accepted a peer announcing protocol %s", other.name), map[string]interface{}{"header": vp.Hex(h)})
			_ = r.tp.Close()
		}
		_ = r.raw.Close()
	}
	for n := 0; n < 8; n++ {
		h := spHeader(pn.peer)[:n]
		r := handshakeRig(false, pn, 0, [][]byte{h}, true)
		got := hsErrName(r.err)
		c.Class(fmt.Sprintf("hs-trunc %d %s", n, got), true)
		c.T.Line("", fmt.Sprintf("hs.chk %d %s", pn.peer, vp.Hex(h)), got)
		if r.err == nil {
			c.Violate(fmt.Sprintf("a %d-byte handshake was accepted", n), map[string]interface{}{"header": vp.Hex(h)})
		}
		_ = r.raw.Close()
	}
}

// hostile streams: bad lengths, truncation, limits (C16)
func wireHostile(c *Ctx, n int) {
	mk := func(l uint64) []byte {
		b := make([]byte, 8)
		binary.BigEndian.PutUint64(b, l)
		return b
	}
	type tc struct {
		name   string
		ipc    bool
		maxrx  int
		stream []byte
	}
	var cases []tc
	for _, ipc := range []bool{false, true} {
		pre := []byte{}
		if ipc {
			pre = []byte{1}
		}
		good := frame(ipc, []byte("ok"))
		for _, maxrx := range []int{0, 1, 64, 100, 65536, 1 << 20} {
			lens := []uint64{0xffffffffffffffff, 0x8000000000000000, 0x7fffffffffffffff, 1 << 40, 1 << 32}
			if maxrx > 0 {
				lens = append(lens, uint64(maxrx)+1, uint64(maxrx)+2)
			}
			for _, l := range lens {
				if maxrx == 0 && l < 1<<63 {
					continue // unlimited: would allocate; not a refusal case
				}
				s := append(append(append([]byte{}, good...), pre...), mk(l)...)
				s = append(s, []byte("tail-bytes")...)
				cases = append(cases, tc{fmt.Sprintf("len=%#x", l), ipc, maxrx, s})
			}
			if maxrx > 0 && maxrx <= 65536 {
				// exactly at the limit: delivered; one over: refused
				small := frame(ipc, []byte("k"))
				cases = append(cases, tc{"at-limit", ipc, maxrx, append(frame(ipc, patterned(7, maxrx)), small...)})
				cases = append(cases, tc{"over-limit", ipc, maxrx, append(frame(ipc, patterned(7, maxrx+1)), small...)})
			}
		}
		// truncation at every offset of a two-frame stream
		two := append(frame(ipc, []byte("hello")), frame(ipc, []byte("world!"))...)
		for cut := 0; cut < len(two); cut++ {
			cases = append(cases, tc{fmt.Sprintf("trunc@%d", cut), ipc, 0, two[:cut]})
		}
	}
	for i := 0; i < n; i++ {
		// random mutation of a valid stream
		ipc := c.R.Intn(2) == 1
		s := append(frame(ipc, c.R.Bytes(c.R.Intn(20))), frame(ipc, c.R.Bytes(c.R.Intn(20)))...)
		for j := 0; j < 1+c.R.Intn(2); j++ {
			s[c.R.Intn(len(s))] = byte(c.R.U64())
		}
		cases = append(cases, tc{"mutated", ipc, c.R.Pick(0, 16, 64), s})
	}
	for _, t := range cases {
		if t.name == "mutated" && t.maxrx == 0 {
			// an unlimited receiver may be asked for a huge allocation by a mutated length: keep it bounded
			t.maxrx = 1 << 16
		}
		ps, end := recvAll(c, t.ipc, t.maxrx, t.stream, c.R.Intn(3))
		cls := t.name
		if strings.HasPrefix(cls, "trunc@") {
			cls = "trunc"
		}
		class := fmt.Sprintf("hostile %s ipc=%v end=%s n=%d", cls, t.ipc, end, len(ps))
		c.Class(class, true)
		c.T.Line(class, fmt.Sprintf("wire.dec %d %d %s", b2i(t.ipc), t.maxrx, vp.Hex(t.stream)), joinHex(ps)+";"+end)
		if end == "hung" {
			c.Violate("receiver hung on hostile stream "+t.name, map[string]interface{}{"ipc": t.ipc, "maxrx": t.maxrx, "stream": vp.Hex(t.stream)})
		}
		if t.name == "at-limit" && (len(ps) != 2 || end != "eof") {
			c.Violate(fmt.Sprintf("a message whose size equals the receive limit %d was not delivered (ipc=%v): %d delivered, end %s", t.maxrx, t.ipc, len(ps), end),
				map[string]interface{}{"ipc": t.ipc, "maxrx": t.maxrx})
		}
		if t.name == "over-limit" && (len(ps) != 0 || end != "dropped") {
			c.Violate(fmt.Sprintf("a message one byte over the receive limit %d was not refused (ipc=%v): %d delivered, end %s", t.maxrx, t.ipc, len(ps), end),
				map[string]interface{}{"ipc": t.ipc, "maxrx": t.maxrx})
		}
	}
}

// a peer that never completes its handshake must not delay others (C16)
func wireStall(c *Ctx) {
	hs := transport.NewConnHandshaker()
	pn := protoNums[0]
	info := transport.ProtocolInfo{Self: pn.self, Peer: pn.peer, SelfName: pn.name, PeerName: pn.peerName}
	a1, b1 := net.Pipe()
	go func() { // stalled peer: reads our header, sends 3 bytes, then nothing
		buf := make([]byte, 8)
		_, _ = io.ReadFull(b1, buf)
		_, _ = b1.Write([]byte{0, 'S', 'P'})
	}()
	hs.Start(transport.NewConnPipe(a1, info))
	time.Sleep(20 * time.Millisecond)
	a2, b2 := net.Pipe()
	go func() {
		buf := make([]byte, 8)
		_, _ = io.ReadFull(b2, buf)
		_, _ = b2.Write(spHeader(pn.peer))
	}()
	hs.Start(transport.NewConnPipe(a2, info))
	ch := make(chan error, 1)
	go func() {
		_, e := hs.Wait()
		ch <- e
	}()
	c.Class("stalled-handshake-independent", true)
	select {
	case e := <-ch:
		if e != nil {
			c.Violate(fmt.Sprintf("with one peer stalled mid-handshake, a well-behaved peer's handshake failed: %v", e), map[string]interface{}{"scenario": "stall"})
		}
	case <-time.After(3 * time.Second):
		c.Violate("a peer that never completes its handshake delayed a well-behaved peer (Wait did not return within 3s)", map[string]interface{}{"scenario": "stall"})
	}
	_ = b1.Close()
	_ = b2.Close()
	closed := make(chan struct{})
	go func() { hs.Close(); close(closed) }()
	select {
	case <-closed:
	case <-time.After(3 * time.Second):
		c.Violate("handshaker Close hung while a peer was stalled", map[string]interface{}{"scenario": "stall-close"})
	}
}

// message pool (C01/C17): a new message of any size starts empty with enough capacity
func wirePool(c *Ctx) {
	sizes := []int{}
	for _, b := range []int{64, 128, 256, 512, 1024, 4096, 8192, 65536} {
		sizes = append(sizes, b-1, b, b+1)
	}
	sizes = append(sizes, 0, 1, 100000, 1<<20)
	for round := 0; round < 3; round++ {
		var held []*mangos.Message
		for _, sz := range sizes {
			m := mangos.NewMessage(sz)
			class := fmt.Sprintf("pool.new class=%d round=%d", lenClass(sz), round)
			c.Class(class, true)
			c.T.Line(class, fmt.Sprintf("pool.new %d", sz), fmt.Sprintf("%d %d %d", len(m.Body), len(m.Header), cap(m.Body)))
			if len(m.Body) != 0 || len(m.Header) != 0 || cap(m.Body) < sz {
				c.Violate(fmt.Sprintf("NewMessage(%d): len(Body)=%d len(Header)=%d cap(Body)=%d", sz, len(m.Body), len(m.Header), cap(m.Body)),
					map[string]interface{}{"size": sz})
			}
			m.Body = append(m.Body, patterned(uint64(sz), sz)...)
			m.Header = append(m.Header, 1, 2, 3, 4)
			held = append(held, m)
		}
		for _, m := range held {
			m.Free() // back to the pools: the next round draws recycled buffers
		}
	}
}
