package main

// C04 on real stream transports: a request whose transmission *fails while it is being written* (the peer resets the
// connection under the write) is still the context's outstanding request; the retransmission on the next connection
// must be byte-identical to the first one — same request id, same payload — and its reply completes the Recv.  Between
// the failure and the retransmission the message pool is churned with messages of the same size class, so a request
// message that was released while REQ still retains it shows as a changed retransmission (and the ledger of message.go
// reports the release itself).

import (
	"bytes"
	"fmt"
	"io"
	"net"
	"strings"
	"time"

	"go.nanomsg.org/mangos/v3"
	"go.nanomsg.org/mangos/v3/protocol/req"
	_ "go.nanomsg.org/mangos/v3/transport/ipc"
	_ "go.nanomsg.org/mangos/v3/transport/tcp"
)

func runReqRetransmitAfterFailedWrite(c *Ctx) {
	sizes := []int{320, 320, 5000, 60000, 4 << 20}
	if c.Thorough() {
		sizes = append(sizes, 320, 1000, 33000, 1<<20, 320, 5000)
	}
	for i, size := range sizes {
		scheme := []string{"tcp", "ipc"}[i%2]
		addr := "tcp://127.0.0.1:0"
		if scheme == "ipc" {
			addr = fmt.Sprintf("ipc:///tmp/verif-c04-%d-%d.sock", time.Now().UnixNano()%1000000, i)
		}
		s, err := req.NewSocket()
		if err != nil {
			continue
		}
		_ = s.SetOption(mangos.OptionRetryTime, time.Minute) // only the loss of the connection makes it re-send
		_ = s.SetOption(mangos.OptionRecvDeadline, 3*time.Second)
		_ = s.SetOption(mangos.OptionSendDeadline, 3*time.Second)
		l, err := s.NewListener(addr, nil)
		if err == nil {
			err = l.Listen()
		}
		if err != nil {
			_ = s.Close()
			continue
		}
		dial := func() net.Conn {
			a := l.Address()
			var cn net.Conn
			var err error
			if scheme == "tcp" {
				cn, err = net.Dial("tcp", strings.TrimPrefix(a, "tcp://"))
			} else {
				cn, err = net.Dial("unix", strings.TrimPrefix(a, "ipc://"))
			}
			if err != nil {
				return nil
			}
			return cn
		}
		hello := []byte{0, 'S', 'P', 0, 0, byte(mangos.ProtoRep), 0, 0}
		payload := patterned(uint64(7000+i), size)
		sent := make(chan error, 1)
		go func() { sent <- s.Send(payload) }() // waits for a connection
		time.Sleep(20 * time.Millisecond)
		// peer A: says hello and is gone before (small requests) or while (large ones) the request is written to it
		a := dial()
		if a == nil {
			_ = s.Close()
			continue
		}
		_, _ = a.Write(hello)
		if size > 200000 {
			hdr := make([]byte, 8+8+16)
			_ = a.SetReadDeadline(time.Now().Add(time.Second))
			_, _ = io.ReadFull(a, hdr) // our header, the length prefix and a little of the request
		}
		if tc, ok := a.(*net.TCPConn); ok {
			_ = tc.SetLinger(0)
		}
		_ = a.Close()
		time.Sleep(60 * time.Millisecond)
		// churn the pool: whatever was released is handed out again and overwritten
		var churn []*mangos.Message
		for k := 0; k < 64; k++ {
			m := mangos.NewMessage(size + 4)
			m.Body = m.Body[:cap(m.Body)]
			for j := range m.Body {
				m.Body[j] = 0xEE
			}
			churn = append(churn, m)
		}
		for _, m := range churn {
			m.Free()
		}
		// peer B: a well-behaved REP peer
		b := dial()
		if b == nil {
			_ = s.Close()
			continue
		}
		_, _ = b.Write(hello)
		hdr := make([]byte, 8)
		_ = b.SetReadDeadline(time.Now().Add(2 * time.Second))
		_, _ = io.ReadFull(b, hdr)
		rb := &tcpRaw{b}
		var got []byte
		var ok bool
		if scheme == "ipc" {
			got, ok = ipcNext(b, 3*time.Second)
		} else {
			got, ok = rb.next(3 * time.Second)
		}
		class := fmt.Sprintf("req retransmission after a failed write %s size-class=%d arrived=%v", scheme, lenClass(size), ok)
		c.Class(class, true)
		select {
		case err := <-sent:
			if err != nil {
				// the Send itself never got scheduled (no connection accepted in time): nothing to judge
				_ = b.Close()
				_ = s.Close()
				continue
			}
		case <-time.After(3 * time.Second):
		}
		switch {
		case !ok:
			c.Violate(fmt.Sprintf("REQ over %s: a %d-byte request whose first connection was reset was not transmitted to the next connection within 3 s", scheme, size),
				map[string]interface{}{"transport": scheme, "size": size})
		case len(got) != size+4 || got[0]&0x80 == 0 || !bytes.Equal(got[4:], payload):
			n := len(got)
			if n > 24 {
				n = 24
			}
			c.Violate(fmt.Sprintf("REQ over %s: the retransmission of a %d-byte request after its first connection was reset is not the request: %d bytes arrived (want %d), beginning %x — the retained request message was released and recycled while still outstanding", scheme, size, len(got), size+4, got[:n]),
				map[string]interface{}{"transport": scheme, "size": size, "history": "Send (waits for a connection); peer A connects, says hello, is reset; 64 messages of the same size allocated, filled with 0xEE and freed; peer B connects and reads one frame"})
		default:
			reply := append(append([]byte{}, got[:4]...), []byte("ok")...)
			_, _ = b.Write(frame(scheme == "ipc", reply))
			if m, err := s.Recv(); err != nil || string(m) != "ok" {
				c.Violate(fmt.Sprintf("REQ over %s: the reply to the retransmitted %d-byte request did not complete Recv (%v, %q)", scheme, size, err, m), nil)
			}
		}
		_ = b.Close()
		_ = s.Close()
		time.Sleep(10 * time.Millisecond)
		if ledgerAll {
			ledgerCheckAs(c, fmt.Sprintf("REQ over %s, %d-byte request written to a connection that is reset", scheme, size), nil,
				"the library released a message it no longer held — the request message REQ retains for retransmission goes back to the pool while still outstanding")
		}
	}
}

// one frame of the ipc mapping: type byte 1, 8-byte length, payload
func ipcNext(cn net.Conn, d time.Duration) ([]byte, bool) {
	_ = cn.SetReadDeadline(time.Now().Add(d))
	var t [1]byte
	if _, err := io.ReadFull(cn, t[:]); err != nil || t[0] != 1 {
		return nil, false
	}
	return (&tcpRaw{cn}).next(d)
}
